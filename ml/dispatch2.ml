(* Socket-level scenarios: same case syntax as the Rust harness (`sock TYPE / op / op ...`). *)
open BinNums
module List = Stdlib.List
module String = Stdlib.String

let rec pos_of_int n : positive =
  if n = 1 then Coq_xH
  else if n land 1 = 0 then Coq_xO (pos_of_int (n lsr 1))
  else Coq_xI (pos_of_int (n lsr 1))
let n_of_int n : coq_N = if n = 0 then N0 else Npos (pos_of_int n)
let rec int_of_pos = function
  | Coq_xH -> 1
  | Coq_xO p -> 2 * int_of_pos p
  | Coq_xI p -> 2 * int_of_pos p + 1
let int_of_n = function N0 -> 0 | Npos p -> int_of_pos p

let hex_of (l : coq_N list) =
  if l = [] then "-" else String.concat "" (List.map (fun b -> Printf.sprintf "%02x" (int_of_n b)) l)
let bytes_tok (t : string) : coq_N list =
  let parts = String.split_on_char '+' t in
  List.concat_map (fun part ->
    if part = "-" || part = "" then []
    else if part.[0] = 'r' then begin
      let rest = String.sub part 1 (String.length part - 1) in
      match String.split_on_char '.' rest with
      | [n; b] -> let b = n_of_int (int_of_string ("0x" ^ b)) in List.init (int_of_string n) (fun _ -> b)
      | _ -> failwith "bad r token"
    end else
      List.init (String.length part / 2) (fun i -> n_of_int (int_of_string ("0x" ^ String.sub part (2*i) 2)))
  ) parts
let msg_hex m = if m = [] then "<none>" else String.concat ";" (List.map hex_of m)
let bytes_of_str s = List.init (String.length s) (fun i -> n_of_int (Char.code s.[i]))

let zerr_str = function
  | Res.EDecode -> "Codec.Decode" | Res.EGreeting -> "Codec.Greeting" | Res.EMechanism -> "Codec.Mechanism"
  | Res.ECommand -> "Codec.Command" | Res.EIoEof -> "Codec.Io.UnexpectedEof" | Res.EIo _ -> "Codec.Io"
  | Res.EOther -> "Other" | Res.EUnsupportedVersion -> "UnsupportedVersion"
  | Res.EPeerIdentity -> "PeerIdentity" | Res.ENoMessage -> "NoMessage"
  | Res.EReturnToSender -> "ReturnToSender" | Res.EBufferFull -> "BufferFull" | Res.ENotFound -> "Other"

let conn_id (s : string) = n_of_int (Char.code s.[0] - Char.code 'a')
let conn_name (n : coq_N) = String.make 1 (Char.chr (Char.code 'a' + int_of_n n))

exception Unsupported of string

let split_ops (args : string list) : string list list =
  (* args: tokens with "/" separators *)
  let rec go cur acc = function
    | [] -> List.rev (List.rev cur :: acc)
    | "/" :: t -> go [] (List.rev cur :: acc) t
    | x :: t -> go (x :: cur) acc t in
  go [] [] args

let opt_val pref toks =
  List.fold_left (fun acc t ->
    let lp = String.length pref in
    if String.length t >= lp && String.sub t 0 lp = pref then Some (String.sub t lp (String.length t - lp)) else acc) None toks

let obs_str tag (o : World.obs) : string =
  match o with
  | World.BAtt (c, ann) ->
      Printf.sprintf "att:%s=ok:%s" (conn_name c) (match ann with Some (_ :: _ as b) -> hex_of b | _ -> "auto")
  | World.BRecv (from, m) ->
      (match from with
       | Some k -> Printf.sprintf "%s=ok:@%s;%s" tag (conn_name k) (msg_hex m)
       | None -> Printf.sprintf "%s=ok:%s" tag (msg_hex m))
  | World.BRecvErr e -> Printf.sprintf "%s=err:%s" tag (zerr_str e)
  | World.BRecvPending -> tag ^ "=pending"
  | World.BSendOk -> "s=ok"
  | World.BSendErr (e, back) ->
      (match back with
       | Some m -> Printf.sprintf "s=err:%s:%s" (zerr_str e) (msg_hex m)
       | None -> "s=err:" ^ zerr_str e)
  | World.BSubOk b -> if b then "sub=ok" else "unsub=ok"
  | World.BWire (c, b) -> Printf.sprintf "wire:%s=%s" (conn_name c) (hex_of b)
  | World.BDropped (c, r, w) ->
      let s = (if r then "r" else "") ^ (if w then "w" else "") in
      Printf.sprintf "dropped:%s=%s" (conn_name c) (if s = "" then "-" else s)
  | World.BUnsupported -> tag ^ ":unsupported"

let run_sock (args : string list) : string =
  match split_ops args with
  | [] -> "empty"
  | head :: ops ->
    let t = match Codec.stype_of_name (bytes_of_str (List.hd head)) with Some t -> t | None -> failwith "stype" in
    let w = ref (World.world0 t) in
    let out = ref [] in
    let emit tag obs = List.iter (fun o -> out := obs_str tag o :: !out) obs in
    let do_op tag o = let (obs, w') = World.step !w o in w := w'; emit tag obs in
    List.iter (fun toks ->
      match toks with
      | [] -> ()
      | "attach" :: c :: _pt :: opts ->
          List.iter (fun o ->
            let ok = List.exists (fun p -> String.length o >= String.length p && String.sub o 0 (String.length p) = p) ["id="] in
            if not ok then raise (Unsupported ("attach option " ^ o))) opts;
          let ann = match opt_val "id=" opts with Some h -> Some (bytes_tok h) | None -> None in
          do_op "att" (World.OAttach (conn_id c, ann))
      | ["feed"; c; h] -> do_op "" (World.OFeed (conn_id c, bytes_tok h))
      | ["eof"; c] -> do_op "" (World.OEof (conn_id c))
      | ["recv"] -> do_op "r" World.ORecv
      | ["recvp"; k] -> if int_of_string k = 0 then out := "rp=pending" :: !out else do_op "rp" World.ORecv
      | ["send"; m] ->
          let fs = String.split_on_char ';' m in
          (match fs with
           | f0 :: rest when String.length f0 > 0 && f0.[0] = '@' ->
               do_op "s" (World.OSendTo (conn_id (String.sub f0 1 1), List.map bytes_tok rest))
           | _ -> do_op "s" (World.OSend (List.map bytes_tok fs)))
      | ["sub"; h] -> do_op "sub" (World.OSub (bytes_tok h))
      | ["unsub"; h] -> do_op "unsub" (World.OUnsub (bytes_tok h))
      | ["settle"] -> do_op "" World.OSettle
      | ["wire"; c] -> do_op "" (World.OWire (conn_id c))
      | ["dropped"; c] -> do_op "" (World.ODropped (conn_id c))
      | x :: _ -> raise (Unsupported x)) ops;
    String.concat " " (List.rev !out)

(* fair queue labels: same syntax as harness/src/fq.rs *)
let parse_ev (t : string) : FairQueue.label =
  if t = "Y" then FairQueue.LYield else
  let c = t.[0] and rest = String.sub t 1 (String.length t - 1) in
  match c with
  | 'I' -> FairQueue.LInsert (n_of_int (int_of_string rest))
  | 'R' -> FairQueue.LRemove (n_of_int (int_of_string rest))
  | 'C' -> FairQueue.LClose (n_of_int (int_of_string rest))
  | 'W' -> FairQueue.LWake (n_of_int (int_of_string rest), true)
  | 'w' -> FairQueue.LWake (n_of_int (int_of_string rest), false)
  | 'A' -> (match String.split_on_char '.' rest with
            | [k; x] -> FairQueue.LArrive (n_of_int (int_of_string k), n_of_int (int_of_string x))
            | _ -> failwith "A")
  | _ -> failwith ("fq event " ^ t)

let rec nat_of_int n : Datatypes.nat = if n = 0 then Datatypes.O else Datatypes.S (nat_of_int (n - 1))
let rec int_of_nat = function Datatypes.O -> 0 | Datatypes.S n -> 1 + int_of_nat n

let ev_str (es : FairQueue.event list) : string =
  match es with
  | [FairQueue.EReady (k, x)] -> Printf.sprintf "R%d.%d" (int_of_n k) (int_of_n x)
  | [FairQueue.EPending] -> "Pend"
  | [FairQueue.ENone] -> "None"
  | [] -> "?none"
  | _ -> "?many"

let run_fq (args : string list) : string =
  let ops = split_ops args in
  let block = not (List.exists (fun o -> List.mem "noblock" o) ops) in
  let q = ref (FairQueue.fq0 block) in
  let out = ref [] in
  let wakes () = int_of_n (!q).FairQueue.f_wakes in
  List.iter (fun toks ->
    match toks with
    | [] | ["noblock"] -> ()
    | ["D"] ->
        let (q1, ess) = FairQueue.drain !q in
        q := q1;
        out := Printf.sprintf "D[%s]@%d" (String.concat "," (List.map ev_str ess)) (wakes ()) :: !out
    | [lab] when lab.[0] = 'P' ->
        let (idx, evs) =
          if String.length lab > 1 then
            (match String.split_on_char '~' (String.sub lab 2 (String.length lab - 2)) with
             | i :: evs -> (int_of_string i, List.map parse_ev evs)
             | [] -> (0, []))
          else (0, []) in
        let (q1, es) = FairQueue.poll !q (nat_of_int idx) evs in
        q := q1;
        out := Printf.sprintf "%s@%d" (ev_str es) (wakes ()) :: !out
    | [lab] ->
        let (q1, _) = FairQueue.step !q (parse_ev lab) in
        q := q1;
        out := Printf.sprintf "@%d" (wakes ()) :: !out
    | _ -> failwith "fq label") ops;
  let left = FairQueue.left_items !q in
  let ls = String.concat "," (List.map (fun (k, n) -> Printf.sprintf "%d:%d" (int_of_n k) (int_of_nat n)) left) in
  String.concat " " (List.rev !out @ ["left=" ^ (if ls = "" then "-" else ls)])

(* try_send: same case syntax as harness/src/ts.rs *)
let kind_code = function "BrokenPipe" -> 1 | "ConnectionReset" -> 2 | "ConnectionAborted" -> 3 | "TimedOut" -> 4 | "Other" -> 5 | "UnexpectedEof" -> 6 | "WouldBlock" -> 7 | _ -> 5
let kind_name = function 1 -> "BrokenPipe" | 2 -> "ConnectionReset" | 3 -> "ConnectionAborted" | 4 -> "TimedOut" | 5 -> "Other" | 6 -> "UnexpectedEof" | 7 -> "WouldBlock" | _ -> "Other"
let huge = n_of_int (1 lsl 62)
let parse_ans (t : string) : TrySend.wr_ans =
  if t = "p" then TrySend.WPending else if t = "z" then TrySend.WZero else if t = "a" then TrySend.Wrote huge
  else if t.[0] = 'w' then TrySend.Wrote (n_of_int (int_of_string (String.sub t 1 (String.length t - 1))))
  else if String.length t > 2 && String.sub t 0 2 = "e:" then TrySend.WErr (n_of_int (kind_code (String.sub t 2 (String.length t - 2))))
  else failwith ("wplan token " ^ t)

let fnv (l : coq_N list) : int =
  List.fold_left (fun h b -> ((h lxor (int_of_n b)) * 0x01000193) land 0xffffffff) 0x811c9dc5 l

let pattern i len = List.init len (fun j -> n_of_int ((i * 37 + j * 11 + 5) land 0xff))

let run_ts (args : string list) : string =
  match split_ops args with
  | [] -> "empty"
  | head :: ops ->
    let plan = match opt_val "plan=" head with
      | Some p -> List.map parse_ans (List.filter (fun x -> x <> "") (String.split_on_char ',' p)) | None -> [] in
    let dflt = match opt_val "dflt=" head with Some d -> parse_ans d | None -> TrySend.Wrote huge in
    let lens = List.filter_map (fun o -> match o with ["send"; l] -> Some (int_of_string l) | _ -> None) ops in
    let encs = List.mapi (fun i l -> Codec.encode_frames [pattern i l]) lens in
    let (rs, s) = TrySend.try_sends (TrySend.sink0 { TrySend.t_plan = plan; TrySend.t_dflt = dflt }) encs in
    let rstr = List.map (function
      | TrySend.TsOk -> "ok" | TrySend.TsFull -> "err:BufferFull"
      | TrySend.TsErr k -> "err:Codec.Io." ^ kind_name (int_of_n k)
      | TrySend.TsEof -> "err:Codec.Io.UnexpectedEof") rs in
    let all = s.TrySend.k_written @ s.TrySend.k_buf in
    String.concat " " (rstr @ [Printf.sprintf "written=%d buffered=%d hwm=%d sum=%08x" (List.length s.TrySend.k_written)
                                 (List.length s.TrySend.k_buf) (int_of_n Src.hwm) (fnv all)])

(* PUB / XPUB fan-out over scripted subscriber connections (Model/PubFan.v); case lines come from zvlib/c12.py model_cases *)
let run_pubfan (args : string list) : string =
  match split_ops args with
  | [] -> "empty"
  | _head :: ops ->
    let st = ref [] in
    let out = ref [] in
    let step o = let (obs, us) = PubFan.fstep !st o in st := us; obs in
    let msg_of t = List.map bytes_tok (String.split_on_char ';' t) in
    List.iter (fun toks ->
      match toks with
      | [] -> ()
      | ["attach"; c] -> ignore (step (PubFan.FAttach (conn_id c)))
      | ["sub"; c; m] -> ignore (step (PubFan.FSub (conn_id c, msg_of m)))
      | ["mode"; c; a] -> ignore (step (PubFan.FMode (conn_id c, parse_ans a)))
      | ["plan"; c; l] ->
          ignore (step (PubFan.FPlan (conn_id c, List.map parse_ans (List.filter (fun x -> x <> "") (String.split_on_char ',' l)))))
      | ["pub"; m] -> ignore (step (PubFan.FPublish (msg_of m))); out := "s=ok" :: !out
      | ["wire"; c] ->
          (match step (PubFan.FWire (conn_id c)) with
           | [b] -> out := Printf.sprintf "wire:%s=%d:%08x" c (List.length b) (fnv b) :: !out
           | _ -> out := ("wire:" ^ c ^ "=?") :: !out)
      | ["dropped"; c] ->
          (match PubFan.get (conn_id c) !st with
           | Some u -> out := Printf.sprintf "dropped:%s=%s" c (if u.PubFan.u_live then "-" else "w") :: !out
           | None -> out := ("dropped:" ^ c ^ "=?") :: !out)
      | t :: _ -> raise (Unsupported ("pubfan op " ^ t))) ops;
    String.concat " " (List.rev !out)

(* PUSH / DEALER round-robin send over scripted peer connections (Model/RrSend.v); lines from zvlib/c10.py model_cases *)
let run_rrsend (args : string list) : string =
  match split_ops args with
  | [] -> "empty"
  | _head :: ops ->
    let st = ref RrSend.rstate0 in
    let out = ref [] in
    let seen : (string, int) Hashtbl.t = Hashtbl.create 8 in
    let step o = let (r, s) = RrSend.rstep !st o in st := s; r in
    let msg_of t = List.map bytes_tok (String.split_on_char ';' t) in
    let fl = function
      | RrSend.FlErr e -> "Codec.Io." ^ kind_name (int_of_n e)
      | RrSend.FlZero -> "Codec.Io.UnexpectedEof"
      | RrSend.FlOk -> "ok?" | RrSend.FlStall -> "stall?" in
    List.iter (fun toks ->
      match toks with
      | [] -> ()
      | ["attach"; c] -> ignore (step (RrSend.RAttach (conn_id c)))
      | ["lost"; c] -> ignore (step (RrSend.RLost (conn_id c)))
      | ["mode"; c; a] -> ignore (step (RrSend.RMode (conn_id c, parse_ans a)))
      | ["plan"; c; l] ->
          ignore (step (RrSend.RPlan (conn_id c, List.map parse_ans (List.filter (fun x -> x <> "") (String.split_on_char ',' l)))))
      | ["send"; m] ->
          (match step (RrSend.RSend (msg_of m)) with
           | Some (RrSend.ROk _) -> out := "s=ok" :: !out
           | Some (RrSend.RErr (_, e)) -> out := ("s=err:" ^ fl e) :: !out
           | Some RrSend.RNoPeer -> out := "s=err:ReturnToSender" :: !out
           | Some (RrSend.RStall _) -> out := "s=pending" :: !out
           | None -> out := "s=?" :: !out)
      | ["wire"; c] ->
          let all = RrSend.wire_of (conn_id c) !st in
          let n0 = (try Hashtbl.find seen c with Not_found -> 0) in
          let rec drop n l = if n = 0 then l else (match l with [] -> [] | _ :: t -> drop (n - 1) t) in
          let d = drop n0 all in
          Hashtbl.replace seen c (List.length all);
          out := Printf.sprintf "wire:%s=%s" c (if d = [] then "-" else hex_of d) :: !out
      | t :: _ -> raise (Unsupported ("rrsend op " ^ t))) ops;
    String.concat " " (List.rev !out)

(* ROUTER send to a named peer, REQ lock-step round robin, SUB broadcast over scripted connections (Model/DirSend.v);
   case lines come from zvlib/scripted.py *)
let run_dirsend (args : string list) : string =
  match split_ops args with
  | [] -> "empty"
  | head :: ops ->
    let flavour = (match head with f :: _ -> f | [] -> "") in
    let q = ref { DirSend.q_base = RrSend.rstate0; DirSend.q_cur = None } in
    let s = ref { DirSend.s_peers = []; DirSend.s_subs = [] } in
    let out = ref [] in
    let seen : (string, int) Hashtbl.t = Hashtbl.create 8 in
    let msg_of t = List.map bytes_tok (String.split_on_char ';' t) in
    let answers l = List.map parse_ans (List.filter (fun x -> x <> "") (String.split_on_char ',' l)) in
    let fl = function
      | RrSend.FlErr e -> "Codec.Io." ^ kind_name (int_of_n e)
      | RrSend.FlZero -> "Codec.Io.UnexpectedEof"
      | RrSend.FlOk -> "ok?" | RrSend.FlStall -> "stall?" in
    let base_step o = let (_, st) = RrSend.rstep (!q).DirSend.q_base o in q := { !q with DirSend.q_base = st } in
    let sub_step o = let (r, st) = DirSend.sstep !s o in s := st; r in
    let rec drop n l = if n = 0 then l else (match l with [] -> [] | _ :: t -> drop (n - 1) t) in
    let wire c all =
      let n0 = (try Hashtbl.find seen c with Not_found -> 0) in
      let d = drop n0 all in
      Hashtbl.replace seen c (List.length all);
      out := Printf.sprintf "wire:%s=%s" c (if d = [] then "-" else hex_of d) :: !out in
    List.iter (fun toks ->
      match flavour, toks with
      | _, [] -> ()
      | "SUB", ["attach"; c] -> ignore (sub_step (DirSend.SAttach (conn_id c)))
      | "SUB", ["mode"; c; a] -> ignore (sub_step (DirSend.SMode (conn_id c, parse_ans a)))
      | "SUB", ["plan"; c; l] -> ignore (sub_step (DirSend.SPlan (conn_id c, answers l)))
      | "SUB", [("sub" | "unsub") as o; t] ->
          let r = sub_step (if o = "sub" then DirSend.SSub (bytes_tok t) else DirSend.SUnsub (bytes_tok t)) in
          out := (match r with
                  | Some DirSend.BOk -> o ^ "=ok"
                  | Some (DirSend.BFirstErr (_, e)) -> o ^ "=err:" ^ fl e
                  | Some (DirSend.BStall _) -> o ^ "=pending"
                  | None -> o ^ "=?") :: !out
      | "SUB", ["wire"; c] ->
          let all = (match RrSend.pget (conn_id c) (!s).DirSend.s_peers with
                     | Some p -> p.RrSend.p_sink.TrySend.k_written | None -> []) in
          wire c all
      | _, ["attach"; c] -> base_step (RrSend.RAttach (conn_id c))
      | _, ["mode"; c; a] -> base_step (RrSend.RMode (conn_id c, parse_ans a))
      | _, ["plan"; c; l] -> base_step (RrSend.RPlan (conn_id c, answers l))
      | _, ["wire"; c] -> wire c (RrSend.wire_of (conn_id c) (!q).DirSend.q_base)
      | "ROUTER", ["sendto"; c; m] ->
          let (r, st) = DirSend.send_to (!q).DirSend.q_base (conn_id c) (msg_of m) in
          q := { !q with DirSend.q_base = st };
          out := (match r with
                  | RrSend.ROk _ -> "s=ok" | RrSend.RErr (_, e) -> "s=err:" ^ fl e
                  | RrSend.RNoPeer -> "s=err:Other" | RrSend.RStall _ -> "s=pending") :: !out
      | "REQ", ["send"; m] ->
          let (r, q') = DirSend.req_send !q (msg_of m) in
          q := q';
          out := (match r with
                  | DirSend.QSent _ -> "s=ok" | DirSend.QErr (_, e) -> "s=err:" ^ fl e
                  | DirSend.QNoPeer | DirSend.QBusy -> "s=err:ReturnToSender" | DirSend.QStall _ -> "s=pending") :: !out
      | "REQ", ["settle"] -> q := DirSend.req_settled !q
      | _, t :: _ -> raise (Unsupported ("dirsend op " ^ t))) ops;
    String.concat " " (List.rev !out)

(* proxy: same case syntax as harness/src/proxy.rs *)
let run_proxy (args : string list) : string =
  match split_ops args with
  | [] -> "empty"
  | head :: ops ->
    let ty s = match Codec.stype_of_name (bytes_of_str s) with Some t -> t | None -> failwith "stype" in
    let with_cap = List.mem "cap" head in
    let capw = if with_cap then
        let (_, w) = World.step (World.world0 Codec.PUSH) (World.OAttach (conn_id "c", None)) in
        let (_, w) = World.step w (World.OWire (conn_id "c")) in Some w
      else None in
    let st = ref (Proxy.pstate0 (World.world0 (ty (List.nth head 0))) (World.world0 (ty (List.nth head 1))) capw) in
    let out = ref [] in
    let upd_side c f =
      let s = !st in
      if c = 'f' then begin
        let (obs, w') = f s.Proxy.p_front in
        st := { s with Proxy.p_front = w' }; obs
      end else begin
        let (obs, w') = f s.Proxy.p_back in
        st := { s with Proxy.p_back = w' }; obs
      end in
    let settle () =
      st := Proxy.proxy_settle (nat_of_int 10000) !st in
    List.iter (fun toks ->
      match toks with
      | [] -> ()
      | ["settle"] -> settle ()
      | ["status"] -> settle (); out := (if (!st).Proxy.p_done then "status=ended" else "status=running") :: !out
      | ["cwire"] ->
          (match (!st).Proxy.p_cap with
           | Some wc ->
               let (obs, wc') = World.step wc (World.OWire (conn_id "c")) in
               st := { !st with Proxy.p_cap = Some wc' };
               List.iter (fun o -> match o with World.BWire (_, b) -> out := ("cwire=" ^ hex_of b) :: !out | _ -> ()) obs
           | None -> out := "cwire=-" :: !out)
      | op :: rest ->
          let c = op.[0] and cmd = String.sub op 1 (String.length op - 1) in
          (match cmd, rest with
           | "attach", name :: _pt :: opts ->
               let ann = match opt_val "id=" opts with Some h -> Some (bytes_tok h) | None -> None in
               let _ = upd_side c (fun w -> World.step w (World.OAttach (conn_id name, ann))) in
               out := Printf.sprintf "%catt:%s=ok" c name :: !out
           | "feed", [name; h] -> ignore (upd_side c (fun w -> World.step w (World.OFeed (conn_id name, bytes_tok h))))
           | "eof", [name] -> ignore (upd_side c (fun w -> World.step w (World.OEof (conn_id name))))
           | "wire", [name] ->
               let obs = upd_side c (fun w -> World.step w (World.OWire (conn_id name))) in
               List.iter (fun o -> match o with World.BWire (_, b) -> out := Printf.sprintf "%cwire:%s=%s" c name (hex_of b) :: !out | _ -> ()) obs
           | _ -> raise (Unsupported op))) ops;
    String.concat " " (List.rev !out)

(* ---- chain: same case syntax as harness/src/chain.rs.  By the Chain theorems the outcome does
   not depend on the schedule: the model runs every pending hop to completion before a recv of a client. ---- *)
let run_chain (args : string list) : string =
  match split_ops args with
  | [] -> "empty"
  | head :: ops ->
    let nc = int_of_string (List.nth head 0) and nw = int_of_string (List.nth head 1) in
    let with_cap = List.mem "cap" head in
    let ids = List.init nc (fun c ->
      let s = Printf.sprintf "C%d" c in
      bytes_of_str (String.concat "" (List.init (if c mod 2 = 0 then 1 else 8) (fun _ -> s)))) in
    let reply d = [n_of_int 7] :: d in
    let st = ref (Chain.chain0 ids (nat_of_int nw)) in
    let stepc e = st := Chain.cstep reply !st e in
    let settle () =
      let continue = ref true and guard = ref 0 in
      while !continue && !guard < 1000 do
        let before = !st in
        for c = 0 to nc - 1 do stepc (Chain.CFront (nat_of_int c)) done;
        for w = 0 to nw - 1 do stepc (Chain.CServe (nat_of_int w)) done;
        for w = 0 to nw - 1 do stepc (Chain.CBack (nat_of_int w)) done;
        incr guard;
        continue := (!st <> before)
      done in
    let out = ref [] in
    List.iter (fun toks ->
      match toks with
      | [] -> ()
      | ["req"; c; fs] ->
          let c = int_of_string c in
          let p = List.map bytes_tok (String.split_on_char ';' fs) in
          let cl = List.nth (!st).Chain.ch_clients c in
          if cl.Chain.cl_out then out := ("q=err:ReturnToSender:" ^ msg_hex p) :: !out
          else begin stepc (Chain.CReq (nat_of_int c, p)); out := "q=ok" :: !out end
      | ["recv"; c] ->
          let c = int_of_string c in
          let cl = List.nth (!st).Chain.ch_clients c in
          if not cl.Chain.cl_out then out := "r=err:Other" :: !out
          else begin
            settle ();
            let n0 = List.length cl.Chain.cl_got in
            stepc (Chain.CRecv (nat_of_int c));
            let cl' = List.nth (!st).Chain.ch_clients c in
            if List.length cl'.Chain.cl_got > n0 then out := ("r=ok:" ^ msg_hex (List.nth cl'.Chain.cl_got n0)) :: !out
            else if cl'.Chain.cl_out then out := "r=timeout" :: !out
            else out := "r=err:Other" :: !out
          end
      | op :: _ -> raise (Unsupported op)) ops;
    if with_cap then out := "cap=all" :: !out;
    settle ();
    out := (if (!st).Chain.ch_lost = [] then "proxy=running" else "proxy=ended") :: !out;
    String.concat " " (List.rev !out)

(* ---- endpoints.  IPv6 text form (std::net::Ipv6Addr FromStr / Display) is supplied here, as the
   instantiation of the model's Section variables parse6 / fmt6: hand-written, trusted, and
   differential-tested against the real std through the endpoint cases. ---- *)
let utf8_decode (b : int list) : int list option =
  let rec go acc = function
    | [] -> Some (List.rev acc)
    | c :: t when c < 0x80 -> go (c :: acc) t
    | c :: c1 :: t when c land 0xe0 = 0xc0 -> go ((((c land 0x1f) lsl 6) lor (c1 land 0x3f)) :: acc) t
    | c :: c1 :: c2 :: t when c land 0xf0 = 0xe0 -> go ((((c land 0x0f) lsl 12) lor ((c1 land 0x3f) lsl 6) lor (c2 land 0x3f)) :: acc) t
    | c :: c1 :: c2 :: c3 :: t when c land 0xf8 = 0xf0 ->
        go ((((c land 0x07) lsl 18) lor ((c1 land 0x3f) lsl 12) lor ((c2 land 0x3f) lsl 6) lor (c3 land 0x3f)) :: acc) t
    | _ -> None in
  go [] b
let utf8_encode (cs : int list) : int list =
  List.concat_map (fun c ->
    if c < 0x80 then [c]
    else if c < 0x800 then [0xc0 lor (c lsr 6); 0x80 lor (c land 0x3f)]
    else if c < 0x10000 then [0xe0 lor (c lsr 12); 0x80 lor ((c lsr 6) land 0x3f); 0x80 lor (c land 0x3f)]
    else [0xf0 lor (c lsr 18); 0x80 lor ((c lsr 12) land 0x3f); 0x80 lor ((c lsr 6) land 0x3f); 0x80 lor (c land 0x3f)]) cs

(* std::net parser: groups of 1-4 hex digits, one optional "::" standing for >= 1 zero group,
   optional dotted IPv4 in the last two groups (octets 1-3 digits, no leading zero) *)
let ip6_parse (s : int list) : int list option =
  let str = String.init (List.length s) (fun i -> let c = List.nth s i in if c < 128 then Char.chr c else '?') in
  if List.exists (fun c -> c >= 128) s then None else
  let n = String.length str in
  let is_hex c = (c >= '0' && c <= '9') || (c >= 'a' && c <= 'f') || (c >= 'A' && c <= 'F') in
  let hexv c = if c <= '9' then Char.code c - 48 else (Char.code (Char.lowercase_ascii c) - 87) in
  let read_ipv4 pos =
    (* returns Some (a,b,c,d,newpos) *)
    let read_octet p =
      let q = ref p in
      while !q < n && !q - p < 3 && str.[!q] >= '0' && str.[!q] <= '9' do incr q done;
      if !q = p then None else
      let t = String.sub str p (!q - p) in
      if String.length t > 1 && t.[0] = '0' then None else
      let v = int_of_string t in if v > 255 then None else Some (v, !q) in
    match read_octet pos with
    | None -> None
    | Some (a, p1) -> if p1 >= n || str.[p1] <> '.' then None else
      (match read_octet (p1 + 1) with
       | None -> None
       | Some (b, p2) -> if p2 >= n || str.[p2] <> '.' then None else
         (match read_octet (p2 + 1) with
          | None -> None
          | Some (c, p3) -> if p3 >= n || str.[p3] <> '.' then None else
            (match read_octet (p3 + 1) with
             | None -> None
             | Some (d, p4) -> Some (a, b, c, d, p4)))) in
  let read_group pos =
    let q = ref pos in
    while !q < n && !q - pos < 4 && is_hex str.[!q] do incr q done;
    if !q = pos then None else begin
      let v = ref 0 in
      for i = pos to !q - 1 do v := !v * 16 + hexv str.[i] done;
      Some (!v, !q)
    end in
  (* read up to limit groups starting at pos; returns (groups, used_ipv4, newpos) *)
  let read_groups pos limit =
    let rec go i pos acc =
      if i >= limit then (List.rev acc, false, pos) else
      let start = if i = 0 then Some pos else (if pos < n && str.[pos] = ':' then Some (pos + 1) else None) in
      match start with
      | None -> (List.rev acc, false, pos)
      | Some p ->
        let v4 = if i < limit - 1 then read_ipv4 p else None in
        (match v4 with
         | Some (a, b, c, d, np) -> (List.rev ((c * 256 + d) :: (a * 256 + b) :: acc), true, np)
         | None ->
           (match read_group p with
            | Some (v, np) -> go (i + 1) np (v :: acc)
            | None -> (List.rev acc, false, pos))) in
    go 0 pos [] in
  let (head, head_v4, p) = read_groups 0 8 in
  if List.length head = 8 then (if p = n then Some head else None)
  else if head_v4 then None
  else if not (p + 1 < n && str.[p] = ':' && str.[p + 1] = ':') then None
  else begin
    let limit = 8 - (List.length head + 1) in
    let (tail, _, p2) = read_groups (p + 2) limit in
    if p2 <> n then None else
    Some (head @ List.init (8 - List.length head - List.length tail) (fun _ -> 0) @ tail)
  end

let ip6_fmt (g : int list) : int list =
  let s =
    match g with
    | [0;0;0;0;0;0;0;0] -> "::"
    | [0;0;0;0;0;0;0;1] -> "::1"
    | [0;0;0;0;0;0xffff;a;b] -> Printf.sprintf "::ffff:%d.%d.%d.%d" (a lsr 8) (a land 255) (b lsr 8) (b land 255)
    | _ ->
      (* longest run of zeros (length > 1), first one on ties *)
      let arr = Array.of_list g in
      let best = ref (-1, 0) and cur = ref (-1, 0) in
      Array.iteri (fun i v ->
        if v = 0 then begin
          (if fst !cur < 0 then cur := (i, 1) else cur := (fst !cur, snd !cur + 1));
          if snd !cur > snd !best then best := !cur
        end else cur := (-1, 0)) arr;
      let (bs, bl) = !best in
      let hexs lo hi = String.concat ":" (List.init (hi - lo) (fun i -> Printf.sprintf "%x" arr.(lo + i))) in
      if bl > 1 then hexs 0 bs ^ "::" ^ hexs (bs + bl) 8 else hexs 0 8 in
  List.init (String.length s) (fun i -> Char.code s.[i])

let run_ep (args : string list) : string =
  let b = List.map int_of_n (bytes_tok (List.hd args)) in
  match utf8_decode b with
  | None -> "not-utf8"
  | Some cs ->
    let p6 (s : coq_N list) = match ip6_parse (List.map int_of_n s) with Some g -> Some (List.map n_of_int g) | None -> None in
    let f6 (g : coq_N list) = List.map n_of_int (ip6_fmt (List.map int_of_n g)) in
    let s = List.map n_of_int cs in
    (match Endpoint.parse_endpoint p6 s with
     | None -> "err"
     | Some e ->
       let canon = match e with
         | Endpoint.ETcp (Endpoint.HIp4 (a, b, c, d), p) -> Printf.sprintf "tcp:ip4:%d.%d.%d.%d:%d" (int_of_n a) (int_of_n b) (int_of_n c) (int_of_n d) (int_of_n p)
         | Endpoint.ETcp (Endpoint.HIp6 g, p) -> Printf.sprintf "tcp:ip6:%s:%d" (String.concat "." (List.map (fun x -> Printf.sprintf "%x" (int_of_n x)) g)) (int_of_n p)
         | Endpoint.ETcp (Endpoint.HDomain d, p) -> Printf.sprintf "tcp:dom:%s:%d" (hex_of (List.map n_of_int (utf8_encode (List.map int_of_n d)))) (int_of_n p)
         | Endpoint.EIpc path -> Printf.sprintf "ipc:%s" (hex_of (List.map n_of_int (utf8_encode (List.map int_of_n path)))) in
       let text = Endpoint.fmt_endpoint f6 e in
       let rt = match Endpoint.parse_endpoint p6 text with
         | Some e2 -> if e2 = e then "ok" else "ne"
         | None -> "err" in
       Printf.sprintf "ok:%s rt=%s fmt=%s" canon rt (hex_of (List.map n_of_int (utf8_encode (List.map int_of_n text)))))

(* bind table against recorded OS answers:  b+K (OS listens on resolved endpoint K) | b- (OS refused) | bx (bad text) | uK | ux *)
let run_bindtable (args : string list) : string =
  let ops = List.map (fun t ->
    if t = "b-" then Runtime.BBind None
    else if t = "bx" then Runtime.BBindBadText
    else if t = "ux" then Runtime.BUnbind (n_of_int 99999)
    else if String.length t > 2 && String.sub t 0 2 = "b+" then Runtime.BBind (Some (n_of_int (int_of_string (String.sub t 2 (String.length t - 2)))))
    else if t.[0] = 'u' then Runtime.BUnbind (n_of_int (int_of_string (String.sub t 1 (String.length t - 1))))
    else failwith ("bindtable op " ^ t)) args in
  let (s, outs) = Runtime.brun Runtime.bstate0 ops in
  let o = List.map (function
    | Runtime.BOk e -> Printf.sprintf "ok:%d" (int_of_n e) | Runtime.BErrOs -> "err:os" | Runtime.BErrParse -> "err:parse"
    | Runtime.BUnbound -> "unbound" | Runtime.BNoSuchBind -> "nosuch") outs in
  let lst l = if l = [] then "-" else String.concat "," (List.map (fun x -> string_of_int (int_of_n x)) (List.sort compare l)) in
  String.concat " " (o @ ["table=" ^ lst s.Runtime.b_table; "os=" ^ lst s.Runtime.b_os])

(* ownership:  own clears=0|1 handle table=1,2 queue=.. wakers=.. readers=.. binds=.. listeners=.. hs=.. conns=.. eps=.. *)
let run_own (args : string list) : string =
  let lst key = match opt_val (key ^ "=") args with
    | Some "" | Some "-" | None -> []
    | Some v -> List.map (fun x -> n_of_int (int_of_string x)) (String.split_on_char ',' v) in
  let clears = (opt_val "clears=" args = Some "1") in
  let o = { Runtime.o_handle = true; Runtime.o_table = lst "table"; Runtime.o_queue = lst "queue"; Runtime.o_wakers = lst "wakers";
            Runtime.o_readers = lst "readers"; Runtime.o_binds = lst "binds"; Runtime.o_listeners = lst "listeners"; Runtime.o_handshakes = lst "hs" } in
  let o' = Runtime.drop_socket clears o in
  String.concat " " (
    List.map (fun k -> Printf.sprintf "open#%d=%s" (int_of_n k) (if Runtime.conn_open o' k then "yes" else "no")) (lst "conns") @
    List.map (fun e -> Printf.sprintf "listen#%d=%s" (int_of_n e) (if Runtime.listening o' e then "yes" else "no")) (lst "eps"))

let run_case kind (args : string list) : string =
  match kind with
  | "bindtable" -> run_bindtable args
  | "own" -> run_own args
  | "ep" -> run_ep args
  | "proxy" -> (try run_proxy args with Unsupported s -> "model-unsupported " ^ s)
  | "chain" -> (try run_chain args with Unsupported s -> "model-unsupported " ^ s)
  | "ts" -> run_ts args
  | "dirsend" -> (try run_dirsend args with Unsupported s -> "model-unsupported " ^ s)
  | "rrsend" -> (try run_rrsend args with Unsupported s -> "model-unsupported " ^ s)
  | "pubfan" -> (try run_pubfan args with Unsupported s -> "model-unsupported " ^ s)
  | "fq" -> run_fq args
  | "sock" -> (try run_sock args with Unsupported s -> "model-unsupported " ^ s)
  | "repsplit" ->
      (match World.rep_split (List.map bytes_tok (String.split_on_char ';' (List.hd args))) with
       | Res.Ok (e, d) -> Printf.sprintf "ok %s | %s" (msg_hex e) (msg_hex d)
       | Res.Err e -> "err " ^ zerr_str e
       | Res.Panic _ -> "panic")
  | _ -> "unknown-kind " ^ kind
