(* Further case kinds are added here as more models are extracted. *)
let run_case kind _args = "unknown-kind " ^ kind
