(* Hand-written, trusted glue: parses the case files shared with the Rust harness into the
   extracted datatypes, calls the extracted functions, prints canonical observation lines. *)
open BinNums
module List = Stdlib.List
module String = Stdlib.String

let rec pos_of_int n : positive =
  if n = 1 then Coq_xH
  else if n land 1 = 0 then Coq_xO (pos_of_int (n lsr 1))
  else Coq_xI (pos_of_int (n lsr 1))
let n_of_int n : coq_N = if n = 0 then N0 else Npos (pos_of_int n)
let rec int_of_pos = function
  | Coq_xH -> 1
  | Coq_xO p -> 2 * int_of_pos p
  | Coq_xI p -> 2 * int_of_pos p + 1
let int_of_n = function N0 -> 0 | Npos p -> int_of_pos p
let rec nat_of_int n : Datatypes.nat = if n = 0 then Datatypes.O else Datatypes.S (nat_of_int (n - 1))

let hex_of (l : coq_N list) =
  if l = [] then "-" else String.concat "" (List.map (fun b -> Printf.sprintf "%02x" (int_of_n b)) l)

let bytes_tok (t : string) : coq_N list =
  let parts = String.split_on_char '+' t in
  List.concat_map (fun part ->
    if part = "-" || part = "" then []
    else if part.[0] = 'r' then begin
      let rest = String.sub part 1 (String.length part - 1) in
      match String.split_on_char '.' rest with
      | [n; b] -> let b = n_of_int (int_of_string ("0x" ^ b)) in List.init (int_of_string n) (fun _ -> b)
      | _ -> failwith "bad r token"
    end else
      List.init (String.length part / 2) (fun i -> n_of_int (int_of_string ("0x" ^ String.sub part (2*i) 2)))
  ) parts

let msg_tok t = List.map bytes_tok (String.split_on_char ';' t)
let msg_hex m = if m = [] then "<none>" else String.concat ";" (List.map hex_of m)

let str_of_bytes (l : coq_N list) = String.init (List.length l) (fun i -> Char.chr (int_of_n (List.nth l i)))
let bytes_of_str s = List.init (String.length s) (fun i -> n_of_int (Char.code s.[i]))

let mech_str = function Codec.MNull -> "NULL" | Codec.MPlain -> "PLAIN" | Codec.MCurve -> "CURVE"

let err_str = function
  | Res.EDecode -> "Decode" | Res.EGreeting -> "Greeting" | Res.EMechanism -> "Mechanism"
  | Res.ECommand -> "Command" | Res.EIoEof -> "Io.UnexpectedEof" | Res.EIo _ -> "Io"
  | Res.EOther -> "Other" | Res.EUnsupportedVersion -> "UnsupportedVersion"
  | Res.EPeerIdentity -> "PeerIdentity" | Res.ENoMessage -> "NoMessage"
  | Res.EReturnToSender -> "ReturnToSender" | Res.EBufferFull -> "BufferFull" | Res.ENotFound -> "NotFound"

let zerr_str = function
  | Res.EDecode -> "Codec.Decode" | Res.EGreeting -> "Codec.Greeting" | Res.EMechanism -> "Codec.Mechanism"
  | Res.ECommand -> "Codec.Command" | Res.EIoEof -> "Codec.Io.UnexpectedEof" | Res.EIo _ -> "Codec.Io"
  | Res.EOther -> "Other" | Res.EUnsupportedVersion -> "UnsupportedVersion"
  | Res.EPeerIdentity -> "PeerIdentity" | Res.ENoMessage -> "NoMessage"
  | Res.EReturnToSender -> "ReturnToSender" | Res.EBufferFull -> "BufferFull" | Res.ENotFound -> "Other"

let item_str = function
  | Codec.IGreeting g ->
      Printf.sprintf "G:%d.%d.%s.%d" (int_of_n g.Codec.g_major) (int_of_n g.Codec.g_minor)
        (mech_str g.Codec.g_mech) (if g.Codec.g_server then 1 else 0)
  | Codec.ICommand props ->
      let ps = List.map (fun (k, v) -> (str_of_bytes k, hex_of k ^ "=" ^ hex_of v)) props in
      let ps = List.sort (fun (a, _) (b, _) -> compare a b) ps in
      "C:READY:" ^ (if ps = [] then "-" else String.concat "," (List.map snd ps))
  | Codec.IMessage m -> "M:" ^ msg_hex m

let out_str = function
  | Codec.OItem i -> item_str i
  | Codec.OErr e -> "E:" ^ err_str e
  | Codec.OPanic _ -> "panic"
  | Codec.OEnd -> "end"

let stype_of s = match Codec.stype_of_name (bytes_of_str s) with Some t -> t | None -> failwith ("stype " ^ s)

let run_case kind (args : string list) : string =
  match kind, args with
  | "enc", (m :: _) ->   (* an optional pre=N (bytes already in the write buffer) does not change what is appended *)
      (match Codec.encode_msg (msg_tok m) with
       | Res.Ok bs -> "ok " ^ hex_of bs
       | Res.Err e -> "err " ^ err_str e
       | Res.Panic _ -> "panic")
  | "enchdr", [ls] ->
      let lens = List.map int_of_string (String.split_on_char ',' ls) in
      if lens = [] then "panic" else
      let n = List.length lens in
      let parts = List.mapi (fun i l -> hex_of (Codec.frame_hdr (i < n - 1) (n_of_int l)) ^ ":1") lens in
      String.concat " " (parts @ ["rest=0"])
  | "dec", chunks :: rest ->
      let chunks = if chunks = "." then [] else List.map bytes_tok (String.split_on_char '|' chunks) in
      let eof = List.mem "eof" rest in
      let outs = Codec.lib_items chunks eof in
      let stopped = List.exists (function Codec.OErr _ | Codec.OPanic _ | Codec.OEnd -> true | _ -> false) outs in
      let toks = List.map out_str outs in
      let toks = if stopped then toks else toks @ ["pend"] in
      let r = Codec.lib_reader chunks in
      String.concat " " (toks @ [Printf.sprintf "buf=%d" (List.length r.Codec.rd_buf);
                                 Printf.sprintf "held=%d" (int_of_n (Codec.held r))])
  | "admit", local :: chunks :: rest ->
      let chunks = if chunks = "." then [] else List.map bytes_tok (String.split_on_char '|' chunks) in
      (match Handshake.handshake_verdict (stype_of local) chunks (List.mem "eof" rest) with
       | Handshake.Accept (Handshake.IdAnnounced b) -> "ok:" ^ hex_of b
       | Handshake.Accept Handshake.IdFresh -> "ok:auto"
       | Handshake.Reject e -> "err:" ^ zerr_str e
       | Handshake.Crash _ -> "panic"
       | Handshake.Incomplete -> "pending")
  | "compat", [a; b] ->
      (match Handshake.compatible (stype_of a) (stype_of b) with
       | Res.Ok v -> if v then "1" else "0"
       | _ -> "panic")
  | "stypename", [h] ->
      (match Codec.stype_of_name (bytes_tok h) with
       | Some t -> Printf.sprintf "ok:%s:%d" (str_of_bytes (Codec.stype_name t)) (int_of_n (Codec.stype_idx t))
       | None -> "err")
  | "specitems", [h] ->
      String.concat " " (List.map out_str (Stream.spec_items (bytes_tok h)))
  | "greet", ["default"] -> hex_of (Codec.encode_greeting Codec.default_greeting)
  | "greet", [a; b; m; s] ->
      let g = { Codec.g_major = n_of_int (int_of_string a); Codec.g_minor = n_of_int (int_of_string b);
                Codec.g_mech = (match m with "0" -> Codec.MNull | "1" -> Codec.MPlain | _ -> Codec.MCurve);
                Codec.g_server = (s <> "0") } in
      hex_of (Codec.encode_greeting g)
  | "ready", t :: rest ->
      let id = match rest with [i] -> Some (bytes_tok i) | _ -> None in
      let props = Codec.ready_props (stype_of t) id in
      let alts = match props with
        | [a; b] -> [Codec.encode_ready [a; b]; Codec.encode_ready [b; a]]
        | _ -> [Codec.encode_ready props] in
      String.concat " || " (List.sort_uniq compare (List.map hex_of alts))
  (* oracles over implementation output *)
  | "rfcmsg", [h] ->
      (match Rfc23.rfc_message (bytes_tok h) with
       | Some (fs, rest) -> Printf.sprintf "ok %s rest=%d" (msg_hex fs) (List.length rest)
       | None -> "reject")
  | "rfcframes", [h] ->
      (match Rfc23.rfc_frames (bytes_tok h) with
       | Some ws -> "ok " ^ String.concat " " (List.map (fun w ->
           Printf.sprintf "%d%d%d%d:%d" (if w.Rfc23.wf_cmd then 1 else 0) (if w.Rfc23.wf_long then 1 else 0)
             (if w.Rfc23.wf_more then 1 else 0) (if Rfc23.rfc_minimal_size w then 1 else 0)
             (List.length w.Rfc23.wf_body)) ws)
       | None -> "reject")
  | "rfccmd", [h] ->
      (match Rfc23.rfc_command (bytes_tok h) with
       | Some (name, ps) -> Printf.sprintf "ok %s %s" (str_of_bytes name)
           (String.concat "," (List.map (fun (k, v) -> hex_of k ^ "=" ^ hex_of v) ps))
       | None -> "reject")
  | "rfcgreet", [h] ->
      let g = bytes_tok h in
      if Rfc23.rfc_greeting_wf g then
        let (a, b) = Rfc23.rfc_greeting_version g in
        Printf.sprintf "ok %d.%d %s" (int_of_n a) (int_of_n b) (str_of_bytes (Rfc23.rfc_greeting_mech g))
      else "reject"
  | _ -> Dispatch2.run_case kind args

let () =
  let path = Sys.argv.(1) in
  let ic = open_in path in
  (try
    while true do
      let line = input_line ic in
      let line = String.trim line in
      if line <> "" && not (String.length line >= 2 && String.sub line 0 2 = "//") then begin
        let toks = List.filter (fun s -> s <> "") (String.split_on_char ' ' line) in
        match toks with
        | id :: kind :: args ->
            let obs = (try run_case kind args with
                       | Stack_overflow -> "model-stack-overflow"
                       | Failure m -> "model-failure " ^ m) in
            print_string id; print_char ' '; print_string obs; print_newline ()
        | _ -> ()
      end
    done
  with End_of_file -> ());
  close_in ic
