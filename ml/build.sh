#!/bin/sh
# Build the OCaml model driver from the extracted code. Usage: build.sh <extracted-dir> <out-binary>
set -e
EX="$1"; OUT="$2"
HERE="$(cd "$(dirname "$0")" && pwd)"
B="$EX/_build"; rm -rf "$B"; mkdir -p "$B"
cp "$EX"/*.ml "$EX"/*.mli "$B"/
cp "$HERE"/dispatch2.ml "$HERE"/driver.ml "$B"/
cd "$B"
FILES=$(ocamlfind ocamldep -sort *.mli *.ml)
ocamlfind ocamlopt -O2 -w -a -o "$OUT" $FILES 2>/dev/null || ocamlfind ocamlopt -w -a -o "$OUT" $FILES
