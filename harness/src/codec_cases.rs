//! Codec-level case kinds: enc, enchdr, dec, greet, ready.
use crate::pipes::*;
use crate::util::*;
use bytes::BytesMut;
use std::task::{Context, Poll};
use zeromq::__verif as hooks;

pub fn item_str(i: &hooks::Item) -> String {
    match i {
        hooks::Item::Greeting(a, b, m, s) => format!("G:{}.{}.{}.{}", a, b, m, *s as u8),
        hooks::Item::Command(n, props) => {
            let ps: Vec<String> = props
                .iter()
                .map(|(k, v)| format!("{}={}", hex(k.as_bytes()), hex(v)))
                .collect();
            format!("C:{}:{}", n, if ps.is_empty() { "-".to_string() } else { ps.join(",") })
        }
        hooks::Item::Message(fs) => format!("M:{}", msg_hex(fs)),
    }
}

/// enc F;F;F [pre=N]  ->  ok HEX
/// With pre=N the message is encoded into a buffer that already holds N octets (an unflushed tail of earlier messages):
/// what is there must stay as it is and the message's bytes behind it must be the same as into an empty buffer.
pub fn enc(args: &[&str]) -> String {
    let m = zmsg(msg_tok(args[0]));
    let pre: usize = args[1..].iter().find_map(|a| a.strip_prefix("pre=")).map(|v| v.parse().unwrap()).unwrap_or(0);
    let mut c = hooks::Codec::new();
    let mut dst = BytesMut::new();
    let filler: Vec<u8> = (0..pre).map(|i| if i % 3 == 0 { 0xff } else { 0x01 }).collect();
    dst.extend_from_slice(&filler);
    match c.encode_message(m, &mut dst) {
        Ok(()) => {
            if dst.len() < pre || dst[..pre] != filler[..] {
                return "err bytes-already-in-the-buffer-were-changed".to_string();
            }
            format!("ok {}", hex(&dst[pre..]))
        }
        Err(e) => format!("err {}", e),
    }
}

fn pat(i: usize, j: usize) -> u8 {
    ((i * 31 + j * 7 + 3) & 0xff) as u8
}

/// enchdr L1,L2,..  ->  per frame `HDRHEX:bodyok`, then `rest=N`
pub fn enchdr(args: &[&str]) -> String {
    let lens: Vec<usize> = args[0].split(',').map(|x| x.parse().unwrap()).collect();
    let frames: Vec<Vec<u8>> = lens
        .iter()
        .enumerate()
        .map(|(i, l)| (0..*l).map(|j| pat(i, j)).collect())
        .collect();
    let m = zmsg(frames.clone());
    let mut c = hooks::Codec::new();
    let mut dst = BytesMut::new();
    if let Err(e) = c.encode_message(m, &mut dst) {
        return format!("err {}", e);
    }
    let mut out = Vec::new();
    let mut pos = 0usize;
    for f in &frames {
        if pos >= dst.len() {
            out.push("short".to_string());
            break;
        }
        let hl = if dst[pos] & 2 != 0 { 9 } else { 2 };
        if pos + hl > dst.len() {
            out.push("short".to_string());
            break;
        }
        let hdr = hex(&dst[pos..pos + hl]);
        pos += hl;
        let ok = pos + f.len() <= dst.len() && &dst[pos..pos + f.len()] == f.as_slice();
        pos += f.len();
        out.push(format!("{}:{}", hdr, ok as u8));
    }
    out.push(format!("rest={}", dst.len() as i64 - pos as i64));
    out.join(" ")
}

/// encdec L1,L2,..  ->  lib=ok | lib=bad:<segmentation>:<what>
/// "Decoding those bytes with the library yields the identical message": the encoded bytes (behind a valid
/// greeting) are given to the library's decoder all at once, byte by byte, and split before the last byte.
pub fn encdec(args: &[&str]) -> String {
    let lens: Vec<usize> = args[0].split(',').map(|x| x.parse().unwrap()).collect();
    let frames: Vec<Vec<u8>> = lens
        .iter()
        .enumerate()
        .map(|(i, l)| (0..*l).map(|j| pat(i, j)).collect())
        .collect();
    let mut c = hooks::Codec::new();
    let mut dst = BytesMut::new();
    if let Err(e) = c.encode_message(zmsg(frames.clone()), &mut dst) {
        return format!("lib=bad:encode:{}", e);
    }
    let mut stream = hooks::default_greeting_bytes();
    stream.extend_from_slice(&dst);
    let n = stream.len();
    let mut segs: Vec<(String, Vec<usize>)> = vec![
        ("whole".to_string(), vec![n]),
        ("bytewise".to_string(), if n <= 4096 { vec![1; n] } else { vec![64, 1, 1, 1, n - 67] }),
        ("lastbyte".to_string(), vec![n - 1, 1]),
    ];
    // the first read ends inside (or right after) the first frame's header: every offset of a 9-octet header
    for cut in 1..=10usize {
        if 64 + cut < n {
            segs.push((format!("hdr{}", cut), vec![64 + cut, n - 64 - cut]));
        }
    }
    // ... and inside the header of the LAST frame
    if frames.len() > 1 {
        let last_len = *lens.last().unwrap();
        let hdr = if last_len > 255 { 9 } else { 2 };
        let start = n - last_len - hdr;
        for cut in 1..hdr {
            segs.push((format!("lasthdr{}", cut), vec![start + cut, n - start - cut]));
        }
    }
    for (name, parts) in segs {
        let name = name.as_str();
        let mut d = hooks::Codec::new();
        let mut buf = BytesMut::new();
        let mut items = Vec::new();
        let mut pos = 0usize;
        for p in parts {
            buf.extend_from_slice(&stream[pos..pos + p]);
            pos += p;
            loop {
                match d.decode(&mut buf) {
                    Ok(Some(i)) => items.push(item_str(&i)),
                    Ok(None) => break,
                    Err(e) => return format!("lib=bad:{}:error:{}", name, e),
                }
            }
        }
        let want = format!("M:{}", msg_hex(&frames));
        if items.len() != 2 || !items[0].starts_with("G:") || items[1] != want {
            return format!("lib=bad:{}:items={}", name, items.len());
        }
        if !buf.is_empty() {
            return format!("lib=bad:{}:left={}", name, buf.len());
        }
    }
    "lib=ok".to_string()
}

/// dec CH|CH|..  [eof]  [polls=N]  -> items.. (end|pend) depth=N
/// Items are collected by polling the real FramedRead until it returns Pending or None, stopping
/// after the first error unless `after=K` asks for K further polls.
pub fn dec(args: &[&str]) -> String {
    let (r, ctl) = reader();
    if args[0] != "." {
        for ch in args[0].split('|') {
            ctl.push(REvt::Data(bytes_tok(ch)));
        }
    }
    let mut after = 0usize;
    for a in &args[1..] {
        if *a == "eof" {
            ctl.push(REvt::Eof);
        } else if let Some(k) = a.strip_prefix("rerr=") {
            ctl.push(REvt::Err(io_kind(k)));
        } else if let Some(k) = a.strip_prefix("after=") {
            after = k.parse().unwrap();
        }
    }
    let fed = ctl.pending_bytes();
    let base = crate::mem_reset();
    let mut probe = hooks::ReadProbe::new(Box::new(r));
    let (_c, w) = count_waker();
    let mut cx = Context::from_waker(&w);
    let mut out = Vec::new();
    hooks::take_max_depth();
    let mut errs = 0usize;
    let mut guard = 0usize;
    loop {
        guard += 1;
        if guard > 200_000 {
            out.push("spin".to_string());
            break;
        }
        match probe.poll_next(&mut cx) {
            Poll::Pending => {
                out.push("pend".to_string());
                break;
            }
            Poll::Ready(None) => {
                out.push("end".to_string());
                break;
            }
            Poll::Ready(Some(Ok(i))) => out.push(item_str(&i)),
            Poll::Ready(Some(Err(e))) => {
                out.push(format!("E:{}", e));
                errs += 1;
                if errs > after {
                    break;
                }
            }
        }
    }
    let (bl, cap) = probe.buffered();
    let (peak, maxreq) = crate::mem_report(base);
    out.push(format!("buf={}", bl));
    out.push(format!("mem={},{},{},{}", fed, cap, peak, maxreq));
    out.push(format!("depth={}", hooks::take_max_depth()));
    out.join(" ")
}

/// greet MAJ MIN MECH AS -> HEX ; greet default -> HEX
pub fn greet(args: &[&str]) -> String {
    if args[0] == "default" {
        return hex(&hooks::default_greeting_bytes());
    }
    let p: Vec<u8> = args.iter().map(|x| x.parse().unwrap()).collect();
    hex(&hooks::greeting_bytes(p[0], p[1], p[2], p[3] != 0))
}

pub fn stype(s: &str) -> zeromq::SocketType {
    use std::convert::TryFrom;
    zeromq::SocketType::try_from(s.as_bytes()).unwrap()
}

/// ready TYPE [IDHEX] -> HEX
pub fn ready(args: &[&str]) -> String {
    let id = args.get(1).map(|x| bytes_tok(x));
    hex(&hooks::ready_bytes(stype(args[0]), id.as_deref()))
}

/// compat A B -> 1 | 0 (panic is caught by the runner)
pub fn compat(args: &[&str]) -> String {
    format!("{}", stype(args[0]).compatible(stype(args[1])) as u8)
}

/// stypename HEX -> ok:NAME | err
pub fn stypename(args: &[&str]) -> String {
    use std::convert::TryFrom;
    let b = bytes_tok(args[0]);
    match zeromq::SocketType::try_from(&b[..]) {
        Ok(t) => format!("ok:{}:{}", t.as_str(), t as usize),
        Err(_) => "err".to_string(),
    }
}
