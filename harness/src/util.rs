//! Case-file token helpers shared by all case kinds.
pub fn hex(b: &[u8]) -> String {
    if b.is_empty() {
        return "-".to_string();
    }
    let mut s = String::with_capacity(b.len() * 2);
    for x in b {
        s.push_str(&format!("{:02x}", x));
    }
    s
}

/// `-` (empty) | hex | `rN.BB` (N copies of byte BB) | parts joined by `+`
pub fn bytes_tok(t: &str) -> Vec<u8> {
    let mut out = Vec::new();
    for part in t.split('+') {
        if part == "-" || part.is_empty() {
            continue;
        }
        if let Some(rest) = part.strip_prefix('r') {
            let mut it = rest.split('.');
            let n: usize = it.next().unwrap().parse().unwrap();
            let b = u8::from_str_radix(it.next().unwrap(), 16).unwrap();
            out.extend(std::iter::repeat(b).take(n));
        } else {
            let bs = part.as_bytes();
            assert!(bs.len() % 2 == 0, "odd hex {}", part);
            for i in (0..bs.len()).step_by(2) {
                out.push(u8::from_str_radix(&part[i..i + 2], 16).unwrap());
            }
        }
    }
    out
}

/// frames separated by `;`
pub fn msg_tok(t: &str) -> Vec<Vec<u8>> {
    t.split(';').map(bytes_tok).collect()
}

pub fn msg_hex(m: &[Vec<u8>]) -> String {
    if m.is_empty() {
        return "<none>".to_string();
    }
    m.iter().map(|f| hex(f)).collect::<Vec<_>>().join(";")
}

pub fn zmsg(frames: Vec<Vec<u8>>) -> zeromq::ZmqMessage {
    use std::convert::TryFrom;
    let v: Vec<bytes::Bytes> = frames.into_iter().map(bytes::Bytes::from).collect();
    match zeromq::ZmqMessage::try_from(v) {
        Ok(m) => m,
        Err(_) => {
            // the only public way to an empty message
            let mut m = zeromq::ZmqMessage::from(Vec::<u8>::new());
            m.split_off(0);
            // m now has zero frames
            m
        }
    }
}

pub fn zmsg_frames(m: &zeromq::ZmqMessage) -> Vec<Vec<u8>> {
    m.iter().map(|f| f.to_vec()).collect()
}

pub fn io_kind(s: &str) -> std::io::ErrorKind {
    use std::io::ErrorKind::*;
    match s {
        "BrokenPipe" => BrokenPipe,
        "ConnectionReset" => ConnectionReset,
        "ConnectionAborted" => ConnectionAborted,
        "TimedOut" => TimedOut,
        "Other" => Other,
        "UnexpectedEof" => UnexpectedEof,
        "WouldBlock" => WouldBlock,
        _ => Other,
    }
}
