//! Socket-level scenario interpreter over scripted in-memory connections.
//!
//! case:  ID sock TYPE [id=HEX] [mon|mondrop] / op / op / ...
//!        mon: monitor() was called and its receiver is kept (never drained); mondrop: the receiver has been dropped
//! ops:   attach C PT [id=HEX] [ver=M.m] [mech=NAME] [sig=bad0|bad9] [first=ready|cmd|msg|none]
//!                    [stype=raw:HEX] [extra=HEX] [chunks=n1,n2,..] [bg] [noid]
//!        feed C HEX | feedq C HEX | wake C | eof C | rerr C KIND
//!        wmode C all|stall|limit=N|broken=KIND|zero | wplan C w10,p,e:KIND,z
//!        recv | recvp K | send F;F | sendp K F;F | sub HEX | unsub HEX | settle
//!        wire C | hs C | dropped C | yield N | drop | close
use crate::pipes::*;
use crate::util::*;
use futures::FutureExt;
use std::future::Future;
use std::pin::Pin;
use std::task::{Context, Poll};
use zeromq::__verif as hooks;
use zeromq::prelude::*;
use zeromq::{SocketOptions, ZmqError, ZmqMessage, ZmqResult};

pub enum AnySock {
    Pub(zeromq::PubSocket),
    Sub(zeromq::SubSocket),
    XPub(zeromq::XPubSocket),
    Req(zeromq::ReqSocket),
    Rep(zeromq::RepSocket),
    Dealer(zeromq::DealerSocket),
    Router(zeromq::RouterSocket),
    Push(zeromq::PushSocket),
    Pull(zeromq::PullSocket),
}

impl AnySock {
    pub fn new(t: &str, id: Option<Vec<u8>>) -> AnySock {
        use std::convert::TryFrom;
        let mut o = SocketOptions::default();
        if let Some(i) = id {
            o.peer_identity(zeromq::util::PeerIdentity::try_from(i).unwrap());
        }
        match t {
            "PUB" => AnySock::Pub(zeromq::PubSocket::with_options(o)),
            "SUB" => AnySock::Sub(zeromq::SubSocket::with_options(o)),
            "XPUB" => AnySock::XPub(zeromq::XPubSocket::with_options(o)),
            "REQ" => AnySock::Req(zeromq::ReqSocket::with_options(o)),
            "REP" => AnySock::Rep(zeromq::RepSocket::with_options(o)),
            "DEALER" => AnySock::Dealer(zeromq::DealerSocket::with_options(o)),
            "ROUTER" => AnySock::Router(zeromq::RouterSocket::with_options(o)),
            "PUSH" => AnySock::Push(zeromq::PushSocket::with_options(o)),
            "PULL" => AnySock::Pull(zeromq::PullSocket::with_options(o)),
            _ => panic!("socket type {}", t),
        }
    }
    pub fn backend(&self) -> std::sync::Arc<dyn zeromq::MultiPeerBackend> {
        match self {
            AnySock::Pub(s) => s.backend(),
            AnySock::Sub(s) => s.backend(),
            AnySock::XPub(s) => s.backend(),
            AnySock::Req(s) => s.backend(),
            AnySock::Rep(s) => s.backend(),
            AnySock::Dealer(s) => s.backend(),
            AnySock::Router(s) => s.backend(),
            AnySock::Push(s) => s.backend(),
            AnySock::Pull(s) => s.backend(),
        }
    }
    pub fn recv(&mut self) -> Option<Pin<Box<dyn Future<Output = ZmqResult<ZmqMessage>> + Send + '_>>> {
        match self {
            AnySock::Sub(s) => Some(s.recv()),
            AnySock::XPub(s) => Some(s.recv()),
            AnySock::Req(s) => Some(s.recv()),
            AnySock::Rep(s) => Some(s.recv()),
            AnySock::Dealer(s) => Some(s.recv()),
            AnySock::Router(s) => Some(s.recv()),
            AnySock::Pull(s) => Some(s.recv()),
            _ => None,
        }
    }
    pub fn send(&mut self, m: ZmqMessage) -> Option<Pin<Box<dyn Future<Output = ZmqResult<()>> + Send + '_>>> {
        match self {
            AnySock::Pub(s) => Some(s.send(m)),
            AnySock::XPub(s) => Some(s.send(m)),
            AnySock::Req(s) => Some(s.send(m)),
            AnySock::Rep(s) => Some(s.send(m)),
            AnySock::Dealer(s) => Some(s.send(m)),
            AnySock::Router(s) => Some(s.send(m)),
            AnySock::Push(s) => Some(s.send(m)),
            _ => None,
        }
    }
}

pub struct Conn {
    pub r: RCtl,
    pub w: WCtl,
    pub ident: Option<Vec<u8>>,
    pub announced: bool,
    pub hs_bytes: Vec<u8>,
    pub bg: Option<tokio::task::JoinHandle<ZmqResult<zeromq::util::PeerIdentity>>>,
}

pub struct World {
    pub sock: Option<AnySock>,
    pub conns: Vec<(String, Conn)>,
    pub out: Vec<String>,
}

pub fn err_class(e: &ZmqError) -> String {
    match e {
        ZmqError::ReturnToSender { message, .. } => {
            format!("ReturnToSender:{}", msg_hex(&zmsg_frames(message)))
        }
        _ => hooks::error_class(e),
    }
}

/// Poll a future until it is ready or the whole system is quiescent (or `max` polls, if given).
pub async fn drive<T>(
    mut fut: Pin<Box<dyn Future<Output = T> + Send + '_>>,
    max_polls: Option<usize>,
) -> Option<T> {
    let mut polls = 0usize;
    let mut quiet = 0usize;
    loop {
        let (cw, w) = count_waker();
        let before = cw.0.load(std::sync::atomic::Ordering::SeqCst);
        let mut cx = Context::from_waker(&w);
        if let Some(m) = max_polls {
            if polls >= m {
                return None;
            }
        }
        polls += 1;
        if let Poll::Ready(v) = fut.as_mut().poll(&mut cx) {
            return Some(v);
        }
        if max_polls.is_some() {
            // exact-count mode: let background tasks run between polls, nothing else
            tokio::task::yield_now().await;
            continue;
        }
        // only what OTHER tasks do while we yield counts as progress (our own poll of a parked
        // stream touches the pipe every time)
        let a = ACTIVITY.load(std::sync::atomic::Ordering::Relaxed);
        tokio::task::yield_now().await;
        let woken = cw.0.load(std::sync::atomic::Ordering::SeqCst) != before;
        let act = ACTIVITY.load(std::sync::atomic::Ordering::Relaxed) != a;
        if woken || act {
            quiet = 0;
        } else {
            quiet += 1;
            if quiet >= 3 {
                return None;
            }
        }
        if polls > 100_000 {
            return None;
        }
    }
}

impl World {
    fn conn(&mut self, name: &str) -> &mut Conn {
        let i = self.conns.iter().position(|(n, _)| n == name).expect("unknown connection");
        &mut self.conns[i].1
    }

    fn label_frame(&self, f: &[u8]) -> String {
        for (n, c) in &self.conns {
            if let Some(id) = &c.ident {
                if id.as_slice() == f && !c.announced {
                    return format!("@{}", n);
                }
            }
        }
        hex(f)
    }

    fn msg_str(&self, m: &ZmqMessage, label_first: bool) -> String {
        let fs = zmsg_frames(m);
        if fs.is_empty() {
            return "<none>".into();
        }
        fs.iter()
            .enumerate()
            .map(|(i, f)| if i == 0 && label_first { self.label_frame(f) } else { hex(f) })
            .collect::<Vec<_>>()
            .join(";")
    }

    async fn op(&mut self, toks: &[&str]) {
        match toks[0] {
            "attach" => self.attach(&toks[1..]).await,
            "feed" => {
                let d = bytes_tok(toks[2]);
                self.conn(toks[1]).r.data(&d);
            }
            "feedq" => {
                let d = bytes_tok(toks[2]);
                self.conn(toks[1]).r.push_silent(REvt::Data(d));
            }
            "wake" => self.conn(toks[1]).r.wake(),
            "eof" => self.conn(toks[1]).r.push(REvt::Eof),
            "rerr" => {
                let k = io_kind(toks[2]);
                self.conn(toks[1]).r.push(REvt::Err(k));
            }
            "wmode" => {
                let mode = parse_wmode(toks[2]);
                self.conn(toks[1]).w.set_mode(mode);
            }
            "wplan" => {
                let plan = parse_wplan(toks[2]);
                self.conn(toks[1]).w.plan(plan);
            }
            "settle" => settle().await,
            "yield" => {
                for _ in 0..toks[1].parse::<usize>().unwrap() {
                    tokio::task::yield_now().await;
                }
            }
            "recv" | "recvp" => {
                let max = if toks[0] == "recvp" { Some(toks[1].parse::<usize>().unwrap()) } else { None };
                let is_router = matches!(self.sock, Some(AnySock::Router(_)));
                let mut sock = self.sock.take().expect("socket gone");
                let res = {
                    let fut = sock.recv();
                    match fut {
                        None => None,
                        Some(f) => Some(drive(f, max).await),
                    }
                };
                self.sock = Some(sock);
                let res = match res {
                    None => {
                        self.out.push("recv:unsupported".into());
                        return;
                    }
                    Some(r) => r,
                };
                let s = match res {
                    None => "pending".to_string(),
                    Some(Ok(m)) => format!("ok:{}", self.msg_str(&m, is_router)),
                    Some(Err(e)) => format!("err:{}", err_class(&e)),
                };
                self.out.push(format!("{}={}", if max.is_some() { "rp" } else { "r" }, s));
            }
            "recvw" => {
                // waker-respecting recv: poll once; if parked, deliver the bytes and re-poll ONLY when the
                // waker handed to the latest poll has been woken.  `r=lost-wakeup` = data arrived, nobody was told.
                let is_router = matches!(self.sock, Some(AnySock::Router(_)));
                let d = bytes_tok(toks[2]);
                let mut sock = self.sock.take().expect("socket gone");
                let mut fed = false;
                let res: Option<Option<ZmqResult<ZmqMessage>>> = {
                    match sock.recv() {
                        None => None,
                        Some(mut fut) => {
                            let mut out = None;
                            let mut polls = 0usize;
                            loop {
                                let (cw, w) = count_waker();
                                let before = cw.0.load(std::sync::atomic::Ordering::SeqCst);
                                let mut cx = Context::from_waker(&w);
                                polls += 1;
                                if let Poll::Ready(v) = fut.as_mut().poll(&mut cx) {
                                    out = Some(v);
                                    break;
                                }
                                if !fed {
                                    fed = true;
                                    let i = self.conns.iter().position(|(n, _)| n == toks[1]).expect("unknown connection");
                                    self.conns[i].1.r.data(&d);
                                }
                                let mut woken = false;
                                for _ in 0..8 {
                                    tokio::task::yield_now().await;
                                    if cw.0.load(std::sync::atomic::Ordering::SeqCst) != before {
                                        woken = true;
                                        break;
                                    }
                                }
                                if !woken || polls > 10_000 {
                                    break;
                                }
                            }
                            Some(out)
                        }
                    }
                };
                self.sock = Some(sock);
                if !fed {
                    let i = self.conns.iter().position(|(n, _)| n == toks[1]).expect("unknown connection");
                    self.conns[i].1.r.data(&d);
                }
                let s = match res {
                    None => "unsupported".to_string(),
                    Some(None) => "lost-wakeup".to_string(),
                    Some(Some(Ok(m))) => format!("ok:{}", self.msg_str(&m, is_router)),
                    Some(Some(Err(e))) => format!("err:{}", err_class(&e)),
                };
                self.out.push(format!("r={}", s));
            }
            "send" | "sendp" => {
                let (max, mtok) = if toks[0] == "sendp" {
                    (Some(toks[1].parse::<usize>().unwrap()), toks[2])
                } else {
                    (None, toks[1])
                };
                // a first frame `@c` stands for connection c's identity
                let mut frames = Vec::new();
                for (i, ft) in mtok.split(';').enumerate() {
                    if i == 0 && ft.starts_with('@') {
                        let id = self.conn(&ft[1..]).ident.clone().unwrap_or_default();
                        frames.push(id);
                    } else {
                        frames.push(bytes_tok(ft));
                    }
                }
                let m = zmsg(frames);
                let mut sock = self.sock.take().expect("socket gone");
                let res = {
                    let fut = sock.send(m);
                    match fut {
                        None => None,
                        Some(f) => Some(drive(f, max).await),
                    }
                };
                self.sock = Some(sock);
                let res = match res {
                    None => {
                        self.out.push("send:unsupported".into());
                        return;
                    }
                    Some(r) => r,
                };
                let s = match res {
                    None => "pending".to_string(),
                    Some(Ok(())) => "ok".to_string(),
                    Some(Err(e)) => format!("err:{}", err_class(&e)),
                };
                self.out.push(format!("{}={}", if max.is_some() { "sp" } else { "s" }, s));
            }
            "sub" | "unsub" => {
                let topic = String::from_utf8(bytes_tok(toks[1])).unwrap();
                let mut sock = self.sock.take().expect("socket gone");
                let res = if let AnySock::Sub(s) = &mut sock {
                    let f: Pin<Box<dyn Future<Output = ZmqResult<()>> + Send + '_>> = if toks[0] == "sub" {
                        Box::pin(s.subscribe(&topic))
                    } else {
                        Box::pin(s.unsubscribe(&topic))
                    };
                    drive(f, None).await
                } else {
                    panic!("sub on non-SUB")
                };
                self.sock = Some(sock);
                let s = match res {
                    None => "pending".to_string(),
                    Some(Ok(())) => "ok".to_string(),
                    Some(Err(e)) => format!("err:{}", err_class(&e)),
                };
                self.out.push(format!("{}={}", toks[0], s));
            }
            "wire" => {
                let b = self.conn(toks[1]).w.take_written();
                self.out.push(format!("wire:{}={}", toks[1], hex(&b)));
            }
            "hs" => {
                let b = self.conn(toks[1]).hs_bytes.clone();
                self.out.push(format!("hs:{}={}", toks[1], hex(&b)));
            }
            "dropped" => {
                let c = self.conn(toks[1]);
                let s = format!("{}{}", if c.r.dropped() { "r" } else { "" }, if c.w.dropped() { "w" } else { "" });
                self.out.push(format!("dropped:{}={}", toks[1], if s.is_empty() { "-".to_string() } else { s }));
            }
            "join" => {
                // collect the result of a background attach
                let h = self.conn(toks[1]).bg.take();
                if let Some(h) = h {
                    settle().await;
                    if h.is_finished() {
                        let r = h.await;
                        self.finish_attach(toks[1], r.map_err(|_| ()).and_then(|x| Ok(x)));
                    } else {
                        self.out.push(format!("att:{}=pending", toks[1]));
                        self.conn(toks[1]).bg = Some(h);
                    }
                }
            }
            "drop" => {
                self.sock = None;
                settle().await;
            }
            other => panic!("unknown op {}", other),
        }
    }

    fn finish_attach(&mut self, name: &str, r: Result<ZmqResult<zeromq::util::PeerIdentity>, ()>) {
        match r {
            Err(()) => self.out.push(format!("att:{}=taskpanic", name)),
            Ok(Err(e)) => self.out.push(format!("att:{}=err:{}", name, err_class(&e))),
            Ok(Ok(pid)) => {
                let idb: Vec<u8> = pid.into();
                // a generated identity must be non-empty and differ from every other connection's
                let dup = self.conns.iter().any(|(n, c)| n != name && c.ident.as_deref() == Some(idb.as_slice()));
                let c = self.conn(name);
                let announced = c.announced;
                let s = if announced {
                    hex(&idb)
                } else if idb.is_empty() {
                    "EMPTY".to_string()
                } else if dup {
                    "auto-dup".to_string()
                } else {
                    "auto".to_string()
                };
                c.ident = Some(idb);
                self.out.push(format!("att:{}=ok:{}", name, s));
            }
        }
    }

    async fn attach(&mut self, toks: &[&str]) {
        let name = toks[0].to_string();
        let ptype = toks[1];
        let mut id: Option<Vec<u8>> = None;
        let mut ver = (3u8, 0u8);
        let mut mech: Vec<u8> = b"NULL".to_vec();
        let mut sig = "";
        let mut first = "ready";
        let mut extra: Vec<u8> = Vec::new();
        let mut chunks: Option<Vec<usize>> = None;
        let mut bg = false;
        let mut raw_stype: Option<Vec<u8>> = None;
        let mut cut: Option<usize> = None;
        let mut cutkind = "eof".to_string();
        let mut raw: Option<Vec<u8>> = None;
        let mut init_plan: Option<Vec<WAns>> = None;
        let mut init_mode: Option<String> = None;
        for t in &toks[2..] {
            if let Some(v) = t.strip_prefix("id=next+") {
                // the identity a non-random generator would hand out K connections from now: the last generated
                // identity of this socket, read as a big-endian number, plus K
                let kinc: u64 = v.parse().unwrap();
                let mut base: Vec<u8> = self
                    .conns
                    .iter()
                    .rev()
                    .find(|(_, c)| !c.announced && c.ident.as_ref().map(|i| !i.is_empty()).unwrap_or(false))
                    .and_then(|(_, c)| c.ident.clone())
                    .unwrap_or_else(|| vec![0, 0, 0, 0, 0]);
                let mut carry = kinc;
                for b in base.iter_mut().rev() {
                    let vsum = *b as u64 + (carry & 0xff);
                    *b = (vsum & 0xff) as u8;
                    carry = (carry >> 8) + (vsum >> 8);
                    if carry == 0 {
                        break;
                    }
                }
                id = Some(base);
            } else if let Some(v) = t.strip_prefix("id=") {
                id = Some(bytes_tok(v));
            } else if let Some(v) = t.strip_prefix("ver=") {
                let mut it = v.split('.');
                ver = (it.next().unwrap().parse().unwrap(), it.next().unwrap().parse().unwrap());
            } else if let Some(v) = t.strip_prefix("mech=") {
                mech = v.as_bytes().to_vec();
            } else if let Some(v) = t.strip_prefix("sig=") {
                sig = v;
            } else if let Some(v) = t.strip_prefix("first=") {
                first = v;
            } else if let Some(v) = t.strip_prefix("extra=") {
                extra = bytes_tok(v);
            } else if let Some(v) = t.strip_prefix("chunks=") {
                chunks = Some(v.split(',').map(|x| x.parse().unwrap()).collect());
            } else if let Some(v) = t.strip_prefix("stype=raw:") {
                raw_stype = Some(bytes_tok(v));
            } else if let Some(v) = t.strip_prefix("cut=") {
                cut = Some(v.parse().unwrap());
            } else if let Some(v) = t.strip_prefix("cutkind=") {
                cutkind = v.to_string();
            } else if let Some(v) = t.strip_prefix("wplan=") {
                init_plan = Some(parse_wplan(v));
            } else if let Some(v) = t.strip_prefix("wmode=") {
                init_mode = Some(v.to_string());
            } else if let Some(v) = t.strip_prefix("raw=") {
                raw = Some(bytes_tok(v));
            } else if *t == "bg" {
                bg = true;
            }
        }
        // the raw peer's side of the handshake
        let mut g = vec![0u8; 64];
        g[0] = if sig == "bad0" { 0xfe } else { 0xff };
        g[9] = if sig == "bad9" { 0x7e } else { 0x7f };
        g[10] = ver.0;
        g[11] = ver.1;
        g[12..12 + mech.len()].copy_from_slice(&mech);
        let mut stream = g;
        let st_bytes: Option<Vec<u8>> = match (ptype, &raw_stype) {
            (_, Some(r)) => Some(r.clone()),
            ("MISSING", _) => None,
            (p, _) => Some(p.as_bytes().to_vec()),
        };
        let mut body = Vec::new();
        body.push(5u8);
        body.extend_from_slice(b"READY");
        if let Some(st) = &st_bytes {
            body.push(11);
            body.extend_from_slice(b"Socket-Type");
            body.extend_from_slice(&(st.len() as u32).to_be_bytes());
            body.extend_from_slice(st);
        }
        if let Some(i) = &id {
            body.push(8);
            body.extend_from_slice(b"Identity");
            body.extend_from_slice(&(i.len() as u32).to_be_bytes());
            body.extend_from_slice(i);
        }
        let cmd_frame = |body: &[u8]| {
            let mut f = Vec::new();
            if body.len() > 255 {
                f.push(6);
                f.extend_from_slice(&(body.len() as u64).to_be_bytes());
            } else {
                f.push(4);
                f.push(body.len() as u8);
            }
            f.extend_from_slice(body);
            f
        };
        match first {
            "ready" => stream.extend(cmd_frame(&body)),
            "cmd" => {
                // another (unknown) command first
                let mut b = vec![4u8];
                b.extend_from_slice(b"PING");
                stream.extend(cmd_frame(&b));
                stream.extend(cmd_frame(&body));
            }
            "msg" => {
                stream.extend_from_slice(&[0, 1, 0x58]);
                stream.extend(cmd_frame(&body));
            }
            _ => {}
        }
        stream.extend_from_slice(&extra);
        if let Some(r) = raw {
            stream = r;
        }
        let (pr, rctl) = reader();
        let (pw, wctl) = writer();
        if let Some(p) = init_plan {
            wctl.plan(p);
        }
        if let Some(m) = init_mode {
            wctl.set_mode(parse_wmode(&m));
        }
        let send_len = cut.unwrap_or(stream.len()).min(stream.len());
        let tosend = &stream[..send_len];
        match &chunks {
            None => {
                if !tosend.is_empty() {
                    rctl.push(REvt::Data(tosend.to_vec()))
                }
            }
            Some(cs) => {
                let mut pos = 0;
                for c in cs {
                    if pos >= tosend.len() {
                        break;
                    }
                    let e = (pos + c).min(tosend.len());
                    rctl.push(REvt::Data(tosend[pos..e].to_vec()));
                    pos = e;
                }
                if pos < tosend.len() {
                    rctl.push(REvt::Data(tosend[pos..].to_vec()));
                }
            }
        }
        if cut.is_some() {
            match cutkind.as_str() {
                "eof" => rctl.push(REvt::Eof),
                "stall" => {}
                // a protocol error instead of an end of stream: a complete command frame with an empty name, then silence
                "junk" => rctl.push(REvt::Data(vec![0x04, 0x01, 0x00])),
                k => rctl.push(REvt::Err(io_kind(k))),
            }
        }
        let backend = self.sock.as_ref().expect("socket gone").backend();
        let conn = Conn { r: rctl, w: wctl.clone(), ident: None, announced: id.as_ref().map(|i| !i.is_empty()).unwrap_or(false), hs_bytes: vec![], bg: None };
        self.conns.push((name.clone(), conn));
        if bg {
            let h = tokio::spawn(hooks::attach(backend, Box::new(pr), Box::new(pw)));
            self.conn(&name).bg = Some(h);
            return;
        }
        let fut: Pin<Box<dyn Future<Output = ZmqResult<zeromq::util::PeerIdentity>> + Send>> =
            Box::pin(hooks::attach(backend, Box::new(pr), Box::new(pw)));
        let caught = std::panic::AssertUnwindSafe(drive(fut, None)).catch_unwind().await;
        match caught {
            Err(_) => self.out.push(format!("att:{}=panic", name)),
            Ok(None) => self.out.push(format!("att:{}=pending", name)),
            Ok(Some(r)) => self.finish_attach(&name, Ok(r)),
        }
        // handshake bytes (greeting + the READY frame) are kept apart from what follows them
        let all = wctl.take_written();
        let mut n = all.len().min(64);
        if all.len() > 65 {
            let l = if all[64] & 2 != 0 && all.len() >= 73 {
                9 + u64::from_be_bytes([all[65], all[66], all[67], all[68], all[69], all[70], all[71], all[72]]) as usize
            } else {
                2 + all[65] as usize
            };
            n = (64 + l).min(all.len());
        }
        wctl.0.lock().written.extend_from_slice(&all[n..]);
        self.conn(&name).hs_bytes = all[..n].to_vec();
    }
}

pub fn parse_wmode(m: &str) -> WMode {
    if m == "all" {
        WMode::All
    } else if m == "stall" {
        WMode::Stall
    } else if m == "zero" {
        WMode::Zero
    } else if let Some(k) = m.strip_prefix("limit=") {
        WMode::Limit(k.parse().unwrap())
    } else if let Some(k) = m.strip_prefix("broken=") {
        WMode::Broken(io_kind(k))
    } else {
        panic!("wmode {}", m)
    }
}

pub fn parse_wplan(s: &str) -> Vec<WAns> {
    s.split(',')
        .filter(|x| !x.is_empty())
        .map(|t| {
            if t == "p" {
                WAns::Pending
            } else if t == "z" {
                WAns::Zero
            } else if t == "a" {
                WAns::Wrote(usize::MAX)
            } else if let Some(k) = t.strip_prefix('w') {
                WAns::Wrote(k.parse().unwrap())
            } else if let Some(k) = t.strip_prefix("e:") {
                WAns::Err(io_kind(k))
            } else {
                panic!("wplan token {}", t)
            }
        })
        .collect()
}

thread_local! {
    static RT: std::cell::RefCell<Option<tokio::runtime::Runtime>> = const { std::cell::RefCell::new(None) };
}

/// One current-thread runtime is reused across cases (building one costs milliseconds); it is
/// thrown away when a case panics inside it.
pub fn with_rt<T>(f: impl FnOnce(&tokio::runtime::Runtime) -> T) -> T {
    let rt = RT
        .with(|c| c.borrow_mut().take())
        .unwrap_or_else(|| tokio::runtime::Builder::new_current_thread().enable_all().build().unwrap());
    let out = f(&rt);
    RT.with(|c| *c.borrow_mut() = Some(rt));
    out
}

pub fn run(args: &[&str]) -> String {
    let joined = args.join(" ");
    let mut parts = joined.split(" / ");
    let head: Vec<&str> = parts.next().unwrap().split_whitespace().collect();
    let mut sid = None;
    for t in &head[1..] {
        if let Some(v) = t.strip_prefix("id=") {
            sid = Some(bytes_tok(v));
        }
    }
    let ops: Vec<Vec<String>> = parts.map(|p| p.split_whitespace().map(|s| s.to_string()).collect()).collect();
    let stype = head[0].to_string();
    let with_mon = head[1..].iter().any(|h| *h == "mon");
    let with_mondrop = head[1..].iter().any(|h| *h == "mondrop");
    let out = with_rt(|rt| {
        rt.block_on(async move {
            let mut w = World { sock: Some(AnySock::new(&stype, sid)), conns: Vec::new(), out: Vec::new() };
            let _kept_monitor = if with_mon || with_mondrop {
                let rx = crate::rt::sock_monitor(w.sock.as_mut().unwrap());
                if with_mon {
                    Some(rx)
                } else {
                    drop(rx);
                    None
                }
            } else {
                None
            };
            for op in &ops {
                if op.is_empty() {
                    continue;
                }
                let toks: Vec<&str> = op.iter().map(|s| s.as_str()).collect();
                w.op(&toks).await;
            }
            let out = w.out.clone();
            // tear down inside the runtime and let the library's tasks wind down
            drop(w);
            settle().await;
            out
        })
    });
    out.join(" ")
}
