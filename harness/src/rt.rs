//! Real-runtime harness: multi-thread tokio, real TCP (127.0.0.1, ::1, localhost) and IPC sockets,
//! raw clients.  Used for C17, C18, C20 and the descriptor part of C16.
//!
//! case: ID rt TYPE [mon] / op / op ...
//!   bind tcp4|tcp6|local|ipc        -> b#k=ok:<kind>:<port>0:rt=<ok|bad> | b=err:<class>
//!   binddup K                        bind again to exactly the endpoint bind #K returned
//!   bindbad TEXT                     bind to a malformed / unusable endpoint text
//!   unbind K | unbindx | unbindalias K HOST  -> u=ok | u=err:<class> | u=hang   (unbindalias: HOST:port-of-#K, never bound)
//!   bindsame K HOST                  bind HOST with the port number of bind #K
//!   conn K [id=HEX]                  raw compatible peer connects to bind #K and handshakes -> c#j=ok|refused|hserr:<why>
//!   impostor K id=HEX as=TYPE       raw client with an incompatible Socket-Type claiming identity HEX -> i#j=done
//!   connout                          the socket connects out to a raw listener we own -> o#j=ok|err
//!   rstburst K n=N                   N clients connect and reset (RST) without yielding to the runtime (use with `ct` in the head) -> rb=done
//!   staller K off=N mode=stop|close|garbage   raw client that misbehaves after N handshake bytes -> s#j=started
//!   moninstall                       monitor() is called NOW (for the first time, or again: the new receiver replaces the old one)
//!   finish J garbage|close|good      a `staller ... mode=stop` client goes on: 97 junk octets / closes / sends the rest of a valid handshake -> f#J=done
//!   hs J                             the library's greeting + READY as raw connection J received them -> h#J=HEX
//!   xchg J                           one message over raw connection J (direction by socket type) -> x#J=ok|fail:<why>
//!   bigxchg J SIZE                   raw peer J sends one message with a SIZE-byte frame, recv awaited in the root future -> X#J=ok|fail:<why>
//!   flood N SIZE                     the socket sends N messages of SIZE octets while no raw peer reads -> fl=ok|fl=fail:<why>
//!   halfclose J                      raw peer J shuts down its sending direction and keeps its socket open -> hc#J=done
//!   fdsnow                           -> fdn=<open descriptors over baseline, right now, after a short pause>
//!   fdsqueeze K                      the process runs out of descriptors while a client connects to bind #K (accept fails), then they are freed -> sq=done|sq=skipped
//!   subbig N SIZE                    (SUB) subscribe to N topics of SIZE octets each -> sb=ok|sb=fail:<why>
//!   drain J                          raw peer J reads and discards whatever arrives until nothing has come for 300 ms -> d#J=<octets>
//!   park                             start a recv() that parks, in a background task (fair-queue sockets)
//!   probe K                          plain connect to bind #K -> p#K=accepted|refused
//!   binds                            -> binds=#a,#b (sorted)
//!   close | drop                     -> close=<n errors> | drop
//!   rebind K                         a NEW socket of the same type binds exactly the endpoint bind #K returned (after close / drop / unbind) -> rb#K=ok|err:<class>
//!   peers_eof                        every raw connection sees EOF within the grace period -> eof#j=yes|no ...
//!   ipcpaths                         -> ipc#k=exists|gone
//!   tasks                            -> tasks=<alive tasks over baseline>
//!   monitor                          -> mon=<sorted event names>
//!   fds                              -> fds=<open descriptors over baseline>
use crate::sock::AnySock;
use crate::util::*;
use std::collections::HashMap;
use std::time::Duration;
use tokio::io::{AsyncReadExt, AsyncWriteExt};
use zeromq::prelude::*;
use zeromq::{Endpoint, ZmqError};

const GRACE: Duration = Duration::from_millis(600);

enum RawStream {
    Tcp(tokio::net::TcpStream),
    Unix(tokio::net::UnixStream),
}

impl RawStream {
    async fn write_all(&mut self, b: &[u8]) -> std::io::Result<()> {
        match self {
            RawStream::Tcp(s) => s.write_all(b).await,
            RawStream::Unix(s) => s.write_all(b).await,
        }
    }
    async fn read(&mut self, b: &mut [u8]) -> std::io::Result<usize> {
        match self {
            RawStream::Tcp(s) => s.read(b).await,
            RawStream::Unix(s) => s.read(b).await,
        }
    }
    async fn shutdown_write(&mut self) -> std::io::Result<()> {
        match self {
            RawStream::Tcp(s) => s.shutdown().await,
            RawStream::Unix(s) => s.shutdown().await,
        }
    }
}

fn peer_type(t: &str) -> &'static str {
    match t {
        "PUB" => "SUB",
        "SUB" => "PUB",
        "XPUB" => "SUB",
        "REQ" => "REP",
        "REP" => "REQ",
        "DEALER" => "ROUTER",
        "ROUTER" => "DEALER",
        "PUSH" => "PULL",
        "PULL" => "PUSH",
        _ => "PAIR",
    }
}

fn handshake_bytes(ptype: &str, id: Option<&[u8]>) -> Vec<u8> {
    let mut g = vec![0u8; 64];
    g[0] = 0xff;
    g[9] = 0x7f;
    g[10] = 3;
    g[12..16].copy_from_slice(b"NULL");
    let mut body = vec![5u8];
    body.extend_from_slice(b"READY");
    body.push(11);
    body.extend_from_slice(b"Socket-Type");
    body.extend_from_slice(&(ptype.len() as u32).to_be_bytes());
    body.extend_from_slice(ptype.as_bytes());
    if let Some(i) = id {
        body.push(8);
        body.extend_from_slice(b"Identity");
        body.extend_from_slice(&(i.len() as u32).to_be_bytes());
        body.extend_from_slice(i);
    }
    g.push(4);
    g.push(body.len() as u8);
    g.extend_from_slice(&body);
    g
}

async fn raw_connect(ep: &Endpoint) -> std::io::Result<RawStream> {
    match ep {
        Endpoint::Tcp(h, p) => Ok(RawStream::Tcp(tokio::net::TcpStream::connect((h.to_string().as_str(), *p)).await?)),
        Endpoint::Ipc(Some(path)) => Ok(RawStream::Unix(tokio::net::UnixStream::connect(path).await?)),
        _ => Err(std::io::Error::new(std::io::ErrorKind::Other, "endpoint")),
    }
}

/// read until greeting (64) + one READY frame of the library have arrived
async fn read_lib_handshake(s: &mut RawStream) -> Result<Vec<u8>, String> {
    let mut got = Vec::new();
    let mut buf = [0u8; 512];
    let deadline = tokio::time::Instant::now() + Duration::from_secs(3);
    loop {
        if got.len() >= 66 {
            let need = 64 + 2 + got[65] as usize;
            if got.len() >= need {
                return Ok(got);
            }
        }
        match tokio::time::timeout_at(deadline, s.read(&mut buf)).await {
            Err(_) => return Err("timeout".into()),
            Ok(Err(e)) => return Err(format!("io:{:?}", e.kind())),
            Ok(Ok(0)) => return Err("eof".into()),
            Ok(Ok(n)) => got.extend_from_slice(&buf[..n]),
        }
    }
}

struct Raw {
    s: RawStream,
    extra: Vec<u8>, // bytes read beyond the handshake
    ready: bool,    // completed its handshake as a well-behaved peer
    hs: Vec<u8>,    // the library's greeting + READY as this raw peer received them
}

pub fn run(args: &[&str]) -> String {
    let joined = args.join(" ");
    let mut parts = joined.split(" / ");
    let head: Vec<String> = parts.next().unwrap().split_whitespace().map(|s| s.to_string()).collect();
    let ops: Vec<Vec<String>> = parts.map(|p| p.split_whitespace().map(|s| s.to_string()).collect()).collect();
    // `ct` in the head: one thread only, so that what a case does without awaiting happens before the library's tasks run
    let rt = if head.iter().any(|h| h == "ct") {
        tokio::runtime::Builder::new_current_thread().enable_all().build().unwrap()
    } else {
        tokio::runtime::Builder::new_multi_thread().worker_threads(2).enable_all().build().unwrap()
    };
    let out = rt.block_on(async move { scenario(head, ops).await });
    rt.shutdown_timeout(Duration::from_millis(200));
    out.join(" ")
}

fn open_fds() -> usize {
    std::fs::read_dir("/proc/self/fd").map(|d| d.count()).unwrap_or(0)
}

fn alive_tasks() -> usize {
    tokio::runtime::Handle::current().metrics().num_alive_tasks()
}

async fn scenario(head: Vec<String>, ops: Vec<Vec<String>>) -> Vec<String> {
    let stype = head[0].clone();
    let with_mon = head.iter().any(|h| h == "mon");
    let mut out: Vec<String> = Vec::new();
    let mut sock: Option<AnySock> = Some(AnySock::new(&stype, None));
    let mut monitor = if with_mon { Some(sock_monitor(sock.as_mut().unwrap())) } else { None };
    if head.iter().any(|h| h == "mondrop") {
        // a monitor was asked for once and its receiver has been dropped since: nobody listens any more
        drop(sock_monitor(sock.as_mut().unwrap()));
    }
    let mut bound: Vec<Endpoint> = Vec::new();
    let mut raws: Vec<Option<Raw>> = Vec::new();
    let mut ipc_paths: Vec<std::path::PathBuf> = Vec::new();
    let dir = std::path::PathBuf::from(format!("/verif/.work/ipc/{}-{}", std::process::id(), rand_tag()));
    let _ = std::fs::create_dir_all(&dir);
    let base_tasks = alive_tasks();
    let base_fds = open_fds();
    let mut parked: Option<tokio::task::JoinHandle<Option<AnySock>>> = None;
    let mut listeners: Vec<tokio::net::TcpListener> = Vec::new();
    let mut stall_off: HashMap<usize, usize> = HashMap::new();
    for op in &ops {
        if op.is_empty() {
            continue;
        }
        let t: Vec<&str> = op.iter().map(|s| s.as_str()).collect();
        match t[0] {
            "bind" | "binddup" | "bindbad" | "bindsame" => {
                let text = match t[0] {
                    // another host, the port number of bind #K
                    "bindsame" => {
                        let port = match &bound[t[1].parse::<usize>().unwrap()] {
                            Endpoint::Tcp(_, p) => *p,
                            _ => 1,
                        };
                        format!("tcp://{}:{}", t[2], port)
                    }
                    "bind" => match t[1] {
                        "tcp4" => "tcp://127.0.0.1:0".to_string(),
                        "tcp6" => "tcp://[::1]:0".to_string(),
                        "local" => "tcp://localhost:0".to_string(),
                        "any4" => "tcp://0.0.0.0:0".to_string(),
                        _ => format!("ipc://{}/s{}.sock", dir.display(), bound.len()),
                    },
                    "binddup" => bound[t[1].parse::<usize>().unwrap()].to_string(),
                    _ => String::from_utf8(bytes_tok(t[1])).unwrap(),
                };
                let s = sock.as_mut().expect("socket gone");
                let r = sock_bind(s, &text).await;
                match r {
                    Ok(ep) => {
                        let (kind, port) = match &ep {
                            Endpoint::Tcp(zeromq::Host::Ipv4(_), p) => ("ip4", *p),
                            Endpoint::Tcp(zeromq::Host::Ipv6(_), p) => ("ip6", *p),
                            Endpoint::Tcp(zeromq::Host::Domain(_), p) => ("dom", *p),
                            Endpoint::Ipc(Some(p)) => {
                                ipc_paths.push(p.clone());
                                ("ipc", 1)
                            }
                            _ => ("other", 0),
                        };
                        let rtok = ep.to_string().parse::<Endpoint>().map(|e| e == ep).unwrap_or(false);
                        out.push(format!("b#{}=ok:{}:{}:rt={}", bound.len(), kind, if port != 0 { "port>0" } else { "port0" }, if rtok { "ok" } else { "bad" }));
                        bound.push(ep);
                        // `monlate` in the head: the monitor is asked for only after the (first) bind
                        if monitor.is_none() && head.iter().any(|h| h == "monlate") {
                            monitor = Some(sock_monitor(sock.as_mut().unwrap()));
                        }
                    }
                    Err(e) => out.push(format!("b=err:{}", zeromq::__verif::error_class(&e))),
                }
            }
            "unbind" | "unbindx" | "unbindalias" => {
                let ep = if t[0] == "unbind" {
                    bound[t[1].parse::<usize>().unwrap()].clone()
                } else if t[0] == "unbindalias" {
                    // an endpoint that was never bound: another host, the port number of bind #K
                    let port = match &bound[t[1].parse::<usize>().unwrap()] {
                        Endpoint::Tcp(_, p) => *p,
                        _ => 1,
                    };
                    format!("tcp://{}:{}", t[2], port).parse::<Endpoint>().unwrap()
                } else {
                    "tcp://127.0.0.1:1".parse::<Endpoint>().unwrap()
                };
                let s = sock.as_mut().expect("socket gone");
                match tokio::time::timeout(Duration::from_secs(5), sock_unbind(s, ep)).await {
                    Ok(Ok(())) => out.push("u=ok".to_string()),
                    Ok(Err(e)) => out.push(format!("u=err:{}", zeromq::__verif::error_class(&e))),
                    Err(_) => out.push("u=hang".to_string()),
                }
            }
            "binds" => {
                let s = sock.as_mut().expect("socket gone");
                let keys = sock_binds(s);
                let mut idx: Vec<String> = keys
                    .iter()
                    .map(|k| bound.iter().rposition(|b| b == k).map(|i| format!("#{}", i)).unwrap_or_else(|| "?".to_string()))
                    .collect();
                idx.sort();
                out.push(format!("binds={}", if idx.is_empty() { "-".to_string() } else { idx.join(",") }));
            }
            "conn" => {
                let ep = bound[t[1].parse::<usize>().unwrap()].clone();
                let id = t[2..].iter().find_map(|o| o.strip_prefix("id=")).map(bytes_tok);
                let j = raws.len();
                match raw_connect(&ep).await {
                    Err(_) => {
                        out.push(format!("c#{}=refused", j));
                        raws.push(None);
                    }
                    Ok(mut s) => {
                        let hb = handshake_bytes(peer_type(&stype), id.as_deref());
                        let w = s.write_all(&hb).await;
                        match (w, read_lib_handshake(&mut s).await) {
                            (Ok(()), Ok(got)) => {
                                let need = 64 + 2 + got[65] as usize;
                                out.push(format!("c#{}=ok", j));
                                raws.push(Some(Raw { s, extra: got[need..].to_vec(), ready: true, hs: got[..need].to_vec() }));
                            }
                            (_, Err(e)) => {
                                out.push(format!("c#{}=hserr:{}", j, e));
                                raws.push(None);
                            }
                            (Err(e), _) => {
                                out.push(format!("c#{}=hserr:w{:?}", j, e.kind()));
                                raws.push(None);
                            }
                        }
                    }
                }
            }
            "impostor" => {
                // a client whose handshake must be refused (incompatible Socket-Type) and whose READY claims the identity HEX:
                // -> i#j=done whatever the library answers; the connection is closed afterwards
                let ep = bound[t[1].parse::<usize>().unwrap()].clone();
                let id = t[2..].iter().find_map(|o| o.strip_prefix("id=")).map(bytes_tok);
                let as_type = t[2..].iter().find_map(|o| o.strip_prefix("as=")).unwrap_or("PUB").to_string();
                let j = raws.len();
                if let Ok(mut s) = raw_connect(&ep).await {
                    let hb = handshake_bytes(&as_type, id.as_deref());
                    let _ = s.write_all(&hb).await;
                    let _ = tokio::time::timeout(Duration::from_millis(300), read_lib_handshake(&mut s)).await;
                    tokio::time::sleep(Duration::from_millis(100)).await;
                }
                out.push(format!("i#{}=done", j));
                raws.push(None);
            }
            "connout" => {
                // the socket under test connects out to a listener we own; we accept and handshake
                let l = tokio::net::TcpListener::bind("127.0.0.1:0").await.unwrap();
                let port = l.local_addr().unwrap().port();
                let j = raws.len();
                let pt = peer_type(&stype).to_string();
                let acc = tokio::spawn(async move {
                    let (s, _) = l.accept().await.ok()?;
                    let mut s = RawStream::Tcp(s);
                    s.write_all(&handshake_bytes(&pt, None)).await.ok()?;
                    let got = read_lib_handshake(&mut s).await.ok()?;
                    let need = 64 + 2 + got[65] as usize;
                    Some((Raw { s, extra: got[need..].to_vec(), ready: true, hs: got[..need].to_vec() }, l))
                });
                let s = sock.as_mut().expect("socket gone");
                let r = sock_connect(s, &format!("tcp://127.0.0.1:{}", port)).await;
                match (r, tokio::time::timeout(Duration::from_secs(3), acc).await) {
                    (Ok(()), Ok(Ok(Some((raw, l))))) => {
                        out.push(format!("o#{}=ok", j));
                        raws.push(Some(raw));
                        listeners.push(l);
                    }
                    (r, _) => {
                        out.push(format!("o#{}=err:{}", j, r.err().map(|e| zeromq::__verif::error_class(&e)).unwrap_or_else(|| "accept".into())));
                        raws.push(None);
                    }
                }
            }
            "staller" => {
                let ep = bound[t[1].parse::<usize>().unwrap()].clone();
                let off: usize = t[2..].iter().find_map(|o| o.strip_prefix("off=")).unwrap().parse().unwrap();
                let mode = t[2..].iter().find_map(|o| o.strip_prefix("mode=")).unwrap().to_string();
                let j = raws.len();
                match raw_connect(&ep).await {
                    Err(_) => {
                        out.push(format!("s#{}=refused", j));
                        raws.push(None);
                    }
                    Ok(mut s) => {
                        let hb = handshake_bytes(peer_type(&stype), None);
                        let n = off.min(hb.len());
                        let _ = s.write_all(&hb[..n]).await;
                        match mode.as_str() {
                            "close" => {
                                drop(s);
                                raws.push(None);
                            }
                            "garbage" => {
                                let _ = s.write_all(&[0x13u8; 97]).await;
                                raws.push(Some(Raw { s, extra: vec![], ready: false, hs: vec![] }));
                            }
                            _ => {
                                stall_off.insert(j, n);
                                raws.push(Some(Raw { s, extra: vec![], ready: false, hs: vec![] }))
                            }
                        }
                        out.push(format!("s#{}=started", j));
                    }
                }
            }
            "rstburst" => {
                // N clients that connect and abort at once (SO_LINGER 0: the kernel sends RST), without yielding to the
                // runtime in between: under `ct` the listener's accept loop has not seen them yet -> rb=done
                let n: usize = t[2..].iter().find_map(|o| o.strip_prefix("n=")).unwrap_or("3").parse().unwrap();
                if let Endpoint::Tcp(h, p) = &bound[t[1].parse::<usize>().unwrap()] {
                    let host = h.to_string();
                    let host = host.trim_start_matches('[').trim_end_matches(']').to_string();
                    for _ in 0..n {
                        if let Ok(s) = std::net::TcpStream::connect((host.as_str(), *p)) {
                            use std::os::unix::io::AsRawFd;
                            let lg = libc::linger { l_onoff: 1, l_linger: 0 };
                            unsafe {
                                libc::setsockopt(
                                    s.as_raw_fd(),
                                    libc::SOL_SOCKET,
                                    libc::SO_LINGER,
                                    &lg as *const _ as *const libc::c_void,
                                    std::mem::size_of::<libc::linger>() as libc::socklen_t,
                                );
                            }
                            drop(s);
                        }
                    }
                }
                out.push("rb=done".to_string());
            }
            "xchg" => {
                let j: usize = t[1].parse().unwrap();
                let tag = format!("m{}", out.len()).into_bytes();
                let res = if matches!(stype.as_str(), "PUSH" | "REQ" | "PUB") {
                    xchg_send(&stype, sock.as_mut(), &mut raws, j, &tag).await
                } else {
                    xchg(&stype, sock.as_mut(), raws.get_mut(j).and_then(|r| r.as_mut()), &tag).await
                };
                out.push(format!("x#{}={}", j, res));
            }
            "bigxchg" => {
                // one message with a SIZE-byte last frame from raw peer J; the socket's recv is awaited right here, in the
                // root future of the runtime (where a task's cooperative budget is not reset by a scheduler turn) -> X#J=ok|fail:..
                let j: usize = t[1].parse().unwrap();
                let size: usize = t[2].parse().unwrap();
                let res = match (sock.as_mut(), raws.get_mut(j).and_then(|r| r.take())) {
                    (Some(s), Some(mut raw)) => {
                        let mut wire = Vec::with_capacity(size + 32);
                        if stype == "REP" {
                            wire.extend_from_slice(&[1u8, 0]);
                        }
                        wire.push(2);
                        wire.extend_from_slice(&(size as u64).to_be_bytes());
                        let mut body = vec![0x5au8; size];
                        if stype == "XPUB" && size > 0 {
                            body[0] = 1;
                        }
                        wire.extend_from_slice(&body);
                        let writer = tokio::spawn(async move {
                            let _ = raw.s.write_all(&wire).await;
                            tokio::time::sleep(Duration::from_secs(30)).await;
                            drop(raw);
                        });
                        let mut out_s = "fail:timeout".to_string();
                        for _ in 0..4 {
                            let f = s.recv().unwrap();
                            match tokio::time::timeout(Duration::from_secs(20), f).await {
                                Err(_) => break,
                                Ok(Err(e)) => out_s = format!("fail:{}", zeromq::__verif::error_class(&e)),
                                Ok(Ok(m)) => {
                                    let fr = zmsg_frames(&m);
                                    if fr.last().map(|f| f.len()) == Some(size) {
                                        out_s = "ok".to_string();
                                        break;
                                    }
                                    out_s = format!("fail:wrong-size:{}", fr.last().map(|f| f.len()).unwrap_or(0));
                                }
                            }
                        }
                        writer.abort();
                        out_s
                    }
                    _ => "fail:gone".to_string(),
                };
                out.push(format!("X#{}={}", j, res));
            }
            "park" => {
                let mut s = sock.take().expect("socket gone");
                let h = tokio::spawn(async move {
                    {
                        let f = s.recv();
                        if let Some(f) = f {
                            let _ = tokio::time::timeout(Duration::from_millis(150), f).await;
                        }
                    }
                    Some(s)
                });
                parked = Some(h);
                // wait until the recv has parked and timed out: the socket comes back
                if let Some(h) = parked.take() {
                    sock = h.await.ok().flatten();
                }
                out.push("park=done".to_string());
            }
            "probe" => {
                let k: usize = t[1].parse().unwrap();
                let ep = bound[k].clone();
                match tokio::time::timeout(Duration::from_secs(1), raw_connect(&ep)).await {
                    Ok(Ok(s)) => {
                        // a listener that is gone may still have the connection refused only after accept queue: check for EOF
                        drop(s);
                        out.push(format!("p#{}=accepted", k));
                    }
                    _ => out.push(format!("p#{}=refused", k)),
                }
            }
            "rebind" => {
                let k: usize = t[1].parse().unwrap();
                let text = bound[k].to_string();
                let mut fresh = AnySock::new(&stype, None);
                match tokio::time::timeout(Duration::from_secs(3), sock_bind(&mut fresh, &text)).await {
                    Ok(Ok(_)) => out.push(format!("rb#{}=ok", k)),
                    Ok(Err(e)) => out.push(format!("rb#{}=err:{}", k, zeromq::__verif::error_class(&e))),
                    Err(_) => out.push(format!("rb#{}=hang", k)),
                }
                drop(fresh);
            }
            "close" => {
                let s = sock.take().expect("socket gone");
                match tokio::time::timeout(Duration::from_secs(5), sock_close(s)).await {
                    Ok(n) => out.push(format!("close={}", n)),
                    Err(_) => out.push("close=hang".to_string()),
                }
            }
            "drop" => {
                sock = None;
                out.push("drop".to_string());
            }
            "sleep" => tokio::time::sleep(Duration::from_millis(t[1].parse().unwrap())).await,
            "flood" => {
                let n: usize = t[1].parse().unwrap();
                let size: usize = t[2].parse().unwrap();
                let mut res = "ok".to_string();
                if let Some(sk) = sock.as_mut() {
                    for _ in 0..n {
                        let f = sk.send(zmsg(vec![vec![b'F'; size]])).unwrap();
                        match tokio::time::timeout(Duration::from_secs(2), f).await {
                            Err(_) => {
                                res = "fail:timeout".to_string();
                                break;
                            }
                            Ok(Err(e)) => {
                                res = format!("fail:{}", zeromq::__verif::error_class(&e));
                                break;
                            }
                            Ok(Ok(())) => {}
                        }
                    }
                } else {
                    res = "fail:gone".to_string();
                }
                out.push(format!("fl={}", res));
            }
            "peers_eof" => {
                for (j, r) in raws.iter_mut().enumerate() {
                    if let Some(raw) = r {
                        let mut buf = vec![0u8; 1 << 16];
                        let deadline = tokio::time::Instant::now() + GRACE;
                        let mut res = "no";
                        loop {
                            match tokio::time::timeout_at(deadline, raw.s.read(&mut buf)).await {
                                Err(_) => break,
                                Ok(Ok(0)) | Ok(Err(_)) => {
                                    res = "yes";
                                    break;
                                }
                                Ok(Ok(_)) => continue,
                            }
                        }
                        out.push(format!("eof#{}={}", j, res));
                    }
                }
            }
            "ipcpaths" => {
                for (k, p) in ipc_paths.iter().enumerate() {
                    out.push(format!("ipc#{}={}", k, if p.exists() { "exists" } else { "gone" }));
                }
            }
            "tasks" => {
                let mut n = alive_tasks();
                let deadline = tokio::time::Instant::now() + GRACE;
                while n > base_tasks && tokio::time::Instant::now() < deadline {
                    tokio::time::sleep(Duration::from_millis(20)).await;
                    n = alive_tasks();
                }
                out.push(format!("tasks={}", n.saturating_sub(base_tasks)));
            }
            "fdsqueeze" => {
                // exhaust the descriptor table, leave room for exactly one (the client's end), connect, give the accept loop
                // time to fail, then free everything again
                let ep = bound[t[1].parse::<usize>().unwrap()].clone();
                let mut hold: Vec<std::fs::File> = Vec::new();
                while let Ok(f) = std::fs::File::open("/dev/null") {
                    hold.push(f);
                    if hold.len() > 100_000 {
                        break;
                    }
                }
                if hold.len() > 100_000 || hold.is_empty() {
                    drop(hold);
                    out.push("sq=skipped".to_string());
                } else {
                    hold.pop();
                    let c = tokio::time::timeout(Duration::from_secs(1), raw_connect(&ep)).await;
                    tokio::time::sleep(Duration::from_millis(300)).await;
                    drop(c);
                    drop(hold);
                    tokio::time::sleep(Duration::from_millis(200)).await;
                    out.push("sq=done".to_string());
                }
            }
            "subbig" => {
                let n: usize = t[1].parse().unwrap();
                let size: usize = t[2].parse().unwrap();
                let mut res = "ok".to_string();
                if let Some(AnySock::Sub(sk)) = sock.as_mut() {
                    for i in 0..n {
                        let topic = format!("T{:04}{}", i, "x".repeat(size));
                        match tokio::time::timeout(Duration::from_secs(5), sk.subscribe(&topic)).await {
                            Ok(Ok(())) => {}
                            Ok(Err(e)) => {
                                res = format!("fail:{}", zeromq::__verif::error_class(&e));
                                break;
                            }
                            Err(_) => {
                                res = "fail:timeout".to_string();
                                break;
                            }
                        }
                    }
                } else {
                    res = "fail:not-sub".to_string();
                }
                out.push(format!("sb={}", res));
            }
            "drain" => {
                let j: usize = t[1].parse().unwrap();
                let mut total = 0usize;
                if let Some(r) = raws[j].as_mut() {
                    let mut buf = vec![0u8; 1 << 16];
                    loop {
                        match tokio::time::timeout(Duration::from_millis(300), r.s.read(&mut buf)).await {
                            Ok(Ok(k)) if k > 0 => total += k,
                            _ => break,
                        }
                    }
                }
                out.push(format!("d#{}={}", j, total));
            }
            "halfclose" => {
                let j: usize = t[1].parse().unwrap();
                if let Some(r) = raws[j].as_mut() {
                    let _ = r.s.shutdown_write().await;
                }
                out.push(format!("hc#{}=done", j));
            }
            "fdsnow" => {
                tokio::time::sleep(Duration::from_millis(400)).await;
                out.push(format!("fdn={}", open_fds().saturating_sub(base_fds)));
            }
            "fds" => {
                let mut n = open_fds();
                let deadline = tokio::time::Instant::now() + GRACE;
                while n > base_fds && tokio::time::Instant::now() < deadline {
                    tokio::time::sleep(Duration::from_millis(20)).await;
                    n = open_fds();
                }
                out.push(format!("fds={}", n.saturating_sub(base_fds)));
            }
            "dropraws" => {
                raws.clear();
                listeners.clear();
            }
            "hs" => {
                let j: usize = t[1].parse().unwrap();
                let h = raws.get(j).and_then(|r| r.as_ref()).map(|r| hex(&r.hs)).unwrap_or_else(|| "-".to_string());
                out.push(format!("h#{}={}", j, h));
            }
            "moninstall" => {
                monitor = Some(sock_monitor(sock.as_mut().unwrap()));
                out.push("mi=ok".into());
            }
            "finish" => {
                let j: usize = t[1].parse().unwrap();
                let off = stall_off.get(&j).copied().unwrap_or(0);
                match t[2] {
                    "close" => {
                        raws[j] = None;
                    }
                    "garbage" => {
                        if let Some(r) = raws[j].as_mut() {
                            // something that is certainly not the rest of a handshake: inside the greeting junk octets,
                            // after it a complete command frame that is not READY
                            if off >= 64 {
                                let _ = r.s.write_all(&[0x04, 0x05, 0x04, b'J', b'U', b'N', b'K']).await;
                            } else {
                                let _ = r.s.write_all(&[0x13u8; 97]).await;
                            }
                        }
                    }
                    _ => {
                        if let Some(r) = raws[j].as_mut() {
                            let hb = handshake_bytes(peer_type(&stype), None);
                            let _ = r.s.write_all(&hb[off.min(hb.len())..]).await;
                        }
                    }
                }
                tokio::time::sleep(Duration::from_millis(150)).await;
                out.push(format!("f#{}=done", j));
            }
            "monitor" => {
                tokio::time::sleep(Duration::from_millis(100)).await;
                let mut names: Vec<String> = Vec::new();
                if let Some(m) = monitor.as_mut() {
                    while let Ok(Some(ev)) = m.try_next() {
                        let d = format!("{:?}", ev);
                        names.push(d.split(|c: char| !c.is_ascii_alphanumeric()).next().unwrap_or("").to_string());
                    }
                }
                names.sort();
                out.push(format!("mon={}", if names.is_empty() { "-".to_string() } else { names.join(",") }));
            }
            other => panic!("rt op {}", other),
        }
    }
    drop(sock);
    drop(raws);
    let _ = std::fs::remove_dir_all(&dir);
    out
}

fn rand_tag() -> u64 {
    use std::sync::atomic::{AtomicU64, Ordering};
    static C: AtomicU64 = AtomicU64::new(0);
    C.fetch_add(1, Ordering::Relaxed)
}

async fn xchg(stype: &str, sock: Option<&mut AnySock>, raw: Option<&mut Raw>, tag: &[u8]) -> String {
    let (sock, raw) = match (sock, raw) {
        (Some(s), Some(r)) => (s, r),
        _ => return "fail:gone".to_string(),
    };
    let frame = |more: bool, b: &[u8]| {
        let mut v = vec![if more { 1u8 } else { 0u8 }, b.len() as u8];
        v.extend_from_slice(b);
        v
    };
    match stype {
        "PULL" | "SUB" | "DEALER" | "ROUTER" | "REP" | "XPUB" => {
            // raw peer -> socket
            let mut wire = Vec::new();
            if stype == "REP" {
                wire.extend(frame(true, b""));
            }
            let payload: Vec<u8> = if stype == "XPUB" { [b"\x01", tag].concat() } else { tag.to_vec() };
            wire.extend(frame(false, &payload));
            if raw.s.write_all(&wire).await.is_err() {
                return "fail:write".to_string();
            }
            // errors that recv reports for OTHER connections (a peer that left) and messages left
            // over from earlier exchanges are not this exchange's business: keep receiving
            let mut last = "fail:timeout".to_string();
            for _ in 0..6 {
                let f = sock.recv().unwrap();
                match tokio::time::timeout(Duration::from_secs(2), f).await {
                    Err(_) => return last,
                    Ok(Err(e)) => last = format!("fail:{}", zeromq::__verif::error_class(&e)),
                    Ok(Ok(m)) => {
                        let fr = zmsg_frames(&m);
                        if fr.last().map(|f| f.as_slice()) == Some(&payload[..]) {
                            return "ok".to_string();
                        }
                        last = format!("fail:wrong:{}", msg_hex(&fr));
                    }
                }
            }
            last
        }
        _ => {
            // socket -> raw peer (PUSH, REQ; PUB needs a subscription first)
            if stype == "PUB" {
                let _ = raw.s.write_all(&frame(false, b"\x01")).await;
                tokio::time::sleep(Duration::from_millis(100)).await;
            }
            let f = sock.send(zmsg(vec![tag.to_vec()])).unwrap();
            match tokio::time::timeout(Duration::from_secs(2), f).await {
                Err(_) => return "fail:timeout".to_string(),
                Ok(Err(e)) => return format!("fail:{}", zeromq::__verif::error_class(&e)),
                Ok(Ok(())) => {}
            }
            let mut got = std::mem::take(&mut raw.extra);
            let mut buf = [0u8; 256];
            let deadline = tokio::time::Instant::now() + Duration::from_secs(2);
            loop {
                if got.windows(tag.len()).any(|w| w == tag) {
                    return "ok".to_string();
                }
                match tokio::time::timeout_at(deadline, raw.s.read(&mut buf)).await {
                    Err(_) => return "fail:timeout-read".to_string(),
                    Ok(Ok(0)) | Ok(Err(_)) => return "fail:eof".to_string(),
                    Ok(Ok(n)) => got.extend_from_slice(&buf[..n]),
                }
            }
        }
    }
}

/// sending socket types: the message may legitimately go to any connected peer (round robin /
/// fan-out), so every raw connection is watched for it
async fn xchg_send(stype: &str, sock: Option<&mut AnySock>, raws: &mut Vec<Option<Raw>>, j: usize, tag: &[u8]) -> String {
    let sock = match sock {
        Some(s) => s,
        None => return "fail:gone".to_string(),
    };
    if raws.get(j).map(|r| r.is_none()).unwrap_or(true) {
        return "fail:gone".to_string();
    }
    if stype == "PUB" {
        for r in raws.iter_mut().flatten() {
            if r.ready {
                let _ = r.s.write_all(&[0u8, 1, 1]).await;
            }
        }
        tokio::time::sleep(Duration::from_millis(100)).await;
    }
    // a send may legitimately fail once per peer that has left (the failure is how the socket learns): retry
    let mut sent = false;
    let mut last = "fail:timeout".to_string();
    for _ in 0..12 {
        let f = sock.send(zmsg(vec![tag.to_vec()])).unwrap();
        match tokio::time::timeout(Duration::from_secs(2), f).await {
            Err(_) => return "fail:timeout".to_string(),
            Ok(Err(e)) => {
                // (the accept side registers a peer a little after the raw client has seen the library's READY)
                last = format!("fail:{}", zeromq::__verif::error_class(&e));
                tokio::time::sleep(Duration::from_millis(50)).await;
            }
            Ok(Ok(())) => {
                sent = true;
                break;
            }
        }
    }
    if !sent {
        return last;
    }
    let nraws = raws.iter().flatten().count();
    let deadline = tokio::time::Instant::now() + Duration::from_secs(if nraws > 8 { 6 } else { 2 });
    let mut buf = [0u8; 256];
    loop {
        for r in raws.iter_mut().flatten() {
            if r.extra.windows(tag.len()).any(|w| w == tag) {
                if stype == "REQ" {
                    // complete the lock-step cycle: the peer replies, the socket receives the reply
                    r.extra.clear();
                    let _ = r.s.write_all(&[1u8, 0, 0, 2, b'o', b'k']).await;
                    let f = sock.recv().unwrap();
                    return match tokio::time::timeout(Duration::from_secs(2), f).await {
                        Ok(Ok(_)) => "ok".to_string(),
                        Ok(Err(e)) => format!("fail:reply:{}", zeromq::__verif::error_class(&e)),
                        Err(_) => "fail:reply-timeout".to_string(),
                    };
                }
                return "ok".to_string();
            }
            // (with many raw connections a pass must stay short: poll each one without waiting)
            if let Ok(Ok(n)) = tokio::time::timeout(Duration::from_millis(if nraws > 8 { 1 } else { 20 }), r.s.read(&mut buf)).await {
                r.extra.extend_from_slice(&buf[..n]);
            }
        }
        if tokio::time::Instant::now() > deadline {
            return "fail:timeout-read".to_string();
        }
        if nraws > 8 {
            tokio::time::sleep(Duration::from_millis(5)).await;
        }
    }
}

macro_rules! each_sock {
    ($s:expr, $x:ident => $e:expr) => {
        match $s {
            AnySock::Pub($x) => $e,
            AnySock::Sub($x) => $e,
            AnySock::XPub($x) => $e,
            AnySock::Req($x) => $e,
            AnySock::Rep($x) => $e,
            AnySock::Dealer($x) => $e,
            AnySock::Router($x) => $e,
            AnySock::Push($x) => $e,
            AnySock::Pull($x) => $e,
        }
    };
}

async fn sock_bind(s: &mut AnySock, text: &str) -> Result<Endpoint, ZmqError> {
    each_sock!(s, x => x.bind(text).await)
}
async fn sock_unbind(s: &mut AnySock, ep: Endpoint) -> Result<(), ZmqError> {
    each_sock!(s, x => x.unbind(ep).await)
}
async fn sock_connect(s: &mut AnySock, text: &str) -> Result<(), ZmqError> {
    each_sock!(s, x => x.connect(text).await)
}
fn sock_binds(s: &mut AnySock) -> Vec<Endpoint> {
    each_sock!(s, x => x.binds().keys().cloned().collect())
}
pub fn sock_monitor(s: &mut AnySock) -> futures::channel::mpsc::Receiver<zeromq::SocketEvent> {
    each_sock!(s, x => x.monitor())
}
async fn sock_close(s: AnySock) -> usize {
    each_sock!(s, x => x.close().await.len())
}

#[allow(dead_code)]
fn unused(_: HashMap<u8, u8>) {}
