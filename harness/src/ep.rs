//! Endpoint parsing / printing through the public API.
//! case: ID ep UTF8HEX  ->  ok:<canonical> rt=<ok|ne|err> fmt=<hex of Display>  |  err
use crate::util::*;
use zeromq::{Endpoint, Host};

fn canon(e: &Endpoint) -> String {
    match e {
        Endpoint::Tcp(Host::Ipv4(a), p) => {
            let o = a.octets();
            format!("tcp:ip4:{}.{}.{}.{}:{}", o[0], o[1], o[2], o[3], p)
        }
        Endpoint::Tcp(Host::Ipv6(a), p) => {
            let s: Vec<String> = a.segments().iter().map(|g| format!("{:x}", g)).collect();
            format!("tcp:ip6:{}:{}", s.join("."), p)
        }
        Endpoint::Tcp(Host::Domain(d), p) => format!("tcp:dom:{}:{}", hex(d.as_bytes()), p),
        Endpoint::Ipc(Some(path)) => format!("ipc:{}", hex(path.to_string_lossy().as_bytes())),
        Endpoint::Ipc(None) => "ipc:none".to_string(),
        _ => "other".to_string(),
    }
}

pub fn run(args: &[&str]) -> String {
    let b = bytes_tok(args[0]);
    let s = match String::from_utf8(b) {
        Ok(s) => s,
        Err(_) => return "not-utf8".to_string(),
    };
    match s.parse::<Endpoint>() {
        Err(_) => "err".to_string(),
        Ok(e) => {
            let text = e.to_string();
            let rt = match text.parse::<Endpoint>() {
                Ok(e2) => {
                    if e2 == e {
                        "ok"
                    } else {
                        "ne"
                    }
                }
                Err(_) => "err",
            };
            format!("ok:{} rt={} fmt={}", canon(&e), rt, hex(text.as_bytes()))
        }
    }
}
