//! Real REQ - ROUTER/DEALER proxy - REP chain on the real runtime (C15, second sentence; C08).
//!
//! case: ID chain NC NW tcp|ipc [cap] / op / op ...
//!   NC real REQ clients (identity `Ck` repeated, set through SocketOptions) connect to the proxy's ROUTER
//!   frontend; NW real REP workers connect to its DEALER backend; every worker answers a request with
//!   the frame 07 followed by the request's frames; `cap` installs a PUSH capture socket drained by a PULL.
//!   req C F;F   -> q=ok | q=err:<class>
//!   recv C      -> r=ok:F;F | r=err:<class> | r=timeout
//!   reconn C    -> c=ok | c=err:<class>    client C goes away (socket dropped) and comes back under the same identity
use crate::sock::err_class;
use crate::util::*;
use std::time::Duration;
use zeromq::prelude::*;
use zeromq::{DealerSocket, PullSocket, PushSocket, RepSocket, ReqSocket, RouterSocket, SocketOptions, ZmqMessage};

const WAIT: Duration = Duration::from_secs(8);

pub fn run(args: &[&str]) -> String {
    let joined = args.join(" ");
    let mut parts = joined.split(" / ");
    let head: Vec<String> = parts.next().unwrap().split_whitespace().map(|s| s.to_string()).collect();
    let ops: Vec<Vec<String>> = parts.map(|p| p.split_whitespace().map(|s| s.to_string()).collect()).collect();
    let rt = tokio::runtime::Builder::new_multi_thread().worker_threads(2).enable_all().build().unwrap();
    // the proxy future holds a Box<dyn CaptureSocket>, which is not Send: it runs on a LocalSet
    let local = tokio::task::LocalSet::new();
    let out = rt.block_on(local.run_until(async move { scenario(head, ops).await }));
    rt.shutdown_timeout(Duration::from_millis(200));
    out.join(" ")
}

fn ep_text(kind: &str, dir: &std::path::Path, name: &str) -> String {
    if kind == "ipc" {
        format!("ipc://{}/{}.sock", dir.display(), name)
    } else {
        "tcp://127.0.0.1:0".to_string()
    }
}

async fn scenario(head: Vec<String>, ops: Vec<Vec<String>>) -> Vec<String> {
    use std::convert::TryFrom;
    let nc: usize = head[0].parse().unwrap();
    let nw: usize = head[1].parse().unwrap();
    let kind = head.get(2).map(|s| s.as_str()).unwrap_or("tcp").to_string();
    let with_cap = head.iter().any(|h| h == "cap");
    let dir = std::path::PathBuf::from(format!("/verif/.work/ipc/chain-{}-{:x}", std::process::id(), {
        use std::time::{SystemTime, UNIX_EPOCH};
        SystemTime::now().duration_since(UNIX_EPOCH).unwrap().subsec_nanos()
    }));
    let _ = std::fs::create_dir_all(&dir);
    let mut out = Vec::new();
    let mut tasks = Vec::new();

    let mut frontend = RouterSocket::new();
    let mut backend = DealerSocket::new();
    let fe = match frontend.bind(&ep_text(&kind, &dir, "front")).await {
        Ok(e) => e,
        Err(e) => return vec![format!("setup=err:front:{}", err_class(&e))],
    };
    let be = match backend.bind(&ep_text(&kind, &dir, "back")).await {
        Ok(e) => e,
        Err(e) => return vec![format!("setup=err:back:{}", err_class(&e))],
    };
    // optional capture path: PUSH (given to the proxy) -> PULL (drained, counted)
    let captured = std::sync::Arc::new(std::sync::atomic::AtomicUsize::new(0));
    let mut capture: Option<Box<dyn zeromq::CaptureSocket>> = None;
    if with_cap {
        let mut pull = PullSocket::new();
        let ce = pull.bind(&ep_text(&kind, &dir, "cap")).await.unwrap();
        let mut push = PushSocket::new();
        push.connect(&ce.to_string()).await.unwrap();
        let cnt = captured.clone();
        tasks.push(tokio::spawn(async move {
            while let Ok(_m) = pull.recv().await {
                cnt.fetch_add(1, std::sync::atomic::Ordering::SeqCst);
            }
        }));
        capture = Some(Box::new(push));
    }
    // workers
    for _ in 0..nw {
        let mut w = RepSocket::new();
        if let Err(e) = w.connect(&be.to_string()).await {
            return vec![format!("setup=err:worker:{}", err_class(&e))];
        }
        tasks.push(tokio::spawn(async move {
            loop {
                match w.recv().await {
                    Ok(m) => {
                        let mut fs = vec![vec![7u8]];
                        fs.extend(zmsg_frames(&m));
                        if w.send(zmsg(fs)).await.is_err() {
                            break;
                        }
                    }
                    Err(_) => break,
                }
            }
        }));
    }
    // clients
    fn client(c: usize) -> ReqSocket {
        let mut o = SocketOptions::default();
        let id: Vec<u8> = format!("C{}", c).into_bytes().repeat(if c % 2 == 0 { 1 } else { 8 });
        o.peer_identity(zeromq::util::PeerIdentity::try_from(id).unwrap());
        ReqSocket::with_options(o)
    }
    let mut clients: Vec<ReqSocket> = Vec::new();
    for c in 0..nc {
        let mut s = client(c);
        if let Err(e) = s.connect(&fe.to_string()).await {
            return vec![format!("setup=err:client:{}", err_class(&e))];
        }
        clients.push(s);
    }
    // the accept side of a connection registers the peer a little after connect() has returned
    tokio::time::sleep(Duration::from_millis(150)).await;
    let proxy_task = tokio::task::spawn_local(async move { zeromq::proxy(frontend, backend, capture).await });

    let mut forwarded = 0usize;
    for op in &ops {
        if op.is_empty() {
            continue;
        }
        let t: Vec<&str> = op.iter().map(|s| s.as_str()).collect();
        match t[0] {
            "req" => {
                let c: usize = t[1].parse().unwrap();
                let frames: Vec<Vec<u8>> = t[2].split(';').map(bytes_tok).collect();
                let m: ZmqMessage = zmsg(frames);
                match tokio::time::timeout(WAIT, clients[c].send(m)).await {
                    Ok(Ok(())) => {
                        forwarded += 1;
                        out.push("q=ok".into())
                    }
                    Ok(Err(e)) => out.push(format!("q=err:{}", err_class(&e))),
                    Err(_) => out.push("q=timeout".into()),
                }
            }
            "recv" => {
                let c: usize = t[1].parse().unwrap();
                match tokio::time::timeout(WAIT, clients[c].recv()).await {
                    Ok(Ok(m)) => {
                        forwarded += 1;
                        out.push(format!("r=ok:{}", msg_hex(&zmsg_frames(&m))))
                    }
                    Ok(Err(e)) => out.push(format!("r=err:{}", err_class(&e))),
                    Err(_) => out.push("r=timeout".into()),
                }
            }
            "reconn" => {
                let c: usize = t[1].parse().unwrap();
                let old = std::mem::replace(&mut clients[c], client(c));
                drop(old);
                tokio::time::sleep(Duration::from_millis(100)).await;
                match tokio::time::timeout(WAIT, clients[c].connect(&fe.to_string())).await {
                    Ok(Ok(_)) => out.push("c=ok".into()),
                    Ok(Err(e)) => out.push(format!("c=err:{}", err_class(&e))),
                    Err(_) => out.push("c=timeout".into()),
                }
                tokio::time::sleep(Duration::from_millis(150)).await;
            }
            _ => out.push(format!("unknown-op:{}", t[0])),
        }
    }
    if with_cap {
        // one copy per forwarded message (requests and replies that completed); allow the drain to catch up
        for _ in 0..40 {
            if captured.load(std::sync::atomic::Ordering::SeqCst) >= forwarded {
                break;
            }
            tokio::time::sleep(Duration::from_millis(25)).await;
        }
        out.push(format!("cap={}", if captured.load(std::sync::atomic::Ordering::SeqCst) >= forwarded { "all" } else { "short" }));
    }
    out.push(format!("proxy={}", if proxy_task.is_finished() { "ended" } else { "running" }));
    proxy_task.abort();
    for t in tasks {
        t.abort();
    }
    drop(clients);
    let _ = std::fs::remove_dir_all(&dir);
    out
}
