//! The crate's real proxy() between two real sockets over scripted connections.
//! case: ID proxy FRONT BACK [cap] [prepoll] / fattach C PT [id=HEX] / battach C PT [id=HEX] / ffeed C HEX / bfeed C HEX
//!                                  / feof C / beof C / settle / fwire C / bwire C / cwire / status
//!                                  / [fb]wmode C MODE / [fb]wplan C PLAN / cwmode MODE / cwplan PLAN   (capture connection)
use crate::pipes::*;
use crate::sock::{with_rt, AnySock};
use crate::util::*;
use std::collections::HashMap;
use std::sync::Arc;
use zeromq::__verif as hooks;
use zeromq::prelude::*;

struct Side {
    backend: Arc<dyn zeromq::MultiPeerBackend>,
    conns: HashMap<String, (RCtl, WCtl)>,
}

fn raw_handshake(ptype: &str, id: Option<&Vec<u8>>) -> Vec<u8> {
    let mut g = vec![0u8; 64];
    g[0] = 0xff;
    g[9] = 0x7f;
    g[10] = 3;
    g[12..16].copy_from_slice(b"NULL");
    let mut body = vec![5u8];
    body.extend_from_slice(b"READY");
    body.push(11);
    body.extend_from_slice(b"Socket-Type");
    body.extend_from_slice(&(ptype.len() as u32).to_be_bytes());
    body.extend_from_slice(ptype.as_bytes());
    if let Some(i) = id {
        body.push(8);
        body.extend_from_slice(b"Identity");
        body.extend_from_slice(&(i.len() as u32).to_be_bytes());
        body.extend_from_slice(i);
    }
    g.push(4);
    g.push(body.len() as u8);
    g.extend_from_slice(&body);
    g
}

async fn attach(side: &mut Side, name: &str, ptype: &str, id: Option<Vec<u8>>) -> String {
    let (pr, rctl) = reader();
    let (pw, wctl) = writer();
    rctl.data(&raw_handshake(ptype, id.as_ref()));
    let r = hooks::attach(side.backend.clone(), Box::new(pr), Box::new(pw)).await;
    wctl.take_written();
    side.conns.insert(name.to_string(), (rctl, wctl));
    match r {
        Ok(_) => format!("att:{}=ok", name),
        Err(e) => format!("att:{}=err:{}", name, hooks::error_class(&e)),
    }
}

macro_rules! spawn_proxy {
    ($f:expr, $b:expr, $cap:expr) => {
        tokio::task::spawn_local(async move { zeromq::proxy($f, $b, $cap).await })
    };
}

pub fn run(args: &[&str]) -> String {
    let joined = args.join(" ");
    let mut parts = joined.split(" / ");
    let head: Vec<&str> = parts.next().unwrap().split_whitespace().collect();
    let ft = head[0].to_string();
    let bt = head[1].to_string();
    let with_cap = head.iter().any(|h| *h == "cap");
    let prepoll = head.iter().any(|h| *h == "prepoll");
    let ops: Vec<Vec<String>> = parts.map(|p| p.split_whitespace().map(|s| s.to_string()).collect()).collect();
    let out = with_rt(|rt| {
        let local = tokio::task::LocalSet::new();
        rt.block_on(local.run_until(async move {
            let mut out: Vec<String> = Vec::new();
            let mut fs = AnySock::new(&ft, None);
            let mut bs = AnySock::new(&bt, None);
            if prepoll {
                // a recv on each socket is polled once by "somebody else" and abandoned before the sockets go to proxy()
                for s in [&mut fs, &mut bs] {
                    if let Some(mut f) = s.recv() {
                        let (_cw, w) = count_waker();
                        let mut cx = std::task::Context::from_waker(&w);
                        let _ = f.as_mut().poll(&mut cx);
                    }
                }
            }
            let mut front = Side { backend: fs.backend(), conns: HashMap::new() };
            let mut back = Side { backend: bs.backend(), conns: HashMap::new() };
            let mut capside: Option<Side> = None;
            let cap: Option<Box<dyn zeromq::CaptureSocket>> = if with_cap {
                let c = zeromq::PushSocket::new();
                let mut s = Side { backend: c.backend(), conns: HashMap::new() };
                attach(&mut s, "c", "PULL", None).await;
                capside = Some(s);
                Some(Box::new(c))
            } else {
                None
            };
            let handle = match (fs, bs) {
                (AnySock::Router(f), AnySock::Dealer(b)) => spawn_proxy!(f, b, cap),
                (AnySock::Dealer(f), AnySock::Dealer(b)) => spawn_proxy!(f, b, cap),
                (AnySock::Dealer(f), AnySock::Router(b)) => spawn_proxy!(f, b, cap),
                (AnySock::Router(f), AnySock::Router(b)) => spawn_proxy!(f, b, cap),
                (AnySock::XPub(f), AnySock::Dealer(b)) => spawn_proxy!(f, b, cap),
                (AnySock::Dealer(f), AnySock::XPub(b)) => spawn_proxy!(f, b, cap),
                (AnySock::Rep(f), AnySock::Req(b)) => spawn_proxy!(f, b, cap),
                _ => panic!("unsupported proxy pair"),
            };
            for op in &ops {
                if op.is_empty() {
                    continue;
                }
                let t: Vec<&str> = op.iter().map(|s| s.as_str()).collect();
                let (sidec, cmd) = t[0].split_at(1);
                match t[0] {
                    "settle" => settle().await,
                    "status" => {
                        settle().await;
                        out.push(format!("status={}", if handle.is_finished() { "ended" } else { "running" }));
                    }
                    "cwmode" => {
                        if let Some(sd) = capside.as_ref() {
                            sd.conns["c"].1.set_mode(crate::sock::parse_wmode(t[1]));
                        }
                    }
                    "cwplan" => {
                        if let Some(sd) = capside.as_ref() {
                            sd.conns["c"].1.plan(crate::sock::parse_wplan(t[1]));
                        }
                    }
                    "cwire" => {
                        let b = capside.as_ref().map(|s| s.conns["c"].1.take_written()).unwrap_or_default();
                        out.push(format!("cwire={}", hex(&b)));
                    }
                    _ => {
                        let side = if sidec == "f" { &mut front } else { &mut back };
                        match cmd {
                            "attach" => {
                                let id = t[3..].iter().find_map(|o| o.strip_prefix("id=")).map(bytes_tok);
                                let r = attach(side, t[1], t[2], id).await;
                                out.push(format!("{}{}", sidec, r));
                            }
                            "feed" => side.conns[t[1]].0.data(&bytes_tok(t[2])),
                            "eof" => side.conns[t[1]].0.push(REvt::Eof),
                            "wire" => {
                                let b = side.conns[t[1]].1.take_written();
                                out.push(format!("{}wire:{}={}", sidec, t[1], hex(&b)));
                            }
                            "wmode" => side.conns[t[1]].1.set_mode(crate::sock::parse_wmode(t[2])),
                            "wplan" => side.conns[t[1]].1.plan(crate::sock::parse_wplan(t[2])),
                            _ => panic!("proxy op {}", t[0]),
                        }
                    }
                }
            }
            handle.abort();
            settle().await;
            out
        }))
    });
    out.join(" ")
}
