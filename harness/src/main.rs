#![allow(dead_code)]
mod codec_cases;
mod pipes;
mod util;

use std::io::{BufRead, Write};
use std::panic::{catch_unwind, AssertUnwindSafe};

fn run_case(kind: &str, args: &[&str]) -> String {
    match kind {
        "enc" => codec_cases::enc(args),
        "enchdr" => codec_cases::enchdr(args),
        "dec" => codec_cases::dec(args),
        "greet" => codec_cases::greet(args),
        "ready" => codec_cases::ready(args),
        _ => format!("unknown-kind {}", kind),
    }
}

fn main() {
    let argv: Vec<String> = std::env::args().collect();
    if argv.len() < 2 {
        eprintln!("usage: zvh <casefile> [start-index]");
        std::process::exit(2);
    }
    // quiet panics: a panic is an observation
    std::panic::set_hook(Box::new(|_| {}));
    let start: usize = argv.get(2).map(|x| x.parse().unwrap()).unwrap_or(0);
    let f = std::fs::File::open(&argv[1]).expect("case file");
    let out = std::io::stdout();
    // worker thread with tokio's default worker stack size (2 MiB), like a runtime worker
    let lines: Vec<String> = std::io::BufReader::new(f).lines().map(|l| l.unwrap()).collect();
    let h = std::thread::Builder::new()
        .stack_size(2 * 1024 * 1024)
        .spawn(move || {
            for (idx, line) in lines.iter().enumerate() {
                if idx < start || line.trim().is_empty() || line.starts_with("//") {
                    continue;
                }
                let toks: Vec<&str> = line.split_whitespace().collect();
                let id = toks[0];
                let kind = toks[1];
                {
                    // announce before running, so that an abort is attributable
                    let mut o = out.lock();
                    writeln!(o, "@{} {}", idx, id).unwrap();
                    o.flush().unwrap();
                }
                let res = catch_unwind(AssertUnwindSafe(|| run_case(kind, &toks[2..])));
                let obs = match res {
                    Ok(s) => s,
                    Err(_) => "panic".to_string(),
                };
                let mut o = out.lock();
                writeln!(o, "{} {}", id, obs).unwrap();
                o.flush().unwrap();
            }
        })
        .unwrap();
    h.join().unwrap();
}
