#![allow(dead_code)]
mod chain;
mod codec_cases;
mod ep;
mod fq;
mod pipes;
mod proxy;
mod rt;
mod sock;
mod ts;
mod util;

use std::alloc::{GlobalAlloc, Layout, System};
use std::io::{BufRead, Write};
use std::sync::atomic::{AtomicUsize, Ordering};

/// Counting allocator: live bytes, peak, largest single request (for the C03 memory observations).
pub struct Counting;
pub static LIVE: AtomicUsize = AtomicUsize::new(0);
pub static PEAK: AtomicUsize = AtomicUsize::new(0);
pub static MAXREQ: AtomicUsize = AtomicUsize::new(0);
pub static PANICS: AtomicUsize = AtomicUsize::new(0);
unsafe impl GlobalAlloc for Counting {
    unsafe fn alloc(&self, l: Layout) -> *mut u8 {
        let p = System.alloc(l);
        if !p.is_null() {
            let v = LIVE.fetch_add(l.size(), Ordering::Relaxed) + l.size();
            PEAK.fetch_max(v, Ordering::Relaxed);
            MAXREQ.fetch_max(l.size(), Ordering::Relaxed);
        }
        p
    }
    unsafe fn dealloc(&self, p: *mut u8, l: Layout) {
        System.dealloc(p, l);
        LIVE.fetch_sub(l.size(), Ordering::Relaxed);
    }
    unsafe fn realloc(&self, p: *mut u8, l: Layout, new: usize) -> *mut u8 {
        let q = System.realloc(p, l, new);
        if !q.is_null() {
            if new >= l.size() {
                let v = LIVE.fetch_add(new - l.size(), Ordering::Relaxed) + (new - l.size());
                PEAK.fetch_max(v, Ordering::Relaxed);
                MAXREQ.fetch_max(new, Ordering::Relaxed);
            } else {
                LIVE.fetch_sub(l.size() - new, Ordering::Relaxed);
            }
        }
        q
    }
}
#[global_allocator]
static GLOBAL: Counting = Counting;

/// (peak growth over the live level at reset, largest single request) since the last reset
pub fn mem_reset() -> usize {
    let live = LIVE.load(Ordering::Relaxed);
    PEAK.store(live, Ordering::Relaxed);
    MAXREQ.store(0, Ordering::Relaxed);
    live
}
pub fn mem_report(base: usize) -> (usize, usize) {
    (PEAK.load(Ordering::Relaxed).saturating_sub(base), MAXREQ.load(Ordering::Relaxed))
}
use std::panic::{catch_unwind, AssertUnwindSafe};

static CURRENT: std::sync::Mutex<Option<(std::time::Instant, String, u64)>> = std::sync::Mutex::new(None);
const CASE_LIMIT_S: u64 = 90; // real-runtime cases (they contain their own waits)
const CASE_LIMIT_DET_S: u64 = 30; // deterministic, in-memory cases

fn run_case(kind: &str, args: &[&str]) -> String {
    match kind {
        "enc" => codec_cases::enc(args),
        "enchdr" => codec_cases::enchdr(args),
        "encdec" => codec_cases::encdec(args),
        "dec" => codec_cases::dec(args),
        "greet" => codec_cases::greet(args),
        "ready" => codec_cases::ready(args),
        "sock" => sock::run(args),
        "fq" => fq::run(args),
        "ts" => ts::run(args),
        "ep" => ep::run(args),
        "rt" => rt::run(args),
        "proxy" => proxy::run(args),
        "chain" => chain::run(args),
        "compat" => codec_cases::compat(args),
        "stypename" => codec_cases::stypename(args),
        _ => format!("unknown-kind {}", kind),
    }
}

fn main() {
    let argv: Vec<String> = std::env::args().collect();
    if argv.len() < 2 {
        eprintln!("usage: zvh <casefile> [start-index]");
        std::process::exit(2);
    }
    // quiet panics: a panic is an observation
    std::panic::set_hook(Box::new(|_| {
        PANICS.fetch_add(1, Ordering::SeqCst);
    }));
    let start: usize = argv.get(2).map(|x| x.parse().unwrap()).unwrap_or(0);
    let f = std::fs::File::open(&argv[1]).expect("case file");
    let out = std::io::stdout();
    // worker thread with tokio's default worker stack size (2 MiB), like a runtime worker
    let lines: Vec<String> = std::io::BufReader::new(f).lines().map(|l| l.unwrap()).collect();
    let h = std::thread::Builder::new()
        .stack_size(2 * 1024 * 1024)
        .spawn(move || {
            for (idx, line) in lines.iter().enumerate() {
                if idx < start || line.trim().is_empty() || line.starts_with("//") {
                    continue;
                }
                let toks: Vec<&str> = line.split_whitespace().collect();
                let id = toks[0];
                let kind = toks[1];
                {
                    // announce before running, so that an abort is attributable
                    let mut o = out.lock();
                    writeln!(o, "@{} {}", idx, id).unwrap();
                    o.flush().unwrap();
                }
                // watchdog: a case that does not come back is an observation (`hang`), and the driver
                // restarts the harness behind it
                *CURRENT.lock().unwrap() = Some((std::time::Instant::now(), id.to_string(), if kind == "rt" || kind == "chain" { CASE_LIMIT_S } else { CASE_LIMIT_DET_S }));
                let res = catch_unwind(AssertUnwindSafe(|| run_case(kind, &toks[2..])));
                let mut obs = match res {
                    Ok(s) => s,
                    Err(_) => "panic".to_string(),
                };
                let np = PANICS.swap(0, Ordering::SeqCst);
                if np > 0 && obs != "panic" {
                    obs.push_str(&format!(" PANICS={}", np));
                }
                *CURRENT.lock().unwrap() = None;
                let mut o = out.lock();
                writeln!(o, "{} {}", id, obs).unwrap();
                o.flush().unwrap();
            }
        })
        .unwrap();
    std::thread::spawn(|| loop {
        std::thread::sleep(std::time::Duration::from_millis(200));
        let cur = CURRENT.lock().unwrap().clone();
        if let Some((t0, id, limit)) = cur {
            if t0.elapsed() > std::time::Duration::from_secs(limit) {
                let so = std::io::stdout();
                let mut o = so.lock();
                let _ = writeln!(o, "{} hang", id);
                let _ = o.flush();
                std::process::exit(97);
            }
        }
    });
    h.join().unwrap();
}
