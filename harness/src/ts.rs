//! try_send probe: the crate's TrySend::try_send on a real FramedWrite over a scripted writer.
//! case: ID ts plan=<wplan> dflt=<a|p|z|wN|e:Kind> / send LEN / send LEN ...
use crate::pipes::*;
use crate::sock::{err_class, parse_wplan};
use crate::util::*;
use zeromq::__verif::TrySendProbe;

pub fn fnv(b: &[u8]) -> u32 {
    let mut h: u32 = 0x811c9dc5;
    for x in b {
        h ^= *x as u32;
        h = h.wrapping_mul(0x01000193);
    }
    h
}

pub fn pattern(i: usize, len: usize) -> Vec<u8> {
    (0..len).map(|j| ((i * 37 + j * 11 + 5) & 0xff) as u8).collect()
}

pub fn run(args: &[&str]) -> String {
    let joined = args.join(" ");
    let mut parts = joined.split(" / ");
    let head: Vec<&str> = parts.next().unwrap().split_whitespace().collect();
    let (pw, wctl) = writer();
    for h in &head {
        if let Some(p) = h.strip_prefix("plan=") {
            wctl.plan(parse_wplan(p));
        } else if let Some(d) = h.strip_prefix("dflt=") {
            let m = match parse_wplan(d).pop().unwrap() {
                WAns::Wrote(usize::MAX) => WMode::All,
                WAns::Wrote(k) => WMode::Limit(k),
                WAns::Pending => WMode::Stall,
                WAns::Zero => WMode::Zero,
                WAns::Err(k) => WMode::Broken(k),
            };
            wctl.set_mode(m);
        }
    }
    let mut probe = TrySendProbe::new(Box::new(pw));
    let hwm = probe.high_water_mark();
    let mut out = Vec::new();
    let mut i = 0usize;
    for p in parts {
        let t: Vec<&str> = p.split_whitespace().collect();
        if t.is_empty() {
            continue;
        }
        if t[0] == "send" {
            let len: usize = t[1].parse().unwrap();
            let m = zmsg(vec![pattern(i, len)]);
            i += 1;
            match probe.try_send(m) {
                Ok(()) => out.push("ok".to_string()),
                Err(e) => out.push(format!("err:{}", err_class(&e))),
            }
        }
    }
    let written = wctl.written();
    let buffered = probe.into_buffered();
    let mut all = written.clone();
    all.extend_from_slice(&buffered);
    out.push(format!("written={} buffered={} hwm={} sum={:08x} calls={}", written.len(), buffered.len(), hwm, fnv(&all), wctl.calls()));
    out.join(" ")
}
