//! Scripted in-memory transport halves. A reader delivers exactly the scripted chunk plan; a writer
//! answers each poll_write from a plan or a mode. Both record wakers, calls and drops.
use futures::io::{AsyncRead, AsyncWrite};
use parking_lot::Mutex;
use std::collections::VecDeque;
use std::io;
use std::pin::Pin;
use std::sync::atomic::{AtomicUsize, Ordering};
use std::sync::Arc;
use std::task::{Context, Poll, Waker};

pub static ACTIVITY: AtomicUsize = AtomicUsize::new(0);

#[derive(Debug, Clone)]
pub enum REvt {
    Data(Vec<u8>),
    /// This poll returns Pending (waker kept); the next poll continues with the plan.
    Pending,
    Eof,
    Err(io::ErrorKind),
}

#[derive(Default)]
pub struct RState {
    pub q: VecDeque<REvt>,
    pub waker: Option<Waker>,
    pub dropped: bool,
    pub polls: usize,
    pub ended: bool,
    pub delivered: usize,
}

pub struct PipeR(pub Arc<Mutex<RState>>);
#[derive(Clone)]
pub struct RCtl(pub Arc<Mutex<RState>>);

pub fn reader() -> (PipeR, RCtl) {
    let st = Arc::new(Mutex::new(RState::default()));
    (PipeR(st.clone()), RCtl(st))
}

impl RCtl {
    pub fn push(&self, e: REvt) {
        let w = {
            let mut s = self.0.lock();
            s.q.push_back(e);
            s.waker.take()
        };
        if let Some(w) = w {
            w.wake();
        }
    }
    pub fn data(&self, d: &[u8]) {
        self.push(REvt::Data(d.to_vec()));
    }
    /// Push without waking (the harness fires the waker itself later).
    pub fn push_silent(&self, e: REvt) {
        self.0.lock().q.push_back(e);
    }
    pub fn wake(&self) {
        let w = self.0.lock().waker.take();
        if let Some(w) = w {
            w.wake();
        }
    }
    pub fn has_waker(&self) -> bool {
        self.0.lock().waker.is_some()
    }
    pub fn dropped(&self) -> bool {
        self.0.lock().dropped
    }
    pub fn pending_bytes(&self) -> usize {
        self.0
            .lock()
            .q
            .iter()
            .map(|e| if let REvt::Data(d) = e { d.len() } else { 0 })
            .sum()
    }
    pub fn polls(&self) -> usize {
        self.0.lock().polls
    }
}

impl Drop for PipeR {
    fn drop(&mut self) {
        self.0.lock().dropped = true;
    }
}

impl AsyncRead for PipeR {
    fn poll_read(
        self: Pin<&mut Self>,
        cx: &mut Context<'_>,
        buf: &mut [u8],
    ) -> Poll<io::Result<usize>> {
        ACTIVITY.fetch_add(1, Ordering::Relaxed);
        let mut s = self.0.lock();
        s.polls += 1;
        if s.ended {
            return Poll::Ready(Ok(0));
        }
        match s.q.pop_front() {
            None => {
                s.waker = Some(cx.waker().clone());
                Poll::Pending
            }
            Some(REvt::Pending) => {
                s.waker = Some(cx.waker().clone());
                Poll::Pending
            }
            Some(REvt::Eof) => {
                s.ended = true;
                Poll::Ready(Ok(0))
            }
            Some(REvt::Err(k)) => {
                s.ended = true;
                Poll::Ready(Err(io::Error::new(k, "scripted read error")))
            }
            Some(REvt::Data(mut d)) => {
                if d.is_empty() {
                    // an empty data chunk would look like EOF to FramedRead; skip it
                    drop(s);
                    return self.poll_read(cx, buf);
                }
                let n = d.len().min(buf.len());
                buf[..n].copy_from_slice(&d[..n]);
                if n < d.len() {
                    let rest = d.split_off(n);
                    s.q.push_front(REvt::Data(rest));
                }
                s.delivered += n;
                Poll::Ready(Ok(n))
            }
        }
    }
}

#[derive(Debug, Clone)]
pub enum WAns {
    /// accept at most this many bytes
    Wrote(usize),
    Pending,
    Err(io::ErrorKind),
    Zero,
}

#[derive(Debug, Clone)]
pub enum WMode {
    All,
    Stall,
    Limit(usize),
    Broken(io::ErrorKind),
    Zero,
}

pub struct WState {
    pub plan: VecDeque<WAns>,
    pub mode: WMode,
    pub written: Vec<u8>,
    pub waker: Option<Waker>,
    pub dropped: bool,
    pub closed: bool,
    pub calls: usize,
    pub answers: Vec<String>,
}

pub struct PipeW(pub Arc<Mutex<WState>>);
#[derive(Clone)]
pub struct WCtl(pub Arc<Mutex<WState>>);

pub fn writer() -> (PipeW, WCtl) {
    let st = Arc::new(Mutex::new(WState {
        plan: VecDeque::new(),
        mode: WMode::All,
        written: Vec::new(),
        waker: None,
        dropped: false,
        closed: false,
        calls: 0,
        answers: Vec::new(),
    }));
    (PipeW(st.clone()), WCtl(st))
}

impl WCtl {
    pub fn set_mode(&self, m: WMode) {
        let w = {
            let mut s = self.0.lock();
            s.mode = m;
            s.waker.take()
        };
        if let Some(w) = w {
            w.wake();
        }
    }
    pub fn plan(&self, a: Vec<WAns>) {
        self.0.lock().plan.extend(a);
    }
    pub fn written(&self) -> Vec<u8> {
        self.0.lock().written.clone()
    }
    pub fn written_len(&self) -> usize {
        self.0.lock().written.len()
    }
    pub fn take_written(&self) -> Vec<u8> {
        std::mem::take(&mut self.0.lock().written)
    }
    pub fn dropped(&self) -> bool {
        self.0.lock().dropped
    }
    pub fn calls(&self) -> usize {
        self.0.lock().calls
    }
    pub fn plan_left(&self) -> usize {
        self.0.lock().plan.len()
    }
}

impl Drop for PipeW {
    fn drop(&mut self) {
        self.0.lock().dropped = true;
    }
}

impl AsyncWrite for PipeW {
    fn poll_write(
        self: Pin<&mut Self>,
        cx: &mut Context<'_>,
        buf: &[u8],
    ) -> Poll<io::Result<usize>> {
        ACTIVITY.fetch_add(1, Ordering::Relaxed);
        let mut s = self.0.lock();
        s.calls += 1;
        let from_plan = !s.plan.is_empty();
        let ans = match s.plan.pop_front() {
            Some(a) => a,
            None => match &s.mode {
                WMode::All => WAns::Wrote(usize::MAX),
                WMode::Stall => WAns::Pending,
                WMode::Limit(k) => WAns::Wrote(*k),
                WMode::Broken(k) => WAns::Err(*k),
                WMode::Zero => WAns::Zero,
            },
        };
        match ans {
            WAns::Wrote(k) => {
                let n = k.min(buf.len());
                s.written.extend_from_slice(&buf[..n]);
                Poll::Ready(Ok(n))
            }
            WAns::Pending => {
                // a planned Pending is transient back-pressure: writable again at the next poll.
                // Only the Stall MODE keeps the waker without firing it.
                if from_plan {
                    cx.waker().wake_by_ref();
                } else {
                    s.waker = Some(cx.waker().clone());
                }
                Poll::Pending
            }
            WAns::Err(k) => Poll::Ready(Err(io::Error::new(k, "scripted write error"))),
            WAns::Zero => Poll::Ready(Ok(0)),
        }
    }
    fn poll_flush(self: Pin<&mut Self>, _cx: &mut Context<'_>) -> Poll<io::Result<()>> {
        Poll::Ready(Ok(()))
    }
    fn poll_close(self: Pin<&mut Self>, _cx: &mut Context<'_>) -> Poll<io::Result<()>> {
        self.0.lock().closed = true;
        Poll::Ready(Ok(()))
    }
}

/// Let every runnable task of the (current-thread) runtime run until no pipe is touched any more.
pub async fn settle() {
    let mut quiet = 0;
    let mut rounds = 0;
    while quiet < 3 && rounds < 10_000 {
        let a = ACTIVITY.load(Ordering::Relaxed);
        tokio::task::yield_now().await;
        if ACTIVITY.load(Ordering::Relaxed) == a {
            quiet += 1;
        } else {
            quiet = 0;
        }
        rounds += 1;
    }
}

/// A waker that counts how often it was invoked.
pub struct CountWaker(pub AtomicUsize);
impl futures::task::ArcWake for CountWaker {
    fn wake_by_ref(arc_self: &Arc<Self>) {
        arc_self.0.fetch_add(1, Ordering::SeqCst);
    }
}
pub fn count_waker() -> (Arc<CountWaker>, Waker) {
    let c = Arc::new(CountWaker(AtomicUsize::new(0)));
    let w = futures::task::waker(c.clone());
    (c, w)
}
