//! Fair-queue probe: the crate's real FairQueue over scripted streams.  Labels mirror
//! coq/Model/FairQueue.v; "window" events are executed from inside a stream's poll_next, i.e.
//! while the queue has that stream checked out and its lock released.
//!
//! case: ID fq [noblock] / label / label ...
//! label: P | P:<idx>~ev~ev..   one poll_next call; evs run inside the idx-th stream poll of that call
//!        I<k> | R<k> | A<k>.<x> | C<k> | W<k> (fire and consume k's kept waker) | w<k> (fire, keep)
//!        D   environment fires every owed waker, then an executor polls only when woken, to quiescence
use futures::Stream;
use parking_lot::Mutex;
use std::collections::{HashMap, VecDeque};
use std::pin::Pin;
use std::sync::atomic::{AtomicUsize, Ordering};
use std::sync::Arc;
use std::task::{Context, Poll, Waker};
use zeromq::__verif::{FairQueueHandle, FairQueueProbe};

struct LatestWakes {
    current: AtomicUsize,
    wakes: AtomicUsize,
}
struct GenWaker {
    gen: usize,
    all: Arc<LatestWakes>,
}
impl futures::task::ArcWake for GenWaker {
    fn wake_by_ref(arc_self: &Arc<Self>) {
        if arc_self.gen == arc_self.all.current.load(Ordering::SeqCst) {
            arc_self.all.wakes.fetch_add(1, Ordering::SeqCst);
        }
    }
}

#[derive(Default)]
struct SState {
    items: VecDeque<u64>,
    closed: bool,
    waker: Option<Waker>,
}

#[derive(Clone, Debug)]
enum Ev {
    I(u64),
    R(u64),
    A(u64, u64),
    C(u64),
    W(u64, bool),
    /// the stream poll this event rides on (and every later one of the same poll_next call) yields: it wakes the waker
    /// it is polled with and returns Pending - what tokio's cooperative budgeting does once a task's budget is used up
    Y,
}

struct Shared {
    streams: Mutex<HashMap<u64, Arc<Mutex<SState>>>>,
    window: Mutex<Option<(usize, Vec<Ev>)>>,
    polls: AtomicUsize,
    handle: Mutex<Option<FairQueueHandle<SStream, u64>>>,
    yielding: std::sync::atomic::AtomicBool,
}

struct SStream {
    st: Arc<Mutex<SState>>,
    sh: Arc<Shared>,
}

fn src(sh: &Arc<Shared>, k: u64) -> Arc<Mutex<SState>> {
    sh.streams.lock().entry(k).or_default().clone()
}

fn apply(sh: &Arc<Shared>, e: &Ev) {
    match e {
        Ev::I(k) => {
            let st = src(sh, *k);
            let h = sh.handle.lock().clone().unwrap();
            h.insert(*k, SStream { st, sh: sh.clone() });
        }
        Ev::R(k) => {
            let h = sh.handle.lock().clone().unwrap();
            h.remove(k);
        }
        Ev::A(k, x) => src(sh, *k).lock().items.push_back(*x),
        Ev::C(k) => src(sh, *k).lock().closed = true,
        Ev::Y => sh.yielding.store(true, Ordering::SeqCst),
        Ev::W(k, consume) => {
            let st = src(sh, *k);
            let w = if *consume { st.lock().waker.take() } else { st.lock().waker.clone() };
            if let Some(w) = w {
                w.wake();
            }
        }
    }
}

impl Stream for SStream {
    type Item = u64;
    fn poll_next(self: Pin<&mut Self>, cx: &mut Context<'_>) -> Poll<Option<u64>> {
        let n = self.sh.polls.fetch_add(1, Ordering::SeqCst);
        let evs = {
            let mut w = self.sh.window.lock();
            match &*w {
                Some((idx, _)) if *idx == n => w.take().map(|x| x.1),
                _ => None,
            }
        };
        if let Some(evs) = evs {
            for e in &evs {
                apply(&self.sh, e);
            }
        }
        if self.sh.yielding.load(Ordering::SeqCst) {
            cx.waker().wake_by_ref();
            return Poll::Pending;
        }
        let mut st = self.st.lock();
        if let Some(x) = st.items.pop_front() {
            Poll::Ready(Some(x))
        } else if st.closed {
            Poll::Ready(None)
        } else {
            st.waker = Some(cx.waker().clone());
            Poll::Pending
        }
    }
}

fn parse_ev(t: &str) -> Ev {
    if t == "Y" {
        return Ev::Y;
    }
    let (c, rest) = t.split_at(1);
    match c {
        "I" => Ev::I(rest.parse().unwrap()),
        "R" => Ev::R(rest.parse().unwrap()),
        "C" => Ev::C(rest.parse().unwrap()),
        "W" => Ev::W(rest.parse().unwrap(), true),
        "w" => Ev::W(rest.parse().unwrap(), false),
        "A" => {
            let mut it = rest.split('.');
            Ev::A(it.next().unwrap().parse().unwrap(), it.next().unwrap().parse().unwrap())
        }
        _ => panic!("fq event {}", t),
    }
}

pub fn run(args: &[&str]) -> String {
    let joined = format!(" {}", args.join(" "));
    let mut parts = joined.split(" / ");
    let head = parts.next().unwrap();
    let block = !head.contains("noblock");
    let sh = Arc::new(Shared {
        streams: Mutex::new(HashMap::new()),
        window: Mutex::new(None),
        polls: AtomicUsize::new(0),
        handle: Mutex::new(None),
        yielding: std::sync::atomic::AtomicBool::new(false),
    });
    let mut probe: FairQueueProbe<SStream, u64> = FairQueueProbe::new(block);
    *sh.handle.lock() = Some(probe.handle());
    // Every poll_next call comes with its own waker (as if recv were called from a new task each
    // time); only invocations of the waker of the MOST RECENT call count as waking the receiver.
    let cw = Arc::new(LatestWakes { current: AtomicUsize::new(0), wakes: AtomicUsize::new(0) });
    let mut out = Vec::new();
    let cw2 = cw.clone();
    let mut poll_once = |probe: &mut FairQueueProbe<SStream, u64>, idx: Option<usize>, evs: Vec<Ev>| -> String {
        sh.polls.store(0, Ordering::SeqCst);
        *sh.window.lock() = idx.map(|i| (i, evs));
        let gen = cw2.current.fetch_add(1, Ordering::SeqCst) + 1;
        let waker = futures::task::waker(Arc::new(GenWaker { gen, all: cw2.clone() }));
        let mut cx = Context::from_waker(&waker);
        let r = match probe.poll_next(&mut cx) {
            Poll::Pending => "Pend".to_string(),
            Poll::Ready(None) => "None".to_string(),
            Poll::Ready(Some((k, x))) => format!("R{}.{}", k, x),
        };

        // window events that found no stream poll to ride on happen right after the call returns
        let rest = sh.window.lock().take();
        if let Some((_, evs)) = rest {
            for e in &evs {
                apply(&sh, e);
            }
        }
        // the budget is fresh again once the call has returned to the executor (a yield marker that found no
        // stream poll to ride on has no effect)
        sh.yielding.store(false, Ordering::SeqCst);
        r
    };
    let mut last_w0 = 0usize;
    let mut last_pend = false;
    for lab in parts {
        let lab = lab.trim();
        if lab.is_empty() {
            continue;
        }
        if lab == "D" {
            // environment: every stream that is ready and still holds a waker fires it
            let keys: Vec<u64> = {
                let mut k: Vec<u64> = sh.streams.lock().keys().cloned().collect();
                k.sort();
                k
            };
            for k in keys {
                let st = src(&sh, k);
                let w = {
                    let mut s = st.lock();
                    if !s.items.is_empty() || s.closed { s.waker.take() } else { None }
                };
                if let Some(w) = w {
                    w.wake();
                }
            }
            // executor: re-polls a parked receiver only if its waker was invoked since that poll began
            let mut res = Vec::new();
            let mut guard = 0;
            loop {
                guard += 1;
                if guard > 10_000 {
                    res.push("spin".to_string());
                    break;
                }
                if last_pend && cw.wakes.load(Ordering::SeqCst) == last_w0 {
                    break;
                }
                last_w0 = cw.wakes.load(Ordering::SeqCst);
                let r = poll_once(&mut probe, None, vec![]);
                last_pend = r == "Pend";
                let stop = r == "None";
                res.push(r);
                if stop {
                    break;
                }
            }
            out.push(format!("D[{}]@{}", res.join(","), cw.wakes.load(Ordering::SeqCst)));
            continue;
        }
        if lab.starts_with('P') {
            let mut idx = None;
            let mut evs = Vec::new();
            if lab.len() > 1 {
                let body = &lab[2..];
                let mut it = body.split('~');
                idx = Some(it.next().unwrap().parse::<usize>().unwrap());
                evs = it.map(parse_ev).collect();
            }
            last_w0 = cw.wakes.load(Ordering::SeqCst);
            let r = poll_once(&mut probe, idx, evs);
            last_pend = r == "Pend";
            out.push(format!("{}@{}", r, cw.wakes.load(Ordering::SeqCst)));
        } else {
            apply(&sh, &parse_ev(lab));
            out.push(format!("@{}", cw.wakes.load(Ordering::SeqCst)));
        }
    }
    // what is left in streams that were never removed and are still wanted
    let mut left: Vec<String> = Vec::new();
    let mut keys: Vec<u64> = sh.streams.lock().keys().cloned().collect();
    keys.sort();
    for k in keys {
        let n = src(&sh, k).lock().items.len();
        if n > 0 {
            left.push(format!("{}:{}", k, n));
        }
    }
    out.push(format!("left={}", if left.is_empty() { "-".to_string() } else { left.join(",") }));
    *sh.handle.lock() = None;
    out.join(" ")
}
