#!/bin/sh
# usage: seedconfirm.sh <Cxx> [name]  - re-confirms a seeded change in its scratch worktree /tmp/mut/<Cxx> and files it under /verif/seeded/<name>/
ID="$1"; NAME="${2:-$1}"; WT=/tmp/mut/$ID; OUT=/tmp/mut/$ID.out
cd "$WT" || exit 2
export CARGO_TARGET_DIR=$WT/target CARGO_NET_OFFLINE=true
git stash list | grep -q . && { echo "stash not empty"; }
git diff --quiet -- src && { echo "no source change in worktree; applying patch"; git apply "$OUT/patch.diff" || exit 2; }
cp "$OUT/seeded_demo.rs" tests/seeded_demo.rs
W=$(timeout 900 cargo test --offline --test seeded_demo 2>&1 | grep -E "^test result" | tail -1)
S=$(timeout 1500 cargo test --workspace --no-fail-fast --offline 2>&1 | grep -E "^test result" | awk '{p+=$4; f+=$6} END {print p" passed "f" failed"}')
git diff -- src > /tmp/mut/$ID.confirm.diff
git apply -R /tmp/mut/$ID.confirm.diff || exit 2
WO=$(timeout 900 cargo test --offline --test seeded_demo 2>&1 | grep -E "^test result" | tail -1)
git apply /tmp/mut/$ID.confirm.diff || exit 2
echo "with change:    $W"
echo "suite w/ change (incl. demo): $S"
echo "without change: $WO"
mkdir -p /verif/seeded/$NAME
cp /tmp/mut/$ID.confirm.diff /verif/seeded/$NAME/patch.diff
cp "$OUT/seeded_demo.rs" /verif/seeded/$NAME/
cp "$OUT/meta.json" /verif/seeded/$NAME/meta.agent.json
printf '%s\n%s\n%s\n' "with change: $W" "suite with change: $S" "without change: $WO" > /verif/seeded/$NAME/confirm.txt
