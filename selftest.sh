#!/bin/sh
# runs every registered quick check for the given seeds on the current /repo tree; prints only alarms
for seed in "$@"; do
  for p in C01 C02 C03 C04 C05 C06 C07 C08 C09 C10 C11 C12 C13 C14 C15 C16 C17 C18 C19 C20; do
    VERIF_SEED=$seed ./zv check $p > /tmp/selftest.$p.$seed 2>&1; rc=$?
    [ $rc -ne 0 ] && echo "ALARM $p seed=$seed rc=$rc $(grep '^VIOLATION' /tmp/selftest.$p.$seed | head -1)"
  done
done
echo "selftest done: $*"
