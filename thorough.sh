#!/bin/sh
# runs every registered thorough check on the current /repo tree; prints alarms and timings
for p in ${2:-C01 C02 C03 C04 C05 C06 C07 C08 C09 C10 C11 C12 C13 C14 C15 C16 C17 C18 C19 C20}; do
  t0=$(date +%s)
  VERIF_SEED=${1:-1} ./zv check $p --tier thorough > /tmp/thorough.$p 2>&1; rc=$?
  t1=$(date +%s)
  echo "$p rc=$rc $((t1-t0))s $(grep '^VIOLATION' /tmp/thorough.$p | head -1)"
done
echo "thorough done"
