#!/usr/bin/env python3
"""Translator: reads /repo's current working tree (and the Cargo.lock-pinned asynchronous-codec
source) and emits coq/Gen/Src.v, the data every theorem depends on.  Run on every check.

Each constant is found by a syntactic pattern.  A pattern that is not found yields the poison
value POISON (so that the Gen-dependent obligations break) and is recorded in gen.json as
"missing"; the driver may then replace it by a value probed from the compiled code."""
import json
import os
import re
import sys
import glob

REPO = os.environ.get("ZV_REPO", "/repo")
try:
    DEFAULTS = json.load(open(os.path.join(os.path.dirname(os.path.abspath(__file__)), "defaults.json")))
except Exception:
    DEFAULTS = {}
POISON = 999983


def rd(rel):
    with open(os.path.join(REPO, rel)) as f:
        return f.read()


def num(s):
    s = s.replace("_", "")
    if s.startswith("0x"):
        return int(s, 16)
    if s.startswith("0b"):
        return int(s, 2)
    return int(s)


NUM = r"(0x[0-9a-fA-F_]+|0b[01_]+|[0-9][0-9_]*)"


def fn_body(src, header_re):
    """text of the first fn whose header matches, by brace matching"""
    m = re.search(header_re, src)
    if not m:
        return None
    i = src.index("{", m.end() - 1)
    depth = 0
    for j in range(i, len(src)):
        if src[j] == "{":
            depth += 1
        elif src[j] == "}":
            depth -= 1
            if depth == 0:
                return src[i : j + 1]
    return None


class Gen:
    def __init__(self):
        self.vals = {}
        self.info = {}

    def put(self, name, val, how):
        if val is None:
            # pattern not found: the committed last-known value keeps the model runnable; the name is
            # reported as missing and every property for which it is relevant treats its tie as broken
            self.vals[name] = DEFAULTS.get(name, POISON)
            self.info[name] = "missing"
        else:
            self.vals[name] = val
            self.info[name] = how

    def rx(self, name, text, pattern, group=1, conv=num, flags=re.S):
        if text is None:
            self.put(name, None, "")
            return
        m = re.search(pattern, text, flags)
        self.put(name, conv(m.group(group)) if m else None, "syntax")


def main(out_v, out_json):
    g = Gen()
    zc = rd("src/codec/zmq_codec.rs")
    dec = fn_body(zc, r"fn decode\s*\(&mut self")
    encf = fn_body(zc, r"fn encode_frame\s*\(")
    newf = fn_body(zc, r"pub fn new\(\) -> Self")
    g.rx("greeting_len", newf, r"waiting_for:\s*" + NUM)
    g.rx("greeting_split", dec, r"Greeting\s*=>.*?split_to\(" + NUM + r"\)")
    g.rx("greeting_first", dec, r"src\[0\]\s*!=\s*" + NUM)
    g.rx("dec_mask_cmd", dec, r"command:\s*\(flags\s*&\s*" + NUM + r"\)\s*!=\s*0")
    g.rx("dec_mask_long", dec, r"long:\s*\(flags\s*&\s*" + NUM + r"\)\s*!=\s*0")
    g.rx("dec_mask_more", dec, r"more:\s*\(flags\s*&\s*" + NUM + r"\)\s*!=\s*0")
    g.rx("dec_len_long", dec, r"waiting_for\s*=\s*if frame\.long\s*\{\s*" + NUM + r"\s*\}\s*else\s*\{\s*" + NUM, 1)
    g.rx("dec_len_short", dec, r"waiting_for\s*=\s*if frame\.long\s*\{\s*" + NUM + r"\s*\}\s*else\s*\{\s*" + NUM, 2)
    widths = {"u8": 1, "u16": 2, "u32": 4, "u64": 8}
    g.rx("dec_get_long", dec, r"if frame\.long\s*\{\s*src\.get_(u\d+)\(\)", 1, lambda s: widths[s])
    g.rx("dec_get_short", dec, r"if frame\.long\s*\{\s*src\.get_u\d+\(\) as usize\s*\}\s*else\s*\{\s*src\.get_(u\d+)\(\)", 1, lambda s: widths[s])
    g.put("decode_self_calls", None if dec is None else len(re.findall(r"self\s*\.\s*decode\s*\(", dec)), "syntax")
    g.put("decode_reserve_calls", None if dec is None else len(re.findall(r"\.reserve\s*\(", dec)), "syntax")
    g.put("decode_has_loop", None if dec is None else (1 if re.search(r"\bloop\s*\{", dec) else 0), "syntax")
    g.rx("enc_flag_more", encf, r"if more\s*\{\s*flags \|=\s*" + NUM)
    g.rx("enc_short_max", encf, r"if len >\s*" + NUM + r"\s*\{\s*flags \|=")
    g.rx("enc_flag_long", encf, r"if len >\s*" + NUM + r"\s*\{\s*flags \|=\s*" + NUM, 2)
    g.rx("enc_short_max2", encf, r"put_u8\(flags\);\s*if len >\s*" + NUM)
    g.rx("enc_long_width", encf, r"put_u8\(flags\);\s*if len >\s*" + NUM + r"\s*\{\s*dst\.put_(u\d+)\(len as u\d+\)", 2, lambda s: widths[s])
    g.rx("enc_short_width", encf, r"\}\s*else\s*\{\s*dst\.put_(u\d+)\(len as u\d+\)", 1, lambda s: widths[s])
    encm = fn_body(zc, r"fn encode\s*\(&mut self")
    # (a rewrite of the loop that the pattern does not recognise is not a verdict: the flag is then MEASURED on the compiled
    # code by the probe fallback, like the encoder's constants)
    g.put("enc_more_on_all_but_last", 1 if encm is not None and re.search(r"let last_element = message\.len\(\) - 1;.*encode_frame\(part, dst, idx != last_element\)", encm, re.S) else None, "syntax")

    cm = rd("src/codec/command.rs")
    frm = fn_body(cm, r"fn from\(command: ZmqCommand\) -> Self")
    g.rx("cmd_short_max", frm, r"message_len >\s*" + NUM)
    g.rx("cmd_flag_long", frm, r"if long_message\s*\{.*?put_u8\(" + NUM + r"\)")
    g.rx("cmd_long_width", frm, r"if long_message\s*\{.*?put_(u\d+)\(message_len as", 1, lambda s: widths[s])
    g.rx("cmd_flag_short", frm, r"\}\s*else\s*\{.*?put_u8\(" + NUM + r"\)")
    g.rx("cmd_vlen_width", frm, r"bytes\.put_(u\d+)\(val\.len\(\) as", 1, lambda s: widths[s])
    g.rx("cmd_nlen_width", frm, r"bytes\.put_(u\d+)\(prop\.len\(\) as", 1, lambda s: widths[s])
    tf = fn_body(cm, r"fn try_from\(mut buf: Bytes\)")
    g.rx("cmd_parse_vlen_width", tf, r"let prop_val_len = buf\.get_(u\d+)\(\)", 1, lambda s: widths[s])
    g.rx("cmd_parse_vlen_guard", tf, r"if buf\.len\(\) <\s*" + NUM + r"\s*\{[^}]*\}\s*let prop_val_len")
    g.put("cmd_parse_guards", None if tf is None else len(re.findall(r"if buf\.(?:is_empty\(\)|len\(\) <)", tf)), "syntax")

    gr = rd("src/codec/greeting.rs")
    g.rx("gr_len", gr, r"let mut data: \[u8;\s*" + NUM + r"\]")
    g.rx("gr_sig0_off", gr, r"data\[" + NUM + r"\] = 0xff")
    g.rx("gr_sig0", gr, r"data\[\d+\] = " + NUM + r";\s*data\[\d+\] = 0x7f")
    g.rx("gr_sig9_off", gr, r"data\[" + NUM + r"\] = 0x7f")
    g.rx("gr_sig9", gr, r"data\[9\] = " + NUM)
    g.rx("gr_major_off", gr, r"data\[" + NUM + r"\] = greet\.version\.0")
    g.rx("gr_minor_off", gr, r"data\[" + NUM + r"\] = greet\.version\.1")
    g.rx("gr_mech_off", gr, r"data\[" + NUM + r"\.\." + NUM + r" \+ mech\.len\(\)\]")
    g.rx("gr_server_off", gr, r"data\[" + NUM + r"\] = greet\.as_server")
    g.rx("gr_parse_len", gr, r"value\.len\(\) !=\s*" + NUM)
    g.rx("gr_parse_sig0", gr, r"value\[0\] ==\s*" + NUM)
    g.rx("gr_parse_sig9", gr, r"value\[9\] ==\s*" + NUM)
    g.rx("gr_parse_major_off", gr, r"version: \(value\[" + NUM + r"\], value\[" + NUM + r"\]\)", 1)
    g.rx("gr_parse_minor_off", gr, r"version: \(value\[" + NUM + r"\], value\[" + NUM + r"\]\)", 2)
    g.rx("gr_parse_mech_lo", gr, r"&value\[" + NUM + r"\.\." + NUM + r"\]", 1)
    g.rx("gr_parse_mech_hi", gr, r"&value\[" + NUM + r"\.\." + NUM + r"\]", 2)
    g.rx("gr_parse_server_off", gr, r"as_server: value\[" + NUM + r"\] == " + NUM, 1)
    g.rx("gr_parse_server_val", gr, r"as_server: value\[" + NUM + r"\] == " + NUM, 2)
    g.rx("gr_default_major", gr, r"version: \(" + NUM + r",\s*" + NUM + r"\)", 1)
    g.rx("gr_default_minor", gr, r"version: \(" + NUM + r",\s*" + NUM + r"\)", 2)

    ut = rd("src/util.rs")
    g.rx("max_id", ut, r"MAX_LENGTH: usize =\s*" + NUM)
    g.put("id_guard_is_gt", 1 if re.search(r"data\.len\(\) > Self::MAX_LENGTH", ut) else 0, "syntax")
    g.put("version_cmp_is_ge", 1 if re.search(r"peer\.version >= my_version", ut) else 0, "syntax")

    lib = rd("src/lib.rs")
    m = re.search(r"const COMPATIBILITY_MATRIX: \[u8;\s*" + NUM + r"\] = \[(.*?)\];", lib, re.S)
    matrix = None
    if m:
        body = re.sub(r"//[^\n]*", "", m.group(2))
        matrix = [int(x) for x in re.findall(r"\d+", body)]
        g.put("matrix_decl_len", num(m.group(1)), "syntax")
    else:
        g.put("matrix_decl_len", None, "")
    g.rx("matrix_stride", lib, r"COMPATIBILITY_MATRIX\[row_index \*\s*" + NUM + r"\s*\+ col_index\]")
    names = re.findall(r"^\s*([A-Z]+) = (\d+),", lib, re.M)
    as_str = re.findall(r'SocketType::([A-Z]+) => "([A-Z]+)"', lib)
    from_b = re.findall(r'b"([A-Z]+)" => SocketType::([A-Z]+)', lib)

    sub = rd("src/sub.rs")
    g.rx("sub_op_unsub", sub, r"UNSUBSCRIBE =\s*" + NUM)
    g.rx("sub_op_sub", sub, r"SUBSCRIBE =\s*" + NUM + r",\s*\}")
    for nm, path in (("pub", "src/pub.rs"), ("xpub", "src/xpub.rs")):
        t = rd(path)
        mr = fn_body(t, r"fn message_received\(")
        g.rx(nm + "_op_sub", mr, r"Some\(" + NUM + r"\) => \{\s*// Subscribe")
        g.rx(nm + "_op_unsub", mr, r"Some\(" + NUM + r"\) => \{\s*// Unsubscribe")
        g.rx(nm + "_sub_frames", mr, r"m\.len\(\) !=\s*" + NUM)
    reqsrc = rd("src/req.rs")
    repsrc = rd("src/rep.rs")
    reqrecv = fn_body(reqsrc, r"async fn recv\(&mut self\)")
    g.put("req_recv_takes_marker", None if reqrecv is None else len(re.findall(r"current_request\s*\.\s*take\(\)", reqrecv)), "syntax")
    g.put("req_recv_clears_marker", None if reqrecv is None else len(re.findall(r"self\.current_request = None", reqrecv)), "syntax")
    g.put("rep_rejects_empty_payload", 1 if re.search(r"if at >= m\.len\(\)\s*\{[^}]*return Err", repsrc, re.S) else 0, "syntax")
    g.rx("req_min_frames", reqsrc, r"if m\.len\(\) <\s*" + NUM)
    g.rx("rep_min_frames", rd("src/rep.rs"), r"if m\.len\(\) <\s*" + NUM)

    # structure of the disconnect / subscription paths (C13, C16)
    subsrc = rd("src/sub.rs")
    dealersrc = rd("src/dealer.rs")
    routersrc = rd("src/router.rs")
    def pd_body(src):
        return fn_body(src, r"fn peer_disconnected\(&self")
    g.put("rep_disconnect_removes_stream", 1 if re.search(r"fair_queue_inner\.lock\(\)\.remove\(peer_id\)", pd_body(repsrc) or "") else 0, "syntax")
    g.put("sub_disconnect_removes_stream", 1 if re.search(r"inner\.lock\(\)\.remove\(peer_id\)", pd_body(subsrc) or "") else 0, "syntax")
    drecv = fn_body(dealersrc, r"async fn recv\(&mut self\)")
    g.put("dealer_error_disconnects", 1 if drecv and re.search(r"Err\(e\)\)\) => \{\s*self\.backend\.peer_disconnected\(&peer_id\)", drecv) else 0, "syntax")
    rsend = fn_body(routersrc, r"async fn send\(&mut self")
    g.put("router_send_error_disconnects", 1 if rsend and re.search(r"is_err\(\)\s*\{[^}]*peer_disconnected", rsend, re.S) else 0, "syntax")
    repsend = fn_body(repsrc, r"async fn send\(&mut self")
    g.put("rep_send_error_disconnects", 1 if repsend and re.search(r"is_err\(\)\s*\{[^}]*peer_disconnected", repsend, re.S) else 0, "syntax")
    reqsend = fn_body(reqsrc, r"async fn send\(&mut self")
    g.put("req_send_error_disconnects", 1 if reqsend and re.search(r"if let Err\(e\) = result\s*\{[^}]*peer_disconnected", reqsend, re.S) else 0, "syntax")
    g.put("req_recv_error_disconnects", 1 if reqrecv and re.search(r"ZmqError::NoMessage\)\)\s*\{[^}]*peer_disconnected", reqrecv, re.S) else 0, "syntax")
    subsub = fn_body(subsrc, r"pub async fn subscribe\(")
    subuns = fn_body(subsrc, r"pub async fn unsubscribe\(")
    g.put("sub_subscribe_only_on_change", 1 if subsub and re.search(r"if !self\.backend\.subs\.lock\(\)\.insert\([^)]*\)\)?\s*\{\s*return Ok", subsub) else 0, "syntax")
    g.put("sub_unsubscribe_only_on_change", 1 if subuns and re.search(r"if !self\.backend\.subs\.lock\(\)\.remove\([^)]*\)\s*\{\s*return Ok", subuns) else 0, "syntax")
    psubs = fn_body(subsrc, r"async fn process_subs\(")
    g.put("sub_update_stops_at_error", None if psubs is None else len(re.findall(r"\.await\?", psubs)), "syntax")
    pconn = fn_body(subsrc, r"async fn peer_connected\(")
    g.put("sub_replay_unwraps", None if pconn is None else len(re.findall(r"\.unwrap\(\)", pconn)), "syntax")

    # shutdown paths (C17)
    def shut(src):
        return fn_body(src, r"fn shutdown\(&self\)")
    for nm, path in (("generic", "src/backend.rs"), ("rep", "src/rep.rs"), ("sub", "src/sub.rs"), ("xpub", "src/xpub.rs")):
        b = shut(rd(path))
        g.put(nm + "_shutdown_clears_queue", 1 if b and re.search(r"lock\(\)\.clear\(\)", b) else 0, "syntax")
        g.put(nm + "_shutdown_clears_table", 1 if b and re.search(r"\.clear_sync\(\)", b) else 0, "syntax")
    fqsrc = rd("src/fair_queue.rs")
    # the poll loop yields when the stream it polled has woken the waker it was polled with (C06)
    g.put("fq_pending_checks_woken", 1 if re.search(r"Poll::Pending => \{[^}]*streams\.insert\([^)]*\);\s*if waker\.woken\.load\([^)]*\)\s*\{[^}]*return Poll::Pending;", fqsrc, re.S) else 0, "syntax")
    g.put("fq_waker_sets_woken", 1 if re.search(r"fn wake_by_ref\(arc_self: &Arc<Self>\) \{\s*arc_self\.woken\.store\(true", fqsrc) else 0, "syntax")
    # round-robin send (C10): the identity popped from the rotation is held by a guard that re-queues it when dropped,
    # taken before the first await and disarmed when the peer is gone or its write failed
    besrc = rd("src/backend.rs")
    g.put("rr_guard_requeues_on_drop", 1 if re.search(r"impl Drop for Requeue<'_> \{\s*fn drop\(&mut self\) \{\s*if let Some\(peer_id\) = self\.peer_id\.take\(\) \{\s*self\.queue\.push\(peer_id\);", besrc) else 0, "syntax")
    rrb = fn_body(besrc, r"pub\(crate\) async fn send_round_robin\(")
    g.put("rr_guard_before_await", 1 if rrb and re.search(r"let mut turn = Requeue \{\s*queue: &self\.round_robin,\s*peer_id: Some\(next_peer_id\.clone\(\)\),\s*\};", rrb)
          and ".await" not in rrb[:rrb.find("let mut turn = Requeue")] else 0, "syntax")
    g.put("rr_guard_disarmed_on_error", 1 if rrb and re.search(r"Err\(e\) => \{\s*turn\.peer_id = None;\s*self\.peer_disconnected\(&next_peer_id\);", rrb)
          and re.search(r"None => \{\s*turn\.peer_id = None;\s*continue;", rrb) else 0, "syntax")
    # the rotation holds an identity at most once (a re-joining peer takes over the entry that is still queued), in the
    # generic backend and in REQ's
    g.put("rr_queue_holds_identity_once", 1 if re.search(r"pub\(crate\) fn push\(&self, peer_id: PeerIdentity\) \{\s*let mut queue = self\.0\.lock\(\);\s*if !queue\.contains\(&peer_id\) \{\s*queue\.push_back\(peer_id\);", besrc) else 0, "syntax")
    g.put("rr_backends_use_that_queue", 1 if re.search(r"pub\(crate\) round_robin: RoundRobin,", besrc) and re.search(r"pub\(crate\) round_robin: RoundRobin,", rd("src/req.rs")) else 0, "syntax")
    clr = fn_body(fqsrc, r"pub fn clear\(&mut self\)")
    g.put("queue_clear_drops_streams", 1 if clr and re.search(r"self\.streams\.clear\(\)", clr) else 0, "syntax")
    drops = 0
    for path in ("src/pull.rs", "src/push.rs", "src/dealer.rs", "src/router.rs", "src/rep.rs", "src/req.rs", "src/pub.rs", "src/sub.rs", "src/xpub.rs"):
        if re.search(r"impl Drop for \w+Socket \{\s*fn drop\(&mut self\) \{\s*self\.backend\.shutdown\(\);", rd(path)):
            drops += 1
    g.put("sockets_with_drop_shutdown", drops, "syntax")

    # accept loops (C20): the loop body only spawns the handshake task (detached) and never awaits anything itself
    for nm, path in (("tcp", "src/transport/tcp.rs"), ("ipc", "src/transport/ipc.rs")):
        t = rd(path)
        m2 = re.search(r"let task_handle = async_rt::task::spawn\(async move \{(.*?)\n    \}\);", t, re.S)
        body = m2.group(1) if m2 else None
        lp = None
        if body:
            i = body.find("loop {")
            if i >= 0:
                depth, j = 0, i + 5
                while j < len(body):
                    if body[j] == "{":
                        depth += 1
                    elif body[j] == "}":
                        depth -= 1
                        if depth == 0:
                            break
                    j += 1
                lp = body[i:j + 1]
        g.put(nm + "_accept_loop_awaits", None if lp is None else len(re.findall(r"\.await", lp)), "syntax")
        g.put(nm + "_accept_spawns_detached", None if lp is None else
              (1 if re.search(r"\n\s*async_rt::task::spawn\(cback\(maybe_accepted\)\);", lp) else 0), "syntax")
        g.put(nm + "_accept_select_arms", None if lp is None else len(re.findall(r"=>\s*\{", lp)), "syntax")

    # pinned asynchronous-codec
    lock = rd("Cargo.lock")
    mv = re.search(r'name = "asynchronous-codec"\nversion = "([^"]+)"', lock)
    acdir = None
    if mv:
        c = glob.glob(os.path.expanduser("~/.cargo/registry/src/*/asynchronous-codec-" + mv.group(1)))
        if c:
            acdir = c[0]
    if acdir:
        fw = open(os.path.join(acdir, "src/framed_write.rs")).read()
        fr = open(os.path.join(acdir, "src/framed_read.rs")).read()
        g.rx("hwm", fw, r"DEFAULT_SEND_HIGH_WATER_MARK: usize =\s*" + NUM)
        mi = re.search(r"INITIAL_CAPACITY: usize =\s*" + NUM + r"\s*\*\s*" + NUM, fr)
        g.put("read_chunk", num(mi.group(1)) * num(mi.group(2)) if mi else None, "syntax")
    else:
        g.put("hwm", None, "")
        g.put("read_chunk", None, "")

    with open(out_v, "w") as f:
        f.write("(* GENERATED by gen/extract.py from %s on every run. Do not edit. *)\n" % REPO)
        f.write("From Coq Require Import List NArith.\nImport ListNotations.\nOpen Scope N_scope.\n\n")
        for k in sorted(g.vals):
            f.write("Definition %s : N := %d.  (* %s *)\n" % (k, g.vals[k], g.info[k]))
        f.write("\nDefinition matrix : list N := [%s].\n" % ("; ".join(str(x) for x in (matrix or []))))
        f.write("Definition discriminants : list (list N * N) := [%s].\n" % "; ".join(
            "([%s], %s)" % ("; ".join(str(ord(c)) for c in n), d) for n, d in names))
        f.write("Definition as_str_table : list (list N * list N) := [%s].\n" % "; ".join(
            "([%s], [%s])" % ("; ".join(str(ord(c)) for c in a), "; ".join(str(ord(c)) for c in b)) for a, b in as_str))
        f.write("Definition from_bytes_table : list (list N * list N) := [%s].\n" % "; ".join(
            "([%s], [%s])" % ("; ".join(str(ord(c)) for c in a), "; ".join(str(ord(c)) for c in b)) for a, b in from_b))
    with open(out_json, "w") as f:
        json.dump({"values": g.vals, "how": g.info, "matrix_len": len(matrix or []),
                   "names": names, "as_str": as_str, "from_bytes": from_b,
                   "missing": sorted(k for k, v in g.info.items() if v == "missing")}, f, indent=1, sort_keys=True)
    return g


if __name__ == "__main__":
    out_v = sys.argv[1] if len(sys.argv) > 1 else "/verif/coq/Gen/Src.v"
    out_json = sys.argv[2] if len(sys.argv) > 2 else "/verif/.work/gen.json"
    os.makedirs(os.path.dirname(out_json), exist_ok=True)
    g = main(out_v, out_json)
    miss = [k for k, v in g.info.items() if v == "missing"]
    if miss:
        print("gen: missing " + ",".join(sorted(miss)))
