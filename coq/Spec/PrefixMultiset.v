(** Reference subscription semantics (RFC 29 PUB/XPUB): per connection, a multiset of topic
    prefixes driven by the subscribe / unsubscribe messages in the order they are processed.
    Written from the property text; no Gen constants (opcodes are the RFC's 1 and 0). *)
From ZV Require Import Base.Bytes.

Inductive sub_event := SSub (t : bytes) | SUnsub (t : bytes) | SNoise.

(** a subscription message is a single frame whose first byte is 1 (subscribe) or 0 (unsubscribe) *)
Definition classify (m : list bytes) : sub_event :=
  match m with
  | [b :: t] => if b =? 1 then SSub t else if b =? 0 then SUnsub t else SNoise
  | _ => SNoise
  end.

Definition count_step (t : bytes) (c : nat) (m : list bytes) : nat :=
  match classify m with
  | SSub t' => if bytes_eqb t' t then S c else c
  | SUnsub t' => if bytes_eqb t' t then Nat.pred c else c      (* saturating at 0 *)
  | SNoise => c
  end.

(** how many subscriptions to exactly [t] are active after history [h] *)
Definition count (h : list (list bytes)) (t : bytes) : nat := fold_left (count_step t) h 0%nat.

Definition active (h : list (list bytes)) (t : bytes) : Prop := (0 < count h t)%nat.

(** a message is due to a subscriber iff some active subscription is a byte-prefix of its first frame *)
Definition should_deliver (h : list (list bytes)) (first : bytes) : Prop :=
  exists t r, active h t /\ first = t ++ r.
