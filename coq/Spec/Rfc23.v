(** Independent reference for ZMTP 3.0 (RFC 23) framing, greeting and commands.
    Written from the RFC text; refers to no constant of the implementation (never imports Gen). *)
From ZV Require Import Base.Bytes.

Record wire_frame := { wf_cmd : bool; wf_long : bool; wf_more : bool; wf_body : bytes }.

(** flags octet: bit 0 MORE, bit 1 LONG, bit 2 COMMAND, bits 3-7 reserved and zero;
    a command frame never carries MORE. *)
Definition rfc_flags (b : N) : option (bool * bool * bool) :=
  match b with
  | 0 => Some (false, false, false)
  | 1 => Some (false, false, true)
  | 2 => Some (false, true, false)
  | 3 => Some (false, true, true)
  | 4 => Some (true, false, false)
  | 6 => Some (true, true, false)
  | _ => None
  end.

Definition rfc_frame (bs : bytes) : option (wire_frame * bytes) :=
  match bs with
  | [] => None
  | fl :: r =>
    match rfc_flags fl with
    | None => None
    | Some (c, l, m) =>
      if l then
        if lenN r <? 8 then None else
        let n := of_be (firstn 8 r) in
        let r' := skipn 8 r in
        if lenN r' <? n then None
        else Some ({| wf_cmd := c; wf_long := l; wf_more := m; wf_body := firstnN n r' |}, skipnN n r')
      else
        match r with
        | [] => None
        | n :: r' =>
          if lenN r' <? n then None
          else Some ({| wf_cmd := c; wf_long := l; wf_more := m; wf_body := firstnN n r' |}, skipnN n r')
        end
    end
  end.

(** One message: message frames up to and including the first without MORE. *)
Fixpoint rfc_message_fuel (fuel : nat) (bs : bytes) : option (list bytes * bytes) :=
  match fuel with
  | O => None
  | S f =>
    match rfc_frame bs with
    | None => None
    | Some (w, r) =>
      if wf_cmd w then None
      else if wf_more w then
        match rfc_message_fuel f r with
        | Some (fs, r') => Some (wf_body w :: fs, r')
        | None => None
        end
      else Some ([wf_body w], r)
    end
  end.
Definition rfc_message (bs : bytes) := rfc_message_fuel (S (length bs)) bs.

(** Size field economy demanded by the property text: one-octet size exactly for bodies <= 255. *)
Definition rfc_minimal_size (w : wire_frame) : bool :=
  Bool.eqb (wf_long w) (255 <? lenN (wf_body w)).

Fixpoint rfc_frames_fuel (fuel : nat) (bs : bytes) : option (list wire_frame) :=
  match fuel with
  | O => None
  | S f =>
    match bs with
    | [] => Some []
    | _ => match rfc_frame bs with
           | None => None
           | Some (w, r) => match rfc_frames_fuel f r with Some ws => Some (w :: ws) | None => None end
           end
    end
  end.
Definition rfc_frames (bs : bytes) := rfc_frames_fuel (S (length bs)) bs.

(** Commands.  body = name-len name metadata ; metadata = *(nlen name 4-octet-vlen value) *)
Definition is_alpha (b : N) : bool := ((65 <=? b) && (b <=? 90)) || ((97 <=? b) && (b <=? 122)).
Definition is_digit (b : N) : bool := (48 <=? b) && (b <=? 57).
Definition is_name_char (b : N) : bool :=
  is_alpha b || is_digit b || (b =? 45) || (b =? 95) || (b =? 46) || (b =? 43).

Fixpoint rfc_metadata (fuel : nat) (bs : bytes) : option (list (bytes * bytes)) :=
  match fuel with
  | O => None
  | S f =>
    match bs with
    | [] => Some []
    | nl :: r =>
      if (nl =? 0) || (lenN r <? nl) then None else
      let name := firstnN nl r in
      let r1 := skipnN nl r in
      if negb (forallb is_name_char name) then None else
      if lenN r1 <? 4 then None else
      let vl := of_be (firstn 4 r1) in
      let r2 := skipn 4 r1 in
      if lenN r2 <? vl then None else
      match rfc_metadata f (skipnN vl r2) with
      | Some ps => Some ((name, firstnN vl r2) :: ps)
      | None => None
      end
    end
  end.

Definition rfc_command_body (body : bytes) : option (bytes * list (bytes * bytes)) :=
  match body with
  | [] => None
  | nl :: r =>
    if (nl =? 0) || (lenN r <? nl) then None else
    let name := firstnN nl r in
    if negb (forallb is_alpha name) then None else
    match rfc_metadata (S (length r)) (skipnN nl r) with
    | Some ps => Some (name, ps)
    | None => None
    end
  end.

(** A whole command frame on the wire, nothing left over. *)
Definition rfc_command (bs : bytes) : option (bytes * list (bytes * bytes)) :=
  match rfc_frame bs with
  | Some (w, []) => if wf_cmd w && rfc_minimal_size w then rfc_command_body (wf_body w) else None
  | _ => None
  end.

(** Greeting: signature FF 8*00 7F, version, 20-octet mechanism (name chars then NUL padding),
    as-server 0/1, 31 zero octets. *)
Definition is_mech_char (b : N) : bool :=
  ((65 <=? b) && (b <=? 90)) || is_digit b || (b =? 45) || (b =? 95) || (b =? 46) || (b =? 43).
Fixpoint all_zero (l : bytes) : bool := match l with [] => true | b :: t => (b =? 0) && all_zero t end.
Fixpoint mech_padded (l : bytes) : bool :=
  match l with
  | [] => true
  | b :: t => if b =? 0 then all_zero t else is_mech_char b && mech_padded t
  end.

Definition rfc_greeting_wf (g : bytes) : bool :=
  (lenN g =? 64) &&
  (nth 0 g 0 =? 255) && all_zero (firstn 8 (skipn 1 g)) && (nth 9 g 0 =? 127) &&
  mech_padded (firstn 20 (skipn 12 g)) && negb (nth 12 g 0 =? 0) &&
  (nth 32 g 0 <=? 1) && all_zero (skipn 33 g).

Definition rfc_greeting_version (g : bytes) : N * N := (nth 10 g 0, nth 11 g 0).
Definition rfc_greeting_mech (g : bytes) : bytes := until_nul (firstn 20 (skipn 12 g)).
