(** Declarative reading of a ZMTP byte stream: greeting, then a sequence of frames grouped into
    commands and messages.  Frame segmentation and grouping are written independently of the
    decoder's state machine (no Gen constants, no states); the content parsers for the greeting and
    for a command body are shared with the model, because what they accept is C04's business. *)
From ZV Require Import Base.Bytes Base.Res Model.Codec.

Record sframe := { sf_cmd : bool; sf_more : bool; sf_body : bytes }.

(** one frame: flags (bit 0 MORE, bit 1 LONG, bit 2 COMMAND; other bits are not looked at),
    size in 1 or 8 octets (network order), body.  [None]: the frame is not complete yet. *)
Definition next_frame (bs : bytes) : option (sframe * bytes) :=
  match bs with
  | [] => None
  | fl :: r =>
    if N.testbit fl 1 then
      if lenN r <? 8 then None else
      let n := of_be (firstn 8 r) in
      let r' := skipn 8 r in
      if lenN r' <? n then None
      else Some ({| sf_cmd := N.testbit fl 2; sf_more := N.testbit fl 0; sf_body := firstnN n r' |}, skipnN n r')
    else
      match r with
      | [] => None
      | n :: r' =>
        if lenN r' <? n then None
        else Some ({| sf_cmd := N.testbit fl 2; sf_more := N.testbit fl 0; sf_body := firstnN n r' |}, skipnN n r')
      end
  end.

(** items of the frame sequence, up to and including the first error.
    [acc]: frames of the message under assembly.  A command frame is delivered at once and does
    not disturb the message under assembly. *)
Fixpoint spec_frames (fuel : nat) (acc : option (list bytes)) (bs : bytes) : list out :=
  match fuel with
  | O => []
  | S f =>
    match next_frame bs with
    | None => []
    | Some (fr, rest) =>
      if sf_cmd fr then
        match parse_command (sf_body fr) with
        | Ok ps => OItem (ICommand ps) :: spec_frames f acc rest
        | Err e => [OErr e]
        | Panic s => [OPanic s]
        end
      else
        let m := match acc with Some v => v ++ [sf_body fr] | None => [sf_body fr] end in
        if sf_more fr then spec_frames f (Some m) rest
        else OItem (IMessage m) :: spec_frames f None rest
    end
  end.

(** the whole stream from the first byte *)
Definition spec_items (bs : bytes) : list out :=
  if lenN bs <? 64 then [] else
  if negb (nth 0 bs 0 =? 255) then [OErr EDecode] else
  match parse_greeting (firstn 64 bs) with
  | Ok g => OItem (IGreeting g) :: spec_frames (S (length bs)) None (skipn 64 bs)
  | Err e => [OErr e]
  | Panic s => [OPanic s]
  end.
