(** RFC socket-compatibility relation over the twelve socket-type names.
    Written from the socket RFCs (28 REQ/REP/DEALER/ROUTER, 29 PUB/SUB/XPUB/XSUB, 30 PUSH/PULL,
    31 PAIR); STREAM is not a ZMTP peer type and is compatible with nothing.  No Gen constants. *)
From ZV Require Import Base.Bytes.

Inductive sname := nPAIR | nPUB | nSUB | nREQ | nREP | nDEALER | nROUTER | nPULL | nPUSH | nXPUB | nXSUB | nSTREAM.
Definition all_snames := [nPAIR; nPUB; nSUB; nREQ; nREP; nDEALER; nROUTER; nPULL; nPUSH; nXPUB; nXSUB; nSTREAM].

(** "a may talk to b", listed from a's RFC section *)
Definition rfc_talks (a b : sname) : bool :=
  match a, b with
  | nPAIR, nPAIR => true
  | nPUB, (nSUB | nXSUB) => true
  | nXPUB, (nSUB | nXSUB) => true
  | nSUB, (nPUB | nXPUB) => true
  | nXSUB, (nPUB | nXPUB) => true
  | nREQ, (nREP | nROUTER) => true
  | nREP, (nREQ | nDEALER) => true
  | nDEALER, (nREP | nDEALER | nROUTER) => true
  | nROUTER, (nREQ | nDEALER | nROUTER) => true
  | nPUSH, nPULL => true
  | nPULL, nPUSH => true
  | _, _ => false
  end.

Definition rfc_compat (a b : sname) : bool := rfc_talks a b.
