(** Extraction of the executable models and specs to OCaml.  ExtrOcamlBasic only: bool, option,
    unit, list, prod, sumbool map to OCaml's; nat, positive, N, Z stay inductive.
    No Extract Constant / Extract Inductive directive of our own. *)
Require Extraction.
Require Import ExtrOcamlBasic.
From ZV Require Import Base.Bytes Base.Res Spec.Rfc23 Model.Codec Spec.Stream Spec.Compat Model.Handshake Model.World Model.FairQueue Model.TrySend Model.Proxy Model.Endpoint Model.Runtime Model.Chain Model.PubFan Model.RrSend Model.DirSend.
Extraction Language OCaml.
Separate Extraction
  Bytes.be Bytes.of_be Bytes.lenN Bytes.is_prefix
  Rfc23.rfc_message Rfc23.rfc_frames Rfc23.rfc_command Rfc23.rfc_greeting_wf Rfc23.rfc_minimal_size
  Rfc23.rfc_greeting_version Rfc23.rfc_greeting_mech
  Codec.encode_msg Codec.frame_hdr Codec.encode_greeting Codec.default_greeting Codec.encode_ready
  Codec.ready_props Codec.stype_of_name Codec.lib_items Codec.lib_reader Codec.held Codec.all_stypes
  Stream.spec_items
  Handshake.handshake_verdict Handshake.compatible Compat.rfc_compat Codec.stype_idx Codec.stype_name
  World.world0 World.step World.rep_split World.req_unwrap World.req_wrap World.rep_wrap World.on_sub_msg World.matches
  FairQueue.fq0 FairQueue.step FairQueue.poll FairQueue.drain FairQueue.left_items FairQueue.some_registered_ready
  TrySend.try_sends TrySend.sink0 TrySend.accepted Codec.encode_frames
  Proxy.pstate0 Proxy.proxy_settle Proxy.proxy_iter
  Endpoint.parse_endpoint Endpoint.fmt_endpoint
  Chain.chain0 Chain.cstep Chain.quiescent
  PubFan.fstep PubFan.get
  RrSend.rstep RrSend.rstate0 RrSend.wire_of RrSend.pget
  DirSend.send_to DirSend.req_send DirSend.req_settled DirSend.sstep
  Runtime.brun Runtime.bstate0 Runtime.drop_socket Runtime.conn_open Runtime.listening.
