(** Statement pins for C01: the exact statements, so that a theorem cannot be weakened silently. *)
From ZV Require Import Base.Bytes Base.Res Spec.Rfc23 Model.Codec Proofs.CodecEnc Properties.C01.
From Coq Require Import Permutation.
Check (C01_encode_is_rfc : forall m, wf_msg m -> exists bs, encode_msg m = Ok bs /\ rfc_message bs = Some (m, [])).
Check (C01_size_width : forall more f,
  encode_frame more f =
    if lenN f <=? 255 then [if more then 1 else 0; lenN f] ++ f
    else ((if more then 3 else 2) :: be 8 (lenN f)) ++ f).
Check (C01_length : forall m, length (encode_frames m) = wire_len m).
Check (C01_greeting_wf : forall g, rfc_greeting_wf (encode_greeting g) = true).
Check (C01_greeting_roundtrip : forall g, parse_greeting (encode_greeting g) = Ok g).
Check (C01_ready_wf : forall st idopt props',
  Permutation props' (ready_props st idopt) -> id_ok idopt ->
  rfc_command (encode_ready props') = Some (ascii_READY, props')).
