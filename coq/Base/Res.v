(** Result type with explicit panics: Rust panics are values of the model. *)
From ZV Require Export Base.Bytes.

Inductive err :=
| EDecode | EGreeting | EMechanism | ECommand      (* CodecError variants *)
| EIoEof                                          (* CodecError::Io(UnexpectedEof) from the framed reader *)
| EIo (kind : N)                                  (* other transport error, kind opaque *)
| EOther | EUnsupportedVersion | EPeerIdentity | ENoMessage | EReturnToSender | EBufferFull | ENotFound.

Inductive site :=
| PIndex | PSlice | PGetInt | PSplit | PUnwrap | PUnderflow | PAssert.

Inductive res (A : Type) :=
| Ok (a : A)
| Err (e : err)
| Panic (s : site).
Arguments Ok {A} a.
Arguments Err {A} e.
Arguments Panic {A} s.

Definition bind {A B} (r : res A) (f : A -> res B) : res B :=
  match r with Ok a => f a | Err e => Err e | Panic s => Panic s end.

Definition is_panic {A} (r : res A) : bool := match r with Panic _ => true | _ => false end.
