(** Bytes as lists of N, big-endian fields, Rust-like slice helpers. Stdlib only. *)
From Coq Require Export List NArith Lia Bool Arith.
Export ListNotations.
Open Scope N_scope.

Definition bytes := list N.
Definition lenN {A} (l : list A) : N := N.of_nat (length l).

Definition byte_ok (b : N) : bool := b <? 256.
Definition bytes_ok (l : bytes) : bool := forallb byte_ok l.

(** [be w n]: the [w] low-order bytes of [n], most significant first (put_u8 / put_u32 / put_u64). *)
Fixpoint be (w : nat) (n : N) : bytes :=
  match w with
  | O => []
  | S w' => be w' (n / 256) ++ [n mod 256]
  end.

Fixpoint of_be_acc (acc : N) (l : bytes) : N :=
  match l with
  | [] => acc
  | b :: t => of_be_acc (acc * 256 + b) t
  end.
Definition of_be (l : bytes) : N := of_be_acc 0 l.

Fixpoint bytes_eqb (a b : bytes) : bool :=
  match a, b with
  | [], [] => true
  | x :: a', y :: b' => (x =? y) && bytes_eqb a' b'
  | _, _ => false
  end.

(** take up to (not including) the first zero byte: [value.split(|x| *x == 0).next()] *)
Fixpoint until_nul (l : bytes) : bytes :=
  match l with
  | [] => []
  | b :: t => if b =? 0 then [] else b :: until_nul t
  end.

Fixpoint is_prefix (p l : bytes) : bool :=
  match p, l with
  | [], _ => true
  | x :: p', y :: l' => (x =? y) && is_prefix p' l'
  | _ :: _, [] => false
  end.

Definition firstnN {A} (n : N) (l : list A) := firstn (N.to_nat n) l.
Definition skipnN {A} (n : N) (l : list A) := skipn (N.to_nat n) l.

(** ASCII helper for protocol names *)
Definition ascii_READY : bytes := [82; 69; 65; 68; 89].
Definition ascii_NULL : bytes := [78; 85; 76; 76].
Definition ascii_PLAIN : bytes := [80; 76; 65; 73; 78].
Definition ascii_CURVE : bytes := [67; 85; 82; 86; 69].
Definition ascii_Socket_Type : bytes := [83; 111; 99; 107; 101; 116; 45; 84; 121; 112; 101].
Definition ascii_Identity : bytes := [73; 100; 101; 110; 116; 105; 116; 121].
