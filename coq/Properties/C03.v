(** C03 - Bytes from a peer can never crash the process or force unbounded allocation.
    Property theorems only.  (Stack depth and heap of the real process are runtime quantities: the
    harness measures them; here: no modelled panic site is reachable, held bytes are bounded by
    bytes received, and the decoder's structure - loop, no self-call, no reserve - is re-read from
    the source on every run.) *)
From ZV Require Import Base.Bytes Base.Res Model.Codec Model.Handshake Proofs.Decoder Proofs.HandshakeProofs Proofs.CodecRoundtrip.

(** structure of [decode] as re-read from the source: a loop, no recursive self-call, no reserve
    on a wire-controlled quantity; all five bounds checks of the command parser present *)
Theorem C03_gen_structure :
  Gen.decode_self_calls = 0 /\ Gen.decode_reserve_calls = 0 /\ Gen.decode_has_loop = 1 /\
  Gen.cmd_parse_guards = 5 /\ Gen.cmd_parse_vlen_guard = 4 /\ Gen.cmd_parse_vlen_width = 4.
Proof. repeat split; reflexivity. Qed.
Print Assumptions C03_gen_structure.

(** whatever bytes arrive, in whatever chunks, no modelled panic site (index, slice, get_u8/u32/u64,
    split_to, unwrap/expect) is reached and the loop terminates *)
Theorem C03_decode_never_panics : forall chunks eof,
  Forall (fun o => forall s, o <> OPanic s) (lib_items chunks eof).
Proof. exact lib_never_panics. Qed.
Print Assumptions C03_decode_never_panics.

Theorem C03_command_parser_total : forall body s, parse_command body <> Panic s.
Proof. exact parse_command_no_panic. Qed.
Print Assumptions C03_command_parser_total.

Theorem C03_one_call_no_panic : forall f d buf s,
  wfd d -> (mu d buf < f)%nat -> fst (fst (decode f d buf)) <> RPanic s.
Proof. exact decode_no_panic. Qed.
Print Assumptions C03_one_call_no_panic.

(** bytes held for a connection (undecoded buffer + frames of a partially assembled message) never
    exceed the bytes actually received: a declared length reserves nothing *)
Theorem C03_memory_proportional : forall chunks, held (lib_reader chunks) <= lenN (concat chunks).
Proof. exact memory_proportional. Qed.
Print Assumptions C03_memory_proportional.

(** the handshake decision is total: accepted, rejected or still waiting - never a crash *)
Theorem C03_handshake_total : forall local chunks eof p, handshake_verdict local chunks eof <> Crash p.
Proof. exact verdict_never_crashes. Qed.
Print Assumptions C03_handshake_total.

Theorem C03_compat_total : forall a b, exists v, compatible a b = Ok v.
Proof. exact compat_total. Qed.
Print Assumptions C03_compat_total.
