(** C10 - round-robin senders deliver each message to exactly one peer, in rotation.  Property theorems only. *)
From ZV Require Import Base.Bytes Base.Res Model.Codec Model.World Proofs.SocketProofs.
From ZV Require Proofs.PushDistribution.

(** no live peer in the rotation: the send fails, hands the message back intact, writes nothing *)
Theorem C10_no_peer : forall fuel w m, w_type w <> REQ -> (forall k, In k (w_rr w) -> memN k (w_peers w) = false) ->
  exists w', send_rr fuel w m = (BSendErr EReturnToSender (Some m), w') /\ w_conns w' = w_conns w /\ w_peers w' = w_peers w.
Proof. exact send_rr_no_live_peer. Qed.
Print Assumptions C10_no_peer.

(** a successful send writes the whole message to the head of the rotation, which moves to the tail *)
Theorem C10_head_gets_it : forall fuel w m k rest, w_type w <> REQ -> w_rr w = k :: rest -> memN k (w_peers w) = true ->
  send_rr (S fuel) w m = (BSendOk, write_msg (with_rr (with_rr w rest) (rest ++ [k])) k m).
Proof. exact send_rr_head_live. Qed.
Print Assumptions C10_head_gets_it.

Theorem C10_exactly_one_wire : forall w k m j, j <> k ->
  get_conn j (w_conns (write_msg w k m)) = get_conn j (w_conns w).
Proof. exact write_msg_others_unchanged. Qed.
Print Assumptions C10_exactly_one_wire.

(** strict rotation: with a duplicate-free rotation of live peers, n consecutive sends reach the n
    members in order, each getting exactly its message, and the rotation is restored *)
Theorem C10_rotation : forall w ms, w_type w <> REQ -> conns_ok w -> NoDup (w_rr w) ->
  (forall k, In k (w_rr w) -> memN k (w_peers w) = true /\ exists c, get_conn k (w_conns w) = Some c) ->
  length ms = length (w_rr w) ->
  exists w', sends w ms = (map (fun _ => BSendOk) ms, w') /\ w_rr w' = w_rr w /\ w_peers w' = w_peers w /\
    (forall i k m, nth_error (w_rr w) i = Some k -> nth_error ms i = Some m ->
       exists c c', get_conn k (w_conns w) = Some c /\ get_conn k (w_conns w') = Some c' /\ c_wire c' = c_wire c ++ encode_frames m).
Proof. exact rr_full_rotation. Qed.
Print Assumptions C10_rotation.

(** a peer that joins later enters the rotation, at the tail *)
Theorem C10_late_joiner : forall w c ann, w_type w = PUSH \/ w_type w = DEALER ->
  w_rr (do_attach w c ann) = w_rr w ++ [c] /\ memN c (w_peers (do_attach w c ann)) = true.
Proof. exact late_joiner_at_tail. Qed.
Print Assumptions C10_late_joiner.

(** closed form over whole histories: a PUSH or DEALER socket with n connected peers writes message number i
    (from 0), whole, to peer number (i mod n) in joining order - every message to exactly one peer, in strict rotation *)
Theorem C10_distribution : forall t cs ms,
  t = PUSH \/ t = DEALER -> NoDup cs -> cs <> [] ->
  World.run (world0 t) (map (fun c => OAttach c None) cs ++ map OSend ms ++ map OWire cs) =
  map (fun c => BAtt c None) cs ++ repeat BSendOk (length ms) ++
  map (fun ic => BWire (snd ic) (concat (map encode_frames (PushDistribution.share (fst ic) (length cs) ms)))) (combine (seq 0 (length cs)) cs).
Proof. exact PushDistribution.push_distributes. Qed.
Print Assumptions C10_distribution.

(** * The same loop over connections that answer each write from their own script (Model/RrSend.v):
      partial writes, transient back-pressure, write errors, Ok(0), connections that stop accepting.
      ([World.send_rr] above is the loop over connections that accept every write.) *)
From ZV Require Import Model.TrySend Model.RrSend Proofs.RrSendProofs.

(** the code sites this model rests on, re-read from src/backend.rs on every run: the identity popped from the rotation is
    held by a guard that re-queues it when dropped, created before the first await, disarmed when the peer is gone or
    its write failed *)
Theorem C10_gen_structure :
  Gen.Src.rr_guard_requeues_on_drop = 1 /\ Gen.Src.rr_guard_before_await = 1 /\ Gen.Src.rr_guard_disarmed_on_error = 1 /\
  Gen.Src.rr_queue_holds_identity_once = 1 /\ Gen.Src.rr_backends_use_that_queue = 1.
Proof. repeat split; reflexivity. Qed.
Print Assumptions C10_gen_structure.

(** the framed writer neither loses nor invents bytes, whatever the connection answers *)
Theorem C10_writer_stream : forall fuel s r s', flush_all fuel s = (r, s') ->
  k_written s' ++ k_buf s' = k_written s ++ k_buf s.
Proof. exact flush_all_stream. Qed.
Print Assumptions C10_writer_stream.

(** a send touches at most one connection, whatever its outcome *)
Theorem C10_faulty_touches_one : forall st m r st', RrSend.send st m = (r, st') -> forall j, targets j r = false ->
  wire_of j st' = wire_of j st /\ pget j (r_peers st') = pget j (r_peers st).
Proof. exact send_touches_one. Qed.
Print Assumptions C10_faulty_touches_one.

(** success = the whole message on the wire of a peer the socket holds, nothing left buffered *)
Theorem C10_faulty_ok_whole : forall st m k st', RrSend.send st m = (ROk k, st') ->
  exists p, pget k (r_peers st) = Some p /\
    (k_buf (p_sink p) = [] ->
       wire_of k st' = wire_of k st ++ encode_frames m /\
       exists p', pget k (r_peers st') = Some p' /\ k_buf (p_sink p') = []).
Proof. exact send_ok_whole. Qed.
Print Assumptions C10_faulty_ok_whole.

(** a write failure forgets the peer (table and rotation); at most a prefix of the message went out, to it alone *)
Theorem C10_faulty_err_forgets : forall st m k e st', RrSend.send st m = (RErr k e, st') ->
  NoDup (map p_id (r_peers st)) -> NoDup (r_rr st) ->
  pget k (r_peers st') = None /\ ~ In k (r_rr st') /\
  (forall p, pget k (r_peers st) = Some p -> k_buf (p_sink p) = [] ->
     exists w rest, encode_frames m = w ++ rest /\ wire_of k st' = wire_of k st ++ w).
Proof. exact send_err_forgets. Qed.
Print Assumptions C10_faulty_err_forgets.

Theorem C10_faulty_nopeer : forall st m st', RrSend.send st m = (RNoPeer, st') ->
  r_peers st' = r_peers st /\ r_gone st' = r_gone st /\ r_rr st' = [] /\
  (forall k, In k (r_rr st) -> pget k (r_peers st) = None).
Proof. exact send_nopeer. Qed.
Print Assumptions C10_faulty_nopeer.

(** stale entries only ever leave the rotation, and a message is never given to a peer the socket has let go of *)
Theorem C10_faulty_rotation_shrinks : forall st m r st', RrSend.send st m = (r, st') ->
  (forall j, In j (r_rr st') -> In j (r_rr st)) /\
  (forall k, targets k r = true -> pget k (r_peers st) <> None).
Proof. exact send_rotation_shrinks. Qed.
Print Assumptions C10_faulty_rotation_shrinks.

(** a send that is abandoned while its connection does not accept keeps the peer and its turn order: the peer goes to
    the tail of the rotation like after a completed send *)
Theorem C10_faulty_stall_keeps_turn : forall st m k st', RrSend.send st m = (RStall k, st') ->
  pget k (r_peers st') <> None /\
  exists skipped rest, r_rr st = skipped ++ k :: rest /\ r_rr st' = rest ++ [k] /\
    (forall j, In j skipped -> pget j (r_peers st) = None).
Proof. exact send_stall_keeps_turn. Qed.
Print Assumptions C10_faulty_stall_keeps_turn.

(** a full round over accepting connections reaches every peer once, in queue order, and restores the queue *)
Theorem C10_faulty_full_round : forall ms st, all_accepting st -> NoDup (r_rr st) ->
  (forall k, In k (r_rr st) -> pget k (r_peers st) <> None) ->
  length ms = length (r_rr st) -> Forall (fun m => lenN (encode_frames m) < 2 ^ 63) ms ->
  fst (rrun st (map RSend ms)) = map ROk (r_rr st) /\ r_rr (snd (rrun st (map RSend ms))) = r_rr st.
Proof. exact rr_full_round. Qed.
Print Assumptions C10_faulty_full_round.

(** * Every reachable state - any history of attaches (including a peer that re-joins under its identity while an entry of
      that identity is still queued), losses, script changes and sends *)
(** the rotation never holds an identity twice, nor does the table, and every peer of the table is queued *)
Theorem C10_faulty_reachable_inv : forall ops rs st, rrun rstate0 ops = (rs, st) ->
  NoDup (r_rr st) /\ NoDup (map p_id (r_peers st)) /\ (forall p, In p (r_peers st) -> In (p_id p) (r_rr st)).
Proof. exact rr_reachable_inv. Qed.
Print Assumptions C10_faulty_reachable_inv.

(** a peer that re-joins while an entry of its identity is still queued takes that entry over *)
Theorem C10_faulty_rejoin_takes_over : forall st k, In k (r_rr st) ->
  r_rr (snd (rstep st (RAttach k))) = r_rr st /\ pget k (r_peers (snd (rstep st (RAttach k)))) <> None.
Proof. exact rejoin_takes_over_entry. Qed.
Print Assumptions C10_faulty_rejoin_takes_over.

(** strict rotation in EVERY reachable state: with n peers whose connections accept, n consecutive sends reach the n peers,
    each exactly once, in queue order (stale entries are skipped) *)
Theorem C10_faulty_strict_rotation : forall ops rs st ms, rrun rstate0 ops = (rs, st) ->
  all_accepting st -> length ms = length (r_peers st) ->
  Forall (fun m => lenN (encode_frames m) < 2 ^ 63) ms ->
  let live := filter (is_live st) (r_rr st) in
  fst (rrun st (map RSend ms)) = map ROk live /\ NoDup live /\
  (forall p, In p (r_peers st) -> In (p_id p) live) /\ length live = length (r_peers st).
Proof. exact rr_strict_rotation. Qed.
Print Assumptions C10_faulty_strict_rotation.

(** every history of attaches, losses, script changes and sends: what is on connection k's wire is a prefix of the
    concatenation of exactly the messages the loop gave to k, in order - and all of it when no send to k failed or stalled *)
Theorem C10_faulty_history_prefix : forall ops rs st, NoDup (attached ops) -> rrun rstate0 ops = (rs, st) ->
  forall k, exists tail, wire_of k st ++ tail = concat (map encode_frames (assigned k ops rs)).
Proof. exact rr_history_prefix. Qed.
Print Assumptions C10_faulty_history_prefix.

Theorem C10_faulty_history_complete : forall ops rs st, NoDup (attached ops) -> rrun rstate0 ops = (rs, st) ->
  forall k, (forall r, In r rs -> targets k r = true -> r = ROk k) ->
  wire_of k st = concat (map encode_frames (assigned k ops rs)).
Proof. exact rr_history_complete. Qed.
Print Assumptions C10_faulty_history_complete.

(** * The two models of the send loop agree where both apply: over connections that accept every write, [RrSend.send]
      does what [World.send_rr] does (same outcome, same bytes on the same wire, same rotation and tables afterwards) *)
From ZV Require Import Proofs.DirSendProofs Proofs.SendRefinement.
Theorem C10_faulty_refines_world : forall w st m,
  World.w_type w = PUSH \/ World.w_type w = DEALER -> rr_agrees w st -> lenN (encode_frames m) < 2 ^ 63 ->
  let '(b, w') := World.send_rr (S (length (World.w_rr w))) w m in
  let '(r, st') := RrSend.send st m in
  rr_agrees w' st' /\
  match r with
  | ROk k => b = World.BSendOk /\
             wire_w k w' = wire_w k w ++ encode_frames m /\ wire_of k st' = wire_of k st ++ encode_frames m /\
             (forall j, j <> k -> wire_w j w' = wire_w j w /\ wire_of j st' = wire_of j st)
  | RNoPeer => b = World.BSendErr EReturnToSender (Some m) /\
               (forall j, wire_w j w' = wire_w j w /\ wire_of j st' = wire_of j st)
  | _ => False
  end.
Proof. exact rr_refines_world. Qed.
Print Assumptions C10_faulty_refines_world.

(** ... and over whole runs of sends: same outcomes, same bytes on the same wires, still in agreement afterwards *)
From ZV Require Import Proofs.SendRefinementRuns.
Theorem C10_faulty_runs_refine_world : forall ms w st,
  World.w_type w = PUSH \/ World.w_type w = DEALER -> rr_agrees w st ->
  Forall (fun m => lenN (encode_frames m) < 2 ^ 63) ms ->
  let '(bs, w') := SocketProofs.sends w ms in
  let '(rs, st') := rrun st (map RSend ms) in
  rr_agrees w' st' /\
  length bs = length ms /\ length rs = length ms /\
  (forall i m b r, nth_error ms i = Some m -> nth_error bs i = Some b -> nth_error rs i = Some r -> same_outcome m b r) /\
  exists d : N -> bytes, forall j, wire_w j w' = wire_w j w ++ d j /\ wire_of j st' = wire_of j st ++ d j.
Proof. exact rr_runs_refine_world. Qed.
Print Assumptions C10_faulty_runs_refine_world.
