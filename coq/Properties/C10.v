(** C10 - round-robin senders deliver each message to exactly one peer, in rotation.  Property theorems only. *)
From ZV Require Import Base.Bytes Base.Res Model.Codec Model.World Proofs.SocketProofs.
From ZV Require Proofs.PushDistribution.

(** no live peer in the rotation: the send fails, hands the message back intact, writes nothing *)
Theorem C10_no_peer : forall fuel w m, w_type w <> REQ -> (forall k, In k (w_rr w) -> memN k (w_peers w) = false) ->
  exists w', send_rr fuel w m = (BSendErr EReturnToSender (Some m), w') /\ w_conns w' = w_conns w /\ w_peers w' = w_peers w.
Proof. exact send_rr_no_live_peer. Qed.
Print Assumptions C10_no_peer.

(** a successful send writes the whole message to the head of the rotation, which moves to the tail *)
Theorem C10_head_gets_it : forall fuel w m k rest, w_type w <> REQ -> w_rr w = k :: rest -> memN k (w_peers w) = true ->
  send_rr (S fuel) w m = (BSendOk, write_msg (with_rr (with_rr w rest) (rest ++ [k])) k m).
Proof. exact send_rr_head_live. Qed.
Print Assumptions C10_head_gets_it.

Theorem C10_exactly_one_wire : forall w k m j, j <> k ->
  get_conn j (w_conns (write_msg w k m)) = get_conn j (w_conns w).
Proof. exact write_msg_others_unchanged. Qed.
Print Assumptions C10_exactly_one_wire.

(** strict rotation: with a duplicate-free rotation of live peers, n consecutive sends reach the n
    members in order, each getting exactly its message, and the rotation is restored *)
Theorem C10_rotation : forall w ms, w_type w <> REQ -> conns_ok w -> NoDup (w_rr w) ->
  (forall k, In k (w_rr w) -> memN k (w_peers w) = true /\ exists c, get_conn k (w_conns w) = Some c) ->
  length ms = length (w_rr w) ->
  exists w', sends w ms = (map (fun _ => BSendOk) ms, w') /\ w_rr w' = w_rr w /\ w_peers w' = w_peers w /\
    (forall i k m, nth_error (w_rr w) i = Some k -> nth_error ms i = Some m ->
       exists c c', get_conn k (w_conns w) = Some c /\ get_conn k (w_conns w') = Some c' /\ c_wire c' = c_wire c ++ encode_frames m).
Proof. exact rr_full_rotation. Qed.
Print Assumptions C10_rotation.

(** a peer that joins later enters the rotation, at the tail *)
Theorem C10_late_joiner : forall w c ann, w_type w = PUSH \/ w_type w = DEALER ->
  w_rr (do_attach w c ann) = w_rr w ++ [c] /\ memN c (w_peers (do_attach w c ann)) = true.
Proof. exact late_joiner_at_tail. Qed.
Print Assumptions C10_late_joiner.

(** closed form over whole histories: a PUSH or DEALER socket with n connected peers writes message number i
    (from 0), whole, to peer number (i mod n) in joining order - every message to exactly one peer, in strict rotation *)
Theorem C10_distribution : forall t cs ms,
  t = PUSH \/ t = DEALER -> NoDup cs -> cs <> [] ->
  World.run (world0 t) (map (fun c => OAttach c None) cs ++ map OSend ms ++ map OWire cs) =
  map (fun c => BAtt c None) cs ++ repeat BSendOk (length ms) ++
  map (fun ic => BWire (snd ic) (concat (map encode_frames (PushDistribution.share (fst ic) (length cs) ms)))) (combine (seq 0 (length cs)) cs).
Proof. exact PushDistribution.push_distributes. Qed.
Print Assumptions C10_distribution.
