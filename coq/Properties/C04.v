(** C04 - Handshake accepts exactly the well-formed, RFC-compatible peers.  Property theorems only. *)
From ZV Require Import Base.Bytes Base.Res Spec.Compat Model.Codec Model.Handshake Proofs.HandshakeProofs.

(** the tables of the code are the ones the model uses (regenerated on every run) *)
Theorem C04_gen_tables :
  Gen.discriminants = map (fun s => (stype_name s, stype_idx s)) all_stypes /\
  Gen.as_str_table = map (fun s => (stype_name s, stype_name s)) all_stypes /\
  Gen.from_bytes_table = map (fun s => (stype_name s, stype_name s)) all_stypes /\
  Gen.max_id = 255 /\ Gen.id_guard_is_gt = 1 /\ Gen.version_cmp_is_ge = 1 /\
  Gen.gr_default_major = 3 /\ Gen.gr_default_minor = 0.
Proof. exact gen_tables. Qed.
Print Assumptions C04_gen_tables.

(** the compatibility lookup is defined for all 12 x 12 pairs, equals the RFC relation, is symmetric
    (finite domain: exhaustive vm_compute sweep lifted with forallb_forall) *)
Theorem C04_compat_is_rfc : forall a b, compatible a b = Ok (rfc_compat (sname_of a) (sname_of b)).
Proof. exact compat_is_rfc. Qed.
Print Assumptions C04_compat_is_rfc.

Theorem C04_compat_symmetric : forall a b, compatible a b = compatible b a.
Proof. exact compat_symmetric. Qed.
Print Assumptions C04_compat_symmetric.

Theorem C04_compat_total : forall a b, exists v, compatible a b = Ok v.
Proof. exact compat_total. Qed.
Print Assumptions C04_compat_total.

Theorem C04_names_roundtrip : forall s, stype_of_name (stype_name s) = Some s.
Proof. exact stype_of_name_name. Qed.
Print Assumptions C04_names_roundtrip.

(** version >= 3.0, nothing else *)
Theorem C04_version_rule : forall g,
  negotiate g = Ok tt <-> (3 < g_major g \/ (g_major g = 3 /\ 0 <= g_minor g)).
Proof. exact negotiate_iff. Qed.
Print Assumptions C04_version_rule.

(** greeting accepted iff signature octets 0 and 9, length 64, mechanism NULL / PLAIN / CURVE *)
Theorem C04_greeting_rule : forall v g,
  parse_greeting v = Ok g <->
  lenN v = 64 /\ nth 0 v 0 = 255 /\ nth 9 v 0 = 127 /\
  parse_mech (firstn 20 (skipn 12 v)) = Ok (g_mech g) /\
  g_major g = nth 10 v 0 /\ g_minor g = nth 11 v 0 /\ g_server g = (nth 32 v 0 =? 1).
Proof. exact parse_greeting_iff. Qed.
Print Assumptions C04_greeting_rule.

Theorem C04_mechanism_rule : forall v m, parse_mech v = Ok m <-> until_nul v = mech_name m.
Proof. exact parse_mech_iff. Qed.
Print Assumptions C04_mechanism_rule.

(** READY accepted iff Socket-Type present, known and RFC-compatible, Identity <= 255 bytes;
    registered identity = announced, or fresh when absent / empty *)
Theorem C04_ready_rule : forall local props i,
  ready_decision local (Some (OItem (ICommand props))) = Ok i <-> ready_valid local props i.
Proof. exact ready_decision_iff. Qed.
Print Assumptions C04_ready_rule.

Theorem C04_verdict_iff : forall local chunks eof i,
  handshake_verdict local chunks eof = Accept i <->
  exists g props rest,
    lib_items chunks eof = OItem (IGreeting g) :: OItem (ICommand props) :: rest /\
    negotiate g = Ok tt /\ ready_valid local props i.
Proof. exact verdict_iff. Qed.
Print Assumptions C04_verdict_iff.

(** accepted peers are registered exactly once, nobody else is disturbed *)
Theorem C04_registered_once : forall has_rr has_fq k t,
  count_occ (list_eq_dec N.eq_dec) (t_peers (register has_rr has_fq k t)) k = 1%nat /\
  (has_fq = true -> count_occ (list_eq_dec N.eq_dec) (t_fq (register has_rr has_fq k t)) k = 1%nat) /\
  (has_rr = true -> ~ In k (t_rr t) -> count_occ (list_eq_dec N.eq_dec) (t_rr (register has_rr has_fq k t)) k = 1%nat) /\
  (forall x, x <> k ->
     count_occ (list_eq_dec N.eq_dec) (t_peers (register has_rr has_fq k t)) x = count_occ (list_eq_dec N.eq_dec) (t_peers t) x /\
     count_occ (list_eq_dec N.eq_dec) (t_rr (register has_rr has_fq k t)) x = count_occ (list_eq_dec N.eq_dec) (t_rr t) x /\
     count_occ (list_eq_dec N.eq_dec) (t_fq (register has_rr has_fq k t)) x = count_occ (list_eq_dec N.eq_dec) (t_fq t) x).
Proof. exact register_once. Qed.
Print Assumptions C04_registered_once.

(** a connection that is not accepted leaves the socket's tables unchanged *)
Theorem C04_rejected_is_inert : forall has_rr has_fq fresh a t,
  (forall i, a <> Accept i) -> connection_event has_rr has_fq fresh a t = t.
Proof. exact rejected_is_inert. Qed.
Print Assumptions C04_rejected_is_inert.
