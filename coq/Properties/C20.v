(** C20 - A stalled or malicious handshake never blocks other connections.  Property theorems only.
    Proof level: the task structure (one independent handshake task per accepted connection, touching
    the socket only in its final step).  That tokio eventually runs every runnable task is assumed. *)
From ZV Require Gen.Src.
From ZV Require Import Base.Bytes Base.Res Model.Codec Model.Handshake Model.Runtime Proofs.RuntimeProofs.

(** structure re-read from the source on every run: both accept loops are a two-armed select (accept /
    stop), spawn the handshake task detached and never await anything inside the loop - which is what
    makes [ANewConn] unconditionally enabled in the model below *)
Theorem C20_gen_structure :
  Gen.Src.tcp_accept_loop_awaits = 0 /\ Gen.Src.ipc_accept_loop_awaits = 0 /\
  Gen.Src.tcp_accept_spawns_detached = 1 /\ Gen.Src.ipc_accept_spawns_detached = 1 /\
  Gen.Src.tcp_accept_select_arms = 2 /\ Gen.Src.ipc_accept_select_arms = 2.
Proof. repeat split; reflexivity. Qed.
Print Assumptions C20_gen_structure.

(** while the bind is not stopped the listener can accept, whatever state any handshake task is in;
    accepting touches neither the peer tables nor the monitor *)
Theorem C20_accept_always_enabled : forall rr fq w, a_stopped w = false ->
  length (a_tasks (astep rr fq w ANewConn)) = S (length (a_tasks w)) /\
  a_tables (astep rr fq w ANewConn) = a_tables w /\ a_monitor (astep rr fq w ANewConn) = a_monitor w.
Proof. exact accept_always_enabled. Qed.
Print Assumptions C20_accept_always_enabled.

(** a handshake task is touched only by events of its own connection ... *)
Theorem C20_isolation : forall rr fq w e j t, concerns e j = false ->
  find_task j (a_tasks w) = Some t -> find_task j (a_tasks (astep rr fq w e)) = Some t.
Proof. exact others_do_not_touch_task. Qed.
Print Assumptions C20_isolation.

(** ... its outcome is a function of its own bytes, independent of how they were segmented ... *)
Theorem C20_outcome_depends_on_own_bytes : forall local cs1 cs2 eof,
  concat cs1 = concat cs2 -> handshake_verdict local cs1 eof = handshake_verdict local cs2 eof.
Proof. exact verdict_chunking_independent. Qed.
Print Assumptions C20_outcome_depends_on_own_bytes.

(** ... established traffic and the peer set are touched only by the final step of a handshake ... *)
Theorem C20_established_unaffected : forall rr fq w e, (forall j, e <> ARun j) ->
  a_tables (astep rr fq w e) = a_tables w /\ a_monitor (astep rr fq w e) = a_monitor w.
Proof. exact only_run_touches_backend. Qed.
Print Assumptions C20_established_unaffected.

(** ... and a handshake that fails is reported as an accept failure and leaves the peer set unchanged *)
Theorem C20_failed_reported_and_inert : forall rr fq w j t, find_task j (a_tasks w) = Some t -> h_done t = false ->
  match handshake_verdict (a_local w) (h_chunks t) (h_eof t) with
  | Incomplete => astep rr fq w (ARun j) = w
  | Accept i => a_monitor (astep rr fq w (ARun j)) = a_monitor w ++ [MAccepted j] /\
                a_tables (astep rr fq w (ARun j)) = connection_event rr fq [2000 + j] (Accept i) (a_tables w)
  | v => a_monitor (astep rr fq w (ARun j)) = a_monitor w ++ [MAcceptFailed j] /\
         a_tables (astep rr fq w (ARun j)) = a_tables w
  end.
Proof. exact run_outcome. Qed.
Print Assumptions C20_failed_reported_and_inert.
