(** C02 - Stream reassembly is independent of how the bytes were segmented.  Property theorems only. *)
From ZV Require Import Base.Bytes Base.Res Spec.Stream Model.Codec Proofs.Decoder Proofs.CodecEnc Proofs.CodecRoundtrip.

(** resumability of one decode call: what was returned for a prefix is what is returned when more
    bytes are already there (item / error case), and continuing from the returned state with more
    bytes equals decoding the concatenation (need-more-bytes case) *)
Theorem C02_resume_item : forall f d buf ext r d' buf',
  wfd d -> (mu d (buf ++ ext) < f)%nat ->
  decode f d buf = (r, d', buf') -> r <> RNone -> r <> RFuel ->
  decode f d (buf ++ ext) = (r, d', buf' ++ ext).
Proof. exact decode_resume_item. Qed.
Print Assumptions C02_resume_item.

Theorem C02_resume_none : forall f d buf ext d' buf',
  wfd d -> (mu d (buf ++ ext) < f)%nat ->
  decode f d buf = (RNone, d', buf') ->
  decode f d (buf ++ ext) = decode f d' (buf' ++ ext).
Proof. exact decode_resume_none. Qed.
Print Assumptions C02_resume_none.

(** what the framed reader yields depends only on the concatenated stream: all chunkings, with and
    without end-of-stream *)
Theorem C02_chunks_eq_whole : forall chunks eof, lib_items chunks eof = lib_items [concat chunks] eof.
Proof. exact chunks_eq_whole. Qed.
Print Assumptions C02_chunks_eq_whole.

Theorem C02_segmentation_independent : forall cs1 cs2 eof,
  concat cs1 = concat cs2 -> lib_items cs1 eof = lib_items cs2 eof.
Proof. exact segmentation_independent. Qed.
Print Assumptions C02_segmentation_independent.

(** ... and equals the declarative reading of that stream (greeting, then frames grouped into
    commands and whole multipart messages, up to and including the first error): same items, same
    order, same frame boundaries, nothing lost or duplicated *)
Theorem C02_chunks_eq_spec : forall chunks, lib_items chunks false = spec_items (concat chunks).
Proof. exact chunks_eq_spec. Qed.
Print Assumptions C02_chunks_eq_spec.

(** non-vacuity: a concrete stream cut at every position decodes identically *)
Example C02_example :
  let s := encode_greeting default_greeting ++ encode_ready (ready_props DEALER (Some [65])) ++ encode_frames [[1; 2]; []; [3]] in
  forallb (fun k => match lib_items [firstn k s; skipn k s] true, lib_items [s] true with
                    | a, b => Nat.eqb (length a) (length b) && Nat.eqb (length a) 4 end) (seq 0 (length s)) = true.
Proof. vm_compute. reflexivity. Qed.
