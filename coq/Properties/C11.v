(** C11 - PUB/XPUB deliver a message to a subscriber iff a subscription is a prefix.  Property theorems only. *)
From ZV Require Import Base.Bytes Base.Res Spec.PrefixMultiset Model.Codec Model.World Proofs.PubSubProofs.
From ZV Require Proofs.CodecEnc Proofs.PubSubWire Proofs.XPubWire.

Theorem C11_gen_opcodes :
  Gen.pub_op_sub = 1 /\ Gen.pub_op_unsub = 0 /\ Gen.xpub_op_sub = 1 /\ Gen.xpub_op_unsub = 0 /\
  Gen.pub_sub_frames = 1 /\ Gen.xpub_sub_frames = 1 /\ Gen.sub_op_sub = 1 /\ Gen.sub_op_unsub = 0.
Proof. repeat split; reflexivity. Qed.
Print Assumptions C11_gen_opcodes.

(** the subscription list kept per connection refines the reference multiset, for every history *)
Theorem C11_list_refines_multiset : forall h t,
  count_occ bytes_dec (fold_left on_sub_msg h []) t = count h t.
Proof. exact list_refines_multiset. Qed.
Print Assumptions C11_list_refines_multiset.

(** delivered iff some active subscription is a byte-prefix of the first frame *)
Theorem C11_deliver_iff : forall h first,
  matches (fold_left on_sub_msg h []) first = true <-> should_deliver h first.
Proof. exact deliver_iff. Qed.
Print Assumptions C11_deliver_iff.

Theorem C11_empty_matches_all : forall subs first, In [] subs -> matches subs first = true.
Proof. exact empty_subscription_matches_all. Qed.
Print Assumptions C11_empty_matches_all.

Theorem C11_malformed_noop : forall subs m, classify m = SNoise -> on_sub_msg subs m = subs.
Proof. exact malformed_is_noop. Qed.
Print Assumptions C11_malformed_noop.

Theorem C11_unsubscribe_cancels_one : forall subs t,
  count_occ bytes_dec (on_sub_msg subs [0 :: t]) t = Nat.pred (count_occ bytes_dec subs t) /\
  (forall t', t' <> t -> count_occ bytes_dec (on_sub_msg subs [0 :: t]) t' = count_occ bytes_dec subs t').
Proof. exact unsubscribe_cancels_one. Qed.
Print Assumptions C11_unsubscribe_cancels_one.

(** one publish: exactly once to a subscriber with a matching subscription (even when several match),
    not at all otherwise; no other wire changes *)
Theorem C11_exactly_once : forall w first rest, NoDup (w_peers w) ->
  forall k c, get_conn k (w_conns w) = Some c ->
  exists c', get_conn k (w_conns (publish w (first :: rest))) = Some c' /\
    c_subs c' = c_subs c /\
    c_wire c' = c_wire c ++ (if memN k (w_peers w) && matches (c_subs c) first then encode_frames (first :: rest) else []).
Proof. exact publish_exactly_once. Qed.
Print Assumptions C11_exactly_once.

(** over the wire (C13 + C01/C02 + the above composed): the subscription messages a SUB socket writes for ANY
    history of subscribe / unsubscribe calls, arriving at a PUB socket in ANY chunking, make the PUB socket
    deliver a published message to that subscriber iff a CURRENT subscription of the SUB socket is a prefix
    of the message's first frame *)
Theorem C11_pubsub_over_the_wire : forall k j h chunks c m,
  Forall PubSubWire.sub_op h ->
  get_conn k (w_conns (PubSubWire.exec (world0 SUB) (OAttach k None :: h))) = Some c ->
  concat chunks = c_wire c ->
  m <> [] ->
  World.run (PubSubWire.exec (world0 PUB) (OAttach j None :: map (OFeed j) chunks ++ [OSettle])) [OSend m; OWire j] =
  [BSendOk; BWire j (if matches (w_subs (PubSubWire.exec (world0 SUB) (OAttach k None :: h))) (hd [] m) then encode_frames m else [])].
Proof. exact PubSubWire.pubsub_over_the_wire. Qed.
Print Assumptions C11_pubsub_over_the_wire.

(** the same for XPUB, where the subscription messages are consumed by the application's recv calls (and handed
    to it, in order) *)
Theorem C11_xpub_over_the_wire : forall k j h chunks c msgs m,
  Forall PubSubWire.sub_op h ->
  get_conn k (w_conns (PubSubWire.exec (world0 SUB) (OAttach k None :: h))) = Some c ->
  concat chunks = c_wire c ->
  c_wire c = concat (map encode_frames msgs) -> Forall CodecEnc.wf_msg msgs ->
  m <> [] ->
  World.run (world0 XPUB) (OAttach j None :: map (OFeed j) chunks ++ repeat ORecv (S (length msgs)) ++ [OSend m; OWire j]) =
  BAtt j None :: map (BRecv None) msgs ++
  [BRecvPending; BSendOk; BWire j (if matches (w_subs (PubSubWire.exec (world0 SUB) (OAttach k None :: h))) (hd [] m) then encode_frames m else [])].
Proof. exact XPubWire.xpub_over_the_wire. Qed.
Print Assumptions C11_xpub_over_the_wire.
