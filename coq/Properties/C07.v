(** C07 - REQ/REP envelopes are added, preserved and stripped exactly.  Property theorems only. *)
From ZV Require Import Base.Bytes Base.Res Model.Codec Model.World Proofs.SocketProofs.
From ZV Require Proofs.CodecEnc Proofs.ReqRepWire.

Theorem C07_gen_constants : Gen.req_min_frames = 2 /\ Gen.rep_min_frames = 2 /\ Gen.rep_rejects_empty_payload = 1.
Proof. repeat split; reflexivity. Qed.
Print Assumptions C07_gen_constants.

(** REQ sends the application's frames behind exactly one empty delimiter ... *)
Theorem C07_req_adds_one_delimiter : forall p, req_wrap p = [] :: p.
Proof. exact req_wrap_one_delimiter. Qed.
Print Assumptions C07_req_adds_one_delimiter.

(** ... and returns a reply's frames with exactly that delimiter removed, nothing else *)
Theorem C07_req_strips_exactly : forall r, r <> [] -> req_unwrap ([] :: r) = Ok r.
Proof. exact req_unwrap_strips_exactly. Qed.
Print Assumptions C07_req_strips_exactly.

Theorem C07_req_unwrap_only_that : forall w r, req_unwrap w = Ok r -> w = [] :: r /\ r <> [].
Proof. exact req_unwrap_ok_inv. Qed.
Print Assumptions C07_req_unwrap_only_that.

(** REP hands over exactly the frames after the FIRST empty delimiter, whatever empty frames the
    payload contains, for any routing prefix of non-empty identity frames *)
Theorem C07_rep_split_exact : forall ids p, nonempty_frames ids -> p <> [] ->
  rep_split (ids ++ [] :: p) = Ok (ids ++ [[]], p).
Proof. exact rep_split_exact. Qed.
Print Assumptions C07_rep_split_exact.

(** the reply is prefixed with exactly the frames that preceded and included the delimiter *)
Theorem C07_rep_reply_retraces : forall ids r, rep_wrap (Some (ids ++ [[]])) r = ids ++ [] :: r.
Proof. exact rep_reply_retraces. Qed.
Print Assumptions C07_rep_reply_retraces.

(** never a message with zero frames; envelope and payload partition the request *)
Theorem C07_never_zero_frames : forall w env data, rep_split w = Ok (env, data) ->
  data <> [] /\ env ++ data = w /\ env <> [].
Proof. exact rep_split_never_zero_frames. Qed.
Print Assumptions C07_never_zero_frames.

Theorem C07_delimiter_last_refused : forall ids, nonempty_frames ids -> rep_split (ids ++ [[]]) = Err EOther.
Proof. exact rep_split_delimiter_last_refused. Qed.
Print Assumptions C07_delimiter_last_refused.

(** request through any number of identity-adding hops, reply stripped hop by hop: both payloads intact *)
Theorem C07_end_to_end : forall ids p r env data, nonempty_frames ids -> p <> [] -> r <> [] ->
  rep_split (ids ++ req_wrap p) = Ok (env, data) ->
  data = p /\ req_unwrap (skipn (length ids) (rep_wrap (Some env) r)) = Ok r.
Proof. exact envelope_end_to_end. Qed.
Print Assumptions C07_end_to_end.

(** non-vacuity *)
Example C07_example :
  rep_split ([[7]; [8; 9]] ++ [] :: [[1]; []; [2]]) = Ok ([[7]; [8; 9]; []], [[1]; []; [2]]).
Proof. vm_compute. reflexivity. Qed.

(** over the wire, composed with the codec (C01/C02) and the fair queue (C05): a REQ socket writes exactly one
    empty delimiter and the payload ... *)
Theorem C07_wire_request : forall k p,
  World.run (world0 REQ) [OAttach k None; OSend p; OWire k] =
  [BAtt k None; BSendOk; BWire k (encode_frames ([] :: p))].
Proof. exact ReqRepWire.req_request_on_the_wire. Qed.
Print Assumptions C07_wire_request.

(** ... a REP socket receiving those bytes in ANY chunking, possibly behind routing identities [ids] added by
    intermediaries, hands over exactly the payload, its reply retraces the envelope, a second reply is refused ... *)
Theorem C07_wire_rep_serves : forall j ids p r chunks,
  nonempty_frames ids -> p <> [] -> CodecEnc.wf_msg (ids ++ [] :: p) ->
  concat chunks = encode_frames (ids ++ [] :: p) ->
  World.run (world0 REP) (OAttach j None :: map (OFeed j) chunks ++ [ORecv; OSend r; OWire j; OSend r]) =
  [BAtt j None; BRecv None p; BSendOk; BWire j (encode_frames (ids ++ [] :: r)); BSendErr EReturnToSender (Some r)].
Proof. exact ReqRepWire.rep_serves_over_the_wire. Qed.
Print Assumptions C07_wire_rep_serves.

(** ... and the REQ socket receiving the reply's bytes in any chunking returns exactly the reply's payload,
    refuses a second recv and then accepts the next request (C08's alternation, over the wire) *)
Theorem C07_wire_reply : forall k p r p2 chunks,
  r <> [] -> CodecEnc.wf_msg ([] :: r) ->
  concat chunks = encode_frames ([] :: r) ->
  World.run (world0 REQ) (OAttach k None :: OSend p :: OWire k :: map (OFeed k) chunks ++ [ORecv; ORecv; OSend p2; OWire k]) =
  [BAtt k None; BSendOk; BWire k (encode_frames ([] :: p)); BRecv None r; BRecvErr EOther; BSendOk; BWire k (encode_frames ([] :: p2))].
Proof. exact ReqRepWire.req_reply_over_the_wire. Qed.
Print Assumptions C07_wire_reply.
