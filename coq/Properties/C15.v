(** C15 - proxy() forwards every message verbatim in both directions.  Property theorems only.
    The branch taken by select! when both sides are ready is a parameter: all choice sequences. *)
From ZV Require Import Base.Bytes Base.Res Model.Codec Model.World Model.Proxy Proofs.ProxyProofs Model.Chain Proofs.ChainProofs.

(** whatever the sequence of branch choices: everything received on one side has been sent on the
    other as the same list of messages (same frames, same order, each once); if a send failed and
    ended the proxy, at most that one message is missing *)
Theorem C15_forward_exact : forall f b c cs, forward_inv (proxy_run (pstate0 f b c) cs).
Proof. exact proxy_forwards_exactly. Qed.
Print Assumptions C15_forward_exact.

Theorem C15_running_forwards_all : forall f b c cs,
  p_done (proxy_run (pstate0 f b c) cs) = false ->
  p_sent_b (proxy_run (pstate0 f b c) cs) = p_recv_f (proxy_run (pstate0 f b c) cs) /\
  p_sent_f (proxy_run (pstate0 f b c) cs) = p_recv_b (proxy_run (pstate0 f b c) cs).
Proof. exact proxy_running_forwards_all. Qed.
Print Assumptions C15_running_forwards_all.

(** an installed capture socket is sent a copy of every message taken from either side *)
Theorem C15_capture_copy : forall f b c cs, cap_inv (proxy_run (pstate0 f b c) cs).
Proof. exact proxy_capture_copies. Qed.
Print Assumptions C15_capture_copy.

(** the REQ - ROUTER/DEALER proxy - REP chain (Model/Chain.v: n clients, m workers, FIFO connections;
    REQ, ROUTER, DEALER, REP and the proxy behave as the World / Proxy models say).  [reply] is what
    the application behind a REP socket answers; a ZmqMessage is never empty, hence [reply_ok].
    Whatever the schedule - which client speaks, which connection a fair queue serves next, which worker
    runs - every reply a client has received is the reply to one of ITS OWN requests, in order, each once *)
Theorem C15_chain_replies_own : forall reply ids m es,
  reply_ok reply -> ids_ok ids -> Forall ev_ok es ->
  Forall (fun cl => cl_got cl = map reply (answered cl)) (ch_clients (crun reply (chain0 ids m) es)).
Proof. exact chain_replies_own'. Qed.
Print Assumptions C15_chain_replies_own.

(** with at least one worker nothing is ever undeliverable or malformed on the way *)
Theorem C15_chain_nothing_lost : forall reply ids m es,
  reply_ok reply -> ids_ok ids -> Forall ev_ok es -> (0 < m)%nat ->
  ch_lost (crun reply (chain0 ids m) es) = [].
Proof. exact chain_nothing_lost'. Qed.
Print Assumptions C15_chain_nothing_lost.

(** once nothing is in flight every client has the replies to all its requests, none outstanding ... *)
Theorem C15_chain_quiescent_complete : forall reply ids m es,
  reply_ok reply -> ids_ok ids -> Forall ev_ok es -> (0 < m)%nat ->
  quiescent (crun reply (chain0 ids m) es) = true ->
  Forall (fun cl => cl_out cl = false /\ cl_got cl = map reply (cl_sent cl)) (ch_clients (crun reply (chain0 ids m) es)).
Proof. exact chain_quiescent_complete'. Qed.
Print Assumptions C15_chain_quiescent_complete.

(** ... and the workers together were handed each request exactly once *)
Theorem C15_chain_served_once : forall reply ids m es,
  ids_ok ids -> Forall ev_ok es -> (0 < m)%nat ->
  quiescent (crun reply (chain0 ids m) es) = true ->
  Permutation.Permutation (concat (map wk_served (ch_workers (crun reply (chain0 ids m) es))))
                          (concat (map cl_sent (ch_clients (crun reply (chain0 ids m) es)))).
Proof. exact chain_quiescent_served_once. Qed.
Print Assumptions C15_chain_served_once.

(** the statement needs [reply_ok]: an application answering with an empty message (which the crate's
    ZmqMessage type cannot express) would have its reply dropped by the client's REQ socket *)
Theorem C15_chain_needs_nonempty_replies :
  ~ (forall reply ids m es, ids_ok ids -> Forall ev_ok es ->
     Forall (fun cl => cl_got cl = map reply (answered cl)) (ch_clients (crun reply (chain0 ids m) es))).
Proof. exact chain_replies_own_false. Qed.
Print Assumptions C15_chain_needs_nonempty_replies.
