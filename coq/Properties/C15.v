(** C15 - proxy() forwards every message verbatim in both directions.  Property theorems only.
    The branch taken by select! when both sides are ready is a parameter: all choice sequences. *)
From ZV Require Import Base.Bytes Base.Res Model.Codec Model.World Model.Proxy Proofs.ProxyProofs.

(** whatever the sequence of branch choices: everything received on one side has been sent on the
    other as the same list of messages (same frames, same order, each once); if a send failed and
    ended the proxy, at most that one message is missing *)
Theorem C15_forward_exact : forall f b c cs, forward_inv (proxy_run (pstate0 f b c) cs).
Proof. exact proxy_forwards_exactly. Qed.
Print Assumptions C15_forward_exact.

Theorem C15_running_forwards_all : forall f b c cs,
  p_done (proxy_run (pstate0 f b c) cs) = false ->
  p_sent_b (proxy_run (pstate0 f b c) cs) = p_recv_f (proxy_run (pstate0 f b c) cs) /\
  p_sent_f (proxy_run (pstate0 f b c) cs) = p_recv_b (proxy_run (pstate0 f b c) cs).
Proof. exact proxy_running_forwards_all. Qed.
Print Assumptions C15_running_forwards_all.

(** an installed capture socket is sent a copy of every message taken from either side *)
Theorem C15_capture_copy : forall f b c cs, cap_inv (proxy_run (pstate0 f b c) cs).
Proof. exact proxy_capture_copies. Qed.
Print Assumptions C15_capture_copy.
