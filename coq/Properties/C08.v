(** C08 - REQ/REP lock-step: one outstanding request, reply goes to its requester.  Property theorems only. *)
From ZV Require Proofs.CodecEnc Proofs.PushDistribution Proofs.ReqRotation.
From ZV Require Import Base.Bytes Base.Res Model.Codec Model.World Proofs.SocketProofs.

(** decision rules: an out-of-turn call fails, hands the message back, writes nothing, changes nothing *)
Theorem C08_req_out_of_turn_send : forall w k m, w_type w = REQ -> w_cur w = Some k ->
  step w (OSend m) = ([BSendErr EReturnToSender (Some m)], w).
Proof. exact req_send_out_of_turn. Qed.
Print Assumptions C08_req_out_of_turn_send.

Theorem C08_req_out_of_turn_recv : forall w, w_type w = REQ -> w_cur w = None ->
  step w ORecv = ([BRecvErr EOther], w).
Proof. exact req_recv_out_of_turn. Qed.
Print Assumptions C08_req_out_of_turn_recv.

Theorem C08_rep_no_reply_without_request : forall w m, w_type w = REP -> w_cur w = None ->
  step w (OSend m) = ([BSendErr EReturnToSender (Some m)], w).
Proof. exact rep_send_without_request. Qed.
Print Assumptions C08_rep_no_reply_without_request.

(** strict alternation on REQ *)
Theorem C08_req_send_ok_alternates : forall w m w', w_type w = REQ -> step w (OSend m) = ([BSendOk], w') ->
  w_cur w = None /\ exists k, w_cur w' = Some k /\ memN k (w_peers w) = true.
Proof. exact req_send_ok_alternates. Qed.
Print Assumptions C08_req_send_ok_alternates.

Theorem C08_req_recv_ok_alternates : forall w from r w', w_type w = REQ -> step w ORecv = ([BRecv from r], w') ->
  exists k, w_cur w = Some k /\ w_cur w' = None.
Proof. exact req_recv_ok_alternates. Qed.
Print Assumptions C08_req_recv_ok_alternates.

(** the reply is read from the connection the request was written to, and from no other *)
Theorem C08_req_reply_from_requestee : forall w k b w' j, w_type w = REQ -> w_cur w = Some k -> conns_ok w ->
  step w ORecv = ([b], w') -> j <> k -> get_conn j (w_conns w') = get_conn j (w_conns w).
Proof. exact req_recv_reads_requestee_only. Qed.
Print Assumptions C08_req_reply_from_requestee.

(** REP writes envelope ++ reply to exactly the connection of the request it last returned *)
Theorem C08_rep_reply_to_requester : forall w k m, w_type w = REP -> w_cur w = Some k -> memN k (w_peers w) = true ->
  step w (OSend m) = ([BSendOk], with_cur (write_msg w k (rep_wrap (w_env w) m)) None None).
Proof. exact rep_reply_goes_to_requester. Qed.
Print Assumptions C08_rep_reply_to_requester.

Theorem C08_write_touches_one_connection : forall w k m j, j <> k ->
  get_conn j (w_conns (write_msg w k m)) = get_conn j (w_conns w).
Proof. exact write_msg_others_unchanged. Qed.
Print Assumptions C08_write_touches_one_connection.

(** closed form over whole histories (C08 + C10 for REQ, composed with the codec): a REQ socket with n connected
    servers that all answer sends request number i - one empty delimiter and the payload - to server (i mod n) in
    joining order, returns exactly that server's reply payload, and only then accepts the next request *)
Theorem C08_req_rotation : forall cs prs,
  NoDup cs -> cs <> [] ->
  Forall (fun pr => snd pr <> [] /\ CodecEnc.wf_msg ([] :: snd pr)) prs ->
  World.run (world0 REQ) (map (fun c => OAttach c None) cs ++ ReqRotation.cycles cs prs 0 ++ map OWire cs) =
  map (fun c => BAtt c None) cs ++
  flat_map (fun pr => [BSendOk; BRecv None (snd pr)]) prs ++
  map (fun ic => BWire (snd ic) (concat (map (fun p => encode_frames ([] :: p)) (PushDistribution.share (fst ic) (length cs) (map fst prs)))))
      (combine (seq 0 (length cs)) cs).
Proof. exact ReqRotation.req_rotation. Qed.
Print Assumptions C08_req_rotation.
