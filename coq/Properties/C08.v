(** C08 - REQ/REP lock-step: one outstanding request, reply goes to its requester.  Property theorems only. *)
From ZV Require Proofs.CodecEnc Proofs.PushDistribution Proofs.ReqRotation.
From ZV Require Import Base.Bytes Base.Res Model.Codec Model.World Proofs.SocketProofs.

(** decision rules: an out-of-turn call fails, hands the message back, writes nothing, changes nothing *)
Theorem C08_req_out_of_turn_send : forall w k m, w_type w = REQ -> w_cur w = Some k ->
  step w (OSend m) = ([BSendErr EReturnToSender (Some m)], w).
Proof. exact req_send_out_of_turn. Qed.
Print Assumptions C08_req_out_of_turn_send.

Theorem C08_req_out_of_turn_recv : forall w, w_type w = REQ -> w_cur w = None ->
  step w ORecv = ([BRecvErr EOther], w).
Proof. exact req_recv_out_of_turn. Qed.
Print Assumptions C08_req_out_of_turn_recv.

Theorem C08_rep_no_reply_without_request : forall w m, w_type w = REP -> w_cur w = None ->
  step w (OSend m) = ([BSendErr EReturnToSender (Some m)], w).
Proof. exact rep_send_without_request. Qed.
Print Assumptions C08_rep_no_reply_without_request.

(** strict alternation on REQ *)
Theorem C08_req_send_ok_alternates : forall w m w', w_type w = REQ -> step w (OSend m) = ([BSendOk], w') ->
  w_cur w = None /\ exists k, w_cur w' = Some k /\ memN k (w_peers w) = true.
Proof. exact req_send_ok_alternates. Qed.
Print Assumptions C08_req_send_ok_alternates.

Theorem C08_req_recv_ok_alternates : forall w from r w', w_type w = REQ -> step w ORecv = ([BRecv from r], w') ->
  exists k, w_cur w = Some k /\ w_cur w' = None.
Proof. exact req_recv_ok_alternates. Qed.
Print Assumptions C08_req_recv_ok_alternates.

(** the reply is read from the connection the request was written to, and from no other *)
Theorem C08_req_reply_from_requestee : forall w k b w' j, w_type w = REQ -> w_cur w = Some k -> conns_ok w ->
  step w ORecv = ([b], w') -> j <> k -> get_conn j (w_conns w') = get_conn j (w_conns w).
Proof. exact req_recv_reads_requestee_only. Qed.
Print Assumptions C08_req_reply_from_requestee.

(** REP writes envelope ++ reply to exactly the connection of the request it last returned *)
Theorem C08_rep_reply_to_requester : forall w k m, w_type w = REP -> w_cur w = Some k -> memN k (w_peers w) = true ->
  step w (OSend m) = ([BSendOk], with_cur (write_msg w k (rep_wrap (w_env w) m)) None None).
Proof. exact rep_reply_goes_to_requester. Qed.
Print Assumptions C08_rep_reply_to_requester.

Theorem C08_write_touches_one_connection : forall w k m j, j <> k ->
  get_conn j (w_conns (write_msg w k m)) = get_conn j (w_conns w).
Proof. exact write_msg_others_unchanged. Qed.
Print Assumptions C08_write_touches_one_connection.

(** closed form over whole histories (C08 + C10 for REQ, composed with the codec): a REQ socket with n connected
    servers that all answer sends request number i - one empty delimiter and the payload - to server (i mod n) in
    joining order, returns exactly that server's reply payload, and only then accepts the next request *)
Theorem C08_req_rotation : forall cs prs,
  NoDup cs -> cs <> [] ->
  Forall (fun pr => snd pr <> [] /\ CodecEnc.wf_msg ([] :: snd pr)) prs ->
  World.run (world0 REQ) (map (fun c => OAttach c None) cs ++ ReqRotation.cycles cs prs 0 ++ map OWire cs) =
  map (fun c => BAtt c None) cs ++
  flat_map (fun pr => [BSendOk; BRecv None (snd pr)]) prs ++
  map (fun ic => BWire (snd ic) (concat (map (fun p => encode_frames ([] :: p)) (PushDistribution.share (fst ic) (length cs) (map fst prs)))))
      (combine (seq 0 (length cs)) cs).
Proof. exact ReqRotation.req_rotation. Qed.
Print Assumptions C08_req_rotation.

(** * REQ's send over connections that answer each write from a script (Model/DirSend.v) *)
From ZV Require Import Model.TrySend Model.RrSend Model.DirSend Proofs.RrSendProofs Proofs.DirSendProofs.

Theorem C08_faulty_busy_refused : forall q m k, q_cur q = Some k -> req_send q m = (QBusy, q).
Proof. exact req_busy_refused. Qed.
Print Assumptions C08_faulty_busy_refused.

(** a request that went out whole makes exactly that server owe the reply *)
Theorem C08_faulty_sent_owes : forall q m k q', req_send q m = (QSent k, q') ->
  q_cur q = None /\ q_cur q' = Some k /\ pget k (r_peers (q_base q)) <> None /\
  (forall p, pget k (r_peers (q_base q)) = Some p -> k_buf (p_sink p) = [] ->
     wire_of k (q_base q') = wire_of k (q_base q) ++ encode_frames (World.req_wrap m)).
Proof. exact req_sent_owes. Qed.
Print Assumptions C08_faulty_sent_owes.

(** a request that failed, found no server or was abandoned leaves the socket owing nothing: the next request may go out *)
Theorem C08_faulty_not_sent_owes_nothing : forall q m r q', req_send q m = (r, q') ->
  (forall k, r <> QSent k) -> r <> QBusy -> q_cur q' = None.
Proof. exact req_not_sent_owes_nothing. Qed.
Print Assumptions C08_faulty_not_sent_owes_nothing.

Theorem C08_faulty_touches_one : forall q m r q', req_send q m = (r, q') -> forall j, q_targets j r = false ->
  wire_of j (q_base q') = wire_of j (q_base q) /\ pget j (r_peers (q_base q')) = pget j (r_peers (q_base q)).
Proof. exact req_touches_one. Qed.
Print Assumptions C08_faulty_touches_one.

(** request, reply, request, ... over servers that accept every write visits them in queue order and restores the queue *)
Theorem C08_faulty_full_round : forall ms q, q_cur q = None -> all_accepting (q_base q) -> NoDup (r_rr (q_base q)) ->
  (forall k, In k (r_rr (q_base q)) -> pget k (r_peers (q_base q)) <> None) ->
  length ms = length (r_rr (q_base q)) ->
  Forall (fun m => lenN (encode_frames (World.req_wrap m)) < 2 ^ 63) ms ->
  fst (req_cycles q ms) = map QSent (r_rr (q_base q)) /\
  r_rr (q_base (snd (req_cycles q ms))) = r_rr (q_base q).
Proof. exact req_full_round. Qed.
Print Assumptions C08_faulty_full_round.

(** over connections that accept every write, [req_send] does what the socket model's REQ send does *)
From ZV Require Import Proofs.SendRefinement.
Theorem C08_faulty_refines_world : forall w q m,
  World.w_type w = REQ -> req_agrees w q -> lenN (encode_frames (World.req_wrap m)) < 2 ^ 63 ->
  let '(bs, w') := World.step w (World.OSend m) in
  let '(r, q') := req_send q m in
  req_agrees w' q' /\
  match r with
  | QSent k => bs = [World.BSendOk] /\
               wire_w k w' = wire_w k w ++ encode_frames (World.req_wrap m) /\
               wire_of k (q_base q') = wire_of k (q_base q) ++ encode_frames (World.req_wrap m) /\
               (forall j, j <> k -> wire_w j w' = wire_w j w /\ wire_of j (q_base q') = wire_of j (q_base q))
  | QBusy | QNoPeer => bs = [World.BSendErr EReturnToSender (Some m)] /\
               (forall j, wire_w j w' = wire_w j w /\ wire_of j (q_base q') = wire_of j (q_base q))
  | _ => False
  end.
Proof. exact req_refines_world. Qed.
Print Assumptions C08_faulty_refines_world.
