(** C09 - ROUTER labels inbound messages with the true sender and routes by first frame.  Property theorems only. *)
From ZV Require Import Base.Bytes Base.Res Model.Codec Model.World Proofs.SocketProofs.
From ZV Require Proofs.WorldStreamDefs Proofs.RouterStream.

(** whatever the fair queue yields from connection k is returned prefixed with k's identity (the
    announced one, else the unique one assigned to the connection), remaining frames unmodified *)
Theorem C09_label_true_sender : forall n w k m w1, w_type w = ROUTER ->
  fq_next (S (length (w_heap w)) + length (w_conns w) + 2) w = (FItem k (OItem (IMessage m)), w1) ->
  recv_fq (S n) w =
    (match get_conn k (w_conns w1) with
     | Some c => match c_ann c with Some b => BRecv None (b :: m) | None => BRecv (Some k) m end
     | None => BRecv (Some k) m end, w1).
Proof. exact router_label_true_sender. Qed.
Print Assumptions C09_label_true_sender.

(** delivered, minus the first frame, to exactly the addressed peer; every other wire and the table unchanged *)
Theorem C09_route_exact : forall w c m cn, w_type w = ROUTER -> conns_ok w -> memN c (w_peers w) = true ->
  get_conn c (w_conns w) = Some cn ->
  exists w', step w (OSendTo c m) = ([BSendOk], w') /\
    (exists cn', get_conn c (w_conns w') = Some cn' /\ c_wire cn' = c_wire cn ++ encode_frames m) /\
    (forall j, j <> c -> get_conn j (w_conns w') = get_conn j (w_conns w)) /\ w_peers w' = w_peers w.
Proof. exact router_route_exact. Qed.
Print Assumptions C09_route_exact.

(** no such peer: the send fails and nothing is written anywhere *)
Theorem C09_route_unknown : forall w c m, w_type w = ROUTER -> memN c (w_peers w) = false ->
  step w (OSendTo c m) = ([BSendErr EOther None], w).
Proof. exact router_route_unknown. Qed.
Print Assumptions C09_route_unknown.

Theorem C09_route_unknown_bytes : forall w id rest, w_type w = ROUTER -> rest <> [] ->
  (forall c, In c (w_conns w) -> c_ann c <> Some id \/ memN (c_id c) (w_peers w) = false) ->
  exists e, step w (OSend (id :: rest)) = ([BSendErr e None], w).
Proof. exact router_route_by_bytes_unknown. Qed.
Print Assumptions C09_route_unknown_bytes.

(** over whole histories, at the API level of the socket model: a ROUTER with any number of connected peers
    (identities assigned by the socket), any interleaving of arrivals in any chunking, closes and recv
    calls.  Every message recv returns is labelled with an attached connection ... *)
Theorem C09_history_labels : forall cs ops from m,
  NoDup cs -> Forall RouterStream.traffic_op ops ->
  In (BRecv from m) (World.run (WorldStreamDefs.attached ROUTER cs) ops) -> exists k, from = Some k /\ In k cs.
Proof. exact RouterStream.router_recv_labels. Qed.
Print Assumptions C09_history_labels.

(** ... the messages labelled k are a prefix of the messages k's byte stream contains, in order, each once
    (the label is the TRUE sender: no message of another connection ever carries it) ... *)
Theorem C09_history_true_sender_in_order : forall cs ops k,
  NoDup cs -> In k cs -> Forall RouterStream.traffic_op ops ->
  WorldStreamDefs.is_prefix_of
    (RouterStream.msgs_from k (World.run (WorldStreamDefs.attached ROUTER cs) ops))
    (RouterStream.messages_of (WorldStreamDefs.expected (WorldStreamDefs.chunks_of k (RouterStream.evs_of ops))
                                                         (WorldStreamDefs.closed_of k (RouterStream.evs_of ops)))).
Proof. exact RouterStream.router_recv_in_order. Qed.
Print Assumptions C09_history_true_sender_in_order.

(** ... and when a recv parks, every connection's messages have all been returned under its label *)
Theorem C09_history_complete : forall cs ops k,
  NoDup cs -> In k cs -> Forall RouterStream.traffic_op ops ->
  last (World.run (WorldStreamDefs.attached ROUTER cs) (ops ++ [ORecv])) BRecvPending = BRecvPending ->
  RouterStream.msgs_from k (World.run (WorldStreamDefs.attached ROUTER cs) (ops ++ [ORecv])) =
  RouterStream.messages_of (WorldStreamDefs.expected (WorldStreamDefs.chunks_of k (RouterStream.evs_of ops))
                                                      (WorldStreamDefs.closed_of k (RouterStream.evs_of ops))).
Proof. exact RouterStream.router_recv_complete. Qed.
Print Assumptions C09_history_complete.

(** * Routing over connections that answer each write from a script (Model/DirSend.v: [send_to] is ROUTER's send) *)
From ZV Require Import Model.TrySend Model.RrSend Model.DirSend Proofs.RrSendProofs Proofs.DirSendProofs.

(** a message for peer k touches no other connection and not the rotation, whatever its outcome *)
Theorem C09_faulty_touches_only : forall st k m r st', send_to st k m = (r, st') ->
  r_rr st' = r_rr st /\
  forall j, j <> k -> wire_of j st' = wire_of j st /\ pget j (r_peers st') = pget j (r_peers st).
Proof. exact send_to_touches_only. Qed.
Print Assumptions C09_faulty_touches_only.

Theorem C09_faulty_unknown : forall st k m, pget k (r_peers st) = None -> send_to st k m = (RNoPeer, st).
Proof. exact send_to_unknown. Qed.
Print Assumptions C09_faulty_unknown.

Theorem C09_faulty_ok_whole : forall st k m k' st', send_to st k m = (ROk k', st') ->
  k' = k /\ exists p, pget k (r_peers st) = Some p /\
    (k_buf (p_sink p) = [] -> wire_of k st' = wire_of k st ++ encode_frames m).
Proof. exact send_to_ok_whole. Qed.
Print Assumptions C09_faulty_ok_whole.

(** over connections that accept every write, [send_to] does what the socket model's ROUTER send does *)
From ZV Require Import Proofs.SendRefinement.
Theorem C09_faulty_refines_world : forall w st k m,
  World.w_type w = ROUTER -> rr_agrees w st -> lenN (encode_frames m) < 2 ^ 63 ->
  let '(bs, w') := World.step w (World.OSendTo k m) in
  let '(r, st') := send_to st k m in
  rr_agrees w' st' /\
  match r with
  | ROk k' => k' = k /\ bs = [World.BSendOk] /\
              wire_w k w' = wire_w k w ++ encode_frames m /\ wire_of k st' = wire_of k st ++ encode_frames m /\
              (forall j, j <> k -> wire_w j w' = wire_w j w /\ wire_of j st' = wire_of j st)
  | RNoPeer => bs = [World.BSendErr EOther None] /\ w' = w /\ st' = st
  | _ => False
  end.
Proof. exact send_to_refines_world. Qed.
Print Assumptions C09_faulty_refines_world.
