(** C17 - Closing or dropping a socket stops its listeners and disconnects all peers.  Property theorems only.
    Proof level: the ownership bookkeeping (what the socket's fields, the queue, the wakers and the
    tasks own).  What tokio keeps alive and when the OS closes a descriptor is observed on the real
    runtime by the harness, not proved (DESIGN 4 C17, 6). *)
From ZV Require Import Base.Bytes Model.Runtime Proofs.RuntimeProofs.
From ZV Require Gen.Src.

(** structure re-read from the source on every run: every backend's shutdown() clears its table and
    its fair queue, the queue's clear() drops the streams, all nine socket types shut down on Drop *)
Theorem C17_gen_structure :
  Gen.Src.generic_shutdown_clears_queue = 1 /\ Gen.Src.rep_shutdown_clears_queue = 1 /\ Gen.Src.sub_shutdown_clears_queue = 1 /\
  Gen.Src.xpub_shutdown_clears_queue = 1 /\ Gen.Src.generic_shutdown_clears_table = 1 /\ Gen.Src.rep_shutdown_clears_table = 1 /\
  Gen.Src.sub_shutdown_clears_table = 1 /\ Gen.Src.xpub_shutdown_clears_table = 1 /\
  Gen.Src.queue_clear_drops_streams = 1 /\ Gen.Src.sockets_with_drop_shutdown = 9.
Proof. repeat split; reflexivity. Qed.
Print Assumptions C17_gen_structure.

(** no endpoint is listened on any more (every accept task's stop channel is gone with the bind map) *)
Theorem C17_listeners_stop : forall o cq e, owned_ok o -> listening (drop_socket cq o) e = false.
Proof. exact drop_stops_listeners. Qed.
Print Assumptions C17_listeners_stop.

(** every connected peer is released: after drop / close a connection stays open only if a handshake
    task that has not finished still owns it (listed known finding) *)
Theorem C17_peers_disconnected : forall o k, conn_open (drop_socket true o) k = Runtime.memN k (o_handshakes o).
Proof. exact drop_disconnects_all_peers. Qed.
Print Assumptions C17_peers_disconnected.

Theorem C17_everything_released : forall o,
  (o_table (drop_socket true o) = []) /\ (o_queue (drop_socket true o) = []) /\ (o_readers (drop_socket true o) = []) /\
  (o_binds (drop_socket true o) = []) /\ (o_handle (drop_socket true o) = false).
Proof. exact drop_releases_everything_else. Qed.
Print Assumptions C17_everything_released.

(** why the queue has to be cleared: without it a polled stream's connection survives the socket
    (the defect that was repaired; kept as a theorem so that the model shows the failure) *)
Theorem C17_without_clear_leaks : forall o k, o_wakers o <> [] -> Runtime.memN k (o_queue o) = true ->
  conn_open (drop_socket false o) k = true.
Proof. exact drop_without_clear_leaks. Qed.
Print Assumptions C17_without_clear_leaks.
