(** C14 - Dropping a pending recv loses nothing and leaves the socket usable.  Property theorems only.
    A future can be dropped only at an await that returned Pending.  For the six fair-queue sockets
    the only such point in recv is the fair queue's poll_next having returned Pending. *)
From ZV Require Import Base.Bytes Base.Res Model.Codec Model.FairQueue Model.World Proofs.FairQueueProofs Proofs.SocketProofs.

(** structure re-read from the source: REQ recv does not take the marker before awaiting *)
Theorem C14_gen_structure : Gen.req_recv_takes_marker = 0 /\ Gen.req_recv_clears_marker = 2.
Proof. split; reflexivity. Qed.
Print Assumptions C14_gen_structure.

(** whenever poll_next is not running (in particular whenever it has returned Pending) no stream is
    checked out: the queue holds every stream, so dropping the recv future drops nothing *)
Theorem C14_fq_idle_holds_nothing : forall q, f_pc q = Idle -> checked_out q = None.
Proof. exact fq_idle_holds_nothing. Qed.
Print Assumptions C14_fq_idle_holds_nothing.

Theorem C14_fq_parked_is_idle : forall q, reachable q -> f_parked q = true -> f_pc q = Idle.
Proof. exact fq_parked_is_idle. Qed.
Print Assumptions C14_fq_parked_is_idle.

(** items are accounted for at every point of every schedule, hence also across abandoned polls *)
Theorem C14_nothing_lost_across_polls : forall b ls q es k,
  FairQueue.run (fq0 b) ls = (q, es) ->
  delivered k es ++ in_flight q k ++ s_items (the_src q k) = arrived k ls.
Proof. exact fq_exactly_once_in_order. Qed.
Print Assumptions C14_nothing_lost_across_polls.

(** REQ: a recv that is still pending (and may be dropped) leaves the socket owing that recv *)
Theorem C14_req_still_owes : forall w w', w_type w = REQ -> World.step w ORecv = ([BRecvPending], w') ->
  w_cur w' = w_cur w /\ w_peers w' = w_peers w /\ w_rr w' = w_rr w.
Proof. exact req_recv_pending_keeps_owing. Qed.
Print Assumptions C14_req_still_owes.

(** ... so a later send is refused until the reply has been received *)
Theorem C14_req_send_refused_while_owing : forall w k m, w_type w = REQ -> w_cur w = Some k ->
  World.step w (OSend m) = ([BSendErr EReturnToSender (Some m)], w).
Proof. exact req_send_out_of_turn. Qed.
Print Assumptions C14_req_send_refused_while_owing.
