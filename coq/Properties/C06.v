(** C06 - A waiting receiver is always woken, and no peer is starved.  Property theorems only. *)
From ZV Require Import Base.Bytes Model.FairQueue Proofs.FairQueueProofs.
From ZV Require Gen.Src.

(** structure re-read from the source on every run: a stream waker records that it has fired, and the poll loop
    returns Pending instead of looping when the waker of the stream poll in progress has fired (the [QYield] case) *)
Theorem C06_gen_structure : Gen.Src.fq_waker_sets_woken = 1 /\ Gen.Src.fq_pending_checks_woken = 1.
Proof. split; reflexivity. Qed.
Print Assumptions C06_gen_structure.

(** every stream in the map that is not being polled has a claim: an event in the ready heap or a
    kept waker that will push one *)
Theorem C06_claim_invariant : forall q, reachable q -> forall k, In k (f_streams q) -> has_claim q k.
Proof. exact fq_claim_invariant. Qed.
Print Assumptions C06_claim_invariant.

(** a parked receiver that has not been woken sits on an empty ready heap with its waker stored *)
Theorem C06_parked_invariant : forall q, reachable q ->
  f_parked q = true -> f_woken q = false -> f_heap q = [] /\ f_rwaker q = true /\ f_pc q = Idle.
Proof. exact fq_parked_invariant. Qed.
Print Assumptions C06_parked_invariant.

(** no lost wake-up: while the receiver is parked and not yet woken, every registered stream that is
    ready still holds its waker (the wake is owed by the transport, not forgotten by the queue) ... *)
Theorem C06_no_lost_wakeup : forall q, reachable q -> f_parked q = true -> f_woken q = false ->
  forall k, In k (f_streams q) -> src_ready (the_src q k) = true -> s_reg (the_src q k) <> None.
Proof. exact fq_no_lost_wakeup. Qed.
Print Assumptions C06_no_lost_wakeup.

(** a stream poll that wakes the waker it is polled with and returns Pending (a yielding stream) makes
    poll_next return Pending at once, with the stream's event queued, the stream back in the map and the
    receiver already woken: no spinning, no lost wake-up *)
Theorem C06_yield_returns_pending : forall q ev q1 q2 es,
  f_pc q = Out ev -> step q LR2Y = (q1, []) -> step q1 LR3 = (q2, es) ->
  es = [EPending] /\ f_pc q2 = Idle /\ f_parked q2 = true /\ In ev (f_heap q2) /\ In (snd ev) (f_streams q2) /\
  (f_rwaker q = true -> f_woken q2 = true).
Proof. exact yield_returns_pending. Qed.
Print Assumptions C06_yield_returns_pending.

(** ... and when that waker fires, or a new connection is inserted, the receiver is woken *)
Theorem C06_wake_wakes_receiver : forall q k c, reachable q -> f_parked q = true -> f_woken q = false ->
  s_reg (the_src q k) <> None -> f_woken (fst (step q (LWake k c))) = true /\ f_parked (fst (step q (LWake k c))) = true.
Proof. exact fq_wake_wakes_receiver. Qed.
Print Assumptions C06_wake_wakes_receiver.

Theorem C06_insert_wakes_receiver : forall q k, reachable q -> f_parked q = true -> f_woken q = false ->
  f_woken (fst (step q (LInsert k))) = true.
Proof. exact fq_insert_wakes_receiver. Qed.
Print Assumptions C06_insert_wakes_receiver.

(** one poll_next call always returns (with environment events landing anywhere inside it) *)
Theorem C06_poll_terminates : forall q idx w, ~ In LStart w -> f_pc q = Idle -> f_pc (fst (poll q idx w)) = Idle.
Proof. exact poll_returns_idle_noStart. Qed.
Print Assumptions C06_poll_terminates.

(** fairness, under the registration contract (a kept waker fires at most once, keys are fresh):
    each stream holds at most one claim ... *)
Theorem C06_one_claim : forall b ls q es, run (fq0 b) ls = (q, es) ->
  (forall k c, In (LWake k c) ls -> c = true) -> NoDup (insert_keys ls) -> forall k, (claims q k <= 1)%nat.
Proof. exact fq_one_claim. Qed.
Print Assumptions C06_one_claim.

(** ... and while stream i waits with an event in the heap, the number of items delivered from other
    streams is at most (number of streams holding a claim) - 1, however much the others have queued;
    i itself is not served twice in between *)
Theorem C06_fair_bound : forall b ls0 ls q q' es es0 p i,
  run (fq0 b) ls0 = (q, es0) -> run q ls = (q', es) ->
  (forall k c, In (LWake k c) (ls0 ++ ls) -> c = true) -> NoDup (insert_keys (ls0 ++ ls)) ->
  In (p, i) (f_heap q) -> stays p i q ls ->
  NoDup (claim_keys q) /\ (nready es <= length (claim_keys q) - 1)%nat.
Proof. exact fq_fairness_bound_keys. Qed.
Print Assumptions C06_fair_bound.
