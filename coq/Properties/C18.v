(** C18 - bind/unbind manage independent listeners with exact endpoint bookkeeping.  Property theorems only.
    The OS is an oracle: its answers (refused, or listening on the resolved endpoint it names) are inputs. *)
From ZV Require Import Base.Bytes Model.Runtime Proofs.RuntimeProofs.

(** the bind set is exactly the set of endpoints being listened on, after every operation sequence *)
Theorem C18_table_exact : forall ops s, b_table s = b_os s -> b_table (fst (brun s ops)) = b_os (fst (brun s ops)).
Proof. exact bind_table_exact. Qed.
Print Assumptions C18_table_exact.

(** a successful bind returns the resolved endpoint and adds exactly it *)
Theorem C18_bind_adds_exactly_that : forall s e, Runtime.memN e (b_os s) = false ->
  let s' := fst (bstep s (BBind (Some e))) in
  snd (bstep s (BBind (Some e))) = BOk e /\ b_table s' = Runtime.delN e (b_table s) ++ [e] /\ b_os s' = b_os s ++ [e].
Proof. exact bind_adds_exactly_that. Qed.
Print Assumptions C18_bind_adds_exactly_that.

(** a failed bind changes nothing *)
Theorem C18_failed_bind_noop : forall s, bstep s (BBind None) = (s, BErrOs) /\ bstep s BBindBadText = (s, BErrParse).
Proof. exact failed_bind_changes_nothing. Qed.
Print Assumptions C18_failed_bind_noop.

(** unbind of a bound endpoint stops that one and only that one *)
Theorem C18_unbind_only_that : forall s e, Runtime.memN e (b_table s) = true ->
  let s' := fst (bstep s (BUnbind e)) in
  snd (bstep s (BUnbind e)) = BUnbound /\ Runtime.memN e (b_table s') = false /\ Runtime.memN e (b_os s') = false /\
  forall j, j <> e -> Runtime.memN j (b_table s') = Runtime.memN j (b_table s) /\ Runtime.memN j (b_os s') = Runtime.memN j (b_os s).
Proof. exact unbind_only_that. Qed.
Print Assumptions C18_unbind_only_that.

(** unbind of anything else fails with no-such-bind and changes nothing *)
Theorem C18_unbind_unknown : forall s e, Runtime.memN e (b_table s) = false -> bstep s (BUnbind e) = (s, BNoSuchBind).
Proof. exact unbind_unknown. Qed.
Print Assumptions C18_unbind_unknown.
