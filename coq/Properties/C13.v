(** C13 - A SUB socket's subscriptions reach every peer, including late joiners.  Property theorems only. *)
From ZV Require Import Base.Bytes Base.Res Spec.PrefixMultiset Model.Codec Model.World Proofs.PubSubProofs Proofs.LifecycleProofs.

(** structure re-read from src/sub.rs on every run: the wire message is sent only when the set changes,
    the update loop does not stop at the first failing peer, the replay does not unwrap *)
Theorem C13_gen_structure :
  Gen.sub_subscribe_only_on_change = 1 /\ Gen.sub_unsubscribe_only_on_change = 1 /\
  Gen.sub_update_stops_at_error = 0 /\ Gen.sub_replay_unwraps = 0 /\ Gen.sub_op_sub = 1 /\ Gen.sub_op_unsub = 0.
Proof. repeat split; reflexivity. Qed.
Print Assumptions C13_gen_structure.

(** for EVERY history of subscribe / unsubscribe (repeated, never-subscribed, any topics) and joins at
    every point: at every moment each registered peer has been written subscription messages whose
    per-topic count - as a publisher counts them - is 1 for a currently subscribed topic and 0
    otherwise.  Hence every peer has been told exactly the current set and all peers agree. *)
Theorem C13_agree_at_quiescence : forall ops w,
  w = exec (world0 SUB) ops -> Forall sub_op ops ->
  NoDup (w_subs w) /\ NoDup (w_peers w) /\
  forall c, memN c (w_peers w) = true ->
    exists cn msgs, get_conn c (w_conns w) = Some cn /\
      c_wire cn = concat (map encode_frames msgs) /\
      forall t, count msgs t = if subscribed w t then 1%nat else 0%nat.
Proof. exact sub_agreement_strong. Qed.
Print Assumptions C13_agree_at_quiescence.

(** peers connected before the call receive the change ... *)
Theorem C13_subscribe_tells_every_peer : forall w t k c, w_type w = SUB -> NoDup (w_peers w) ->
  existsb (bytes_eqb t) (w_subs w) = false ->
  In k (w_peers w) -> get_conn k (w_conns w) = Some c ->
  exists c', get_conn k (w_conns (snd (step w (OSub t)))) = Some c' /\
             c_wire c' = c_wire c ++ encode_frames [1 :: t].
Proof. exact sub_subscribe_tells_every_peer. Qed.
Print Assumptions C13_subscribe_tells_every_peer.

Theorem C13_unsubscribe_tells_every_peer : forall w t k c, w_type w = SUB -> NoDup (w_peers w) ->
  existsb (bytes_eqb t) (w_subs w) = true ->
  In k (w_peers w) -> get_conn k (w_conns w) = Some c ->
  exists c', get_conn k (w_conns (snd (step w (OUnsub t)))) = Some c' /\
             c_wire c' = c_wire c ++ encode_frames [0 :: t].
Proof. exact sub_unsubscribe_tells_every_peer. Qed.
Print Assumptions C13_unsubscribe_tells_every_peer.

(** ... a repeated subscribe / an unsubscribe of something not subscribed tells nobody (so that
    counting publishers and late joiners keep agreeing) ... *)
Theorem C13_repeat_is_silent : forall w t,
  (existsb (bytes_eqb t) (w_subs w) = true -> step w (OSub t) = ([BSubOk true], w)) /\
  (existsb (bytes_eqb t) (w_subs w) = false -> step w (OUnsub t) = ([BSubOk false], w)).
Proof. exact sub_repeat_is_silent. Qed.
Print Assumptions C13_repeat_is_silent.

(** ... and a peer that joins afterwards receives all subscriptions active at that time *)
Theorem C13_late_joiner_gets_all : forall w c ann, w_type w = SUB ->
  exists cn, get_conn c (w_conns (do_attach w c ann)) = Some cn /\
    c_wire cn = concat (map (fun t => encode_frames [1 :: t]) (w_subs w)).
Proof. exact attach_self. Qed.
Print Assumptions C13_late_joiner_gets_all.

(** * subscribe / unsubscribe over connections that answer each write from a script (Model/DirSend.v) *)
From ZV Require Import Model.TrySend Model.RrSend Model.DirSend Proofs.RrSendProofs Proofs.DirSendProofs.

(** when no connection keeps refusing data, every peer of the table is sent the update exactly once, each according to
    its own connection alone: a failure on one peer's connection does not prevent the other peers from being updated *)
Theorem C13_faulty_every_peer_once : forall ps enc, (forall p, In p ps -> fst (sink_send (p_sink p) enc) <> FlStall) ->
  bcast ps enc =
  (map (fun p => (p_id p, fst (sink_send (p_sink p) enc))) ps,
   map (fun p => {| p_id := p_id p; p_sink := snd (sink_send (p_sink p) enc) |}) ps).
Proof. exact bcast_no_stall. Qed.
Print Assumptions C13_faulty_every_peer_once.

(** a peer whose connection accepts every write has been told exactly the changes the socket's set went through, in
    order, whatever the connections of the other peers do *)
Theorem C13_faulty_healthy_told_all : forall ops st rs st' k p,
  srun st ops = (rs, st') ->
  pget k (s_peers st) = Some p -> k_tr (p_sink p) = accepting_tr -> k_buf (p_sink p) = [] ->
  (forall o, In o ops -> concerns_peer k o = false) ->
  (forall r, In r rs -> match r with BStall _ => False | _ => True end) ->
  (forall t : bytes, In (SSub t) ops \/ In (SUnsub t) ops -> lenN t < 2 ^ 62) ->
  swire k st' = swire k st ++ concat (map encode_frames (updates (s_subs st) ops)).
Proof. exact sub_healthy_told_all. Qed.
Print Assumptions C13_faulty_healthy_told_all.

Theorem C13_faulty_joiner_gets_set : forall st k,
  pget k (s_peers st) = None ->
  let st' := snd (sstep st (SAttach k)) in
  swire k st' = concat (map (fun t => encode_frames (DirSend.sub_msg Gen.sub_op_sub t)) (s_subs st)) /\ s_subs st' = s_subs st.
Proof. exact sub_joiner_gets_set. Qed.
Print Assumptions C13_faulty_joiner_gets_set.

Theorem C13_faulty_repeat_silent : forall st t, has t (s_subs st) = true -> sstep st (SSub t) = (Some BOk, st).
Proof. exact sub_repeat_silent. Qed.
Print Assumptions C13_faulty_repeat_silent.
