(** C16 - A failed or closed peer is isolated, forgotten, and its connection released.  Property theorems only.
    (Known class not covered: a stream that ends cleanly between messages is dropped by the fair
    queue without telling the backend - KNOWN_FINDINGS clean-eof-keeps-write-half.) *)
From ZV Require Import Base.Bytes Base.Res Model.Codec Model.World Proofs.SocketProofs Proofs.LifecycleProofs.
From ZV Require Proofs.WorldStreamDefs Proofs.WorldStream Proofs.WorldErrors.

(** structure re-read from the source on every run: every path on which a socket sees a connection
    fail removes the peer (table entry, stream) *)
Theorem C16_gen_structure :
  Gen.rep_disconnect_removes_stream = 1 /\ Gen.sub_disconnect_removes_stream = 1 /\ Gen.dealer_error_disconnects = 1 /\
  Gen.router_send_error_disconnects = 1 /\ Gen.rep_send_error_disconnects = 1 /\
  Gen.req_send_error_disconnects = 1 /\ Gen.req_recv_error_disconnects = 1.
Proof. repeat split; reflexivity. Qed.
Print Assumptions C16_gen_structure.

(** events on one connection leave every other connection untouched *)
Theorem C16_feed_others_unaffected : forall w k b j, j <> k -> get_conn j (w_conns (do_feed w k b)) = get_conn j (w_conns w).
Proof. exact feed_others_unchanged. Qed.
Print Assumptions C16_feed_others_unaffected.

Theorem C16_eof_others_unaffected : forall w k j, j <> k -> get_conn j (w_conns (do_eof w k)) = get_conn j (w_conns w).
Proof. exact eof_others_unchanged. Qed.
Print Assumptions C16_eof_others_unaffected.

(** a stream error surfaced by recv disconnects exactly that peer, and is reported once: the stream
    is no longer registered, and the fair queue only ever yields items of registered streams *)
Theorem C16_error_disconnects : forall n w k e w1, has_fq (w_type w) = true -> w_type w <> ROUTER ->
  fq_next (S (length (w_heap w)) + length (w_conns w) + 2) w = (FItem k (OErr e), w1) ->
  recv_fq (S n) w = (BRecvErr e, peer_disconnected w1 k).
Proof. exact recv_error_disconnects. Qed.
Print Assumptions C16_error_disconnects.

Theorem C16_router_error_disconnects : forall n w k e w1, w_type w = ROUTER ->
  fq_next (S (length (w_heap w)) + length (w_conns w) + 2) w = (FItem k (OErr e), w1) ->
  recv_fq (S n) w = recv_fq n (peer_disconnected w1 k).
Proof. exact router_error_disconnects_and_continues. Qed.
Print Assumptions C16_router_error_disconnects.

Theorem C16_only_registered_streams_yield : forall fuel w k o w',
  fq_next fuel w = (FItem k o, w') -> memN k (w_streams w) = true.
Proof. exact fq_next_only_registered. Qed.
Print Assumptions C16_only_registered_streams_yield.

(** forgotten and released: not in the peer table, not in the fair queue, both halves dropped;
    nobody else is touched *)
Theorem C16_disconnected_is_forgotten : forall w k,
  memN k (w_peers (peer_disconnected w k)) = false /\
  (has_fq (w_type w) = true -> memN k (w_streams (peer_disconnected w k)) = false) /\
  (forall c, get_conn k (w_conns w) = Some c -> has_fq (w_type w) = true \/ w_type w = REQ ->
     exists c', get_conn k (w_conns (peer_disconnected w k)) = Some c' /\ c_rd c' = false /\ c_wr c' = false) /\
  (forall j, j <> k -> get_conn j (w_conns (peer_disconnected w k)) = get_conn j (w_conns w) /\
                        memN j (w_peers (peer_disconnected w k)) = memN j (w_peers w) /\
                        memN j (w_streams (peer_disconnected w k)) = memN j (w_streams w)).
Proof. exact disconnected_is_forgotten. Qed.
Print Assumptions C16_disconnected_is_forgotten.

(** no later send is routed to a forgotten peer *)
Theorem C16_not_routed_round_robin : forall fuel w m b w' k, w_type w <> REQ -> memN k (w_peers w) = false ->
  send_rr fuel w m = (b, w') -> get_conn k (w_conns w') = get_conn k (w_conns w).
Proof. exact send_rr_never_writes_to_dead. Qed.
Print Assumptions C16_not_routed_round_robin.

Theorem C16_not_routed_router : forall w c m, w_type w = ROUTER -> memN c (w_peers w) = false ->
  step w (OSendTo c m) = ([BSendErr EOther None], w).
Proof. exact router_route_unknown. Qed.
Print Assumptions C16_not_routed_router.

(** over whole histories of the socket model (six fair-queue socket types, any number of connections, any
    interleaving of arrivals in any chunking, closes and recv calls).  At most one error is handed out for a
    connection, and nothing after it ... *)
Theorem C16_history_error_once : forall t cs es k pre o post,
  has_fq t = true -> NoDup cs -> In k cs ->
  WorldStreamDefs.outs_of k (fst (WorldStreamDefs.wrun (WorldStreamDefs.attached t cs) es)) = pre ++ o :: post ->
  WorldErrors.is_err o = true ->
  post = [] /\ forallb (fun x => negb (WorldErrors.is_err x)) pre = true.
Proof. exact WorldErrors.world_error_once. Qed.
Print Assumptions C16_history_error_once.

(** ... once it has been handed out the connection is forgotten and released: not a peer, not a registered
    stream, both halves dropped ... *)
Theorem C16_history_forgotten_and_released : forall t cs es k rs w,
  has_fq t = true -> NoDup cs -> In k cs ->
  WorldStreamDefs.wrun (WorldStreamDefs.attached t cs) es = (rs, w) ->
  existsb WorldErrors.is_err (WorldStreamDefs.outs_of k rs) = true ->
  memN k (w_peers w) = false /\ memN k (w_streams w) = false /\
  (forall c, get_conn k (w_conns w) = Some c -> c_rd c = false /\ c_wr c = false).
Proof. exact WorldErrors.world_error_forgets. Qed.
Print Assumptions C16_history_forgotten_and_released.

(** ... while every connection that has not failed and was not closed stays a registered peer with both halves,
    whatever happened to the others ... *)
Theorem C16_history_healthy_kept : forall t cs es k rs w,
  has_fq t = true -> NoDup cs -> In k cs ->
  WorldStreamDefs.wrun (WorldStreamDefs.attached t cs) es = (rs, w) ->
  existsb WorldErrors.is_err (WorldStreamDefs.outs_of k rs) = false -> WorldStreamDefs.closed_of k es = false ->
  memN k (w_peers w) = true /\ memN k (w_streams w) = true /\
  (exists c, get_conn k (w_conns w) = Some c /\ c_rd c = true /\ c_wr c = true).
Proof. exact WorldErrors.world_healthy_kept. Qed.
Print Assumptions C16_history_healthy_kept.

(** ... and its traffic is delivered completely (no hypothesis about the other connections: they may fail at any point) *)
Theorem C16_history_others_unaffected : forall t cs es rs w,
  has_fq t = true -> NoDup cs ->
  WorldStreamDefs.wrun (WorldStreamDefs.attached t cs) (es ++ [WorldStreamDefs.WNext]) = (rs, w) -> last rs None = None ->
  forall k, In k cs -> WorldStreamDefs.outs_of k rs = WorldStreamDefs.expected (WorldStreamDefs.chunks_of k es) (WorldStreamDefs.closed_of k es).
Proof. exact WorldStream.world_stream_complete. Qed.
Print Assumptions C16_history_others_unaffected.

(** the listed finding, as the model shows it: a peer that closes while nothing is buffered ends its stream
    silently - the read half goes, the peer-table entry and the write half stay *)
Theorem C16_clean_close_keeps_peer_refuted :
  WorldStreamDefs.outs_of 0 (fst (WorldStreamDefs.wrun (WorldStreamDefs.attached PULL [0]) WorldErrors.we_clean)) = [OItem (IMessage [[9]])] /\
  memN 0 (w_peers (snd (WorldStreamDefs.wrun (WorldStreamDefs.attached PULL [0]) WorldErrors.we_clean))) = true /\
  memN 0 (w_streams (snd (WorldStreamDefs.wrun (WorldStreamDefs.attached PULL [0]) WorldErrors.we_clean))) = false /\
  map (fun c => (c_rd c, c_wr c)) (w_conns (snd (WorldStreamDefs.wrun (WorldStreamDefs.attached PULL [0]) WorldErrors.we_clean))) = [(false, true)].
Proof. exact WorldErrors.world_clean_close_keeps_peer. Qed.
Print Assumptions C16_clean_close_keeps_peer_refuted.

(** * Write failures on the sending paths, over connections that answer each write from a script
      (Model/RrSend.v: PUSH / DEALER round robin; Model/DirSend.v: ROUTER, REQ) *)
From ZV Require Import Model.TrySend Model.RrSend Model.DirSend Proofs.RrSendProofs Proofs.DirSendProofs.

(** once the socket has let go of a connection - for whatever reason - nothing is ever routed to it again, it stays
    released and its wire does not change, whatever happens afterwards *)
Theorem C16_rr_gone_never_targeted : forall ops st rs st' k,
  pget k (r_peers st) = None -> ~ In k (attached ops) -> rrun st ops = (rs, st') ->
  (forall r, In r rs -> targets k r = false) /\ pget k (r_peers st') = None /\ wire_of k st' = wire_of k st.
Proof. exact gone_never_targeted. Qed.
Print Assumptions C16_rr_gone_never_targeted.

Theorem C16_rr_failed_never_targeted : forall st m k e st1 ops rs st2,
  NoDup (map p_id (r_peers st)) -> NoDup (r_rr st) ->
  RrSend.send st m = (RErr k e, st1) -> ~ In k (attached ops) -> rrun st1 ops = (rs, st2) ->
  (forall r, In r rs -> targets k r = false) /\ pget k (r_peers st2) = None /\ wire_of k st2 = wire_of k st1.
Proof. exact failed_never_targeted. Qed.
Print Assumptions C16_rr_failed_never_targeted.

(** ROUTER: a failed write forgets the peer; the next message for it is refused and writes nothing *)
Theorem C16_router_err_forgets : forall st k m k' e st', send_to st k m = (RErr k' e, st') ->
  NoDup (map p_id (r_peers st)) ->
  k' = k /\ pget k (r_peers st') = None /\ forall m2, send_to st' k m2 = (RNoPeer, st').
Proof. exact send_to_err_forgets. Qed.
Print Assumptions C16_router_err_forgets.

(** REQ: a failed request forgets the server and leaves the socket owing nothing *)
Theorem C16_req_err_forgets : forall q m k e q', req_send q m = (QErr k e, q') ->
  NoDup (map p_id (r_peers (q_base q))) ->
  pget k (r_peers (q_base q')) = None /\ q_cur q' = None.
Proof. exact req_err_forgets. Qed.
Print Assumptions C16_req_err_forgets.
