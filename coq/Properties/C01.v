(** C01 - Message framing conforms to ZMTP 3.0 and round-trips exactly.
    Property theorems only; each is closed by [exact] of a lemma from Proofs/. *)
From ZV Require Import Base.Bytes Base.Res Spec.Rfc23 Model.Codec Proofs.CodecEnc Proofs.CodecRoundtrip.
From Coq Require Import Permutation.

(** The constants the code uses are the RFC's (Gen.Src is regenerated from /repo on every run). *)
Theorem C01_gen_constants :
  Gen.enc_flag_more = 1 /\ Gen.enc_flag_long = 2 /\ Gen.enc_short_max = 255 /\ Gen.enc_short_max2 = 255 /\
  Gen.enc_long_width = 8 /\ Gen.enc_short_width = 1 /\ Gen.enc_more_on_all_but_last = 1 /\
  Gen.cmd_flag_short = 4 /\ Gen.cmd_flag_long = 6 /\ Gen.cmd_short_max = 255 /\ Gen.cmd_long_width = 8 /\
  Gen.cmd_nlen_width = 1 /\ Gen.cmd_vlen_width = 4.
Proof. exact gen_codec_constants. Qed.
Print Assumptions C01_gen_constants.

(** Every well-formed message (>= 1 frame, any frame length below 2^64) is emitted as bytes that the
    independent RFC 23 parser reads back as exactly that message with nothing left over. *)
Theorem C01_encode_is_rfc : forall m, wf_msg m ->
  exists bs, encode_msg m = Ok bs /\ rfc_message bs = Some (m, []).
Proof. exact encode_is_rfc. Qed.
Print Assumptions C01_encode_is_rfc.

(** Header shape: one-byte size exactly for bodies of at most 255 bytes, eight-byte big-endian otherwise. *)
Theorem C01_size_width : forall more f,
  encode_frame more f =
    if lenN f <=? 255 then [if more then 1 else 0; lenN f] ++ f
    else ((if more then 3 else 2) :: be 8 (lenN f)) ++ f.
Proof. exact encode_frame_shape. Qed.
Print Assumptions C01_size_width.

(** No extra or missing bytes. *)
Theorem C01_length : forall m, length (encode_frames m) = wire_len m.
Proof. exact encode_length. Qed.
Print Assumptions C01_length.

(** Frame by frame: MORE on every frame but the last, minimal size fields, bodies verbatim. *)
Theorem C01_frames : forall m, Forall frame_ok m ->
  rfc_frames (encode_frames m) = Some (wire_frames m) /\
  map wf_body (wire_frames m) = m /\
  forallb rfc_minimal_size (wire_frames m) = true /\
  (m <> [] -> map wf_more (wire_frames m) = repeat true (length m - 1) ++ [false]).
Proof.
  intros m H. split; [exact (encode_frames_rfc_frames m H)|].
  split; [exact (wire_frames_bodies m)|]. split; [exact (wire_frames_minimal m)|exact (wire_frames_more m)].
Qed.
Print Assumptions C01_frames.

(** Greeting: RFC well-formed for every greeting value; parses back; default is the 64 literal octets. *)
Theorem C01_greeting_wf : forall g, rfc_greeting_wf (encode_greeting g) = true.
Proof. exact greeting_wf. Qed.
Print Assumptions C01_greeting_wf.

Theorem C01_greeting_fields : forall g,
  rfc_greeting_version (encode_greeting g) = (g_major g, g_minor g) /\
  rfc_greeting_mech (encode_greeting g) = mech_name (g_mech g).
Proof. exact greeting_version_mech. Qed.
Print Assumptions C01_greeting_fields.

Theorem C01_greeting_roundtrip : forall g, parse_greeting (encode_greeting g) = Ok g.
Proof. exact greeting_roundtrip. Qed.
Print Assumptions C01_greeting_roundtrip.

Theorem C01_greeting_default :
  encode_greeting default_greeting = [255; 0; 0; 0; 0; 0; 0; 0; 0; 127; 3; 0; 78; 85; 76; 76] ++ repeat 0 48.
Proof. exact greeting_default_bytes. Qed.
Print Assumptions C01_greeting_default.

(** READY: for every socket type, with or without Identity (<= 255 bytes), in every property order
    (the HashMap's iteration order is not fixed): a well-formed RFC command frame carrying exactly
    those properties, with the short / long command size rule. *)
Theorem C01_ready_wf : forall st idopt props',
  Permutation props' (ready_props st idopt) -> id_ok idopt ->
  rfc_command (encode_ready props') = Some (ascii_READY, props').
Proof. exact ready_lib_is_rfc. Qed.
Print Assumptions C01_ready_wf.

(** C01's last clause: the library decodes what it encoded, under any segmentation *)
Theorem C01_lib_roundtrip : forall m chunks, wf_msg m ->
  concat chunks = encode_greeting default_greeting ++ encode_frames m ->
  lib_items chunks false = [OItem (IGreeting default_greeting); OItem (IMessage m)].
Proof. exact lib_roundtrip. Qed.
Print Assumptions C01_lib_roundtrip.

