(** C19 - Endpoint parsing is total, strict, and round-trips through its text form.  Property theorems only.
    [parse6] / [fmt6] stand for std::net's IPv6 text form; what is assumed of them appears as the
    premises [ip6_text_laws] of the theorems that need it (exercised by the differential run). *)
From ZV Require Import Base.Bytes Model.Endpoint Proofs.EndpointProofs.

Definition ip6_chars_law (parse6 : str -> option (list N)) : Prop :=
  forall s g, parse6 s = Some g -> forallb is_ip6_char s = true /\ In ch_colon s /\ (2 <= length s)%nat.
Definition ip6_print_law (parse6 : str -> option (list N)) (fmt6 : list N -> str) : Prop :=
  forall s g, parse6 s = Some g -> parse6 (fmt6 g) = Some g.

(** total: parsing is a total function of the string (type [option endpoint]); the only slice the
    code takes, s[1..len-1], is taken only where it is in range and on character boundaries *)
Theorem C19_total_slice_safe : forall c0 t, let s := c0 :: t in
  (c0 =? ch_lbr) && (4 <=? utf8_len s) && (last s 0 =? ch_rbr) = true ->
  utf8_len1 c0 = 1 /\ utf8_len1 (last s 0) = 1 /\ (2 <= length s)%nat.
Proof. exact bracket_guard_safe. Qed.
Print Assumptions C19_total_slice_safe.

Theorem C19_host_never_fails : forall parse6 h, h <> [] -> exists hst, parse_host parse6 h = Some hst.
Proof. exact host_never_fails. Qed.
Print Assumptions C19_host_never_fails.

(** strict: accepted iff lower-case tcp://host:port with non-empty host (no newline) and a decimal
    port 0..65535, or ipc://path with a non-empty path - nothing else *)
Theorem C19_strict : forall parse6 s e, parse_endpoint parse6 s = Some e <-> Accepts parse6 s e.
Proof. exact parse_iff_accepts. Qed.
Print Assumptions C19_strict.

(** round trip through the text form *)
Theorem C19_roundtrip : forall parse6 fmt6, ip6_chars_law parse6 -> ip6_print_law parse6 fmt6 ->
  forall s e, parse_endpoint parse6 s = Some e -> parse_endpoint parse6 (fmt_endpoint fmt6 e) = Some e.
Proof. exact roundtrip. Qed.
Print Assumptions C19_roundtrip.

(** literals are addresses, never domain names *)
Theorem C19_ipv4_literal : forall parse6 h ip, parse4 h = Some ip -> parse_host parse6 h = Some ip.
Proof. exact ipv4_literal_is_address. Qed.
Print Assumptions C19_ipv4_literal.

Theorem C19_ipv6_literal_bare : forall parse6, ip6_chars_law parse6 ->
  forall h g, parse6 h = Some g -> parse_host parse6 h = Some (HIp6 g).
Proof. exact ipv6_literal_bare. Qed.
Print Assumptions C19_ipv6_literal_bare.

Theorem C19_ipv6_literal_bracketed : forall parse6, ip6_chars_law parse6 ->
  forall h g, parse6 h = Some g -> parse_host parse6 ([ch_lbr] ++ h ++ [ch_rbr]) = Some (HIp6 g).
Proof. exact ipv6_literal_bracketed. Qed.
Print Assumptions C19_ipv6_literal_bracketed.

Theorem C19_port_text : forall n, n <= 65535 -> dec_val (dec_str n) = n.
Proof. exact dec_val_dec_str. Qed.
Print Assumptions C19_port_text.
