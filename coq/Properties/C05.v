(** C05 - Receive delivers each peer's messages exactly once, whole and in order.  Property theorems only.
    Fair-queue level: for EVERY interleaving of the receiver's critical sections with wakes, inserts,
    removes and arrivals (labels of Model/FairQueue.v), with no assumption on the environment. *)
From ZV Require Import Base.Bytes Base.Res Model.Codec Model.FairQueue Proofs.FairQueueProofs Proofs.Decoder Proofs.CodecRoundtrip Spec.Stream.
From ZV Require Model.World Proofs.WorldStreamDefs Proofs.WorldStream Proofs.CodecEnc Proofs.WorldWire.

(** everything a stream yielded has been returned exactly once, in the stream's order; nothing is
    lost, duplicated or reordered, whatever the schedule *)
Theorem C05_fq_exactly_once_in_order : forall b ls q es k,
  run (fq0 b) ls = (q, es) ->
  delivered k es ++ in_flight q k ++ s_items (the_src q k) = arrived k ls.
Proof. exact fq_exactly_once_in_order. Qed.
Print Assumptions C05_fq_exactly_once_in_order.

(** a registered stream that was never removed and never ended is still in the queue (or being polled) *)
Theorem C05_fq_no_stream_lost : forall b ls q es k, run (fq0 b) ls = (q, es) ->
  In (LInsert k) ls -> ~ In (LRemove k) ls -> ~ In (LClose k) ls ->
  In k (f_streams q) \/ checked_out q = Some k.
Proof. exact fq_no_stream_lost. Qed.
Print Assumptions C05_fq_no_stream_lost.

(** per connection, what is handed to the queue is the declarative reading of the connection's byte
    stream (whole multipart messages, frame boundaries preserved), for every chunking: C02 *)
Theorem C05_stream_items_are_spec : forall chunks, lib_items chunks false = spec_items (concat chunks).
Proof. exact Proofs.CodecRoundtrip.chunks_eq_spec. Qed.
Print Assumptions C05_stream_items_are_spec.

(** the same at the level of the whole socket model (Model/World.v: byte-accurate connections, decoder,
    fair queue, disconnect on error), for the six socket types with a fair queue: whatever the
    interleaving of arrivals (any chunking), closes and recv calls, the items handed out for
    connection k are a prefix of the declarative reading of what k's peer wrote - in order, each once,
    nothing invented ... *)
Theorem C05_world_in_order_exactly_once : forall t cs es k,
  World.has_fq t = true -> NoDup cs -> In k cs ->
  WorldStreamDefs.is_prefix_of
    (WorldStreamDefs.outs_of k (fst (WorldStreamDefs.wrun (WorldStreamDefs.attached t cs) es)))
    (WorldStreamDefs.expected (WorldStreamDefs.chunks_of k es) (WorldStreamDefs.closed_of k es)).
Proof. exact WorldStream.world_stream_prefix. Qed.
Print Assumptions C05_world_in_order_exactly_once.

(** ... and nothing is lost: when a recv finds nothing to hand out, every connection has been read to
    the end of what its peer wrote so far *)
Theorem C05_world_nothing_lost : forall t cs es rs w,
  World.has_fq t = true -> NoDup cs ->
  WorldStreamDefs.wrun (WorldStreamDefs.attached t cs) (es ++ [WorldStreamDefs.WNext]) = (rs, w) -> last rs None = None ->
  forall k, In k cs -> WorldStreamDefs.outs_of k rs = WorldStreamDefs.expected (WorldStreamDefs.chunks_of k es) (WorldStreamDefs.closed_of k es).
Proof. exact WorldStream.world_stream_complete. Qed.
Print Assumptions C05_world_nothing_lost.

(** end to end over the wire (C01 + C02 + C10 composed with the above): what a PUSH or DEALER socket
    writes for a sequence of messages ... *)
Theorem C05_wire_sender : forall t k ms,
  t = PUSH \/ t = DEALER ->
  World.run (World.world0 t) (World.OAttach k None :: map World.OSend ms ++ [World.OWire k]) =
  World.BAtt k None :: repeat World.BSendOk (length ms) ++ [World.BWire k (concat (map encode_frames ms))].
Proof. exact WorldWire.push_writes_encodings. Qed.
Print Assumptions C05_wire_sender.

(** ... arriving in ANY chunks, comes out of a PULL or DEALER socket's recv as exactly those messages,
    whole and in order, and one more recv finds nothing; a ROUTER labels each with the sender *)
Theorem C05_wire_receiver : forall t k ms chunks,
  t = PULL \/ t = DEALER ->
  Forall CodecEnc.wf_msg ms -> concat chunks = concat (map encode_frames ms) ->
  World.run (World.world0 t) (World.OAttach k None :: map (World.OFeed k) chunks ++ repeat World.ORecv (S (length ms))) =
  World.BAtt k None :: map (World.BRecv None) ms ++ [World.BRecvPending].
Proof. exact WorldWire.pull_reads_messages. Qed.
Print Assumptions C05_wire_receiver.

Theorem C05_wire_receiver_router : forall k ms chunks,
  Forall CodecEnc.wf_msg ms -> concat chunks = concat (map encode_frames ms) ->
  World.run (World.world0 ROUTER) (World.OAttach k None :: map (World.OFeed k) chunks ++ repeat World.ORecv (S (length ms))) =
  World.BAtt k None :: map (World.BRecv (Some k)) ms ++ [World.BRecvPending].
Proof. exact WorldWire.router_reads_labelled_messages. Qed.
Print Assumptions C05_wire_receiver_router.
