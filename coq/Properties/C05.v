(** C05 - Receive delivers each peer's messages exactly once, whole and in order.  Property theorems only.
    Fair-queue level: for EVERY interleaving of the receiver's critical sections with wakes, inserts,
    removes and arrivals (labels of Model/FairQueue.v), with no assumption on the environment. *)
From ZV Require Import Base.Bytes Base.Res Model.Codec Model.FairQueue Proofs.FairQueueProofs Proofs.Decoder Proofs.CodecRoundtrip Spec.Stream.

(** everything a stream yielded has been returned exactly once, in the stream's order; nothing is
    lost, duplicated or reordered, whatever the schedule *)
Theorem C05_fq_exactly_once_in_order : forall b ls q es k,
  run (fq0 b) ls = (q, es) ->
  delivered k es ++ in_flight q k ++ s_items (the_src q k) = arrived k ls.
Proof. exact fq_exactly_once_in_order. Qed.
Print Assumptions C05_fq_exactly_once_in_order.

(** a registered stream that was never removed and never ended is still in the queue (or being polled) *)
Theorem C05_fq_no_stream_lost : forall b ls q es k, run (fq0 b) ls = (q, es) ->
  In (LInsert k) ls -> ~ In (LRemove k) ls -> ~ In (LClose k) ls ->
  In k (f_streams q) \/ checked_out q = Some k.
Proof. exact fq_no_stream_lost. Qed.
Print Assumptions C05_fq_no_stream_lost.

(** per connection, what is handed to the queue is the declarative reading of the connection's byte
    stream (whole multipart messages, frame boundaries preserved), for every chunking: C02 *)
Theorem C05_stream_items_are_spec : forall chunks, lib_items chunks false = spec_items (concat chunks).
Proof. exact Proofs.CodecRoundtrip.chunks_eq_spec. Qed.
Print Assumptions C05_stream_items_are_spec.
