(** C12 - A slow subscriber never blocks the publisher or corrupts its own stream.  Property theorems only.
    For EVERY sequence of transport answers (accept k bytes, Ok(0), Pending, error). *)
From ZV Require Import Base.Bytes Base.Res Model.Codec Model.TrySend Proofs.TrySendProofs Model.PubFan Proofs.PubFanProofs.
From ZV Require Model.World.

Theorem C12_gen_hwm : Gen.hwm = 131072.
Proof. exact gen_hwm. Qed.
Print Assumptions C12_gen_hwm.

(** try_send is a total function of the sink and the finitely many answers it consumes: it has no
    suspended outcome (the result type is Ok | Full | Err | Eof).  What reaches the peer plus what is
    buffered grows by exactly the encoded message when it is accepted and not at all otherwise:
    only whole messages are ever dropped, bytes are never lost, duplicated or reordered *)
Theorem C12_stream_wellformed_step : forall s enc r s', try_send s enc = (r, s') ->
  k_written s' ++ k_buf s' = (k_written s ++ k_buf s) ++ (match r with TsOk => enc | _ => [] end).
Proof. exact try_send_stream. Qed.
Print Assumptions C12_stream_wellformed_step.

Theorem C12_stream_wellformed : forall encs s rs s', try_sends s encs = (rs, s') ->
  k_written s' ++ k_buf s' = (k_written s ++ k_buf s) ++ concat (accepted rs encs).
Proof. exact try_sends_stream. Qed.
Print Assumptions C12_stream_wellformed.

(** memory held for the subscriber stays below the high-water mark plus one message *)
Theorem C12_bounded : forall encs M, Forall (fun e => lenN e <= M) encs -> forall s rs s',
  try_sends s encs = (rs, s') -> lenN (k_buf s) < Gen.hwm + M -> lenN (k_buf s') < Gen.hwm + M.
Proof. exact try_sends_bounded. Qed.
Print Assumptions C12_bounded.

(** a connection that accepts every write misses nothing and keeps nothing buffered *)
Theorem C12_accepting_misses_none : forall s enc, k_tr s = accepting -> k_buf s = [] -> lenN enc < 2 ^ 63 ->
  exists s', try_send s enc = (TsOk, s') /\ k_buf s' = [] /\ k_tr s' = accepting /\ k_written s' = k_written s ++ enc.
Proof. exact accepting_misses_none. Qed.
Print Assumptions C12_accepting_misses_none.

(** * The send loop of PUB / XPUB over one such sink per subscriber (Model/PubFan.v)

    [publish] is a total function of the subscriber table: it has no outcome in which it waits for a connection.
    In the run of the whole table every subscriber goes through exactly its own solo run ... *)
Theorem C12_fan_isolation : forall ops us k u, get k us = Some u ->
  get k (snd (frun us ops)) = Some (solo k u ops).
Proof. exact fan_isolation. Qed.
Print Assumptions C12_fan_isolation.

(** ... so delivery to a subscriber is unaffected by which other subscribers exist and by whatever their
    connections do (stall, accept k bytes, resume, break) *)
Theorem C12_fan_others_unaffected : forall ops1 ops2 us1 us2 k u,
  get k us1 = Some u -> get k us2 = Some u ->
  filter (concerns k) ops1 = filter (concerns k) ops2 ->
  get k (snd (frun us1 ops1)) = get k (snd (frun us2 ops2)).
Proof. exact fan_others_unaffected. Qed.
Print Assumptions C12_fan_others_unaffected.

(** what a wire tap of subscriber k shows at any point of any run is determined by k's solo run *)
Theorem C12_fan_wire_is_solo : forall pre us k u, get k us = Some u ->
  fst (fstep (snd (frun us pre)) (FWire k)) =
  [skipn (u_seen (solo k u pre)) (k_written (u_sink (solo k u pre)))].
Proof. exact fan_wire_is_solo. Qed.
Print Assumptions C12_fan_wire_is_solo.

(** what reaches a subscriber, or is still buffered for it, is a concatenation of whole encoded messages forming an
    order-preserving subsequence of the messages offered to it (those that matched one of its subscriptions when
    they were published) *)
Theorem C12_fan_stream_subsequence : forall ops k u, exists acc,
  subseq acc (offered k u ops) /\
  stream (solo k u ops) = stream u ++ concat (map encode_frames acc).
Proof. exact fan_stream_subsequence. Qed.
Print Assumptions C12_fan_stream_subsequence.

Theorem C12_fan_offered_sub_matching : forall ops k u, (forall m, ~ In (FSub k m) ops) ->
  subseq (offered k u ops) (matching (u_subs u) (published ops)).
Proof. exact offered_sub_matching. Qed.
Print Assumptions C12_fan_offered_sub_matching.

(** bytes already on a connection are never taken back *)
Theorem C12_fan_written_grows : forall ops k u, exists ext,
  k_written (u_sink (solo k u ops)) = k_written (u_sink u) ++ ext.
Proof. exact fan_written_grows. Qed.
Print Assumptions C12_fan_written_grows.

Theorem C12_fan_bounded : forall ops k u M,
  (forall m, In (FPublish m) ops -> lenN (encode_frames m) <= M) ->
  lenN (k_buf (u_sink u)) < Gen.hwm + M ->
  lenN (k_buf (u_sink (solo k u ops))) < Gen.hwm + M.
Proof. exact fan_bounded. Qed.
Print Assumptions C12_fan_bounded.

(** a subscriber whose connection accepts every write misses none of the matching messages *)
Theorem C12_fan_accepting_misses_none : forall ops k u,
  u_live u = true -> k_tr (u_sink u) = accepting -> k_buf (u_sink u) = [] ->
  (forall o, In o ops -> match o with FSub j _ | FMode j _ | FPlan j _ => j <> k | _ => True end) ->
  (forall m, In (FPublish m) ops -> lenN (encode_frames m) < 2 ^ 63) ->
  let u' := solo k u ops in
  k_written (u_sink u') = k_written (u_sink u) ++ concat (map encode_frames (matching (u_subs u) (published ops))) /\
  k_buf (u_sink u') = [] /\ u_live u' = true.
Proof. exact fan_accepting_misses_none. Qed.
Print Assumptions C12_fan_accepting_misses_none.

(** a refused offer (full buffer, write error) leaves the subscriber's stream untouched: whole messages are dropped *)
Theorem C12_fan_refused_keeps_stream : forall u m s r, m <> [] ->
  try_send (u_sink u) (encode_frames m) = (r, s) -> r <> TsOk ->
  stream (offer u m) = stream u.
Proof. exact offer_refused_keeps_stream. Qed.
Print Assumptions C12_fan_refused_keeps_stream.

(** a subscriber removed after a broken pipe is sent nothing more *)
Theorem C12_fan_dead_gets_nothing : forall ops k u, u_live u = false ->
  stream (solo k u ops) = stream u /\ u_live (solo k u ops) = false.
Proof. exact fan_dead_gets_nothing. Qed.
Print Assumptions C12_fan_dead_gets_nothing.

(** over connections that accept every write the fan-out coincides with the publish of the socket model (World) *)
Theorem C12_fan_refines_world_publish : forall (w : World.world) us m k c u,
  NoDup (World.w_peers w) -> In k (World.w_peers w) ->
  World.get_conn k (World.w_conns w) = Some c -> get k us = Some u ->
  u_live u = true -> u_subs u = World.c_subs c ->
  k_tr (u_sink u) = accepting -> k_buf (u_sink u) = [] -> lenN (encode_frames m) < 2 ^ 63 ->
  exists c' u' delta,
    World.get_conn k (World.w_conns (World.publish w m)) = Some c' /\
    get k (publish us m) = Some u' /\
    World.c_wire c' = World.c_wire c ++ delta /\
    k_written (u_sink u') = k_written (u_sink u) ++ delta /\
    k_buf (u_sink u') = [] /\ k_tr (u_sink u') = accepting /\ u_live u' = true /\
    World.c_subs c' = World.c_subs c /\ u_subs u' = u_subs u.
Proof. exact fan_refines_world_publish. Qed.
Print Assumptions C12_fan_refines_world_publish.
