(** C12 - A slow subscriber never blocks the publisher or corrupts its own stream.  Property theorems only.
    For EVERY sequence of transport answers (accept k bytes, Ok(0), Pending, error). *)
From ZV Require Import Base.Bytes Base.Res Model.Codec Model.TrySend Proofs.TrySendProofs.

Theorem C12_gen_hwm : Gen.hwm = 131072.
Proof. exact gen_hwm. Qed.
Print Assumptions C12_gen_hwm.

(** try_send is a total function of the sink and the finitely many answers it consumes: it has no
    suspended outcome (the result type is Ok | Full | Err | Eof).  What reaches the peer plus what is
    buffered grows by exactly the encoded message when it is accepted and not at all otherwise:
    only whole messages are ever dropped, bytes are never lost, duplicated or reordered *)
Theorem C12_stream_wellformed_step : forall s enc r s', try_send s enc = (r, s') ->
  k_written s' ++ k_buf s' = (k_written s ++ k_buf s) ++ (match r with TsOk => enc | _ => [] end).
Proof. exact try_send_stream. Qed.
Print Assumptions C12_stream_wellformed_step.

Theorem C12_stream_wellformed : forall encs s rs s', try_sends s encs = (rs, s') ->
  k_written s' ++ k_buf s' = (k_written s ++ k_buf s) ++ concat (accepted rs encs).
Proof. exact try_sends_stream. Qed.
Print Assumptions C12_stream_wellformed.

(** memory held for the subscriber stays below the high-water mark plus one message *)
Theorem C12_bounded : forall encs M, Forall (fun e => lenN e <= M) encs -> forall s rs s',
  try_sends s encs = (rs, s') -> lenN (k_buf s) < Gen.hwm + M -> lenN (k_buf s') < Gen.hwm + M.
Proof. exact try_sends_bounded. Qed.
Print Assumptions C12_bounded.

(** a connection that accepts every write misses nothing and keeps nothing buffered *)
Theorem C12_accepting_misses_none : forall s enc, k_tr s = accepting -> k_buf s = [] -> lenN enc < 2 ^ 63 ->
  exists s', try_send s enc = (TsOk, s') /\ k_buf s' = [] /\ k_tr s' = accepting /\ k_written s' = k_written s ++ enc.
Proof. exact accepting_misses_none. Qed.
Print Assumptions C12_accepting_misses_none.
