(** Model of endpoint parsing and printing: src/endpoint/{mod,host,transport}.rs.
    Strings are lists of Unicode scalar values.  The two regular expressions are modelled by their
    meaning (see DESIGN 4 C19):
      ^([[:lower:]]+)://(.+)$   maximal run of a-z (>= 1) immediately followed by "://", rest non-empty, no '\n'
      ^(.+):(\d+)$              split at the LAST ':', left part non-empty, right part non-empty digits
    IPv6 text form is std::net's: it enters as the Section variables [parse6] / [fmt6]. *)
From ZV Require Import Base.Bytes.

Definition str := list N.

Definition ch_colon : N := 58.   Definition ch_slash : N := 47.   Definition ch_dot : N := 46.
Definition ch_lbr : N := 91.     Definition ch_rbr : N := 93.     Definition ch_nl : N := 10.

Definition is_lower (c : N) : bool := (97 <=? c) && (c <=? 122).
Definition is_adigit (c : N) : bool := (48 <=? c) && (c <=? 57).

Fixpoint str_eqb (a b : str) : bool :=
  match a, b with
  | [], [] => true
  | x :: a', y :: b' => (x =? y) && str_eqb a' b'
  | _, _ => false
  end.

(** bytes of the UTF-8 encoding of one scalar value (for [String::len]) *)
Definition utf8_len1 (c : N) : N := if c <? 128 then 1 else if c <? 2048 then 2 else if c <? 65536 then 3 else 4.
Definition utf8_len (s : str) : N := fold_right (fun c a => utf8_len1 c + a) 0 s.

(** maximal prefix satisfying p, and the rest *)
Fixpoint span (p : N -> bool) (s : str) : str * str :=
  match s with
  | c :: t => if p c then let '(a, b) := span p t in (c :: a, b) else ([], s)
  | [] => ([], [])
  end.

(** split at the last occurrence of c: (before, after) *)
Fixpoint split_last (c : N) (s : str) : option (str * str) :=
  match s with
  | [] => None
  | x :: t =>
    match split_last c t with
    | Some (a, b) => Some (x :: a, b)
    | None => if x =? c then Some ([], t) else None
    end
  end.

(** decimal value of a non-empty ASCII digit string (any number of leading zeros) *)
Definition dec_val (s : str) : N := fold_left (fun a c => a * 10 + (c - 48)) s 0.

Inductive host := HIp4 (a b c d : N) | HIp6 (g : list N) | HDomain (s : str).
Inductive endpoint := ETcp (h : host) (port : N) | EIpc (path : str).

(** Ipv4Addr::from_str: four groups of 1-3 digits, no leading zero unless the group is "0", each <= 255 *)
Definition octet (s : str) : option N :=
  match s with
  | [] => None
  | c :: t =>
    if negb (forallb is_adigit s) || (3 <? lenN s) then None
    else if (c =? 48) && negb (match t with [] => true | _ => false end) then None
    else let v := dec_val s in if v <=? 255 then Some v else None
  end.

Fixpoint split_on (c : N) (s : str) : list str :=
  match s with
  | [] => [[]]
  | x :: t =>
    match split_on c t with
    | cur :: rest => if x =? c then [] :: cur :: rest else (x :: cur) :: rest
    | [] => [[x]]
    end
  end.

Definition parse4 (s : str) : option host :=
  match split_on ch_dot s with
  | [a; b; c; d] =>
    match octet a, octet b, octet c, octet d with
    | Some a', Some b', Some c', Some d' => Some (HIp4 a' b' c' d')
    | _, _, _, _ => None
    end
  | _ => None
  end.

Fixpoint dec_str_fuel (fuel : nat) (n : N) (acc : str) : str :=
  match fuel with
  | O => acc
  | S f => let acc' := (48 + n mod 10) :: acc in if n / 10 =? 0 then acc' else dec_str_fuel f (n / 10) acc'
  end.
Definition dec_str (n : N) : str := dec_str_fuel 20 n [].

Section WithIpv6.
  (** std::net::Ipv6Addr text form: [parse6] = FromStr (None: not an IPv6 literal), result = the
      eight 16-bit groups; [fmt6] = Display *)
  Variable parse6 : str -> option (list N).
  Variable fmt6 : list N -> str.

  (** host.rs TryFrom<String> (the caller guarantees s <> "") *)
  Definition parse_host (s : str) : option host :=
    match s with
    | [] => None
    | c0 :: _ =>
      match parse4 s with
      | Some h => Some h
      | None =>
        let inner :=
          if (c0 =? ch_lbr) && (4 <=? utf8_len s) && (last s 0 =? ch_rbr)
          then removelast (tl s) else s in
        match parse6 inner with
        | Some g => Some (HIp6 g)
        | None => Some (HDomain s)
        end
      end
    end.

  Definition no_nl (s : str) : bool := forallb (fun c => negb (c =? ch_nl)) s.

  (** endpoint/mod.rs FromStr *)
  Definition parse_endpoint (s : str) : option endpoint :=
    let '(scheme, rest) := span is_lower s in
    match scheme, rest with
    | _ :: _, c1 :: c2 :: c3 :: addr =>
      if negb ((c1 =? ch_colon) && (c2 =? ch_slash) && (c3 =? ch_slash)) then None else
      if match addr with [] => true | _ => false end || negb (no_nl addr) then None else
      if str_eqb scheme [116; 99; 112] then            (* "tcp" *)
        match split_last ch_colon addr with
        | Some (h :: ht, p :: pt) =>
          if negb (forallb is_adigit (p :: pt)) then None else
          let v := dec_val (p :: pt) in
          if 65535 <? v then None else
          match parse_host (h :: ht) with
          | Some hst => Some (ETcp hst v)
          | None => None
          end
        | _ => None
        end
      else if str_eqb scheme [105; 112; 99] then       (* "ipc" *)
        Some (EIpc addr)
      else None
    | _, _ => None
    end.

  Definition fmt_host (h : host) : str :=
    match h with
    | HIp4 a b c d => dec_str a ++ [ch_dot] ++ dec_str b ++ [ch_dot] ++ dec_str c ++ [ch_dot] ++ dec_str d
    | HIp6 g => fmt6 g
    | HDomain s => s
    end.

  (** Display: IPv6 hosts are bracketed *)
  Definition fmt_endpoint (e : endpoint) : str :=
    match e with
    | ETcp h port =>
      [116; 99; 112; 58; 47; 47] ++
      (match h with HIp6 _ => [ch_lbr] ++ fmt_host h ++ [ch_rbr] | _ => fmt_host h end) ++
      [ch_colon] ++ dec_str port
    | EIpc p => [105; 112; 99; 58; 47; 47] ++ p
    end.
End WithIpv6.
