(** The other send paths over scripted connections (same peer table and framed writers as Model/RrSend.v):
    - [send_to]   ROUTER send (src/router.rs): the peer is named by the caller; a failed write forgets it;
    - [req_send]  REQ send (src/req.rs): round robin, the id goes back into the rotation BEFORE the write, a failed
                  write forgets the server (its stale id stays queued and is skipped later), one request at a time;
    - [bcast]     SUB subscribe / unsubscribe (src/sub.rs process_subs): every peer of the table gets the message,
                  a failure on one connection neither stops the loop nor removes the peer, the first error is reported. *)
From ZV Require Import Base.Bytes Base.Res Model.Codec Model.TrySend Model.RrSend.
From ZV Require Model.World.

(** * ROUTER *)
Definition send_to (st : rstate) (k : N) (m : World.msg) : rr_res * rstate :=
  match pget k (r_peers st) with
  | None => (RNoPeer, st)
  | Some p =>
    match sink_send (p_sink p) (encode_frames m) with
    | (FlOk, s) => (ROk k, {| r_peers := pset k s (r_peers st); r_rr := r_rr st; r_gone := r_gone st |})
    | (FlStall, s) => (RStall k, {| r_peers := pset k s (r_peers st); r_rr := r_rr st; r_gone := r_gone st |})
    | (e, s) => (RErr k e, {| r_peers := pdel k (r_peers st); r_rr := r_rr st;
                              r_gone := {| p_id := k; p_sink := s |} :: r_gone st |})
    end
  end.

(** * REQ *)
Record qstate := { q_base : rstate; q_cur : option N }.     (* the server that owes a reply *)

Inductive q_res := QSent (k : N) | QErr (k : N) (e : flush_res) | QNoPeer | QStall (k : N) | QBusy.

Fixpoint req_pick (fuel : nat) (st : rstate) (enc : bytes) : q_res * rstate :=
  match fuel with
  | O => (QNoPeer, st)
  | S f =>
    match r_rr st with
    | [] => (QNoPeer, st)
    | k :: rest =>
      match pget k (r_peers st) with
      | None => req_pick f {| r_peers := r_peers st; r_rr := rest; r_gone := r_gone st |} enc
      | Some p =>
        let rr' := rest ++ [k] in
        match sink_send (p_sink p) enc with
        | (FlOk, s) => (QSent k, {| r_peers := pset k s (r_peers st); r_rr := rr'; r_gone := r_gone st |})
        | (FlStall, s) => (QStall k, {| r_peers := pset k s (r_peers st); r_rr := rr'; r_gone := r_gone st |})
        | (e, s) => (QErr k e, {| r_peers := pdel k (r_peers st); r_rr := rr';
                                  r_gone := {| p_id := k; p_sink := s |} :: r_gone st |})
        end
      end
    end
  end.

Definition req_send (q : qstate) (m : World.msg) : q_res * qstate :=
  match q_cur q with
  | Some _ => (QBusy, q)
  | None =>
    let '(r, st) := req_pick (S (length (r_rr (q_base q)))) (q_base q) (encode_frames (World.req_wrap m)) in
    (r, {| q_base := st; q_cur := match r with QSent k => Some k | _ => None end |})
  end.

(** the reply has been received (or the recv failed): the socket owes nothing any more *)
Definition req_settled (q : qstate) : qstate := {| q_base := q_base q; q_cur := None |}.

(** * SUB *)
Inductive b_res := BOk | BFirstErr (k : N) (e : flush_res) | BStall (k : N).

Fixpoint bcast (ps : list rpeer) (enc : bytes) : list (N * flush_res) * list rpeer :=
  match ps with
  | [] => ([], [])
  | p :: t =>
    match sink_send (p_sink p) enc with
    | (FlStall, s) => ([(p_id p, FlStall)], {| p_id := p_id p; p_sink := s |} :: t)     (* the call never completes *)
    | (r, s) => let '(rs, t') := bcast t enc in ((p_id p, r) :: rs, {| p_id := p_id p; p_sink := s |} :: t')
    end
  end.

Fixpoint first_bad (rs : list (N * flush_res)) : b_res :=
  match rs with
  | [] => BOk
  | (k, FlOk) :: t => first_bad t
  | (k, FlStall) :: _ => BStall k
  | (k, e) :: t => match first_bad t with BStall j => BStall j | _ => BFirstErr k e end
  end.

Definition sub_msg (op : N) (t : bytes) : World.msg := [op :: t].

Record sstate := { s_peers : list rpeer; s_subs : list bytes }.

Inductive sop :=
| SAttach (k : N)                        (* a peer joins: the current set is replayed to it first *)
| SMode (k : N) (a : wr_ans)
| SPlan (k : N) (l : list wr_ans)
| SSub (t : bytes)
| SUnsub (t : bytes).

Definition has (t : bytes) (l : list bytes) : bool := existsb (bytes_eqb t) l.

Definition sstep (st : sstate) (o : sop) : option b_res * sstate :=
  match o with
  | SAttach k =>
    (* the joiner's connection accepts every write at this point (scripts are installed afterwards): the replay of the
       current set - one SUBSCRIBE message per topic - is on its wire when it is registered *)
    (None, {| s_peers := s_peers st ++ [{| p_id := k; p_sink :=
                {| k_buf := []; k_written := concat (map (fun t => encode_frames (sub_msg Gen.sub_op_sub t)) (s_subs st));
                   k_tr := accepting_tr |} |}];
              s_subs := s_subs st |})
  | SMode k a =>
    (None, {| s_peers := retr k (fun t => {| t_plan := t_plan t; t_dflt := a |}) (s_peers st); s_subs := s_subs st |})
  | SPlan k l =>
    (None, {| s_peers := retr k (fun t => {| t_plan := t_plan t ++ l; t_dflt := t_dflt t |}) (s_peers st); s_subs := s_subs st |})
  | SSub t =>
    if has t (s_subs st) then (Some BOk, st) else
    let '(rs, ps) := bcast (s_peers st) (encode_frames (sub_msg Gen.sub_op_sub t)) in
    (Some (first_bad rs), {| s_peers := ps; s_subs := s_subs st ++ [t] |})
  | SUnsub t =>
    if negb (has t (s_subs st)) then (Some BOk, st) else
    let '(rs, ps) := bcast (s_peers st) (encode_frames (sub_msg Gen.sub_op_unsub t)) in
    (Some (first_bad rs), {| s_peers := ps; s_subs := filter (fun x => negb (bytes_eqb x t)) (s_subs st) |})
  end.

Fixpoint srun (st : sstate) (ops : list sop) : list b_res * sstate :=
  match ops with
  | [] => ([], st)
  | o :: rest =>
    let '(r, st1) := sstep st o in
    let '(rs, st2) := srun st1 rest in
    ((match r with Some x => [x] | None => [] end) ++ rs, st2)
  end.

(** the wire messages of the updates the socket's set went through (what every peer must have been told) *)
Fixpoint updates (subs : list bytes) (ops : list sop) : list World.msg :=
  match ops with
  | [] => []
  | SSub t :: r => if has t subs then updates subs r else sub_msg Gen.sub_op_sub t :: updates (subs ++ [t]) r
  | SUnsub t :: r => if negb (has t subs) then updates subs r
                     else sub_msg Gen.sub_op_unsub t :: updates (filter (fun x => negb (bytes_eqb x t)) subs) r
  | _ :: r => updates subs r
  end.
