(** Model of the handshake decision logic: src/util.rs (negotiate_version, ready_exchange,
    PeerIdentity::try_from) and src/lib.rs (SocketType::compatible over COMPATIBILITY_MATRIX). *)
From ZV Require Import Base.Bytes Base.Res Model.Codec.

(** [COMPATIBILITY_MATRIX[row * stride + col] != 0]; indexing past the array panics *)
Definition compatible (a b : stype) : res bool :=
  match nth_error Gen.matrix (N.to_nat (stype_idx a * Gen.matrix_stride + stype_idx b)) with
  | Some v => Ok (negb (v =? 0))
  | None => Panic PIndex
  end.

(** tuple comparison [peer.version >= my_version] *)
Definition version_ge (a b c d : N) : bool := (c <? a) || ((a =? c) && (d <=? b)).

Definition negotiate (g : greeting) : res unit :=
  if version_ge (g_major g) (g_minor g) Gen.gr_default_major Gen.gr_default_minor then Ok tt
  else Err EUnsupportedVersion.

Inductive ident := IdAnnounced (b : bytes) | IdFresh.

(** [PeerIdentity::try_from(Bytes)] applied to the optional Identity property *)
Definition peer_identity (v : option bytes) : res ident :=
  match v with
  | None => Ok IdFresh
  | Some [] => Ok IdFresh
  | Some b => if Gen.max_id <? lenN b then Err EPeerIdentity else Ok (IdAnnounced b)
  end.

Fixpoint assoc (k : bytes) (l : list (bytes * bytes)) : option bytes :=
  match l with
  | [] => None
  | (k', v) :: t => if bytes_eqb k' k then Some v else assoc k t
  end.

(** the decision of [ready_exchange] on what the reader yields next *)
Definition ready_decision (local : stype) (o : option out) : res ident :=
  match o with
  | Some (OItem (ICommand props)) =>
    match assoc ascii_Socket_Type props with
    | None => Err EOther
    | Some s =>
      match stype_of_name s with
      | None => Err EOther
      | Some other =>
        match peer_identity (assoc ascii_Identity props) with
        | Err e => Err e
        | Panic p => Panic p
        | Ok id =>
          match compatible local other with
          | Ok true => Ok id
          | Ok false => Err EOther
          | Err e => Err e
          | Panic p => Panic p
          end
        end
      end
    end
  | Some (OItem _) => Err EOther
  | Some (OErr e) => Err e
  | Some (OPanic p) => Panic p
  | Some OEnd => Err EOther
  | None => Err EOther
  end.

Definition greet_decision (o : option out) : res unit :=
  match o with
  | Some (OItem (IGreeting g)) => negotiate g
  | Some (OItem _) => Err EOther
  | Some (OErr e) => Err e
  | Some (OPanic p) => Panic p
  | Some OEnd => Err EOther
  | None => Err EOther
  end.

Inductive admission := Accept (i : ident) | Reject (e : err) | Crash (p : site) | Incomplete.

(** the whole inbound side of [peer_connected] over the peer's byte stream (any chunking, by C02) *)
Definition handshake_verdict (local : stype) (chunks : list bytes) (eof : bool) : admission :=
  match lib_items chunks eof with
  | [] => Incomplete
  | o1 :: rest =>
    match greet_decision (Some o1) with
    | Err e => Reject e
    | Panic p => Crash p
    | Ok _ =>
      match rest with
      | [] => Incomplete
      | o2 :: _ =>
        match ready_decision local (Some o2) with
        | Ok i => Accept i
        | Err e => Reject e
        | Panic p => Crash p
        end
      end
    end
  end.

(** * Registration: what [backend.peer_connected] does to the socket's tables (all socket types:
    one table keyed by identity; round-robin queue and fair queue where the type has them). *)
Record tables := { t_peers : list bytes; t_rr : list bytes; t_fq : list bytes }.
Definition tables0 := {| t_peers := []; t_rr := []; t_fq := [] |}.

Fixpoint remove_key (k : bytes) (l : list bytes) : list bytes :=
  match l with [] => [] | x :: t => if bytes_eqb x k then remove_key k t else x :: remove_key k t end.

(** upsert into the peer table; push to the rotation (types that send round-robin); insert into the
    fair queue (types that receive) *)
Definition register (has_rr has_fq : bool) (k : bytes) (t : tables) : tables :=
  {| t_peers := remove_key k (t_peers t) ++ [k];
     t_rr := if has_rr then t_rr t ++ [k] else t_rr t;
     t_fq := if has_fq then remove_key k (t_fq t) ++ [k] else t_fq t |}.

Definition connection_event (has_rr has_fq : bool) (fresh : bytes) (a : admission) (t : tables) : tables :=
  match a with
  | Accept (IdAnnounced b) => register has_rr has_fq b t
  | Accept IdFresh => register has_rr has_fq fresh t
  | _ => t
  end.
