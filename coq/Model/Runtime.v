(** Thin models of the runtime-facing bookkeeping: the bind table against an OS oracle (C18), the
    accept loop with independent handshake tasks (C20), and what a socket owns, i.e. what keeps
    connections and listeners alive when it is closed or dropped (C17).
    The OS, tokio's scheduler and its I/O driver are NOT modelled: their answers are inputs. *)
From ZV Require Import Base.Bytes Base.Res Model.Codec Model.Handshake.

Definition memN (k : N) (l : list N) : bool := existsb (N.eqb k) l.
Definition delN (k : N) (l : list N) : list N := filter (fun x => negb (x =? k)) l.

(** * C18: bind / unbind (lib.rs Socket::bind / unbind, transport/{tcp,ipc}.rs begin_accept) *)
Record bstate := {
  b_table : list N;       (* keys of the socket's bind map (resolved endpoints) *)
  b_os : list N           (* endpoints the process is listening on because of this socket *)
}.
Definition bstate0 := {| b_table := []; b_os := [] |}.

Inductive bop :=
| BBind (os_answer : option N)   (* the OS either refuses, or listens on the resolved endpoint it names *)
| BBindBadText                   (* the text does not parse as an endpoint: nothing reaches the OS *)
| BUnbind (e : N).

Inductive bout := BOk (e : N) | BErrOs | BErrParse | BUnbound | BNoSuchBind.

Definition bstep (s : bstate) (o : bop) : bstate * bout :=
  match o with
  | BBind (Some e) =>
    (* listener created first, then the table entry: both or neither *)
    ({| b_table := delN e (b_table s) ++ [e]; b_os := delN e (b_os s) ++ [e] |}, BOk e)
  | BBind None => (s, BErrOs)
  | BBindBadText => (s, BErrParse)
  | BUnbind e =>
    if memN e (b_table s)
    then ({| b_table := delN e (b_table s); b_os := delN e (b_os s) |}, BUnbound)   (* stop and join the accept task *)
    else (s, BNoSuchBind)
  end.

Fixpoint brun (s : bstate) (ops : list bop) : bstate * list bout :=
  match ops with
  | [] => (s, [])
  | o :: t => let '(s1, x) := bstep s o in let '(s2, xs) := brun s1 t in (s2, x :: xs)
  end.

(** the OS never hands out an endpoint that is already being listened on *)
Fixpoint os_sane (s : bstate) (ops : list bop) : Prop :=
  match ops with
  | [] => True
  | o :: t => (match o with BBind (Some e) => memN e (b_os s) = false | _ => True end) /\ os_sane (fst (bstep s o)) t
  end.

(** * C20: accept loop and handshake tasks (transport accept loops, lib.rs bind callback, util.rs peer_connected) *)
Record hs_task := { h_id : N; h_chunks : list bytes; h_eof : bool; h_done : bool }.
Inductive mon_event := MAccepted (j : N) | MAcceptFailed (j : N).

Record aworld := {
  a_local : stype;
  a_stopped : bool;
  a_tasks : list hs_task;
  a_tables : tables;
  a_monitor : list mon_event;
  a_next : N
}.
Definition aworld0 (t : stype) : aworld :=
  {| a_local := t; a_stopped := false; a_tasks := []; a_tables := tables0; a_monitor := []; a_next := 0 |}.

Inductive aev :=
| ANewConn                        (* the listener accepts a connection and spawns its handshake task *)
| ABytes (j : N) (b : bytes)      (* connection j delivers bytes (any chunk) *)
| AClose (j : N)                  (* connection j is closed by the remote side *)
| ARun (j : N)                    (* the scheduler runs handshake task j *)
| AStop.                          (* the bind is stopped *)

Definition upd_task (f : hs_task -> hs_task) (j : N) (l : list hs_task) : list hs_task :=
  map (fun t => if h_id t =? j then f t else t) l.

Fixpoint find_task (j : N) (l : list hs_task) : option hs_task :=
  match l with [] => None | t :: r => if h_id t =? j then Some t else find_task j r end.

Definition astep (has_rr has_fq : bool) (w : aworld) (e : aev) : aworld :=
  match e with
  | ANewConn =>
    if a_stopped w then w else
    {| a_local := a_local w; a_stopped := false;
       a_tasks := a_tasks w ++ [{| h_id := a_next w; h_chunks := []; h_eof := false; h_done := false |}];
       a_tables := a_tables w; a_monitor := a_monitor w; a_next := a_next w + 1 |}
  | ABytes j b =>
    {| a_local := a_local w; a_stopped := a_stopped w;
       a_tasks := upd_task (fun t => if h_eof t then t else {| h_id := h_id t; h_chunks := h_chunks t ++ [b]; h_eof := false; h_done := h_done t |}) j (a_tasks w);
       a_tables := a_tables w; a_monitor := a_monitor w; a_next := a_next w |}
  | AClose j =>
    {| a_local := a_local w; a_stopped := a_stopped w;
       a_tasks := upd_task (fun t => {| h_id := h_id t; h_chunks := h_chunks t; h_eof := true; h_done := h_done t |}) j (a_tasks w);
       a_tables := a_tables w; a_monitor := a_monitor w; a_next := a_next w |}
  | ARun j =>
    match find_task j (a_tasks w) with
    | None => w
    | Some t =>
      if h_done t then w else
      match handshake_verdict (a_local w) (h_chunks t) (h_eof t) with
      | Incomplete => w
      | v =>
        {| a_local := a_local w; a_stopped := a_stopped w;
           a_tasks := upd_task (fun t => {| h_id := h_id t; h_chunks := h_chunks t; h_eof := h_eof t; h_done := true |}) j (a_tasks w);
           a_tables := connection_event has_rr has_fq [2000 + j] v (a_tables w);
           a_monitor := a_monitor w ++ [match v with Accept _ => MAccepted j | _ => MAcceptFailed j end];
           a_next := a_next w |}
      end
    end
  | AStop =>
    {| a_local := a_local w; a_stopped := true; a_tasks := a_tasks w; a_tables := a_tables w;
       a_monitor := a_monitor w; a_next := a_next w |}
  end.

Definition arun (has_rr has_fq : bool) (w : aworld) (es : list aev) : aworld := fold_left (astep has_rr has_fq) es w.

(** bytes and end-of-stream that connection j itself delivered *)
Fixpoint own_chunks (j : N) (es : list aev) : list bytes :=
  match es with
  | [] => []
  | ABytes j' b :: t => if j' =? j then b :: own_chunks j t else own_chunks j t
  | AClose j' :: t => if j' =? j then [] else own_chunks j t      (* nothing arrives after the close *)
  | _ :: t => own_chunks j t
  end.

(** * C17: what a socket owns *)
Record owned := {
  o_handle : bool;            (* the application still holds the socket value *)
  o_table : list N;           (* connections whose write half sits in the peer table *)
  o_queue : list N;           (* connections whose read half sits in the fair queue's stream map *)
  o_wakers : list N;          (* connections whose I/O registration holds a waker that points to the queue *)
  o_readers : list N;         (* PUB: connections whose read half is owned by a reader task (stopped through the table entry) *)
  o_binds : list N;           (* endpoints whose stop sender sits in the socket's bind map *)
  o_listeners : list N;       (* endpoints whose accept task is running (it owns the listener; IPC: and the path) *)
  o_handshakes : list N       (* connections owned by a handshake task that has not finished *)
}.

(** the queue object itself stays alive while the socket or any registered waker refers to it *)
Definition queue_alive (o : owned) : bool := o_handle o || negb (match o_wakers o with [] => true | _ => false end).

(** a connection is open iff some live owner still holds one of its halves *)
Definition conn_open (o : owned) (k : N) : bool :=
  memN k (o_table o) || (queue_alive o && memN k (o_queue o)) || memN k (o_readers o) || memN k (o_handshakes o).

Definition listening (o : owned) (e : N) : bool := memN e (o_listeners o).

(** Drop of the socket value (Drop impl -> backend.shutdown(); fields dropped) followed by the tasks
    noticing: accept tasks see their stop channel cancelled and drop the listener (IPC: unlink),
    reader tasks see theirs cancelled and end.  [clears_queue]: shutdown() clears the fair queue. *)
Definition drop_socket (clears_queue : bool) (o : owned) : owned :=
  {| o_handle := false;
     o_table := [];
     o_queue := if clears_queue then [] else o_queue o;
     o_wakers := if clears_queue then [] else o_wakers o;
     o_readers := [];
     o_binds := [];
     o_listeners := filter (fun e => negb (memN e (o_binds o))) (o_listeners o);
     o_handshakes := o_handshakes o |}.

(** close() = unbind_all (stop and JOIN every accept task, collecting errors) and then the drop *)
Definition close_socket (clears_queue : bool) (o : owned) : owned := drop_socket clears_queue o.

(** states the library can be in: every running accept task has its stop sender in the bind map *)
Definition owned_ok (o : owned) : Prop := forall e, memN e (o_listeners o) = true -> memN e (o_binds o) = true.
