(** Model of the PUB / XPUB send loop (src/pub.rs, src/xpub.rs: [send]) over one [TrySend] sink per
    subscriber: the fan-out of a published message under per-connection back-pressure.

    [World.publish] models the same loop over connections that accept every write; here every subscriber
    connection answers each poll_write from its own script (Model/TrySend.v), so the drop path
    (BufferFull), partial flushes, resume after a stall and the BrokenPipe path are inside the model. *)
From ZV Require Import Base.Bytes Base.Res Model.Codec Model.TrySend.
From ZV Require Model.World.

Definition broken_pipe : N := 1.          (* io::ErrorKind::BrokenPipe in the numbering of the harness *)

Record subscriber := {
  u_id : N;
  u_subs : list bytes;        (* this subscriber's subscriptions, in arrival order *)
  u_sink : sink;              (* its framed writer: buffer, bytes written so far, transport script *)
  u_live : bool;              (* still in the subscriber table (false after peer_disconnected) *)
  u_seen : nat                (* bytes of k_written already reported by a wire observation *)
}.

Definition u_with_sink (u : subscriber) (s : sink) : subscriber :=
  {| u_id := u_id u; u_subs := u_subs u; u_sink := s; u_live := u_live u; u_seen := u_seen u |}.
Definition u_with_subs (u : subscriber) (l : list bytes) : subscriber :=
  {| u_id := u_id u; u_subs := l; u_sink := u_sink u; u_live := u_live u; u_seen := u_seen u |}.
Definition u_dead (u : subscriber) (s : sink) : subscriber :=
  {| u_id := u_id u; u_subs := u_subs u; u_sink := s; u_live := false; u_seen := u_seen u |}.
Definition u_with_seen (u : subscriber) (n : nat) : subscriber :=
  {| u_id := u_id u; u_subs := u_subs u; u_sink := u_sink u; u_live := u_live u; u_seen := n |}.

Definition subscriber0 (k : N) : subscriber :=
  {| u_id := k; u_subs := []; u_sink := sink0 {| t_plan := []; t_dflt := Wrote (2 ^ 63) |}; u_live := true; u_seen := 0 |}.

(** what the send loop does with one subscriber: at most one try_send (the first matching filter, then break) *)
Definition offer (u : subscriber) (m : World.msg) : subscriber :=
  match m with
  | [] => u
  | first :: _ =>
    if u_live u && World.matches (u_subs u) first then
      match try_send (u_sink u) (encode_frames m) with
      | (TsOk, s) => u_with_sink u s
      | (TsFull, s) => u_with_sink u s                               (* silently dropped for this subscriber *)
      | (TsErr e, s) => if e =? broken_pipe then u_dead u s else u_with_sink u s   (* dead peer / logged *)
      | (TsEof, s) => u_with_sink u s                                (* WriteZero: an Io error, logged *)
      end
    else u
  end.

(** send returns Ok(()) whatever the subscribers' connections do: it is a total function of the table *)
Definition publish (us : list subscriber) (m : World.msg) : list subscriber := map (fun u => offer u m) us.

Inductive fop :=
| FAttach (k : N)
| FSub (k : N) (m : World.msg)             (* a message of subscriber k reaches the publisher (reader task / XPUB recv) *)
| FMode (k : N) (a : wr_ans)               (* the connection's standing answer changes *)
| FPlan (k : N) (l : list wr_ans)          (* scripted answers are queued in front of the standing one *)
| FPublish (m : World.msg)
| FWire (k : N).

Fixpoint upd (k : N) (f : subscriber -> subscriber) (us : list subscriber) : list subscriber :=
  match us with
  | [] => []
  | u :: t => if u_id u =? k then f u :: t else u :: upd k f t
  end.
Fixpoint get (k : N) (us : list subscriber) : option subscriber :=
  match us with
  | [] => None
  | u :: t => if u_id u =? k then Some u else get k t
  end.

Definition set_mode (a : wr_ans) (u : subscriber) : subscriber :=
  u_with_sink u {| k_buf := k_buf (u_sink u); k_written := k_written (u_sink u);
                   k_tr := {| t_plan := t_plan (k_tr (u_sink u)); t_dflt := a |} |}.
Definition add_plan (l : list wr_ans) (u : subscriber) : subscriber :=
  u_with_sink u {| k_buf := k_buf (u_sink u); k_written := k_written (u_sink u);
                   k_tr := {| t_plan := t_plan (k_tr (u_sink u)) ++ l; t_dflt := t_dflt (k_tr (u_sink u)) |} |}.
Definition on_sub (m : World.msg) (u : subscriber) : subscriber :=
  if u_live u then u_with_subs u (World.on_sub_msg (u_subs u) m) else u.

Definition fstep (us : list subscriber) (o : fop) : list bytes * list subscriber :=
  match o with
  | FAttach k => ([], match get k us with Some _ => us | None => us ++ [subscriber0 k] end)
  | FSub k m => ([], upd k (on_sub m) us)
  | FMode k a => ([], upd k (set_mode a) us)
  | FPlan k l => ([], upd k (add_plan l) us)
  | FPublish m => ([], publish us m)
  | FWire k =>
    match get k us with
    | Some u => ([skipn (u_seen u) (k_written (u_sink u))],
                 upd k (fun u => u_with_seen u (length (k_written (u_sink u)))) us)
    | None => ([[]], us)
    end
  end.

Fixpoint frun (us : list subscriber) (ops : list fop) : list bytes * list subscriber :=
  match ops with
  | [] => ([], us)
  | o :: rest => let '(b, us1) := fstep us o in let '(bs, us2) := frun us1 rest in (b ++ bs, us2)
  end.

(** the run of ONE subscriber on its own: everything in [ops] that concerns k, nothing else *)
Definition solo_step (k : N) (u : subscriber) (o : fop) : subscriber :=
  match o with
  | FAttach _ => u
  | FSub j m => if j =? k then on_sub m u else u
  | FMode j a => if j =? k then set_mode a u else u
  | FPlan j l => if j =? k then add_plan l u else u
  | FPublish m => offer u m
  | FWire j => if j =? k then u_with_seen u (length (k_written (u_sink u))) else u
  end.
Definition solo (k : N) (u : subscriber) (ops : list fop) : subscriber := fold_left (solo_step k) ops u.

(** the messages offered to a subscriber whose subscription list is [subs] throughout *)
Definition matching (subs : list bytes) (ms : list World.msg) : list World.msg :=
  filter (fun m => match m with [] => false | first :: _ => World.matches subs first end) ms.
