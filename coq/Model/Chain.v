(** Message-level model of the REQ - ROUTER/DEALER proxy - REP chain (C15, second sentence; C08):
    n REQ clients connected to the proxy's ROUTER frontend, the proxy forwarding verbatim to its
    DEALER backend, m REP workers connected to it.

    Each socket's behaviour is the World model's: REQ wraps / unwraps with [req_wrap] /
    [req_unwrap] and keeps one outstanding request (World.step, REQ); ROUTER labels an inbound
    message with the sender's identity and routes an outbound one by its first frame (World.step,
    ROUTER: C09 theorems); DEALER sends round-robin and passes frames through (World.send_rr: C10);
    REP splits the envelope with [rep_split] and prepends it again with [rep_wrap] (C07); the proxy
    forwards what it receives verbatim (Model/Proxy.v: C15_forward_exact).  Connections are FIFO
    queues of whole messages (C05: per connection exactly once, whole, in order).

    Which client speaks, which connection the fair queue serves next, which worker runs: all chosen
    by the event sequence - the theorems quantify over every sequence.  No proofs here. *)
From ZV Require Import Base.Bytes Base.Res Model.Codec Model.World.

Record client := {
  cl_id : bytes;              (* identity under which the ROUTER knows this client *)
  cl_sent : list msg;         (* requests accepted by REQ.send so far (history) *)
  cl_out : bool;              (* a request is outstanding (REQ's current_request is set) *)
  cl_got : list msg;          (* replies returned by REQ.recv so far (history) *)
  cl_up : list msg;           (* messages written by the REQ socket, not yet received by the ROUTER *)
  cl_down : list msg          (* messages written by the ROUTER to this client, not yet received *)
}.

Record worker := {
  wk_in : list msg;           (* written by the DEALER to this worker, not yet received by its REP socket *)
  wk_out : list msg;          (* written by the REP socket, not yet received by the DEALER *)
  wk_served : list msg        (* request payloads the application behind the REP socket was handed (history) *)
}.

Record chain := {
  ch_clients : list client;
  ch_workers : list worker;
  ch_rr : list nat;           (* the DEALER's rotation of worker indices *)
  ch_lost : list msg          (* messages the chain could not deliver (unknown identity, malformed): must stay empty *)
}.

Inductive cev :=
| CReq (c : nat) (p : msg)    (* application of client c calls send(p) *)
| CFront (c : nat)            (* the ROUTER's fair queue yields client c's next message; the proxy forwards it to the DEALER *)
| CServe (w : nat)            (* worker w: recv, compute the reply, send it *)
| CBack (w : nat)             (* the DEALER's fair queue yields worker w's next message; the proxy forwards it to the ROUTER *)
| CRecv (c : nat).            (* application of client c calls recv() *)

Fixpoint upd {A} (i : nat) (f : A -> A) (l : list A) : list A :=
  match l, i with
  | [], _ => []
  | x :: t, O => f x :: t
  | x :: t, S j => x :: upd j f t
  end.

Definition set_client (c : client) sent out got up down : client :=
  {| cl_id := cl_id c; cl_sent := sent; cl_out := out; cl_got := got; cl_up := up; cl_down := down |}.

Definition with_clients (s : chain) cls := {| ch_clients := cls; ch_workers := ch_workers s; ch_rr := ch_rr s; ch_lost := ch_lost s |}.
Definition with_workers (s : chain) wks rr := {| ch_clients := ch_clients s; ch_workers := wks; ch_rr := rr; ch_lost := ch_lost s |}.
Definition lose (s : chain) (m : msg) := {| ch_clients := ch_clients s; ch_workers := ch_workers s; ch_rr := ch_rr s; ch_lost := ch_lost s ++ [m] |}.

(** index of the client the ROUTER's peer table has under identity [id] *)
Fixpoint find_client (id : bytes) (l : list client) : option nat :=
  match l with
  | [] => None
  | c :: t => if bytes_eqb (cl_id c) id then Some O else match find_client id t with Some i => Some (S i) | None => None end
  end.

Section Reply.
(** what the application behind a REP socket answers to a request *)
Variable reply : msg -> msg.

Definition cstep (s : chain) (e : cev) : chain :=
  match e with
  | CReq c p =>
    match nth_error (ch_clients s) c with
    | Some cl =>
      if cl_out cl then s                                        (* REQ refuses: one outstanding request (C08) *)
      else with_clients s (upd c (fun cl => set_client cl (cl_sent cl ++ [p]) true (cl_got cl) (cl_up cl ++ [req_wrap p]) (cl_down cl)) (ch_clients s))
    | None => s
    end
  | CFront c =>
    match nth_error (ch_clients s) c with
    | Some cl =>
      match cl_up cl with
      | [] => s
      | m :: up' =>
        let s1 := with_clients s (upd c (fun cl => set_client cl (cl_sent cl) (cl_out cl) (cl_got cl) up' (cl_down cl)) (ch_clients s)) in
        let fwd := cl_id cl :: m in                              (* ROUTER.recv labels; proxy forwards verbatim *)
        match ch_rr s1 with                                      (* DEALER.send: head of the rotation, moved to the tail *)
        | [] => lose s1 fwd
        | w :: rest => with_workers s1 (upd w (fun wk => {| wk_in := wk_in wk ++ [fwd]; wk_out := wk_out wk; wk_served := wk_served wk |}) (ch_workers s1)) (rest ++ [w])
        end
      end
    | None => s
    end
  | CServe w =>
    match nth_error (ch_workers s) w with
    | Some wk =>
      match wk_in wk with
      | [] => s
      | m :: in' =>
        match rep_split m with
        | Ok (env, data) =>
          with_workers s (upd w (fun wk => {| wk_in := in'; wk_out := wk_out wk ++ [rep_wrap (Some env) (reply data)]; wk_served := wk_served wk ++ [data] |}) (ch_workers s)) (ch_rr s)
        | _ =>
          lose (with_workers s (upd w (fun wk => {| wk_in := in'; wk_out := wk_out wk; wk_served := wk_served wk |}) (ch_workers s)) (ch_rr s)) m
        end
      end
    | None => s
    end
  | CBack w =>
    match nth_error (ch_workers s) w with
    | Some wk =>
      match wk_out wk with
      | [] => s
      | m :: out' =>
        let s1 := with_workers s (upd w (fun wk => {| wk_in := wk_in wk; wk_out := out'; wk_served := wk_served wk |}) (ch_workers s)) (ch_rr s) in
        match m with                                             (* DEALER.recv passes through; ROUTER.send routes by the first frame *)
        | id :: rest =>
          match find_client id (ch_clients s1) with
          | Some c => with_clients s1 (upd c (fun cl => set_client cl (cl_sent cl) (cl_out cl) (cl_got cl) (cl_up cl) (cl_down cl ++ [rest])) (ch_clients s1))
          | None => lose s1 m
          end
        | [] => lose s1 m
        end
      end
    | None => s
    end
  | CRecv c =>
    match nth_error (ch_clients s) c with
    | Some cl =>
      if negb (cl_out cl) then s else                            (* REQ.recv without a request: error, nothing changes (C08) *)
      match cl_down cl with
      | [] => s                                                  (* pending *)
      | m :: down' =>
        match req_unwrap m with
        | Ok r => with_clients s (upd c (fun cl => set_client cl (cl_sent cl) false (cl_got cl ++ [r]) (cl_up cl) down') (ch_clients s))
        | _ => lose (with_clients s (upd c (fun cl => set_client cl (cl_sent cl) false (cl_got cl) (cl_up cl) down') (ch_clients s))) m
        end
      end
    | None => s
    end
  end.

Definition crun (s : chain) (es : list cev) : chain := fold_left cstep es s.

End Reply.

Definition client0 (id : bytes) : client :=
  {| cl_id := id; cl_sent := []; cl_out := false; cl_got := []; cl_up := []; cl_down := [] |}.
Definition worker0 : worker := {| wk_in := []; wk_out := []; wk_served := [] |}.
Definition chain0 (ids : list bytes) (m : nat) : chain :=
  {| ch_clients := map client0 ids; ch_workers := repeat worker0 m; ch_rr := seq 0 m; ch_lost := [] |}.

(** nothing is in flight anywhere *)
Definition quiescent (s : chain) : bool :=
  forallb (fun cl => is_nil (cl_up cl) && is_nil (cl_down cl)) (ch_clients s) &&
  forallb (fun wk => is_nil (wk_in wk) && is_nil (wk_out wk)) (ch_workers s).
