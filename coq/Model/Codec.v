(** Executable model of src/codec/{zmq_codec,command,greeting,mechanism}.rs and of the
    asynchronous-codec FramedRead2 poll loop.  Constants come from Gen.Src (regenerated from the
    source on every run).  No proofs here. *)
From ZV Require Export Base.Res.
From ZV Require Gen.Src.
Module Gen := ZV.Gen.Src.

(** * Items *)
Inductive mech := MNull | MPlain | MCurve.
Record greeting := { g_major : N; g_minor : N; g_mech : mech; g_server : bool }.
Inductive item :=
| IGreeting (g : greeting)
| ICommand (props : list (bytes * bytes))      (* the only command name is READY *)
| IMessage (m : list bytes).

Definition mech_name (m : mech) : bytes :=
  match m with MNull => ascii_NULL | MPlain => ascii_PLAIN | MCurve => ascii_CURVE end.

(** * Encoders (zmq_codec.rs encode_frame / encode; command.rs From<ZmqCommand>; greeting.rs From<ZmqGreeting>) *)
Definition frame_flags (more : bool) (len : N) : N :=
  let f0 := if more then N.lor 0 Gen.enc_flag_more else 0 in
  if Gen.enc_short_max <? len then N.lor f0 Gen.enc_flag_long else f0.

Definition frame_hdr (more : bool) (len : N) : bytes :=
  frame_flags more len ::
  (if Gen.enc_short_max2 <? len then be (N.to_nat Gen.enc_long_width) len
   else be (N.to_nat Gen.enc_short_width) len).

Definition encode_frame (more : bool) (f : bytes) : bytes := frame_hdr more (lenN f) ++ f.

Fixpoint encode_frames (m : list bytes) : bytes :=
  match m with
  | [] => []
  | [f] => encode_frame false f
  | f :: rest => encode_frame true f ++ encode_frames rest
  end.

(** [message.len() - 1] underflows on an empty message: panic with overflow checks on. *)
Definition encode_msg (m : list bytes) : res bytes :=
  match m with [] => Panic PUnderflow | _ => Ok (encode_frames m) end.

Fixpoint upd {A} (n : nat) (v : A) (l : list A) : list A :=
  match n, l with
  | _, [] => []
  | O, _ :: t => v :: t
  | S n', x :: t => x :: upd n' v t
  end.
Fixpoint upd_range {A} (n : nat) (vs : list A) (l : list A) : list A :=
  match vs with
  | [] => l
  | v :: vs' => upd_range (S n) vs' (upd n v l)
  end.

Definition encode_greeting (g : greeting) : bytes :=
  let d := repeat 0 (N.to_nat Gen.gr_len) in
  let d := upd (N.to_nat Gen.gr_sig0_off) Gen.gr_sig0 d in
  let d := upd (N.to_nat Gen.gr_sig9_off) Gen.gr_sig9 d in
  let d := upd (N.to_nat Gen.gr_major_off) (g_major g) d in
  let d := upd (N.to_nat Gen.gr_minor_off) (g_minor g) d in
  let d := upd_range (N.to_nat Gen.gr_mech_off) (mech_name (g_mech g)) d in
  upd (N.to_nat Gen.gr_server_off) (if g_server g then 1 else 0) d.

Definition default_greeting : greeting :=
  {| g_major := Gen.gr_default_major; g_minor := Gen.gr_default_minor; g_mech := MNull; g_server := false |}.

Definition prop_bytes (kv : bytes * bytes) : bytes :=
  let '(k, v) := kv in
  be (N.to_nat Gen.cmd_nlen_width) (lenN k) ++ k ++ be (N.to_nat Gen.cmd_vlen_width) (lenN v) ++ v.

Definition ready_body (props : list (bytes * bytes)) : bytes :=
  be 1 (lenN ascii_READY) ++ ascii_READY ++ flat_map prop_bytes props.

Definition encode_command (body : bytes) : bytes :=
  let len := lenN body in
  if Gen.cmd_short_max <? len then Gen.cmd_flag_long :: be (N.to_nat Gen.cmd_long_width) len ++ body
  else Gen.cmd_flag_short :: be 1 len ++ body.

Definition encode_ready (props : list (bytes * bytes)) : bytes := encode_command (ready_body props).

(** * Socket types *)
Inductive stype := PAIR | PUB | SUB | REQ | REP | DEALER | ROUTER | PULL | PUSH | XPUB | XSUB | STREAM.
Definition all_stypes := [PAIR; PUB; SUB; REQ; REP; DEALER; ROUTER; PULL; PUSH; XPUB; XSUB; STREAM].
Definition stype_idx (s : stype) : N :=
  match s with PAIR => 0 | PUB => 1 | SUB => 2 | REQ => 3 | REP => 4 | DEALER => 5 | ROUTER => 6
             | PULL => 7 | PUSH => 8 | XPUB => 9 | XSUB => 10 | STREAM => 11 end.
Definition stype_name (s : stype) : bytes :=
  match s with
  | PAIR => [80; 65; 73; 82] | PUB => [80; 85; 66] | SUB => [83; 85; 66] | REQ => [82; 69; 81]
  | REP => [82; 69; 80] | DEALER => [68; 69; 65; 76; 69; 82] | ROUTER => [82; 79; 85; 84; 69; 82]
  | PULL => [80; 85; 76; 76] | PUSH => [80; 85; 83; 72] | XPUB => [88; 80; 85; 66]
  | XSUB => [88; 83; 85; 66] | STREAM => [83; 84; 82; 69; 65; 77]
  end.
Definition stype_of_name (n : bytes) : option stype :=
  find (fun s => bytes_eqb (stype_name s) n) all_stypes.

Definition ready_props (st : stype) (id : option bytes) : list (bytes * bytes) :=
  (ascii_Socket_Type, stype_name st) ::
  match id with Some i => [(ascii_Identity, i)] | None => [] end.

(** * Parsers *)
Definition parse_mech (v : bytes) : res mech :=
  let m := until_nul v in
  if bytes_eqb m ascii_NULL then Ok MNull
  else if bytes_eqb m ascii_PLAIN then Ok MPlain
  else if bytes_eqb m ascii_CURVE then Ok MCurve
  else Err EMechanism.

Definition slice (lo hi : N) (l : bytes) : bytes := firstn (N.to_nat (hi - lo)) (skipn (N.to_nat lo) l).

(** greeting.rs TryFrom<Bytes>; all indexing is in range once the length check passed *)
Definition parse_greeting (v : bytes) : res greeting :=
  if negb (lenN v =? Gen.gr_parse_len) ||
     negb ((nth 0 v 0 =? Gen.gr_parse_sig0) && (nth 9 v 0 =? Gen.gr_parse_sig9))
  then Err EGreeting
  else
    match parse_mech (slice Gen.gr_parse_mech_lo Gen.gr_parse_mech_hi v) with
    | Ok m => Ok {| g_major := nth (N.to_nat Gen.gr_parse_major_off) v 0;
                    g_minor := nth (N.to_nat Gen.gr_parse_minor_off) v 0;
                    g_mech := m;
                    g_server := nth (N.to_nat Gen.gr_parse_server_off) v 0 =? Gen.gr_parse_server_val |}
    | Err e => Err e
    | Panic s => Panic s
    end.

(** UTF-8 validity as decided by [String::from_utf8] (RFC 3629 table). *)
Definition in_rng (lo hi b : N) : bool := (lo <=? b) && (b <=? hi).
Fixpoint utf8_valid (l : bytes) : bool :=
  match l with
  | [] => true
  | b0 :: t0 =>
    if b0 <? 128 then utf8_valid t0
    else if in_rng 194 223 b0 then
      match t0 with b1 :: t1 => in_rng 128 191 b1 && utf8_valid t1 | _ => false end
    else if in_rng 224 239 b0 then
      match t0 with
      | b1 :: b2 :: t2 =>
        (if b0 =? 224 then in_rng 160 191 b1 else if b0 =? 237 then in_rng 128 159 b1 else in_rng 128 191 b1)
        && in_rng 128 191 b2 && utf8_valid t2
      | _ => false
      end
    else if in_rng 240 244 b0 then
      match t0 with
      | b1 :: b2 :: b3 :: t3 =>
        (if b0 =? 240 then in_rng 144 191 b1 else if b0 =? 244 then in_rng 128 143 b1 else in_rng 128 191 b1)
        && in_rng 128 191 b2 && in_rng 128 191 b3 && utf8_valid t3
      | _ => false
      end
    else false
  end.

(** HashMap::insert on the property map: last value for a key wins; order is not observable. *)
Fixpoint props_insert (k v : bytes) (l : list (bytes * bytes)) : list (bytes * bytes) :=
  match l with
  | [] => [(k, v)]
  | (k', v') :: t => if bytes_eqb k' k then (k, v) :: t else (k', v') :: props_insert k v t
  end.

(** command.rs TryFrom<Bytes>, property loop (after the bounds-check repair). *)
Fixpoint parse_props (fuel : nat) (buf : bytes) (acc : list (bytes * bytes)) : res (list (bytes * bytes)) :=
  match fuel with
  | O => Panic PAssert                       (* out of fuel: excluded by fuel >= length buf *)
  | S f =>
    match buf with
    | [] => Ok acc
    | pl :: r0 =>
      if lenN r0 <? pl then Err EDecode else
      let name := firstnN pl r0 in
      if negb (utf8_valid name) then Err EDecode else
      let r1 := skipnN pl r0 in
      if lenN r1 <? Gen.cmd_parse_vlen_guard then Err EDecode else
      let w := N.to_nat Gen.cmd_parse_vlen_width in
      if (length r1 <? w)%nat then Panic PGetInt else
      let vl := of_be (firstn w r1) in
      let r2 := skipn w r1 in
      if lenN r2 <? vl then Err EDecode else
      parse_props f (skipnN vl r2) (props_insert name (firstnN vl r2) acc)
    end
  end.

Definition parse_command (body : bytes) : res (list (bytes * bytes)) :=
  match body with
  | [] => Err ECommand
  | cl :: r =>
    if lenN r <? cl then Err ECommand else
    if negb (bytes_eqb (firstnN cl r) ascii_READY) then Err ECommand else
    parse_props (S (length r)) (skipnN cl r) []
  end.

(** * Decoder state machine (zmq_codec.rs Decoder::decode, loop form) *)
Record fr := { f_cmd : bool; f_long : bool; f_more : bool }.
Inductive dstate := SGreeting | SHeader | SLen (f : fr) | SFrame (f : fr).
Record dec := { st : dstate; waiting : N; buffered : option (list bytes) }.
Definition dec0 : dec := {| st := SGreeting; waiting := Gen.greeting_len; buffered := None |}.
Definition dec_post_greeting : dec := {| st := SHeader; waiting := 1; buffered := None |}.

Inductive dres := RNone | RItem (i : item) | RErr (e : err) | RPanic (s : site) | RFuel.

Definition flags_of (b : N) : fr :=
  {| f_cmd := negb (N.land b Gen.dec_mask_cmd =? 0);
     f_long := negb (N.land b Gen.dec_mask_long =? 0);
     f_more := negb (N.land b Gen.dec_mask_more =? 0) |}.

Definition hdr_state (d : dec) : dec := {| st := SHeader; waiting := 1; buffered := buffered d |}.

Fixpoint decode (fuel : nat) (d : dec) (buf : bytes) : dres * dec * bytes :=
  match fuel with
  | O => (RFuel, d, buf)
  | S fuel' =>
    if lenN buf <? waiting d then (RNone, d, buf) else
    match st d with
    | SGreeting =>
      match buf with
      | [] => (RPanic PIndex, d, buf)
      | b0 :: _ =>
        if negb (b0 =? Gen.greeting_first) then (RErr EDecode, d, buf) else
        let n := N.to_nat Gen.greeting_split in
        if (length buf <? n)%nat then (RPanic PSplit, d, buf) else
        match parse_greeting (firstn n buf) with
        | Ok g => (RItem (IGreeting g), hdr_state d, skipn n buf)
        | Err e => (RErr e, hdr_state d, skipn n buf)
        | Panic s => (RPanic s, hdr_state d, skipn n buf)
        end
      end
    | SHeader =>
      match buf with
      | [] => (RPanic PGetInt, d, buf)
      | b :: rest =>
        let f := flags_of b in
        decode fuel' {| st := SLen f; waiting := if f_long f then Gen.dec_len_long else Gen.dec_len_short;
                        buffered := buffered d |} rest
      end
    | SLen f =>
      let k := N.to_nat (if f_long f then Gen.dec_get_long else Gen.dec_get_short) in
      if (length buf <? k)%nat then (RPanic PGetInt, d, buf) else
      decode fuel' {| st := SFrame f; waiting := of_be (firstn k buf); buffered := buffered d |} (skipn k buf)
    | SFrame f =>
      let data := firstnN (waiting d) buf in
      let rest := skipnN (waiting d) buf in
      if f_cmd f then
        match parse_command data with
        | Ok ps => (RItem (ICommand ps), hdr_state d, rest)
        | Err e => (RErr e, hdr_state d, rest)
        | Panic s => (RPanic s, hdr_state d, rest)
        end
      else
        let m := match buffered d with Some v => v ++ [data] | None => [data] end in
        if f_more f then decode fuel' {| st := SHeader; waiting := 1; buffered := Some m |} rest
        else (RItem (IMessage m), {| st := SHeader; waiting := 1; buffered := None |}, rest)
    end
  end.

(** Enough fuel for any buffer: each frame part consumes a byte or ends the call. *)
Definition fuel_for (buf : bytes) : nat := 3 * length buf + 4.

(** * FramedRead2 as seen by a consumer that polls until Pending *)
Inductive out :=
| OItem (i : item)
| OErr (e : err)
| OPanic (s : site)
| OEnd.                       (* Poll::Ready(None) *)

Record reader := { rd_dec : dec; rd_buf : bytes; rd_stop : bool }.
Definition reader0 : reader := {| rd_dec := dec0; rd_buf := []; rd_stop := false |}.

(** call decode until it wants more bytes; stop at the first error *)
Fixpoint drain (n : nat) (d : dec) (buf : bytes) : list out * dec * bytes * bool :=
  match n with
  | O => ([], d, buf, false)
  | S n' =>
    match decode (fuel_for buf) d buf with
    | (RNone, d', buf') => ([], d', buf', false)
    | (RItem i, d', buf') => let '(os, d2, b2, s) := drain n' d' buf' in (OItem i :: os, d2, b2, s)
    | (RErr e, d', buf') => ([OErr e], d', buf', true)
    | (RPanic s, d', buf') => ([OPanic s], d', buf', true)
    | (RFuel, d', buf') => ([OPanic PAssert], d', buf', true)
    end
  end.

Definition feed (r : reader) (chunk : bytes) : list out * reader :=
  if rd_stop r then ([], r) else
  let buf := rd_buf r ++ chunk in
  let '(os, d, b, s) := drain (S (length buf)) (rd_dec r) buf in
  (os, {| rd_dec := d; rd_buf := b; rd_stop := s |}).

Fixpoint feed_all (r : reader) (chunks : list bytes) : list out * reader :=
  match chunks with
  | [] => ([], r)
  | c :: cs => let '(o1, r1) := feed r c in let '(o2, r2) := feed_all r1 cs in (o1 ++ o2, r2)
  end.

(** end of stream: Ok(0) from the transport *)
Definition feed_eof (r : reader) : list out :=
  if rd_stop r then [] else
  match rd_buf r with [] => [OEnd] | _ => [OErr EIoEof] end.

Definition lib_items (chunks : list bytes) (eof : bool) : list out :=
  let '(os, r) := feed_all reader0 chunks in
  if eof then os ++ feed_eof r else os.

(** * Auxiliary definitions used by the theorems (not executed by the harness) *)
(** decoder states the code can be in: [waiting] is determined by the state except in [SFrame] *)
Definition wfd (d : dec) : Prop :=
  match st d with
  | SGreeting => waiting d = Gen.greeting_len
  | SHeader => waiting d = 1
  | SLen f => waiting d = if f_long f then Gen.dec_len_long else Gen.dec_len_short
  | SFrame _ => True
  end.

(** termination measure of one [decode] call *)
Definition mu (d : dec) (buf : bytes) : nat :=
  match st d with
  | SGreeting => 0
  | SHeader => 3 * length buf + 1
  | SFrame _ => 3 * length buf + 2
  | SLen _ => 3 * length buf + 3
  end.

(** bytes the reader holds on behalf of the connection: undecoded buffer + frames of a partial message *)
Definition held (r : reader) : N :=
  lenN (rd_buf r) +
  match buffered (rd_dec r) with Some fs => fold_right (fun f a => lenN f + a) 0 fs | None => 0 end.

Definition lib_reader (chunks : list bytes) : reader := snd (feed_all reader0 chunks).
