(** Executable model of the socket layer: one socket of any of the nine implemented types, its
    connections (byte-accurate inbound side through the Codec model, outbound wire as bytes), the
    fair queue at the granularity of whole API calls, the round-robin queue, REQ/REP lock-step
    state, PUB/XPUB subscription lists and the SUB subscription set.
    Mirrors src/{backend,req,rep,dealer,router,push,pull,pub,sub,xpub,fair_queue}.rs.  No proofs. *)
From ZV Require Import Base.Bytes Base.Res Model.Codec.

Definition msg := list bytes.

(** * Envelope functions (req.rs, rep.rs, message.rs) *)
Definition is_nil {A} (l : list A) : bool := match l with [] => true | _ => false end.

Definition req_wrap (m : msg) : msg := [] :: m.

Definition req_unwrap (w : msg) : res msg :=
  if lenN w <? Gen.req_min_frames then Err EOther else
  match w with
  | [] => Panic PUnwrap
  | f :: rest => if is_nil f then Ok rest else Err EOther
  end.

Fixpoint find_empty (w : msg) : option nat :=
  match w with
  | [] => None
  | f :: t => if is_nil f then Some O else match find_empty t with Some i => Some (S i) | None => None end
  end.

(** envelope = frames up to and including the first empty one (or just the first frame when there
    is no empty frame); a request with nothing after that is refused *)
Definition rep_split (w : msg) : res (msg * msg) :=
  if lenN w <? Gen.rep_min_frames then Err EOther else
  let at_ := match find_empty w with Some i => S i | None => 1%nat end in
  if (length w <=? at_)%nat then Err EOther else Ok (firstn at_ w, skipn at_ w).

Definition rep_wrap (env : option msg) (r : msg) : msg :=
  match env with Some e => e ++ r | None => r end.

(** * Subscription bookkeeping (pub.rs / xpub.rs message_received, send filter) *)
Fixpoint remove_first (t : bytes) (l : list bytes) : list bytes :=
  match l with
  | [] => []
  | x :: r => if bytes_eqb x t then r else x :: remove_first t r
  end.

Definition on_sub_msg (subs : list bytes) (m : msg) : list bytes :=
  match m with
  | [f] =>
    match f with
    | [] => subs
    | b :: t => if b =? Gen.pub_op_sub then subs ++ [t]
                else if b =? Gen.pub_op_unsub then remove_first t subs
                else subs
    end
  | _ => subs
  end.

Definition matches (subs : list bytes) (first : bytes) : bool :=
  existsb (fun s => is_prefix s first) subs.

(** * Connections *)
Record conn := {
  c_id : N;                      (* harness name of the connection *)
  c_ann : option bytes;          (* identity announced in READY, if any *)
  c_inq : list bytes;            (* chunks written by the peer, not yet read by the library *)
  c_eof : bool;                  (* the peer closed after c_inq *)
  c_dec : dec;  c_buf : bytes;   (* FramedRead: decoder state and buffer *)
  c_wire : bytes;                (* everything the library wrote, not yet looked at by `wire` *)
  c_subs : list bytes;           (* PUB / XPUB: this subscriber's subscriptions *)
  c_rd : bool;  c_wr : bool      (* read / write half still held by the socket *)
}.

Definition key_of (c : conn) : bytes :=
  match c_ann c with Some b => b | None => [1000 + c_id c] end.   (* fresh identities: pairwise distinct, not bytes *)

(** bytes a connection still has to offer (bounds the number of items it can yield) *)
Definition conn_bytes (c : conn) : nat := (length (concat (c_inq c)) + length (c_buf c))%nat.

(** one poll of a connection's FramedRead stream *)
Inductive polled := PItem (o : out) | PPending | PEnded.

Fixpoint poll_stream (fuel : nat) (c : conn) : polled * conn :=
  match fuel with
  | O => (PPending, c)
  | S f =>
    match decode (fuel_for (c_buf c)) (c_dec c) (c_buf c) with
    | (RItem i, d, b) => (PItem (OItem i), {| c_id := c_id c; c_ann := c_ann c; c_inq := c_inq c; c_eof := c_eof c; c_dec := d; c_buf := b; c_wire := c_wire c; c_subs := c_subs c; c_rd := c_rd c; c_wr := c_wr c |})
    | (RErr e, d, b) => (PItem (OErr e), {| c_id := c_id c; c_ann := c_ann c; c_inq := c_inq c; c_eof := c_eof c; c_dec := d; c_buf := b; c_wire := c_wire c; c_subs := c_subs c; c_rd := c_rd c; c_wr := c_wr c |})
    | (RPanic s, d, b) => (PItem (OPanic s), c)
    | (RFuel, d, b) => (PItem (OPanic PAssert), c)
    | (RNone, d, b) =>
      match c_inq c with
      | chunk :: rest =>
        poll_stream f {| c_id := c_id c; c_ann := c_ann c; c_inq := rest; c_eof := c_eof c; c_dec := d; c_buf := b ++ chunk; c_wire := c_wire c; c_subs := c_subs c; c_rd := c_rd c; c_wr := c_wr c |}
      | [] =>
        let c' := {| c_id := c_id c; c_ann := c_ann c; c_inq := []; c_eof := c_eof c; c_dec := d; c_buf := b; c_wire := c_wire c; c_subs := c_subs c; c_rd := c_rd c; c_wr := c_wr c |} in
        if c_eof c then (if is_nil b then (PEnded, c') else (PItem (OErr EIoEof), c'))
        else (PPending, c')
      end
    end
  end.

(** * The socket *)
Record world := {
  w_type : stype;
  w_conns : list conn;
  w_peers : list N;                (* peer / subscriber table, keys = connection names *)
  w_rr : list N;                   (* round-robin queue (SegQueue) *)
  w_heap : list (N * N);           (* fair queue: ready events (priority, key) *)
  w_counter : N;                   (* fair queue: ticket counter *)
  w_streams : list N;              (* fair queue: registered streams *)
  w_reg : list (N * N);            (* stream k holds a waker that will re-push event (k -> priority) *)
  w_cur : option N;                (* REQ / REP: outstanding request's peer *)
  w_env : option msg;              (* REP: envelope of the request being served *)
  w_subs : list bytes              (* SUB: subscription set *)
}.

Definition world0 (t : stype) : world :=
  {| w_type := t; w_conns := []; w_peers := []; w_rr := []; w_heap := []; w_counter := 0;
     w_streams := []; w_reg := []; w_cur := None; w_env := None; w_subs := [] |}.

Definition has_fq (t : stype) : bool :=
  match t with PULL | DEALER | ROUTER | SUB | REP | XPUB => true | _ => false end.
Definition has_rr (t : stype) : bool :=
  match t with PUSH | DEALER | ROUTER | PULL | SUB | REQ => true | _ => false end.

Definition memN (k : N) (l : list N) : bool := existsb (N.eqb k) l.
Definition delN (k : N) (l : list N) : list N := filter (fun x => negb (x =? k)) l.

Fixpoint get_conn (k : N) (l : list conn) : option conn :=
  match l with [] => None | c :: t => if c_id c =? k then Some c else get_conn k t end.
Fixpoint put_conn (c : conn) (l : list conn) : list conn :=
  match l with [] => [c] | x :: t => if c_id x =? c_id c then c :: t else x :: put_conn c t end.

Definition set_w (w : world) conns peers rr heap counter streams reg cur env subs : world :=
  {| w_type := w_type w; w_conns := conns; w_peers := peers; w_rr := rr; w_heap := heap;
     w_counter := counter; w_streams := streams; w_reg := reg; w_cur := cur; w_env := env; w_subs := subs |}.
Definition with_conns (w : world) conns := set_w w conns (w_peers w) (w_rr w) (w_heap w) (w_counter w) (w_streams w) (w_reg w) (w_cur w) (w_env w) (w_subs w).
Definition with_fq (w : world) heap counter streams reg := set_w w (w_conns w) (w_peers w) (w_rr w) heap counter streams reg (w_cur w) (w_env w) (w_subs w).
Definition with_peers (w : world) peers := set_w w (w_conns w) peers (w_rr w) (w_heap w) (w_counter w) (w_streams w) (w_reg w) (w_cur w) (w_env w) (w_subs w).
Definition with_rr (w : world) rr := set_w w (w_conns w) (w_peers w) rr (w_heap w) (w_counter w) (w_streams w) (w_reg w) (w_cur w) (w_env w) (w_subs w).
Definition with_cur (w : world) cur env := set_w w (w_conns w) (w_peers w) (w_rr w) (w_heap w) (w_counter w) (w_streams w) (w_reg w) cur env (w_subs w).
Definition with_subs (w : world) subs := set_w w (w_conns w) (w_peers w) (w_rr w) (w_heap w) (w_counter w) (w_streams w) (w_reg w) (w_cur w) (w_env w) subs.

Definition upd_conn (w : world) (c : conn) : world := with_conns w (put_conn c (w_conns w)).

Definition c_with_wire (c : conn) wire := {| c_id := c_id c; c_ann := c_ann c; c_inq := c_inq c; c_eof := c_eof c; c_dec := c_dec c; c_buf := c_buf c; c_wire := wire; c_subs := c_subs c; c_rd := c_rd c; c_wr := c_wr c |}.
Definition c_with_in (c : conn) inq eof := {| c_id := c_id c; c_ann := c_ann c; c_inq := inq; c_eof := eof; c_dec := c_dec c; c_buf := c_buf c; c_wire := c_wire c; c_subs := c_subs c; c_rd := c_rd c; c_wr := c_wr c |}.
Definition c_with_subs (c : conn) subs := {| c_id := c_id c; c_ann := c_ann c; c_inq := c_inq c; c_eof := c_eof c; c_dec := c_dec c; c_buf := c_buf c; c_wire := c_wire c; c_subs := subs; c_rd := c_rd c; c_wr := c_wr c |}.
Definition c_with_halves (c : conn) r wr := {| c_id := c_id c; c_ann := c_ann c; c_inq := c_inq c; c_eof := c_eof c; c_dec := c_dec c; c_buf := c_buf c; c_wire := c_wire c; c_subs := c_subs c; c_rd := r; c_wr := wr |}.

(** write a whole message to connection k (the harness writer accepts everything) *)
Definition write_msg (w : world) (k : N) (m : msg) : world :=
  match get_conn k (w_conns w) with
  | Some c => upd_conn w (c_with_wire c (c_wire c ++ encode_frames m))
  | None => w
  end.

(** ** fair queue (fair_queue.rs) at API-call granularity *)
Fixpoint heap_insert (e : N * N) (h : list (N * N)) : list (N * N) :=
  match h with
  | [] => [e]
  | x :: t => if fst e <? fst x then e :: h else x :: heap_insert e t
  end.

Definition fq_insert (w : world) (k : N) : world :=
  with_fq w (heap_insert (w_counter w, k) (w_heap w)) (w_counter w + 1)
          (if memN k (w_streams w) then w_streams w else w_streams w ++ [k]) (w_reg w).
Definition fq_remove (w : world) (k : N) : world :=
  with_fq w (w_heap w) (w_counter w) (delN k (w_streams w)) (w_reg w).

Definition reg_del (k : N) (l : list (N * N)) := filter (fun x => negb (fst x =? k)) l.
Fixpoint reg_get (k : N) (l : list (N * N)) : option N :=
  match l with [] => None | (k', p) :: t => if k' =? k then Some p else reg_get k t end.

(** the stream's waker fires: its event goes back on the heap *)
Definition fq_wake (w : world) (k : N) : world :=
  match reg_get k (w_reg w) with
  | Some p => with_fq w (heap_insert (p, k) (w_heap w)) (w_counter w) (w_streams w) (reg_del k (w_reg w))
  | None => w
  end.

Inductive fq_res := FItem (k : N) (o : out) | FPending.

Fixpoint fq_next (fuel : nat) (w : world) : fq_res * world :=
  match fuel with
  | O => (FPending, w)
  | S f =>
    match w_heap w with
    | [] => (FPending, w)
    | (p, k) :: h' =>
      let w1 := with_fq w h' (w_counter w) (w_streams w) (w_reg w) in
      if negb (memN k (w_streams w1)) then fq_next f w1 else
      match get_conn k (w_conns w1) with
      | None => fq_next f w1
      | Some c =>
        match poll_stream (S (length (c_inq c))) c with
        | (PItem o, c') =>
          let w2 := upd_conn w1 c' in
          (FItem k o, with_fq w2 (heap_insert (w_counter w2, k) (w_heap w2)) (w_counter w2 + 1) (w_streams w2) (reg_del k (w_reg w2)))
        | (PEnded, c') =>
          (* stream dropped by the queue: the read half is released, nobody tells the backend *)
          let w2 := upd_conn w1 (c_with_halves c' false (c_wr c')) in
          fq_next f (with_fq w2 (w_heap w2) (w_counter w2) (delN k (w_streams w2)) (reg_del k (w_reg w2)))
        | (PPending, c') =>
          let w2 := upd_conn w1 c' in
          fq_next f (with_fq w2 (w_heap w2) (w_counter w2) (w_streams w2) ((k, p) :: reg_del k (w_reg w2)))
        end
      end
    end
  end.

(** ** disconnect handlers (per backend) *)
Definition drop_halves (w : world) (k : N) (r wr : bool) : world :=
  match get_conn k (w_conns w) with
  | Some c => upd_conn w (c_with_halves c (c_rd c && negb r) (c_wr c && negb wr))
  | None => w
  end.

(** peer table entry removed (write half released) and stream removed from the fair queue *)
Definition peer_disconnected (w : world) (k : N) : world :=
  let w1 := with_peers w (delN k (w_peers w)) in
  let w2 := drop_halves w1 k (match w_type w with REQ => true | _ => false end) true in
  if has_fq (w_type w) then drop_halves (fq_remove w2 k) k true false else w2.

(** * Operations and observations *)
Inductive op :=
| OAttach (c : N) (ann : option bytes)
| OFeed (c : N) (b : bytes)
| OEof (c : N)
| ORecv
| OSend (m : msg)
| OSendTo (c : N) (m : msg)        (* ROUTER: first frame = identity of connection c *)
| OSub (t : bytes) | OUnsub (t : bytes)
| OSettle
| OWire (c : N)
| ODropped (c : N).

Inductive obs :=
| BAtt (c : N) (ann : option bytes)
| BRecv (from : option N) (m : msg)        (* from: ROUTER label when the identity is not announced *)
| BRecvErr (e : err)
| BRecvPending
| BSendOk
| BSendErr (e : err) (back : option msg)
| BSubOk (is_sub : bool)
| BWire (c : N) (b : bytes)
| BDropped (c : N) (r w : bool)
| BUnsupported.

Definition new_conn (c : N) (ann : option bytes) : conn :=
  {| c_id := c; c_ann := ann; c_inq := []; c_eof := false; c_dec := dec_post_greeting; c_buf := [];
     c_wire := []; c_subs := []; c_rd := true; c_wr := true |}.

Definition sub_msg (op_byte : N) (t : bytes) : msg := [op_byte :: t].

(** registration = the backend's peer_connected after a successful handshake *)
Definition do_attach (w : world) (c : N) (ann : option bytes) : world :=
  let ann' := match ann with Some [] => None | x => x end in
  let w0 := with_conns w (put_conn (new_conn c ann') (w_conns w)) in
  match w_type w with
  | SUB =>
    let w1 := fold_left (fun acc t => write_msg acc c (sub_msg Gen.sub_op_sub t)) (w_subs w0) w0 in
    let w2 := with_rr (with_peers w1 (delN c (w_peers w1) ++ [c])) (w_rr w1 ++ [c]) in
    fq_insert w2 c
  | REQ => with_rr (with_peers w0 (delN c (w_peers w0) ++ [c])) (w_rr w0 ++ [c])
  | REP | XPUB => fq_insert (with_peers w0 (delN c (w_peers w0) ++ [c])) c
  | PUB => with_peers w0 (delN c (w_peers w0) ++ [c])
  | PUSH =>
    let w1 := with_rr (with_peers w0 (delN c (w_peers w0) ++ [c])) (w_rr w0 ++ [c]) in
    drop_halves w1 c true false                (* the unused read half is dropped at registration *)
  | _ =>
    let w1 := with_rr (with_peers w0 (delN c (w_peers w0) ++ [c])) (w_rr w0 ++ [c]) in
    if has_fq (w_type w) then fq_insert w1 c else w1
  end.

(** bytes arrive on c: queued; a parked stream's waker fires *)
Definition do_feed (w : world) (c : N) (b : bytes) : world :=
  match get_conn c (w_conns w) with
  | Some cn => if is_nil b || c_eof cn then w else fq_wake (upd_conn w (c_with_in cn (c_inq cn ++ [b]) (c_eof cn))) c
  | None => w
  end.
Definition do_eof (w : world) (c : N) : world :=
  match get_conn c (w_conns w) with
  | Some cn => fq_wake (upd_conn w (c_with_in cn (c_inq cn) true)) c
  | None => w
  end.

(** recv of the six fair-queue socket types *)
Fixpoint recv_fq (fuel : nat) (w : world) : obs * world :=
  match fuel with
  | O => (BRecvPending, w)
  | S f =>
    match fq_next (S (length (w_heap w)) + length (w_conns w) + 2) w with
    | (FPending, w1) => (BRecvPending, w1)
    | (FItem k (OItem (IMessage m)), w1) =>
      match w_type w with
      | ROUTER =>
        match get_conn k (w_conns w1) with
        | Some c => match c_ann c with
                    | Some b => (BRecv None (b :: m), w1)
                    | None => (BRecv (Some k) m, w1)
                    end
        | None => (BRecv (Some k) m, w1)
        end
      | REP =>
        match rep_split m with
        | Ok (env, data) => (BRecv None data, with_cur w1 (Some k) (Some env))
        | Err e => (BRecvErr e, w1)
        | Panic _ => (BRecvErr EOther, w1)
        end
      | XPUB =>
        match get_conn k (w_conns w1) with
        | Some c => (BRecv None m, if memN k (w_peers w1) then upd_conn w1 (c_with_subs c (on_sub_msg (c_subs c) m)) else w1)
        | None => (BRecv None m, w1)
        end
      | _ => (BRecv None m, w1)
      end
    | (FItem k (OItem _), w1) => recv_fq f w1
    | (FItem k (OErr e), w1) =>
      let w2 := peer_disconnected w1 k in
      match w_type w with
      | ROUTER => recv_fq f w2
      | _ => (BRecvErr e, w2)
      end
    | (FItem k _, w1) => (BRecvErr EOther, w1)
    end
  end.

(** REQ recv: reads the reply from the requestee's own stream *)
Definition recv_req (w : world) : obs * world :=
  match w_cur w with
  | None => (BRecvErr EOther, w)
  | Some k =>
    if negb (memN k (w_peers w)) then (BRecvErr EOther, with_cur w None (w_env w)) else
    match get_conn k (w_conns w) with
    | None => (BRecvErr EOther, with_cur w None (w_env w))
    | Some c =>
      match poll_stream (S (length (c_inq c))) c with
      | (PPending, c') => (BRecvPending, upd_conn w c')
      | (PEnded, c') => (BRecvErr ENoMessage, peer_disconnected (with_cur (upd_conn w c') None (w_env w)) k)
      | (PItem (OItem (IMessage m)), c') =>
        let w1 := with_cur (upd_conn w c') None (w_env w) in
        match req_unwrap m with
        | Ok r => (BRecv None r, w1)
        | Err e => (BRecvErr e, w1)
        | Panic _ => (BRecvErr EOther, w1)
        end
      | (PItem (OItem _), c') => (BRecvErr EOther, with_cur (upd_conn w c') None (w_env w))
      | (PItem (OErr e), c') => (BRecvErr e, peer_disconnected (with_cur (upd_conn w c') None (w_env w)) k)
      | (PItem _, c') => (BRecvErr EOther, w)
      end
    end
  end.

(** round-robin send (backend.rs send_round_robin; req.rs variant pushes the id back first) *)
Fixpoint send_rr (fuel : nat) (w : world) (m : msg) : obs * world :=
  match fuel with
  | O => (BSendErr EReturnToSender (Some m), w)
  | S f =>
    match w_rr w with
    | [] => (BSendErr EReturnToSender (Some m), w)
    | k :: rest =>
      let w1 := with_rr w rest in
      if memN k (w_peers w1) then
        let w2 := with_rr w1 (w_rr w1 ++ [k]) in
        match w_type w with
        | REQ => (BSendOk, with_cur (write_msg w2 k (req_wrap m)) (Some k) (w_env w2))
        | _ => (BSendOk, write_msg w2 k m)
        end
      else send_rr f w1 m
    end
  end.

(** PUB / XPUB send: each subscriber whose subscriptions match the first frame gets it once *)
Definition publish (w : world) (m : msg) : world :=
  match m with
  | [] => w
  | first :: _ =>
    fold_left (fun acc k =>
      match get_conn k (w_conns acc) with
      | Some c => if matches (c_subs c) first then write_msg acc k m else acc
      | None => acc
      end) (w_peers w) w
  end.

(** PUB: the per-subscriber reader task consumes everything that has arrived *)
Fixpoint pub_reader (fuel : nat) (w : world) (k : N) : world :=
  match fuel with
  | O => w
  | S f =>
    match get_conn k (w_conns w) with
    | None => w
    | Some c =>
      if negb (c_rd c) then w else
      match poll_stream (S (length (c_inq c))) c with
      | (PItem (OItem (IMessage m)), c') =>
        pub_reader f (upd_conn w (if memN k (w_peers w) then c_with_subs c' (on_sub_msg (c_subs c') m) else c')) k
      | (PItem (OItem _), c') => pub_reader f (upd_conn w c') k
      | (PItem _, c') =>        (* error: peer_disconnected, task ends, read half released *)
        drop_halves (with_peers (upd_conn w c') (delN k (w_peers w))) k true true
      | (PEnded, c') => drop_halves (with_peers (upd_conn w c') (delN k (w_peers w))) k true true
      | (PPending, c') => upd_conn w c'
      end
    end
  end.

Definition settle (w : world) : world :=
  match w_type w with
  | PUB => fold_left (fun acc c => pub_reader (S (S (conn_bytes c))) acc (c_id c)) (w_conns w) w
  | _ => w
  end.

Definition step (w : world) (o : op) : list obs * world :=
  match o with
  | OAttach c ann => ([BAtt c ann], do_attach w c ann)
  | OFeed c b => ([], do_feed w c b)
  | OEof c => ([], do_eof w c)
  | OSettle => ([], settle w)
  | OWire c =>
    match get_conn c (w_conns w) with
    | Some cn => ([BWire c (c_wire cn)], upd_conn w (c_with_wire cn []))
    | None => ([BWire c []], w)
    end
  | ODropped c =>
    match get_conn c (w_conns w) with
    | Some cn => ([BDropped c (negb (c_rd cn)) (negb (c_wr cn))], w)
    | None => ([BDropped c true true], w)
    end
  | ORecv =>
    match w_type w with
    | PUB | PUSH => ([BUnsupported], w)
    | REQ => let '(b, w') := recv_req w in ([b], w')
    | _ => let '(b, w') := recv_fq (S (length (w_conns w) + fold_right (fun c a => (conn_bytes c + a)%nat) 0%nat (w_conns w))) w in ([b], w')
    end
  | OSend m =>
    match w_type w with
    | PULL | SUB => ([BUnsupported], w)
    | PUSH | DEALER => let '(b, w') := send_rr (S (length (w_rr w))) w m in ([b], w')
    | REQ =>
      match w_cur w with
      | Some _ => ([BSendErr EReturnToSender (Some m)], w)
      | None => let '(b, w') := send_rr (S (length (w_rr w))) w m in ([b], w')
      end
    | REP =>
      match w_cur w with
      | None => ([BSendErr EReturnToSender (Some m)], w)
      | Some k =>
        if memN k (w_peers w) then ([BSendOk], with_cur (write_msg w k (rep_wrap (w_env w) m)) None None)
        else ([BSendErr EReturnToSender (Some m)], with_cur w None (w_env w))
      end
    | PUB | XPUB => ([BSendOk], publish w m)
    | ROUTER =>
      (* identity given as raw bytes: only an announced identity can match *)
      match m with
      | id :: rest =>
        if is_nil rest then ([BSendErr EOther None], w) (* assert!(len > 1) panics; scenarios avoid it *)
        else if Gen.max_id <? lenN id then ([BSendErr EPeerIdentity None], w)
        else match find (fun c => match c_ann c with Some b => bytes_eqb b id && memN (c_id c) (w_peers w) | None => false end) (w_conns w) with
             | Some c => ([BSendOk], write_msg w (c_id c) rest)
             | None => ([BSendErr EOther None], w)
             end
      | [] => ([BSendErr EOther None], w)
      end
    | _ => ([BUnsupported], w)
    end
  | OSendTo c m =>
    match w_type w with
    | ROUTER => if memN c (w_peers w) then ([BSendOk], write_msg w c m) else ([BSendErr EOther None], w)
    | _ => ([BUnsupported], w)
    end
  | OSub t =>
    (* the set decides: peers are told only when it changes *)
    if existsb (bytes_eqb t) (w_subs w) then ([BSubOk true], w) else
    let w1 := with_subs w (w_subs w ++ [t]) in
    ([BSubOk true], fold_left (fun acc k => write_msg acc k (sub_msg Gen.sub_op_sub t)) (w_peers w1) w1)
  | OUnsub t =>
    if negb (existsb (bytes_eqb t) (w_subs w)) then ([BSubOk false], w) else
    let w1 := with_subs w (filter (fun x => negb (bytes_eqb x t)) (w_subs w)) in
    ([BSubOk false], fold_left (fun acc k => write_msg acc k (sub_msg Gen.sub_op_unsub t)) (w_peers w1) w1)
  end.

Fixpoint run (w : world) (ops : list op) : list obs :=
  match ops with
  | [] => []
  | o :: rest => let '(bs, w') := step w o in bs ++ run w' rest
  end.
