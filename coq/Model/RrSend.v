(** Model of [GenericSocketBackend::send_round_robin] (src/backend.rs; PUSH and DEALER send) over one framed
    writer per peer whose connection answers each poll_write from its own script (Model/TrySend.v):
    partial writes, transient back-pressure, write errors and Ok(0) are inside the model.

    [World.send_rr] models the same loop over connections that accept every write. *)
From ZV Require Import Base.Bytes Base.Res Model.Codec Model.TrySend.
From ZV Require Model.World.

(** [SinkExt::send] on the framed writer: the message is encoded into the buffer, then the buffer is written out
    until it is empty.  A queued (transient) Pending is re-polled; a standing Pending never completes. *)
Inductive flush_res := FlOk | FlErr (e : N) | FlZero | FlStall.

Fixpoint flush_all (fuel : nat) (s : sink) : flush_res * sink :=
  match fuel with
  | O => (FlStall, s)
  | S f =>
    match k_buf s with
    | [] => (FlOk, s)
    | _ =>
      let queued := match t_plan (k_tr s) with [] => false | _ => true end in
      let '(a, tr) := next_ans (k_tr s) in
      match a with
      | Wrote k =>
        if k =? 0 then (FlZero, {| k_buf := k_buf s; k_written := k_written s; k_tr := tr |}) else
        let '(w, rest) := take_n k (k_buf s) in
        flush_all f {| k_buf := rest; k_written := k_written s ++ w; k_tr := tr |}
      | WZero => (FlZero, {| k_buf := k_buf s; k_written := k_written s; k_tr := tr |})
      | WPending =>
        if queued then flush_all f {| k_buf := k_buf s; k_written := k_written s; k_tr := tr |}
        else (FlStall, s)
      | WErr e => (FlErr e, {| k_buf := k_buf s; k_written := k_written s; k_tr := tr |})
      end
    end
  end.

Definition sink_send (s : sink) (enc : bytes) : flush_res * sink :=
  let s1 := {| k_buf := k_buf s ++ enc; k_written := k_written s; k_tr := k_tr s |} in
  flush_all (S (length (k_buf s1) + length (t_plan (k_tr s1)))) s1.

Record rpeer := { p_id : N; p_sink : sink }.

Record rstate := {
  r_peers : list rpeer;       (* peer table (connections whose write half the socket holds) *)
  r_rr : list N;              (* round-robin queue; may hold ids of peers that are gone *)
  r_gone : list rpeer         (* connections the socket has let go of, kept for wire observations *)
}.

Definition rstate0 : rstate := {| r_peers := []; r_rr := []; r_gone := [] |}.

Fixpoint pget (k : N) (l : list rpeer) : option rpeer :=
  match l with [] => None | p :: t => if p_id p =? k then Some p else pget k t end.
Fixpoint pdel (k : N) (l : list rpeer) : list rpeer :=
  match l with [] => [] | p :: t => if p_id p =? k then t else p :: pdel k t end.
Fixpoint pset (k : N) (s : sink) (l : list rpeer) : list rpeer :=
  match l with [] => [] | p :: t => if p_id p =? k then {| p_id := k; p_sink := s |} :: t else p :: pset k s t end.

Inductive rr_res := ROk (k : N) | RErr (k : N) (e : flush_res) | RNoPeer | RStall (k : N).

(** the loop: pop ids until one names a live peer; send on it; the id goes back to the tail when the write has
    completed AND when the send is abandoned while the connection does not accept (the guard of the repaired code,
    /repo 69ecfb3: [RStall] is the observation `the caller gave up`); a failed write forgets the peer *)
Fixpoint rr_send (fuel : nat) (st : rstate) (enc : bytes) : rr_res * rstate :=
  match fuel with
  | O => (RNoPeer, st)
  | S f =>
    match r_rr st with
    | [] => (RNoPeer, st)
    | k :: rest =>
      match pget k (r_peers st) with
      | None => rr_send f {| r_peers := r_peers st; r_rr := rest; r_gone := r_gone st |} enc
      | Some p =>
        match sink_send (p_sink p) enc with
        | (FlOk, s) => (ROk k, {| r_peers := pset k s (r_peers st); r_rr := rest ++ [k]; r_gone := r_gone st |})
        | (FlStall, s) => (RStall k, {| r_peers := pset k s (r_peers st); r_rr := rest ++ [k]; r_gone := r_gone st |})
        | (e, s) => (RErr k e, {| r_peers := pdel k (r_peers st); r_rr := rest;
                                  r_gone := {| p_id := k; p_sink := s |} :: r_gone st |})
        end
      end
    end
  end.

Definition send (st : rstate) (m : World.msg) : rr_res * rstate :=
  rr_send (S (length (r_rr st))) st (encode_frames m).

Definition accepting_tr : transport := {| t_plan := []; t_dflt := Wrote (2 ^ 63) |}.

Inductive rop :=
| RAttach (k : N)
| RLost (k : N)                    (* the socket learns by another path (a failed read) that peer k is gone *)
| RMode (k : N) (a : wr_ans)
| RPlan (k : N) (l : list wr_ans)
| RSend (m : World.msg).

Definition with_tr (s : sink) (t : transport) : sink := {| k_buf := k_buf s; k_written := k_written s; k_tr := t |}.
Definition retr (k : N) (f : transport -> transport) (l : list rpeer) : list rpeer :=
  match pget k l with Some p => pset k (with_tr (p_sink p) (f (k_tr (p_sink p)))) l | None => l end.

Definition rstep (st : rstate) (o : rop) : option rr_res * rstate :=
  match o with
  | RAttach k =>
    (* peers.upsert: a connection already registered under this identity is replaced (and let go of);
       RoundRobin::push: the identity is queued only if it is not queued already - an entry left behind by an earlier
       connection under this identity is taken over *)
    (None, {| r_peers := pdel k (r_peers st) ++ [{| p_id := k; p_sink := sink0 accepting_tr |}];
              r_rr := if existsb (N.eqb k) (r_rr st) then r_rr st else r_rr st ++ [k];
              r_gone := match pget k (r_peers st) with Some p => p :: r_gone st | None => r_gone st end |})
  | RLost k =>
    (None, match pget k (r_peers st) with
           | Some p => {| r_peers := pdel k (r_peers st); r_rr := r_rr st; r_gone := p :: r_gone st |}
           | None => st
           end)
  | RMode k a =>
    (None, {| r_peers := retr k (fun t => {| t_plan := t_plan t; t_dflt := a |}) (r_peers st); r_rr := r_rr st; r_gone := r_gone st |})
  | RPlan k l =>
    (None, {| r_peers := retr k (fun t => {| t_plan := t_plan t ++ l; t_dflt := t_dflt t |}) (r_peers st); r_rr := r_rr st; r_gone := r_gone st |})
  | RSend m => let '(r, st') := send st m in (Some r, st')
  end.

Fixpoint rrun (st : rstate) (ops : list rop) : list rr_res * rstate :=
  match ops with
  | [] => ([], st)
  | o :: rest =>
    let '(r, st1) := rstep st o in
    let '(rs, st2) := rrun st1 rest in
    ((match r with Some x => [x] | None => [] end) ++ rs, st2)
  end.

(** everything ever written to connection k, whether the socket still holds it or not *)
Definition wire_of (k : N) (st : rstate) : bytes :=
  match pget k (r_peers st) with
  | Some p => k_written (p_sink p)
  | None => match pget k (r_gone st) with Some p => k_written (p_sink p) | None => [] end
  end.
