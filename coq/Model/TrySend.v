(** Model of [TrySend::try_send] (src/codec/mod.rs) over asynchronous-codec's FramedWrite2
    (poll_ready / start_send / poll_flush) against a transport that answers each poll_write. *)
From ZV Require Import Base.Bytes Base.Res Model.Codec.

Inductive wr_ans :=
| Wrote (k : N)          (* accepts at most k bytes of what is offered (k >= 1) *)
| WZero                  (* Ok(0) *)
| WPending
| WErr (kind : N).

Inductive ts_result := TsOk | TsFull | TsErr (kind : N) | TsEof.

(** transport: a finite plan of answers, then a default answer forever *)
Record transport := { t_plan : list wr_ans; t_dflt : wr_ans }.
Definition next_ans (t : transport) : wr_ans * transport :=
  match t_plan t with
  | a :: r => (a, {| t_plan := r; t_dflt := t_dflt t |})
  | [] => (t_dflt t, t)
  end.

Record sink := { k_buf : bytes; k_written : bytes; k_tr : transport }.

Definition take_n (k : N) (b : bytes) : bytes * bytes := (firstnN (N.min k (lenN b)) b, skipnN (N.min k (lenN b)) b).

(** poll_ready: while the buffer is at or above the high-water mark, try to write it out *)
Fixpoint poll_ready (fuel : nat) (s : sink) : option ts_result * sink :=
  match fuel with
  | O => (Some TsFull, s)
  | S f =>
    if lenN (k_buf s) <? Gen.hwm then (None, s) else
    let '(a, tr) := next_ans (k_tr s) in
    match a with
    | Wrote k =>
      if k =? 0 then (Some TsEof, {| k_buf := k_buf s; k_written := k_written s; k_tr := tr |}) else
      let '(w, rest) := take_n k (k_buf s) in
      poll_ready f {| k_buf := rest; k_written := k_written s ++ w; k_tr := tr |}
    | WZero => (Some TsEof, {| k_buf := k_buf s; k_written := k_written s; k_tr := tr |})
    | WPending => (Some TsFull, {| k_buf := k_buf s; k_written := k_written s; k_tr := tr |})
    | WErr e => (Some (TsErr e), {| k_buf := k_buf s; k_written := k_written s; k_tr := tr |})
    end
  end.

(** poll_flush: write until the buffer is empty or the transport does not take more; result ignored *)
Fixpoint poll_flush (fuel : nat) (s : sink) : sink :=
  match fuel with
  | O => s
  | S f =>
    match k_buf s with
    | [] => s
    | _ =>
      let '(a, tr) := next_ans (k_tr s) in
      match a with
      | Wrote k =>
        if k =? 0 then {| k_buf := k_buf s; k_written := k_written s; k_tr := tr |} else
        let '(w, rest) := take_n k (k_buf s) in
        poll_flush f {| k_buf := rest; k_written := k_written s ++ w; k_tr := tr |}
      | _ => {| k_buf := k_buf s; k_written := k_written s; k_tr := tr |}
      end
    end
  end.

Definition try_send (s : sink) (enc : bytes) : ts_result * sink :=
  match poll_ready (S (length (k_buf s))) s with
  | (Some r, s1) => (r, s1)
  | (None, s1) =>
    let s2 := {| k_buf := k_buf s1 ++ enc; k_written := k_written s1; k_tr := k_tr s1 |} in
    (TsOk, poll_flush (S (length (k_buf s2))) s2)
  end.

Definition sink0 (t : transport) : sink := {| k_buf := []; k_written := []; k_tr := t |}.

(** a sequence of try_sends of encoded messages; returns per-message results and the final sink *)
Fixpoint try_sends (s : sink) (encs : list bytes) : list ts_result * sink :=
  match encs with
  | [] => ([], s)
  | e :: t => let '(r, s1) := try_send s e in let '(rs, s2) := try_sends s1 t in (r :: rs, s2)
  end.

Fixpoint accepted (rs : list ts_result) (encs : list bytes) : list bytes :=
  match rs, encs with
  | TsOk :: rt, e :: et => e :: accepted rt et
  | _ :: rt, _ :: et => accepted rt et
  | _, _ => []
  end.
