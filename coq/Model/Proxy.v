(** Model of [proxy()] (src/lib.rs): a loop over [select!] of the two sockets' recv futures; the
    branch that completes forwards its message (capture first, then the other side); the losing
    future is dropped.  Which branch completes when both are ready is not determined: the model takes
    the sequence of choices as a parameter and the theorems quantify over all of them. *)
From ZV Require Import Base.Bytes Base.Res Model.Codec Model.World.

Inductive side := Front | Back.

Record pstate := {
  p_front : world; p_back : world; p_cap : option world;
  p_recv_f : list msg;  p_recv_b : list msg;         (* what recv returned on each side, in order *)
  p_sent_b : list msg;  p_sent_f : list msg;         (* what was sent on each side, in order *)
  p_sent_c : list msg;                               (* what was sent to the capture socket *)
  p_done : bool                                      (* proxy() has returned (an error ended the loop) *)
}.

Definition pstate0 (f b : world) (c : option world) : pstate :=
  {| p_front := f; p_back := b; p_cap := c; p_recv_f := []; p_recv_b := []; p_sent_b := []; p_sent_f := [];
     p_sent_c := []; p_done := false |}.

(** the frames a completed recv hands to the caller; an auto-assigned identity is an opaque frame *)
Definition frames_of_recv (from : option N) (m : msg) : msg :=
  match from with Some k => [1000 + k] :: m | None => m end.

Definition send_ok (obs : list obs) : bool := match obs with [BSendOk] => true | _ => false end.

Definition proxy_iter (s : pstate) (c : side) : pstate :=
  if p_done s then s else
  let src := match c with Front => p_front s | Back => p_back s end in
  match step src ORecv with
  | ([BRecv from m0], src') =>
    let m := frames_of_recv from m0 in
    (* capture.send(message.clone()).await?  then  other.send(message).await? *)
    let '(cap_ok, cap', sent_c') :=
      match p_cap s with
      | Some wc => let '(o, wc') := step wc (OSend m) in (send_ok o, Some wc', p_sent_c s ++ [m])
      | None => (true, None, p_sent_c s)
      end in
    let recv_f' := match c with Front => p_recv_f s ++ [m] | Back => p_recv_f s end in
    let recv_b' := match c with Back => p_recv_b s ++ [m] | Front => p_recv_b s end in
    if negb cap_ok then
      {| p_front := match c with Front => src' | Back => p_front s end;
         p_back := match c with Back => src' | Front => p_back s end;
         p_cap := cap'; p_recv_f := recv_f'; p_recv_b := recv_b'; p_sent_b := p_sent_b s; p_sent_f := p_sent_f s;
         p_sent_c := sent_c'; p_done := true |}
    else
      let dst := match c with Front => p_back s | Back => p_front s end in
      let '(o, dst') := step dst (OSend m) in
      {| p_front := match c with Front => src' | Back => dst' end;
         p_back := match c with Back => src' | Front => dst' end;
         p_cap := cap'; p_recv_f := recv_f'; p_recv_b := recv_b';
         p_sent_b := match c with Front => p_sent_b s ++ [m] | Back => p_sent_b s end;
         p_sent_f := match c with Back => p_sent_f s ++ [m] | Front => p_sent_f s end;
         p_sent_c := sent_c'; p_done := negb (send_ok o) |}
  | ([BRecvPending], src') =>
    (* this branch was not ready: its future is dropped; only the poll's bookkeeping remains *)
    {| p_front := match c with Front => src' | Back => p_front s end;
       p_back := match c with Back => src' | Front => p_back s end;
       p_cap := p_cap s; p_recv_f := p_recv_f s; p_recv_b := p_recv_b s; p_sent_b := p_sent_b s;
       p_sent_f := p_sent_f s; p_sent_c := p_sent_c s; p_done := false |}
  | (_, src') =>
    {| p_front := match c with Front => src' | Back => p_front s end;
       p_back := match c with Back => src' | Front => p_back s end;
       p_cap := p_cap s; p_recv_f := p_recv_f s; p_recv_b := p_recv_b s; p_sent_b := p_sent_b s;
       p_sent_f := p_sent_f s; p_sent_c := p_sent_c s; p_done := true |}
  end.

Definition proxy_run (s : pstate) (cs : list side) : pstate := fold_left proxy_iter cs s.

(** deterministic schedule used by the harness comparison: keep serving the front while it has
    messages, then the back, until both are pending *)
Fixpoint proxy_settle (fuel : nat) (s : pstate) : pstate :=
  match fuel with
  | O => s
  | S f =>
    if p_done s then s else
    let s1 := proxy_iter s Front in
    if Nat.ltb (length (p_recv_f s)) (length (p_recv_f s1)) then proxy_settle f s1 else
    let s2 := proxy_iter s1 Back in
    if Nat.ltb (length (p_recv_b s1)) (length (p_recv_b s2)) then proxy_settle f s2 else s2
  end.
