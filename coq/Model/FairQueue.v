(** The fair queue (src/fair_queue.rs) as a labelled transition system at lock granularity.
    One receiver task runs [poll_next]; wakers, inserts, removes and the environment (data arriving on
    a stream, a stream closing) may be scheduled between any two of its critical sections, in
    particular inside the window where a stream is checked out and polled with the lock released.
    Executable (the harness replays the same labels on the real FairQueue).  No proofs here. *)
From ZV Require Import Base.Bytes.

(** a stream as the environment sees it *)
Record src := {
  s_items : list N;            (* items it can still yield, oldest first *)
  s_closed : bool;             (* yields None once s_items is empty *)
  s_reg : option (N * N)       (* waker kept from its last Pending poll: re-pushes this (priority, key) *)
}.

(** QYield: the stream returned Pending AND the waker it was polled with has already fired (tokio's cooperative
    budgeting does exactly that once a task's budget is used up; an I/O wake racing with the poll has the same effect) *)
Inductive polled := QSome (x : N) | QNone | QPending | QYield.

(** receiver program counter inside poll_next *)
Inductive pc :=
| Idle                                   (* not inside poll_next *)
| Loop                                   (* inside, about to take the lock (top of the loop) *)
| Out (ev : N * N)                       (* stream checked out, lock released, not polled yet *)
| Polled (ev : N * N) (r : polled).      (* stream polled, about to take the lock again *)

Record fq := {
  f_counter : N;
  f_heap : list (N * N);                 (* ready_queue: (priority, key), smallest priority first *)
  f_streams : list N;                    (* keys of the streams map *)
  f_srcs : list (N * src);               (* every stream object by key (in the map or checked out) *)
  f_rwaker : bool;                       (* inner.waker is Some *)
  f_pc : pc;
  f_parked : bool;                       (* last poll_next returned Pending and none started since *)
  f_woken : bool;                        (* receiver's waker invoked since it parked *)
  f_wakes : N;                           (* receiver waker invocations so far *)
  f_block : bool                         (* block_on_no_clients *)
}.

Definition fq0 (block : bool) : fq :=
  {| f_counter := 0; f_heap := []; f_streams := []; f_srcs := []; f_rwaker := false; f_pc := Idle;
     f_parked := false; f_woken := false; f_wakes := 0; f_block := block |}.

Inductive label :=
| LStart                                 (* the receiver calls poll_next *)
| LR1                                    (* first critical section of one loop iteration *)
| LR2                                    (* poll the checked-out stream, lock released *)
| LR2Y                                   (* the same, but the stream yields: it wakes the waker it is polled with and returns Pending *)
| LR3                                    (* second critical section *)
| LWake (k : N) (consume : bool)         (* stream k's kept waker fires (consume: the registration is used up) *)
| LInsert (k : N)
| LRemove (k : N)
| LArrive (k : N) (x : N)                (* environment: item x becomes available on stream k *)
| LClose (k : N)
| LYield.                                (* marker inside a poll window: that stream poll is a yielding one (no effect by itself) *)

Inductive event :=
| EReady (k : N) (x : N)                 (* poll_next returns Ready(Some((k, x))) *)
| EPending                               (* poll_next returns Pending *)
| ENone.                                 (* poll_next returns Ready(None) *)

Fixpoint heap_insert (e : N * N) (h : list (N * N)) : list (N * N) :=
  match h with
  | [] => [e]
  | x :: t => if fst e <? fst x then e :: h else x :: heap_insert e t
  end.

Definition memN (k : N) (l : list N) : bool := existsb (N.eqb k) l.
Definition delN (k : N) (l : list N) : list N := filter (fun x => negb (x =? k)) l.

Fixpoint get_src (k : N) (l : list (N * src)) : option src :=
  match l with [] => None | (k', s) :: t => if k' =? k then Some s else get_src k t end.
Fixpoint put_src (k : N) (s : src) (l : list (N * src)) : list (N * src) :=
  match l with [] => [(k, s)] | (k', s') :: t => if k' =? k then (k, s) :: t else (k', s') :: put_src k s t end.

Definition src0 : src := {| s_items := []; s_closed := false; s_reg := None |}.
Definition the_src (q : fq) (k : N) : src := match get_src k (f_srcs q) with Some s => s | None => src0 end.

Definition set_fq (q : fq) counter heap streams srcs rwaker pc parked woken wakes : fq :=
  {| f_counter := counter; f_heap := heap; f_streams := streams; f_srcs := srcs; f_rwaker := rwaker;
     f_pc := pc; f_parked := parked; f_woken := woken; f_wakes := wakes; f_block := f_block q |}.

(** invoke the receiver's waker *)
Definition wake_receiver (q : fq) (take : bool) : fq :=
  if f_rwaker q then
    set_fq q (f_counter q) (f_heap q) (f_streams q) (f_srcs q) (if take then false else true) (f_pc q)
           (f_parked q) true (f_wakes q + 1)
  else q.

Definition is_nilN (l : list N) : bool := match l with [] => true | _ => false end.

Definition step (q : fq) (l : label) : fq * list event :=
  match l with
  | LStart =>
    match f_pc q with
    | Idle => (set_fq q (f_counter q) (f_heap q) (f_streams q) (f_srcs q) (f_rwaker q) Loop false false (f_wakes q), [])
    | _ => (q, [])
    end
  | LR1 =>
    match f_pc q with
    | Loop =>
      (* inner.waker = Some(cx.waker()); pop; remove the stream *)
      match f_heap q with
      | [] =>
        if negb (is_nilN (f_streams q)) || f_block q
        then (set_fq q (f_counter q) [] (f_streams q) (f_srcs q) true Idle true (f_woken q) (f_wakes q), [EPending])
        else (set_fq q (f_counter q) [] (f_streams q) (f_srcs q) true Idle false (f_woken q) (f_wakes q), [ENone])
      | ev :: h' =>
        if memN (snd ev) (f_streams q)
        then (set_fq q (f_counter q) h' (delN (snd ev) (f_streams q)) (f_srcs q) true (Out ev) false (f_woken q) (f_wakes q), [])
        else (set_fq q (f_counter q) h' (f_streams q) (f_srcs q) true Loop false (f_woken q) (f_wakes q), [])
      end
    | _ => (q, [])
    end
  | LR2 =>
    match f_pc q with
    | Out ev =>
      let k := snd ev in
      let s := the_src q k in
      match s_items s with
      | x :: rest =>
        (set_fq q (f_counter q) (f_heap q) (f_streams q)
                (put_src k {| s_items := rest; s_closed := s_closed s; s_reg := s_reg s |} (f_srcs q))
                (f_rwaker q) (Polled ev (QSome x)) (f_parked q) (f_woken q) (f_wakes q), [])
      | [] =>
        if s_closed s
        then (set_fq q (f_counter q) (f_heap q) (f_streams q) (f_srcs q) (f_rwaker q) (Polled ev QNone) (f_parked q) (f_woken q) (f_wakes q), [])
        else (set_fq q (f_counter q) (f_heap q) (f_streams q)
                     (put_src k {| s_items := []; s_closed := false; s_reg := Some ev |} (f_srcs q))
                     (f_rwaker q) (Polled ev QPending) (f_parked q) (f_woken q) (f_wakes q), [])
      end
    | _ => (q, [])
    end
  | LR2Y =>
    match f_pc q with
    | Out ev =>
      (* cx.waker().wake_by_ref(): the event goes back on the heap, the receiver's waker is invoked (and taken) *)
      let q1 := set_fq q (f_counter q) (heap_insert ev (f_heap q)) (f_streams q) (f_srcs q)
                       (f_rwaker q) (Polled ev QYield) (f_parked q) (f_woken q) (f_wakes q) in
      (wake_receiver q1 true, [])
    | _ => (q, [])
    end
  | LR3 =>
    match f_pc q with
    | Polled ev (QSome x) =>
      (set_fq q (f_counter q + 1) (heap_insert (f_counter q, snd ev) (f_heap q)) (f_streams q ++ [snd ev]) (f_srcs q)
              (f_rwaker q) Idle false (f_woken q) (f_wakes q), [EReady (snd ev) x])
    | Polled ev QNone =>
      (set_fq q (f_counter q) (f_heap q) (f_streams q) (f_srcs q) (f_rwaker q) Loop (f_parked q) (f_woken q) (f_wakes q), [])
    | Polled ev QPending =>
      (set_fq q (f_counter q) (f_heap q) (f_streams q ++ [snd ev]) (f_srcs q) (f_rwaker q) Loop (f_parked q) (f_woken q) (f_wakes q), [])
    | Polled ev QYield =>
      (* the waker this poll used has fired: put the stream back and return Pending instead of looping *)
      (set_fq q (f_counter q) (f_heap q) (f_streams q ++ [snd ev]) (f_srcs q) (f_rwaker q) Idle true (f_woken q) (f_wakes q), [EPending])
    | _ => (q, [])
    end
  | LYield => (q, [])
  | LWake k consume =>
    let s := the_src q k in
    match s_reg s with
    | Some ev =>
      (* if the registration that fires was made by the stream poll in progress, that poll's waker has fired *)
      let pc' := match f_pc q with
                 | Polled ev0 QPending => if snd ev0 =? k then Polled ev0 QYield else f_pc q
                 | _ => f_pc q
                 end in
      let q1 := set_fq q (f_counter q) (heap_insert ev (f_heap q)) (f_streams q)
                       (if consume then put_src k {| s_items := s_items s; s_closed := s_closed s; s_reg := None |} (f_srcs q) else f_srcs q)
                       (f_rwaker q) pc' (f_parked q) (f_woken q) (f_wakes q) in
      (wake_receiver q1 true, [])
    | None => (q, [])
    end
  | LInsert k =>
    let q1 := set_fq q (f_counter q + 1) (heap_insert (f_counter q, k) (f_heap q))
                     (if memN k (f_streams q) then f_streams q else f_streams q ++ [k])
                     (match get_src k (f_srcs q) with Some _ => f_srcs q | None => put_src k src0 (f_srcs q) end)
                     (f_rwaker q) (f_pc q) (f_parked q) (f_woken q) (f_wakes q) in
    (wake_receiver q1 false, [])
  | LRemove k =>
    (set_fq q (f_counter q) (f_heap q) (delN k (f_streams q)) (f_srcs q) (f_rwaker q) (f_pc q) (f_parked q) (f_woken q) (f_wakes q), [])
  | LArrive k x =>
    let s := the_src q k in
    (set_fq q (f_counter q) (f_heap q) (f_streams q)
            (put_src k {| s_items := s_items s ++ [x]; s_closed := s_closed s; s_reg := s_reg s |} (f_srcs q))
            (f_rwaker q) (f_pc q) (f_parked q) (f_woken q) (f_wakes q), [])
  | LClose k =>
    let s := the_src q k in
    (set_fq q (f_counter q) (f_heap q) (f_streams q)
            (put_src k {| s_items := s_items s; s_closed := true; s_reg := s_reg s |} (f_srcs q))
            (f_rwaker q) (f_pc q) (f_parked q) (f_woken q) (f_wakes q), [])
  end.

Fixpoint run (q : fq) (ls : list label) : fq * list event :=
  match ls with
  | [] => (q, [])
  | l :: t => let '(q1, e1) := step q l in let '(q2, e2) := run q1 t in (q2, e1 ++ e2)
  end.

(** * Composite poll for the harness: one whole poll_next call, with environment labels injected in
    the window of the [idx]-th stream poll of this call (between R2's decision and R3). *)
Fixpoint poll_loop (fuel : nat) (q : fq) (idx : nat) (window : list label) (nth_poll : nat) : fq * list event * nat :=
  match fuel with
  | O => (q, [], nth_poll)
  | S f =>
    match f_pc q with
    | Idle => (q, [], nth_poll)
    | Loop => let '(q1, e1) := step q LR1 in
              let '(q2, e2, n2) := poll_loop f q1 idx window nth_poll in (q2, e1 ++ e2, n2)
    | Out _ =>
      (* the scripted stream runs the window events first, then answers *)
      let '(q0, e0) := if Nat.eqb nth_poll idx then run q window else (q, []) in
      let yielding := Nat.eqb nth_poll idx && existsb (fun l => match l with LYield => true | _ => false end) window in
      let '(q1, e1) := step q0 (if yielding then LR2Y else LR2) in
      let '(q2, e2, n2) := poll_loop f q1 idx window (S nth_poll) in (q2, e0 ++ e1 ++ e2, n2)
    | Polled _ _ => let '(q1, e1) := step q LR3 in
                    let '(q2, e2, n2) := poll_loop f q1 idx window nth_poll in (q2, e1 ++ e2, n2)
    end
  end.

(** window events that found no stream poll to ride on happen right after the call returns *)
Definition poll (q : fq) (idx : nat) (window : list label) : fq * list event :=
  let '(q1, _) := step q LStart in
  let '(q2, es, n) := poll_loop (4 * (length (f_heap q1) + length window + 2) + 4) q1 idx window 0 in
  if Nat.leb n idx then let '(q3, _) := run q2 window in (q3, es) else (q2, es).

(** ground truth for the no-lost-wake-up oracle *)
Definition src_ready (s : src) : bool := negb (match s_items s with [] => true | _ => false end) || s_closed s.
Definition some_registered_ready (q : fq) : bool :=
  existsb (fun k => src_ready (the_src q k)) (f_streams q).

(** * Drain (harness label D): the environment fires every owed waker (streams that are ready and
    still hold a registration), then an executor re-polls the receiver only while it has been woken. *)
Fixpoint insert_sorted (k : N) (l : list N) : list N :=
  match l with [] => [k] | x :: t => if k <=? x then k :: l else x :: insert_sorted k t end.
Definition sort_keys (l : list N) : list N := fold_right insert_sorted [] l.

Definition owed (q : fq) : list N :=
  sort_keys (map fst (filter (fun ks => src_ready (snd ks) && match s_reg (snd ks) with Some _ => true | None => false end) (f_srcs q))).

Definition fire_owed (q : fq) : fq := fold_left (fun acc k => fst (step acc (LWake k true))) (owed q) q.

Fixpoint executor (fuel : nat) (q : fq) : fq * list (list event) :=
  match fuel with
  | O => (q, [])
  | S f =>
    if f_parked q && negb (f_woken q) then (q, []) else
    let '(q1, es) := poll q 0 [] in
    match es with
    | [ENone] => (q1, [es])
    | _ => let '(q2, rest) := executor f q1 in (q2, es :: rest)
    end
  end.

Definition drain (q : fq) : fq * list (list event) :=
  let q1 := fire_owed q in
  executor (S (S (length (f_heap q1) + fold_right (fun ks a => (length (s_items (snd ks)) + a)%nat) 0%nat (f_srcs q1) + length (f_srcs q1)))) q1.

Definition left_items (q : fq) : list (N * nat) :=
  filter (fun kn => negb (Nat.eqb (snd kn) 0))
         (map (fun k => (k, length (s_items (the_src q k)))) (sort_keys (map fst (f_srcs q)))).
