(** Lemmas for Proofs/ReqRepWire.v: the single-connection fair-queue invariant for ANY fair-queue socket
    type (in particular REP), a side invariant (peer table + what has been written to a connection) that
    survives feeds and fair-queue polls, and the REQ socket with one peer (round-robin send, direct poll
    of the requestee's stream). *)
From Coq Require Import List Arith NArith Lia Bool.
From ZV Require Import Base.Bytes Base.Res Model.Codec Model.World Proofs.CodecEnc Proofs.Decoder Proofs.CodecRoundtrip
  Proofs.SocketProofs Proofs.WorldStreamDefs Proofs.WorldStreamLemmas Proofs.WorldStream Proofs.WorldWireLemmas Proofs.WorldWire.
Import ListNotations.
Open Scope N_scope.

Definition nonnil (chunks : list bytes) : list bytes := filter (fun c => negb (is_nil c)) chunks.

Ltac wp := cbn [w_type w_conns w_peers w_rr w_heap w_counter w_streams w_reg w_cur w_env w_subs
  with_conns with_peers with_rr with_fq with_cur set_w upd_conn].

Lemma run_cons w o ops :
  World.run w (o :: ops) = let '(bs, w') := World.step w o in bs ++ World.run w' ops.
Proof. reflexivity. Qed.

Lemma step_attach w c ann : World.step w (OAttach c ann) = ([BAtt c ann], do_attach w c ann).
Proof. reflexivity. Qed.

Lemma step_feed w c b : World.step w (OFeed c b) = ([], do_feed w c b).
Proof. reflexivity. Qed.

Lemma nonnil_cons b l : nonnil [b] ++ nonnil l = nonnil (b :: l).
Proof. unfold nonnil. cbn [filter]. destruct (negb (is_nil b)); reflexivity. Qed.

(** * Part 0: a poll never touches what was written *)
Lemma poll_wire : forall fuel c p c', poll_stream fuel c = (p, c') -> c_wire c' = c_wire c.
Proof.
  induction fuel as [|f IH]; intros c p c' H.
  - cbn [poll_stream] in H. apply pair_equal_spec in H as [_ <-]. reflexivity.
  - rewrite poll_S in H. destruct (dec1 (c_dec c) (c_buf c)) as [[r d1] b1].
    destruct r.
    + destruct (c_inq c) as [|ch rest].
      * cbv zeta in H. destruct (c_eof c); [destruct (is_nil b1)|];
          apply pair_equal_spec in H as [_ <-]; reflexivity.
      * apply IH in H. exact H.
    + apply pair_equal_spec in H as [_ <-]; reflexivity.
    + apply pair_equal_spec in H as [_ <-]; reflexivity.
    + apply pair_equal_spec in H as [_ <-]; reflexivity.
    + apply pair_equal_spec in H as [_ <-]; reflexivity.
Qed.

Lemma eager_new k ann : eager (new_conn k ann) = ([], reader_pg).
Proof.
  assert (wfd dec_post_greeting) as W by reflexivity.
  unfold eager. cbn [new_conn c_dec c_buf c_inq]. apply eag_quiet; [exact W|].
  unfold lenN. cbn [length dec_post_greeting waiting]. lia.
Qed.

Lemma okc_new k ann : okc (new_conn k ann).
Proof.
  split; [reflexivity|]. cbn [new_conn c_dec dec_post_greeting waiting]. lia.
Qed.

(** * Part 1: the side invariant: j is a peer and [wire] is what has been written to it *)
Definition cside (j : N) (wire : bytes) (l : list conn) : Prop :=
  exists c, get_conn j l = Some c /\ c_wire c = wire.
Definition side (j : N) (wire : bytes) (w : world) : Prop :=
  memN j (w_peers w) = true /\ cside j wire (w_conns w).

Lemma cside_put j wire l c0 c' :
  cside j wire l -> get_conn (c_id c') l = Some c0 -> c_wire c' = c_wire c0 -> cside j wire (put_conn c' l).
Proof.
  intros (c & Hg & Hw) Hg0 Hw0. unfold cside. rewrite get_put_conn.
  destruct (N.eqb_spec (c_id c') j) as [E|E].
  - exists c'. split; [reflexivity|]. rewrite E, Hg in Hg0. injection Hg0 as <-. congruence.
  - exists c. split; assumption.
Qed.

Lemma fq_next_side j wire : forall fuel w r w',
  side j wire w -> fq_next fuel w = (r, w') -> side j wire w'.
Proof.
  induction fuel as [|f IH]; intros w r w' Hs H.
  - cbn [fq_next] in H. apply pair_equal_spec in H as [_ <-]. exact Hs.
  - rewrite fq_next_S in H. destruct (w_heap w) as [|[p k0] h'].
    + apply pair_equal_spec in H as [_ <-]. exact Hs.
    + cbv zeta in H.
      assert (side j wire (with_fq w h' (w_counter w) (w_streams w) (w_reg w))) as Hs1 by exact Hs.
      destruct (negb _); [exact (IH _ _ _ Hs1 H)|].
      destruct (get_conn _ _) as [c|] eqn:Hg; [|exact (IH _ _ _ Hs1 H)].
      cbn [w_conns with_fq set_w] in Hg.
      pose proof (WorldStreamLemmas.get_conn_id _ _ _ Hg) as Hidc.
      destruct Hs as [Hp Hc].
      destruct (poll_stream _ c) as [[o| |] c'] eqn:HP;
        pose proof (poll_id _ _ _ _ HP) as Hid; pose proof (poll_wire _ _ _ _ HP) as Hwr;
        rewrite Hidc in Hid.
      * apply pair_equal_spec in H as [_ <-]. split; [exact Hp|]. wp.
        apply (cside_put j wire _ c c'); [exact Hc|rewrite Hid; exact Hg|exact Hwr].
      * apply IH in H; [exact H|]. split; [exact Hp|]. wp.
        apply (cside_put j wire _ c c'); [exact Hc|rewrite Hid; exact Hg|exact Hwr].
      * apply IH in H; [exact H|]. split; [exact Hp|]. wp.
        apply (cside_put j wire _ c); [exact Hc|cbn [c_with_halves c_id]; rewrite Hid; exact Hg|
                                        cbn [c_with_halves c_wire]; exact Hwr].
Qed.

Lemma fq_wake_same w k :
  w_peers (fq_wake w k) = w_peers w /\ w_conns (fq_wake w k) = w_conns w /\ w_cur (fq_wake w k) = w_cur w /\
  w_env (fq_wake w k) = w_env w /\ w_rr (fq_wake w k) = w_rr w /\ w_type (fq_wake w k) = w_type w.
Proof. unfold fq_wake. destruct (reg_get k (w_reg w)); repeat split; reflexivity. Qed.

Lemma do_feed_side j wire w b : side j wire w -> side j wire (do_feed w j b).
Proof.
  intros Hs. unfold do_feed. destruct (get_conn j (w_conns w)) as [cn|] eqn:Hg; [|exact Hs].
  destruct (is_nil b || c_eof cn); [exact Hs|].
  destruct (fq_wake_same (upd_conn w (c_with_in cn (c_inq cn ++ [b]) (c_eof cn))) j) as (P & C & _).
  destruct Hs as [Hp Hc]. split; [rewrite P; exact Hp|]. rewrite C. wp.
  apply (cside_put j wire _ cn); [exact Hc| |reflexivity].
  cbn [c_with_in c_id]. rewrite (WorldStreamLemmas.get_conn_id _ _ _ Hg). exact Hg.
Qed.

Lemma side_write j wire w m : side j wire w -> side j (wire ++ encode_frames m) (write_msg w j m).
Proof.
  intros [Hp (c & Hg & Hw)]. unfold write_msg. rewrite Hg. split; [exact Hp|]. wp.
  exists (c_with_wire c (c_wire c ++ encode_frames m)). split.
  - apply get_put_same. cbn [c_with_wire c_id]. exact (WorldStreamLemmas.get_conn_id _ _ _ Hg).
  - cbn [c_with_wire c_wire]. rewrite Hw. reflexivity.
Qed.

Lemma wire_step j wire w : side j wire w ->
  exists w', World.step w (OWire j) = ([BWire j wire], w') /\ w_type w' = w_type w /\ w_cur w' = w_cur w /\
             side j [] w'.
Proof.
  intros [Hp (c & Hg & Hw)]. cbn [World.step]. rewrite Hg, Hw.
  eexists. split; [reflexivity|]. split; [reflexivity|]. split; [reflexivity|].
  split; [exact Hp|]. wp. exists (c_with_wire c []). split; [|reflexivity].
  apply get_put_same. cbn [c_with_wire c_id]. exact (WorldStreamLemmas.get_conn_id _ _ _ Hg).
Qed.

(** * Part 2: one connection behind the fair queue, for every fair-queue socket type *)
Lemma single_attach_fq t k : has_fq t = true -> single t k [] [] (do_attach (world0 t) k None).
Proof.
  intros Hf.
  destruct (attached_Ginv t [k] Hf) as [T K].
  change (attached t [k]) with (do_attach (world0 t) k None) in *.
  destruct (do_attach_spec (world0 t) k Hf eq_refl) as (_ & _ & C & H & _).
  split; [exact T|]. split; [|split].
  - rewrite H. cbn [world0 w_heap w_counter heap_insert].
    intros k' [E|[]]. cbn [snd] in E. congruence.
  - rewrite C. cbn [world0 w_conns put_conn]. constructor; [reflexivity|constructor].
  - apply (K k). left. reflexivity.
Qed.

Lemma single_feed_fq t k ch os w b : single t k ch os w ->
  single t k (ch ++ nonnil [b]) os (do_feed w k b).
Proof.
  intros (T & Hh & Ha & Hst).
  split; [rewrite (proj2 (do_feed_streams w k b)); exact T|].
  split; [|split].
  - unfold do_feed. destruct (get_conn k (w_conns w)) as [cn|]; [|exact Hh].
    destruct (is_nil b || c_eof cn); [exact Hh|].
    unfold fq_wake. destruct (reg_get _ _) as [p|]; wproj; [|exact Hh].
    apply heap_only_insert. exact Hh.
  - unfold do_feed. destruct (get_conn k (w_conns w)) as [cn|] eqn:Hg; [|exact Ha].
    destruct (is_nil b || c_eof cn); [exact Ha|].
    rewrite (proj1 (fq_wake_spec _ k)). wproj. apply anns_put; [|exact Ha].
    cbn [c_with_in c_ann]. exact (anns_get _ _ _ Ha Hg).
  - pose proof (st_feed k k b ch false os w Hst) as X.
    cbn [chunks_of closed_of orb] in X. rewrite N.eqb_refl in X. cbn [andb] in X.
    unfold nonnil. cbn [filter]. destruct (negb (is_nil b)); exact X.
Qed.

Lemma next_single_fq t k ch os w r w1 : single t k ch os w ->
  fq_next (next_fuel w) w = (r, w1) ->
  (r = FPending /\ os = expected ch false /\ single t k ch os w1) \/
  (exists i, r = FItem k (OItem i) /\ single t k ch (os ++ [OItem i]) w1) \/
  (exists e, r = FItem k (OErr e) /\ os ++ [OErr e] = expected ch false).
Proof.
  intros (T & Hh & Ha & Hst) H.
  destruct (fq_next_single k _ _ _ _ Hh Ha H) as (Hh1 & Ha1 & Hk).
  apply (fq_next_spec k ch false os) in H; [|unfold next_fuel; lia|exact Hst].
  destruct H as [T1 NP]. rewrite T in T1.
  destruct r as [k' o|].
  - pose proof (Hk k' o eq_refl) as ->. unfold next_post in NP. rewrite N.eqb_refl in NP.
    destruct o as [i|e|s|]; [| |contradiction|contradiction].
    + right. left. exists i. split; [reflexivity|].
      split; [exact T1|split; [exact Hh1|split; [exact Ha1|left; exact NP]]].
    + right. right. exists e. split; [reflexivity|]. apply final_ok_open. exact NP.
  - left. destruct NP as [Hheap Hst1]. split; [reflexivity|]. split.
    + exact (st_complete k ch false os w1 Hst1 Hheap).
    + split; [exact T1|split; [exact Hh1|split; [exact Ha1|exact Hst1]]].
Qed.

(** feeds keep both invariants *)
Lemma run_feeds_fq t k wire : forall chunks ch os w ops, single t k ch os w -> side k wire w ->
  exists w', World.run w (map (OFeed k) chunks ++ ops) = World.run w' ops /\
             single t k (ch ++ nonnil chunks) os w' /\ side k wire w'.
Proof.
  induction chunks as [|b chunks IH]; intros ch os w ops Hs Hsd.
  - exists w. cbn [map app nonnil filter]. rewrite app_nil_r. split; [reflexivity|split; assumption].
  - cbn [map app]. rewrite run_cons, step_feed. cbn [app].
    destruct (IH _ _ _ ops (single_feed_fq t k ch os w b Hs) (do_feed_side k wire w b Hsd)) as (w' & R & Hs' & Hsd').
    exists w'. split; [exact R|]. split; [|exact Hsd'].
    rewrite <- app_assoc, nonnil_cons in Hs'. exact Hs'.
Qed.

(** * Part 3: REP *)
Lemma rep_attach j : single REP j [] [] (do_attach (world0 REP) j None) /\ side j [] (do_attach (world0 REP) j None).
Proof.
  split; [apply single_attach_fq; reflexivity|].
  unfold do_attach, side, cside.
  cbn [world0 w_type w_conns w_peers with_conns with_peers set_w fq_insert with_fq put_conn get_conn new_conn c_id
       delN filter app].
  unfold memN. cbn [existsb]. rewrite N.eqb_refl. split; [reflexivity|].
  eexists. split; reflexivity.
Qed.

(** a recv when the next thing on the wire is a request m that [rep_split] accepts *)
Lemma rep_recv_msg j ch os w m rest wire env data :
  single REP j ch os w -> side j wire w ->
  expected ch false = os ++ OI m :: rest -> rep_split m = Ok (env, data) ->
  exists w', World.step w ORecv = ([BRecv None data], w') /\ w_type w' = REP /\
             w_cur w' = Some j /\ w_env w' = Some env /\ side j wire w'.
Proof.
  intros Hs Hsd He Hsp. pose proof Hs as (T & _).
  assert (World.step w ORecv =
          let '(b, w') := recv_fq (S (length (w_conns w) + fold_right (fun c a => (conn_bytes c + a)%nat) 0%nat (w_conns w))) w in ([b], w')) as ->
    by (unfold World.step; rewrite T; reflexivity).
  rewrite recv_fq_S.
  destruct (fq_next (next_fuel w) w) as [r w1] eqn:HN.
  pose proof (fq_next_side j wire _ _ _ _ Hsd HN) as Hsd1.
  destruct (next_single_fq REP j ch os w r w1 Hs HN) as [(-> & E & _)|[(i & -> & Hs1)|(e & -> & E)]].
  - exfalso. rewrite He in E. exact (app_cons_not_self _ _ _ E).
  - pose proof Hs1 as (T1 & _ & _ & Hst1).
    destruct (st_prefix j ch false _ w1 Hst1) as [rest' P].
    rewrite He, <- app_assoc in P. apply app_inv_head in P. cbn [app] in P.
    injection P as <- _. rewrite T, Hsp.
    eexists. split; [reflexivity|]. wp.
    split; [exact T1|]. split; [reflexivity|]. split; [reflexivity|]. exact Hsd1.
  - exfalso. rewrite He in E. apply app_inv_head in E. discriminate E.
Qed.

(** the reply goes to the requester behind the stored envelope *)
Lemma rep_send j wire w env r :
  w_type w = REP -> w_cur w = Some j -> w_env w = Some env -> side j wire w ->
  exists w', World.step w (OSend r) = ([BSendOk], w') /\ w_type w' = REP /\ w_cur w' = None /\
             side j (wire ++ encode_frames (env ++ r)) w'.
Proof.
  intros T Hc He Hsd.
  rewrite (rep_reply_goes_to_requester w j r T Hc (proj1 Hsd)), He. cbn [rep_wrap].
  eexists. split; [reflexivity|].
  pose proof (side_write j wire w (env ++ r) Hsd) as X.
  destruct (write_msg_tables_unchanged w j (env ++ r)) as (_ & _ & _ & _ & T' & _).
  wp. split; [rewrite T'; exact T|]. split; [reflexivity|]. exact X.
Qed.

(** * Part 4: REQ with one peer *)
Definition reqst (k : N) (cur : option N) (wire : bytes) (ch : list bytes) (os : list out) (w : world) : Prop :=
  w_type w = REQ /\ w_rr w = [k] /\ w_cur w = cur /\ w_reg w = [] /\ memN k (w_peers w) = true /\
  exists c, get_conn k (w_conns w) = Some c /\ c_wire c = wire /\ okc c /\ c_eof c = false /\
    feed_all reader_pg ch = (os ++ fst (eager c), snd (eager c)).

Lemma req_attach k : reqst k None [] [] [] (do_attach (world0 REQ) k None).
Proof.
  unfold do_attach, reqst.
  cbn [world0 w_type w_conns w_peers w_rr w_cur w_reg with_conns with_peers with_rr set_w put_conn get_conn new_conn c_id
       delN filter app].
  unfold memN. cbn [existsb]. rewrite N.eqb_refl.
  split; [reflexivity|]. split; [reflexivity|]. split; [reflexivity|]. split; [reflexivity|]. split; [reflexivity|].
  exists (new_conn k None). split; [reflexivity|]. split; [reflexivity|]. split; [apply okc_new|].
  split; [reflexivity|]. rewrite eager_new. reflexivity.
Qed.

Lemma req_send k wire ch os w m : reqst k None wire ch os w ->
  exists w', World.step w (OSend m) = ([BSendOk], w') /\
             reqst k (Some k) (wire ++ encode_frames ([] :: m)) ch os w'.
Proof.
  intros (T & Hrr & Hc & Hreg & Hp & c & Hg & Hw & Hok & He & Hf).
  assert (World.step w (OSend m) = let '(b, w') := send_rr (S (length (w_rr w))) w m in ([b], w')) as ->
    by (unfold World.step; rewrite T, Hc; reflexivity).
  rewrite Hrr. cbn [length send_rr]. rewrite Hrr. cbn [w_peers with_rr set_w]. rewrite Hp, T.
  eexists. split; [reflexivity|].
  unfold write_msg, req_wrap. wp. cbn [app]. rewrite Hg. wp.
  split; [exact T|]. split; [reflexivity|]. split; [reflexivity|]. split; [exact Hreg|]. split; [exact Hp|].
  exists (c_with_wire c (c_wire c ++ encode_frames ([] :: m))). split.
  - apply get_put_same. cbn [c_with_wire c_id]. exact (WorldStreamLemmas.get_conn_id _ _ _ Hg).
  - cbn [c_with_wire c_wire]. rewrite Hw. split; [reflexivity|]. split; [exact Hok|]. split; [exact He|exact Hf].
Qed.

Lemma req_wire k cur wire ch os w : reqst k cur wire ch os w ->
  exists w', World.step w (OWire k) = ([BWire k wire], w') /\ reqst k cur [] ch os w'.
Proof.
  intros (T & Hrr & Hc & Hreg & Hp & c & Hg & Hw & Hok & He & Hf).
  cbn [World.step]. rewrite Hg, Hw. eexists. split; [reflexivity|]. unfold reqst. wp.
  split; [exact T|]. split; [exact Hrr|]. split; [exact Hc|]. split; [exact Hreg|]. split; [exact Hp|].
  exists (c_with_wire c []). split.
  - apply get_put_same. cbn [c_with_wire c_id]. exact (WorldStreamLemmas.get_conn_id _ _ _ Hg).
  - split; [reflexivity|]. split; [exact Hok|]. split; [exact He|exact Hf].
Qed.

Lemma req_feed k cur wire ch os w b : reqst k cur wire ch os w ->
  reqst k cur wire (ch ++ nonnil [b]) os (do_feed w k b).
Proof.
  intros (T & Hrr & Hc & Hreg & Hp & c & Hg & Hw & Hok & He & Hf).
  unfold do_feed. rewrite Hg, He, orb_false_r. unfold nonnil. cbn [filter].
  destruct (is_nil b) eqn:Hb; cbn [negb].
  - rewrite app_nil_r.
    split; [exact T|]. split; [exact Hrr|]. split; [exact Hc|]. split; [exact Hreg|]. split; [exact Hp|].
    exists c. split; [exact Hg|]. split; [exact Hw|]. split; [exact Hok|]. split; [exact He|exact Hf].
  - unfold fq_wake. wp. rewrite Hreg. cbn [reg_get]. unfold reqst. wp.
    split; [exact T|]. split; [exact Hrr|]. split; [exact Hc|]. split; [exact Hreg|]. split; [exact Hp|].
    exists (c_with_in c (c_inq c ++ [b]) false). split.
    + apply get_put_same. cbn [c_with_in c_id]. exact (WorldStreamLemmas.get_conn_id _ _ _ Hg).
    + split; [exact Hw|]. split; [exact Hok|]. split; [reflexivity|].
      unfold eager. cbn [c_with_in c_dec c_buf c_inq]. rewrite eag_snoc.
      fold (eager c). rewrite feed_all_app, Hf. cbn [feed_all].
      destruct (feed (snd (eager c)) b) as [o2 r2]. cbn [fst snd].
      rewrite app_nil_r, app_assoc. reflexivity.
Qed.

Lemma req_run_feeds k cur wire os : forall chunks ch w ops, reqst k cur wire ch os w ->
  exists w', World.run w (map (OFeed k) chunks ++ ops) = World.run w' ops /\
             reqst k cur wire (ch ++ nonnil chunks) os w'.
Proof.
  induction chunks as [|b chunks IH]; intros ch w ops Hs.
  - exists w. cbn [map app nonnil filter]. rewrite app_nil_r. split; [reflexivity|exact Hs].
  - cbn [map app]. rewrite run_cons, step_feed. cbn [app].
    destruct (IH _ _ ops (req_feed k cur wire ch os w b Hs)) as (w' & R & Hs').
    exists w'. split; [exact R|]. rewrite <- app_assoc, nonnil_cons in Hs'. exact Hs'.
Qed.

(** REQ recv when the next thing on the requestee's stream is the reply [] :: r *)
Lemma req_recv_msg k wire ch os w r rest : r <> [] -> reqst k (Some k) wire ch os w ->
  expected ch false = os ++ OI ([] :: r) :: rest ->
  exists w', World.step w ORecv = ([BRecv None r], w') /\ reqst k None wire ch (os ++ [OI ([] :: r)]) w'.
Proof.
  intros Hr (T & Hrr & Hc & Hreg & Hp & c & Hg & Hw & Hok & He & Hf) Hex.
  assert (World.step w ORecv = let '(b, w') := recv_req w in ([b], w')) as ->
    by (unfold World.step; rewrite T; reflexivity).
  unfold recv_req. rewrite Hc, Hp, Hg. cbn [negb].
  assert (fst (eager c) = OI ([] :: r) :: rest) as Hfe.
  { unfold expected in Hex. rewrite Hf in Hex. apply app_inv_head in Hex. exact Hex. }
  destruct (poll_stream (S (length (c_inq c))) c) as [pl c'] eqn:HP.
  pose proof (poll_wire _ _ _ _ HP) as Hwr.
  apply poll_spec in HP; [|exact Hok|lia]. destruct HP as (Hid & He' & HP).
  unfold poll_post in HP.
  destruct pl as [[i|e|s|]| |].
  - destruct HP as [Hok' Hea]. rewrite Hea in Hfe. cbn [fst] in Hfe. unfold OI in Hfe.
    injection Hfe as Hi Hrest. subst i.
    rewrite (req_unwrap_strips_exactly r Hr).
    eexists. split; [reflexivity|]. unfold reqst. wp.
    split; [exact T|]. split; [exact Hrr|]. split; [reflexivity|]. split; [exact Hreg|]. split; [exact Hp|].
    exists c'. split.
    + apply get_put_same. rewrite Hid. exact (WorldStreamLemmas.get_conn_id _ _ _ Hg).
    + split; [congruence|]. split; [exact Hok'|]. split; [congruence|].
      rewrite Hf, Hea. cbn [fst snd]. unfold OI. rewrite <- app_assoc. reflexivity.
  - exfalso. destruct HP as [[Hx _]|(_ & _ & Hx & _)]; rewrite Hx in Hfe; discriminate Hfe.
  - contradiction.
  - contradiction.
  - exfalso. destruct HP as (_ & _ & Hx). rewrite Hx in Hfe. discriminate Hfe.
  - exfalso. destruct HP as (_ & Hx & _). rewrite Hx in Hfe. discriminate Hfe.
Qed.

Lemma req_recv_none k wire ch os w : reqst k None wire ch os w ->
  World.step w ORecv = ([BRecvErr EOther], w).
Proof. intros (T & _ & Hc & _). exact (req_recv_out_of_turn w T Hc). Qed.
