(** C16 at the level of the whole socket model: a failing connection is reported once, forgotten and released,
    and never disturbs the others. *)
From Coq Require Import List Arith NArith Lia Bool.
From ZV Require Import Base.Bytes Base.Res Model.Codec Model.World Proofs.Decoder
  Proofs.WorldStreamDefs Proofs.WorldStreamLemmas Proofs.WorldStream.
From ZV Require Import Proofs.WorldErrorsLemmas.
Import ListNotations.
Open Scope N_scope.

Definition is_err (o : out) : bool := match o with OItem _ => false | _ => true end.

(** STATEMENTS TO PROVE (do not change them) *)

(** E1: the declarative reading of a byte stream contains at most one non-item, and it is the last element *)
Theorem expected_error_is_last : forall chunks closed pre o post,
  expected chunks closed = pre ++ o :: post -> is_err o = true -> post = [].
Proof.
  intros chunks closed pre o post H Ho.
  exact (proj1 (ws_split pre _ o post (expected_shape chunks closed) H Ho)).
Qed.

(** E2: hence, whatever the interleaving, at most one error is handed out for a connection and nothing after it *)
Theorem world_error_once : forall t cs es k pre o post,
  has_fq t = true -> NoDup cs -> In k cs ->
  outs_of k (fst (wrun (attached t cs) es)) = pre ++ o :: post -> is_err o = true ->
  post = [] /\ forallb (fun x => negb (is_err x)) pre = true.
Proof.
  intros t cs es k pre o post Ht Hnd Hk H Ho.
  destruct (world_stream_prefix t cs es k Ht Hnd Hk) as [rest Hrest].
  assert (ws (outs_of k (fst (wrun (attached t cs) es))) = true) as W.
  { apply (ws_prefix _ rest). rewrite <- Hrest. apply expected_shape. }
  exact (ws_split pre _ o post W H Ho).
Qed.

(** E3: once its error has been handed out the connection is forgotten and released: not a peer, not a registered
    stream, both halves dropped *)
Theorem world_error_forgets : forall t cs es k rs w,
  has_fq t = true -> NoDup cs -> In k cs ->
  wrun (attached t cs) es = (rs, w) -> existsb is_err (outs_of k rs) = true ->
  memN k (w_peers w) = false /\ memN k (w_streams w) = false /\
  (forall c, get_conn k (w_conns w) = Some c -> c_rd c = false /\ c_wr c = false).
Proof.
  intros t cs es k rs w Ht _ Hk HR Herr.
  destruct (run_J t cs k Ht Hk es rs w HR) as [_ (c & G & _ & HJ)].
  change (existsb nonitem (outs_of k rs) = true) in Herr. rewrite Herr in HJ.
  destruct HJ as (J1 & J2 & J3 & J4).
  split; [exact J1|split; [exact J2|]].
  intros c0 G0. rewrite G in G0. injection G0 as <-. split; assumption.
Qed.

(** E4: ... and a connection that has NOT failed and was not closed by its peer is still a registered peer, both halves held *)
Theorem world_healthy_kept : forall t cs es k rs w,
  has_fq t = true -> NoDup cs -> In k cs ->
  wrun (attached t cs) es = (rs, w) -> existsb is_err (outs_of k rs) = false -> closed_of k es = false ->
  memN k (w_peers w) = true /\ memN k (w_streams w) = true /\
  (exists c, get_conn k (w_conns w) = Some c /\ c_rd c = true /\ c_wr c = true).
Proof.
  intros t cs es k rs w Ht _ Hk HR Herr Hcl.
  destruct (run_J t cs k Ht Hk es rs w HR) as [_ (c & G & _ & HJ)].
  change (existsb nonitem (outs_of k rs) = false) in Herr. rewrite Herr in HJ.
  destruct HJ as (J1 & J2 & J3 & J4).
  pose proof (J4 Hcl) as M.
  split; [exact J1|split; [exact M|]].
  exists c. split; [exact G|split; [exact (J3 M)|exact J2]].
Qed.

(** non-vacuity: connection 0 sends a frame with reserved flag bits... an incomplete frame and closes; connection 1 is fine *)
Definition we_es := [WFeed 0 [0;5;1;2]; WEof 0; WFeed 1 (encode_frames [[9]]); WNext; WNext; WNext].
Example we_sample :
  outs_of 0 (fst (wrun (attached PULL [0;1]) we_es)) = [OErr EIoEof] /\
  outs_of 1 (fst (wrun (attached PULL [0;1]) we_es)) = [OItem (IMessage [[9]])] /\
  memN 0 (w_peers (snd (wrun (attached PULL [0;1]) we_es))) = false /\
  memN 1 (w_peers (snd (wrun (attached PULL [0;1]) we_es))) = true.
Proof. vm_compute. repeat split; reflexivity. Qed.

(** the listed finding clean-eof-keeps-write-half, as the model shows it: a peer that closes while nothing is
    buffered ends its stream silently - the read half goes, the peer-table entry and the write half stay *)
Definition we_clean := [WFeed 0 (encode_frames [[9]]); WEof 0; WNext; WNext].
Example world_clean_close_keeps_peer :
  outs_of 0 (fst (wrun (attached PULL [0]) we_clean)) = [OItem (IMessage [[9]])] /\
  memN 0 (w_peers (snd (wrun (attached PULL [0]) we_clean))) = true /\
  memN 0 (w_streams (snd (wrun (attached PULL [0]) we_clean))) = false /\
  map (fun c => (c_rd c, c_wr c)) (w_conns (snd (wrun (attached PULL [0]) we_clean))) = [(false, true)].
Proof. vm_compute. repeat split; reflexivity. Qed.

Print Assumptions expected_error_is_last.
Print Assumptions world_error_once.
Print Assumptions world_error_forgets.
Print Assumptions world_healthy_kept.
