(** C04: compatibility table and admission decision. *)
From ZV Require Import Base.Bytes Base.Res Spec.Compat Model.Codec Model.Handshake Proofs.BytesProofs.
From Coq Require Import ZArith ZifyN ZifyNat ZifyBool.

Definition sname_of (s : stype) : sname :=
  match s with
  | PAIR => nPAIR | PUB => nPUB | SUB => nSUB | REQ => nREQ | REP => nREP | DEALER => nDEALER
  | ROUTER => nROUTER | PULL => nPULL | PUSH => nPUSH | XPUB => nXPUB | XSUB => nXSUB | STREAM => nSTREAM
  end.

Lemma all_stypes_complete s : In s all_stypes.
Proof. destruct s; cbn; tauto. Qed.

(** The tables the model refers to are the code's (regenerated). *)
Lemma gen_tables :
  Gen.discriminants = map (fun s => (stype_name s, stype_idx s)) all_stypes /\
  Gen.as_str_table = map (fun s => (stype_name s, stype_name s)) all_stypes /\
  Gen.from_bytes_table = map (fun s => (stype_name s, stype_name s)) all_stypes /\
  Gen.max_id = 255 /\ Gen.id_guard_is_gt = 1 /\ Gen.version_cmp_is_ge = 1 /\
  Gen.gr_default_major = 3 /\ Gen.gr_default_minor = 0.
Proof. repeat split; reflexivity. Qed.

(** Finite sweep over all 12 x 12 pairs, lifted to a universally quantified statement. *)
Definition compat_table_ok : bool :=
  forallb (fun a => forallb (fun b =>
    match compatible a b with
    | Ok v => Bool.eqb v (rfc_compat (sname_of a) (sname_of b))
    | _ => false
    end) all_stypes) all_stypes.

Lemma compat_table_ok_true : compat_table_ok = true.
Proof. vm_compute. reflexivity. Qed.

Theorem compat_is_rfc a b : compatible a b = Ok (rfc_compat (sname_of a) (sname_of b)).
Proof.
  pose proof compat_table_ok_true as H. unfold compat_table_ok in H.
  rewrite forallb_forall in H. specialize (H a (all_stypes_complete a)).
  rewrite forallb_forall in H. specialize (H b (all_stypes_complete b)).
  destruct (compatible a b) as [v|e|p]; try discriminate.
  apply eqb_prop in H. subst. reflexivity.
Qed.

Theorem rfc_compat_symmetric x y : rfc_compat x y = rfc_compat y x.
Proof. destruct x, y; reflexivity. Qed.

Theorem compat_symmetric a b : compatible a b = compatible b a.
Proof. rewrite !compat_is_rfc, rfc_compat_symmetric. reflexivity. Qed.

Theorem compat_total a b : exists v, compatible a b = Ok v.
Proof. eexists. apply compat_is_rfc. Qed.

Theorem stype_of_name_name s : stype_of_name (stype_name s) = Some s.
Proof. destruct s; reflexivity. Qed.

Lemma stype_of_name_sound n s : stype_of_name n = Some s -> n = stype_name s.
Proof.
  unfold stype_of_name. intros H. apply find_some in H as [_ H].
  apply bytes_eqb_eq in H. congruence.
Qed.

(** version rule: accepted iff (major, minor) >= (3, 0) lexicographically *)
Theorem negotiate_iff g : negotiate g = Ok tt <-> (3 < g_major g \/ (g_major g = 3 /\ 0 <= g_minor g)).
Proof.
  unfold negotiate, version_ge. change Gen.gr_default_major with 3. change Gen.gr_default_minor with 0.
  destruct (N.ltb_spec 3 (g_major g)); destruct (N.eqb_spec (g_major g) 3); destruct (N.leb_spec 0 (g_minor g));
    cbn; split; intros; try discriminate; try lia; reflexivity.
Qed.

Theorem negotiate_cases g : negotiate g = Ok tt \/ negotiate g = Err EUnsupportedVersion.
Proof. unfold negotiate. destruct (version_ge _ _ _ _); auto. Qed.

(** identity rule *)
Theorem peer_identity_spec v :
  match v with
  | None => peer_identity v = Ok IdFresh
  | Some b => if lenN b =? 0 then peer_identity v = Ok IdFresh
              else if lenN b <=? 255 then peer_identity v = Ok (IdAnnounced b)
              else peer_identity v = Err EPeerIdentity
  end.
Proof.
  destruct v as [b|]; [|reflexivity]. unfold peer_identity. change Gen.max_id with 255.
  destruct b as [|x b]; [reflexivity|].
  rewrite lenN_cons. destruct (N.eqb_spec (1 + lenN b) 0); [lia|].
  destruct (N.leb_spec (1 + lenN b) 255); destruct (N.ltb_spec 255 (1 + lenN b)); try lia; reflexivity.
Qed.

(** Admission decision on a READY: accepted iff Socket-Type is present, one of the twelve names,
    RFC-compatible with the local type, and the Identity (if any) is at most 255 bytes; the
    identity registered is the announced one, or fresh when absent or empty. *)
Definition ready_valid (local : stype) (props : list (bytes * bytes)) (i : ident) : Prop :=
  exists other,
    assoc ascii_Socket_Type props = Some (stype_name other) /\
    rfc_compat (sname_of local) (sname_of other) = true /\
    match assoc ascii_Identity props with
    | None => i = IdFresh
    | Some b => lenN b <= 255 /\ i = (if lenN b =? 0 then IdFresh else IdAnnounced b)
    end.

Theorem ready_decision_iff local props i :
  ready_decision local (Some (OItem (ICommand props))) = Ok i <-> ready_valid local props i.
Proof.
  unfold ready_decision, ready_valid. split.
  - destruct (assoc ascii_Socket_Type props) as [s|] eqn:Es; [|discriminate].
    destruct (stype_of_name s) as [other|] eqn:Eo; [|discriminate].
    apply stype_of_name_sound in Eo. subst s.
    pose proof (peer_identity_spec (assoc ascii_Identity props)) as Hid.
    rewrite compat_is_rfc.
    destruct (assoc ascii_Identity props) as [b|].
    + destruct (N.eqb_spec (lenN b) 0) as [Hz|Hz].
      * rewrite Hid. destruct (rfc_compat _ _) eqn:Ec; [|discriminate]. intros [= <-].
        exists other. repeat split; [assumption|lia].
      * destruct (N.leb_spec (lenN b) 255).
        -- rewrite Hid. destruct (rfc_compat _ _) eqn:Ec; [|discriminate]. intros [= <-].
           exists other. repeat split; assumption.
        -- rewrite Hid. discriminate.
    + rewrite Hid. destruct (rfc_compat _ _) eqn:Ec; [|discriminate]. intros [= <-].
      exists other. repeat split; assumption.
  - intros (other & Hs & Hc & Hi). rewrite Hs, stype_of_name_name, compat_is_rfc, Hc.
    pose proof (peer_identity_spec (assoc ascii_Identity props)) as Hid.
    destruct (assoc ascii_Identity props) as [b|].
    + destruct Hi as [Hl ->]. destruct (N.eqb_spec (lenN b) 0); [rewrite Hid; reflexivity|].
      destruct (N.leb_spec (lenN b) 255); [|lia]. rewrite Hid. reflexivity.
    + subst i. rewrite Hid. reflexivity.
Qed.

(** anything that is not a READY command as the first post-greeting item is refused *)
Theorem ready_decision_non_command local o :
  (forall props, o <> Some (OItem (ICommand props))) ->
  (exists e, ready_decision local o = Err e) \/ (exists p, o = Some (OPanic p)).
Proof.
  intros H. destruct o as [[[g|props|m]|e|p|]|]; unfold ready_decision; eauto.
  exfalso. eapply H. reflexivity.
Qed.

Theorem ready_decision_total local o : (forall p, o <> Some (OPanic p)) ->
  forall p, ready_decision local o <> Panic p.
Proof.
  intros Hn p. destruct o as [[[g|props|m]|e|q|]|]; unfold ready_decision; try discriminate.
  - destruct (assoc ascii_Socket_Type props) as [b|]; [|discriminate].
    destruct (stype_of_name b) as [other|]; [|discriminate].
    pose proof (peer_identity_spec (assoc ascii_Identity props)) as Hid.
    rewrite compat_is_rfc.
    destruct (assoc ascii_Identity props) as [i|].
    + destruct (lenN i =? 0).
      * rewrite Hid. destruct (rfc_compat _ _); discriminate.
      * destruct (lenN i <=? 255); rewrite Hid; [destruct (rfc_compat _ _)|]; discriminate.
    + rewrite Hid. destruct (rfc_compat _ _); discriminate.
  - exfalso. eapply Hn. reflexivity.
Qed.

(** * Registration *)
Lemma remove_key_not_in k l : ~ In k (remove_key k l).
Proof.
  induction l as [|x l IH]; cbn; [tauto|].
  destruct (bytes_eqb x k) eqn:E; [assumption|].
  intros [->|H]; [rewrite bytes_eqb_refl in E; discriminate|tauto].
Qed.

Lemma remove_key_other k x l : x <> k -> (In x (remove_key k l) <-> In x l).
Proof.
  intros Hne. induction l as [|y l IH]; cbn; [tauto|].
  destruct (bytes_eqb y k) eqn:E.
  - apply bytes_eqb_eq in E. subst y. split; [tauto|]. intros [->|H]; [congruence|tauto].
  - cbn. tauto.
Qed.

Lemma count_occ_remove_key k l : count_occ (list_eq_dec N.eq_dec) (remove_key k l) k = 0%nat.
Proof. apply count_occ_not_In. apply remove_key_not_in. Qed.

Lemma count_occ_remove_key_other k x l : x <> k ->
  count_occ (list_eq_dec N.eq_dec) (remove_key k l) x = count_occ (list_eq_dec N.eq_dec) l x.
Proof.
  intros Hne. induction l as [|y l IH]; cbn; [reflexivity|].
  destruct (bytes_eqb y k) eqn:E.
  - apply bytes_eqb_eq in E. subst y. destruct (list_eq_dec N.eq_dec k x); [congruence|assumption].
  - cbn. destruct (list_eq_dec N.eq_dec y x); rewrite IH; reflexivity.
Qed.

Notation cnt := (count_occ (list_eq_dec N.eq_dec)).

(** after registering k: k is in the peer table and the fair queue exactly once; every other
    identity's multiplicity is unchanged everywhere; with a fresh k the rotation has it once too *)
Theorem register_once has_rr has_fq k t :
  cnt (t_peers (register has_rr has_fq k t)) k = 1%nat /\
  (has_fq = true -> cnt (t_fq (register has_rr has_fq k t)) k = 1%nat) /\
  (has_rr = true -> ~ In k (t_rr t) -> cnt (t_rr (register has_rr has_fq k t)) k = 1%nat) /\
  (forall x, x <> k ->
     cnt (t_peers (register has_rr has_fq k t)) x = cnt (t_peers t) x /\
     cnt (t_rr (register has_rr has_fq k t)) x = cnt (t_rr t) x /\
     cnt (t_fq (register has_rr has_fq k t)) x = cnt (t_fq t) x).
Proof.
  unfold register; cbn [t_peers t_rr t_fq]. repeat split.
  - rewrite count_occ_app, count_occ_remove_key. cbn [count_occ]. destruct (list_eq_dec N.eq_dec k k); [reflexivity|congruence].
  - intros ->. rewrite count_occ_app, count_occ_remove_key. cbn [count_occ]. destruct (list_eq_dec N.eq_dec k k); [reflexivity|congruence].
  - intros -> Hn. rewrite count_occ_app. rewrite (proj1 (count_occ_not_In _ _ _) Hn). cbn [count_occ].
    destruct (list_eq_dec N.eq_dec k k); [reflexivity|congruence].
  - rewrite count_occ_app, count_occ_remove_key_other by assumption. cbn [count_occ].
    destruct (list_eq_dec N.eq_dec k x); [congruence|apply Nat.add_0_r].
  - destruct has_rr; [|reflexivity]. rewrite count_occ_app. cbn [count_occ].
    destruct (list_eq_dec N.eq_dec k x); [congruence|apply Nat.add_0_r].
  - destruct has_fq; [|reflexivity]. rewrite count_occ_app, count_occ_remove_key_other by assumption. cbn [count_occ].
    destruct (list_eq_dec N.eq_dec k x); [congruence|apply Nat.add_0_r].
Qed.

(** a rejected, crashed or incomplete handshake leaves every table untouched *)
Theorem rejected_is_inert has_rr has_fq fresh a t :
  (forall i, a <> Accept i) -> connection_event has_rr has_fq fresh a t = t.
Proof. intros H. destruct a as [i| | |]; try reflexivity. exfalso. eapply H. reflexivity. Qed.

(** * The whole inbound handshake *)
Theorem verdict_iff local chunks eof i :
  handshake_verdict local chunks eof = Accept i <->
  exists g props rest,
    lib_items chunks eof = OItem (IGreeting g) :: OItem (ICommand props) :: rest /\
    negotiate g = Ok tt /\ ready_valid local props i.
Proof.
  unfold handshake_verdict. split.
  - destruct (lib_items chunks eof) as [|o1 rest]; [discriminate|].
    destruct o1 as [[g|ps|m]|e|p|]; cbn [greet_decision]; try discriminate.
    destruct (negotiate g) as [[]|e|p] eqn:En; try discriminate.
    destruct rest as [|o2 rest2]; [discriminate|].
    destruct (ready_decision local (Some o2)) as [j|e|p] eqn:Er; try discriminate.
    intros [= <-].
    destruct o2 as [[g2|props|m]|e|p|]; try (cbn in Er; discriminate).
    exists g, props, rest2. split; [reflexivity|]. split; [exact En|].
    apply ready_decision_iff. exact Er.
  - intros (g & props & rest & Hl & Hn & Hv). rewrite Hl. cbn [greet_decision]. rewrite Hn.
    apply ready_decision_iff in Hv. rewrite Hv. reflexivity.
Qed.

(** what is presented decides alone; a peer that is not accepted changes nothing (see rejected_is_inert) *)
Theorem verdict_cases local chunks eof :
  (exists i, handshake_verdict local chunks eof = Accept i) \/ (exists e, handshake_verdict local chunks eof = Reject e) \/
  (exists p, handshake_verdict local chunks eof = Crash p) \/ handshake_verdict local chunks eof = Incomplete.
Proof. destruct (handshake_verdict local chunks eof); eauto. Qed.

(** greeting acceptance, byte level *)
Theorem parse_greeting_iff v g :
  parse_greeting v = Ok g <->
  lenN v = 64 /\ nth 0 v 0 = 255 /\ nth 9 v 0 = 127 /\
  parse_mech (firstn 20 (skipn 12 v)) = Ok (g_mech g) /\
  g_major g = nth 10 v 0 /\ g_minor g = nth 11 v 0 /\ g_server g = (nth 32 v 0 =? 1).
Proof.
  unfold parse_greeting, slice.
  change Gen.gr_parse_len with 64. change Gen.gr_parse_sig0 with 255. change Gen.gr_parse_sig9 with 127.
  change (N.to_nat (Gen.gr_parse_mech_hi - Gen.gr_parse_mech_lo)) with 20%nat.
  change (N.to_nat Gen.gr_parse_mech_lo) with 12%nat.
  change (N.to_nat Gen.gr_parse_major_off) with 10%nat. change (N.to_nat Gen.gr_parse_minor_off) with 11%nat.
  change (N.to_nat Gen.gr_parse_server_off) with 32%nat. change Gen.gr_parse_server_val with 1.
  destruct (N.eqb_spec (lenN v) 64) as [Hl|Hl]; cbn [negb orb].
  - destruct (N.eqb_spec (nth 0 v 0) 255) as [H0|H0]; cbn [andb negb].
    + destruct (N.eqb_spec (nth 9 v 0) 127) as [H9|H9]; cbn [negb].
      * destruct (parse_mech (firstn 20 (skipn 12 v))) as [m|e|p].
        -- split.
           ++ intros [= <-]. cbn. repeat split; assumption.
           ++ intros (_ & _ & _ & [= Hm] & Ha & Hb & Hs). destruct g as [a b m' s]; cbn in *. subst. reflexivity.
        -- split; [discriminate|]. intros (_ & _ & _ & Hm & _); discriminate.
        -- split; [discriminate|]. intros (_ & _ & _ & Hm & _); discriminate.
      * split; [discriminate|]. intros (_ & _ & H & _). congruence.
    + split; [discriminate|]. intros (_ & H & _). congruence.
  - split; [discriminate|]. intros (H & _). congruence.
Qed.

Theorem parse_mech_iff v m :
  parse_mech v = Ok m <-> until_nul v = mech_name m.
Proof.
  unfold parse_mech. split.
  - destruct (bytes_eqb (until_nul v) ascii_NULL) eqn:E1; [intros [= <-]; apply bytes_eqb_eq; exact E1|].
    destruct (bytes_eqb (until_nul v) ascii_PLAIN) eqn:E2; [intros [= <-]; apply bytes_eqb_eq; exact E2|].
    destruct (bytes_eqb (until_nul v) ascii_CURVE) eqn:E3; [intros [= <-]; apply bytes_eqb_eq; exact E3|discriminate].
  - intros ->. destruct m; reflexivity.
Qed.
