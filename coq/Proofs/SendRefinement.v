(** On their common domain - connections that accept every write - the scripted-connection models of the sending paths
    (Model/RrSend.v, Model/DirSend.v) and the socket model (Model/World.v) do the same thing. *)
From Coq Require Import List NArith Lia Bool.
Import ListNotations.
From ZV Require Import Base.Bytes Base.Res Model.Codec Model.TrySend Model.RrSend Model.DirSend.
From ZV Require Import Proofs.TrySendProofs Proofs.RrSendProofs Proofs.DirSendProofs.
From ZV Require Model.World Proofs.SocketProofs.
Local Open Scope N_scope.

(** the two states describe the same socket: same rotation, same peer table, every peer has its connection *)
Definition rr_agrees (w : World.world) (st : rstate) : Prop :=
  World.w_rr w = r_rr st /\
  (forall k, World.memN k (World.w_peers w) = true <-> pget k (r_peers st) <> None) /\
  (forall k, World.memN k (World.w_peers w) = true -> exists c, World.get_conn k (World.w_conns w) = Some c) /\
  all_accepting st.

Definition wire_w (k : N) (w : World.world) : bytes :=
  match World.get_conn k (World.w_conns w) with Some c => World.c_wire c | None => [] end.


Arguments N.add : simpl never.
Arguments N.sub : simpl never.
Arguments N.eqb : simpl never.
Arguments N.ltb : simpl never.
Arguments N.leb : simpl never.
Arguments N.min : simpl never.
Arguments N.pow : simpl never.

(** * Auxiliary facts *)

(** the part of [rr_agrees] that does not mention the rotation *)
Definition tabs_agree (w : World.world) (st : rstate) : Prop :=
  (forall k, World.memN k (World.w_peers w) = true <-> pget k (r_peers st) <> None) /\
  (forall k, World.memN k (World.w_peers w) = true -> exists c, World.get_conn k (World.w_conns w) = Some c) /\
  all_accepting st.

Lemma wm_conns_ext w1 w2 k m : World.w_conns w1 = World.w_conns w2 ->
  World.w_conns (World.write_msg w1 k m) = World.w_conns (World.write_msg w2 k m).
Proof.
  unfold World.write_msg. intros E. rewrite E.
  destruct (World.get_conn k (World.w_conns w2)); [|exact E].
  unfold World.upd_conn. cbn [World.w_conns World.with_conns World.set_w]. rewrite E. reflexivity.
Qed.

Lemma wm_peers w k m : World.w_peers (World.write_msg w k m) = World.w_peers w.
Proof. apply SocketProofs.write_msg_tables_unchanged. Qed.
Lemma wm_rr w k m : World.w_rr (World.write_msg w k m) = World.w_rr w.
Proof. apply SocketProofs.write_msg_tables_unchanged. Qed.

(** one write on a live peer: both models append the encoded message to that peer's wire and to no other *)
Lemma write_ok w st k m rr' :
  tabs_agree w st -> World.memN k (World.w_peers w) = true -> lenN (encode_frames m) < 2 ^ 63 ->
  exists p s, pget k (r_peers st) = Some p /\ sink_send (p_sink p) (encode_frames m) = (FlOk, s) /\
    forall w', World.w_peers w' = World.w_peers w ->
      World.w_conns w' = World.w_conns (World.write_msg w k m) ->
      World.w_rr w' = rr' ->
      let st' := {| r_peers := pset k s (r_peers st); r_rr := rr'; r_gone := r_gone st |} in
      rr_agrees w' st' /\
      wire_w k w' = wire_w k w ++ encode_frames m /\ wire_of k st' = wire_of k st ++ encode_frames m /\
      (forall j, j <> k -> wire_w j w' = wire_w j w /\ wire_of j st' = wire_of j st).
Proof.
  intros (Hp & Hc & Ha) Hk Hl.
  destruct (pget k (r_peers st)) as [p|] eqn:Ep; [|apply Hp in Hk; congruence].
  destruct (Ha p (pget_In _ _ _ Ep)) as [Ht Hb].
  destruct (sink_send_accepting _ _ Ht Hb Hl) as (s & Hs & Hb' & Ht' & Hw').
  exists p, s. split; [reflexivity|]. split; [exact Hs|].
  intros w' Hpe Hco Hrr st'.
  destruct (Hc k Hk) as [c Hgc].
  destruct (SocketProofs.write_msg_appends w k m c Hgc (SocketProofs.get_conn_id _ _ _ Hgc))
    as (c' & Hg' & Hwire & _).
  split; [|split; [|split]].
  - unfold rr_agrees. split; [exact Hrr|]. split; [|split].
    + intros j. rewrite Hpe. subst st'. cbn [r_peers]. destruct (N.eq_dec j k) as [->|Hjk].
      * rewrite (pget_pset_same _ _ _ _ Ep). split; [discriminate|intros _; exact Hk].
      * rewrite pget_pset_other by exact Hjk. apply Hp.
    + intros j Hj. rewrite Hpe in Hj. rewrite Hco. apply SocketProofs.write_msg_has_conn. apply Hc; exact Hj.
    + intros q Hq. subst st'. cbn [r_peers] in Hq.
      apply In_pset in Hq as [->|Hq]; [cbn [p_sink]; auto|apply Ha; exact Hq].
  - unfold wire_w. rewrite Hco, Hg', Hgc. exact Hwire.
  - unfold wire_of. subst st'. cbn [r_peers r_gone]. rewrite (pget_pset_same _ _ _ _ Ep), Ep.
    cbn [p_sink]. exact Hw'.
  - intros j Hjk. split.
    + unfold wire_w. rewrite Hco, SocketProofs.write_msg_others_unchanged by exact Hjk. reflexivity.
    + unfold wire_of. subst st'. cbn [r_peers r_gone]. rewrite pget_pset_other by exact Hjk. reflexivity.
Qed.

Lemma dead_both w st k : tabs_agree w st -> World.memN k (World.w_peers w) = false -> pget k (r_peers st) = None.
Proof.
  intros (Hp & _) Hk. destruct (pget k (r_peers st)) eqn:E; [|reflexivity].
  assert (World.memN k (World.w_peers w) = true) by (apply Hp; rewrite E; discriminate). congruence.
Qed.

(** the two loops, any sufficient fuel on either side (PUSH / DEALER / ROUTER-less types: everything but REQ) *)
Lemma rr_loop : forall rr f1 f2 w st m b w' r st',
  World.w_rr w = rr -> r_rr st = rr -> (length rr < f1)%nat -> (length rr < f2)%nat ->
  tabs_agree w st -> lenN (encode_frames m) < 2 ^ 63 -> World.w_type w <> REQ ->
  World.send_rr f1 w m = (b, w') -> rr_send f2 st (encode_frames m) = (r, st') ->
  rr_agrees w' st' /\
  match r with
  | ROk k => b = World.BSendOk /\
             wire_w k w' = wire_w k w ++ encode_frames m /\ wire_of k st' = wire_of k st ++ encode_frames m /\
             (forall j, j <> k -> wire_w j w' = wire_w j w /\ wire_of j st' = wire_of j st)
  | RNoPeer => b = World.BSendErr EReturnToSender (Some m) /\
               (forall j, wire_w j w' = wire_w j w /\ wire_of j st' = wire_of j st)
  | _ => False
  end.
Proof.
  induction rr as [|k rest IH]; intros f1 f2 w st m b w' r st' Hw Hs Hf1 Hf2 Ht Hl Hty H1 H2;
    cbn [length] in Hf1, Hf2;
    (destruct f1 as [|f1]; [lia|]); (destruct f2 as [|f2]; [lia|]);
    cbn [World.send_rr rr_send] in H1, H2; rewrite Hw in H1; rewrite Hs in H2.
  - inversion H1; inversion H2; subst b w' r st'. split.
    + destruct Ht as (T1 & T2 & T3). unfold rr_agrees. rewrite Hw, Hs. auto.
    + split; [reflexivity|]. intros j; split; reflexivity.
  - cbv zeta in H1. cbn [World.w_peers World.w_rr World.with_rr World.set_w] in H1.
    destruct (World.memN k (World.w_peers w)) eqn:Hk.
    + destruct (write_ok w st k m (rest ++ [k]) Ht Hk Hl) as (p & s & Ep & Hss & Hall).
      rewrite Ep, Hss in H2. cbv beta iota in H2. inversion H2; subst r st'. clear H2.
      assert (Hw' : b = World.BSendOk /\
                w' = World.write_msg (World.with_rr w (rest ++ [k])) k m).
      { destruct (World.w_type w); try congruence; inversion H1; split; reflexivity. }
      destruct Hw' as [-> ->]. clear H1.
      destruct (Hall (World.write_msg (World.with_rr w (rest ++ [k])) k m)) as (A & B & C & D).
      * rewrite wm_peers. reflexivity.
      * apply wm_conns_ext. reflexivity.
      * rewrite wm_rr. reflexivity.
      * split; [exact A|]. split; [reflexivity|]. split; [exact B|]. split; [exact C|exact D].
    + rewrite (dead_both w st k Ht Hk) in H2.
      exact (IH f1 f2 (World.with_rr w rest) {| r_peers := r_peers st; r_rr := rest; r_gone := r_gone st |}
                m b w' r st' eq_refl eq_refl ltac:(lia) ltac:(lia) Ht Hl Hty H1 H2).
Qed.

(** REQ: the id goes back first, the message is wrapped, the server is remembered *)
Lemma req_loop : forall rr f1 f2 w st m b w' r st',
  World.w_rr w = rr -> r_rr st = rr -> (length rr < f1)%nat -> (length rr < f2)%nat ->
  tabs_agree w st -> lenN (encode_frames (World.req_wrap m)) < 2 ^ 63 -> World.w_type w = REQ ->
  World.send_rr f1 w m = (b, w') -> req_pick f2 st (encode_frames (World.req_wrap m)) = (r, st') ->
  rr_agrees w' st' /\
  match r with
  | QSent k => b = World.BSendOk /\ World.w_cur w' = Some k /\
             wire_w k w' = wire_w k w ++ encode_frames (World.req_wrap m) /\
             wire_of k st' = wire_of k st ++ encode_frames (World.req_wrap m) /\
             (forall j, j <> k -> wire_w j w' = wire_w j w /\ wire_of j st' = wire_of j st)
  | QNoPeer => b = World.BSendErr EReturnToSender (Some m) /\ World.w_cur w' = World.w_cur w /\
               (forall j, wire_w j w' = wire_w j w /\ wire_of j st' = wire_of j st)
  | _ => False
  end.
Proof.
  induction rr as [|k rest IH]; intros f1 f2 w st m b w' r st' Hw Hs Hf1 Hf2 Ht Hl Hty H1 H2;
    cbn [length] in Hf1, Hf2;
    (destruct f1 as [|f1]; [lia|]); (destruct f2 as [|f2]; [lia|]);
    cbn [World.send_rr req_pick] in H1, H2; rewrite Hw in H1; rewrite Hs in H2.
  - inversion H1; inversion H2; subst b w' r st'. split.
    + destruct Ht as (T1 & T2 & T3). unfold rr_agrees. rewrite Hw, Hs. auto.
    + split; [reflexivity|]. split; [reflexivity|]. intros j; split; reflexivity.
  - cbv zeta in H1, H2. cbn [World.w_peers World.w_rr World.with_rr World.set_w] in H1.
    destruct (World.memN k (World.w_peers w)) eqn:Hk.
    + destruct (write_ok w st k (World.req_wrap m) (rest ++ [k]) Ht Hk Hl) as (p & s & Ep & Hss & Hall).
      rewrite Ep, Hss in H2. cbv beta iota in H2. inversion H2; subst r st'. clear H2.
      rewrite Hty in H1. inversion H1; subst b w'. clear H1.
      match goal with |- rr_agrees ?W _ /\ _ => destruct (Hall W) as (A & B & C & D) end.
      * cbn [World.w_peers World.with_cur World.set_w]. rewrite wm_peers. reflexivity.
      * cbn [World.w_conns World.with_cur World.set_w]. apply wm_conns_ext. reflexivity.
      * cbn [World.w_rr World.with_cur World.set_w]. rewrite wm_rr. reflexivity.
      * split; [exact A|]. split; [reflexivity|]. split; [reflexivity|].
        split; [exact B|]. split; [exact C|exact D].
    + rewrite (dead_both w st k Ht Hk) in H2.
      exact (IH f1 f2 (World.with_rr w rest) {| r_peers := r_peers st; r_rr := rest; r_gone := r_gone st |}
                m b w' r st' eq_refl eq_refl ltac:(lia) ltac:(lia) Ht Hl Hty H1 H2).
Qed.

Lemma agrees_tabs w st : rr_agrees w st -> tabs_agree w st.
Proof. intros (_ & A & B & C). split; [exact A|]. split; [exact B|exact C]. Qed.

(** PUSH / DEALER *)
Theorem rr_refines_world : forall w st m,
  World.w_type w = PUSH \/ World.w_type w = DEALER -> rr_agrees w st -> lenN (encode_frames m) < 2 ^ 63 ->
  let '(b, w') := World.send_rr (S (length (World.w_rr w))) w m in
  let '(r, st') := RrSend.send st m in
  rr_agrees w' st' /\
  match r with
  | ROk k => b = World.BSendOk /\
             wire_w k w' = wire_w k w ++ encode_frames m /\ wire_of k st' = wire_of k st ++ encode_frames m /\
             (forall j, j <> k -> wire_w j w' = wire_w j w /\ wire_of j st' = wire_of j st)
  | RNoPeer => b = World.BSendErr EReturnToSender (Some m) /\
               (forall j, wire_w j w' = wire_w j w /\ wire_of j st' = wire_of j st)
  | _ => False
  end.
Proof.
  intros w st m Hty Hag Hl.
  destruct (World.send_rr (S (length (World.w_rr w))) w m) as [b w'] eqn:E1.
  destruct (RrSend.send st m) as [r st'] eqn:E2. unfold RrSend.send in E2.
  pose proof Hag as (Hrr & _).
  refine (rr_loop (World.w_rr w) _ _ w st m b w' r st' eq_refl (eq_sym Hrr) _ _ (agrees_tabs _ _ Hag) Hl _ E1 E2).
  - lia.
  - rewrite <- Hrr. lia.
  - destruct Hty as [E|E]; rewrite E; discriminate.
Qed.

(** ROUTER *)
Theorem send_to_refines_world : forall w st k m,
  World.w_type w = ROUTER -> rr_agrees w st -> lenN (encode_frames m) < 2 ^ 63 ->
  let '(bs, w') := World.step w (World.OSendTo k m) in
  let '(r, st') := send_to st k m in
  rr_agrees w' st' /\
  match r with
  | ROk k' => k' = k /\ bs = [World.BSendOk] /\
              wire_w k w' = wire_w k w ++ encode_frames m /\ wire_of k st' = wire_of k st ++ encode_frames m /\
              (forall j, j <> k -> wire_w j w' = wire_w j w /\ wire_of j st' = wire_of j st)
  | RNoPeer => bs = [World.BSendErr EOther None] /\ w' = w /\ st' = st
  | _ => False
  end.
Proof.
  intros w st k m Hty Hag Hl. cbn [World.step]. rewrite Hty. unfold send_to.
  pose proof Hag as (Hrr & _). pose proof (agrees_tabs _ _ Hag) as Ht.
  destruct (World.memN k (World.w_peers w)) eqn:Hk.
  - destruct (write_ok w st k m (r_rr st) Ht Hk Hl) as (p & s & Ep & Hss & Hall).
    rewrite Ep, Hss. cbv beta iota.
    destruct (Hall (World.write_msg w k m)) as (A & B & C & D).
    + apply wm_peers.
    + reflexivity.
    + rewrite wm_rr. exact Hrr.
    + split; [exact A|]. split; [reflexivity|]. split; [reflexivity|]. split; [exact B|]. split; [exact C|exact D].
  - rewrite (dead_both w st k Ht Hk). split; [exact Hag|]. repeat split; reflexivity.
Qed.

(** REQ *)
Definition req_agrees (w : World.world) (q : qstate) : Prop := rr_agrees w (q_base q) /\ World.w_cur w = q_cur q.

Theorem req_refines_world : forall w q m,
  World.w_type w = REQ -> req_agrees w q -> lenN (encode_frames (World.req_wrap m)) < 2 ^ 63 ->
  let '(bs, w') := World.step w (World.OSend m) in
  let '(r, q') := req_send q m in
  req_agrees w' q' /\
  match r with
  | QSent k => bs = [World.BSendOk] /\
               wire_w k w' = wire_w k w ++ encode_frames (World.req_wrap m) /\
               wire_of k (q_base q') = wire_of k (q_base q) ++ encode_frames (World.req_wrap m) /\
               (forall j, j <> k -> wire_w j w' = wire_w j w /\ wire_of j (q_base q') = wire_of j (q_base q))
  | QBusy | QNoPeer => bs = [World.BSendErr EReturnToSender (Some m)] /\
               (forall j, wire_w j w' = wire_w j w /\ wire_of j (q_base q') = wire_of j (q_base q))
  | _ => False
  end.
Proof.
  intros w q m Hty [Hag Hcur] Hl. cbn [World.step]. rewrite Hty. unfold req_send. rewrite Hcur.
  destruct (q_cur q) as [c|] eqn:Eq.
  - split; [split; [exact Hag|congruence]|]. split; [reflexivity|]. intros j; split; reflexivity.
  - destruct (World.send_rr (S (length (World.w_rr w))) w m) as [b w'] eqn:E1.
    destruct (req_pick (S (length (r_rr (q_base q)))) (q_base q) (encode_frames (World.req_wrap m)))
      as [r st'] eqn:E2.
    pose proof Hag as (Hrr & _).
    assert (H := req_loop (World.w_rr w) (S (length (World.w_rr w))) (S (length (r_rr (q_base q)))) w (q_base q) m b w' r st' eq_refl (eq_sym Hrr)
                   ltac:(lia) ltac:(rewrite <- Hrr; lia) (agrees_tabs _ _ Hag) Hl Hty E1 E2).
    destruct H as [A B]. unfold req_agrees. cbn [q_base q_cur].
    destruct r; try contradiction.
    + destruct B as (-> & Hc & B1 & B2 & B3). split; [split; assumption|].
      split; [reflexivity|]. split; [exact B1|]. split; [exact B2|exact B3].
    + destruct B as (-> & Hc & B1). split; [split; [exact A|congruence]|].
      split; [reflexivity|exact B1].
Qed.

Print Assumptions rr_refines_world.
Print Assumptions send_to_refines_world.
Print Assumptions req_refines_world.
