(** The frame decoder and the framed reader: fuel irrelevance, panic freedom, resumability,
    segmentation independence, memory bound, and agreement with the declarative stream spec. *)
From ZV Require Import Base.Bytes Base.Res Model.Codec Spec.Stream Proofs.BytesProofs.
From Coq Require Import ZArith ZifyN ZifyNat ZifyBool.
Arguments N.add : simpl never.
Arguments N.mul : simpl never.
Arguments N.ltb : simpl never.
Arguments N.leb : simpl never.
Arguments N.eqb : simpl never.
Arguments N.land : simpl never.
Arguments N.pow : simpl never.
Arguments N.modulo : simpl never.
Arguments N.div : simpl never.
Arguments N.to_nat : simpl never.
Arguments N.of_nat : simpl never.
Arguments Nat.ltb : simpl never.
Arguments firstn : simpl never.
Arguments skipn : simpl never.

(** * One loop iteration of [decode] *)
Inductive sres := Done (x : dres * dec * bytes) | Cont (d : dec) (b : bytes).

Definition res_dres {A} (f : A -> item) (r : res A) : dres :=
  match r with Ok a => RItem (f a) | Err e => RErr e | Panic s => RPanic s end.

Definition push (acc : option (list bytes)) (data : bytes) : list bytes :=
  match acc with Some v => v ++ [data] | None => [data] end.

Definition step (d : dec) (buf : bytes) : sres :=
  if lenN buf <? waiting d then Done (RNone, d, buf) else
  match st d with
  | SGreeting =>
    match buf with
    | [] => Done (RPanic PIndex, d, buf)
    | b0 :: _ =>
      if negb (b0 =? Gen.greeting_first) then Done (RErr EDecode, d, buf) else
      let n := N.to_nat Gen.greeting_split in
      if (length buf <? n)%nat then Done (RPanic PSplit, d, buf) else
      Done (res_dres IGreeting (parse_greeting (firstn n buf)), hdr_state d, skipn n buf)
    end
  | SHeader =>
    match buf with
    | [] => Done (RPanic PGetInt, d, buf)
    | b :: rest =>
      let f := flags_of b in
      Cont {| st := SLen f; waiting := if f_long f then Gen.dec_len_long else Gen.dec_len_short;
              buffered := buffered d |} rest
    end
  | SLen f =>
    let k := N.to_nat (if f_long f then Gen.dec_get_long else Gen.dec_get_short) in
    if (length buf <? k)%nat then Done (RPanic PGetInt, d, buf) else
    Cont {| st := SFrame f; waiting := of_be (firstn k buf); buffered := buffered d |} (skipn k buf)
  | SFrame f =>
    let data := firstnN (waiting d) buf in
    let rest := skipnN (waiting d) buf in
    if f_cmd f then Done (res_dres ICommand (parse_command data), hdr_state d, rest)
    else
      if f_more f then Cont {| st := SHeader; waiting := 1; buffered := Some (push (buffered d) data) |} rest
      else Done (RItem (IMessage (push (buffered d) data)), {| st := SHeader; waiting := 1; buffered := None |}, rest)
  end.

Lemma decode_step f d buf :
  decode (S f) d buf = match step d buf with Done x => x | Cont d' b' => decode f d' b' end.
Proof.
  unfold step, push, res_dres. cbn [decode].
  destruct (lenN buf <? waiting d); [reflexivity|].
  destruct (st d) as [| |fl|fl].
  - destruct buf as [|b0 t]; [reflexivity|].
    destruct (negb (b0 =? Gen.greeting_first)); [reflexivity|].
    cbv zeta.
    destruct (length (b0 :: t) <? N.to_nat Gen.greeting_split)%nat; [reflexivity|].
    destruct (parse_greeting _); reflexivity.
  - destruct buf as [|b0 t]; reflexivity.
  - cbv zeta. destruct (length buf <? _)%nat; reflexivity.
  - cbv zeta. destruct (f_cmd fl).
    + destruct (parse_command _); reflexivity.
    + destruct (f_more fl); reflexivity.
Qed.

(** [step] as a relation with arithmetic side conditions (constants as literals: a change of a
    generated constant breaks [step_Step]). *)
Definition lenw (f : fr) : N := if f_long f then 8 else 1.

Inductive Step (d : dec) (buf : bytes) : sres -> Prop :=
| StWait : lenN buf < waiting d -> Step d buf (Done (RNone, d, buf))
| StGrIdx : waiting d <= lenN buf -> st d = SGreeting -> buf = [] ->
    Step d buf (Done (RPanic PIndex, d, buf))
| StGrBad b0 t : waiting d <= lenN buf -> st d = SGreeting -> buf = b0 :: t -> b0 <> 255 ->
    Step d buf (Done (RErr EDecode, d, buf))
| StGrSplit t : waiting d <= lenN buf -> st d = SGreeting -> buf = 255 :: t -> (length buf < 64)%nat ->
    Step d buf (Done (RPanic PSplit, d, buf))
| StGr t : waiting d <= lenN buf -> st d = SGreeting -> buf = 255 :: t -> (64 <= length buf)%nat ->
    Step d buf (Done (res_dres IGreeting (parse_greeting (firstn 64 buf)), hdr_state d, skipn 64 buf))
| StHdrEmpty : waiting d <= lenN buf -> st d = SHeader -> buf = [] ->
    Step d buf (Done (RPanic PGetInt, d, buf))
| StHdr b rest : waiting d <= lenN buf -> st d = SHeader -> buf = b :: rest ->
    Step d buf (Cont {| st := SLen (flags_of b); waiting := lenw (flags_of b); buffered := buffered d |} rest)
| StLenShort f : waiting d <= lenN buf -> st d = SLen f -> (length buf < N.to_nat (lenw f))%nat ->
    Step d buf (Done (RPanic PGetInt, d, buf))
| StLen f : waiting d <= lenN buf -> st d = SLen f -> (N.to_nat (lenw f) <= length buf)%nat ->
    Step d buf (Cont {| st := SFrame f; waiting := of_be (firstn (N.to_nat (lenw f)) buf); buffered := buffered d |}
                     (skipn (N.to_nat (lenw f)) buf))
| StCmd f : waiting d <= lenN buf -> st d = SFrame f -> f_cmd f = true ->
    Step d buf (Done (res_dres ICommand (parse_command (firstnN (waiting d) buf)), hdr_state d,
                      skipnN (waiting d) buf))
| StMore f : waiting d <= lenN buf -> st d = SFrame f -> f_cmd f = false -> f_more f = true ->
    Step d buf (Cont {| st := SHeader; waiting := 1;
                        buffered := Some (push (buffered d) (firstnN (waiting d) buf)) |}
                     (skipnN (waiting d) buf))
| StLast f : waiting d <= lenN buf -> st d = SFrame f -> f_cmd f = false -> f_more f = false ->
    Step d buf (Done (RItem (IMessage (push (buffered d) (firstnN (waiting d) buf))),
                      {| st := SHeader; waiting := 1; buffered := None |}, skipnN (waiting d) buf)).

Lemma step_Step d buf : Step d buf (step d buf).
Proof.
  unfold step.
  change Gen.greeting_first with 255. change (N.to_nat Gen.greeting_split) with 64%nat.
  change Gen.dec_len_long with 8. change Gen.dec_len_short with 1.
  change Gen.dec_get_long with 8. change Gen.dec_get_short with 1.
  destruct (N.ltb_spec (lenN buf) (waiting d)) as [Hw|Hw]; [apply StWait; assumption|].
  destruct (st d) as [| |fl|fl] eqn:Hst.
  - destruct buf as [|b0 t] eqn:Hb; [apply StGrIdx; auto|].
    destruct (N.eqb_spec b0 255) as [->|Hne]; cbn [negb].
    + cbv zeta. destruct (Nat.ltb_spec (length (255 :: t)) 64).
      * eapply StGrSplit; eauto.
      * eapply StGr; eauto.
    + eapply StGrBad; eauto.
  - destruct buf as [|b0 t] eqn:Hb; [apply StHdrEmpty; auto|].
    cbv zeta. eapply StHdr; eauto.
  - cbv zeta. fold (lenw fl).
    destruct (Nat.ltb_spec (length buf) (N.to_nat (lenw fl))).
    + eapply StLenShort; eauto.
    + eapply StLen; eauto.
  - cbv zeta. destruct (f_cmd fl) eqn:Hc.
    + eapply StCmd; eauto.
    + destruct (f_more fl) eqn:Hm.
      * eapply StMore; eauto.
      * eapply StLast; eauto.
Qed.

Lemma Step_step d buf x : Step d buf x -> step d buf = x.
Proof.
  intros H. pose proof (step_Step d buf) as G.
  destruct H; inversion G; subst; try congruence; try lia;
    repeat match goal with
           | A : st ?d = _, B : st ?d = _ |- _ => rewrite A in B; inversion B; subst; clear B
           | A : _ :: _ = _ :: _ |- _ => inversion A; subst; clear A
           end; try congruence; try lia.
Qed.

Lemma step_iff d buf x : step d buf = x <-> Step d buf x.
Proof. split; [intros <-; apply step_Step|apply Step_step]. Qed.

Ltac step_inv H :=
  apply step_iff in H; inversion H; subst; clear H.

(** * T1: fuel irrelevance *)
Lemma length_skipn_le {A} n (l : list A) : (length (skipn n l) <= length l)%nat.
Proof. rewrite skipn_length. lia. Qed.

Lemma step_mu d buf d' b' : step d buf = Cont d' b' -> (mu d' b' < mu d buf)%nat.
Proof.
  intros H. step_inv H; unfold mu; cbn [st];
    match goal with A : st d = _ |- _ => rewrite A end.
  - cbn [length]. lia.
  - pose proof (length_skipn_le (N.to_nat (lenw f)) buf). lia.
  - unfold skipnN. pose proof (length_skipn_le (N.to_nat (waiting d)) buf). lia.
Qed.

Lemma decode_fuel_irrelevant : forall f1 f2 d buf,
  (mu d buf < f1)%nat -> (mu d buf < f2)%nat -> decode f1 d buf = decode f2 d buf.
Proof.
  induction f1 as [|f1 IH]; intros f2 d buf H1 H2; [lia|].
  destruct f2 as [|f2]; [lia|].
  rewrite !decode_step. destruct (step d buf) as [x|d' b'] eqn:E; [reflexivity|].
  apply step_mu in E. apply IH; lia.
Qed.

Lemma step_done_not_fuel d buf r d' b' : step d buf = Done (r, d', b') -> r <> RFuel.
Proof.
  intros H. step_inv H; try discriminate.
  - destruct (parse_greeting _); discriminate.
  - destruct (parse_command _); discriminate.
Qed.

Lemma decode_no_fuel_exhaustion : forall f d buf,
  (mu d buf < f)%nat -> fst (fst (decode f d buf)) <> RFuel.
Proof.
  induction f as [|f IH]; intros d buf H; [lia|].
  rewrite decode_step. destruct (step d buf) as [[[r d'] b']|d' b'] eqn:E.
  - cbn [fst]. eapply step_done_not_fuel; eauto.
  - apply step_mu in E. apply IH; lia.
Qed.

Lemma fuel_for_enough : forall d buf, (mu d buf < fuel_for buf)%nat.
Proof. intros d buf. unfold mu, fuel_for. destruct (st d); lia. Qed.

(** * T2: no panics *)
Lemma parse_props_no_panic : forall fuel buf acc s,
  (length buf < fuel)%nat -> parse_props fuel buf acc <> Panic s.
Proof.
  induction fuel as [|fuel IH]; intros buf acc s H; [lia|].
  cbn [parse_props]. destruct buf as [|pl r0]; [discriminate|].
  destruct (lenN r0 <? pl); [discriminate|].
  destruct (negb _); [discriminate|].
  change Gen.cmd_parse_vlen_guard with 4. change (N.to_nat Gen.cmd_parse_vlen_width) with 4%nat.
  destruct (N.ltb_spec (lenN (skipnN pl r0)) 4) as [|Hg]; [discriminate|].
  destruct (Nat.ltb_spec (length (skipnN pl r0)) 4) as [Hl|Hl]; [unfold lenN in Hg; lia|].
  destruct (lenN _ <? _); [discriminate|].
  apply IH. unfold skipnN in *. rewrite !skipn_length in *. cbn [length] in H. lia.
Qed.

Lemma parse_command_no_panic : forall body s, parse_command body <> Panic s.
Proof.
  intros body s. unfold parse_command. destruct body as [|cl r]; [discriminate|].
  destruct (lenN r <? cl); [discriminate|]. destruct (negb _); [discriminate|].
  apply parse_props_no_panic. unfold skipnN. rewrite skipn_length. lia.
Qed.

Lemma parse_greeting_no_panic : forall v s, parse_greeting v <> Panic s.
Proof.
  intros v s. unfold parse_greeting. destruct (_ || _); [discriminate|].
  unfold parse_mech.
  repeat match goal with |- context[if ?c then _ else _] => destruct c end; discriminate.
Qed.

Lemma wfd_waiting_ge1 d : wfd d -> (exists f, st d = SFrame f) \/ 1 <= waiting d.
Proof.
  unfold wfd. destruct (st d) eqn:E; intros H; try (right; rewrite H).
  - change Gen.greeting_len with 64. lia.
  - lia.
  - change Gen.dec_len_long with 8. change Gen.dec_len_short with 1. destruct (f_long f); lia.
  - left; eauto.
Qed.

Lemma step_no_panic d buf r d' b' s : wfd d -> step d buf = Done (r, d', b') -> r <> RPanic s.
Proof.
  intros W H. unfold wfd in W.
  change Gen.greeting_len with 64 in W.
  change Gen.dec_len_long with 8 in W. change Gen.dec_len_short with 1 in W.
  step_inv H; try discriminate;
    try (match goal with A : st _ = _ |- _ => rewrite A in W end).
  - unfold lenN in *. cbn [length] in *. lia.
  - unfold lenN in *. lia.
  - pose proof (parse_greeting_no_panic (firstn 64 (255 :: t)) s).
    destruct (parse_greeting _); cbn [res_dres]; congruence.
  - unfold lenN in *. cbn [length] in *. lia.
  - fold (lenw f) in W. unfold lenN in *. lia.
  - pose proof (parse_command_no_panic (firstnN (waiting d) buf) s).
    destruct (parse_command _); cbn [res_dres]; congruence.
Qed.

Lemma step_wfd d buf : wfd d ->
  match step d buf with Done (_, d', _) => wfd d' | Cont d' _ => wfd d' end.
Proof.
  intros W. destruct (step d buf) as [[[r d'] b']|d' b'] eqn:H; step_inv H;
    try assumption; unfold wfd; cbn [st waiting hdr_state]; reflexivity.
Qed.

Lemma decode_no_panic : forall f d buf s,
  wfd d -> (mu d buf < f)%nat -> fst (fst (decode f d buf)) <> RPanic s.
Proof.
  induction f as [|f IH]; intros d buf s W H; [lia|].
  rewrite decode_step. pose proof (step_wfd d buf W) as W'.
  destruct (step d buf) as [[[r d'] b']|d' b'] eqn:E.
  - cbn [fst]. exact (step_no_panic _ _ _ _ _ _ W E).
  - apply step_mu in E. apply IH; [assumption|lia].
Qed.

(** * T3: wfd is preserved *)
Lemma decode_wfd : forall f d buf r d' buf',
  wfd d -> decode f d buf = (r, d', buf') -> wfd d'.
Proof.
  induction f as [|f IH]; intros d buf r d' buf' W H.
  - cbn [decode] in H. inversion H; subst; assumption.
  - rewrite decode_step in H. pose proof (step_wfd d buf W) as W'.
    destruct (step d buf) as [[[r1 d1] b1]|d1 b1] eqn:E.
    + inversion H; subst; assumption.
    + eapply IH; eauto.
Qed.

Lemma wfd_dec0 : wfd dec0.
Proof. reflexivity. Qed.

(** * T4: resumability *)
Lemma firstn_app_le {A} n (a b : list A) : (n <= length a)%nat -> firstn n (a ++ b) = firstn n a.
Proof.
  intros H. rewrite firstn_app. replace (n - length a)%nat with 0%nat by lia.
  rewrite firstn_O. apply app_nil_r.
Qed.

Lemma skipn_app_le {A} n (a b : list A) : (n <= length a)%nat -> skipn n (a ++ b) = skipn n a ++ b.
Proof.
  intros H. rewrite skipn_app. replace (n - length a)%nat with 0%nat by lia.
  rewrite skipn_O. reflexivity.
Qed.

Lemma firstnN_app_le {A} n (a b : list A) : n <= lenN a -> firstnN n (a ++ b) = firstnN n a.
Proof. intros H. unfold firstnN. apply firstn_app_le. unfold lenN in H. lia. Qed.

Lemma skipnN_app_le {A} n (a b : list A) : n <= lenN a -> skipnN n (a ++ b) = skipnN n a ++ b.
Proof. intros H. unfold skipnN. apply skipn_app_le. unfold lenN in H. lia. Qed.

Lemma step_ext_cont d buf ext d' b' :
  step d buf = Cont d' b' -> step d (buf ++ ext) = Cont d' (b' ++ ext).
Proof.
  intros H. step_inv H; apply Step_step.
  - cbn [app]. eapply StHdr; eauto. rewrite lenN_cons, lenN_app in *. lia.
  - rewrite <- (firstn_app_le _ buf ext) by assumption.
    rewrite <- (skipn_app_le _ buf ext) by assumption.
    eapply StLen; eauto.
    + rewrite lenN_app. lia.
    + rewrite app_length. lia.
  - rewrite <- (firstnN_app_le _ buf ext) by assumption.
    rewrite <- (skipnN_app_le _ buf ext) by assumption.
    eapply StMore; eauto. rewrite lenN_app. lia.
Qed.

Lemma res_dres_not_none {A} (f : A -> item) r : res_dres f r <> RNone.
Proof. destruct r; discriminate. Qed.

Lemma step_done_none d buf d' b' :
  step d buf = Done (RNone, d', b') -> d' = d /\ b' = buf /\ lenN buf < waiting d.
Proof.
  intros H. step_inv H; auto;
    match goal with A : res_dres _ _ = RNone |- _ => apply res_dres_not_none in A; contradiction end.
Qed.

Lemma step_ext_done d buf ext r d' b' :
  wfd d -> step d buf = Done (r, d', b') -> r <> RNone ->
  step d (buf ++ ext) = Done (r, d', b' ++ ext).
Proof.
  intros W H Hr. unfold wfd in W.
  change Gen.greeting_len with 64 in W.
  change Gen.dec_len_long with 8 in W. change Gen.dec_len_short with 1 in W.
  step_inv H; try congruence;
    try (match goal with A : st _ = _ |- _ => rewrite A in W end);
    apply Step_step.
  - unfold lenN in *. cbn [length] in *. lia.
  - cbn [app]. eapply StGrBad; eauto. rewrite lenN_cons, lenN_app in *. lia.
  - unfold lenN in *. lia.
  - rewrite <- (firstn_app_le 64 (255 :: t) ext) by assumption.
    rewrite <- (skipn_app_le 64 (255 :: t) ext) by assumption.
    eapply StGr.
    + rewrite lenN_app. lia.
    + assumption.
    + cbn [app]. reflexivity.
    + rewrite app_length. lia.
  - unfold lenN in *. cbn [length] in *. lia.
  - fold (lenw f) in W. unfold lenN in *. lia.
  - rewrite <- (firstnN_app_le _ buf ext) by assumption.
    rewrite <- (skipnN_app_le _ buf ext) by assumption.
    eapply StCmd; eauto. rewrite lenN_app. lia.
  - rewrite <- (firstnN_app_le _ buf ext) by assumption.
    rewrite <- (skipnN_app_le _ buf ext) by assumption.
    eapply StLast; eauto. rewrite lenN_app. lia.
Qed.

Lemma step_cont_wfd d buf d' b' : wfd d -> step d buf = Cont d' b' -> wfd d'.
Proof. intros W H. pose proof (step_wfd d buf W) as G. rewrite H in G. exact G. Qed.

Lemma decode_resume_item : forall f d buf ext r d' buf',
  wfd d -> (mu d (buf ++ ext) < f)%nat ->
  decode f d buf = (r, d', buf') -> r <> RNone -> r <> RFuel ->
  decode f d (buf ++ ext) = (r, d', buf' ++ ext).
Proof.
  induction f as [|f IH]; intros d buf ext r d' buf' W Hmu H Hn Hf.
  - cbn [decode] in H. congruence.
  - rewrite decode_step in H. rewrite decode_step.
    destruct (step d buf) as [x|d1 b1] eqn:E.
    + subst x. rewrite (step_ext_done _ _ ext _ _ _ W E Hn). reflexivity.
    + pose proof (step_ext_cont _ _ ext _ _ E) as E'. rewrite E'.
      apply step_mu in E'.
      apply IH; auto; [eapply step_cont_wfd; eauto|lia].
Qed.

Lemma decode_none_mu : forall f d buf d' buf' ext,
  decode f d buf = (RNone, d', buf') -> (mu d' (buf' ++ ext) <= mu d (buf ++ ext))%nat.
Proof.
  induction f as [|f IH]; intros d buf d' buf' ext H.
  - cbn [decode] in H. discriminate.
  - rewrite decode_step in H. destruct (step d buf) as [x|d1 b1] eqn:E.
    + subst x. apply step_done_none in E as (-> & -> & _). lia.
    + pose proof (step_ext_cont _ _ ext _ _ E) as E'. apply step_mu in E'.
      specialize (IH _ _ _ _ ext H). lia.
Qed.

Lemma decode_resume_none : forall f d buf ext d' buf',
  wfd d -> (mu d (buf ++ ext) < f)%nat ->
  decode f d buf = (RNone, d', buf') ->
  decode f d (buf ++ ext) = decode f d' (buf' ++ ext).
Proof.
  induction f as [|f IH]; intros d buf ext d' buf' W Hmu H.
  - cbn [decode] in H. discriminate.
  - pose proof H as H0. rewrite decode_step in H.
    destruct (step d buf) as [x|d1 b1] eqn:E.
    + subst x. apply step_done_none in E as (-> & -> & _). reflexivity.
    + rewrite (decode_step f d). pose proof (step_ext_cont _ _ ext _ _ E) as E'. rewrite E'.
      apply step_mu in E'.
      rewrite (IH d1 b1 ext d' buf'); [|eapply step_cont_wfd; eauto|lia|assumption].
      pose proof (decode_none_mu _ _ _ _ _ ext H).
      apply decode_fuel_irrelevant; lia.
Qed.

Lemma decode_none_quiet : forall f d buf d' buf',
  decode f d buf = (RNone, d', buf') -> lenN buf' < waiting d'.
Proof.
  induction f as [|f IH]; intros d buf d' buf' H.
  - cbn [decode] in H. discriminate.
  - rewrite decode_step in H. destruct (step d buf) as [x|d1 b1] eqn:E.
    + subst x. apply step_done_none in E as (-> & -> & L). exact L.
    + eapply IH; eauto.
Qed.

Lemma quiet_decode f d buf : (0 < f)%nat -> lenN buf < waiting d -> decode f d buf = (RNone, d, buf).
Proof.
  intros Hf H. destruct f as [|f]; [lia|]. rewrite decode_step.
  rewrite (Step_step d buf _ (StWait d buf H)). reflexivity.
Qed.

Lemma decode_none_idempotent : forall f d buf d' buf',
  decode f d buf = (RNone, d', buf') -> forall f', (0 < f')%nat -> decode f' d' buf' = (RNone, d', buf').
Proof.
  intros f d buf d' buf' H f' Hf. apply quiet_decode; [assumption|].
  eapply decode_none_quiet; eauto.
Qed.

(** * One [decode] call with the reader's fuel *)
Definition dec1 (d : dec) (buf : bytes) := decode (fuel_for buf) d buf.

Lemma dec1_fuel f d buf : (mu d buf < f)%nat -> decode f d buf = dec1 d buf.
Proof. intros H. apply decode_fuel_irrelevant; [assumption|apply fuel_for_enough]. Qed.

Lemma dec1_not_fuel d buf d' b' : dec1 d buf <> (RFuel, d', b').
Proof.
  intros H. apply (decode_no_fuel_exhaustion (fuel_for buf) d buf (fuel_for_enough d buf)).
  unfold dec1 in H. rewrite H. reflexivity.
Qed.

Lemma dec1_not_panic d buf s d' b' : wfd d -> dec1 d buf <> (RPanic s, d', b').
Proof.
  intros W H. apply (decode_no_panic (fuel_for buf) d buf s W (fuel_for_enough d buf)).
  unfold dec1 in H. rewrite H. reflexivity.
Qed.

Lemma mu_app_le d buf ext : (mu d buf <= mu d (buf ++ ext))%nat.
Proof. unfold mu. rewrite app_length. destruct (st d); lia. Qed.

Lemma dec1_ext_item d buf ext r d' b' :
  wfd d -> dec1 d buf = (r, d', b') -> r <> RNone -> dec1 d (buf ++ ext) = (r, d', b' ++ ext).
Proof.
  intros W H Hn. unfold dec1.
  pose proof (fuel_for_enough d (buf ++ ext)) as F. pose proof (mu_app_le d buf ext) as M.
  apply decode_resume_item; auto.
  - rewrite dec1_fuel by lia. exact H.
  - intros ->. exact (dec1_not_fuel _ _ _ _ H).
Qed.

Lemma dec1_ext_none d buf ext d' b' :
  wfd d -> dec1 d buf = (RNone, d', b') -> dec1 d (buf ++ ext) = dec1 d' (b' ++ ext).
Proof.
  intros W H.
  pose proof (fuel_for_enough d (buf ++ ext)) as F. pose proof (mu_app_le d buf ext) as M.
  pose proof (decode_none_mu _ _ _ _ _ ext H) as N.
  unfold dec1 at 1. rewrite (decode_resume_none _ d buf ext d' b'); auto.
  - apply dec1_fuel. lia.
  - rewrite dec1_fuel by lia. exact H.
Qed.

(** every delivered item consumes input *)
Lemma step_shrink d buf :
  match step d buf with
  | Done (_, _, b') => (length b' <= length buf)%nat
  | Cont _ b' => (length b' <= length buf)%nat
  end.
Proof.
  destruct (step d buf) as [[[r d'] b']|d' b'] eqn:H; step_inv H; unfold skipnN;
    try rewrite skipn_length; cbn [length]; lia.
Qed.

Lemma decode_shrink : forall f d buf r d' b',
  decode f d buf = (r, d', b') -> (length b' <= length buf)%nat.
Proof.
  induction f as [|f IH]; intros d buf r d' b' H.
  - cbn [decode] in H. inversion H; subst. lia.
  - rewrite decode_step in H. pose proof (step_shrink d buf) as S.
    destruct (step d buf) as [[[r1 d1] b1]|d1 b1] eqn:E.
    + inversion H; subst. exact S.
    + apply IH in H. lia.
Qed.

Lemma step_strict d buf : 1 <= waiting d ->
  match step d buf with
  | Done (RItem _, _, b') => (length b' < length buf)%nat
  | Done _ => True
  | Cont _ b' => (length b' < length buf)%nat
  end.
Proof.
  intros W.
  destruct (step d buf) as [[[r d'] b']|d' b'] eqn:H; step_inv H; try exact I; unfold skipnN;
    try rewrite skipn_length; cbn [length]; unfold lenN, lenw in *; cbn [length] in *;
    try (destruct (parse_greeting _); cbn [res_dres]; try exact I);
    try (destruct (parse_command _); cbn [res_dres]; try exact I);
    try (destruct (f_long _)); try lia.
Qed.

Lemma decode_item_strict f d buf i d' b' :
  1 <= waiting d -> decode f d buf = (RItem i, d', b') -> (length b' < length buf)%nat.
Proof.
  intros W H. destruct f as [|f]; [cbn [decode] in H; discriminate|].
  rewrite decode_step in H. pose proof (step_strict d buf W) as S.
  destruct (step d buf) as [[[r1 d1] b1]|d1 b1] eqn:E.
  - inversion H; subst. exact S.
  - apply decode_shrink in H. lia.
Qed.

Lemma decode_item_state : forall f d buf i d' b',
  decode f d buf = (RItem i, d', b') -> waiting d' = 1.
Proof.
  induction f as [|f IH]; intros d buf i d' b' H.
  - cbn [decode] in H. discriminate.
  - rewrite decode_step in H. destruct (step d buf) as [[[r1 d1] b1]|d1 b1] eqn:E.
    + inversion H; subst. step_inv E; reflexivity.
    + eapply IH; eauto.
Qed.

(** * [drain] *)
Lemma drain_S n d buf :
  drain (S n) d buf =
    match dec1 d buf with
    | (RNone, d', buf') => ([], d', buf', false)
    | (RItem i, d', buf') => let '(os, d2, b2, s) := drain n d' buf' in (OItem i :: os, d2, b2, s)
    | (RErr e, d', buf') => ([OErr e], d', buf', true)
    | (RPanic s, d', buf') => ([OPanic s], d', buf', true)
    | (RFuel, d', buf') => ([OPanic PAssert], d', buf', true)
    end.
Proof. reflexivity. Qed.

Lemma drain_n_irrelevant : forall n1 n2 d buf,
  1 <= waiting d -> (length buf < n1)%nat -> (length buf < n2)%nat -> drain n1 d buf = drain n2 d buf.
Proof.
  induction n1 as [|n1 IH]; intros n2 d buf W H1 H2; [lia|].
  destruct n2 as [|n2]; [lia|]. rewrite !drain_S.
  destruct (dec1 d buf) as [[r d1] b1] eqn:E. destruct r; try reflexivity.
  unfold dec1 in E. pose proof (decode_item_strict _ _ _ _ _ _ W E).
  pose proof (decode_item_state _ _ _ _ _ _ E) as W1.
  rewrite (IH n2 d1 b1); [reflexivity|lia|lia|lia].
Qed.

Lemma drain_settled : forall n d buf os d' b' s,
  wfd d -> 1 <= waiting d -> (length buf < n)%nat -> drain n d buf = (os, d', b', s) ->
  wfd d' /\ (s = true \/ lenN b' < waiting d').
Proof.
  induction n as [|n IH]; intros d buf os d' b' s W W1 Hn H; [lia|].
  rewrite drain_S in H. destruct (dec1 d buf) as [[r d1] b1] eqn:E.
  pose proof (decode_wfd _ _ _ _ _ _ W E) as Wd1.
  destruct r.
  - inversion H; subst. split; [assumption|right]. eapply decode_none_quiet; exact E.
  - destruct (drain n d1 b1) as [[[os2 d2] b2] s2] eqn:D. inversion H; subst.
    unfold dec1 in E. pose proof (decode_item_strict _ _ _ _ _ _ W1 E).
    pose proof (decode_item_state _ _ _ _ _ _ E) as W2.
    eapply IH; [exact Wd1| |  |exact D]; lia.
  - inversion H; subst. auto.
  - inversion H; subst. auto.
  - inversion H; subst. auto.
Qed.

Lemma drain_ext : forall n d buf ext m os d' b' s,
  wfd d -> 1 <= waiting d -> (length buf < n)%nat -> (length (buf ++ ext) < m)%nat ->
  drain n d buf = (os, d', b', s) ->
  (s = true -> drain m d (buf ++ ext) = (os, d', b' ++ ext, true)) /\
  (s = false -> forall m2, (length (b' ++ ext) < m2)%nat ->
     forall os2 d2 b2 s2, drain m2 d' (b' ++ ext) = (os2, d2, b2, s2) ->
     drain m d (buf ++ ext) = (os ++ os2, d2, b2, s2)).
Proof.
  induction n as [|n IH]; intros d buf ext m os d' b' s W W1 Hn Hm H; [lia|].
  destruct m as [|m]; [lia|].
  rewrite drain_S in H. destruct (dec1 d buf) as [[r d1] b1] eqn:E.
  pose proof (decode_wfd _ _ _ _ _ _ W E) as Wd1.
  destruct r.
  - inversion H; subst. split; [discriminate|]. intros _ m2 Hm2 os2 d2 b2 s2 D.
    cbn [app]. rewrite <- D. pose proof (dec1_ext_none _ _ ext _ _ W E) as X.
    pose proof (decode_shrink _ _ _ _ _ _ E) as L.
    pose proof (decode_none_quiet _ _ _ _ _ E) as Q.
    assert (1 <= waiting d') as W2 by lia.
    rewrite (drain_n_irrelevant m2 (S m) d' (b' ++ ext)); auto.
    + rewrite !drain_S. rewrite X. reflexivity.
    + rewrite app_length in *. lia.
  - destruct (drain n d1 b1) as [[[os1 d3] b3] s3] eqn:D1. inversion H; subst.
    pose proof (dec1_ext_item _ _ ext _ _ _ W E ltac:(discriminate)) as X.
    unfold dec1 in E. pose proof (decode_item_strict _ _ _ _ _ _ W1 E) as L.
    pose proof (decode_item_state _ _ _ _ _ _ E) as W2.
    assert (1 <= waiting d1) as W3 by lia.
    assert (length b1 < n)%nat as L1 by lia.
    assert (length (b1 ++ ext) < m)%nat as L2 by (rewrite app_length in *; lia).
    destruct (IH d1 b1 ext m os1 d' b' s Wd1 W3 L1 L2 D1) as [A B].
    rewrite drain_S, X. split.
    + intros Hs. rewrite (A Hs). reflexivity.
    + intros Hs m2 Hm2 os2 d2 b2 s2 D. rewrite (B Hs m2 Hm2 os2 d2 b2 s2 D). reflexivity.
  - inversion H; subst. split; [|discriminate]. intros _.
    rewrite drain_S, (dec1_ext_item _ _ ext _ _ _ W E ltac:(discriminate)). reflexivity.
  - inversion H; subst. split; [|discriminate]. intros _.
    rewrite drain_S, (dec1_ext_item _ _ ext _ _ _ W E ltac:(discriminate)). reflexivity.
  - exfalso. exact (dec1_not_fuel _ _ _ _ E).
Qed.

(** * T5: segmentation independence of the framed reader *)
Definition settled (r : reader) : Prop :=
  wfd (rd_dec r) /\ (rd_stop r = true \/ exists f, (0 < f)%nat /\ decode f (rd_dec r) (rd_buf r) = (RNone, rd_dec r, rd_buf r)).

Lemma settled_quiet r : settled r -> rd_stop r = false ->
  wfd (rd_dec r) /\ lenN (rd_buf r) < waiting (rd_dec r).
Proof.
  intros [W [HS|(f & _ & D)]] Hs; [congruence|]. split; [assumption|].
  eapply decode_none_quiet; exact D.
Qed.

Lemma settled_reader0 : settled reader0.
Proof.
  split; [exact wfd_dec0|right]. exists 1%nat. split; [lia|].
  apply quiet_decode; [lia|]. cbn [reader0 rd_buf rd_dec dec0 waiting].
  change Gen.greeting_len with 64. rewrite lenN_nil. lia.
Qed.

Lemma feed_unfold r c :
  feed r c = if rd_stop r then ([], r) else
             let '(os, d, b, s) := drain (S (length (rd_buf r ++ c))) (rd_dec r) (rd_buf r ++ c) in
             (os, {| rd_dec := d; rd_buf := b; rd_stop := s |}).
Proof. reflexivity. Qed.

Lemma feed_settled : forall r c os r', settled r -> feed r c = (os, r') -> settled r'.
Proof.
  intros r c os r' HS H. rewrite feed_unfold in H.
  destruct (rd_stop r) eqn:Hs; [inversion H; subst; assumption|].
  destruct (settled_quiet r HS Hs) as [W Q].
  destruct (drain _ _ _) as [[[os1 d1] b1] s1] eqn:D. inversion H; subst.
  assert (1 <= waiting (rd_dec r)) as W1 by lia.
  destruct (drain_settled _ _ _ _ _ _ _ W W1 (Nat.lt_succ_diag_r _) D) as [Wd [->|Q1]].
  - split; [exact Wd|left; reflexivity].
  - split; [exact Wd|right]. exists 1%nat. split; [lia|]. apply quiet_decode; [lia|exact Q1].
Qed.

Lemma feed_nil : forall r, settled r -> feed r [] = ([], r).
Proof.
  intros r HS. rewrite feed_unfold. destruct (rd_stop r) eqn:Hs; [reflexivity|].
  destruct (settled_quiet r HS Hs) as [W Q]. rewrite app_nil_r, drain_S.
  unfold dec1. rewrite quiet_decode; [|unfold fuel_for; lia|exact Q].
  destruct r as [d b s]. cbn [rd_dec rd_buf rd_stop] in *. subst s. reflexivity.
Qed.

(** [feed_app] with the final reader of the statement is false: after an error the bytes that
    were not consumed stay in the buffer, and that buffer depends on how the input was cut. *)
Fact feed_app_with_equal_final_reader_is_false :
  ~ (forall r c1 c2 os1 r1 os2 r2,
       settled r -> feed r c1 = (os1, r1) -> feed r1 c2 = (os2, r2) ->
       feed r (c1 ++ c2) = (os1 ++ os2, r2)).
Proof.
  intros A. pose (c1 := repeat 0 64). pose (c2 := [0]).
  specialize (A reader0 c1 c2 (fst (feed reader0 c1)) (snd (feed reader0 c1))
                (fst (feed (snd (feed reader0 c1)) c2)) (snd (feed (snd (feed reader0 c1)) c2))
                settled_reader0 (surjective_pairing _) (surjective_pairing _)).
  vm_compute in A. discriminate A.
Qed.

Fact feed_all_concat_with_equal_final_reader_is_false :
  ~ (forall chunks r, settled r -> feed_all r chunks = feed r (concat chunks)).
Proof.
  intros A. specialize (A [repeat 0 64; [0]] reader0 settled_reader0).
  vm_compute in A. discriminate A.
Qed.

(** what is preserved: everything while the reader is live, stoppedness after an error *)
Definition req (a b : reader) : Prop :=
  (rd_stop a = false -> b = a) /\ (rd_stop a = true -> rd_stop b = true).

Lemma req_refl a : req a a.
Proof. split; auto. Qed.

Lemma req_trans a b c : req a b -> req b c -> req a c.
Proof.
  intros [A1 A2] [B1 B2]. split; intros H.
  - rewrite (A1 H) in *. apply B1. exact H.
  - apply B2, A2, H.
Qed.

Lemma feed_app : forall r c1 c2 os1 r1 os2 r2,
  settled r -> feed r c1 = (os1, r1) -> feed r1 c2 = (os2, r2) ->
  exists r2', feed r (c1 ++ c2) = (os1 ++ os2, r2') /\
              (rd_stop r2 = false -> r2' = r2) /\ (rd_stop r2 = true -> rd_stop r2' = true).
Proof.
  intros r c1 c2 os1 r1 os2 r2 HS H1 H2.
  rewrite feed_unfold in H1. rewrite (feed_unfold r (c1 ++ c2)).
  destruct (rd_stop r) eqn:Hs.
  - inversion H1; subst. rewrite feed_unfold, Hs in H2. inversion H2; subst.
    exists r2. split; [reflexivity|]. apply req_refl.
  - destruct (settled_quiet r HS Hs) as [W Q].
    assert (1 <= waiting (rd_dec r)) as W1 by lia.
    destruct (drain (S (length (rd_buf r ++ c1))) _ _) as [[[o1 d1] b1] s1] eqn:D1.
    inversion H1; subst. rewrite feed_unfold in H2. cbn [rd_stop rd_dec rd_buf] in H2.
    rewrite app_assoc.
    destruct (drain_ext _ _ _ c2 (S (length ((rd_buf r ++ c1) ++ c2))) _ _ _ _ W W1
                (Nat.lt_succ_diag_r _) (Nat.lt_succ_diag_r _) D1) as [A B].
    destruct s1.
    + inversion H2; subst. rewrite (A eq_refl), app_nil_r. eexists. split; [reflexivity|].
      cbn [rd_stop]. split; [discriminate|reflexivity].
    + destruct (drain (S (length (b1 ++ c2))) d1 (b1 ++ c2)) as [[[o2 d2] b2] s2] eqn:D2.
      inversion H2; subst.
      rewrite (B eq_refl _ (Nat.lt_succ_diag_r _) _ _ _ _ D2).
      eexists. split; [reflexivity|]. apply req_refl.
Qed.

Lemma feed_all_settled : forall chunks r os r', settled r -> feed_all r chunks = (os, r') -> settled r'.
Proof.
  induction chunks as [|c cs IH]; intros r os r' HS H; cbn [feed_all] in H.
  - inversion H; subst. exact HS.
  - destruct (feed r c) as [o1 r1] eqn:F. destruct (feed_all r1 cs) as [o2 r2] eqn:FA.
    inversion H; subst. eapply IH; [|exact FA]. eapply feed_settled; eauto.
Qed.

(** adjusted statement (see [feed_app]): same outputs, final readers related by [req] *)
Theorem feed_all_concat : forall chunks r, settled r ->
  exists r', feed r (concat chunks) = (fst (feed_all r chunks), r') /\
             (rd_stop (snd (feed_all r chunks)) = false -> r' = snd (feed_all r chunks)) /\
             (rd_stop (snd (feed_all r chunks)) = true -> rd_stop r' = true).
Proof.
  induction chunks as [|c cs IH]; intros r HS; cbn [feed_all concat].
  - rewrite (feed_nil r HS). exists r. cbn [fst snd]. split; [reflexivity|]. apply req_refl.
  - destruct (feed r c) as [o1 r1] eqn:F. destruct (feed_all r1 cs) as [o2 r2] eqn:FA.
    cbn [fst snd].
    destruct (IH r1 (feed_settled _ _ _ _ HS F)) as (r2' & E & R). rewrite FA in E, R. cbn [fst snd] in E, R.
    destruct (feed_app _ _ _ _ _ _ _ HS F E) as (r2'' & E' & R').
    exists r2''. split; [exact E'|]. exact (req_trans _ _ _ R R').
Qed.

Lemma feed_eof_req a b : req a b -> feed_eof a = feed_eof b.
Proof.
  intros [A B]. unfold feed_eof. destruct (rd_stop a) eqn:E.
  - rewrite (B eq_refl). reflexivity.
  - rewrite (A eq_refl), E. reflexivity.
Qed.

Theorem chunks_eq_whole : forall chunks eof, lib_items chunks eof = lib_items [concat chunks] eof.
Proof.
  intros chunks eof. unfold lib_items. cbn [feed_all].
  destruct (feed_all_concat chunks reader0 settled_reader0) as (r' & E & R).
  rewrite E. destruct (feed_all reader0 chunks) as [os r] eqn:FA. cbn [fst snd] in *.
  rewrite app_nil_r. destruct eof; [|reflexivity].
  f_equal. apply feed_eof_req. exact R.
Qed.

Theorem segmentation_independent : forall cs1 cs2 eof,
  concat cs1 = concat cs2 -> lib_items cs1 eof = lib_items cs2 eof.
Proof.
  intros cs1 cs2 eof H. rewrite (chunks_eq_whole cs1), (chunks_eq_whole cs2), H. reflexivity.
Qed.

(** * C03 *)
Definition nopanic (o : out) : Prop := forall s, o <> OPanic s.

Lemma drain_no_panic : forall n d buf os d' b' s,
  wfd d -> drain n d buf = (os, d', b', s) -> Forall nopanic os.
Proof.
  induction n as [|n IH]; intros d buf os d' b' s W H.
  - cbn [drain] in H. inversion H; subst. constructor.
  - rewrite drain_S in H. destruct (dec1 d buf) as [[r d1] b1] eqn:E.
    pose proof (decode_wfd _ _ _ _ _ _ W E) as Wd1.
    destruct r.
    + inversion H; subst. constructor.
    + destruct (drain n d1 b1) as [[[os2 d2] b2] s2] eqn:D. inversion H; subst.
      constructor; [intros s0; discriminate|]. eapply IH; eauto.
    + inversion H; subst. constructor; [intros s0; discriminate|constructor].
    + exfalso. exact (dec1_not_panic _ _ _ _ _ W E).
    + exfalso. exact (dec1_not_fuel _ _ _ _ E).
Qed.

Lemma feed_no_panic r c os r' : settled r -> feed r c = (os, r') -> Forall nopanic os.
Proof.
  intros [W _] H. rewrite feed_unfold in H. destruct (rd_stop r).
  - inversion H; subst. constructor.
  - destruct (drain _ _ _) as [[[os1 d1] b1] s1] eqn:D. inversion H; subst.
    eapply drain_no_panic; eauto.
Qed.

Lemma feed_all_no_panic : forall chunks r os r',
  settled r -> feed_all r chunks = (os, r') -> Forall nopanic os.
Proof.
  induction chunks as [|c cs IH]; intros r os r' HS H; cbn [feed_all] in H.
  - inversion H; subst. constructor.
  - destruct (feed r c) as [o1 r1] eqn:F. destruct (feed_all r1 cs) as [o2 r2] eqn:FA.
    inversion H; subst. apply Forall_app. split.
    + eapply feed_no_panic; eauto.
    + eapply IH; [|exact FA]. eapply feed_settled; eauto.
Qed.

Theorem lib_never_panics : forall chunks eof,
  Forall (fun o => forall s, o <> OPanic s) (lib_items chunks eof).
Proof.
  intros chunks eof. unfold lib_items.
  destruct (feed_all reader0 chunks) as [os r] eqn:FA.
  pose proof (feed_all_no_panic _ _ _ _ settled_reader0 FA) as P.
  destruct eof; [|exact P]. apply Forall_app. split; [exact P|].
  unfold feed_eof. destruct (rd_stop r); [constructor|].
  destruct (rd_buf r); (constructor; [intros s; discriminate|constructor]).
Qed.

(** memory *)
Definition bsz (acc : option (list bytes)) : N :=
  match acc with Some fs => fold_right (fun f a => lenN f + a) 0 fs | None => 0 end.

Lemma fold_sz_app (v : list bytes) x :
  fold_right (fun f a => lenN f + a) x v = fold_right (fun f a => lenN f + a) 0 v + x.
Proof. induction v as [|y v IH]; cbn [fold_right]; [lia|]. rewrite IH. lia. Qed.

Lemma bsz_push acc data : bsz (Some (push acc data)) = bsz acc + lenN data.
Proof.
  destruct acc as [v|]; cbn [bsz push fold_right]; [|lia].
  rewrite fold_right_app. cbn [fold_right]. rewrite fold_sz_app. lia.
Qed.

Lemma lenN_split {A} n (l : list A) : lenN (firstnN n l) + lenN (skipnN n l) = lenN l.
Proof. rewrite <- lenN_app. unfold firstnN, skipnN. rewrite firstn_skipn. reflexivity. Qed.

Lemma step_mem d buf :
  match step d buf with
  | Done (_, d', b') => lenN b' + bsz (buffered d') <= lenN buf + bsz (buffered d)
  | Cont d' b' => lenN b' + bsz (buffered d') <= lenN buf + bsz (buffered d)
  end.
Proof.
  destruct (step d buf) as [[[r d'] b']|d' b'] eqn:H; step_inv H; cbn [buffered hdr_state];
    try rewrite bsz_push;
    try (pose proof (lenN_split (waiting d) buf));
    try (unfold lenN; rewrite skipn_length);
    cbn [bsz]; unfold lenN in *; cbn [length]; try lia.
Qed.

Lemma decode_mem : forall f d buf r d' b',
  decode f d buf = (r, d', b') -> lenN b' + bsz (buffered d') <= lenN buf + bsz (buffered d).
Proof.
  induction f as [|f IH]; intros d buf r d' b' H.
  - cbn [decode] in H. inversion H; subst. lia.
  - rewrite decode_step in H. pose proof (step_mem d buf) as HS.
    destruct (step d buf) as [[[r1 d1] b1]|d1 b1] eqn:E.
    + inversion H; subst. exact HS.
    + apply IH in H. lia.
Qed.

Lemma drain_mem : forall n d buf os d' b' s,
  drain n d buf = (os, d', b', s) -> lenN b' + bsz (buffered d') <= lenN buf + bsz (buffered d).
Proof.
  induction n as [|n IH]; intros d buf os d' b' s H.
  - cbn [drain] in H. inversion H; subst. lia.
  - rewrite drain_S in H. destruct (dec1 d buf) as [[r d1] b1] eqn:E.
    apply decode_mem in E.
    destruct r; try (inversion H; subst; exact E).
    destruct (drain n d1 b1) as [[[os2 d2] b2] s2] eqn:D. inversion H; subst.
    apply IH in D. lia.
Qed.

Lemma held_bsz r : held r = lenN (rd_buf r) + bsz (buffered (rd_dec r)).
Proof. reflexivity. Qed.

Lemma feed_mem r c os r' : feed r c = (os, r') -> held r' <= held r + lenN c.
Proof.
  intros H. rewrite feed_unfold in H. destruct (rd_stop r).
  - inversion H; subst. lia.
  - destruct (drain _ _ _) as [[[os1 d1] b1] s1] eqn:D. inversion H; subst.
    apply drain_mem in D. rewrite !held_bsz. cbn [rd_buf rd_dec]. rewrite lenN_app in D. lia.
Qed.

Lemma feed_all_mem : forall chunks r os r',
  feed_all r chunks = (os, r') -> held r' <= held r + lenN (concat chunks).
Proof.
  induction chunks as [|c cs IH]; intros r os r' H; cbn [feed_all concat] in *.
  - inversion H; subst. rewrite lenN_nil. lia.
  - destruct (feed r c) as [o1 r1] eqn:F. destruct (feed_all r1 cs) as [o2 r2] eqn:FA.
    inversion H; subst. apply feed_mem in F. apply IH in FA. rewrite lenN_app. lia.
Qed.

Theorem memory_proportional : forall chunks, held (lib_reader chunks) <= lenN (concat chunks).
Proof.
  intros chunks. unfold lib_reader.
  destruct (feed_all reader0 chunks) as [os r] eqn:FA. cbn [snd].
  apply feed_all_mem in FA. replace (held reader0) with 0 in FA by reflexivity. lia.
Qed.

(** * T6: one read of the whole stream = the declarative spec *)
Lemma land_pow2 b k : negb (N.land b (2 ^ k) =? 0) = N.testbit b k.
Proof.
  destruct (N.testbit b k) eqn:T.
  - destruct (N.eqb_spec (N.land b (2 ^ k)) 0) as [E|E]; [|reflexivity].
    exfalso. assert (N.testbit (N.land b (2 ^ k)) k = true) as X
      by (rewrite N.land_spec, T, N.pow2_bits_true; reflexivity).
    rewrite E, N.bits_0 in X. discriminate.
  - replace (N.land b (2 ^ k)) with 0; [reflexivity|].
    symmetry. apply N.bits_inj. intros i. rewrite N.bits_0, N.land_spec, N.pow2_bits_eqb.
    destruct (N.eqb_spec k i) as [<-|]; [rewrite T; reflexivity|apply andb_false_r].
Qed.

Lemma flags_of_bits b :
  flags_of b = {| f_cmd := N.testbit b 2; f_long := N.testbit b 1; f_more := N.testbit b 0 |}.
Proof.
  unfold flags_of.
  change Gen.dec_mask_cmd with (2 ^ 2). change Gen.dec_mask_long with (2 ^ 1).
  change Gen.dec_mask_more with (2 ^ 0). rewrite !land_pow2. reflexivity.
Qed.

Definition Hd (acc : option (list bytes)) : dec := {| st := SHeader; waiting := 1; buffered := acc |}.

Lemma hdr_steps f acc fl r :
  decode (S (S f)) (Hd acc) (fl :: r) =
    if lenN r <? lenw (flags_of fl)
    then (RNone, {| st := SLen (flags_of fl); waiting := lenw (flags_of fl); buffered := acc |}, r)
    else decode f {| st := SFrame (flags_of fl);
                     waiting := of_be (firstn (N.to_nat (lenw (flags_of fl))) r); buffered := acc |}
                  (skipn (N.to_nat (lenw (flags_of fl))) r).
Proof.
  rewrite decode_step.
  assert (waiting (Hd acc) <= lenN (fl :: r)) as L0 by (cbn [Hd waiting]; rewrite lenN_cons; lia).
  rewrite (Step_step (Hd acc) (fl :: r) _ (StHdr _ _ fl r L0 eq_refl eq_refl)).
  cbn [Hd buffered].
  match goal with |- context[decode _ ?d r] => set (d1 := d) end.
  rewrite decode_step.
  destruct (N.ltb_spec (lenN r) (lenw (flags_of fl))) as [L|L].
  - rewrite (Step_step d1 r _ (StWait d1 r L)). reflexivity.
  - assert (N.to_nat (lenw (flags_of fl)) <= length r)%nat as L1 by (unfold lenN in L; lia).
    rewrite (Step_step d1 r _ (StLen d1 r (flags_of fl) L eq_refl L1)). reflexivity.
Qed.

Lemma frame_step f fl w acc buf :
  decode (S f) {| st := SFrame fl; waiting := w; buffered := acc |} buf =
    if lenN buf <? w then (RNone, {| st := SFrame fl; waiting := w; buffered := acc |}, buf) else
    if f_cmd fl then (res_dres ICommand (parse_command (firstnN w buf)), Hd acc, skipnN w buf)
    else if f_more fl then decode f (Hd (Some (push acc (firstnN w buf)))) (skipnN w buf)
    else (RItem (IMessage (push acc (firstnN w buf))), Hd None, skipnN w buf).
Proof.
  rewrite decode_step. unfold step. cbn [st waiting buffered hdr_state].
  destruct (lenN buf <? w); [reflexivity|].
  destruct (f_cmd fl); [reflexivity|]. destruct (f_more fl); reflexivity.
Qed.

Lemma of_be_single n : of_be [n] = n.
Proof. unfold of_be. cbn [of_be_acc]. lia. Qed.

Lemma frame_none f acc bs :
  next_frame bs = None -> (mu (Hd acc) bs < f)%nat -> fst (fst (decode f (Hd acc) bs)) = RNone.
Proof.
  intros NF Hf. unfold mu in Hf. cbn [Hd st] in Hf.
  destruct bs as [|fl r].
  - rewrite quiet_decode; [reflexivity|lia|]. cbn [Hd waiting]. rewrite lenN_nil. lia.
  - cbn [length] in Hf. destruct f as [|[|[|f]]]; try lia.
    rewrite hdr_steps. unfold next_frame in NF. rewrite flags_of_bits. unfold lenw. cbn [f_long f_cmd f_more].
    destruct (N.testbit fl 1).
    + destruct (lenN r <? 8); [reflexivity|]. rewrite frame_step.
      change (N.to_nat 8) with 8%nat.
      destruct (lenN (skipn 8 r) <? of_be (firstn 8 r)); [reflexivity|discriminate].
    + destruct r as [|n r'].
      * rewrite lenN_nil. reflexivity.
      * destruct (N.ltb_spec (lenN (n :: r')) 1) as [L|L]; [rewrite lenN_cons in L; lia|].
        rewrite frame_step. change (N.to_nat 1) with 1%nat.
        change (firstn 1 (n :: r')) with [n]. change (skipn 1 (n :: r')) with r'.
        rewrite of_be_single.
        destruct (lenN r' <? n); [reflexivity|discriminate].
Qed.

Lemma frame_some f acc bs fr rest :
  next_frame bs = Some (fr, rest) ->
  (length rest + 2 <= length bs)%nat /\
  decode (S (S (S f))) (Hd acc) bs =
    if sf_cmd fr then (res_dres ICommand (parse_command (sf_body fr)), Hd acc, rest)
    else if sf_more fr then decode f (Hd (Some (push acc (sf_body fr)))) rest
    else (RItem (IMessage (push acc (sf_body fr))), Hd None, rest).
Proof.
  intros NF. unfold next_frame in NF. destruct bs as [|fl r]; [discriminate|].
  rewrite hdr_steps. rewrite flags_of_bits. unfold lenw. cbn [f_long f_cmd f_more].
  destruct (N.testbit fl 1).
  - destruct (N.ltb_spec (lenN r) 8) as [L|L]; [discriminate|]. rewrite frame_step.
    change (N.to_nat 8) with 8%nat.
    destruct (lenN (skipn 8 r) <? of_be (firstn 8 r)); [discriminate|].
    inversion NF; subst. cbn [sf_cmd sf_more sf_body f_cmd f_more]. split; [|reflexivity].
    unfold skipnN. rewrite !skipn_length. unfold lenN in L. cbn [length]. lia.
  - destruct r as [|n r']; [discriminate|].
    destruct (N.ltb_spec (lenN (n :: r')) 1) as [L|L]; [rewrite lenN_cons in L; lia|].
    rewrite frame_step. change (N.to_nat 1) with 1%nat.
    change (firstn 1 (n :: r')) with [n]. change (skipn 1 (n :: r')) with r'.
    rewrite of_be_single.
    destruct (lenN r' <? n); [discriminate|].
    inversion NF; subst. cbn [sf_cmd sf_more sf_body f_cmd f_more]. split; [|reflexivity].
    unfold skipnN. rewrite !skipn_length. cbn [length]. lia.
Qed.

Definition outs (x : list out * dec * bytes * bool) : list out := fst (fst (fst x)).

Definition after (x : dres * dec * bytes) (n : nat) : list out :=
  match x with
  | (RNone, _, _) => []
  | (RItem i, d', b') => OItem i :: outs (drain n d' b')
  | (RErr e, _, _) => [OErr e]
  | (RPanic s, _, _) => [OPanic s]
  | (RFuel, _, _) => [OPanic PAssert]
  end.

Lemma drain_after n d buf : outs (drain (S n) d buf) = after (dec1 d buf) n.
Proof.
  rewrite drain_S. destruct (dec1 d buf) as [[r d'] b']. destruct r; try reflexivity.
  cbn [after]. destruct (drain n d' b') as [[[os d2] b2] s]. reflexivity.
Qed.

Lemma spec_frames_decode : forall fuel acc bs k n,
  (length bs < fuel)%nat -> (mu (Hd acc) bs < k)%nat -> (length bs <= n)%nat ->
  after (decode k (Hd acc) bs) n = spec_frames fuel acc bs.
Proof.
  induction fuel as [|fuel IH]; intros acc bs k n Hfuel Hk Hn; [lia|].
  cbn [spec_frames]. destruct (next_frame bs) as [[fr rest]|] eqn:NF.
  - destruct (frame_some 0 acc bs fr rest NF) as [L _].
    assert (mu (Hd acc) bs = 3 * length bs + 1)%nat as M by reflexivity.
    destruct k as [|[|[|k]]]; try lia.
    destruct (frame_some k acc bs fr rest NF) as [_ ->].
    destruct n as [|n]; [lia|].
    fold (push acc (sf_body fr)).
    destruct (sf_cmd fr).
    + destruct (parse_command (sf_body fr)); cbn [res_dres after]; try reflexivity.
      f_equal. rewrite drain_after. unfold dec1. apply IH; [lia|apply fuel_for_enough|lia].
    + destruct (sf_more fr).
      * apply IH; [lia| |lia]. unfold mu. cbn [Hd st]. lia.
      * cbn [after]. f_equal. rewrite drain_after. unfold dec1.
        apply IH; [lia|apply fuel_for_enough|lia].
  - pose proof (frame_none k acc bs NF Hk) as X.
    destruct (decode k (Hd acc) bs) as [[r d'] b']. cbn [fst] in X. subst r. reflexivity.
Qed.

Theorem whole_eq_spec_all : forall bs, lib_items [bs] false = spec_items bs.
Proof.
  intros bs. unfold lib_items. cbn [feed_all].
  destruct (feed reader0 bs) as [o1 r1] eqn:F. rewrite app_nil_r.
  rewrite feed_unfold in F. cbn [reader0 rd_stop rd_dec rd_buf app] in F.
  assert (o1 = outs (drain (S (length bs)) dec0 bs)) as ->.
  { destruct (drain _ _ _) as [[[os d] b] s]. inversion F; subst. reflexivity. }
  clear F r1. rewrite drain_after. unfold dec1, fuel_for.
  replace (3 * length bs + 4)%nat with (S (3 * length bs + 3)) by lia.
  rewrite decode_step. unfold step, spec_items. cbn [dec0 st waiting].
  change Gen.greeting_len with 64. change Gen.greeting_first with 255.
  change (N.to_nat Gen.greeting_split) with 64%nat.
  destruct (N.ltb_spec (lenN bs) 64) as [L|L]; [reflexivity|].
  destruct bs as [|b0 t]; [rewrite lenN_nil in L; lia|].
  cbn [nth]. destruct (negb (b0 =? 255)); [reflexivity|]. cbv zeta.
  destruct (Nat.ltb_spec (length (b0 :: t)) 64) as [L2|L2]; [unfold lenN in L; lia|].
  destruct (parse_greeting (firstn 64 (b0 :: t))) as [g|e|s]; cbn [res_dres after]; try reflexivity.
  f_equal. remember (b0 :: t) as bs.
  destruct (length bs) as [|n] eqn:Len; [lia|].
  rewrite drain_after. unfold dec1. change (hdr_state dec0) with (Hd None).
  pose proof (skipn_length 64 bs) as SL.
  apply spec_frames_decode; [lia|apply fuel_for_enough|lia].
Qed.

Theorem whole_eq_spec : forall bs, bytes_ok bs = true -> lib_items [bs] false = spec_items bs.
Proof. intros bs _. apply whole_eq_spec_all. Qed.


Print Assumptions decode_fuel_irrelevant.
Print Assumptions decode_no_panic.
Print Assumptions decode_resume_item.
Print Assumptions decode_resume_none.
Print Assumptions feed_all_concat.
Print Assumptions chunks_eq_whole.
Print Assumptions segmentation_independent.
Print Assumptions lib_never_panics.
Print Assumptions memory_proportional.
Print Assumptions whole_eq_spec.
