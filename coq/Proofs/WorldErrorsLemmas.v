(** Lemmas for Proofs/WorldErrors.v: the shape of a reader's output (items, then at most one non-item at the
    very end) and the per-connection bookkeeping invariant of the socket model (peer table, stream
    registration, halves) along [wrun]. *)
From Coq Require Import List Arith NArith Lia Bool.
From ZV Require Import Base.Bytes Base.Res Model.Codec Model.World Proofs.Decoder
  Proofs.WorldStreamDefs Proofs.WorldStreamLemmas.
Import ListNotations.
Open Scope N_scope.

(** * Part A: shape of the output of [drain] / [feed] / [feed_all] / [expected] *)
Definition nonitem (o : out) : bool := match o with OItem _ => false | _ => true end.

(** well shaped: a non-item can only be the last element *)
Fixpoint ws (l : list out) : bool :=
  match l with
  | [] => true
  | o :: t => if nonitem o then is_nil t else ws t
  end.

Lemma ws_split : forall pre l o post,
  ws l = true -> l = pre ++ o :: post -> nonitem o = true ->
  post = [] /\ forallb (fun x => negb (nonitem x)) pre = true.
Proof.
  induction pre as [|x pre IH]; intros l o post Hw Hl Ho; subst l; cbn [app ws forallb] in *.
  - rewrite Ho in Hw. destruct post; [split; reflexivity|discriminate Hw].
  - destruct (nonitem x) eqn:Hx.
    + destruct pre; discriminate Hw.
    + cbn [negb andb]. exact (IH _ o post Hw eq_refl Ho).
Qed.

Lemma ws_prefix : forall a b, ws (a ++ b) = true -> ws a = true.
Proof.
  induction a as [|x a IH]; intros b H; cbn [app ws] in *; [reflexivity|].
  destruct (nonitem x).
  - destruct a; [reflexivity|discriminate H].
  - exact (IH b H).
Qed.

Lemma ws_app_clean : forall a b, existsb nonitem a = false -> ws (a ++ b) = ws b.
Proof.
  induction a as [|x a IH]; intros b H; cbn [app ws existsb] in *; [reflexivity|].
  apply orb_false_iff in H as [Hx Ha]. rewrite Hx. exact (IH b Ha).
Qed.

Lemma drain_shape : forall n d buf os d' b' s,
  drain n d buf = (os, d', b', s) -> ws os = true /\ existsb nonitem os = s.
Proof.
  induction n as [|n IH]; intros d buf os d' b' s H.
  - cbn [drain] in H. apply pair_equal_spec in H as [H <-]. apply pair_equal_spec in H as [H _].
    apply pair_equal_spec in H as [<- _]. split; reflexivity.
  - rewrite drain_S in H. destruct (dec1 d buf) as [[r d1] b1]. destruct r as [|i|e|p|].
    + apply pair_equal_spec in H as [H <-]. apply pair_equal_spec in H as [H _].
      apply pair_equal_spec in H as [<- _]. split; reflexivity.
    + destruct (drain n d1 b1) as [[[os1 d2] b2] s1] eqn:E.
      apply IH in E. destruct E as [E1 E2].
      apply pair_equal_spec in H as [H <-]. apply pair_equal_spec in H as [H _].
      apply pair_equal_spec in H as [<- _]. cbn [ws existsb nonitem orb]. split; assumption.
    + apply pair_equal_spec in H as [H <-]. apply pair_equal_spec in H as [H _].
      apply pair_equal_spec in H as [<- _]. split; reflexivity.
    + apply pair_equal_spec in H as [H <-]. apply pair_equal_spec in H as [H _].
      apply pair_equal_spec in H as [<- _]. split; reflexivity.
    + apply pair_equal_spec in H as [H <-]. apply pair_equal_spec in H as [H _].
      apply pair_equal_spec in H as [<- _]. split; reflexivity.
Qed.

Lemma feed_shape r c os r' : rd_stop r = false -> feed r c = (os, r') ->
  ws os = true /\ existsb nonitem os = rd_stop r'.
Proof.
  intros Hs H. rewrite feed_unfold, Hs in H.
  destruct (drain _ (rd_dec r) (rd_buf r ++ c)) as [[[os1 d1] b1] s1] eqn:E.
  apply drain_shape in E. apply pair_equal_spec in H as [<- <-]. cbn [rd_stop]. exact E.
Qed.

(** the general fact: from any reader that has not stopped, the outputs are items followed by at most one
    non-item at the very end, and the reader has stopped iff there is one *)
Lemma feed_all_shape : forall l r os r', rd_stop r = false -> feed_all r l = (os, r') ->
  ws os = true /\ existsb nonitem os = rd_stop r'.
Proof.
  induction l as [|c l IH]; intros r os r' Hs H; cbn [feed_all] in H.
  - apply pair_equal_spec in H as [<- <-]. split; [reflexivity|symmetry; exact Hs].
  - destruct (feed r c) as [o1 r1] eqn:E1. destruct (feed_shape r c o1 r1 Hs E1) as [W1 X1].
    destruct (rd_stop r1) eqn:S1.
    + rewrite (feed_all_stopped l r1 S1) in H. apply pair_equal_spec in H as [<- <-].
      rewrite app_nil_r. split; [exact W1|]. rewrite X1. symmetry. exact S1.
    + destruct (feed_all r1 l) as [o2 r2] eqn:E2. destruct (IH r1 o2 r2 S1 E2) as [W2 X2].
      apply pair_equal_spec in H as [<- <-].
      split; [rewrite ws_app_clean; assumption|].
      rewrite existsb_app, X1. exact X2.
Qed.

Lemma feed_all_stopped_shape : forall l r os r', feed_all r l = (os, r') ->
  ws os = true /\ (rd_stop r' = true -> rd_stop r = true \/ existsb nonitem os = true).
Proof.
  intros l r os r' H. destruct (rd_stop r) eqn:Hs.
  - rewrite (feed_all_stopped l r Hs) in H. apply pair_equal_spec in H as [<- <-].
    split; [reflexivity|]. intros _. left. reflexivity.
  - destruct (feed_all_shape l r os r' Hs H) as [W X]. split; [exact W|]. intros S. right. congruence.
Qed.

Lemma expected_shape chunks closed : ws (expected chunks closed) = true.
Proof.
  unfold expected. destruct (feed_all reader_pg chunks) as [os r] eqn:E.
  destruct (feed_all_shape chunks reader_pg os r eq_refl E) as [W X].
  destruct closed; [|exact W].
  unfold feed_eof. destruct (rd_stop r) eqn:S.
  - rewrite app_nil_r. exact W.
  - rewrite ws_app_clean by exact X. destruct (rd_buf r); reflexivity.
Qed.

(** * Part B: the bookkeeping for one connection *)
Ltac wproj := cbn [w_conns w_heap w_streams w_reg w_type w_counter w_peers with_fq with_peers set_w upd_conn with_conns].

Lemma poll_keeps : forall fuel c p c', poll_stream fuel c = (p, c') ->
  c_id c' = c_id c /\ c_eof c' = c_eof c /\ c_rd c' = c_rd c /\ c_wr c' = c_wr c /\
  (p = PEnded -> c_eof c = true).
Proof.
  induction fuel as [|f IH]; intros c p c' H.
  - cbn [poll_stream] in H. apply pair_equal_spec in H as [<- <-].
    repeat split; try reflexivity. discriminate.
  - rewrite poll_S in H. destruct (dec1 (c_dec c) (c_buf c)) as [[r d1] b1].
    destruct r.
    + destruct (c_inq c) as [|ch rest].
      * cbv zeta in H. destruct (c_eof c) eqn:Heof; [destruct (is_nil b1)|];
          apply pair_equal_spec in H as [<- <-]; cbn [c_id c_eof c_rd c_wr];
          repeat split; try reflexivity; try discriminate; symmetry; exact Heof.
      * apply IH in H. cbn [c_id c_eof c_rd c_wr] in H. exact H.
    + apply pair_equal_spec in H as [<- <-]; repeat split; try reflexivity; discriminate.
    + apply pair_equal_spec in H as [<- <-]; repeat split; try reflexivity; discriminate.
    + apply pair_equal_spec in H as [<- <-]; repeat split; try reflexivity; discriminate.
    + apply pair_equal_spec in H as [<- <-]; repeat split; try reflexivity; discriminate.
Qed.

(** how connection k's bookkeeping may evolve without anything being handed out for it and without its
    peer closing: either nothing changes, or (only after the peer closed) its stream ended cleanly *)
Definition evol (k : N) (w w0 : world) : Prop :=
  memN k (w_peers w0) = memN k (w_peers w) /\
  forall c, get_conn k (w_conns w) = Some c ->
    exists c0, get_conn k (w_conns w0) = Some c0 /\ c_eof c0 = c_eof c /\ c_wr c0 = c_wr c /\
      ((memN k (w_streams w0) = memN k (w_streams w) /\ c_rd c0 = c_rd c) \/
       (c_eof c = true /\ memN k (w_streams w0) = false /\ c_rd c0 = false)).

Lemma evol_refl k w : evol k w w.
Proof.
  split; [reflexivity|]. intros c Hc. exists c.
  split; [exact Hc|split; [reflexivity|split; [reflexivity|left; split; reflexivity]]].
Qed.

Lemma evol_trans k w1 w2 w3 : evol k w1 w2 -> evol k w2 w3 -> evol k w1 w3.
Proof.
  intros [P1 C1] [P2 C2]. split; [congruence|]. intros c Hc.
  destruct (C1 c Hc) as (c2 & G2 & E2 & W2 & D2).
  destruct (C2 c2 G2) as (c3 & G3 & E3 & W3 & D3).
  exists c3. split; [exact G3|split; [congruence|split; [congruence|]]].
  destruct D2 as [[S2 R2]|(F2 & S2 & R2)]; destruct D3 as [[S3 R3]|(F3 & S3 & R3)].
  - left. split; congruence.
  - right. split; [congruence|split; assumption].
  - right. split; [exact F2|split; congruence].
  - right. split; [exact F2|split; assumption].
Qed.

Lemma evol_triv k w w' :
  memN k (w_peers w') = memN k (w_peers w) -> memN k (w_streams w') = memN k (w_streams w) ->
  get_conn k (w_conns w') = get_conn k (w_conns w) -> evol k w w'.
Proof.
  intros P S C. split; [exact P|]. intros c Hc. exists c. rewrite C.
  split; [exact Hc|split; [reflexivity|split; [reflexivity|left; split; [exact S|reflexivity]]]].
Qed.

Lemma evol_same k w w' k' c c' :
  w_peers w' = w_peers w -> w_streams w' = w_streams w -> w_conns w' = put_conn c' (w_conns w) ->
  get_conn k' (w_conns w) = Some c -> c_id c' = k' ->
  c_eof c' = c_eof c -> c_rd c' = c_rd c -> c_wr c' = c_wr c -> evol k w w'.
Proof.
  intros P S C G I E R W.
  destruct (N.eqb_spec k' k) as [->|Hne].
  - split; [rewrite P; reflexivity|]. intros c1 Hc1. rewrite G in Hc1. injection Hc1 as <-.
    exists c'. rewrite C, S. split; [apply get_put_same; exact I|].
    split; [exact E|split; [exact W|left; split; [reflexivity|exact R]]].
  - apply evol_triv; [rewrite P; reflexivity|rewrite S; reflexivity|].
    rewrite C. apply get_put_other. congruence.
Qed.

Lemma evol_ended k w w' k' c c' :
  w_peers w' = w_peers w -> w_streams w' = delN k' (w_streams w) -> w_conns w' = put_conn c' (w_conns w) ->
  get_conn k' (w_conns w) = Some c -> c_id c' = k' ->
  c_eof c' = c_eof c -> c_eof c = true -> c_rd c' = false -> c_wr c' = c_wr c -> evol k w w'.
Proof.
  intros P S C G I E T R W.
  destruct (N.eqb_spec k' k) as [->|Hne].
  - split; [rewrite P; reflexivity|]. intros c1 Hc1. rewrite G in Hc1. injection Hc1 as <-.
    exists c'. rewrite C, S. split; [apply get_put_same; exact I|].
    split; [exact E|split; [exact W|right; split; [exact T|split; [apply memN_delN_same|exact R]]]].
  - apply evol_triv; [rewrite P; reflexivity|rewrite S; apply memN_delN_other; congruence|].
    rewrite C. apply get_put_other. congruence.
Qed.

Lemma fq_wake_peers w k : w_peers (fq_wake w k) = w_peers w.
Proof. unfold fq_wake. destruct (reg_get k (w_reg w)); reflexivity. Qed.

Lemma do_feed_evol k w k' b : evol k w (do_feed w k' b).
Proof.
  unfold do_feed. destruct (get_conn k' (w_conns w)) as [cn|] eqn:G; [|apply evol_refl].
  destruct (is_nil b || c_eof cn); [apply evol_refl|].
  set (c2 := c_with_in cn (c_inq cn ++ [b]) (c_eof cn)).
  destruct (fq_wake_spec (upd_conn w c2) k') as (Hc & Hs & _).
  apply (evol_same k w _ k' cn c2).
  - rewrite fq_wake_peers. reflexivity.
  - rewrite Hs. reflexivity.
  - rewrite Hc. reflexivity.
  - exact G.
  - exact (get_conn_id _ _ _ G).
  - reflexivity.
  - reflexivity.
  - reflexivity.
Qed.

Lemma do_eof_k k w k' :
  w_peers (do_eof w k') = w_peers w /\ w_streams (do_eof w k') = w_streams w /\
  forall c, get_conn k (w_conns w) = Some c ->
    exists c0, get_conn k (w_conns (do_eof w k')) = Some c0 /\ c_rd c0 = c_rd c /\ c_wr c0 = c_wr c /\
      c_eof c0 = c_eof c || (k' =? k).
Proof.
  unfold do_eof. destruct (get_conn k' (w_conns w)) as [cn|] eqn:G.
  - set (c2 := c_with_in cn (c_inq cn) true).
    destruct (fq_wake_spec (upd_conn w c2) k') as (Hc & Hs & _).
    rewrite fq_wake_peers, Hs, Hc. wproj.
    split; [reflexivity|split; [reflexivity|]]. intros c Hg.
    pose proof (get_conn_id _ _ _ G) as Hid.
    destruct (N.eqb_spec k' k) as [->|Hne].
    + rewrite G in Hg. injection Hg as <-. exists c2.
      split; [apply get_put_same; exact Hid|]. rewrite orb_true_r.
      split; [reflexivity|split; reflexivity].
    + exists c. rewrite orb_false_r. split; [|split; [reflexivity|split; reflexivity]].
      rewrite get_put_other; [exact Hg|]. cbn [c2 c_with_in c_id]. congruence.
  - split; [reflexivity|split; [reflexivity|]]. intros c Hg.
    destruct (N.eqb_spec k' k) as [->|Hne]; [congruence|].
    exists c. rewrite orb_false_r. split; [exact Hg|split; [reflexivity|split; reflexivity]].
Qed.

Lemma fq_next_evol k : forall fuel w fr w0, fq_next fuel w = (fr, w0) -> evol k w w0.
Proof.
  induction fuel as [|f IH]; intros w fr w0 H.
  - cbn [fq_next] in H. apply pair_equal_spec in H as [_ <-]. apply evol_refl.
  - rewrite fq_next_S in H. destruct (w_heap w) as [|[p k'] h'].
    + apply pair_equal_spec in H as [_ <-]. apply evol_refl.
    + cbv zeta in H.
      remember (with_fq w h' (w_counter w) (w_streams w) (w_reg w)) as w1 eqn:Hw1.
      assert (w_conns w1 = w_conns w) as A1 by (subst w1; reflexivity).
      assert (w_streams w1 = w_streams w) as A2 by (subst w1; reflexivity).
      assert (w_peers w1 = w_peers w) as A3 by (subst w1; reflexivity).
      clear Hw1.
      assert (evol k w w1) as E1 by (apply evol_triv; congruence).
      apply (evol_trans k w w1 w0 E1). clear E1 A1 A2 A3 w.
      destruct (negb (memN k' (w_streams w1))); [exact (IH _ _ _ H)|].
      destruct (get_conn k' (w_conns w1)) as [c|] eqn:G; [|exact (IH _ _ _ H)].
      pose proof (get_conn_id _ _ _ G) as Hid.
      destruct (poll_stream (S (length (c_inq c))) c) as [pl c'] eqn:HP.
      apply poll_keeps in HP. destruct HP as (I & E & R & W & Hend). rewrite Hid in I.
      destruct pl as [o| |].
      * apply pair_equal_spec in H as [_ <-].
        apply (evol_same k w1 _ k' c c'); wproj; try reflexivity; assumption.
      * apply IH in H. refine (evol_trans k w1 _ w0 _ H).
        apply (evol_same k w1 _ k' c c'); wproj; try reflexivity; assumption.
      * apply IH in H. refine (evol_trans k w1 _ w0 _ H).
        apply (evol_ended k w1 _ k' c (c_with_halves c' false (c_wr c'))); wproj;
          cbn [c_with_halves c_id c_eof c_rd c_wr]; try reflexivity; try assumption.
        exact (Hend eq_refl).
Qed.

Lemma drop_halves_self w k r wr c : get_conn k (w_conns w) = Some c ->
  get_conn k (w_conns (drop_halves w k r wr)) = Some (c_with_halves c (c_rd c && negb r) (c_wr c && negb wr)).
Proof.
  intros G. unfold drop_halves. rewrite G. wproj. apply get_put_same.
  cbn [c_with_halves c_id]. exact (get_conn_id _ _ _ G).
Qed.

Lemma drop_halves_peers w k r wr : w_peers (drop_halves w k r wr) = w_peers w.
Proof. unfold drop_halves. destruct (get_conn k (w_conns w)); reflexivity. Qed.

Lemma pd_peers w k' : w_peers (peer_disconnected w k') = delN k' (w_peers w).
Proof.
  unfold peer_disconnected. destruct (has_fq (w_type w)).
  - rewrite drop_halves_peers. unfold fq_remove. wproj. rewrite drop_halves_peers. reflexivity.
  - rewrite drop_halves_peers. reflexivity.
Qed.

Lemma pd_self w k c : has_fq (w_type w) = true -> get_conn k (w_conns w) = Some c ->
  exists c', get_conn k (w_conns (peer_disconnected w k)) = Some c' /\
    c_rd c' = false /\ c_wr c' = false /\ c_eof c' = c_eof c.
Proof.
  intros Ht G. unfold peer_disconnected. rewrite Ht.
  set (wa := with_peers w (delN k (w_peers w))).
  set (b1 := match w_type w with REQ => true | _ => false end).
  assert (get_conn k (w_conns wa) = Some c) as Ga by exact G.
  pose proof (drop_halves_self wa k b1 true c Ga) as G1.
  set (c1 := c_with_halves c (c_rd c && negb b1) (c_wr c && negb true)) in G1.
  assert (get_conn k (w_conns (fq_remove (drop_halves wa k b1 true) k)) = Some c1) as G2 by exact G1.
  pose proof (drop_halves_self _ k true false c1 G2) as G3.
  eexists. split; [exact G3|]. cbn [c_with_halves c_rd c_wr c_eof c1 negb].
  rewrite !andb_false_r. repeat split; reflexivity.
Qed.

Lemma pd_other_evol k w k' : has_fq (w_type w) = true -> k' <> k -> evol k w (peer_disconnected w k').
Proof.
  intros Ht Hne. destruct (pd_spec w k' Ht) as (S1 & _ & _ & _ & C1).
  apply evol_triv.
  - rewrite pd_peers. apply memN_delN_other. congruence.
  - rewrite S1. apply memN_delN_other. congruence.
  - apply C1. congruence.
Qed.

(** the invariant: [cl] = k's peer has closed, [err] = a non-item has been handed out for k *)
Definition J (k : N) (cl err : bool) (w : world) : Prop :=
  exists c, get_conn k (w_conns w) = Some c /\
    (c_eof c = true -> cl = true) /\
    if err
    then memN k (w_peers w) = false /\ memN k (w_streams w) = false /\ c_rd c = false /\ c_wr c = false
    else memN k (w_peers w) = true /\ c_wr c = true /\
         (memN k (w_streams w) = true -> c_rd c = true) /\
         (cl = false -> memN k (w_streams w) = true).

Lemma J_evol k cl err w w0 : evol k w w0 -> J k cl err w -> J k cl err w0.
Proof.
  intros [P C] (c & G & Hcl & HJ). destruct (C c G) as (c0 & G0 & E0 & W0 & D).
  exists c0. split; [exact G0|]. split; [rewrite E0; exact Hcl|].
  destruct err.
  - destruct HJ as (J1 & J2 & J3 & J4). rewrite P, W0.
    destruct D as [[S R]|(F & S & R)].
    + rewrite S, R. repeat split; assumption.
    + repeat split; assumption.
  - destruct HJ as (J1 & J2 & J3 & J4). rewrite P, W0.
    destruct D as [[S R]|(F & S & R)].
    + rewrite S, R. repeat split; assumption.
    + split; [exact J1|split; [exact J2|split]].
      * rewrite S. discriminate.
      * intros Hc. specialize (Hcl F). congruence.
Qed.

Lemma J_pd_self k cl err w : has_fq (w_type w) = true -> J k cl err w -> J k cl true (peer_disconnected w k).
Proof.
  intros Ht (c & G & Hcl & _). destruct (pd_self w k c Ht G) as (c' & G' & R & W & E).
  destruct (pd_spec w k Ht) as (S1 & _).
  exists c'. split; [exact G'|]. split; [rewrite E; exact Hcl|].
  split; [rewrite pd_peers; apply memN_delN_same|].
  split; [rewrite S1; apply memN_delN_same|split; assumption].
Qed.

Lemma J_step k e cl err w r w' :
  has_fq (w_type w) = true -> J k cl err w -> wstep w e = (r, w') ->
  J k (cl || closed_of k [e]) (err || existsb nonitem (outs_of k [r])) w'.
Proof.
  intros Ht HJ H. destruct e as [k' b|k'|]; cbn [wstep] in H.
  - apply pair_equal_spec in H as [<- <-]. cbn [outs_of closed_of existsb]. rewrite !orb_false_r.
    exact (J_evol k cl err w _ (do_feed_evol k w k' b) HJ).
  - apply pair_equal_spec in H as [<- <-]. cbn [outs_of closed_of existsb]. rewrite orb_false_r.
    destruct (do_eof_k k w k') as (P & S & C).
    destruct HJ as (c & G & Hcl & HJ). destruct (C c G) as (c0 & G0 & R0 & W0 & E0).
    exists c0. split; [exact G0|]. split.
    + rewrite E0. intros Hx. apply orb_true_iff in Hx as [Hx|Hx].
      * rewrite (Hcl Hx). reflexivity.
      * rewrite Hx. rewrite N.eqb_sym in Hx. apply orb_true_r.
    + rewrite P, S, R0, W0. destruct err; [exact HJ|].
      destruct HJ as (J1 & J2 & J3 & J4). split; [exact J1|split; [exact J2|split; [exact J3|]]].
      intros Hx. apply orb_false_iff in Hx as [Hx _]. exact (J4 Hx).
  - destruct (fq_next (next_fuel w) w) as [fr w0] eqn:HN.
    pose proof (fq_next_type _ _ _ _ HN) as Hty.
    apply (fq_next_evol k) in HN. apply (J_evol k cl err w w0 HN) in HJ.
    rewrite <- Hty in Ht.
    cbn [closed_of]. rewrite orb_false_r.
    destruct fr as [k' [i|e|s|]|]; cbv beta iota in H; apply pair_equal_spec in H as [<- <-]; cbn [outs_of].
    + destruct (k' =? k); cbn [existsb nonitem orb]; rewrite orb_false_r; exact HJ.
    + destruct (N.eqb_spec k' k) as [->|Hne]; cbn [existsb nonitem orb].
      * rewrite orb_true_r. exact (J_pd_self k cl err w0 Ht HJ).
      * rewrite orb_false_r. exact (J_evol k cl err w0 _ (pd_other_evol k w0 k' Ht Hne) HJ).
    + destruct (N.eqb_spec k' k) as [->|Hne]; cbn [existsb nonitem orb].
      * rewrite orb_true_r. exact (J_pd_self k cl err w0 Ht HJ).
      * rewrite orb_false_r. exact (J_evol k cl err w0 _ (pd_other_evol k w0 k' Ht Hne) HJ).
    + destruct (N.eqb_spec k' k) as [->|Hne]; cbn [existsb nonitem orb].
      * rewrite orb_true_r. exact (J_pd_self k cl err w0 Ht HJ).
      * rewrite orb_false_r. exact (J_evol k cl err w0 _ (pd_other_evol k w0 k' Ht Hne) HJ).
    + cbn [existsb]. rewrite orb_false_r. exact HJ.
Qed.

(** * Part C: the start state and runs *)
Lemma do_attach_peers w c : has_fq (w_type w) = true -> w_subs w = [] ->
  w_peers (do_attach w c None) = delN c (w_peers w) ++ [c].
Proof.
  intros Ht Hs. unfold do_attach.
  destruct (w_type w) eqn:E; try discriminate Ht;
    cbn [w_subs with_conns set_w]; rewrite ?Hs;
    cbn [fold_left has_fq fq_insert with_fq with_rr with_peers with_conns set_w
         w_type w_subs w_conns w_heap w_streams w_reg w_counter w_peers];
    rewrite ?E, ?Hs; reflexivity.
Qed.

Lemma attached_peers t : has_fq t = true -> forall cs k, In k cs -> memN k (w_peers (attached t cs)) = true.
Proof.
  intros Ht. induction cs as [|c cs IH] using rev_ind; intros k Hk; [destruct Hk|].
  destruct (attached_inv t Ht cs) as (T1 & S1 & _).
  unfold attached in *. rewrite fold_left_app. cbn [fold_left].
  set (w := fold_left (fun w c => do_attach w c None) cs (world0 t)) in *.
  assert (has_fq (w_type w) = true) as Ht' by (rewrite T1; exact Ht).
  rewrite (do_attach_peers w c Ht' S1), memN_snoc.
  destruct (N.eqb_spec k c) as [->|Hne]; [apply orb_true_r|].
  rewrite orb_false_r, memN_delN_other by exact Hne.
  apply in_app_or in Hk. destruct Hk as [Hk|[Hk|[]]]; [exact (IH k Hk)|congruence].
Qed.

Lemma attached_J t cs k : has_fq t = true -> In k cs -> J k false false (attached t cs).
Proof.
  intros Ht Hk. destruct (attached_inv t Ht cs) as (_ & _ & _ & K1).
  destruct (K1 k Hk) as (G & M & _).
  exists (new_conn k None). split; [exact G|]. cbn [new_conn c_eof c_rd c_wr].
  split; [discriminate|]. split; [exact (attached_peers t Ht cs k Hk)|].
  split; [reflexivity|split; [reflexivity|]]. intros _. exact M.
Qed.

Lemma run_J t cs k : has_fq t = true -> In k cs -> forall es rs w,
  wrun (attached t cs) es = (rs, w) ->
  w_type w = t /\ J k (closed_of k es) (existsb nonitem (outs_of k rs)) w.
Proof.
  intros Ht Hk. induction es as [|e es IH] using rev_ind; intros rs w H.
  - cbn [wrun] in H. apply pair_equal_spec in H as [<- <-].
    split; [exact (proj1 (attached_inv t Ht cs))|]. exact (attached_J t cs k Ht Hk).
  - rewrite wrun_snoc in H. destruct (wrun (attached t cs) es) as [rs0 w0].
    destruct (IH rs0 w0 eq_refl) as [T0 J0].
    destruct (wstep w0 e) as [r w1] eqn:HS. apply pair_equal_spec in H as [<- <-].
    assert (has_fq (w_type w0) = true) as Ht0 by (rewrite T0; exact Ht).
    split.
    + rewrite (wstep_type w0 e r w1 Ht0 HS). exact T0.
    + rewrite closed_of_snoc, outs_of_app, existsb_app.
      exact (J_step k e _ _ w0 r w1 Ht0 J0 HS).
Qed.
