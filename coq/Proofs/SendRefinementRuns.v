(** Whole runs of sends: the scripted-connection model of the round-robin send loop and the socket model stay in step
    over connections that accept every write (lifts [rr_refines_world] from one send to any number of sends). *)
From Coq Require Import List NArith Lia Bool.
Import ListNotations.
From ZV Require Import Base.Bytes Base.Res Model.Codec Model.TrySend Model.RrSend Model.DirSend.
From ZV Require Import Proofs.TrySendProofs Proofs.RrSendProofs Proofs.DirSendProofs Proofs.SendRefinement.
From ZV Require Model.World Proofs.SocketProofs.
Local Open Scope N_scope.

(** the two outcomes possible over accepting connections, seen from either model *)
Definition same_outcome (m : World.msg) (b : World.obs) (r : rr_res) : Prop :=
  match r with
  | ROk _ => b = World.BSendOk
  | RNoPeer => b = World.BSendErr EReturnToSender (Some m)
  | _ => False
  end.

Lemma send_rr_type : forall fuel w m, World.w_type (snd (World.send_rr fuel w m)) = World.w_type w.
Proof.
  induction fuel as [|f IH]; intros w m; cbn [World.send_rr]; [reflexivity|].
  destruct (World.w_rr w) as [|k rest]; [reflexivity|]. cbv zeta.
  destruct (World.memN k (World.w_peers (World.with_rr w rest))).
  - destruct (World.w_type w) eqn:E; cbn [snd];
      try (cbn [World.with_cur World.set_w World.w_type]);
      rewrite (proj1 (proj2 (proj2 (proj2 (proj2 (SocketProofs.write_msg_tables_unchanged _ _ _))))));
      cbn [World.with_rr World.set_w World.w_type]; exact E.
  - rewrite IH. reflexivity.
Qed.

Theorem rr_runs_refine_world : forall ms w st,
  World.w_type w = PUSH \/ World.w_type w = DEALER -> rr_agrees w st ->
  Forall (fun m => lenN (encode_frames m) < 2 ^ 63) ms ->
  let '(bs, w') := SocketProofs.sends w ms in
  let '(rs, st') := rrun st (map RSend ms) in
  rr_agrees w' st' /\
  length bs = length ms /\ length rs = length ms /\
  (forall i m b r, nth_error ms i = Some m -> nth_error bs i = Some b -> nth_error rs i = Some r -> same_outcome m b r) /\
  exists d : N -> bytes, forall j, wire_w j w' = wire_w j w ++ d j /\ wire_of j st' = wire_of j st ++ d j.
Proof.
  induction ms as [|m ms IH]; intros w st Hty Hag Hall.
  - cbn [SocketProofs.sends map rrun]. split; [exact Hag|]. split; [reflexivity|]. split; [reflexivity|]. split.
    + intros i m b r H. destruct i; discriminate H.
    + exists (fun _ => []). intros j. rewrite !app_nil_r. split; reflexivity.
  - inversion Hall as [|m0 ms0 Hm Hms]; subst m0 ms0.
    pose proof (rr_refines_world w st m Hty Hag Hm) as H1.
    pose proof (send_rr_type (S (length (World.w_rr w))) w m) as Hty1.
    cbn [SocketProofs.sends map rrun rstep].
    destruct (World.send_rr (S (length (World.w_rr w))) w m) as [b w1].
    destruct (RrSend.send st m) as [r st1].
    cbn [snd] in Hty1. destruct H1 as [Hag1 Hout].
    assert (Hty' : World.w_type w1 = PUSH \/ World.w_type w1 = DEALER) by (rewrite Hty1; exact Hty).
    specialize (IH w1 st1 Hty' Hag1 Hms).
    destruct (SocketProofs.sends w1 ms) as [bs w2].
    destruct (rrun st1 (map RSend ms)) as [rs st2].
    destruct IH as (Hag2 & Lb & Lr & Hnth & d2 & Hd2).
    cbn [app].
    split; [exact Hag2|]. split; [cbn [length]; congruence|]. split; [cbn [length]; congruence|].
    assert (Hstep : same_outcome m b r /\
              exists d1 : N -> bytes, forall j, wire_w j w1 = wire_w j w ++ d1 j /\ wire_of j st1 = wire_of j st ++ d1 j).
    { destruct r as [k|k e| |k]; try contradiction.
      - destruct Hout as (Hb & A & B & C). split; [exact Hb|].
        exists (fun j => if N.eq_dec j k then encode_frames m else []). intros j.
        destruct (N.eq_dec j k) as [->|Hjk].
        + split; assumption.
        + rewrite !app_nil_r. apply C; exact Hjk.
      - destruct Hout as (Hb & C). split; [exact Hb|].
        exists (fun _ => []). intros j. rewrite !app_nil_r. apply C. }
    destruct Hstep as (Hso & d1 & Hd1).
    split.
    + intros i m' b' r' Hm' Hb' Hr'. destruct i as [|i].
      * cbn [nth_error] in Hm', Hb', Hr'. inversion Hm'; inversion Hb'; inversion Hr'; subst. exact Hso.
      * cbn [nth_error] in Hm', Hb', Hr'. eapply Hnth; eassumption.
    + exists (fun j => d1 j ++ d2 j). intros j.
      destruct (Hd2 j) as [E1 E2]. destruct (Hd1 j) as [F1 F2].
      rewrite E1, E2, F1, F2, !app_assoc. split; reflexivity.
Qed.

Print Assumptions rr_runs_refine_world.
