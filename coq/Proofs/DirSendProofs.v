(** Theorems about directed (ROUTER), lock-step round-robin (REQ) and broadcast (SUB) sending over scripted
    connections (Model/DirSend.v). *)
From Coq Require Import List NArith Lia Bool.
Import ListNotations.
From ZV Require Import Base.Bytes Base.Res Model.Codec Model.TrySend Model.RrSend Model.DirSend Proofs.TrySendProofs Proofs.RrSendProofs.
From ZV Require Model.World.
From ZV Require Proofs.CodecEnc.
Local Open Scope N_scope.

Arguments N.add : simpl never.
Arguments N.sub : simpl never.
Arguments N.eqb : simpl never.
Arguments N.ltb : simpl never.
Arguments N.leb : simpl never.
Arguments N.min : simpl never.
Arguments N.pow : simpl never.

(** * ROUTER: send to a named peer *)
Theorem send_to_touches_only : forall st k m r st', send_to st k m = (r, st') ->
  r_rr st' = r_rr st /\
  forall j, j <> k -> wire_of j st' = wire_of j st /\ pget j (r_peers st') = pget j (r_peers st).
Proof.
  intros st k m r st' H. unfold send_to in H.
  destruct (pget k (r_peers st)) as [p|] eqn:Ep.
  2:{ inversion H; subst. split; [reflexivity|]. intros; split; reflexivity. }
  destruct (sink_send (p_sink p) (encode_frames m)) as [e s] eqn:Es.
  destruct e; inversion H; subst; clear H; cbn [r_rr]; (split; [reflexivity|]); intros j Hj;
    unfold wire_of; cbn [r_peers r_gone pget p_id];
    try rewrite pget_pset_other by exact Hj;
    try (replace (k =? j) with false by (symmetry; apply N.eqb_neq; congruence);
         rewrite pget_pdel_other by exact Hj);
    split; reflexivity.
Qed.

Theorem send_to_unknown : forall st k m, pget k (r_peers st) = None -> send_to st k m = (RNoPeer, st).
Proof. intros st k m H. unfold send_to. rewrite H. reflexivity. Qed.

Theorem send_to_ok_whole : forall st k m k' st', send_to st k m = (ROk k', st') ->
  k' = k /\ exists p, pget k (r_peers st) = Some p /\
    (k_buf (p_sink p) = [] -> wire_of k st' = wire_of k st ++ encode_frames m).
Proof.
  intros st k m k' st' H. unfold send_to in H.
  destruct (pget k (r_peers st)) as [p|] eqn:Ep; [|discriminate].
  destruct (sink_send (p_sink p) (encode_frames m)) as [e s] eqn:Es.
  destruct e; inversion H; subst; clear H.
  split; [reflexivity|]. exists p. split; [reflexivity|]. intros Hb.
  apply sink_send_spec in Es. destruct Es as (H1 & _ & H3). specialize (H3 eq_refl).
  rewrite H3, Hb, app_nil_r in H1. cbn [app] in H1.
  unfold wire_of. cbn [r_peers r_gone]. rewrite (pget_pset_same _ _ _ _ Ep), Ep. cbn [p_sink]. exact H1.
Qed.

(** a failed write forgets the peer: the next message for it is refused and nothing is written *)
Theorem send_to_err_forgets : forall st k m k' e st', send_to st k m = (RErr k' e, st') ->
  NoDup (map p_id (r_peers st)) ->
  k' = k /\ pget k (r_peers st') = None /\ forall m2, send_to st' k m2 = (RNoPeer, st').
Proof.
  intros st k m k' e st' H Hd. unfold send_to in H.
  destruct (pget k (r_peers st)) as [p|] eqn:Ep; [|discriminate].
  destruct (sink_send (p_sink p) (encode_frames m)) as [e0 s] eqn:Es.
  assert (Hdel : pget k (pdel k (r_peers st)) = None) by (apply pget_pdel_same; exact Hd).
  destruct e0; inversion H; subst; clear H; cbn [r_peers]; (split; [reflexivity|]); (split; [exact Hdel|]);
    intros m2; unfold send_to; cbn [r_peers]; rewrite Hdel; reflexivity.
Qed.

(** * REQ *)
Definition pick_post (st : rstate) (enc : bytes) (r : q_res) (st' : rstate) : Prop :=
  exists pre post, r_rr st = pre ++ post /\ (forall j, In j pre -> pget j (r_peers st) = None) /\
  match r with
  | QNoPeer => post = [] /\ st' = {| r_peers := r_peers st; r_rr := []; r_gone := r_gone st |}
  | QSent k => exists rest p s, post = k :: rest /\ pget k (r_peers st) = Some p /\
       sink_send (p_sink p) enc = (FlOk, s) /\
       st' = {| r_peers := pset k s (r_peers st); r_rr := rest ++ [k]; r_gone := r_gone st |}
  | QStall k => exists rest p s, post = k :: rest /\ pget k (r_peers st) = Some p /\
       sink_send (p_sink p) enc = (FlStall, s) /\
       st' = {| r_peers := pset k s (r_peers st); r_rr := rest ++ [k]; r_gone := r_gone st |}
  | QErr k e => exists rest p s, post = k :: rest /\ pget k (r_peers st) = Some p /\
       sink_send (p_sink p) enc = (e, s) /\ e <> FlOk /\ e <> FlStall /\
       st' = {| r_peers := pdel k (r_peers st); r_rr := rest ++ [k];
                r_gone := {| p_id := k; p_sink := s |} :: r_gone st |}
  | QBusy => False
  end.

Lemma req_pick_post : forall fuel st enc r st', (length (r_rr st) < fuel)%nat ->
  req_pick fuel st enc = (r, st') -> pick_post st enc r st'.
Proof.
  induction fuel as [|f IH]; intros [peers rr gone] enc r st' Hf H; cbn [r_rr] in Hf; [lia|].
  cbn [req_pick r_rr r_peers r_gone] in H.
  destruct rr as [|k rest].
  - inversion H; subst. exists [], []. cbn [r_rr r_peers r_gone].
    split; [reflexivity|]. split; [intros j []|]. split; reflexivity.
  - destruct (pget k peers) as [p|] eqn:Ep.
    + destruct (sink_send (p_sink p) enc) as [e s] eqn:Es.
      exists [], (k :: rest). split; [reflexivity|]. split; [intros j []|].
      destruct e; inversion H; subst; exists rest, p, s; cbn [r_peers r_rr r_gone];
        (split; [reflexivity|]); (split; [exact Ep|]); (split; [exact Es|]);
        try reflexivity; (split; [discriminate|]); (split; [discriminate|]); reflexivity.
    + apply IH in H; [|cbn [r_rr length] in *; lia]. destruct H as (pre & post & H1 & H2 & H3).
      cbn [r_rr r_peers r_gone] in *. exists (k :: pre), post.
      split; [rewrite H1; reflexivity|]. split; [intros j [<-|Hj]; auto|]. exact H3.
Qed.

Lemma req_send_inv q m r q' : req_send q m = (r, q') ->
  (exists k, q_cur q = Some k /\ r = QBusy /\ q' = q) \/
  (q_cur q = None /\ exists st, pick_post (q_base q) (encode_frames (World.req_wrap m)) r st /\
     q' = {| q_base := st; q_cur := match r with QSent k => Some k | _ => None end |}).
Proof.
  unfold req_send. destruct (q_cur q) as [k|] eqn:Ec.
  - intros H; inversion H; subst. left. exists k. auto.
  - destruct (req_pick (S (length (r_rr (q_base q)))) (q_base q) (encode_frames (World.req_wrap m))) as [r0 st] eqn:Ep.
    intros H; inversion H; subst. right. split; [reflexivity|].
    exists st. split; [|reflexivity]. eapply req_pick_post; [|exact Ep]. lia.
Qed.

Theorem req_busy_refused : forall q m k, q_cur q = Some k -> req_send q m = (QBusy, q).
Proof. intros q m k H. unfold req_send. rewrite H. reflexivity. Qed.

Theorem req_sent_owes : forall q m k q', req_send q m = (QSent k, q') ->
  q_cur q = None /\ q_cur q' = Some k /\ pget k (r_peers (q_base q)) <> None /\
  (forall p, pget k (r_peers (q_base q)) = Some p -> k_buf (p_sink p) = [] ->
     wire_of k (q_base q') = wire_of k (q_base q) ++ encode_frames (World.req_wrap m)).
Proof.
  intros q m k q' H. apply req_send_inv in H. destruct H as [(j & _ & E & _)|(Hc & st & Hpp & ->)]; [discriminate|].
  destruct Hpp as (pre & post & Hrr & Hpre & rest & p & s & -> & Hp & Hs & ->).
  cbn [q_cur q_base]. split; [exact Hc|]. split; [reflexivity|]. split; [congruence|].
  intros p0 Hp0 Hb. rewrite Hp in Hp0. inversion Hp0; subst p0.
  apply sink_send_spec in Hs. destruct Hs as (H1 & _ & H3). specialize (H3 eq_refl).
  rewrite H3, Hb, app_nil_r in H1. cbn [app] in H1.
  unfold wire_of. cbn [r_peers r_gone]. rewrite (pget_pset_same _ _ _ _ Hp), Hp. cbn [p_sink]. exact H1.
Qed.

Theorem req_not_sent_owes_nothing : forall q m r q', req_send q m = (r, q') ->
  (forall k, r <> QSent k) -> r <> QBusy -> q_cur q' = None.
Proof.
  intros q m r q' H Hs Hb. apply req_send_inv in H.
  destruct H as [(j & _ & E & _)|(Hc & st & Hpp & ->)]; [congruence|].
  cbn [q_cur]. destruct r; try reflexivity. exfalso. eapply Hs. reflexivity.
Qed.

Theorem req_err_forgets : forall q m k e q', req_send q m = (QErr k e, q') ->
  NoDup (map p_id (r_peers (q_base q))) ->
  pget k (r_peers (q_base q')) = None /\ q_cur q' = None.
Proof.
  intros q m k e q' H Hd. apply req_send_inv in H.
  destruct H as [(j & _ & E & _)|(Hc & st & Hpp & ->)]; [discriminate|].
  destruct Hpp as (pre & post & Hrr & Hpre & rest & p & s & -> & Hp & Hs & _ & _ & ->).
  cbn [q_cur q_base r_peers]. split; [apply pget_pdel_same; exact Hd|reflexivity].
Qed.

Definition q_targets (k : N) (r : q_res) : bool :=
  match r with QSent j | QErr j _ | QStall j => j =? k | _ => false end.

Theorem req_touches_one : forall q m r q', req_send q m = (r, q') -> forall j, q_targets j r = false ->
  wire_of j (q_base q') = wire_of j (q_base q) /\ pget j (r_peers (q_base q')) = pget j (r_peers (q_base q)).
Proof.
  intros q m r q' H j Hj. apply req_send_inv in H.
  destruct H as [(i & _ & E & ->)|(Hc & st & Hpp & ->)]; [split; reflexivity|].
  cbn [q_base]. destruct Hpp as (pre & post & Hrr & Hpre & H).
  destruct r as [k|k e| |k|]; cbn [q_targets] in Hj.
  - destruct H as (rest & p & s & -> & Hp & Hs & ->). apply N.eqb_neq in Hj.
    unfold wire_of. cbn [r_peers r_gone]. rewrite pget_pset_other by congruence. split; reflexivity.
  - destruct H as (rest & p & s & -> & Hp & Hs & _ & _ & ->).
    unfold wire_of. cbn [r_peers r_gone pget p_id]. rewrite Hj. apply N.eqb_neq in Hj.
    rewrite pget_pdel_other by congruence. split; reflexivity.
  - destruct H as (-> & ->). unfold wire_of. cbn [r_peers r_gone]. split; reflexivity.
  - destruct H as (rest & p & s & -> & Hp & Hs & ->). apply N.eqb_neq in Hj.
    unfold wire_of. cbn [r_peers r_gone]. rewrite pget_pset_other by congruence. split; reflexivity.
  - destruct H.
Qed.

(** lock-step rotation: request, reply, request, ... over servers that accept every write visits them in queue order *)
Fixpoint req_cycles (q : qstate) (ms : list World.msg) : list q_res * qstate :=
  match ms with
  | [] => ([], q)
  | m :: t => let '(r, q1) := req_send q m in let '(rs, q2) := req_cycles (req_settled q1) t in (r :: rs, q2)
  end.

Lemma req_rotation_step q m k rest : q_cur q = None -> all_accepting (q_base q) -> r_rr (q_base q) = k :: rest ->
  pget k (r_peers (q_base q)) <> None -> lenN (encode_frames (World.req_wrap m)) < 2 ^ 63 ->
  exists st', req_send q m = (QSent k, {| q_base := st'; q_cur := Some k |}) /\ r_rr st' = rest ++ [k] /\
    all_accepting st' /\ map p_id (r_peers st') = map p_id (r_peers (q_base q)).
Proof.
  destruct q as [[peers rr gone] cur]. cbn [q_cur q_base r_rr r_peers]. intros Hc Ha Hrr Hk Hl. subst rr cur.
  destruct (pget k peers) as [p|] eqn:Ep; [clear Hk|congruence].
  destruct (Ha p (pget_In _ _ _ Ep)) as [Ht Hb].
  destruct (sink_send_accepting _ _ Ht Hb Hl) as (s' & Hs & Hb' & Ht' & _).
  unfold req_send. cbn [q_cur q_base r_rr length req_pick r_peers r_gone]. rewrite Ep, Hs.
  eexists. split; [reflexivity|]. cbn [r_rr r_peers]. split; [reflexivity|]. split.
  - intros x Hx. apply In_pset in Hx as [->|Hx]; [cbn [p_sink]; auto|apply Ha; exact Hx].
  - apply ids_pset.
Qed.

Lemma req_round_gen : forall ms q a b, q_cur q = None -> all_accepting (q_base q) -> r_rr (q_base q) = a ++ b ->
  (forall k, In k (r_rr (q_base q)) -> pget k (r_peers (q_base q)) <> None) ->
  length ms = length a -> Forall (fun m => lenN (encode_frames (World.req_wrap m)) < 2 ^ 63) ms ->
  fst (req_cycles q ms) = map QSent a /\ r_rr (q_base (snd (req_cycles q ms))) = b ++ a.
Proof.
  induction ms as [|m ms IH]; intros q a b Hc Ha Hrr Hlive Hlen Hsm.
  - destruct a; [|discriminate]. cbn [map req_cycles fst snd]. rewrite app_nil_r. auto.
  - destruct a as [|k a]; [discriminate|]. cbn [app] in Hrr. inversion Hsm as [|? ? Hm Hms]; subst.
    destruct (req_rotation_step q m k (a ++ b) Hc Ha Hrr) as (st1 & Hs & Hrr1 & Ha1 & Hids);
      [apply Hlive; rewrite Hrr; left; reflexivity|exact Hm|].
    rewrite <- app_assoc in Hrr1.
    destruct (IH {| q_base := st1; q_cur := None |} a (b ++ [k]) eq_refl Ha1 Hrr1) as [IH1 IH2].
    + cbn [q_base]. intros j Hj Hn. apply pget_none_iff in Hn. unfold ids in Hn. rewrite Hids in Hn.
      apply (Hlive j); [|apply pget_none_iff; exact Hn].
      rewrite Hrr. rewrite Hrr1 in Hj. rewrite !in_app_iff in Hj. cbn [In] in *. rewrite in_app_iff. tauto.
    + cbn [length] in Hlen. congruence.
    + exact Hms.
    + cbn [map req_cycles]. rewrite Hs. unfold req_settled. cbn [q_base].
      destruct (req_cycles {| q_base := st1; q_cur := None |} ms) as [rs q2].
      cbn [fst snd app] in *. rewrite IH1, IH2, <- app_assoc. split; reflexivity.
Qed.

Theorem req_full_round : forall ms q, q_cur q = None -> all_accepting (q_base q) -> NoDup (r_rr (q_base q)) ->
  (forall k, In k (r_rr (q_base q)) -> pget k (r_peers (q_base q)) <> None) ->
  length ms = length (r_rr (q_base q)) ->
  Forall (fun m => lenN (encode_frames (World.req_wrap m)) < 2 ^ 63) ms ->
  fst (req_cycles q ms) = map QSent (r_rr (q_base q)) /\
  r_rr (q_base (snd (req_cycles q ms))) = r_rr (q_base q).
Proof.
  intros ms q Hc Ha _ Hlive Hlen Hsm.
  destruct (req_round_gen ms q (r_rr (q_base q)) [] Hc Ha (eq_sym (app_nil_r _)) Hlive Hlen Hsm) as [H1 H2].
  split; [exact H1|exact H2].
Qed.

(** * SUB *)
Theorem bcast_ids : forall ps enc rs ps', bcast ps enc = (rs, ps') -> map p_id ps' = map p_id ps.
Proof.
  induction ps as [|p t IH]; intros enc rs ps' H; cbn [bcast] in H.
  - inversion H; reflexivity.
  - destruct (sink_send (p_sink p) enc) as [r s]. destruct (bcast t enc) as [rs0 t'] eqn:Eb.
    specialize (IH _ _ _ Eb).
    destruct r; inversion H; subst; cbn [map p_id]; try rewrite IH; reflexivity.
Qed.

(** when no connection stalls, every peer of the table is sent the message exactly once, each according to its own
    connection alone: a failure on one connection does not keep the others from being updated *)
Theorem bcast_no_stall : forall ps enc, (forall p, In p ps -> fst (sink_send (p_sink p) enc) <> FlStall) ->
  bcast ps enc =
  (map (fun p => (p_id p, fst (sink_send (p_sink p) enc))) ps,
   map (fun p => {| p_id := p_id p; p_sink := snd (sink_send (p_sink p) enc) |}) ps).
Proof.
  induction ps as [|p t IH]; intros enc Hn; [reflexivity|].
  cbn [bcast map]. rewrite IH by (intros x Hx; apply Hn; right; exact Hx).
  specialize (Hn p (or_introl eq_refl)).
  destruct (sink_send (p_sink p) enc) as [r s]. cbn [fst snd] in *.
  destruct r; try reflexivity. exfalso. apply Hn. reflexivity.
Qed.

Theorem sub_repeat_silent : forall st t, has t (s_subs st) = true -> sstep st (SSub t) = (Some BOk, st).
Proof. intros st t H. cbn [sstep]. rewrite H. reflexivity. Qed.

Theorem unsub_unknown_silent : forall st t, has t (s_subs st) = false -> sstep st (SUnsub t) = (Some BOk, st).
Proof. intros st t H. cbn [sstep]. rewrite H. reflexivity. Qed.

Definition swire (k : N) (st : sstate) : bytes :=
  match pget k (s_peers st) with Some p => k_written (p_sink p) | None => [] end.

Definition concerns_peer (k : N) (o : sop) : bool :=
  match o with SAttach j | SMode j _ | SPlan j _ => j =? k | _ => false end.

Lemma first_bad_no_stall rs : match first_bad rs with BStall _ => False | _ => True end ->
  forall x, In x rs -> snd x <> FlStall.
Proof.
  induction rs as [|[j e] t IH]; [intros _ x []|].
  intros H x [<-|Hx].
  - cbn [snd]. intros ->. cbn [first_bad] in H. exact H.
  - apply IH; [|exact Hx].
    destruct e; cbn [first_bad] in H; [exact H| | |destruct H];
      (destruct (first_bad t); [exact I|exact I|exact H]).
Qed.

Lemma bcast_pget : forall ps enc rs ps' k p, bcast ps enc = (rs, ps') ->
  (forall x, In x rs -> snd x <> FlStall) -> pget k ps = Some p ->
  pget k ps' = Some {| p_id := k; p_sink := snd (sink_send (p_sink p) enc) |}.
Proof.
  induction ps as [|a t IH]; intros enc rs ps' k p H Hn Hk; [discriminate|].
  cbn [bcast] in H. destruct (sink_send (p_sink a) enc) as [r s] eqn:Es.
  destruct (bcast t enc) as [rs0 t'] eqn:Eb.
  assert (Hr : r <> FlStall).
  { intros ->. inversion H; subst. apply (Hn (p_id a, FlStall)); [left; reflexivity|reflexivity]. }
  assert (E : rs = (p_id a, r) :: rs0 /\ ps' = {| p_id := p_id a; p_sink := s |} :: t').
  { destruct r; inversion H; subst; try (split; reflexivity). congruence. }
  destruct E as [-> ->].
  cbn [pget p_id] in Hk |- *. destruct (p_id a =? k) eqn:E.
  - inversion Hk; subst p. rewrite Es. cbn [snd]. apply N.eqb_eq in E. rewrite E. reflexivity.
  - eapply IH; [exact Eb| |exact Hk]. intros x Hx. apply Hn. right. exact Hx.
Qed.

Lemma sub_enc_len op t : lenN t < 2 ^ 62 -> lenN (encode_frames (sub_msg op t)) < 2 ^ 63.
Proof.
  intros H. unfold sub_msg, lenN in *. rewrite CodecEnc.encode_length. cbn [CodecEnc.wire_len length].
  change (2 ^ 63) with (2 * 2 ^ 62).
  destruct (lenN (op :: t) <=? 255); lia.
Qed.

Lemma bcast_healthy ps op t rs ps' k p :
  bcast ps (encode_frames (sub_msg op t)) = (rs, ps') ->
  pget k ps = Some p -> k_tr (p_sink p) = accepting_tr -> k_buf (p_sink p) = [] ->
  match first_bad rs with BStall _ => False | _ => True end -> lenN t < 2 ^ 62 ->
  exists p1, pget k ps' = Some p1 /\ k_tr (p_sink p1) = accepting_tr /\ k_buf (p_sink p1) = [] /\
    k_written (p_sink p1) = k_written (p_sink p) ++ encode_frames (sub_msg op t).
Proof.
  intros Eb Hp Ht Hb Hns Hl.
  destruct (sink_send_accepting _ _ Ht Hb (sub_enc_len op t Hl)) as (s' & Hs & Hb' & Ht' & Hw).
  pose proof (bcast_pget _ _ _ _ _ _ Eb (first_bad_no_stall _ Hns) Hp) as H. rewrite Hs in H. cbn [snd] in H.
  eexists. split; [exact H|]. cbn [p_sink]. auto.
Qed.

Lemma pget_retr_other k j f l : j <> k -> pget k (retr j f l) = pget k l.
Proof. intros Hn. unfold retr. destruct (pget j l); [apply pget_pset_other; congruence|reflexivity]. Qed.

Lemma sstep_healthy st o ops r st1 k p :
  sstep st o = (r, st1) -> pget k (s_peers st) = Some p -> k_tr (p_sink p) = accepting_tr -> k_buf (p_sink p) = [] ->
  concerns_peer k o = false ->
  (forall x, r = Some x -> match x with BStall _ => False | _ => True end) ->
  (forall t, o = SSub t \/ o = SUnsub t -> lenN t < 2 ^ 62) ->
  exists p1 ms, pget k (s_peers st1) = Some p1 /\ k_tr (p_sink p1) = accepting_tr /\ k_buf (p_sink p1) = [] /\
    k_written (p_sink p1) = k_written (p_sink p) ++ concat (map encode_frames ms) /\
    updates (s_subs st) (o :: ops) = ms ++ updates (s_subs st1) ops.
Proof.
  intros Est Hp Ht Hb Hc Hns Hlen. destruct st as [peers subs]. cbn [s_peers s_subs] in *.
  destruct o as [j|j a|j l|t|t]; cbn [sstep s_peers s_subs] in Est; cbn [concerns_peer] in Hc.
  - inversion Est; subst r st1; clear Est. exists p, []. cbn [s_peers s_subs updates map concat app].
    rewrite pget_app, Hp, app_nil_r. repeat split; assumption.
  - inversion Est; subst r st1; clear Est. exists p, []. cbn [s_peers s_subs updates map concat app].
    apply N.eqb_neq in Hc. rewrite pget_retr_other by exact Hc. rewrite app_nil_r. repeat split; assumption.
  - inversion Est; subst r st1; clear Est. exists p, []. cbn [s_peers s_subs updates map concat app].
    apply N.eqb_neq in Hc. rewrite pget_retr_other by exact Hc. rewrite app_nil_r. repeat split; assumption.
  - destruct (has t subs) eqn:Eh.
    + inversion Est; subst r st1; clear Est. exists p, []. cbn [s_peers s_subs updates map concat app].
      rewrite Eh, app_nil_r. repeat split; assumption.
    + destruct (bcast peers (encode_frames (sub_msg Gen.sub_op_sub t))) as [rs ps] eqn:Eb.
      inversion Est; subst r st1; clear Est.
      destruct (bcast_healthy _ _ _ _ _ _ _ Eb Hp Ht Hb (Hns _ eq_refl) (Hlen t (or_introl eq_refl)))
        as (p1 & A & B & C & D).
      exists p1, [sub_msg Gen.sub_op_sub t]. cbn [s_peers s_subs updates map concat app].
      rewrite Eh, app_nil_r. repeat split; assumption.
  - destruct (has t subs) eqn:Eh; cbn [negb] in Est.
    + destruct (bcast peers (encode_frames (sub_msg Gen.sub_op_unsub t))) as [rs ps] eqn:Eb.
      inversion Est; subst r st1; clear Est.
      destruct (bcast_healthy _ _ _ _ _ _ _ Eb Hp Ht Hb (Hns _ eq_refl) (Hlen t (or_intror eq_refl)))
        as (p1 & A & B & C & D).
      exists p1, [sub_msg Gen.sub_op_unsub t]. cbn [s_peers s_subs updates map concat app].
      rewrite Eh, app_nil_r. cbn [negb]. repeat split; assumption.
    + inversion Est; subst r st1; clear Est. exists p, []. cbn [s_peers s_subs updates map concat app].
      rewrite Eh, app_nil_r. cbn [negb]. repeat split; assumption.
Qed.

(** a peer whose connection accepts every write has been told exactly the updates the socket's set went through, in
    order, whatever the connections of the other peers do (short of keeping the call from ever returning) *)
Theorem sub_healthy_told_all : forall ops st rs st' k p,
  srun st ops = (rs, st') ->
  pget k (s_peers st) = Some p -> k_tr (p_sink p) = accepting_tr -> k_buf (p_sink p) = [] ->
  (forall o, In o ops -> concerns_peer k o = false) ->
  (forall r, In r rs -> match r with BStall _ => False | _ => True end) ->
  (forall t : bytes, In (SSub t) ops \/ In (SUnsub t) ops -> lenN t < 2 ^ 62) ->
  swire k st' = swire k st ++ concat (map encode_frames (updates (s_subs st) ops)).
Proof.
  induction ops as [|o ops IH]; intros st rs st' k p Hrun Hp Ht Hb Hc Hns Hlen.
  - cbn [srun] in Hrun. inversion Hrun; subst. cbn [updates map concat]. rewrite app_nil_r. reflexivity.
  - cbn [srun] in Hrun. destruct (sstep st o) as [r st1] eqn:Est. destruct (srun st1 ops) as [rs1 st2] eqn:Erun.
    inversion Hrun; subst rs st2; clear Hrun.
    destruct (sstep_healthy st o ops r st1 k p Est Hp Ht Hb) as (p1 & ms & Hp1 & Ht1 & Hb1 & Hw1 & Hu).
    + apply Hc. left. reflexivity.
    + intros x ->. apply Hns. apply in_app_iff. left. left. reflexivity.
    + intros t [->| ->]; apply Hlen; [left|right]; left; reflexivity.
    + rewrite (IH st1 rs1 st' k p1 Erun Hp1 Ht1 Hb1).
      * rewrite Hu, map_app, concat_app, app_assoc. f_equal. unfold swire. rewrite Hp1, Hp. exact Hw1.
      * intros o' Ho'. apply Hc. right. exact Ho'.
      * intros r0 Hr0. apply Hns. apply in_app_iff. right. exact Hr0.
      * intros t [H|H]; apply Hlen; [left|right]; right; exact H.
Qed.

(** a peer that joins is told the whole current set before it is registered *)
Theorem sub_joiner_gets_set : forall st k,
  pget k (s_peers st) = None ->
  let st' := snd (sstep st (SAttach k)) in
  swire k st' = concat (map (fun t => encode_frames (sub_msg Gen.sub_op_sub t)) (s_subs st)) /\ s_subs st' = s_subs st.
Proof.
  intros st k H. cbv zeta. cbn [sstep snd s_subs]. split; [|reflexivity].
  unfold swire. cbn [s_peers]. rewrite pget_app, H. cbn [pget p_id]. rewrite N.eqb_refl.
  cbn [p_sink k_written]. reflexivity.
Qed.

Example dir_example :
  let st0 := {| s_peers := []; s_subs := [] |} in
  let ops := [SAttach 1; SAttach 2; SAttach 3; SPlan 2 [WErr 1]; SSub [65]; SSub [65]; SUnsub [66]; SSub [67]; SUnsub [65]] in
  let '(rs, st) := srun st0 ops in
  rs = [BFirstErr 2 (FlErr 1); BOk; BOk; BOk; BOk] /\
  swire 1 st = [0; 2; 1; 65; 0; 2; 1; 67; 0; 2; 0; 65] /\ swire 3 st = swire 1 st /\
  swire 2 st = swire 1 st.   (* the update whose write failed stayed in the buffer and went out with the next one *)
Proof. vm_compute. repeat split; reflexivity. Qed.

Print Assumptions send_to_touches_only.
Print Assumptions send_to_unknown.
Print Assumptions send_to_ok_whole.
Print Assumptions send_to_err_forgets.
Print Assumptions req_busy_refused.
Print Assumptions req_sent_owes.
Print Assumptions req_not_sent_owes_nothing.
Print Assumptions req_err_forgets.
Print Assumptions req_touches_one.
Print Assumptions req_full_round.
Print Assumptions bcast_ids.
Print Assumptions bcast_no_stall.
Print Assumptions sub_repeat_silent.
Print Assumptions unsub_unknown_silent.
Print Assumptions sub_healthy_told_all.
Print Assumptions sub_joiner_gets_set.
Print Assumptions dir_example.
