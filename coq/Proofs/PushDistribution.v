(** C10 in closed form: a PUSH or DEALER socket with n connected peers writes the i-th message (counting from 0)
    whole to peer number (i mod n) in joining order - every message to exactly one peer, in strict rotation. *)
From Coq Require Import List Arith NArith Lia Bool.
From ZV Require Import Base.Bytes Base.Res Model.Codec Model.World Proofs.SocketProofs.
Import ListNotations.
Open Scope N_scope.

(** the messages at positions i, i+n, i+2n, ... *)
Definition share (i n : nat) (ms : list msg) : list msg :=
  map snd (filter (fun jm => Nat.eqb (Nat.modulo (fst jm) n) i) (combine (seq 0 (length ms)) ms)).


(* ---------------------------------------------------------------------- *)
(** * Lemmas *)
(* ---------------------------------------------------------------------- *)
From ZV Require Import Proofs.BytesProofs.

(** ** lists *)
Lemma pd_combine_snoc {A B} : forall (l1 : list A) (l2 : list B) x y, length l1 = length l2 ->
  combine (l1 ++ [x]) (l2 ++ [y]) = combine l1 l2 ++ [(x, y)].
Proof.
  induction l1 as [|a l1 IH]; intros l2 x y Hlen; destruct l2 as [|b l2]; cbn [length] in Hlen; try discriminate.
  - reflexivity.
  - cbn [app combine]. rewrite IH by (injection Hlen as Hlen; exact Hlen). reflexivity.
Qed.

(** ** [share] *)
Lemma share_nil i n : share i n [] = [].
Proof. reflexivity. Qed.

Lemma share_snoc i n l m :
  share i n (l ++ [m]) = if Nat.eqb (Nat.modulo (length l) n) i then share i n l ++ [m] else share i n l.
Proof.
  unfold share. rewrite app_length. cbn [length]. rewrite seq_app. cbn [seq Nat.add].
  rewrite pd_combine_snoc by (rewrite seq_length; reflexivity).
  rewrite filter_app, map_app. cbn [filter fst].
  destruct (Nat.eqb (Nat.modulo (length l) n) i); cbn [map snd]; [reflexivity|apply app_nil_r].
Qed.

(** ** rotation of the round-robin queue *)
Lemma pd_rot_step {A} (cs : list A) r : (r < length cs)%nat ->
  exists k rest, skipn r cs ++ firstn r cs = k :: rest /\ nth_error cs r = Some k /\
    rest ++ [k] = skipn (Nat.modulo (S r) (length cs)) cs ++ firstn (Nat.modulo (S r) (length cs)) cs.
Proof.
  intros Hr.
  pose proof (firstn_skipn r cs) as Hsplit.
  assert (length (firstn r cs) = r) as Hla by (rewrite firstn_length; lia).
  remember (firstn r cs) as a eqn:Ea.
  destruct (skipn r cs) as [|k b] eqn:Eb.
  { exfalso. rewrite app_nil_r in Hsplit. rewrite <- Hsplit in Hr. lia. }
  exists k, (b ++ a). split; [reflexivity|]. split.
  { rewrite <- Hsplit. rewrite nth_error_app2 by lia. rewrite Hla, Nat.sub_diag. reflexivity. }
  assert (length cs = (r + S (length b))%nat) as Hlen
    by (rewrite <- Hsplit, app_length; cbn [length]; lia).
  destruct b as [|k2 b].
  - cbn [length] in Hlen. assert (S r = length cs) as -> by lia. rewrite Nat.mod_same by lia.
    cbn [skipn firstn app]. rewrite app_nil_r. exact Hsplit.
  - cbn [length] in Hlen. rewrite Nat.mod_small by lia.
    assert (cs = (a ++ [k]) ++ k2 :: b) as Hcs by (rewrite <- app_assoc; symmetry; exact Hsplit).
    rewrite Hcs at 1 2.
    rewrite skipn_app_exact by (rewrite app_length; cbn [length]; lia).
    rewrite firstn_app_exact by (rewrite app_length; cbn [length]; lia).
    rewrite <- !app_assoc. reflexivity.
Qed.

(** ** peers table *)
Lemma pd_memN_delN_snoc k c l : memN k l = true -> memN k (delN c l ++ [c]) = true.
Proof.
  intros Hk. destruct (N.eqb_spec k c) as [->|Hkc]; [apply memN_snoc|].
  unfold memN. rewrite existsb_app. apply orb_true_iff. left.
  unfold memN in Hk. unfold delN. induction l as [|x l IH]; [discriminate|].
  cbn [existsb] in Hk. cbn [filter].
  destruct (N.eqb_spec k x) as [->|Hkx].
  - destruct (N.eqb_spec x c) as [E|E]; [contradiction|]. cbn [negb existsb]. rewrite N.eqb_refl. reflexivity.
  - cbn [orb] in Hk. destruct (negb (x =? c)); [cbn [existsb]; rewrite (IH Hk); apply orb_true_r|exact (IH Hk)].
Qed.

(** ** registration *)
Lemma pd_attach_spec t w c : t = PUSH \/ t = DEALER -> w_type w = t ->
  w_type (do_attach w c None) = t /\
  w_rr (do_attach w c None) = w_rr w ++ [c] /\
  w_peers (do_attach w c None) = delN c (w_peers w) ++ [c] /\
  (exists cn, get_conn c (w_conns (do_attach w c None)) = Some cn /\ c_wire cn = []) /\
  (forall j, j <> c -> get_conn j (w_conns (do_attach w c None)) = get_conn j (w_conns w)).
Proof.
  intros Ht T. unfold do_attach. rewrite T. destruct Ht as [-> | ->]; cbv zeta.
  - unfold drop_halves. cbn [w_conns with_rr with_peers with_conns set_w].
    rewrite get_conn_put_same_id by reflexivity.
    cbn [upd_conn w_type w_rr w_peers w_conns with_rr with_peers with_conns set_w].
    split; [exact T|]. split; [reflexivity|]. split; [reflexivity|]. split.
    + eexists. split; [apply get_conn_put_same_id; reflexivity|reflexivity].
    + intros j Hj. rewrite !get_conn_put_other by (cbn [c_id c_with_halves new_conn]; congruence). reflexivity.
  - cbn [has_fq]. unfold fq_insert.
    cbn [w_type w_rr w_peers w_conns with_fq with_rr with_peers with_conns set_w].
    split; [exact T|]. split; [reflexivity|]. split; [reflexivity|]. split.
    + eexists. split; [apply get_conn_put_same_id; reflexivity|reflexivity].
    + intros j Hj. rewrite get_conn_put_other by (cbn [c_id new_conn]; congruence). reflexivity.
Qed.

(** state after the connections [pre] have joined and nothing has been sent *)
Definition pd_att (t : stype) (pre : list N) (w : world) : Prop :=
  w_type w = t /\ w_rr w = pre /\
  (forall k, In k pre -> memN k (w_peers w) = true) /\
  (forall k, In k pre -> exists cn, get_conn k (w_conns w) = Some cn /\ c_wire cn = []).

Lemma pd_att_world0 t : pd_att t [] (world0 t).
Proof. split; [reflexivity|]. split; [reflexivity|]. split; intros k []. Qed.

Lemma pd_att_step t pre w c : t = PUSH \/ t = DEALER -> pd_att t pre w -> pd_att t (pre ++ [c]) (do_attach w c None).
Proof.
  intros Ht (T & Hrr & Hp & Hc).
  destruct (pd_attach_spec t w c Ht T) as (T' & Hrr' & Hp' & Hc' & Ho').
  split; [exact T'|]. split; [rewrite Hrr', Hrr; reflexivity|]. split.
  - intros k Hk. rewrite Hp'. apply in_app_or in Hk. destruct Hk as [Hk|[<-|[]]].
    + apply pd_memN_delN_snoc. apply Hp. exact Hk.
    + apply memN_snoc.
  - intros k Hk. destruct (N.eq_dec k c) as [->|Hkc]; [exact Hc'|].
    rewrite Ho' by exact Hkc. apply Hc. apply in_app_or in Hk. destruct Hk as [Hk|[E|[]]]; [exact Hk|congruence].
Qed.

Lemma pd_run_attaches t ops : t = PUSH \/ t = DEALER -> forall l pre w, pd_att t pre w ->
  exists w', World.run w (map (fun c => OAttach c None) l ++ ops) = map (fun c => BAtt c None) l ++ World.run w' ops /\
             pd_att t (pre ++ l) w'.
Proof.
  intros Ht. induction l as [|c l IH]; intros pre w Hw.
  - exists w. rewrite app_nil_r. split; [reflexivity|exact Hw].
  - destruct (IH (pre ++ [c]) _ (pd_att_step t pre w c Ht Hw)) as (w' & R & Hw').
    exists w'. cbn [map app World.run World.step]. rewrite R. rewrite <- app_assoc in Hw'.
    split; [reflexivity|exact Hw'].
Qed.

(** ** the invariant of the sending phase: [done] = the messages sent so far *)
Definition pd_inv (t : stype) (cs : list N) (done : list msg) (w : world) : Prop :=
  w_type w = t /\
  w_rr w = skipn (Nat.modulo (length done) (length cs)) cs ++ firstn (Nat.modulo (length done) (length cs)) cs /\
  (forall k, In k cs -> memN k (w_peers w) = true) /\
  (forall i k, nth_error cs i = Some k ->
     exists cn, get_conn k (w_conns w) = Some cn /\
                c_wire cn = concat (map encode_frames (share i (length cs) done))).

Lemma pd_inv_start t cs w : cs <> [] -> pd_att t cs w -> pd_inv t cs [] w.
Proof.
  intros Hne (T & Hrr & Hp & Hc).
  assert (length cs <> 0%nat) as Hn by (destruct cs; [congruence|cbn [length]; lia]).
  split; [exact T|]. split; [|split; [exact Hp|]].
  - cbn [length]. rewrite Nat.mod_0_l by exact Hn. cbn [skipn firstn]. rewrite app_nil_r. exact Hrr.
  - intros i k Hi. destruct (Hc k (nth_error_In _ _ Hi)) as (cn & Hg & Hw).
    exists cn. split; [exact Hg|]. rewrite share_nil. exact Hw.
Qed.

Lemma pd_step_send_unfold t w m : t = PUSH \/ t = DEALER -> w_type w = t ->
  World.step w (OSend m) = let '(b, w') := send_rr (S (length (w_rr w))) w m in ([b], w').
Proof. intros Ht T. unfold World.step. rewrite T. destruct Ht as [-> | ->]; reflexivity. Qed.

Lemma pd_inv_send t cs done w m : t = PUSH \/ t = DEALER -> NoDup cs -> cs <> [] -> pd_inv t cs done w ->
  exists w', World.step w (OSend m) = ([BSendOk], w') /\ pd_inv t cs (done ++ [m]) w'.
Proof.
  intros Ht Hnd Hne (T & Hrr & Hp & Hc).
  assert (length cs <> 0%nat) as Hn by (destruct cs; [congruence|cbn [length]; lia]).
  set (n := length cs) in *. set (r := Nat.modulo (length done) n) in *.
  assert (r < n)%nat as Hr by (apply Nat.mod_upper_bound; exact Hn).
  destruct (pd_rot_step cs r Hr) as (k & rest & Hrot & Hk & Hrot').
  fold n in Hrot'. rewrite Hrot in Hrr.
  assert (w_type w <> REQ) as HnotREQ by (rewrite T; destruct Ht as [-> | ->]; discriminate).
  pose proof (Hp k (nth_error_In _ _ Hk)) as Hlive.
  rewrite (pd_step_send_unfold t w m Ht T).
  rewrite (send_rr_head_live (length (w_rr w)) w m k rest HnotREQ Hrr Hlive).
  set (w0 := with_rr (with_rr w rest) (rest ++ [k])).
  exists (write_msg w0 k m). split; [reflexivity|].
  destruct (write_msg_tables_unchanged w0 k m) as (Hp1 & Hr1 & _ & _ & Ht1 & _).
  change (w_peers w0) with (w_peers w) in Hp1.
  change (w_rr w0) with (rest ++ [k]) in Hr1.
  change (w_type w0) with (w_type w) in Ht1.
  assert (Nat.modulo (length (done ++ [m])) n = Nat.modulo (S r) n) as Hmod.
  { rewrite app_length. cbn [length]. unfold r.
    replace (S (Nat.modulo (length done) n)) with (Nat.modulo (length done) n + 1)%nat by lia.
    rewrite Nat.add_mod_idemp_l by exact Hn. reflexivity. }
  split; [rewrite Ht1; exact T|]. split; [|split].
  - fold n. rewrite Hmod, Hr1. exact Hrot'.
  - intros k' Hk'. rewrite Hp1. apply Hp. exact Hk'.
  - intros i k' Hi. fold n. rewrite share_snoc. fold r.
    destruct (Hc i k' Hi) as (cn & Hg & Hw). fold n in Hw.
    destruct (Nat.eqb_spec r i) as [E|E].
    + subst i. assert (k' = k) as -> by congruence.
      destruct (write_msg_appends w0 k m cn Hg (get_conn_id _ _ _ Hg)) as (cn' & Hg' & Hw' & _).
      exists cn'. split; [exact Hg'|]. rewrite Hw', Hw, map_app, concat_app.
      cbn [map concat]. rewrite app_nil_r. reflexivity.
    + assert (k' <> k) as Hkk.
      { intros ->. apply E. symmetry.
        apply (proj1 (NoDup_nth_error cs) Hnd i r); [apply nth_error_Some; congruence|congruence]. }
      exists cn. split; [|exact Hw].
      rewrite write_msg_others_unchanged by exact Hkk. exact Hg.
Qed.

Lemma pd_run_sends t cs ops : t = PUSH \/ t = DEALER -> NoDup cs -> cs <> [] ->
  forall rest done w, pd_inv t cs done w ->
  exists w', World.run w (map OSend rest ++ ops) = repeat BSendOk (length rest) ++ World.run w' ops /\
             pd_inv t cs (done ++ rest) w'.
Proof.
  intros Ht Hnd Hne. induction rest as [|m rest IH]; intros done w Hw.
  - exists w. rewrite app_nil_r. split; [reflexivity|exact Hw].
  - destruct (pd_inv_send t cs done w m Ht Hnd Hne Hw) as (w1 & S1 & Hw1).
    destruct (IH _ _ Hw1) as (w' & R & Hw').
    exists w'. cbn [map app World.run length repeat]. rewrite S1, R. rewrite <- app_assoc in Hw'.
    split; [reflexivity|exact Hw'].
Qed.

(** ** reading the wires *)
Lemma pd_run_wires : forall l off w (g : nat -> bytes), NoDup l ->
  (forall i k, nth_error l i = Some k -> exists cn, get_conn k (w_conns w) = Some cn /\ c_wire cn = g (off + i)%nat) ->
  World.run w (map OWire l) = map (fun ic => BWire (snd ic) (g (fst ic))) (combine (seq off (length l)) l).
Proof.
  induction l as [|k l IH]; intros off w g Hnd Hc; [reflexivity|].
  inversion Hnd as [|? ? Hnotin Hnd']; subst.
  destruct (Hc 0%nat k eq_refl) as (cn & Hg & Hw). rewrite Nat.add_0_r in Hw.
  cbn [map World.run World.step length seq combine fst snd]. rewrite Hg, Hw. cbn [app]. f_equal.
  apply IH; [exact Hnd'|].
  intros i k' Hi. destruct (Hc (S i) k' Hi) as (cn' & Hg' & Hw').
  exists cn'. split.
  - cbn [upd_conn w_conns with_conns set_w]. rewrite get_conn_put_other; [exact Hg'|].
    cbn [c_id c_with_wire]. rewrite (get_conn_id _ _ _ Hg). intros ->. apply Hnotin. exact (nth_error_In _ _ Hi).
  - rewrite Hw'. f_equal. lia.
Qed.

(** STATEMENT TO PROVE (do not change it) *)
Theorem push_distributes : forall t cs ms,
  t = PUSH \/ t = DEALER -> NoDup cs -> cs <> [] ->
  World.run (world0 t) (map (fun c => OAttach c None) cs ++ map OSend ms ++ map OWire cs) =
  map (fun c => BAtt c None) cs ++ repeat BSendOk (length ms) ++
  map (fun ic => BWire (snd ic) (concat (map encode_frames (share (fst ic) (length cs) ms)))) (combine (seq 0 (length cs)) cs).
Proof.
  intros t cs ms Ht Hnd Hne.
  destruct (pd_run_attaches t (map OSend ms ++ map OWire cs) Ht cs [] (world0 t) (pd_att_world0 t)) as (w1 & R1 & H1).
  rewrite R1. f_equal. cbn [app] in H1.
  destruct (pd_run_sends t cs (map OWire cs) Ht Hnd Hne ms [] w1 (pd_inv_start t cs w1 Hne H1)) as (w2 & R2 & H2).
  rewrite R2. f_equal. cbn [app] in H2.
  destruct H2 as (_ & _ & _ & Hc).
  apply (pd_run_wires cs 0%nat w2 (fun i => concat (map encode_frames (share i (length cs) ms))) Hnd).
  intros i k Hi. exact (Hc i k Hi).
Qed.

(** non-vacuity *)
Definition pd_ms : list msg := [[[1]];[[2];[]];[[3]];[[4]];[[5]];[[6]];[[7]]].
Example pd_sample :
  World.run (world0 DEALER) (map (fun c => OAttach c None) [5;2;9] ++ map OSend pd_ms ++ map OWire [5;2;9]) =
  [BAtt 5 None; BAtt 2 None; BAtt 9 None; BSendOk; BSendOk; BSendOk; BSendOk; BSendOk; BSendOk; BSendOk;
   BWire 5 [0; 1; 1; 0; 1; 4; 0; 1; 7]; BWire 2 [1; 1; 2; 0; 0; 0; 1; 5]; BWire 9 [0; 1; 3; 0; 1; 6]].
Proof. vm_compute. reflexivity. Qed.

Print Assumptions push_distributes.
