(** C09 + C05 at the API level of the socket model: a ROUTER with any number of connected peers, any
    interleaving of arrivals (any chunking), closes and recv calls - the messages recv returns labelled
    with connection k are exactly k's messages, in order, each once; nothing is lost. *)
From Coq Require Import List Arith NArith Lia Bool.
From ZV Require Import Base.Bytes Base.Res Model.Codec Model.World Proofs.Decoder
  Proofs.WorldStreamDefs Proofs.WorldStreamLemmas Proofs.WorldStream.
Import ListNotations.
Open Scope N_scope.

Definition traffic_op (o : op) : Prop := match o with OFeed _ _ | OEof _ | ORecv => True | _ => False end.

(** what the peers did, as fair-queue level events (recv calls do not matter for what a peer wrote) *)
Definition evs_of (ops : list op) : list wev :=
  flat_map (fun o => match o with OFeed k b => [WFeed k b] | OEof k => [WEof k] | _ => [] end) ops.

(** messages recv returned with the label of connection k (peers that announced no identity are labelled by connection) *)
Definition msgs_from (k : N) (obs : list obs) : list msg :=
  flat_map (fun b => match b with BRecv (Some k') m => if k' =? k then [m] else [] | _ => [] end) obs.

Definition messages_of (os : list out) : list msg :=
  flat_map (fun o => match o with OItem (IMessage m) => [m] | _ => [] end) os.

From ZV Require Import Proofs.RouterStreamLemmas.

(** * Auxiliary lemmas (the statements follow below, unchanged) *)
Lemma messages_of_app a b : messages_of (a ++ b) = messages_of a ++ messages_of b.
Proof. apply flat_map_app. Qed.

Lemma msgs_from_app k a b : msgs_from k (a ++ b) = msgs_from k a ++ msgs_from k b.
Proof. apply flat_map_app. Qed.

Lemma evs_of_app a b : evs_of (a ++ b) = evs_of a ++ evs_of b.
Proof. apply flat_map_app. Qed.

Lemma messages_quiet k : forall pre, Forall quiet pre -> messages_of (outs_of k pre) = [].
Proof.
  induction pre as [|r pre IH]; intros H; [reflexivity|].
  inversion H as [|? ? Hr Hp]; subst. specialize (IH Hp).
  destruct r as [[k' o]|]; cbn [outs_of]; [|exact IH].
  destruct (k' =? k); [|exact IH].
  change (messages_of (o :: outs_of k pre)) with (messages_of ([o] ++ outs_of k pre)).
  rewrite messages_of_app, IH, app_nil_r.
  destruct o as [[g|ps|m]| | |]; try reflexivity. cbn [quiet] in Hr. contradiction.
Qed.

Lemma messages_last k k' m :
  messages_of (outs_of k [Some (k', OItem (IMessage m))]) = msgs_from k [BRecv (Some k') m].
Proof. cbn [outs_of msgs_from flat_map]. destruct (k' =? k); reflexivity. Qed.

Lemma prefix_messages a b : is_prefix_of a b -> is_prefix_of (messages_of a) (messages_of b).
Proof. intros [rest ->]. exists (messages_of rest). apply messages_of_app. Qed.

(** the whole run, op by op: it is a fair-queue level run in which every recv is replaced by its inner
    [WNext] events; those do not change what the peers wrote, and the messages recv returned labelled k
    are the messages among the items handed out for k *)
Lemma run_sim cs : forall ops, Forall traffic_op ops ->
  exists es rs,
    wrun (attached ROUTER cs) es = (rs, wfinal (attached ROUTER cs) ops) /\
    (forall k, chunks_of k es = chunks_of k (evs_of ops)) /\
    (forall k, closed_of k es = closed_of k (evs_of ops)) /\
    (forall k, msgs_from k (World.run (attached ROUTER cs) ops) = messages_of (outs_of k rs)) /\
    (forall from m, In (BRecv from m) (World.run (attached ROUTER cs) ops) -> exists k, from = Some k /\ In k cs).
Proof.
  induction ops as [|o ops IH] using rev_ind; intros Hall.
  - exists [], []. cbn [wrun wfinal evs_of flat_map World.run].
    split; [reflexivity|]. split; [reflexivity|]. split; [reflexivity|]. split; [reflexivity|].
    intros from m [].
  - apply Forall_app in Hall as [Hall Ho]. apply Forall_inv in Ho.
    destruct (IH Hall) as (es & rs & HR & Hc & Hcl & Hm & Hl). clear IH.
    rewrite wfinal_app, run_app, evs_of_app.
    set (w := wfinal (attached ROUTER cs) ops) in *.
    destruct o as [c ann|c b|c| |m|c m|t|t| |c|c]; cbn [traffic_op] in Ho; try contradiction.
    + (* feed *)
      exists (es ++ [WFeed c b]), (rs ++ [None]).
      cbn [wfinal World.run World.step snd evs_of flat_map app]. rewrite !app_nil_r.
      split; [rewrite wrun_snoc, HR; reflexivity|].
      split; [intros k; rewrite !chunks_of_snoc, Hc, Hcl; reflexivity|].
      split; [intros k; rewrite !closed_of_snoc, Hcl; reflexivity|].
      split; [|exact Hl].
      intros k. rewrite outs_of_app. cbn [outs_of]. rewrite app_nil_r. apply Hm.
    + (* eof *)
      exists (es ++ [WEof c]), (rs ++ [None]).
      cbn [wfinal World.run World.step snd evs_of flat_map app]. rewrite !app_nil_r.
      split; [rewrite wrun_snoc, HR; reflexivity|].
      split; [intros k; rewrite !chunks_of_snoc, Hc, Hcl; reflexivity|].
      split; [intros k; rewrite !closed_of_snoc, Hcl; reflexivity|].
      split; [|exact Hl].
      intros k. rewrite outs_of_app. cbn [outs_of]. rewrite app_nil_r. apply Hm.
    + (* recv *)
      destruct (step_recv_sim cs es rs w HR) as (n & pre & lastr & b & w' & E1 & E2 & E3 & E4).
      exists ((es ++ repeat WNext n) ++ [WNext]), ((rs ++ pre) ++ [lastr]).
      cbn [wfinal World.run evs_of flat_map]. rewrite E1. cbn [snd app]. rewrite !app_nil_r.
      split; [exact E2|].
      split; [intros k; rewrite chunks_of_snoc; cbn [chunks_of];
              rewrite app_nil_r; destruct (nexts_irrelevant k n es) as [-> ->];
              rewrite <- Hc; destruct (closed_of k es); reflexivity|].
      split; [intros k; rewrite closed_of_snoc; cbn [closed_of]; rewrite orb_false_r;
              destruct (nexts_irrelevant k n es) as [_ ->]; apply Hcl|].
      split.
      * intros k. rewrite msgs_from_app, !outs_of_app, !messages_of_app, Hm, (messages_quiet k pre E3), app_nil_r.
        f_equal. destruct E4 as [[-> ->]|(k' & m & -> & -> & _)]; [reflexivity|].
        symmetry. apply messages_last.
      * intros from m Hin. apply in_app_or in Hin as [Hin|[Hin|[]]]; [exact (Hl from m Hin)|].
        destruct E4 as [[-> _]|(k' & m' & -> & _ & Hk')]; [discriminate|].
        injection Hin as <- _. exists k'. split; [reflexivity|exact Hk'].
Qed.

(** STATEMENTS TO PROVE (do not change them) *)

Theorem router_recv_in_order : forall cs ops k,
  NoDup cs -> In k cs -> Forall traffic_op ops ->
  is_prefix_of (msgs_from k (World.run (attached ROUTER cs) ops))
               (messages_of (expected (chunks_of k (evs_of ops)) (closed_of k (evs_of ops)))).
Proof.
  intros cs ops k Hnd Hk Hall.
  destruct (run_sim cs ops Hall) as (es & rs & HR & Hc & Hcl & Hm & _).
  rewrite Hm, <- Hc, <- Hcl.
  pose proof (world_stream_prefix ROUTER cs es k eq_refl Hnd Hk) as P.
  rewrite HR in P. cbn [fst] in P. apply prefix_messages. exact P.
Qed.

Theorem router_recv_complete : forall cs ops k,
  NoDup cs -> In k cs -> Forall traffic_op ops ->
  last (World.run (attached ROUTER cs) (ops ++ [ORecv])) BRecvPending = BRecvPending ->
  msgs_from k (World.run (attached ROUTER cs) (ops ++ [ORecv])) =
  messages_of (expected (chunks_of k (evs_of ops)) (closed_of k (evs_of ops))).
Proof.
  intros cs ops k Hnd Hk Hall Hlast.
  destruct (run_sim cs ops Hall) as (es & rs & HR & Hc & Hcl & Hm & _).
  destruct (step_recv_sim cs es rs _ HR) as (n & pre & lastr & b & w' & E1 & E2 & E3 & E4).
  rewrite run_app in Hlast |- *. cbn [World.run] in Hlast |- *. rewrite E1 in Hlast |- *. cbn [app] in Hlast |- *.
  rewrite last_last in Hlast. subst b.
  destruct E4 as [[_ ->]|(k' & m & E & _)]; [|discriminate].
  assert (last ((rs ++ pre) ++ [None]) None = None) as HL by apply last_last.
  pose proof (world_stream_complete ROUTER cs _ _ w' eq_refl Hnd E2 HL k Hk) as C.
  destruct (nexts_irrelevant k n es) as [Cc Ccl]. rewrite Cc, Ccl, Hc, Hcl in C.
  rewrite <- C, msgs_from_app, Hm, !outs_of_app, !messages_of_app, (messages_quiet k pre E3).
  cbn [outs_of msgs_from messages_of flat_map]. rewrite !app_nil_r. reflexivity.
Qed.

(** every message recv returns carries the label of an attached connection (nothing is invented, no other label) *)
Theorem router_recv_labels : forall cs ops from m,
  NoDup cs -> Forall traffic_op ops ->
  In (BRecv from m) (World.run (attached ROUTER cs) ops) -> exists k, from = Some k /\ In k cs.
Proof.
  intros cs ops from m _ Hall Hin.
  destruct (run_sim cs ops Hall) as (_ & _ & _ & _ & _ & _ & Hl).
  exact (Hl from m Hin).
Qed.

(** non-vacuity *)
Definition rs_m1 := encode_frames [[1;2;3];[4]].
Definition rs_m2 := encode_frames [[9]].
Definition rs_ops := [ORecv; OFeed 0 (firstn 3 rs_m1); ORecv; OFeed 1 rs_m2; OFeed 0 (skipn 3 rs_m1 ++ rs_m2); ORecv; ORecv; ORecv; ORecv; OFeed 1 [5]; OEof 1; ORecv; OEof 0].
Example rs_sample :
  msgs_from 0 (World.run (attached ROUTER [0;1]) (rs_ops ++ [ORecv])) = [[[1;2;3];[4]]; [[9]]] /\
  msgs_from 1 (World.run (attached ROUTER [0;1]) (rs_ops ++ [ORecv])) = [[[9]]] /\
  last (World.run (attached ROUTER [0;1]) (rs_ops ++ [ORecv])) BRecvPending = BRecvPending.
Proof. vm_compute. repeat split; reflexivity. Qed.

Print Assumptions router_recv_in_order.
Print Assumptions router_recv_complete.
Print Assumptions router_recv_labels.
