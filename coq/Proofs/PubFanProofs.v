(** Theorems about the PUB / XPUB fan-out under per-subscriber back-pressure (Model/PubFan.v). *)
From Coq Require Import List NArith Lia Bool.
Import ListNotations.
From ZV Require Import Base.Bytes Base.Res Model.Codec Model.TrySend Model.PubFan Proofs.TrySendProofs.
From ZV Require Model.World.
From ZV Require Proofs.PubSubProofs.
Local Open Scope N_scope.

(** order-preserving subsequence *)
Inductive subseq {A : Type} : list A -> list A -> Prop :=
| sub_nil : subseq [] []
| sub_skip x l1 l2 : subseq l1 l2 -> subseq l1 (x :: l2)
| sub_take x l1 l2 : subseq l1 l2 -> subseq (x :: l1) (x :: l2).

Definition published (ops : list fop) : list World.msg :=
  flat_map (fun o => match o with FPublish m => [m] | _ => [] end) ops.

(** an operation that subscriber k's own run can see *)
Definition concerns (k : N) (o : fop) : bool :=
  match o with
  | FAttach _ => false
  | FSub j _ | FMode j _ | FPlan j _ | FWire j => j =? k
  | FPublish _ => true
  end.

(** the messages the send loop offers to subscriber k: it was in the table and a subscription matched at that moment *)
Fixpoint offered (k : N) (u : subscriber) (ops : list fop) : list World.msg :=
  match ops with
  | [] => []
  | o :: rest =>
    (match o with
     | FPublish (first :: more) => if u_live u && World.matches (u_subs u) first then [first :: more] else []
     | _ => []
     end) ++ offered k (solo_step k u o) rest
  end.

Definition stream (u : subscriber) : bytes := k_written (u_sink u) ++ k_buf (u_sink u).

(* ---------------------------------------------------------------------- *)
(** * Auxiliary lemmas *)
(* ---------------------------------------------------------------------- *)
Lemma subseq_app_l {A} (p a l : list A) : subseq a l -> subseq a (p ++ l).
Proof. intros H. induction p as [|x p IH]; cbn [app]; [exact H|]. apply sub_skip. exact IH. Qed.

Lemma published_cons o rest :
  published (o :: rest) = (match o with FPublish m => [m] | _ => [] end) ++ published rest.
Proof. reflexivity. Qed.

Lemma id_offer u m : u_id (offer u m) = u_id u.
Proof.
  unfold offer. destruct m as [|first more]; [reflexivity|].
  destruct (u_live u && World.matches (u_subs u) first); [|reflexivity].
  destruct (try_send (u_sink u) (encode_frames (first :: more))) as [r s].
  destruct r as [| |e|]; try reflexivity. destruct (e =? broken_pipe); reflexivity.
Qed.

Lemma subs_offer u m : u_subs (offer u m) = u_subs u.
Proof.
  unfold offer. destruct m as [|first more]; [reflexivity|].
  destruct (u_live u && World.matches (u_subs u) first); [|reflexivity].
  destruct (try_send (u_sink u) (encode_frames (first :: more))) as [r s].
  destruct r as [| |e|]; try reflexivity. destruct (e =? broken_pipe); reflexivity.
Qed.

Lemma id_on_sub m u : u_id (on_sub m u) = u_id u.
Proof. unfold on_sub. destruct (u_live u); reflexivity. Qed.
Lemma id_set_mode a u : u_id (set_mode a u) = u_id u.
Proof. reflexivity. Qed.
Lemma id_add_plan l u : u_id (add_plan l u) = u_id u.
Proof. reflexivity. Qed.

Lemma get_id k us u : get k us = Some u -> u_id u = k.
Proof.
  induction us as [|x t IH]; cbn [get]; [discriminate|].
  destruct (N.eqb_spec (u_id x) k) as [E|E]; [intros H; injection H as <-; exact E|exact IH].
Qed.

Lemma get_upd_same k f us : (forall u, u_id (f u) = u_id u) ->
  get k (upd k f us) = option_map f (get k us).
Proof.
  intros Hf. induction us as [|x t IH]; [reflexivity|]. cbn [upd get].
  destruct (u_id x =? k) eqn:E; cbn [get option_map].
  - rewrite Hf, E. reflexivity.
  - rewrite E. exact IH.
Qed.

Lemma get_upd_other k j f us : (forall u, u_id (f u) = u_id u) -> j <> k ->
  get k (upd j f us) = get k us.
Proof.
  intros Hf Hjk. induction us as [|x t IH]; [reflexivity|]. cbn [upd get].
  destruct (N.eqb_spec (u_id x) j) as [E|E]; cbn [get].
  - rewrite Hf. destruct (N.eqb_spec (u_id x) k); [congruence|reflexivity].
  - destruct (u_id x =? k); [reflexivity|exact IH].
Qed.

Lemma get_publish k us m : get k (publish us m) = option_map (fun u => offer u m) (get k us).
Proof.
  unfold publish. induction us as [|x t IH]; [reflexivity|]. cbn [map get].
  rewrite id_offer. destruct (u_id x =? k); [reflexivity|exact IH].
Qed.

Lemma get_snoc_some k us x u : get k us = Some u -> get k (us ++ [x]) = Some u.
Proof.
  induction us as [|y t IH]; cbn [get app]; [discriminate|].
  destruct (u_id y =? k); [auto|exact IH].
Qed.

Lemma get_snoc_none k us x : get k us = None -> get k (us ++ [x]) = if u_id x =? k then Some x else None.
Proof.
  induction us as [|y t IH]; cbn [get app]; [reflexivity|].
  destruct (u_id y =? k); [discriminate|exact IH].
Qed.

Lemma fstep_get us o k u : get k us = Some u -> get k (snd (fstep us o)) = Some (solo_step k u o).
Proof.
  intros H. destruct o as [j|j m|j a|j l|m|j]; cbn [fstep snd solo_step].
  - destruct (get j us); [exact H|]. apply get_snoc_some. exact H.
  - destruct (N.eqb_spec j k) as [->|N].
    + rewrite get_upd_same by (apply id_on_sub). rewrite H. reflexivity.
    + rewrite get_upd_other by (auto using id_on_sub). exact H.
  - destruct (N.eqb_spec j k) as [->|N].
    + rewrite get_upd_same by (apply id_set_mode). rewrite H. reflexivity.
    + rewrite get_upd_other by (auto using id_set_mode). exact H.
  - destruct (N.eqb_spec j k) as [->|N].
    + rewrite get_upd_same by (apply id_add_plan). rewrite H. reflexivity.
    + rewrite get_upd_other by (auto using id_add_plan). exact H.
  - rewrite get_publish, H. reflexivity.
  - destruct (get j us) as [uj|] eqn:E; cbn [snd].
    + destruct (N.eqb_spec j k) as [->|N].
      * rewrite get_upd_same by (intros; reflexivity). rewrite H. reflexivity.
      * rewrite get_upd_other by (try (intros; reflexivity); exact N). exact H.
    + destruct (N.eqb_spec j k) as [->|N]; [congruence|exact H].
Qed.

Lemma snd_frun_cons us o rest : snd (frun us (o :: rest)) = snd (frun (snd (fstep us o)) rest).
Proof.
  cbn [frun]. destruct (fstep us o) as [b us1]. cbn [snd]. destruct (frun us1 rest). reflexivity.
Qed.

Lemma solo_cons k u o rest : solo k u (o :: rest) = solo k (solo_step k u o) rest.
Proof. reflexivity. Qed.

(** 1. Isolation: in the run of the whole table, subscriber k goes through exactly its solo run. *)
Theorem fan_isolation : forall ops us k u, get k us = Some u ->
  get k (snd (frun us ops)) = Some (solo k u ops).
Proof.
  induction ops as [|o rest IH]; intros us k u H; [exact H|].
  rewrite snd_frun_cons, solo_cons. apply IH. apply fstep_get. exact H.
Qed.

Theorem fan_isolation_fresh : forall ops us k, get k us = None ->
  get k (snd (frun us (FAttach k :: ops))) = Some (solo k (subscriber0 k) ops).
Proof.
  intros ops us k H. rewrite snd_frun_cons. apply fan_isolation.
  cbn [fstep snd]. rewrite H. rewrite get_snoc_none by exact H.
  cbn [subscriber0 u_id]. rewrite N.eqb_refl. reflexivity.
Qed.

(** 2. What a wire observation of k shows is determined by k's solo run. *)
Theorem fan_wire_is_solo : forall pre us k u, get k us = Some u ->
  fst (fstep (snd (frun us pre)) (FWire k)) =
  [skipn (u_seen (solo k u pre)) (k_written (u_sink (solo k u pre)))].
Proof.
  intros pre us k u H. cbn [fstep]. rewrite (fan_isolation pre us k u H). reflexivity.
Qed.

(** 3. Delivery to a subscriber is unaffected by the other subscribers: whatever other subscribers exist and
    whatever their connections do (stall, accept k bytes, break), k ends in the same state. *)
Lemma solo_step_unconcerned k u o : concerns k o = false -> solo_step k u o = u.
Proof.
  destruct o as [j|j m|j a|j l|m|j]; cbn [concerns solo_step]; intros H; try rewrite H; try reflexivity.
  discriminate.
Qed.

Theorem solo_ignores_others : forall ops k u, solo k u ops = solo k u (filter (concerns k) ops).
Proof.
  induction ops as [|o rest IH]; intros k u; [reflexivity|]. cbn [filter].
  destruct (concerns k o) eqn:E; rewrite !solo_cons.
  - apply IH.
  - rewrite solo_step_unconcerned by exact E. apply IH.
Qed.

Theorem fan_others_unaffected : forall ops1 ops2 us1 us2 k u,
  get k us1 = Some u -> get k us2 = Some u ->
  filter (concerns k) ops1 = filter (concerns k) ops2 ->
  get k (snd (frun us1 ops1)) = get k (snd (frun us2 ops2)).
Proof.
  intros ops1 ops2 us1 us2 k u H1 H2 E.
  rewrite (fan_isolation ops1 us1 k u H1), (fan_isolation ops2 us2 k u H2).
  rewrite (solo_ignores_others ops1), (solo_ignores_others ops2), E. reflexivity.
Qed.

(** 4. What reaches a subscriber (written, or still buffered for it) is the concatenation of whole encoded
    messages forming an order-preserving subsequence of the messages offered to it. *)
Lemma stream_on_sub m u : stream (on_sub m u) = stream u.
Proof. unfold on_sub. destruct (u_live u); reflexivity. Qed.

Lemma offer_stream u m :
  stream (offer u m) = stream u \/
  exists first more, m = first :: more /\ u_live u && World.matches (u_subs u) first = true /\
    stream (offer u m) = stream u ++ encode_frames m.
Proof.
  destruct m as [|first more]; [left; reflexivity|]. unfold offer.
  destruct (u_live u && World.matches (u_subs u) first) eqn:E; [|left; reflexivity].
  destruct (try_send (u_sink u) (encode_frames (first :: more))) as [r s] eqn:T.
  pose proof (try_send_stream _ _ _ _ T) as S.
  destruct r as [| |e|].
  - right. exists first, more. split; [reflexivity|]. split; [exact E|].
    unfold stream. cbn [u_with_sink u_sink]. exact S.
  - left. unfold stream. cbn [u_with_sink u_sink]. rewrite S, app_nil_r. reflexivity.
  - left. unfold stream. destruct (e =? broken_pipe); cbn [u_dead u_with_sink u_sink]; rewrite S, app_nil_r; reflexivity.
  - left. unfold stream. cbn [u_with_sink u_sink]. rewrite S, app_nil_r. reflexivity.
Qed.

Theorem fan_stream_subsequence : forall ops k u, exists acc,
  subseq acc (offered k u ops) /\
  stream (solo k u ops) = stream u ++ concat (map encode_frames acc).
Proof.
  induction ops as [|o rest IH]; intros k u.
  - exists []. split; [constructor|]. cbn [solo fold_left map concat]. rewrite app_nil_r. reflexivity.
  - rewrite solo_cons. cbn [offered].
    destruct (IH k (solo_step k u o)) as (acc & Hs & He).
    assert (Hkeep : stream (solo_step k u o) = stream u ->
      exists acc0, subseq acc0 ((match o with
         | FPublish (first :: more) => if u_live u && World.matches (u_subs u) first then [first :: more] else []
         | _ => [] end) ++ offered k (solo_step k u o) rest) /\
        stream (solo k (solo_step k u o) rest) = stream u ++ concat (map encode_frames acc0)).
    { intros E. exists acc. split; [apply subseq_app_l; exact Hs|]. rewrite He, E. reflexivity. }
    destruct o as [j|j m|j a|j l|m|j]; cbn [solo_step] in *.
    + apply Hkeep. reflexivity.
    + apply Hkeep. destruct (j =? k); [apply stream_on_sub|reflexivity].
    + apply Hkeep. destruct (j =? k); reflexivity.
    + apply Hkeep. destruct (j =? k); reflexivity.
    + destruct (offer_stream u m) as [E|(first & more & -> & Hc & E)]; [apply Hkeep; exact E|].
      rewrite Hc. cbn [app]. exists ((first :: more) :: acc). split; [apply sub_take; exact Hs|].
      rewrite He, E. cbn [map concat]. rewrite app_assoc. reflexivity.
    + apply Hkeep. destruct (j =? k); reflexivity.
Qed.

(** with an unchanging subscription list the offered messages are a subsequence of the matching published ones *)
Lemma subs_solo_step k u o : (forall m, o <> FSub k m) -> u_subs (solo_step k u o) = u_subs u.
Proof.
  intros H. destruct o as [j|j m|j a|j l|m|j]; cbn [solo_step]; try reflexivity.
  - destruct (N.eqb_spec j k) as [->|N]; [exfalso; exact (H m eq_refl)|reflexivity].
  - destruct (j =? k); reflexivity.
  - destruct (j =? k); reflexivity.
  - apply subs_offer.
  - destruct (j =? k); reflexivity.
Qed.

Theorem offered_sub_matching : forall ops k u, (forall m, ~ In (FSub k m) ops) ->
  subseq (offered k u ops) (matching (u_subs u) (published ops)).
Proof.
  induction ops as [|o rest IH]; intros k u H; [constructor|].
  assert (Hrest : forall m, ~ In (FSub k m) rest) by (intros m Hin; exact (H m (or_intror Hin))).
  assert (Ho : forall m, o <> FSub k m) by (intros m E; exact (H m (or_introl E))).
  pose proof (IH k (solo_step k u o) Hrest) as IH'. rewrite (subs_solo_step k u o Ho) in IH'.
  cbn [offered]. rewrite published_cons.
  destruct o as [j|j m|j a|j l|m|j]; cbn [app]; try exact IH'.
  destruct m as [|first more]; cbn [app matching filter]; [exact IH'|].
  destruct (World.matches (u_subs u) first); destruct (u_live u); cbn [andb app].
  - apply sub_take. exact IH'.
  - apply sub_skip. exact IH'.
  - exact IH'.
  - exact IH'.
Qed.

(** 5. Memory held for a subscriber stays below the high-water mark plus one message. *)
Lemma offer_bounded u m M : lenN (encode_frames m) <= M ->
  lenN (k_buf (u_sink u)) < Gen.hwm + M -> lenN (k_buf (u_sink (offer u m))) < Gen.hwm + M.
Proof.
  intros Hm Hb. unfold offer. destruct m as [|first more]; [exact Hb|].
  destruct (u_live u && World.matches (u_subs u) first); [|exact Hb].
  destruct (try_send (u_sink u) (encode_frames (first :: more))) as [r s] eqn:T.
  pose proof (try_send_bounded _ _ _ _ M T Hm Hb) as B.
  destruct r as [| |e|]; try exact B. destruct (e =? broken_pipe); exact B.
Qed.

Theorem fan_bounded : forall ops k u M,
  (forall m, In (FPublish m) ops -> lenN (encode_frames m) <= M) ->
  lenN (k_buf (u_sink u)) < Gen.hwm + M ->
  lenN (k_buf (u_sink (solo k u ops))) < Gen.hwm + M.
Proof.
  induction ops as [|o rest IH]; intros k u M H Hb; [exact Hb|].
  rewrite solo_cons. apply IH; [intros m Hin; apply H; right; exact Hin|].
  destruct o as [j|j m|j a|j l|m|j]; cbn [solo_step].
  - exact Hb.
  - destruct (j =? k); [|exact Hb]. unfold on_sub. destruct (u_live u); exact Hb.
  - destruct (j =? k); exact Hb.
  - destruct (j =? k); exact Hb.
  - apply offer_bounded; [apply H; left; reflexivity|exact Hb].
  - destruct (j =? k); exact Hb.
Qed.

(** 6. A subscriber whose connection accepts every write misses none of the matching messages. *)
Lemma fan_accepting_aux : forall ops k u,
  u_live u = true -> k_tr (u_sink u) = accepting -> k_buf (u_sink u) = [] ->
  (forall o, In o ops -> match o with FSub j _ | FMode j _ | FPlan j _ => j <> k | _ => True end) ->
  (forall m, In (FPublish m) ops -> lenN (encode_frames m) < 2 ^ 63) ->
  k_written (u_sink (solo k u ops)) = k_written (u_sink u) ++ concat (map encode_frames (matching (u_subs u) (published ops))) /\
  k_buf (u_sink (solo k u ops)) = [] /\ u_live (solo k u ops) = true.
Proof.
  induction ops as [|o rest IH]; intros k u Hl Ht Hb Hc Hm.
  - cbn [solo fold_left published flat_map matching filter map concat]. rewrite app_nil_r. auto.
  - assert (Hc' : forall o, In o rest -> match o with FSub j _ | FMode j _ | FPlan j _ => j <> k | _ => True end)
      by (intros o' Hin; apply Hc; right; exact Hin).
    assert (Hm' : forall m, In (FPublish m) rest -> lenN (encode_frames m) < 2 ^ 63)
      by (intros m' Hin; apply Hm; right; exact Hin).
    pose proof (Hc o (or_introl eq_refl)) as Ho.
    rewrite solo_cons, published_cons.
    destruct o as [j|j m|j a|j l|m|j]; cbn [solo_step app].
    + apply IH; assumption.
    + destruct (N.eqb_spec j k) as [E|_]; [contradiction|]. apply IH; assumption.
    + destruct (N.eqb_spec j k) as [E|_]; [contradiction|]. apply IH; assumption.
    + destruct (N.eqb_spec j k) as [E|_]; [contradiction|]. apply IH; assumption.
    + destruct m as [|first more].
      * cbn [offer matching filter]. apply IH; assumption.
      * cbn [matching filter]. unfold offer. rewrite Hl. cbn [andb].
        destruct (World.matches (u_subs u) first) eqn:Hma.
        -- destruct (accepting_misses_none (u_sink u) (encode_frames (first :: more)) Ht Hb
                       (Hm _ (or_introl eq_refl))) as (s' & T & B' & T' & W').
           rewrite T.
           destruct (IH k (u_with_sink u s') Hl T' B' Hc' Hm') as (I1 & I2 & I3).
           split; [|split; assumption].
           rewrite I1. cbn [u_with_sink u_sink u_subs map concat]. rewrite W', <- app_assoc. reflexivity.
        -- apply IH; assumption.
    + destruct (j =? k); [|apply IH; assumption].
      exact (IH k (u_with_seen u (length (k_written (u_sink u)))) Hl Ht Hb Hc' Hm').
Qed.

Theorem fan_accepting_misses_none : forall ops k u,
  u_live u = true -> k_tr (u_sink u) = accepting -> k_buf (u_sink u) = [] ->
  (forall o, In o ops -> match o with FSub j _ | FMode j _ | FPlan j _ => j <> k | _ => True end) ->
  (forall m, In (FPublish m) ops -> lenN (encode_frames m) < 2 ^ 63) ->
  let u' := solo k u ops in
  k_written (u_sink u') = k_written (u_sink u) ++ concat (map encode_frames (matching (u_subs u) (published ops))) /\
  k_buf (u_sink u') = [] /\ u_live u' = true.
Proof. intros ops k u Hl Ht Hb Hc Hm u'. subst u'. apply fan_accepting_aux; assumption. Qed.

(** 7. Bytes on a connection are never taken back or rewritten: the written stream only grows. *)
Lemma poll_ready_written_grows fuel : forall s r s', poll_ready fuel s = (r, s') ->
  exists ext, k_written s' = k_written s ++ ext.
Proof.
  induction fuel as [|f IH]; intros s r s' H; cbn [poll_ready] in H.
  - inversion H; subst. exists []. rewrite app_nil_r. reflexivity.
  - destruct (lenN (k_buf s) <? Gen.hwm); [inversion H; subst; exists []; rewrite app_nil_r; reflexivity|].
    destruct (next_ans (k_tr s)) as [a tr].
    destruct a as [n| | |e]; try (inversion H; subst; exists []; cbn [k_written]; rewrite app_nil_r; reflexivity).
    destruct (n =? 0); [inversion H; subst; exists []; cbn [k_written]; rewrite app_nil_r; reflexivity|].
    destruct (take_n n (k_buf s)) as [w rest].
    apply IH in H. destruct H as (ext & H). cbn [k_written] in H.
    exists (w ++ ext). rewrite H, app_assoc. reflexivity.
Qed.

Lemma poll_flush_written_grows fuel : forall s, exists ext, k_written (poll_flush fuel s) = k_written s ++ ext.
Proof.
  induction fuel as [|f IH]; intros s; cbn [poll_flush].
  - exists []. rewrite app_nil_r. reflexivity.
  - destruct (k_buf s) as [|b0 bt]; [exists []; rewrite app_nil_r; reflexivity|].
    destruct (next_ans (k_tr s)) as [a tr].
    destruct a as [n| | |e]; try (exists []; cbn [k_written]; rewrite app_nil_r; reflexivity).
    destruct (n =? 0); [exists []; cbn [k_written]; rewrite app_nil_r; reflexivity|].
    destruct (take_n n (b0 :: bt)) as [w rest].
    destruct (IH {| k_buf := rest; k_written := k_written s ++ w; k_tr := tr |}) as (ext & H).
    cbn [k_written] in H. exists (w ++ ext). rewrite H, app_assoc. reflexivity.
Qed.

Lemma try_send_written_grows s enc r s' : try_send s enc = (r, s') ->
  exists ext, k_written s' = k_written s ++ ext.
Proof.
  unfold try_send. destruct (poll_ready (S (length (k_buf s))) s) as [[r0|] s1] eqn:E; cbv zeta; intros H;
    apply pair_equal_spec in H as [Hr Hs]; subst r s'.
  - eapply poll_ready_written_grows; exact E.
  - destruct (poll_ready_written_grows _ _ _ _ E) as (e1 & H1).
    match goal with |- exists ext, k_written (poll_flush ?f ?x) = _ =>
      destruct (poll_flush_written_grows f x) as (e2 & H2) end.
    cbn [k_written] in H2. exists (e1 ++ e2). rewrite H2, H1, app_assoc. reflexivity.
Qed.

Lemma offer_written_grows u m : exists ext, k_written (u_sink (offer u m)) = k_written (u_sink u) ++ ext.
Proof.
  assert (Hsame : exists ext, k_written (u_sink u) = k_written (u_sink u) ++ ext)
    by (exists []; rewrite app_nil_r; reflexivity).
  unfold offer. destruct m as [|first more]; [exact Hsame|].
  destruct (u_live u && World.matches (u_subs u) first); [|exact Hsame].
  destruct (try_send (u_sink u) (encode_frames (first :: more))) as [r s] eqn:T.
  pose proof (try_send_written_grows _ _ _ _ T) as G.
  destruct r as [| |e|]; try exact G. destruct (e =? broken_pipe); exact G.
Qed.

Theorem fan_written_grows : forall ops k u, exists ext,
  k_written (u_sink (solo k u ops)) = k_written (u_sink u) ++ ext.
Proof.
  induction ops as [|o rest IH]; intros k u.
  - exists []. rewrite app_nil_r. reflexivity.
  - rewrite solo_cons. destruct (IH k (solo_step k u o)) as (e2 & H2).
    assert (H1 : exists e1, k_written (u_sink (solo_step k u o)) = k_written (u_sink u) ++ e1).
    { assert (Hsame : exists ext, k_written (u_sink u) = k_written (u_sink u) ++ ext)
        by (exists []; rewrite app_nil_r; reflexivity).
      destruct o as [j|j m|j a|j l|m|j]; cbn [solo_step].
      - exact Hsame.
      - destruct (j =? k); [|exact Hsame]. unfold on_sub. destruct (u_live u); exact Hsame.
      - destruct (j =? k); exact Hsame.
      - destruct (j =? k); exact Hsame.
      - apply offer_written_grows.
      - destruct (j =? k); exact Hsame. }
    destruct H1 as (e1 & H1). exists (e1 ++ e2). rewrite H2, H1, app_assoc. reflexivity.
Qed.

(** 8. A subscriber removed after a broken pipe is sent nothing more. *)
Lemma dead_step k u o : u_live u = false ->
  stream (solo_step k u o) = stream u /\ u_live (solo_step k u o) = false.
Proof.
  intros H. destruct o as [j|j m|j a|j l|m|j]; cbn [solo_step].
  - auto.
  - destruct (j =? k); [|auto]. unfold on_sub. rewrite H. auto.
  - destruct (j =? k); auto.
  - destruct (j =? k); auto.
  - unfold offer. destruct m as [|first more]; [auto|]. rewrite H. cbn [andb]. auto.
  - destruct (j =? k); auto.
Qed.

Theorem fan_dead_gets_nothing : forall ops k u, u_live u = false ->
  stream (solo k u ops) = stream u /\ u_live (solo k u ops) = false.
Proof.
  induction ops as [|o rest IH]; intros k u H; [auto|].
  rewrite solo_cons. destruct (dead_step k u o H) as [S L].
  destruct (IH k _ L) as [S' L']. split; [rewrite S', S; reflexivity|exact L'].
Qed.

(** 9. A full buffer drops whole messages only for that subscriber, and only while the connection does not drain:
    a refused offer leaves the subscriber's stream untouched. *)
Theorem offer_refused_keeps_stream : forall u m s r, m <> [] ->
  try_send (u_sink u) (encode_frames m) = (r, s) -> r <> TsOk ->
  stream (offer u m) = stream u.
Proof.
  intros u m s r Hm T Hr. destruct m as [|first more]; [congruence|]. unfold offer.
  destruct (u_live u && World.matches (u_subs u) first); [|reflexivity].
  rewrite T. pose proof (try_send_stream _ _ _ _ T) as S. unfold stream.
  destruct r as [| |e|]; [congruence| | |].
  - cbn [u_with_sink u_sink]. rewrite S, app_nil_r. reflexivity.
  - destruct (e =? broken_pipe); cbn [u_dead u_with_sink u_sink]; rewrite S, app_nil_r; reflexivity.
  - cbn [u_with_sink u_sink]. rewrite S, app_nil_r. reflexivity.
Qed.

(** 10. Refinement: over connections that accept every write the fan-out coincides with [World.publish]. *)
Theorem fan_refines_world_publish : forall (w : World.world) us m k c u,
  NoDup (World.w_peers w) -> In k (World.w_peers w) ->
  World.get_conn k (World.w_conns w) = Some c -> get k us = Some u ->
  u_live u = true -> u_subs u = World.c_subs c ->
  k_tr (u_sink u) = accepting -> k_buf (u_sink u) = [] -> lenN (encode_frames m) < 2 ^ 63 ->
  exists c' u' delta,
    World.get_conn k (World.w_conns (World.publish w m)) = Some c' /\
    get k (publish us m) = Some u' /\
    World.c_wire c' = World.c_wire c ++ delta /\
    k_written (u_sink u') = k_written (u_sink u) ++ delta /\
    k_buf (u_sink u') = [] /\ k_tr (u_sink u') = accepting /\ u_live u' = true /\
    World.c_subs c' = World.c_subs c /\ u_subs u' = u_subs u.
Proof.
  intros w us m k c u Hnd Hin Hg Hu Hl Hs Ht Hb Hlen.
  destruct m as [|first rest].
  - exists c, u, []. cbn [World.publish]. rewrite get_publish, Hu. cbn [option_map offer].
    rewrite !app_nil_r. repeat split; auto.
  - destruct (PubSubProofs.publish_exactly_once w first rest Hnd k c Hg) as (c' & G' & S' & W').
    assert (Hmem : World.memN k (World.w_peers w) = true) by (apply PubSubProofs.memN_In; exact Hin).
    rewrite Hmem in W'. cbn [andb] in W'.
    rewrite get_publish, Hu. cbn [option_map]. unfold offer. rewrite Hl, Hs. cbn [andb].
    destruct (World.matches (World.c_subs c) first).
    + destruct (accepting_misses_none (u_sink u) (encode_frames (first :: rest)) Ht Hb Hlen)
        as (s' & T & B' & T' & Wr').
      rewrite T. exists c', (u_with_sink u s'), (encode_frames (first :: rest)).
      cbn [u_with_sink u_sink u_live u_subs]. repeat split; auto.
    + exists c', u, []. rewrite !app_nil_r. rewrite app_nil_r in W'. repeat split; auto.
Qed.

(** non-vacuity: a stalled subscriber beside an accepting one *)
Example fan_example :
  let big := [repeat 65 70000] in
  let ops := [FAttach 1; FAttach 2; FSub 1 [[1]]; FSub 2 [[1]]; FMode 1 WPending;
              FPublish big; FPublish big; FPublish big; FPublish [[66]]] in
  let us := snd (frun [] ops) in
  option_map (fun u => (lenN (k_written (u_sink u)), lenN (k_buf (u_sink u)))) (get 1 us) = Some (0, 140018) /\
  option_map (fun u => (lenN (k_written (u_sink u)), lenN (k_buf (u_sink u)))) (get 2 us) = Some (210030, 0).
Proof. vm_compute. split; reflexivity. Qed.

Print Assumptions fan_isolation.
Print Assumptions fan_isolation_fresh.
Print Assumptions fan_wire_is_solo.
Print Assumptions solo_ignores_others.
Print Assumptions fan_others_unaffected.
Print Assumptions fan_stream_subsequence.
Print Assumptions offered_sub_matching.
Print Assumptions fan_bounded.
Print Assumptions fan_accepting_misses_none.
Print Assumptions fan_written_grows.
Print Assumptions fan_dead_gets_nothing.
Print Assumptions offer_refused_keeps_stream.
Print Assumptions fan_refines_world_publish.
Print Assumptions fan_example.
