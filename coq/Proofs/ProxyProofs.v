(** C15: the proxy loop forwards exactly what it received, per direction, for every choice sequence. *)
From ZV Require Import Base.Bytes Base.Res Model.Codec Model.World Model.Proxy.
From Coq Require Import Lia.

(** what has been sent on a side is what was received on the other; when an error ended the proxy,
    at most the one message whose forwarding failed is missing *)
Definition forward_inv (s : pstate) : Prop :=
  exists tf tb, p_recv_f s = p_sent_b s ++ tf /\ p_recv_b s = p_sent_f s ++ tb /\
    ((p_done s = false /\ tf = [] /\ tb = []) \/ (p_done s = true /\ (length tf + length tb <= 1)%nat)).

Lemma forward_inv0 f b c : forward_inv (pstate0 f b c).
Proof. exists [], []. cbn. repeat split; auto. Qed.

Ltac proj := cbn [p_done p_sent_b p_sent_f p_recv_f p_recv_b p_sent_c p_front p_back p_cap].

Lemma inv_running s : p_done s = false -> forward_inv s -> p_recv_f s = p_sent_b s /\ p_recv_b s = p_sent_f s.
Proof.
  intros Hd (tf & tb & Hf & Hb & [(_ & -> & ->)|(Hd' & _)]); [|congruence].
  rewrite !app_nil_r in *. auto.
Qed.

Ltac eqs Ef Eb := proj; rewrite ?app_nil_r; first [assumption | congruence | (rewrite Ef; reflexivity) | (rewrite Eb; reflexivity)].
Ltac stopped Ef Eb tf tb := exists tf, tb; split; [eqs Ef Eb|]; split; [eqs Ef Eb|]; right; proj; split; [reflexivity|cbn [length]; lia].
Ltac running Ef Eb := exists (@nil msg), (@nil msg); split; [eqs Ef Eb|]; split; [eqs Ef Eb|]; left; proj; repeat split; reflexivity.

Lemma proxy_iter_inv s c : forward_inv s -> forward_inv (proxy_iter s c).
Proof.
  intros Hinv. unfold proxy_iter.
  destruct (p_done s) eqn:Ed; [exact Hinv|].
  destruct (inv_running s Ed Hinv) as [Ef Eb].
  destruct (step (match c with Front => p_front s | Back => p_back s end) ORecv) as [obs src'].
  assert (Hstop : forall pf pb pc, forward_inv {| p_front := pf; p_back := pb; p_cap := pc; p_recv_f := p_recv_f s;
             p_recv_b := p_recv_b s; p_sent_b := p_sent_b s; p_sent_f := p_sent_f s; p_sent_c := p_sent_c s; p_done := true |}).
  { intros. stopped Ef Eb (@nil msg) (@nil msg). }
  assert (Hsame : forall pf pb pc, forward_inv {| p_front := pf; p_back := pb; p_cap := pc; p_recv_f := p_recv_f s;
             p_recv_b := p_recv_b s; p_sent_b := p_sent_b s; p_sent_f := p_sent_f s; p_sent_c := p_sent_c s; p_done := false |}).
  { intros. running Ef Eb. }
  destruct obs as [|o1 t]; [apply Hstop|].
  destruct o1 as [cc ann|from m0|e| | |e back|bb|cc bb|cc r1 r2|]; destruct t as [|o2 rest]; try apply Hstop; [|apply Hsame].
  set (m := frames_of_recv from m0).
  destruct (p_cap s) as [wc|].
  - destruct (step wc (OSend m)) as [o wc']. destruct (send_ok o); cbn [negb].
    + destruct c; destruct (step _ (OSend m)) as [o2 dst']; destruct (send_ok o2); cbn [negb];
        first [running Ef Eb | stopped Ef Eb (@nil msg) (@nil msg)].
    + destruct c; [stopped Ef Eb [m] (@nil msg)|stopped Ef Eb (@nil msg) [m]].
  - cbn [negb]. destruct c; destruct (step _ (OSend m)) as [o2 dst']; destruct (send_ok o2); cbn [negb];
      first [running Ef Eb | stopped Ef Eb (@nil msg) (@nil msg)].
Qed.

(** for EVERY sequence of branch choices: sent on back = received on front, sent on front =
    received on back, as lists of messages (same frames, same order, each once) *)
Theorem proxy_forwards_exactly : forall f b c cs, forward_inv (proxy_run (pstate0 f b c) cs).
Proof.
  intros f b c cs. unfold proxy_run.
  assert (H : forall s, forward_inv s -> forward_inv (fold_left proxy_iter cs s)).
  { induction cs as [|x cs IH]; intros s Hs; cbn [fold_left]; [exact Hs|]. apply IH, proxy_iter_inv, Hs. }
  apply H, forward_inv0.
Qed.

Corollary proxy_running_forwards_all : forall f b c cs,
  p_done (proxy_run (pstate0 f b c) cs) = false ->
  p_sent_b (proxy_run (pstate0 f b c) cs) = p_recv_f (proxy_run (pstate0 f b c) cs) /\
  p_sent_f (proxy_run (pstate0 f b c) cs) = p_recv_b (proxy_run (pstate0 f b c) cs).
Proof.
  intros f b c cs Hd. destruct (inv_running _ Hd (proxy_forwards_exactly f b c cs)) as [A B]. auto.
Qed.

(** the capture socket gets a copy of every message taken from either side, in forwarding order *)
Definition cap_inv (s : pstate) : Prop :=
  match p_cap s with
  | Some _ => length (p_sent_c s) = (length (p_recv_f s) + length (p_recv_b s))%nat /\
              (forall m, In m (p_sent_c s) <-> In m (p_recv_f s) \/ In m (p_recv_b s))
  | None => p_sent_c s = []
  end.

Lemma cap_iter s c : cap_inv s -> cap_inv (proxy_iter s c).
Proof.
  unfold cap_inv, proxy_iter. intros H.
  destruct (p_done s); [exact H|].
  destruct (step (match c with Front => p_front s | Back => p_back s end) ORecv) as [obs src'].
  destruct obs as [|o1 t]; proj; try exact H.
  destruct o1 as [cc ann|from m0|e| | |e back|bb|cc bb|cc r1 r2|]; destruct t as [|o2 rest]; proj; try exact H.
  set (m := frames_of_recv from m0).
  destruct (p_cap s) as [wc|].
  - destruct H as [Hl Hin]. destruct (step wc (OSend m)) as [o wc'].
    assert (Hres : length (p_sent_c s ++ [m]) = (length (match c with Front => p_recv_f s ++ [m] | Back => p_recv_f s end) +
                      length (match c with Back => p_recv_b s ++ [m] | Front => p_recv_b s end))%nat /\
                   (forall x, In x (p_sent_c s ++ [m]) <-> In x (match c with Front => p_recv_f s ++ [m] | Back => p_recv_f s end) \/
                                                          In x (match c with Back => p_recv_b s ++ [m] | Front => p_recv_b s end))).
    { split.
      - destruct c; rewrite !app_length; cbn [length]; lia.
      - intros x. rewrite in_app_iff, Hin. destruct c; rewrite in_app_iff; cbn [In]; tauto. }
    destruct (send_ok o); cbn [negb]; proj; [|exact Hres].
    destruct (step _ (OSend m)) as [o2 dst']. proj. exact Hres.
  - cbn [negb]. destruct (step _ (OSend m)) as [o2 dst']. proj. exact H.
Qed.

Theorem proxy_capture_copies : forall f b c cs, cap_inv (proxy_run (pstate0 f b c) cs).
Proof.
  intros f b c cs. unfold proxy_run.
  assert (H : forall s, cap_inv s -> cap_inv (fold_left proxy_iter cs s)).
  { induction cs as [|x cs IH]; intros s Hs; cbn [fold_left]; [exact Hs|]. apply IH, cap_iter, Hs. }
  apply H. unfold cap_inv, pstate0. proj. destruct c; cbn; [split; [reflexivity|tauto]|reflexivity].
Qed.
