(** Lemmas for Proofs/PubSubWire.v: the SUB socket's wire as a list of subscription messages whose
    replay gives exactly its set; the PUB socket with one subscriber as a concrete world; the
    per-subscriber reader consuming every message that has arrived. *)
From Coq Require Import List Arith NArith Lia Bool.
From ZV Require Import Base.Bytes Base.Res Model.Codec Model.World Proofs.BytesProofs Proofs.CodecEnc Proofs.Decoder
  Proofs.CodecRoundtrip Proofs.SocketProofs Proofs.PubSubProofs Proofs.LifecycleProofs
  Proofs.WorldStreamDefs Proofs.WorldStreamLemmas Proofs.WorldWireLemmas.
Import ListNotations.
Open Scope N_scope.

Definition wexec (w : world) (ops : list op) : world := fold_left (fun w o => snd (World.step w o)) ops w.

Definition sub_ok (o : op) : Prop :=
  match o with OSub t | OUnsub t => bytes_ok t = true /\ lenN t + 1 < 2 ^ 64 | _ => False end.

Lemma wexec_cons w o l : wexec w (o :: l) = wexec (snd (World.step w o)) l.
Proof. reflexivity. Qed.

Lemma wexec_app w l1 l2 : wexec w (l1 ++ l2) = wexec (wexec w l1) l2.
Proof. unfold wexec. apply fold_left_app. Qed.

(* ====================================================================== *)
(** * Part 1: the SUB side *)
(* ====================================================================== *)

Lemma filter_ne_notin : forall t l, ~ In t l -> filter (fun x => negb (bytes_eqb x t)) l = l.
Proof.
  intros t l. induction l as [|x l IH]; intros H; cbn [filter]; [reflexivity|].
  destruct (PubSubProofs.bytes_eqb_spec x t) as [E|E]; cbn [negb].
  - exfalso. apply H. left. exact E.
  - rewrite IH; [reflexivity|]. intros Hin. apply H. right. exact Hin.
Qed.

(** on a duplicate-free list, the publisher's "cancel one occurrence" is the subscriber's "remove" *)
Lemma remove_first_filter : forall t l, NoDup l ->
  remove_first t l = filter (fun x => negb (bytes_eqb x t)) l.
Proof.
  intros t l H. induction H as [|x l Hx Hnd IH]; cbn [remove_first filter]; [reflexivity|].
  destruct (PubSubProofs.bytes_eqb_spec x t) as [E|E]; cbn [negb].
  - subst x. symmetry. apply filter_ne_notin. exact Hx.
  - rewrite IH. reflexivity.
Qed.

Lemma wf_sub_msg b t : b < 256 -> bytes_ok t = true -> lenN t + 1 < 2 ^ 64 -> wf_msg [b :: t].
Proof.
  intros Hb Ht Hl. split; [discriminate|]. constructor; [|constructor].
  split.
  - unfold bytes_ok in *. cbn [forallb]. rewrite Ht. unfold byte_ok.
    apply N.ltb_lt in Hb. rewrite Hb. reflexivity.
  - rewrite lenN_cons. lia.
Qed.

(** the invariant of a SUB socket with the single peer k: k's wire is the encoding of a list of
    well-formed messages whose replay by [on_sub_msg] is exactly the socket's set *)
Definition sinv (k : N) (w : world) : Prop :=
  w_type w = SUB /\ w_peers w = [k] /\ NoDup (w_subs w) /\
  exists cn msgs, get_conn k (w_conns w) = Some cn /\
    c_wire cn = concat (map encode_frames msgs) /\ Forall wf_msg msgs /\
    fold_left on_sub_msg msgs [] = w_subs w.

Lemma sinv_attach k : sinv k (do_attach (world0 SUB) k None).
Proof.
  unfold sinv.
  split; [reflexivity|]. split; [reflexivity|]. split; [constructor|].
  exists (new_conn k None), []. split.
  - cbn. rewrite N.eqb_refl. reflexivity.
  - split; [reflexivity|]. split; [constructor|reflexivity].
Qed.

Lemma sinv_write k w m subs' :
  sinv k w -> NoDup subs' -> wf_msg m -> on_sub_msg (w_subs w) m = subs' ->
  sinv k (write_msg (with_subs w subs') k m).
Proof.
  intros (Ht & Hp & _ & cn & msgs & Hg & Hw & Hwf & Hf) Hnd Hm Hs.
  destruct (write_msg_tables_unchanged (with_subs w subs') k m) as (P & _ & _ & _ & T & _ & _ & S).
  destruct (write_msg_appends (with_subs w subs') k m cn Hg (SocketProofs.get_conn_id _ _ _ Hg)) as (c' & G & W & _).
  unfold sinv. rewrite P, T, S. cbn [w_type w_peers w_subs with_subs set_w].
  split; [exact Ht|]. split; [exact Hp|]. split; [exact Hnd|].
  exists c', (msgs ++ [m]). split; [exact G|]. split.
  - rewrite concat_encode_snoc, W, Hw. reflexivity.
  - split.
    + apply Forall_app. split; [exact Hwf|]. constructor; [exact Hm|constructor].
    + rewrite fold_left_app. cbn [fold_left]. rewrite <- Hs, <- Hf. reflexivity.
Qed.

Lemma sinv_step k w o : sinv k w -> sub_ok o -> sinv k (snd (World.step w o)).
Proof.
  intros Hinv Ho.
  destruct o as [c ann|c b|c| |m|c m|t|t| |c|c]; cbn [sub_ok] in Ho; try contradiction.
  - (* OSub *)
    destruct Ho as [Hb Hl]. pose proof Hinv as (Ht & Hp & Hnd & _).
    unfold World.step. destruct (existsb (bytes_eqb t) (w_subs w)) eqn:E; [exact Hinv|].
    cbv zeta. cbn [snd]. change (w_peers (with_subs w (w_subs w ++ [t]))) with (w_peers w).
    rewrite Hp. cbn [fold_left].
    apply sinv_write; [exact Hinv| | |reflexivity].
    + apply NoDup_snoc; [exact Hnd|]. apply existsb_bytes_not_In. exact E.
    + change (sub_msg Gen.sub_op_sub t) with [1 :: t]. apply wf_sub_msg; [lia|exact Hb|exact Hl].
  - (* OUnsub *)
    destruct Ho as [Hb Hl]. pose proof Hinv as (Ht & Hp & Hnd & _).
    unfold World.step. destruct (existsb (bytes_eqb t) (w_subs w)) eqn:E; cbn [negb]; [|exact Hinv].
    cbv zeta. cbn [snd].
    change (w_peers (with_subs w (filter (fun x => negb (bytes_eqb x t)) (w_subs w)))) with (w_peers w).
    rewrite Hp. cbn [fold_left].
    apply sinv_write; [exact Hinv| | |].
    + apply NoDup_filter. exact Hnd.
    + change (sub_msg Gen.sub_op_unsub t) with [0 :: t]. apply wf_sub_msg; [lia|exact Hb|exact Hl].
    + change (on_sub_msg (w_subs w) (sub_msg Gen.sub_op_unsub t)) with (remove_first t (w_subs w)).
      apply remove_first_filter. exact Hnd.
Qed.

Lemma sinv_exec k : forall h w, sinv k w -> Forall sub_ok h -> sinv k (wexec w h).
Proof.
  induction h as [|o h IH]; intros w Hinv Hh; [exact Hinv|].
  inversion Hh as [|? ? Ho Hh']; subst. rewrite wexec_cons.
  apply IH; [|exact Hh']. apply sinv_step; assumption.
Qed.

(** SUB side, packaged *)
Lemma sub_side k h c : Forall sub_ok h ->
  get_conn k (w_conns (wexec (world0 SUB) (OAttach k None :: h))) = Some c ->
  exists msgs, c_wire c = concat (map encode_frames msgs) /\ Forall wf_msg msgs /\
    fold_left on_sub_msg msgs [] = w_subs (wexec (world0 SUB) (OAttach k None :: h)).
Proof.
  intros Hh Hg. rewrite wexec_cons in *. cbn [World.step snd] in *.
  destruct (sinv_exec k h _ (sinv_attach k) Hh) as (_ & _ & _ & cn & msgs & G & W & F & S).
  rewrite G in Hg. injection Hg as <-.
  exists msgs. split; [exact W|]. split; [exact F|exact S].
Qed.

(* ====================================================================== *)
(** * Part 2: the PUB side *)
(* ====================================================================== *)

(** a PUB socket whose only connection / subscriber is j *)
Definition pubw (j : N) (c : conn) : world :=
  {| w_type := PUB; w_conns := [c]; w_peers := [j]; w_rr := []; w_heap := []; w_counter := 0;
     w_streams := []; w_reg := []; w_cur := None; w_env := None; w_subs := [] |}.

(** the connection after the handshake with the chunks [inq] waiting *)
Definition mkc (j : N) (inq : list bytes) : conn :=
  {| c_id := j; c_ann := None; c_inq := inq; c_eof := false; c_dec := dec_post_greeting; c_buf := [];
     c_wire := []; c_subs := []; c_rd := true; c_wr := true |}.

Lemma pub_attach j : do_attach (world0 PUB) j None = pubw j (mkc j []).
Proof. reflexivity. Qed.

Lemma get_pubw j c : c_id c = j -> get_conn j (w_conns (pubw j c)) = Some c.
Proof. intros H. cbn [pubw w_conns get_conn]. rewrite H, N.eqb_refl. reflexivity. Qed.

Lemma upd_pubw j c c' : c_id c = c_id c' -> upd_conn (pubw j c) c' = pubw j c'.
Proof.
  intros H. unfold upd_conn, with_conns, set_w, pubw.
  cbn [w_conns put_conn w_type w_peers w_rr w_heap w_counter w_streams w_reg w_cur w_env w_subs].
  rewrite H, N.eqb_refl. reflexivity.
Qed.

Lemma pub_feed j inq b :
  do_feed (pubw j (mkc j inq)) j b = pubw j (mkc j (if is_nil b then inq else inq ++ [b])).
Proof.
  unfold do_feed. rewrite get_pubw by reflexivity.
  destruct b as [|x b]; cbn [is_nil orb mkc c_eof]; [reflexivity|].
  rewrite upd_pubw by reflexivity. reflexivity.
Qed.

Definition nonnil (c : bytes) : bool := negb (is_nil c).

Lemma pub_feeds j : forall chunks inq rest,
  wexec (pubw j (mkc j inq)) (map (OFeed j) chunks ++ rest) =
  wexec (pubw j (mkc j (inq ++ filter nonnil chunks))) rest.
Proof.
  induction chunks as [|b chunks IH]; intros inq rest; cbn [map app filter].
  - rewrite app_nil_r. reflexivity.
  - rewrite wexec_cons. cbn [World.step snd]. rewrite pub_feed, IH.
    destruct b as [|x b]; cbn [is_nil nonnil negb]; [reflexivity|].
    rewrite <- app_assoc. reflexivity.
Qed.

Lemma settle_pubw j c : settle (pubw j c) = pub_reader (S (S (conn_bytes c))) (pubw j c) (c_id c).
Proof. reflexivity. Qed.

(** one poll leaves everything but the inbound side alone *)
Lemma poll_keeps : forall fuel c p c', poll_stream fuel c = (p, c') ->
  c_rd c' = c_rd c /\ c_wire c' = c_wire c /\ c_subs c' = c_subs c.
Proof.
  induction fuel as [|f IH]; intros c p c' H.
  - cbn [poll_stream] in H. apply pair_equal_spec in H as [_ <-]. repeat split.
  - rewrite poll_S in H. destruct (dec1 (c_dec c) (c_buf c)) as [[r d1] b1].
    destruct r.
    + destruct (c_inq c) as [|ch rest].
      * cbv zeta in H. destruct (c_eof c); [destruct (is_nil b1)|];
          apply pair_equal_spec in H as [_ <-]; repeat split.
      * apply IH in H. exact H.
    + apply pair_equal_spec in H as [_ <-]; repeat split.
    + apply pair_equal_spec in H as [_ <-]; repeat split.
    + apply pair_equal_spec in H as [_ <-]; repeat split.
    + apply pair_equal_spec in H as [_ <-]; repeat split.
Qed.

Lemma pub_reader_S f w k :
  pub_reader (S f) w k =
    match get_conn k (w_conns w) with
    | None => w
    | Some c =>
      if negb (c_rd c) then w else
      match poll_stream (S (length (c_inq c))) c with
      | (PItem (OItem (IMessage m)), c') =>
        pub_reader f (upd_conn w (if memN k (w_peers w) then c_with_subs c' (on_sub_msg (c_subs c') m) else c')) k
      | (PItem (OItem _), c') => pub_reader f (upd_conn w c') k
      | (PItem _, c') => drop_halves (with_peers (upd_conn w c') (delN k (w_peers w))) k true true
      | (PEnded, c') => drop_halves (with_peers (upd_conn w c') (delN k (w_peers w))) k true true
      | (PPending, c') => upd_conn w c'
      end
    end.
Proof. reflexivity. Qed.

(** the reader task consumes exactly the messages the eager reading announces, applies each to the
    subscriber's list, and parks *)
Lemma reader_run j : forall ms fuel c r,
  c_id c = j -> c_rd c = true -> c_eof c = false -> okc c -> eager c = (map OI ms, r) ->
  (length ms < fuel)%nat ->
  exists c', pub_reader fuel (pubw j c) j = pubw j c' /\ c_id c' = j /\
    c_subs c' = fold_left on_sub_msg ms (c_subs c) /\ c_wire c' = c_wire c.
Proof.
  induction ms as [|m ms IH]; intros fuel c r Hid Hrd Heof Hok He Hf.
  - destruct fuel as [|f]; [lia|]. rewrite pub_reader_S, (get_pubw j c Hid), Hrd. cbn [negb].
    destruct (poll_stream (S (length (c_inq c))) c) as [p c'] eqn:HP.
    pose proof (poll_keeps _ _ _ _ HP) as (K1 & K2 & K3).
    apply poll_spec in HP; [|exact Hok|lia]. destruct HP as (Hid' & He' & HP).
    unfold poll_post in HP. rewrite He in HP. cbn [fst snd map] in HP.
    destruct p as [[i|e|s|]| |].
    + destruct HP as [_ HP]. discriminate HP.
    + destruct HP as [[HP _]|(_ & HP & _)]; [discriminate HP|congruence].
    + contradiction.
    + contradiction.
    + exists c'. split; [apply upd_pubw; congruence|]. split; [congruence|].
      split; [exact K3|exact K2].
    + destruct HP as [HP _]. congruence.
  - destruct fuel as [|f]; [lia|]. cbn [length] in Hf.
    rewrite pub_reader_S, (get_pubw j c Hid), Hrd. cbn [negb].
    destruct (poll_stream (S (length (c_inq c))) c) as [p c'] eqn:HP.
    pose proof (poll_keeps _ _ _ _ HP) as (K1 & K2 & K3).
    apply poll_spec in HP; [|exact Hok|lia]. destruct HP as (Hid' & He' & HP).
    unfold poll_post in HP. rewrite He in HP. cbn [fst snd map] in HP.
    destruct p as [[i|e|s|]| |].
    + destruct HP as [Hok' HP]. apply pair_equal_spec in HP as [HP1 HP2].
      injection HP1 as Hi Hrest. subst i.
      cbn [pubw w_peers memN existsb]. rewrite N.eqb_refl. cbn [orb].
      rewrite upd_pubw by (cbn [c_with_subs c_id]; congruence).
      destruct (IH f (c_with_subs c' (on_sub_msg (c_subs c') m)) (snd (eager c'))) as (c2 & R & I2 & S2 & W2).
      * cbn [c_with_subs c_id]. congruence.
      * cbn [c_with_subs c_rd]. congruence.
      * cbn [c_with_subs c_eof]. congruence.
      * exact Hok'.
      * change (eager (c_with_subs c' (on_sub_msg (c_subs c') m))) with (eager c').
        rewrite Hrest. apply surjective_pairing.
      * lia.
      * exists c2. split; [exact R|]. split; [exact I2|]. split.
        -- rewrite S2. cbn [c_with_subs c_subs fold_left]. rewrite K3. reflexivity.
        -- rewrite W2. cbn [c_with_subs c_wire]. exact K2.
    + destruct HP as [[HP _]|(_ & _ & HP & _)]; discriminate HP.
    + contradiction.
    + contradiction.
    + destruct HP as (_ & _ & HP). discriminate HP.
    + destruct HP as (_ & HP & _). discriminate HP.
Qed.

Lemma msgs_le_bytes : forall ms, Forall wf_msg ms ->
  (length ms <= length (concat (map encode_frames ms)))%nat.
Proof.
  induction ms as [|m ms IH]; intros H; [cbn; lia|].
  inversion H as [|? ? [Hne _] Hms]; subst. cbn [map concat length]. rewrite app_length.
  pose proof (encode_frames_length m) as L. specialize (IH Hms).
  destruct m as [|f m]; [congruence|]. cbn [length] in L. lia.
Qed.

Lemma eager_mkc j inq : eager (mkc j inq) = feed_all reader_pg inq.
Proof.
  unfold eager, eag. cbn [mkc c_dec c_buf c_inq feed_all]. fold reader_pg.
  rewrite (feed_nil reader_pg settled_reader_pg).
  destruct (feed_all reader_pg inq) as [os r]. reflexivity.
Qed.

(** PUB side, packaged: after the attach, the feeds and the settle, the world is [pubw j c'] where
    c' has replayed every message, nothing is on its wire *)
Lemma pub_side j chunks msgs : Forall wf_msg msgs -> concat chunks = concat (map encode_frames msgs) ->
  exists c', wexec (world0 PUB) (OAttach j None :: map (OFeed j) chunks ++ [OSettle]) = pubw j c' /\
    c_id c' = j /\ c_subs c' = fold_left on_sub_msg msgs [] /\ c_wire c' = [].
Proof.
  intros Hwf Hc. rewrite wexec_cons. cbn [World.step snd]. rewrite pub_attach, pub_feeds.
  cbn [app]. rewrite wexec_cons. cbn [World.step snd wexec fold_left]. rewrite settle_pubw.
  set (inq := filter nonnil chunks).
  assert (concat inq = concat (map encode_frames msgs)) as Hci.
  { unfold inq, nonnil. rewrite concat_filter_nonnil. exact Hc. }
  pose proof (expected_encodings msgs inq Hwf Hci) as Hex. unfold expected in Hex.
  destruct (reader_run j msgs (S (S (conn_bytes (mkc j inq)))) (mkc j inq) (snd (feed_all reader_pg inq)))
    as (c' & R & I & S & W).
  - reflexivity.
  - reflexivity.
  - reflexivity.
  - split; [reflexivity|]. cbn [mkc c_dec dec_post_greeting waiting]. lia.
  - rewrite eager_mkc. destruct (feed_all reader_pg inq) as [os r]. cbn [snd]. rewrite Hex. reflexivity.
  - unfold conn_bytes. cbn [mkc c_inq c_buf length]. unfold bytes in *. rewrite Hci.
    pose proof (msgs_le_bytes msgs Hwf) as Hle. unfold msg, bytes in *. lia.
  - exists c'. split; [exact R|]. split; [exact I|]. split; [exact S|exact W].
Qed.

(* ====================================================================== *)
(** * Part 3: the publish *)
(* ====================================================================== *)
Lemma pub_publish j c m : c_id c = j -> c_wire c = [] -> m <> [] ->
  World.run (pubw j c) [OSend m; OWire j] =
  [BSendOk; BWire j (if matches (c_subs c) (hd [] m) then encode_frames m else [])].
Proof.
  intros Hid Hw Hm. destruct m as [|first rest]; [congruence|]. cbn [hd].
  assert (NoDup (w_peers (pubw j c))) as Hnd.
  { cbn [pubw w_peers]. constructor; [intros []|constructor]. }
  destruct (publish_exactly_once (pubw j c) first rest Hnd j c (get_pubw j c Hid)) as (c2 & G & _ & W).
  cbn [pubw w_peers memN existsb] in W. rewrite N.eqb_refl, Hw in W. cbn [orb andb app] in W.
  cbn [World.run World.step pubw w_type app]. rewrite G. cbn [app]. rewrite W. reflexivity.
Qed.
