(** Lemmas for Proofs/ReqRotation.v: the REQ socket with n attached servers.  The rotation argument of
    Proofs/PushDistribution.v, plus a per-connection reader state ("quiet": everything the server has written
    so far has been consumed at a message boundary) that survives one complete request/reply cycle. *)
From Coq Require Import List Arith NArith Lia Bool.
From ZV Require Import Base.Bytes Base.Res Model.Codec Model.World Proofs.CodecEnc Proofs.SocketProofs
  Proofs.WorldStreamDefs Proofs.WorldStreamLemmas Proofs.WorldWireLemmas Proofs.ReqRepWireLemmas Proofs.PushDistribution.
Import ListNotations.
Open Scope N_scope.

(* ---------------------------------------------------------------------- *)
(** * Part 1: the per-connection reader state *)
(* ---------------------------------------------------------------------- *)

(** [ch] = the chunks the server has written so far: the encodings of the messages [ms], all of which have been
    handed out already; nothing more is buffered or queued that would yield an item *)
Definition quiet (c : conn) : Prop :=
  okc c /\ c_eof c = false /\
  exists ch ms, Forall wf_msg ms /\ concat ch = concat (map encode_frames ms) /\
    feed_all reader_pg ch = (map OI ms ++ fst (eager c), snd (eager c)).

Lemma quiet_new k : quiet (new_conn k None).
Proof.
  split; [apply okc_new|]. split; [reflexivity|].
  exists [], []. split; [constructor|]. split; [reflexivity|].
  rewrite eager_new. reflexivity.
Qed.

Lemma quiet_wire c x : quiet c -> quiet (c_with_wire c x).
Proof. intros H. exact H. Qed.

Lemma encode_frames_not_nil (m : msg) : m <> [] -> is_nil (encode_frames m) = false.
Proof.
  intros Hm. pose proof (encode_frames_length m) as L.
  destruct (encode_frames m) as [|x t]; [|reflexivity].
  destruct m as [|f m]; [congruence|]. cbn [length] in L. lia.
Qed.

(** one reply [[] :: r] arrives in one chunk and is polled: it is handed out whole and the connection is quiet again *)
Lemma quiet_cycle c r pl c2 : quiet c -> wf_msg ([] :: r) ->
  poll_stream (S (length (c_inq c ++ [encode_frames ([] :: r)])))
              (c_with_in c (c_inq c ++ [encode_frames ([] :: r)]) false) = (pl, c2) ->
  pl = PItem (OItem (IMessage ([] :: r))) /\ quiet c2 /\ c_id c2 = c_id c /\ c_wire c2 = c_wire c.
Proof.
  intros (Hok & He & ch & ms & Hwf & Hc & Hf) Hwfr HP.
  set (b := encode_frames ([] :: r)) in *.
  set (c1 := c_with_in c (c_inq c ++ [b]) false) in *.
  assert (feed_all reader_pg (ch ++ [b]) = (map OI ms ++ fst (eager c1), snd (eager c1))) as Hf1.
  { unfold eager, c1. cbn [c_with_in c_dec c_buf c_inq]. rewrite eag_snoc.
    fold (eager c). rewrite feed_all_app, Hf. cbn [feed_all].
    destruct (feed (snd (eager c)) b) as [o2 r2]. cbn [fst snd].
    rewrite app_nil_r, app_assoc. reflexivity. }
  assert (Forall wf_msg (ms ++ [[] :: r])) as Hwf1
    by (apply Forall_app; split; [exact Hwf|constructor; [exact Hwfr|constructor]]).
  assert (concat (ch ++ [b]) = concat (map encode_frames (ms ++ [[] :: r]))) as Hc1.
  { rewrite map_app, !concat_app, Hc. reflexivity. }
  assert (fst (eager c1) = [OI ([] :: r)]) as Hfe.
  { pose proof (expected_encodings (ms ++ [[] :: r]) (ch ++ [b]) Hwf1 Hc1) as X.
    unfold expected in X. rewrite Hf1 in X. rewrite map_app in X. cbn [map] in X.
    apply app_inv_head in X. exact X. }
  pose proof (poll_wire _ _ _ _ HP) as Hwr.
  apply poll_spec in HP; [|exact Hok|cbn [c1 c_with_in c_inq]; lia].
  destruct HP as (Hid & He' & HP). unfold poll_post in HP.
  destruct pl as [[i|e|s|]| |].
  - destruct HP as [Hok' Hea]. rewrite Hea in Hfe. cbn [fst] in Hfe. unfold OI in Hfe.
    injection Hfe as Hi Hrest. subst i.
    split; [reflexivity|]. split; [|split; [exact Hid|exact Hwr]].
    split; [exact Hok'|]. split; [rewrite He'; reflexivity|].
    exists (ch ++ [b]), (ms ++ [[] :: r]). split; [exact Hwf1|]. split; [exact Hc1|].
    rewrite Hf1, Hea. cbn [fst snd]. rewrite map_app. cbn [map]. unfold OI at 3.
    rewrite <- app_assoc. reflexivity.
  - exfalso. destruct HP as [[Hx _]|(_ & _ & Hx & _)]; rewrite Hx in Hfe; discriminate Hfe.
  - contradiction.
  - contradiction.
  - exfalso. destruct HP as (_ & _ & Hx). rewrite Hx in Hfe. discriminate Hfe.
  - exfalso. destruct HP as (Hx & _). cbn [c1 c_with_in c_eof] in Hx. discriminate Hx.
Qed.

(* ---------------------------------------------------------------------- *)
(** * Part 2: registration *)
(* ---------------------------------------------------------------------- *)
Lemma rq_attach_spec w c : w_type w = REQ ->
  w_type (do_attach w c None) = REQ /\
  w_cur (do_attach w c None) = w_cur w /\
  w_rr (do_attach w c None) = w_rr w ++ [c] /\
  w_peers (do_attach w c None) = delN c (w_peers w) ++ [c] /\
  get_conn c (w_conns (do_attach w c None)) = Some (new_conn c None) /\
  (forall j, j <> c -> get_conn j (w_conns (do_attach w c None)) = get_conn j (w_conns w)).
Proof.
  intros T. unfold do_attach. rewrite T. cbv zeta.
  cbn [w_type w_cur w_rr w_peers w_conns with_rr with_peers with_conns set_w].
  split; [exact T|]. split; [reflexivity|]. split; [reflexivity|]. split; [reflexivity|]. split.
  - apply get_conn_put_same_id. reflexivity.
  - intros j Hj. rewrite get_conn_put_other by (cbn [c_id new_conn]; congruence). reflexivity.
Qed.

(** state after the connections [pre] have joined and nothing has been sent *)
Definition rq_att (pre : list N) (w : world) : Prop :=
  w_type w = REQ /\ w_cur w = None /\ w_rr w = pre /\
  (forall k, In k pre -> memN k (w_peers w) = true) /\
  (forall k, In k pre -> exists cn, get_conn k (w_conns w) = Some cn /\ c_wire cn = [] /\ quiet cn).

Lemma rq_att_world0 : rq_att [] (world0 REQ).
Proof. split; [reflexivity|]. split; [reflexivity|]. split; [reflexivity|]. split; intros k []. Qed.

Lemma rq_att_step pre w c : rq_att pre w -> rq_att (pre ++ [c]) (do_attach w c None).
Proof.
  intros (T & Hcur & Hrr & Hp & Hc).
  destruct (rq_attach_spec w c T) as (T' & Hcur' & Hrr' & Hp' & Hc' & Ho').
  split; [exact T'|]. split; [rewrite Hcur'; exact Hcur|]. split; [rewrite Hrr', Hrr; reflexivity|]. split.
  - intros k Hk. rewrite Hp'. apply in_app_or in Hk. destruct Hk as [Hk|[<-|[]]].
    + apply pd_memN_delN_snoc. apply Hp. exact Hk.
    + apply SocketProofs.memN_snoc.
  - intros k Hk. destruct (N.eq_dec k c) as [->|Hkc].
    + exists (new_conn c None). split; [exact Hc'|]. split; [reflexivity|apply quiet_new].
    + rewrite Ho' by exact Hkc. apply Hc. apply in_app_or in Hk.
      destruct Hk as [Hk|[E|[]]]; [exact Hk|congruence].
Qed.

Lemma rq_run_attaches ops : forall l pre w, rq_att pre w ->
  exists w', World.run w (map (fun c => OAttach c None) l ++ ops) = map (fun c => BAtt c None) l ++ World.run w' ops /\
             rq_att (pre ++ l) w'.
Proof.
  induction l as [|c l IH]; intros pre w Hw.
  - exists w. rewrite app_nil_r. split; [reflexivity|exact Hw].
  - destruct (IH (pre ++ [c]) _ (rq_att_step pre w c Hw)) as (w' & R & Hw').
    exists w'. cbn [map app World.run World.step]. rewrite R. rewrite <- app_assoc in Hw'.
    split; [reflexivity|exact Hw'].
Qed.

(* ---------------------------------------------------------------------- *)
(** * Part 3: the invariant between cycles: [done] = the requests sent (and answered) so far *)
(* ---------------------------------------------------------------------- *)
Definition rq_wire (i n : nat) (done : list msg) : bytes :=
  concat (map (fun p => encode_frames ([] :: p)) (share i n done)).

Definition rq_inv (cs : list N) (done : list msg) (w : world) : Prop :=
  w_type w = REQ /\ w_cur w = None /\
  w_rr w = skipn (Nat.modulo (length done) (length cs)) cs ++ firstn (Nat.modulo (length done) (length cs)) cs /\
  (forall k, In k cs -> memN k (w_peers w) = true) /\
  (forall i k, nth_error cs i = Some k ->
     exists cn, get_conn k (w_conns w) = Some cn /\ c_wire cn = rq_wire i (length cs) done /\ quiet cn).

Lemma rq_inv_start cs w : cs <> [] -> rq_att cs w -> rq_inv cs [] w.
Proof.
  intros Hne (T & Hcur & Hrr & Hp & Hc).
  assert (length cs <> 0%nat) as Hn by (destruct cs; [congruence|cbn [length]; lia]).
  split; [exact T|]. split; [exact Hcur|]. split; [|split; [exact Hp|]].
  - cbn [length]. rewrite Nat.mod_0_l by exact Hn. cbn [skipn firstn]. rewrite app_nil_r. exact Hrr.
  - intros i k Hi. destruct (Hc k (nth_error_In _ _ Hi)) as (cn & Hg & Hw & Hq).
    exists cn. split; [exact Hg|]. split; [|exact Hq]. unfold rq_wire. rewrite share_nil. exact Hw.
Qed.

Lemma send_rr_req_head fuel w m k rest : w_type w = REQ -> w_rr w = k :: rest -> memN k (w_peers w) = true ->
  send_rr (S fuel) w m =
  (BSendOk, with_cur (write_msg (with_rr (with_rr w rest) (rest ++ [k])) k (req_wrap m)) (Some k) (w_env w)).
Proof.
  intros T Hr Hm. cbn [send_rr]. rewrite Hr. cbv zeta.
  change (w_peers (with_rr w rest)) with (w_peers w). rewrite Hm.
  change (w_rr (with_rr w rest)) with rest. rewrite T. reflexivity.
Qed.

Lemma step_send_req w m : w_type w = REQ -> w_cur w = None ->
  World.step w (OSend m) = let '(b, w') := send_rr (S (length (w_rr w))) w m in ([b], w').
Proof. intros T Hc. unfold World.step. rewrite T, Hc. reflexivity. Qed.

Lemma step_recv_req w : w_type w = REQ ->
  World.step w ORecv = let '(b, w') := recv_req w in ([b], w').
Proof. intros T. unfold World.step. rewrite T. reflexivity. Qed.

(** one complete cycle: request p to the connection whose turn it is, its reply r fed in one chunk, recv *)
Lemma rq_cycle cs done w p r : NoDup cs -> cs <> [] -> r <> [] -> wf_msg ([] :: r) -> rq_inv cs done w ->
  exists w', (forall ops,
    World.run w (OSend p :: OFeed (nth (Nat.modulo (length done) (length cs)) cs 0) (encode_frames ([] :: r)) :: ORecv :: ops) =
    BSendOk :: BRecv None r :: World.run w' ops) /\
    rq_inv cs (done ++ [p]) w'.
Proof.
  intros Hnd Hne Hr Hwfr (T & Hcur & Hrr & Hp & Hc).
  assert (length cs <> 0%nat) as Hn by (destruct cs; [congruence|cbn [length]; lia]).
  set (n := length cs) in *. set (r0 := Nat.modulo (length done) n) in *.
  assert (r0 < n)%nat as Hr0 by (apply Nat.mod_upper_bound; exact Hn).
  destruct (pd_rot_step cs r0 Hr0) as (k & rest & Hrot & Hk & Hrot').
  fold n in Hrot'. rewrite Hrot in Hrr.
  rewrite (nth_error_nth cs r0 0 Hk).
  pose proof (Hp k (nth_error_In _ _ Hk)) as Hlive.
  destruct (Hc r0 k Hk) as (cn & Hg & Hw & Hq).
  pose proof (WorldStreamLemmas.get_conn_id _ _ _ Hg) as Hidk.
  set (b := encode_frames ([] :: r)).
  (* the three worlds *)
  set (cn1 := c_with_wire cn (c_wire cn ++ encode_frames (req_wrap p))).
  set (w1 := with_cur (upd_conn (with_rr (with_rr w rest) (rest ++ [k])) cn1) (Some k) (w_env w)).
  set (cn2 := c_with_in cn1 (c_inq cn1 ++ [b]) false).
  set (w2 := fq_wake (upd_conn w1 cn2) k).
  assert (World.step w (OSend p) = ([BSendOk], w1)) as S1.
  { rewrite (step_send_req w p T Hcur).
    rewrite (send_rr_req_head (length (w_rr w)) w p k rest T Hrr Hlive).
    unfold write_msg. cbn [w_conns with_rr set_w]. rewrite Hg. reflexivity. }
  assert (get_conn k (w_conns w1) = Some cn1) as Hg1.
  { unfold w1. wp. apply get_put_same. exact Hidk. }
  assert (c_eof cn1 = false) as He1 by (destruct Hq as (_ & He & _); exact He).
  assert (World.step w1 (OFeed k b) = ([], w2)) as S2.
  { rewrite step_feed. unfold do_feed. rewrite Hg1, He1.
    unfold b. rewrite encode_frames_not_nil by discriminate. reflexivity. }
  destruct (fq_wake_same (upd_conn w1 cn2) k) as (P2 & C2 & U2 & E2 & R2 & T2). fold w2 in P2, C2, U2, E2, R2, T2.
  assert (get_conn k (w_conns w2) = Some cn2) as Hg2.
  { rewrite C2. wp. apply get_put_same. exact Hidk. }
  destruct (poll_stream (S (length (c_inq cn2))) cn2) as [pl cn3] eqn:HP.
  assert (quiet cn1) as Hq1 by (apply quiet_wire; exact Hq).
  destruct (quiet_cycle cn1 r pl cn3 Hq1 Hwfr) as (Hpl & Hq3 & Hid3 & Hw3).
  { rewrite <- HP. reflexivity. }
  subst pl.
  set (w3 := with_cur (upd_conn w2 cn3) None (w_env w2)).
  assert (World.step w2 ORecv = ([BRecv None r], w3)) as S3.
  { rewrite (step_recv_req w2) by (rewrite T2; exact T).
    unfold recv_req. rewrite U2. unfold w1 at 1. wp. rewrite P2. unfold w1 at 1. wp.
    rewrite Hlive. cbn [negb]. rewrite Hg2, HP.
    rewrite (req_unwrap_strips_exactly r Hr). reflexivity. }
  exists w3. split.
  { intros ops. rewrite run_cons, S1. cbn [app]. f_equal.
    rewrite run_cons, S2. cbn [app]. rewrite run_cons, S3. reflexivity. }
  (* the invariant *)
  assert (Nat.modulo (length (done ++ [p])) n = Nat.modulo (S r0) n) as Hmod.
  { rewrite app_length. cbn [length]. unfold r0.
    replace (S (Nat.modulo (length done) n)) with (Nat.modulo (length done) n + 1)%nat by lia.
    rewrite Nat.add_mod_idemp_l by exact Hn. reflexivity. }
  assert (forall j, j <> k -> get_conn j (w_conns w3) = get_conn j (w_conns w)) as Hoth.
  { intros j Hj. unfold w3. wp. rewrite get_put_other by (rewrite Hid3; unfold cn1; cbn [c_with_wire c_id]; congruence).
    rewrite C2. wp. rewrite get_put_other by (unfold cn2, cn1; cbn [c_with_in c_with_wire c_id]; congruence).
    unfold w1. wp. rewrite get_put_other by (unfold cn1; cbn [c_with_wire c_id]; congruence).
    reflexivity. }
  split; [unfold w3; wp; rewrite T2; exact T|]. split; [reflexivity|]. split; [|split].
  - fold n. rewrite Hmod. unfold w3. wp. rewrite R2. unfold w1. wp. exact Hrot'.
  - intros k' Hk'. unfold w3. wp. rewrite P2. unfold w1. wp. apply Hp. exact Hk'.
  - intros i k' Hi. fold n. unfold rq_wire. rewrite share_snoc. fold r0.
    destruct (Nat.eqb_spec r0 i) as [E|E].
    + subst i. assert (k' = k) as -> by congruence.
      exists cn3. split; [|split; [|exact Hq3]].
      * unfold w3. wp. apply get_put_same. rewrite Hid3. exact Hidk.
      * rewrite Hw3. unfold cn1. cbn [c_with_wire c_wire]. rewrite Hw. unfold rq_wire, req_wrap.
        rewrite map_app, concat_app. cbn [map concat]. rewrite app_nil_r. reflexivity.
    + assert (k' <> k) as Hkk.
      { intros ->. apply E. symmetry.
        apply (proj1 (NoDup_nth_error cs) Hnd i r0); [apply nth_error_Some; congruence|congruence]. }
      rewrite (Hoth k' Hkk). exact (Hc i k' Hi).
Qed.
