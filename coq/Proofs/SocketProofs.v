(** Proofs about the socket-layer model (Model/World.v): envelopes (C07), REQ/REP lock-step (C08),
    ROUTER routing (C09), round-robin distribution (C10). *)
From Coq Require Import List NArith Lia ZArith ZifyN ZifyNat ZifyBool Permutation.
From ZV Require Import Base.Bytes Base.Res Model.Codec Model.World Proofs.BytesProofs.
Import ListNotations.
Open Scope N_scope.

Arguments N.add : simpl never.
Arguments N.mul : simpl never.
Arguments N.ltb : simpl never.
Arguments N.eqb : simpl never.
Arguments N.of_nat : simpl never.

(* [bytes] and [list N] are the same type but different atoms for [lia] *)
Ltac ulia := unfold msg, bytes in *; lia.

Ltac case_ltb H :=
  match goal with
  | |- context [N.ltb ?a ?b] => destruct (N.ltb_spec a b) as [H|H]
  | H0 : context [N.ltb ?a ?b] |- _ => destruct (N.ltb_spec a b) as [H|H]
  end.
Ltac case_leb H :=
  match goal with
  | |- context [Nat.leb ?a ?b] => destruct (Nat.leb_spec a b) as [H|H]
  | H0 : context [Nat.leb ?a ?b] |- _ => destruct (Nat.leb_spec a b) as [H|H]
  end.

(* ---------------------------------------------------------------------- *)
(** * C07: envelopes *)
(* ---------------------------------------------------------------------- *)
Definition nonempty_frames (ids : msg) : Prop := Forall (fun f => f <> []) ids.

Theorem req_wrap_one_delimiter : forall p, req_wrap p = [] :: p.
Proof. reflexivity. Qed.

Theorem req_unwrap_strips_exactly : forall r, r <> [] -> req_unwrap ([] :: r) = Ok r.
Proof.
  intros r Hr. unfold req_unwrap. change Gen.req_min_frames with 2.
  destruct r as [|x r]; [congruence|].
  rewrite !lenN_cons.
  case_ltb Hl; [ulia|]. reflexivity.
Qed.

Theorem req_unwrap_ok_inv : forall w r, req_unwrap w = Ok r -> w = [] :: r /\ r <> [].
Proof.
  intros w r H. unfold req_unwrap in H. change Gen.req_min_frames with 2 in H.
  case_ltb Hl; [discriminate|].
  destruct w as [|f rest]; [discriminate|].
  destruct f; cbn [is_nil] in H; [|discriminate].
  inversion H; subst. split; [reflexivity|].
  intros ->. unfold lenN in Hl. cbn [length] in Hl. ulia.
Qed.

Lemma is_nil_false {A} (f : list A) : f <> [] -> is_nil f = false.
Proof. destruct f; [congruence|reflexivity]. Qed.

Lemma find_empty_app : forall ids p, nonempty_frames ids ->
  find_empty (ids ++ [] :: p) = Some (length ids).
Proof.
  intros ids p H. induction H as [|f ids Hf Hids IH]; [reflexivity|].
  cbn [app find_empty length]. rewrite (is_nil_false f Hf), IH. reflexivity.
Qed.

Theorem rep_split_exact : forall ids p, nonempty_frames ids -> p <> [] ->
  rep_split (ids ++ [] :: p) = Ok (ids ++ [[]], p).
Proof.
  intros ids p Hids Hp. unfold rep_split. change Gen.rep_min_frames with 2.
  rewrite find_empty_app by assumption. cbv zeta.
  destruct p as [|x p]; [congruence|].
  case_ltb Hl.
  { rewrite lenN_app, !lenN_cons in Hl. ulia. }
  case_leb Hl2.
  { rewrite app_length in Hl2. cbn [length] in Hl2. ulia. }
  f_equal. f_equal.
  - change ([] :: x :: p) with ([[]] ++ x :: p). rewrite app_assoc.
    apply firstn_app_exact. rewrite app_length. cbn [length]. ulia.
  - change ([] :: x :: p) with ([[]] ++ x :: p). rewrite app_assoc.
    apply skipn_app_exact. rewrite app_length. cbn [length]. ulia.
Qed.

Theorem rep_split_never_zero_frames : forall w env data,
  rep_split w = Ok (env, data) -> data <> [] /\ env ++ data = w /\ env <> [].
Proof.
  intros w env data H. unfold rep_split in H. change Gen.rep_min_frames with 2 in H.
  case_ltb Hl; [discriminate|].
  cbv zeta in H.
  set (at_ := match find_empty w with Some i => S i | None => 1%nat end) in *.
  assert (Hat : (1 <= at_)%nat) by (subst at_; destruct (find_empty w); ulia).
  case_leb Hl2; [discriminate|].
  inversion H as [[He Hd]]. clear H.
  split; [|split].
  - intros Hs. apply (f_equal (@length _)) in Hs.
    rewrite skipn_length in Hs. cbn [length] in Hs. ulia.
  - apply firstn_skipn.
  - intros Hf. apply (f_equal (@length _)) in Hf.
    rewrite firstn_length, Nat.min_l in Hf by ulia. cbn [length] in Hf. ulia.
Qed.

(** The statement as given (for all [ids]) is false: an identity stack that itself contains an
    empty frame is cut at that frame. *)
Lemma rep_split_delimiter_last_refused_counterexample :
  exists ids, rep_split (ids ++ [[]]) = Ok ([[]], [[]]).
Proof. exists [[]]. reflexivity. Qed.

(** Corrected statement: premise [nonempty_frames ids] added. *)
Theorem rep_split_delimiter_last_refused : forall ids, nonempty_frames ids ->
  rep_split (ids ++ [[]]) = Err EOther.
Proof.
  intros ids Hids. unfold rep_split. change Gen.rep_min_frames with 2.
  case_ltb Hl; [reflexivity|].
  rewrite find_empty_app by assumption. cbv zeta.
  case_leb Hl2; [reflexivity|].
  rewrite app_length in Hl2. cbn [length] in Hl2. ulia.
Qed.

Theorem rep_reply_retraces : forall ids r, rep_wrap (Some (ids ++ [[]])) r = ids ++ [] :: r.
Proof. intros ids r. unfold rep_wrap. rewrite <- app_assoc. reflexivity. Qed.

Theorem envelope_end_to_end : forall ids p r env data, nonempty_frames ids -> p <> [] -> r <> [] ->
  rep_split (ids ++ req_wrap p) = Ok (env, data) ->
  data = p /\ req_unwrap (skipn (length ids) (rep_wrap (Some env) r)) = Ok r.
Proof.
  intros ids p r env data Hids Hp Hr H. rewrite req_wrap_one_delimiter in H.
  rewrite rep_split_exact in H by assumption. inversion H; subst.
  split; [reflexivity|]. rewrite rep_reply_retraces.
  rewrite skipn_app_exact by reflexivity.
  apply req_unwrap_strips_exactly; assumption.
Qed.

(* ---------------------------------------------------------------------- *)
(** * Frame lemmas about writing *)
(* ---------------------------------------------------------------------- *)
Lemma get_conn_put_other : forall c l k, c_id c <> k -> get_conn k (put_conn c l) = get_conn k l.
Proof.
  intros c l k Hk. induction l as [|x t IH]; cbn [put_conn get_conn].
  - destruct (N.eqb_spec (c_id c) k); [contradiction|reflexivity].
  - destruct (N.eqb_spec (c_id x) (c_id c)) as [E|E]; cbn [get_conn].
    + destruct (N.eqb_spec (c_id c) k); [contradiction|].
      destruct (N.eqb_spec (c_id x) k); [congruence|reflexivity].
    + rewrite IH. reflexivity.
Qed.

Lemma get_conn_put_same_id : forall c l k, c_id c = k -> get_conn k (put_conn c l) = Some c.
Proof.
  intros c l k <-. induction l as [|x t IH]; cbn [put_conn get_conn].
  - rewrite N.eqb_refl. reflexivity.
  - destruct (N.eqb_spec (c_id x) (c_id c)) as [E|E]; cbn [get_conn].
    + rewrite N.eqb_refl. reflexivity.
    + destruct (N.eqb_spec (c_id x) (c_id c)); [contradiction|]. exact IH.
Qed.

Lemma get_conn_put_same : forall c l, (exists c0, get_conn (c_id c) l = Some c0) ->
  get_conn (c_id c) (put_conn c l) = Some c.
Proof. intros c l _. apply get_conn_put_same_id. reflexivity. Qed.

(** every connection is found under its own id: this holds for every connection list *)
Lemma get_conn_id : forall k l c, get_conn k l = Some c -> c_id c = k.
Proof.
  intros k l c. induction l as [|x t IH]; cbn [get_conn]; [discriminate|].
  destruct (N.eqb_spec (c_id x) k) as [E|E]; [|exact IH].
  intros H; inversion H; subst; reflexivity.
Qed.

Theorem write_msg_others_unchanged : forall w k m j, j <> k ->
  get_conn j (w_conns (write_msg w k m)) = get_conn j (w_conns w).
Proof.
  intros w k m j Hj. unfold write_msg.
  destruct (get_conn k (w_conns w)) as [c|] eqn:E; [|reflexivity].
  unfold upd_conn. cbn [w_conns with_conns set_w].
  apply get_conn_put_other. cbn [c_id c_with_wire].
  apply get_conn_id in E. congruence.
Qed.

Theorem write_msg_appends : forall w k m c, get_conn k (w_conns w) = Some c -> c_id c = k ->
  exists c', get_conn k (w_conns (write_msg w k m)) = Some c' /\ c_wire c' = c_wire c ++ encode_frames m /\
             c_inq c' = c_inq c /\ c_buf c' = c_buf c /\ c_dec c' = c_dec c /\ c_subs c' = c_subs c.
Proof.
  intros w k m c E Hid. unfold write_msg. rewrite E.
  unfold upd_conn. cbn [w_conns with_conns set_w].
  exists (c_with_wire c (c_wire c ++ encode_frames m)). split.
  - apply get_conn_put_same_id. exact Hid.
  - cbn [c_with_wire c_wire c_inq c_buf c_dec c_subs]. repeat split.
Qed.

Theorem write_msg_tables_unchanged : forall w k m,
  w_peers (write_msg w k m) = w_peers w /\ w_rr (write_msg w k m) = w_rr w /\ w_cur (write_msg w k m) = w_cur w /\
  w_env (write_msg w k m) = w_env w /\ w_type (write_msg w k m) = w_type w /\ w_heap (write_msg w k m) = w_heap w /\
  w_streams (write_msg w k m) = w_streams w /\ w_subs (write_msg w k m) = w_subs w.
Proof.
  intros w k m. unfold write_msg. destruct (get_conn k (w_conns w)); repeat split; reflexivity.
Qed.

Definition conns_ok (w : world) : Prop := forall k c, get_conn k (w_conns w) = Some c -> c_id c = k.

(** [conns_ok] holds of every world (lookup compares [c_id]), hence is preserved by everything. *)
Lemma conns_ok_get : forall w, conns_ok w.
Proof. intros w k c H. eapply get_conn_id; eassumption. Qed.

Lemma conns_ok_put_conn : forall w c, conns_ok w -> conns_ok (with_conns w (put_conn c (w_conns w))).
Proof. intros; apply conns_ok_get. Qed.
Lemma conns_ok_upd_conn : forall w c, conns_ok w -> conns_ok (upd_conn w c).
Proof. intros; apply conns_ok_get. Qed.
Lemma conns_ok_write_msg : forall w k m, conns_ok w -> conns_ok (write_msg w k m).
Proof. intros; apply conns_ok_get. Qed.

Lemma write_msg_has_conn : forall w k m j,
  (exists c, get_conn j (w_conns w) = Some c) -> exists c, get_conn j (w_conns (write_msg w k m)) = Some c.
Proof.
  intros w k m j [c Hc]. destruct (N.eq_dec j k) as [->|Hjk].
  - destruct (write_msg_appends w k m c Hc (get_conn_id _ _ _ Hc)) as (c' & H & _). eauto.
  - rewrite write_msg_others_unchanged by assumption. eauto.
Qed.

(* ---------------------------------------------------------------------- *)
(** * C08: lock-step decision rules *)
(* ---------------------------------------------------------------------- *)
Theorem req_send_out_of_turn : forall w k m, w_type w = REQ -> w_cur w = Some k ->
  step w (OSend m) = ([BSendErr EReturnToSender (Some m)], w).
Proof. intros w k m Ht Hc. unfold step. rewrite Ht, Hc. reflexivity. Qed.

Theorem req_recv_out_of_turn : forall w, w_type w = REQ -> w_cur w = None ->
  step w ORecv = ([BRecvErr EOther], w).
Proof. intros w Ht Hc. unfold step, recv_req. rewrite Ht, Hc. reflexivity. Qed.

Theorem rep_send_without_request : forall w m, w_type w = REP -> w_cur w = None ->
  step w (OSend m) = ([BSendErr EReturnToSender (Some m)], w).
Proof. intros w m Ht Hc. unfold step. rewrite Ht, Hc. reflexivity. Qed.

Theorem rep_reply_goes_to_requester : forall w k m, w_type w = REP -> w_cur w = Some k -> memN k (w_peers w) = true ->
  step w (OSend m) = ([BSendOk], with_cur (write_msg w k (rep_wrap (w_env w) m)) None None).
Proof. intros w k m Ht Hc Hm. unfold step. rewrite Ht, Hc, Hm. reflexivity. Qed.

Lemma send_rr_req_ok : forall fuel w m w', w_type w = REQ -> send_rr fuel w m = (BSendOk, w') ->
  exists k, w_cur w' = Some k /\ memN k (w_peers w) = true.
Proof.
  induction fuel as [|f IH]; intros w m w' Ht H; cbn [send_rr] in H; [discriminate|].
  destruct (w_rr w) as [|k rest]; [discriminate|]. cbv zeta in H.
  change (w_peers (with_rr w rest)) with (w_peers w) in H.
  destruct (memN k (w_peers w)) eqn:Hm.
  - rewrite Ht in H. inversion H; subst. exists k. split; [reflexivity|assumption].
  - apply IH in H; [|exact Ht]. exact H.
Qed.

Theorem req_send_ok_alternates : forall w m w', w_type w = REQ -> step w (OSend m) = ([BSendOk], w') ->
  w_cur w = None /\ exists k, w_cur w' = Some k /\ memN k (w_peers w) = true.
Proof.
  intros w m w' Ht H. unfold step in H. rewrite Ht in H.
  destruct (w_cur w) as [k0|]; [discriminate|]. split; [reflexivity|].
  destruct (send_rr (S (length (w_rr w))) w m) as [b w''] eqn:E.
  inversion H; subst. eapply send_rr_req_ok; eassumption.
Qed.

Theorem req_recv_ok_alternates : forall w from r w', w_type w = REQ -> step w ORecv = ([BRecv from r], w') ->
  exists k, w_cur w = Some k /\ w_cur w' = None.
Proof.
  intros w from r w' Ht H. unfold step in H. rewrite Ht in H.
  destruct (recv_req w) as [b w''] eqn:E. inversion H; subst. clear H.
  unfold recv_req in E. destruct (w_cur w) as [k|]; [|discriminate].
  exists k. split; [reflexivity|].
  destruct (negb (memN k (w_peers w))); [discriminate|].
  destruct (get_conn k (w_conns w)) as [c|]; [|discriminate].
  destruct (poll_stream (S (length (c_inq c))) c) as [[o| |] c']; try discriminate.
  destruct o as [i|e|s|]; try discriminate.
  destruct i as [g|ps|m]; try discriminate.
  destruct (req_unwrap m); inversion E; reflexivity.
Qed.

Theorem req_recv_pending_keeps_owing : forall w w', w_type w = REQ -> step w ORecv = ([BRecvPending], w') ->
  w_cur w' = w_cur w /\ w_peers w' = w_peers w /\ w_rr w' = w_rr w.
Proof.
  intros w w' Ht H. unfold step in H. rewrite Ht in H.
  destruct (recv_req w) as [b w''] eqn:E. inversion H; subst. clear H.
  unfold recv_req in E. destruct (w_cur w) as [k|] eqn:Hc; [|discriminate].
  destruct (negb (memN k (w_peers w))); [discriminate|].
  destruct (get_conn k (w_conns w)) as [c|]; [|discriminate].
  destruct (poll_stream (S (length (c_inq c))) c) as [[o| |] c'].
  - destruct o as [i|e|s|]; try discriminate.
    destruct i as [g|ps|m]; try discriminate.
    destruct (req_unwrap m); discriminate.
  - inversion E; subst. cbn [w_cur w_peers w_rr upd_conn with_conns set_w]. auto.
  - discriminate.
Qed.

Lemma poll_stream_id : forall fuel c p c', poll_stream fuel c = (p, c') -> c_id c' = c_id c.
Proof.
  induction fuel as [|f IH]; intros c p c' H; cbn [poll_stream] in H.
  - inversion H; reflexivity.
  - destruct (decode (fuel_for (c_buf c)) (c_dec c) (c_buf c)) as [[r d] b].
    destruct r.
    + destruct (c_inq c) as [|chunk rest].
      * destruct (c_eof c); [destruct (is_nil b)|]; inversion H; reflexivity.
      * apply IH in H. exact H.
    + inversion H; reflexivity.
    + inversion H; reflexivity.
    + inversion H; reflexivity.
    + inversion H; reflexivity.
Qed.

Lemma drop_halves_others w k r wr j : j <> k -> get_conn j (w_conns (drop_halves w k r wr)) = get_conn j (w_conns w).
Proof.
  intros Hj. unfold drop_halves. destruct (get_conn k (w_conns w)) as [c|] eqn:E; [|reflexivity].
  unfold upd_conn, with_conns, set_w. cbn [w_conns]. apply get_conn_put_other.
  cbn [c_with_halves c_id]. apply get_conn_id in E. congruence.
Qed.

Lemma peer_disconnected_others w k j : j <> k ->
  get_conn j (w_conns (peer_disconnected w k)) = get_conn j (w_conns w).
Proof.
  intros Hj. unfold peer_disconnected.
  destruct (has_fq (w_type w)).
  - rewrite drop_halves_others by exact Hj. unfold fq_remove, with_fq, set_w. cbn [w_conns].
    rewrite drop_halves_others by exact Hj. reflexivity.
  - rewrite drop_halves_others by exact Hj. reflexivity.
Qed.

Theorem req_recv_reads_requestee_only : forall w k b w' j, w_type w = REQ -> w_cur w = Some k -> conns_ok w ->
  step w ORecv = ([b], w') -> j <> k -> get_conn j (w_conns w') = get_conn j (w_conns w).
Proof.
  intros w k b w' j Ht Hc Hok H Hj. unfold step in H. rewrite Ht in H.
  destruct (recv_req w) as [b' w''] eqn:E. inversion H; subst. clear H.
  unfold recv_req in E. rewrite Hc in E.
  destruct (negb (memN k (w_peers w))); [inversion E; reflexivity|].
  destruct (get_conn k (w_conns w)) as [c|] eqn:Eg; [|inversion E; reflexivity].
  destruct (poll_stream (S (length (c_inq c))) c) as [p c'] eqn:Ep.
  assert (Hid : c_id c' <> j).
  { apply poll_stream_id in Ep. apply Hok in Eg. congruence. }
  assert (Hput : get_conn j (put_conn c' (w_conns w)) = get_conn j (w_conns w))
    by (apply get_conn_put_other; exact Hid).
  assert (Hdis : forall w0, get_conn j (w_conns w0) = get_conn j (w_conns w) ->
                 get_conn j (w_conns (peer_disconnected w0 k)) = get_conn j (w_conns w)).
  { intros w0 H0. rewrite peer_disconnected_others by exact Hj. exact H0. }
  destruct p as [o| |].
  - destruct o as [i|e|s|]; try (inversion E; subst; first [reflexivity | exact Hput | apply Hdis; exact Hput]).
    destruct i as [g|ps|m]; try (inversion E; subst; exact Hput).
    destruct (req_unwrap m); inversion E; subst; exact Hput.
  - inversion E; subst. exact Hput.
  - inversion E; subst. apply Hdis. exact Hput.
Qed.

(* ---------------------------------------------------------------------- *)
(** * C09: ROUTER *)
(* ---------------------------------------------------------------------- *)
Theorem router_route_exact : forall w c m cn, w_type w = ROUTER -> conns_ok w -> memN c (w_peers w) = true ->
  get_conn c (w_conns w) = Some cn ->
  exists w', step w (OSendTo c m) = ([BSendOk], w') /\
    (exists cn', get_conn c (w_conns w') = Some cn' /\ c_wire cn' = c_wire cn ++ encode_frames m) /\
    (forall j, j <> c -> get_conn j (w_conns w') = get_conn j (w_conns w)) /\ w_peers w' = w_peers w.
Proof.
  intros w c m cn Ht Hok Hm Hg. exists (write_msg w c m). split; [|split; [|split]].
  - unfold step. rewrite Ht, Hm. reflexivity.
  - destruct (write_msg_appends w c m cn Hg (Hok _ _ Hg)) as (cn' & H1 & H2 & _). eauto.
  - intros j Hj. apply write_msg_others_unchanged. exact Hj.
  - apply write_msg_tables_unchanged.
Qed.

Theorem router_route_unknown : forall w c m, w_type w = ROUTER -> memN c (w_peers w) = false ->
  step w (OSendTo c m) = ([BSendErr EOther None], w).
Proof. intros w c m Ht Hm. unfold step. rewrite Ht, Hm. reflexivity. Qed.

Lemma find_all_false {A} (f : A -> bool) l : (forall x, In x l -> f x = false) -> find f l = None.
Proof.
  induction l as [|x t IH]; intros H; cbn [find]; [reflexivity|].
  rewrite (H x (or_introl eq_refl)). apply IH. intros y Hy. apply H. right. exact Hy.
Qed.

Theorem router_route_by_bytes_unknown : forall w id rest, w_type w = ROUTER -> rest <> [] ->
  (forall c, In c (w_conns w) -> c_ann c <> Some id \/ memN (c_id c) (w_peers w) = false) ->
  exists e, step w (OSend (id :: rest)) = ([BSendErr e None], w).
Proof.
  intros w id rest Ht Hr H. unfold step. rewrite Ht.
  rewrite (is_nil_false rest Hr).
  destruct (Gen.max_id <? lenN id); [eexists; reflexivity|].
  rewrite find_all_false; [eexists; reflexivity|].
  intros c Hin. destruct (H c Hin) as [Ha|Hm].
  - destruct (c_ann c) as [b|]; [|reflexivity].
    destruct (bytes_eqb b id) eqn:Eb; [|reflexivity].
    apply bytes_eqb_eq in Eb. congruence.
  - destruct (c_ann c); [|reflexivity]. rewrite Hm, andb_false_r. reflexivity.
Qed.

Theorem router_label_true_sender : forall n w k m w1, w_type w = ROUTER ->
  fq_next (S (length (w_heap w)) + length (w_conns w) + 2) w = (FItem k (OItem (IMessage m)), w1) ->
  recv_fq (S n) w =
    (match get_conn k (w_conns w1) with
     | Some c => match c_ann c with Some b => BRecv None (b :: m) | None => BRecv (Some k) m end
     | None => BRecv (Some k) m end, w1).
Proof.
  intros n w k m w1 Ht H. cbn [recv_fq]. rewrite H, Ht.
  destruct (get_conn k (w_conns w1)) as [c|]; [|reflexivity].
  destruct (c_ann c); reflexivity.
Qed.

(* ---------------------------------------------------------------------- *)
(** * C10: round robin *)
(* ---------------------------------------------------------------------- *)
Definition live (w : world) (k : N) : Prop := memN k (w_peers w) = true.

Theorem send_rr_no_live_peer : forall fuel w m, w_type w <> REQ -> (forall k, In k (w_rr w) -> memN k (w_peers w) = false) ->
  exists w', send_rr fuel w m = (BSendErr EReturnToSender (Some m), w') /\ w_conns w' = w_conns w /\ w_peers w' = w_peers w.
Proof.
  induction fuel as [|f IH]; intros w m Ht H; cbn [send_rr].
  - exists w. auto.
  - destruct (w_rr w) as [|k rest] eqn:Er; [exists w; auto|]. cbv zeta.
    change (w_peers (with_rr w rest)) with (w_peers w).
    rewrite (H k (or_introl eq_refl)).
    destruct (IH (with_rr w rest) m) as (w' & H1 & H2 & H3).
    + exact Ht.
    + intros k' Hk'. change (memN k' (w_peers w) = false). apply H. right. exact Hk'.
    + exists w'. auto.
Qed.

Theorem send_rr_head_live : forall fuel w m k rest, w_type w <> REQ -> w_rr w = k :: rest -> memN k (w_peers w) = true ->
  send_rr (S fuel) w m = (BSendOk, write_msg (with_rr (with_rr w rest) (rest ++ [k])) k m).
Proof.
  intros fuel w m k rest Ht Hr Hm. cbn [send_rr]. rewrite Hr. cbv zeta.
  change (w_peers (with_rr w rest)) with (w_peers w). rewrite Hm.
  change (w_rr (with_rr w rest)) with rest.
  destruct (w_type w); try reflexivity. congruence.
Qed.

Fixpoint sends (w : world) (ms : list msg) : list obs * world :=
  match ms with [] => ([], w) | m :: t => let '(b, w1) := send_rr (S (length (w_rr w))) w m in let '(bs, w2) := sends w1 t in (b :: bs, w2) end.

Lemma firstn_app_le {A} (n : nat) (l1 l2 : list A) : (n <= length l1)%nat -> firstn n (l1 ++ l2) = firstn n l1.
Proof.
  intros H. rewrite firstn_app. replace (n - length l1)%nat with 0%nat by ulia.
  cbn [firstn]. apply app_nil_r.
Qed.

Lemma skipn_app_le {A} (n : nat) (l1 l2 : list A) : (n <= length l1)%nat -> skipn n (l1 ++ l2) = skipn n l1 ++ l2.
Proof.
  intros H. rewrite skipn_app. replace (n - length l1)%nat with 0%nat by ulia. reflexivity.
Qed.

Lemma In_firstn {A} (x : A) n l : In x (firstn n l) -> In x l.
Proof. intros H. rewrite <- (firstn_skipn n l). apply in_or_app. left. exact H. Qed.

(** strict rotation, general form: the first [length ms] queue members are served in order and
    moved to the back, nobody else's connection is touched *)
Lemma sends_prefix : forall ms w, w_type w <> REQ -> NoDup (w_rr w) ->
  (forall k, In k (w_rr w) -> memN k (w_peers w) = true /\ exists c, get_conn k (w_conns w) = Some c) ->
  (length ms <= length (w_rr w))%nat ->
  exists w', sends w ms = (map (fun _ => BSendOk) ms, w') /\
    w_rr w' = skipn (length ms) (w_rr w) ++ firstn (length ms) (w_rr w) /\
    w_peers w' = w_peers w /\ w_type w' = w_type w /\
    (forall j, ~ In j (firstn (length ms) (w_rr w)) -> get_conn j (w_conns w') = get_conn j (w_conns w)) /\
    (forall i k m, nth_error (w_rr w) i = Some k -> nth_error ms i = Some m ->
       exists c c', get_conn k (w_conns w) = Some c /\ get_conn k (w_conns w') = Some c' /\
                    c_wire c' = c_wire c ++ encode_frames m).
Proof.
  induction ms as [|m t IH]; intros w Ht Hnd Hlive Hlen.
  - exists w. cbn [sends map length skipn firstn]. rewrite app_nil_r.
    repeat split; auto. intros i k m _ H. destruct i; discriminate.
  - destruct (w_rr w) as [|k rest] eqn:Er; [cbn [length] in Hlen; ulia|].
    cbn [length] in Hlen. assert (Hlt : (length t <= length rest)%nat) by ulia.
    destruct (Hlive k (or_introl eq_refl)) as [Hk [ck Hck]].
    set (w0 := with_rr (with_rr w rest) (rest ++ [k])).
    set (w1 := write_msg w0 k m).
    assert (Hs : send_rr (S (length (w_rr w))) w m = (BSendOk, w1))
      by (apply send_rr_head_live; assumption).
    destruct (write_msg_tables_unchanged w0 k m) as (Hp1 & Hr1 & _ & _ & Ht1 & _).
    fold w1 in Hp1, Hr1, Ht1.
    change (w_peers w0) with (w_peers w) in Hp1.
    change (w_rr w0) with (rest ++ [k]) in Hr1.
    change (w_type w0) with (w_type w) in Ht1.
    assert (Hoth : forall j, j <> k -> get_conn j (w_conns w1) = get_conn j (w_conns w)).
    { intros j Hj. unfold w1. rewrite write_msg_others_unchanged by assumption. reflexivity. }
    destruct (write_msg_appends w0 k m ck Hck (get_conn_id _ _ _ Hck)) as (ck1 & Hck1 & Hwire1 & _).
    fold w1 in Hck1.
    inversion Hnd as [|? ? Hnotin Hnd']; subst.
    destruct (IH w1) as (w' & Hsends & Hrr & Hpe & Hty & Hun & Hw).
    + rewrite Ht1. exact Ht.
    + rewrite Hr1. eapply Permutation_NoDup; [apply Permutation_cons_append|exact Hnd].
    + intros k' Hk'. rewrite Hr1 in Hk'. rewrite Hp1.
      assert (Hin : In k' (k :: rest)).
      { apply in_app_or in Hk'. destruct Hk' as [Hk'|[Hk'|[]]]; [right; exact Hk'|left; exact Hk']. }
      destruct (Hlive k' Hin) as [Hl Hc]. split; [exact Hl|].
      unfold w1. apply write_msg_has_conn. exact Hc.
    + rewrite Hr1, app_length. cbn [length]. ulia.
    + exists w'. cbn [sends]. rewrite Er in Hs. cbn [length] in Hs. rewrite Er. cbn [length].
      rewrite Hs, Hsends. cbn [map length skipn firstn].
      rewrite Hr1 in Hrr, Hun, Hw.
      rewrite skipn_app_le, firstn_app_le in Hrr by assumption.
      rewrite firstn_app_le in Hun by assumption.
      split; [reflexivity|]. split; [|split; [|split; [|split]]].
      * rewrite Hrr, <- app_assoc. reflexivity.
      * congruence.
      * congruence.
      * intros j Hj. assert (Hjk : j <> k) by (intros ->; apply Hj; left; reflexivity).
        rewrite Hun; [apply Hoth; exact Hjk|].
        intros Hin. apply Hj. right. exact Hin.
      * intros i k' m' Hi Hm'. destruct i as [|i]; cbn [nth_error] in Hi, Hm'.
        -- inversion Hi; inversion Hm'; subst k' m'.
           exists ck, ck1. split; [exact Hck|]. split; [|exact Hwire1].
           rewrite Hun; [exact Hck1|].
           intros Hin. apply Hnotin. eapply In_firstn. exact Hin.
        -- assert (Hk'in : In k' rest) by (eapply nth_error_In; exact Hi).
           assert (Hk'k : k' <> k) by (intros ->; contradiction).
           destruct (Hw i k' m') as (c & c' & Hc & Hc' & Hwire).
           { rewrite nth_error_app1; [exact Hi|]. apply nth_error_Some. congruence. }
           { exact Hm'. }
           exists c, c'. split; [|split; assumption].
           rewrite <- (Hoth k' Hk'k). exact Hc.
Qed.

Theorem rr_full_rotation : forall w ms, w_type w <> REQ -> conns_ok w -> NoDup (w_rr w) ->
  (forall k, In k (w_rr w) -> memN k (w_peers w) = true /\ exists c, get_conn k (w_conns w) = Some c) ->
  length ms = length (w_rr w) ->
  exists w', sends w ms = (map (fun _ => BSendOk) ms, w') /\ w_rr w' = w_rr w /\ w_peers w' = w_peers w /\
    (forall i k m, nth_error (w_rr w) i = Some k -> nth_error ms i = Some m ->
       exists c c', get_conn k (w_conns w) = Some c /\ get_conn k (w_conns w') = Some c' /\ c_wire c' = c_wire c ++ encode_frames m).
Proof.
  intros w ms Ht _ Hnd Hlive Hlen.
  destruct (sends_prefix ms w Ht Hnd Hlive) as (w' & Hs & Hrr & Hpe & _ & _ & Hw); [ulia|].
  exists w'. split; [exact Hs|]. split; [|split; [exact Hpe|exact Hw]].
  rewrite Hrr, Hlen, skipn_all, firstn_all. reflexivity.
Qed.

Lemma memN_snoc : forall c l, memN c (l ++ [c]) = true.
Proof.
  intros c l. unfold memN. rewrite existsb_app. cbn [existsb].
  rewrite N.eqb_refl, orb_true_r. reflexivity.
Qed.

Theorem late_joiner_at_tail : forall w c ann, w_type w = PUSH \/ w_type w = DEALER ->
  w_rr (do_attach w c ann) = w_rr w ++ [c] /\ memN c (w_peers (do_attach w c ann)) = true.
Proof.
  intros w c ann [H|H]; unfold do_attach; rewrite H; cbv zeta.
  - unfold drop_halves.
    match goal with |- context [match ?g with Some _ => _ | None => _ end] => destruct g end;
      (split; [reflexivity|]); cbn [w_peers upd_conn with_conns with_rr with_peers set_w]; apply memN_snoc.
  - cbn [has_fq]. unfold fq_insert.
    split; [reflexivity|]. cbn [w_peers with_fq with_conns with_rr with_peers set_w]. apply memN_snoc.
Qed.

Print Assumptions rep_split_exact.
Print Assumptions envelope_end_to_end.
Print Assumptions rep_reply_goes_to_requester.
Print Assumptions req_recv_reads_requestee_only.
Print Assumptions router_route_exact.
Print Assumptions rr_full_rotation.
