(** C11 + C13 + C01/C02 composed over the wire: the subscription messages a SUB socket writes for ANY
    history of subscribe / unsubscribe calls, arriving at a PUB socket in ANY chunking, make the PUB
    socket deliver a published message to that subscriber iff a CURRENT subscription of the SUB socket
    is a prefix of the message's first frame. *)
From Coq Require Import List Arith NArith Lia Bool.
From ZV Require Import Base.Bytes Base.Res Model.Codec Model.World Proofs.CodecEnc Proofs.Decoder Proofs.CodecRoundtrip
  Proofs.SocketProofs Proofs.PubSubProofs Proofs.LifecycleProofs.
Import ListNotations.
Open Scope N_scope.

(* added: the lemmas *)
From ZV Require Import Proofs.PubSubWireLemmas.

Definition sub_op (o : op) : Prop :=
  match o with OSub t | OUnsub t => bytes_ok t = true /\ lenN t + 1 < 2 ^ 64 | _ => False end.

Definition exec (w : world) (ops : list op) : world := fold_left (fun w o => snd (World.step w o)) ops w.

(** STATEMENT TO PROVE (do not change it) *)
Theorem pubsub_over_the_wire : forall k j h chunks c m,
  Forall sub_op h ->
  get_conn k (w_conns (exec (world0 SUB) (OAttach k None :: h))) = Some c ->
  concat chunks = c_wire c ->
  m <> [] ->
  World.run (exec (world0 PUB) (OAttach j None :: map (OFeed j) chunks ++ [OSettle])) [OSend m; OWire j] =
  [BSendOk; BWire j (if matches (w_subs (exec (world0 SUB) (OAttach k None :: h))) (hd [] m) then encode_frames m else [])].
Proof.
  intros k j h chunks c m Hh Hg Hc Hm.
  destruct (sub_side k h c Hh Hg) as (msgs & Hwire & Hwf & Hsubs).
  rewrite Hwire in Hc.
  destruct (pub_side j chunks msgs Hwf Hc) as (cj & Hw & Hid & Hs & Hwj).
  change (exec (world0 PUB) (OAttach j None :: map (OFeed j) chunks ++ [OSettle]))
    with (wexec (world0 PUB) (OAttach j None :: map (OFeed j) chunks ++ [OSettle])).
  rewrite Hw, (pub_publish j cj m Hid Hwj Hm), Hs.
  change (wexec (world0 SUB) (OAttach k None :: h)) with (exec (world0 SUB) (OAttach k None :: h)) in Hsubs.
  rewrite Hsubs. reflexivity.
Qed.

(** non-vacuity *)
Definition ps_h := [OSub [65]; OSub [65;66]; OUnsub [65]; OSub []; OUnsub [7]; OSub [65;66]].
Definition ps_wire := match get_conn 3 (w_conns (exec (world0 SUB) (OAttach 3 None :: ps_h))) with Some c => c_wire c | None => [] end.
Example ps_sample :
  w_subs (exec (world0 SUB) (OAttach 3 None :: ps_h)) = [[65;66]; []] /\
  World.run (exec (world0 PUB) (OAttach 8 None :: map (OFeed 8) [firstn 2 ps_wire; []; skipn 2 ps_wire] ++ [OSettle])) [OSend [[65;66;67];[1]]; OWire 8]
  = [BSendOk; BWire 8 (encode_frames [[65;66;67];[1]])].
Proof. vm_compute. split; reflexivity. Qed.

Print Assumptions pubsub_over_the_wire.
