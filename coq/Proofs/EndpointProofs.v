(** Laws of endpoint parsing / printing (Model/Endpoint.v). *)
From ZV Require Import Base.Bytes Model.Endpoint.
From Coq Require Import ZifyN ZifyNat ZifyBool.

Local Arguments N.add : simpl never.
Local Arguments N.mul : simpl never.
Local Arguments N.sub : simpl never.
Local Arguments N.div : simpl never.
Local Arguments N.modulo : simpl never.
Local Arguments N.leb : simpl never.
Local Arguments N.ltb : simpl never.
Local Arguments N.eqb : simpl never.

(* ------------------------------------------------------------------ *)
(** * Generic list helpers *)

Lemma forallb_impl {A} (P Q : A -> bool) l :
  (forall x, P x = true -> Q x = true) -> forallb P l = true -> forallb Q l = true.
Proof.
  intros HPQ H. apply forallb_forall. intros x Hx.
  apply HPQ. eapply forallb_forall in H; eauto.
Qed.

Fixpoint nrange (k : nat) (start : N) : list N :=
  match k with
  | O => []
  | S k' => start :: nrange k' (N.succ start)
  end.

Lemma in_nrange k : forall start n, start <= n < start + N.of_nat k -> In n (nrange k start).
Proof.
  induction k as [|k IH]; intros start n H; cbn [nrange]; [lia|].
  destruct (N.eq_dec start n) as [->|Hne]; [left; reflexivity|].
  right. apply IH. lia.
Qed.

Lemma sweep (P : N -> bool) (k : nat) :
  forallb P (nrange k 0) = true -> forall n, n < N.of_nat k -> P n = true.
Proof.
  intros H n Hn. eapply forallb_forall in H; [exact H|]. apply in_nrange. lia.
Qed.

Lemma str_eqb_eq a : forall b, str_eqb a b = true -> a = b.
Proof.
  induction a as [|x a IH]; intros [|y b]; cbn [str_eqb]; intros H; try discriminate; [reflexivity|].
  apply andb_true_iff in H as [H1 H2]. apply N.eqb_eq in H1. subst. f_equal. auto.
Qed.

Lemma span_app p s : forall a b, span p s = (a, b) -> s = a ++ b.
Proof.
  induction s as [|c t IH]; intros a b; cbn [span].
  - intros [= <- <-]. reflexivity.
  - destruct (p c).
    + destruct (span p t) as [a1 b1]. intros [= <- <-]. cbn [app]. f_equal. auto.
    + intros [= <- <-]. reflexivity.
Qed.

(* ------------------------------------------------------------------ *)
(** * Decimal printing *)

Lemma adigit_mod n : is_adigit (48 + n mod 10) = true.
Proof. unfold is_adigit. pose proof (N.mod_upper_bound n 10). lia. Qed.

Lemma dec_str_fuel_digits f : forall n acc,
  forallb is_adigit acc = true -> forallb is_adigit (dec_str_fuel f n acc) = true.
Proof.
  induction f as [|f IH]; intros n acc H; cbn [dec_str_fuel]; [exact H|].
  assert (H' : forallb is_adigit ((48 + n mod 10) :: acc) = true).
  { cbn [forallb]. rewrite adigit_mod, H. reflexivity. }
  destruct (n / 10 =? 0); [exact H'|]. apply IH. exact H'.
Qed.

Lemma dec_str_fuel_nonnil f : forall n acc, acc <> [] -> dec_str_fuel f n acc <> [].
Proof.
  induction f as [|f IH]; intros n acc H; cbn [dec_str_fuel]; [exact H|].
  destruct (n / 10 =? 0); [discriminate|]. apply IH. discriminate.
Qed.

Lemma dec_str_digits : forall n, dec_str n <> [] /\ forallb is_adigit (dec_str n) = true.
Proof.
  intros n. split.
  - unfold dec_str. change 20%nat with (S 19). generalize 19%nat. intros f.
    cbn [dec_str_fuel].
    destruct (n / 10 =? 0); [discriminate|]. apply dec_str_fuel_nonnil. discriminate.
  - unfold dec_str. apply dec_str_fuel_digits. reflexivity.
Qed.

Lemma dec_sweep :
  forallb (fun n => dec_val (dec_str n) =? n) (nrange (N.to_nat 65536) 0) = true.
Proof. vm_compute. reflexivity. Qed.

Lemma dec_val_dec_str : forall n, n <= 65535 -> dec_val (dec_str n) = n.
Proof.
  intros n Hn. apply N.eqb_eq.
  apply (sweep (fun n => dec_val (dec_str n) =? n) _ dec_sweep). lia.
Qed.

Lemma octet_sweep :
  forallb (fun n => match octet (dec_str n) with Some v => v =? n | None => false end)
          (nrange 256 0) = true.
Proof. vm_compute. reflexivity. Qed.

Lemma octet_dec_str a : a <= 255 -> octet (dec_str a) = Some a.
Proof.
  intros Ha.
  pose proof (sweep _ _ octet_sweep a ltac:(lia)) as H. cbv beta in H.
  destruct (octet (dec_str a)) as [v|]; [|discriminate].
  apply N.eqb_eq in H. subst. reflexivity.
Qed.

(* ------------------------------------------------------------------ *)
(** * split_last *)

Lemma split_last_none c b :
  forallb (fun x => negb (x =? c)) b = true -> split_last c b = None.
Proof.
  induction b as [|x b IH]; cbn [forallb split_last]; intros H; [reflexivity|].
  apply andb_true_iff in H as [H1 H2]. rewrite (IH H2).
  destruct (x =? c); [discriminate H1|reflexivity].
Qed.

Lemma split_last_none_inv c s :
  split_last c s = None -> forallb (fun x => negb (x =? c)) s = true.
Proof.
  induction s as [|x s IH]; cbn [forallb split_last]; intros H; [reflexivity|].
  destruct (split_last c s) as [[a1 b1]|]; [discriminate|].
  destruct (x =? c); [discriminate|]. cbn [negb andb]. auto.
Qed.

Lemma split_last_app : forall c a b,
  forallb (fun x => negb (x =? c)) b = true -> split_last c (a ++ c :: b) = Some (a, b).
Proof.
  intros c a b H. induction a as [|x a IH]; cbn [app split_last].
  - rewrite (split_last_none _ _ H), N.eqb_refl. reflexivity.
  - rewrite IH. reflexivity.
Qed.

Lemma split_last_sound : forall c s a b,
  split_last c s = Some (a, b) ->
  s = a ++ c :: b /\ forallb (fun x => negb (x =? c)) b = true.
Proof.
  intros c s. induction s as [|x s IH]; intros a b; cbn [split_last]; [discriminate|].
  destruct (split_last c s) as [[a1 b1]|] eqn:E.
  - intros [= <- <-]. destruct (IH _ _ eq_refl) as [-> Hb]. split; [reflexivity|exact Hb].
  - destruct (x =? c) eqn:Ec; [|discriminate]. intros [= <- <-].
    apply N.eqb_eq in Ec. subst. split; [reflexivity|]. apply split_last_none_inv. exact E.
Qed.

(* ------------------------------------------------------------------ *)
(** * split_on, octet, parse4 *)

Lemma split_on_nonnil c s : split_on c s <> [].
Proof.
  induction s as [|x s IH]; cbn [split_on]; [discriminate|].
  destruct (split_on c s); [discriminate|]. destruct (x =? c); discriminate.
Qed.

Lemma split_on_forallb (P : N -> bool) c s :
  forallb (forallb P) (split_on c s) = true ->
  forallb (fun x => P x || (x =? c)) s = true.
Proof.
  induction s as [|x s IH]; cbn [split_on forallb]; [reflexivity|].
  destruct (split_on c s) as [|cur rest] eqn:E.
  - exfalso. exact (split_on_nonnil c s E).
  - destruct (x =? c) eqn:Ec; cbn [forallb]; intros H.
    + rewrite orb_true_r. cbn [andb]. apply IH. exact H.
    + apply andb_true_iff in H as [H1 H2]. apply andb_true_iff in H1 as [H0 H1].
      rewrite H0. cbn [orb andb]. apply IH. cbn [forallb]. rewrite H1, H2. reflexivity.
Qed.

Lemma split_on_nodot c a :
  forallb (fun x => negb (x =? c)) a = true -> split_on c a = [a].
Proof.
  induction a as [|x a IH]; cbn [forallb split_on]; intros H; [reflexivity|].
  apply andb_true_iff in H as [H1 H2]. rewrite (IH H2).
  destruct (x =? c); [discriminate H1|reflexivity].
Qed.

Lemma split_on_app c a rest :
  forallb (fun x => negb (x =? c)) a = true ->
  split_on c (a ++ [c] ++ rest) = a :: split_on c rest.
Proof.
  induction a as [|x a IH]; cbn [forallb app split_on]; intros H.
  - destruct (split_on c rest) as [|cur r] eqn:E.
    + exfalso. exact (split_on_nonnil c rest E).
    + rewrite N.eqb_refl. reflexivity.
  - apply andb_true_iff in H as [H1 H2]. cbn [app] in IH. rewrite (IH H2).
    destruct (x =? c); [discriminate H1|reflexivity].
Qed.

Lemma octet_some s v : octet s = Some v -> forallb is_adigit s = true /\ v <= 255.
Proof.
  destruct s as [|c t]; [discriminate|]. unfold octet.
  destruct (forallb is_adigit (c :: t)); cbn [negb orb]; [|discriminate].
  destruct (3 <? lenN (c :: t)); [discriminate|].
  destruct ((c =? 48) && _); [discriminate|].
  destruct (dec_val (c :: t) <=? 255) eqn:E; [|discriminate].
  intros [= <-]. split; [reflexivity|]. apply N.leb_le. exact E.
Qed.

Lemma parse4_inv s ip : parse4 s = Some ip ->
  exists ga gb gc gd a b c d,
    split_on ch_dot s = [ga; gb; gc; gd] /\
    octet ga = Some a /\ octet gb = Some b /\ octet gc = Some c /\ octet gd = Some d /\
    ip = HIp4 a b c d.
Proof.
  unfold parse4.
  destruct (split_on ch_dot s) as [|ga [|gb [|gc [|gd [|? ?]]]]]; try discriminate.
  destruct (octet ga) as [a|] eqn:Ea; destruct (octet gb) as [b|] eqn:Eb;
    destruct (octet gc) as [c|] eqn:Ec; destruct (octet gd) as [d|] eqn:Ed; try discriminate.
  intros [= <-]. exists ga, gb, gc, gd, a, b, c, d. repeat split; assumption.
Qed.

Lemma parse4_bounds s a b c d : parse4 s = Some (HIp4 a b c d) ->
  a <= 255 /\ b <= 255 /\ c <= 255 /\ d <= 255.
Proof.
  intros H. apply parse4_inv in H.
  destruct H as (ga & gb & gc & gd & a' & b' & c' & d' & _ & Ha & Hb & Hc & Hd & E).
  injection E as -> -> -> ->.
  apply octet_some in Ha, Hb, Hc, Hd. tauto.
Qed.

Lemma parse4_is_ip4 s ip : parse4 s = Some ip -> exists a b c d, ip = HIp4 a b c d.
Proof.
  intros H. apply parse4_inv in H.
  destruct H as (ga & gb & gc & gd & a' & b' & c' & d' & _ & _ & _ & _ & _ & E).
  eauto.
Qed.

Lemma parse4_chars s ip : parse4 s = Some ip ->
  forallb (fun x => is_adigit x || (x =? ch_dot)) s = true.
Proof.
  intros H. apply parse4_inv in H.
  destruct H as (ga & gb & gc & gd & a' & b' & c' & d' & Es & Ha & Hb & Hc & Hd & _).
  apply octet_some in Ha, Hb, Hc, Hd.
  apply split_on_forallb. rewrite Es. cbn [forallb].
  destruct Ha as [-> _], Hb as [-> _], Hc as [-> _], Hd as [-> _]. reflexivity.
Qed.

Lemma parse4_no_colon s ip : parse4 s = Some ip -> ~ In ch_colon s.
Proof.
  intros H Hin. apply parse4_chars in H.
  eapply forallb_forall in H; [|exact Hin]. vm_compute in H. discriminate.
Qed.

Lemma parse4_nil : parse4 [] = None.
Proof. reflexivity. Qed.

Lemma parse4_lbr_none t : parse4 (ch_lbr :: t) = None.
Proof.
  destruct (parse4 (ch_lbr :: t)) eqn:E; [|reflexivity].
  apply parse4_chars in E. cbn [forallb] in E.
  apply andb_true_iff in E as [E _]. vm_compute in E. discriminate.
Qed.

Lemma dec_str_nodot a : forallb (fun x => negb (x =? ch_dot)) (dec_str a) = true.
Proof.
  eapply forallb_impl; [|apply dec_str_digits].
  intros x. unfold is_adigit, ch_dot. lia.
Qed.

Lemma parse4_fmt a b c d : a <= 255 -> b <= 255 -> c <= 255 -> d <= 255 ->
  parse4 (dec_str a ++ [ch_dot] ++ dec_str b ++ [ch_dot] ++ dec_str c ++ [ch_dot] ++ dec_str d)
  = Some (HIp4 a b c d).
Proof.
  intros Ha Hb Hc Hd. unfold parse4.
  rewrite !split_on_app by apply dec_str_nodot.
  rewrite split_on_nodot by apply dec_str_nodot.
  rewrite !octet_dec_str by assumption. reflexivity.
Qed.

(* ------------------------------------------------------------------ *)
(** * utf8_len *)

Lemma utf8_len1_pos c : 1 <= utf8_len1 c.
Proof.
  unfold utf8_len1. destruct (c <? 128), (c <? 2048), (c <? 65536); lia.
Qed.

Lemma utf8_len_cons c s : utf8_len (c :: s) = utf8_len1 c + utf8_len s.
Proof. reflexivity. Qed.

Lemma utf8_len_ge s : N.of_nat (length s) <= utf8_len s.
Proof.
  induction s as [|c s IH]; [cbn; lia|].
  rewrite utf8_len_cons. cbn [length]. pose proof (utf8_len1_pos c). lia.
Qed.

Theorem bracket_guard_safe : forall c0 t, let s := c0 :: t in
  (c0 =? ch_lbr) && (4 <=? utf8_len s) && (last s 0 =? ch_rbr) = true ->
  utf8_len1 c0 = 1 /\ utf8_len1 (last s 0) = 1 /\ (2 <= length s)%nat.
Proof.
  intros c0 t s H.
  apply andb_true_iff in H as [H H3]. apply andb_true_iff in H as [H1 H2].
  apply N.eqb_eq in H1, H3. apply N.leb_le in H2.
  split; [rewrite H1; reflexivity|]. split; [rewrite H3; reflexivity|].
  subst s. destruct t as [|c1 t]; [|cbn [length]; lia].
  exfalso. rewrite H1 in H2. vm_compute in H2. apply H2. reflexivity.
Qed.

(* ------------------------------------------------------------------ *)
(** * no_nl *)

Lemma no_nl_app a b : no_nl (a ++ b) = no_nl a && no_nl b.
Proof. unfold no_nl. apply forallb_app. Qed.

Lemma digits_no_nl p : forallb is_adigit p = true -> no_nl p = true.
Proof.
  unfold no_nl. apply forallb_impl. intros x. unfold is_adigit, ch_nl. lia.
Qed.

Lemma digits_no_colon p :
  forallb is_adigit p = true -> forallb (fun x => negb (x =? ch_colon)) p = true.
Proof.
  apply forallb_impl. intros x. unfold is_adigit, ch_colon. lia.
Qed.

Section Laws.
  Variable parse6 : str -> option (list N).
  Variable fmt6 : list N -> str.
  Definition is_ip6_char (c : N) : bool :=
    is_adigit c || ((97 <=? c) && (c <=? 102)) || ((65 <=? c) && (c <=? 70))
    || (c =? ch_colon) || (c =? ch_dot).
  (* what is assumed of the standard library's IPv6 text form *)
  Hypothesis H6_chars : forall s g, parse6 s = Some g ->
    forallb is_ip6_char s = true /\ In ch_colon s /\ (2 <= length s)%nat.
  Hypothesis H6_fmt_parses : forall s g, parse6 s = Some g -> parse6 (fmt6 g) = Some g.

  (* --- unfolding lemmas --- *)

  Lemma parse_host_cons c0 t :
    parse_host parse6 (c0 :: t) =
    match parse4 (c0 :: t) with
    | Some h => Some h
    | None =>
      match parse6 (if (c0 =? ch_lbr) && (4 <=? utf8_len (c0 :: t)) && (last (c0 :: t) 0 =? ch_rbr)
                    then removelast t else c0 :: t) with
      | Some g => Some (HIp6 g)
      | None => Some (HDomain (c0 :: t))
      end
    end.
  Proof using. reflexivity. Qed.

  Lemma parse_endpoint_tcp addr :
    parse_endpoint parse6 ([116; 99; 112; 58; 47; 47] ++ addr) =
    if match addr with [] => true | _ => false end || negb (no_nl addr) then None else
    match split_last ch_colon addr with
    | Some (h :: ht, p :: pt) =>
      if negb (forallb is_adigit (p :: pt)) then None else
      let v := dec_val (p :: pt) in
      if 65535 <? v then None else
      match parse_host parse6 (h :: ht) with
      | Some hst => Some (ETcp hst v)
      | None => None
      end
    | _ => None
    end.
  Proof using. reflexivity. Qed.

  Lemma parse_endpoint_ipc addr :
    parse_endpoint parse6 ([105; 112; 99; 58; 47; 47] ++ addr) =
    if match addr with [] => true | _ => false end || negb (no_nl addr) then None
    else Some (EIpc addr).
  Proof using. reflexivity. Qed.

  (* --- the accepted language, declaratively --- *)
  Inductive Accepts : str -> endpoint -> Prop :=
  | Acc_tcp : forall h p hst,
      h <> [] -> p <> [] -> forallb is_adigit p = true -> dec_val p <= 65535 ->
      no_nl h = true -> parse_host parse6 h = Some hst ->
      Accepts ([116; 99; 112; 58; 47; 47] ++ h ++ [ch_colon] ++ p) (ETcp hst (dec_val p))
  | Acc_ipc : forall path, path <> [] -> no_nl path = true ->
      Accepts ([105; 112; 99; 58; 47; 47] ++ path) (EIpc path).

  Lemma accepts_parse s e : Accepts s e -> parse_endpoint parse6 s = Some e.
  Proof using.
    clear H6_chars H6_fmt_parses fmt6.
    intros [h p hst Hh Hp Hd Hv Hnl Hhost | path Hp Hnl].
    - rewrite parse_endpoint_tcp.
      assert (Hnl' : no_nl (h ++ [ch_colon] ++ p) = true).
      { rewrite !no_nl_app, Hnl, (digits_no_nl _ Hd). reflexivity. }
      rewrite Hnl'.
      change ([ch_colon] ++ p) with (ch_colon :: p).
      rewrite (split_last_app ch_colon h p (digits_no_colon _ Hd)).
      destruct h as [|h0 ht]; [contradiction|]. destruct p as [|p0 pt]; [contradiction|].
      cbn [app orb negb]. rewrite Hd. cbn [negb]. cbv zeta.
      destruct (65535 <? dec_val (p0 :: pt)) eqn:E; [lia|].
      rewrite Hhost. reflexivity.
    - rewrite parse_endpoint_ipc. rewrite Hnl.
      destruct path; [contradiction|]. reflexivity.
  Qed.

  Lemma parse_accepts s e : parse_endpoint parse6 s = Some e -> Accepts s e.
  Proof using.
    clear H6_chars H6_fmt_parses fmt6.
    unfold parse_endpoint.
    destruct (span is_lower s) as [scheme rest] eqn:Es.
    apply span_app in Es. subst s.
    destruct scheme as [|s0 scheme]; [discriminate|].
    destruct rest as [|c1 [|c2 [|c3 addr]]]; try discriminate.
    destruct ((c1 =? ch_colon) && (c2 =? ch_slash) && (c3 =? ch_slash)) eqn:Ec;
      cbn [negb]; [|discriminate].
    apply andb_true_iff in Ec as [Ec E3]. apply andb_true_iff in Ec as [E1 E2].
    apply N.eqb_eq in E1, E2, E3. subst c1 c2 c3.
    destruct addr as [|x addr]; cbn [orb]; [discriminate|].
    destruct (no_nl (x :: addr)) eqn:Enl; cbn [negb]; [|discriminate].
    destruct (str_eqb (s0 :: scheme) [116; 99; 112]) eqn:Et.
    - apply str_eqb_eq in Et. rewrite Et.
      destruct (split_last ch_colon (x :: addr)) as [[[|h ht] [|p pt]]|] eqn:Esp; try discriminate.
      destruct (forallb is_adigit (p :: pt)) eqn:Ed; cbn [negb]; [|discriminate].
      cbv zeta. destruct (65535 <? dec_val (p :: pt)) eqn:Ev; [discriminate|].
      destruct (parse_host parse6 (h :: ht)) as [hst|] eqn:Eh; [|discriminate].
      intros [= <-].
      apply split_last_sound in Esp as [Esp _]. rewrite Esp in *.
      rewrite no_nl_app in Enl. apply andb_true_iff in Enl as [Enl _].
      apply (Acc_tcp (h :: ht) (p :: pt) hst); try assumption; try discriminate. lia.
    - destruct (str_eqb (s0 :: scheme) [105; 112; 99]) eqn:Ei; [|discriminate].
      apply str_eqb_eq in Ei. rewrite Ei. intros [= <-].
      apply (Acc_ipc (x :: addr)); [discriminate|assumption].
  Qed.

  Theorem parse_iff_accepts : forall s e, parse_endpoint parse6 s = Some e <-> Accepts s e.
  Proof using. intros s e. split; [apply parse_accepts|apply accepts_parse]. Qed.

  (* --- literals --- *)

  Theorem ipv4_literal_is_address : forall h ip,
    parse4 h = Some ip -> parse_host parse6 h = Some ip.
  Proof using.
    intros [|c0 t] ip H; [rewrite parse4_nil in H; discriminate|].
    rewrite parse_host_cons, H. reflexivity.
  Qed.

  Lemma parse4_ip6_none s g : parse6 s = Some g -> parse4 s = None.
  Proof using H6_chars.
    intros H. destruct (parse4 s) eqn:E; [|reflexivity]. exfalso.
    apply H6_chars in H as (_ & Hc & _). exact (parse4_no_colon _ _ E Hc).
  Qed.

  Theorem ipv6_literal_bare : forall h g,
    parse6 h = Some g -> parse_host parse6 h = Some (HIp6 g).
  Proof using H6_chars.
    clear H6_fmt_parses fmt6.
    intros h g H. pose proof (H6_chars _ _ H) as (Hc & _ & Hl).
    destruct h as [|c0 t]; [cbn in Hl; lia|].
    rewrite parse_host_cons, (parse4_ip6_none _ _ H).
    destruct (c0 =? ch_lbr) eqn:E.
    - apply N.eqb_eq in E. subst c0. cbn [forallb] in Hc.
      apply andb_true_iff in Hc as [Hc _]. vm_compute in Hc. discriminate.
    - cbn [andb]. rewrite H. reflexivity.
  Qed.

  Theorem ipv6_literal_bracketed : forall h g,
    parse6 h = Some g -> parse_host parse6 ([ch_lbr] ++ h ++ [ch_rbr]) = Some (HIp6 g).
  Proof using H6_chars.
    clear H6_fmt_parses fmt6.
    intros h g H. pose proof (H6_chars _ _ H) as (_ & _ & Hl).
    change ([ch_lbr] ++ h ++ [ch_rbr]) with (ch_lbr :: h ++ [ch_rbr]).
    rewrite parse_host_cons, parse4_lbr_none, N.eqb_refl.
    change (ch_lbr :: h ++ [ch_rbr]) with ((ch_lbr :: h) ++ [ch_rbr]).
    rewrite last_last, N.eqb_refl, removelast_last.
    assert (Hu : 4 <=? utf8_len ((ch_lbr :: h) ++ [ch_rbr]) = true).
    { apply N.leb_le. pose proof (utf8_len_ge ((ch_lbr :: h) ++ [ch_rbr])) as Hg.
      rewrite app_length in Hg. cbn [length] in Hg. lia. }
    rewrite Hu. cbn [andb]. rewrite H. reflexivity.
  Qed.

  Theorem host_never_fails : forall h, h <> [] -> exists hst, parse_host parse6 h = Some hst.
  Proof using.
    intros [|c0 t] Hh; [contradiction|]. rewrite parse_host_cons.
    destruct (parse4 (c0 :: t)); [eauto|].
    destruct (parse6 _); eauto.
  Qed.

  (* --- round trip --- *)

  Lemma ip6_char_no_nl s : forallb is_ip6_char s = true -> no_nl s = true.
  Proof using.
    clear H6_chars H6_fmt_parses fmt6 parse6.
    unfold no_nl. apply forallb_impl. intros x.
    unfold is_ip6_char, is_adigit, ch_colon, ch_dot, ch_nl. lia.
  Qed.

  Definition host_text (hst : host) : str :=
    match hst with
    | HIp6 _ => [ch_lbr] ++ fmt_host fmt6 hst ++ [ch_rbr]
    | _ => fmt_host fmt6 hst
    end.

  Lemma host_text_ok h hst :
    h <> [] -> no_nl h = true -> parse_host parse6 h = Some hst ->
    host_text hst <> [] /\ no_nl (host_text hst) = true /\
    parse_host parse6 (host_text hst) = Some hst.
  Proof using H6_chars H6_fmt_parses.
    intros Hh Hnl Hp. destruct h as [|c0 t]; [contradiction|].
    rewrite parse_host_cons in Hp.
    destruct (parse4 (c0 :: t)) as [ip|] eqn:E4.
    - (* IPv4 literal *)
      injection Hp as <-.
      destruct (parse4_is_ip4 _ _ E4) as (a & b & c & d & ->).
      destruct (parse4_bounds _ _ _ _ _ E4) as (Ha & Hb & Hc & Hd).
      unfold host_text, fmt_host.
      pose proof (parse4_fmt a b c d Ha Hb Hc Hd) as Hf.
      split; [|split].
      + intros Hnil. rewrite Hnil in Hf. rewrite parse4_nil in Hf. discriminate.
      + unfold no_nl. eapply forallb_impl; [|exact (parse4_chars _ _ Hf)].
        intros x. unfold is_adigit, ch_dot, ch_nl. lia.
      + apply ipv4_literal_is_address. exact Hf.
    - match type of Hp with match parse6 ?i with _ => _ end = _ =>
        destruct (parse6 i) as [g|] eqn:E6 end.
      + (* IPv6 literal *)
        injection Hp as <-.
        pose proof (H6_fmt_parses _ _ E6) as Hf.
        pose proof (H6_chars _ _ Hf) as (Hc & _ & _).
        unfold host_text, fmt_host. split; [discriminate|]. split.
        * rewrite !no_nl_app, (ip6_char_no_nl _ Hc). reflexivity.
        * apply ipv6_literal_bracketed. exact Hf.
      + (* domain name *)
        injection Hp as <-. unfold host_text, fmt_host.
        split; [discriminate|]. split; [exact Hnl|].
        rewrite parse_host_cons, E4, E6. reflexivity.
  Qed.

  Theorem roundtrip : forall s e,
    parse_endpoint parse6 s = Some e -> parse_endpoint parse6 (fmt_endpoint fmt6 e) = Some e.
  Proof using H6_chars H6_fmt_parses.
    intros s e H. apply parse_iff_accepts in H.
    destruct H as [h p hst Hh Hp Hd Hv Hnl Hhost | path Hp Hnl].
    - destruct (host_text_ok _ _ Hh Hnl Hhost) as (T1 & T2 & T3).
      destruct (dec_str_digits (dec_val p)) as [D1 D2].
      pose proof (Acc_tcp (host_text hst) (dec_str (dec_val p)) hst T1 D1 D2) as A.
      rewrite (dec_val_dec_str _ Hv) in A.
      apply parse_iff_accepts. exact (A Hv T2 T3).
    - apply parse_iff_accepts. exact (Acc_ipc path Hp Hnl).
  Qed.
End Laws.

Print Assumptions parse_iff_accepts.
Print Assumptions roundtrip.
Print Assumptions ipv6_literal_bracketed.
Print Assumptions ipv4_literal_is_address.
Print Assumptions bracket_guard_safe.
