(** Lemmas about big-endian fields and list slicing. *)
From ZV Require Import Base.Bytes.
From Coq Require Import ZArith ZifyN ZifyNat ZifyBool.
Ltac Zify.zify_post_hook ::= Z.div_mod_to_equations.

Lemma lenN_app {A} (a b : list A) : lenN (a ++ b) = lenN a + lenN b.
Proof. unfold lenN. rewrite app_length. lia. Qed.

Lemma lenN_nil {A} : lenN (@nil A) = 0.
Proof. reflexivity. Qed.

Lemma lenN_cons {A} (x : A) l : lenN (x :: l) = 1 + lenN l.
Proof. unfold lenN. cbn [length]. lia. Qed.

Lemma firstnN_app_exact {A} (a b : list A) : firstnN (lenN a) (a ++ b) = a.
Proof.
  unfold firstnN, lenN. rewrite Nnat.Nat2N.id.
  rewrite firstn_app, Nat.sub_diag, firstn_all. cbn. apply app_nil_r.
Qed.

Lemma skipnN_app_exact {A} (a b : list A) : skipnN (lenN a) (a ++ b) = b.
Proof.
  unfold skipnN, lenN. rewrite Nnat.Nat2N.id.
  rewrite skipn_app, Nat.sub_diag, skipn_all. reflexivity.
Qed.

Lemma firstn_app_exact {A} (a b : list A) n : n = length a -> firstn n (a ++ b) = a.
Proof. intros ->. rewrite firstn_app, Nat.sub_diag, firstn_all. cbn. apply app_nil_r. Qed.

Lemma skipn_app_exact {A} (a b : list A) n : n = length a -> skipn n (a ++ b) = b.
Proof. intros ->. rewrite skipn_app, Nat.sub_diag, skipn_all. reflexivity. Qed.

Lemma be_length w n : length (be w n) = w.
Proof. revert n; induction w as [|w IH]; intros n; cbn [be]; [reflexivity|]. rewrite app_length, IH. cbn. lia. Qed.

Lemma lenN_be w n : lenN (be w n) = N.of_nat w.
Proof. unfold lenN. rewrite be_length. reflexivity. Qed.

Lemma of_be_acc_app acc a b : of_be_acc acc (a ++ b) = of_be_acc (of_be_acc acc a) b.
Proof. revert acc; induction a as [|x a IH]; intros acc; cbn; [reflexivity|apply IH]. Qed.

Lemma of_be_snoc l b : of_be (l ++ [b]) = of_be l * 256 + b.
Proof. unfold of_be. rewrite of_be_acc_app. reflexivity. Qed.

Lemma of_be_be w n : n < 256 ^ N.of_nat w -> of_be (be w n) = n.
Proof.
  revert n; induction w as [|w IH]; intros n H.
  - cbn in *. unfold of_be. cbn. lia.
  - cbn [be]. rewrite of_be_snoc. rewrite IH.
    + pose proof (N.div_mod n 256). lia.
    + rewrite Nnat.Nat2N.inj_succ, N.pow_succ_r' in H.
      apply N.div_lt_upper_bound; lia.
Qed.

Lemma be_bytes_ok w n : bytes_ok (be w n) = true.
Proof.
  revert n; induction w as [|w IH]; intros n; cbn [be]; [reflexivity|].
  unfold bytes_ok in *. rewrite forallb_app, IH. cbn. unfold byte_ok.
  pose proof (N.mod_lt n 256). destruct (N.ltb_spec (n mod 256) 256); [reflexivity|lia].
Qed.

Lemma be_1 n : n < 256 -> be 1 n = [n].
Proof. intros H. cbn. rewrite N.mod_small by lia. reflexivity. Qed.

Lemma bytes_eqb_refl a : bytes_eqb a a = true.
Proof. induction a as [|x a IH]; cbn; [reflexivity|]. rewrite N.eqb_refl, IH. reflexivity. Qed.

Lemma bytes_eqb_eq a b : bytes_eqb a b = true <-> a = b.
Proof.
  split; [|intros ->; apply bytes_eqb_refl].
  revert b; induction a as [|x a IH]; intros [|y b]; cbn; intros H; try discriminate; [reflexivity|].
  apply andb_true_iff in H as [H1 H2]. apply N.eqb_eq in H1. f_equal; auto.
Qed.

Lemma lenN_lt_length {A} (l : list A) (n : N) : (lenN l <? n) = false -> (N.to_nat n <= length l)%nat.
Proof. unfold lenN. intros H. destruct (N.ltb_spec (N.of_nat (length l)) n); [discriminate|lia]. Qed.
