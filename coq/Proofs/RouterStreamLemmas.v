(** Lemmas for Proofs/RouterStream.v: one [World.step w ORecv] of a ROUTER behaves like a finite,
    non-empty sequence of fair-queue level [WNext] events; the outer fuel of [recv_fq] is never exhausted
    (measure: registered streams + bytes the connections still hold). *)
From Coq Require Import List Arith NArith Lia Bool.
From ZV Require Import Base.Bytes Base.Res Model.Codec Model.World Proofs.Decoder
  Proofs.WorldStreamDefs Proofs.WorldStreamLemmas Proofs.WorldStream Proofs.WorldWireLemmas.
Import ListNotations.
Open Scope N_scope.

Ltac wp := cbn [w_conns w_heap w_streams w_reg w_type w_counter w_peers with_fq with_peers set_w upd_conn
                with_conns fq_remove].

(** * Part 1: sizes *)
Definition sumb (l : list conn) : nat := fold_right (fun c a => (conn_bytes c + a)%nat) 0%nat l.
Definition mu_w (w : world) : nat := (length (w_streams w) + sumb (w_conns w))%nat.

Lemma put_conn_spec : forall l c' c, get_conn (c_id c') l = Some c ->
  length (put_conn c' l) = length l /\ (sumb (put_conn c' l) + conn_bytes c = sumb l + conn_bytes c')%nat.
Proof.
  induction l as [|x l IH]; intros c' c H; cbn [get_conn] in H; [discriminate|].
  cbn [put_conn]. destruct (c_id x =? c_id c') eqn:E.
  - injection H as <-. unfold sumb. cbn [length fold_right]. split; [reflexivity|lia].
  - destruct (IH c' c H) as [L S]. unfold sumb in *. cbn [length fold_right]. split; [lia|lia].
Qed.

Lemma delN_length_le k l : (length (delN k l) <= length l)%nat.
Proof.
  unfold delN. induction l as [|x l IH]; cbn [filter length]; [lia|].
  destruct (negb (x =? k)); cbn [length]; lia.
Qed.

Lemma delN_length_lt k l : memN k l = true -> (length (delN k l) < length l)%nat.
Proof.
  unfold memN, delN. induction l as [|x l IH]; cbn [existsb filter length]; [discriminate|].
  intros H. rewrite (N.eqb_sym k x) in H.
  destruct (x =? k); cbn [negb orb length] in *.
  - pose proof (delN_length_le k l) as L. unfold delN in L. lia.
  - specialize (IH H). lia.
Qed.

Lemma memN_delN_sub k0 k l : memN k0 (delN k l) = true -> memN k0 l = true.
Proof.
  intros H. destruct (N.eq_dec k0 k) as [->|Hne].
  - rewrite memN_delN_same in H. discriminate.
  - rewrite memN_delN_other in H by exact Hne. exact H.
Qed.

(** * Part 2: what a step may do to the tables *)
Definition shape (w w' : world) : Prop :=
  length (w_conns w') = length (w_conns w) /\
  (length (w_streams w') <= length (w_streams w))%nat /\
  (forall k, memN k (w_streams w') = true -> memN k (w_streams w) = true) /\
  (anns_none (w_conns w) -> anns_none (w_conns w')).

Definition shrinks (w w' : world) : Prop :=
  shape w w' /\ (sumb (w_conns w') <= sumb (w_conns w))%nat.

Lemma shape_refl w : shape w w.
Proof. split; [reflexivity|split; [lia|split; auto]]. Qed.

Lemma shape_trans a b c : shape a b -> shape b c -> shape a c.
Proof.
  intros (L1 & S1 & M1 & A1) (L2 & S2 & M2 & A2).
  split; [congruence|split; [lia|split; auto]].
Qed.

Lemma shrinks_refl w : shrinks w w.
Proof. split; [apply shape_refl|lia]. Qed.

Lemma shrinks_trans a b c : shrinks a b -> shrinks b c -> shrinks a c.
Proof. intros [H1 B1] [H2 B2]. split; [eapply shape_trans; eauto|lia]. Qed.

Lemma shape_ext w w1 w' : w_conns w = w_conns w1 -> w_streams w = w_streams w1 -> shape w1 w' -> shape w w'.
Proof. intros E1 E2. unfold shape. rewrite E1, E2. trivial. Qed.

Lemma shape_upd w w2 c c' :
  get_conn (c_id c') (w_conns w) = Some c -> c_ann c' = c_ann c ->
  w_conns w2 = put_conn c' (w_conns w) ->
  (length (w_streams w2) <= length (w_streams w))%nat ->
  (forall k, memN k (w_streams w2) = true -> memN k (w_streams w) = true) ->
  shape w w2.
Proof.
  intros Hg Han Hc Hl Hs. destruct (put_conn_spec _ _ _ Hg) as [PL _].
  split; [rewrite Hc; exact PL|]. split; [exact Hl|]. split; [exact Hs|].
  intros Ha. rewrite Hc. apply anns_put; [|exact Ha]. rewrite Han. exact (anns_get _ _ _ Ha Hg).
Qed.

Lemma shrinks_upd w w2 c c' :
  get_conn (c_id c') (w_conns w) = Some c -> c_ann c' = c_ann c ->
  (conn_bytes c' <= conn_bytes c)%nat ->
  w_conns w2 = put_conn c' (w_conns w) ->
  (length (w_streams w2) <= length (w_streams w))%nat ->
  (forall k, memN k (w_streams w2) = true -> memN k (w_streams w) = true) ->
  shrinks w w2.
Proof.
  intros Hg Han Hb Hc Hl Hs. split; [eapply shape_upd; eauto|].
  destruct (put_conn_spec _ _ _ Hg) as [_ PS]. rewrite Hc. lia.
Qed.

Lemma shrinks_same w w' : w_conns w' = w_conns w -> w_streams w' = w_streams w -> shrinks w w'.
Proof.
  intros E1 E2. unfold shrinks, shape. rewrite E1, E2.
  split; [split; [reflexivity|split; [lia|split; auto]]|lia].
Qed.

Lemma shrinks_del w w' k : w_conns w' = w_conns w -> w_streams w' = delN k (w_streams w) -> shrinks w w'.
Proof.
  intros E1 E2. unfold shrinks, shape. rewrite E1, E2.
  split; [split; [reflexivity|split; [apply delN_length_le|split; [|auto]]]|lia].
  intros k0. apply memN_delN_sub.
Qed.

(** * Part 3: one poll never adds bytes, and an item consumes at least one *)
Lemma poll_bytes : forall fuel c p c', poll_stream fuel c = (p, c') ->
  (conn_bytes c' <= conn_bytes c)%nat /\
  (1 <= waiting (c_dec c) -> forall i, p = PItem (OItem i) -> (conn_bytes c' < conn_bytes c)%nat).
Proof.
  induction fuel as [|f IH]; intros c p c' H.
  - cbn [poll_stream] in H. apply pair_equal_spec in H as [<- <-]. split; [lia|]. intros _ i E. discriminate.
  - rewrite poll_S in H. destruct c as [id ann inq eof d b wire subs rd wr].
    cbn [c_id c_ann c_inq c_eof c_dec c_buf c_wire c_subs c_rd c_wr] in *.
    destruct (dec1 d b) as [[r d1] b1] eqn:E. unfold dec1 in E.
    pose proof (decode_shrink _ _ _ _ _ _ E) as L.
    destruct r as [|i|e|s|].
    + destruct inq as [|ch rest].
      * cbv zeta in H. destruct eof; [destruct (is_nil b1)|]; apply pair_equal_spec in H as [<- <-];
          unfold conn_bytes; cbn [c_inq c_buf concat length]; (split; [lia|intros _ i0 E0; discriminate]).
      * apply IH in H. destruct H as [H1 H2]. pose proof (decode_none_quiet _ _ _ _ _ E) as Q.
        unfold conn_bytes in *. cbn [c_inq c_buf c_dec concat] in *. unfold bytes in *.
        rewrite !app_length in *. split; [lia|].
        intros _ i0 E0. assert (1 <= waiting d1) as W1 by lia. specialize (H2 W1 i0 E0). lia.
    + apply pair_equal_spec in H as [<- <-]. unfold conn_bytes. cbn [c_inq c_buf c_dec].
      split; [lia|]. intros W i0 _. pose proof (decode_item_strict _ _ _ _ _ _ W E). lia.
    + apply pair_equal_spec in H as [<- <-]. unfold conn_bytes. cbn [c_inq c_buf c_dec].
      split; [lia|]. intros _ i0 E0. discriminate.
    + apply pair_equal_spec in H as [<- <-]. split; [lia|]. intros _ i0 E0. discriminate.
    + apply pair_equal_spec in H as [<- <-]. split; [lia|]. intros _ i0 E0. discriminate.
Qed.

(** * Part 4: one [fq_next] *)
Definition allok (w : world) : Prop :=
  forall k c, memN k (w_streams w) = true -> get_conn k (w_conns w) = Some c -> okc c.

Definition fq_post (w : world) (r : fq_res) (w' : world) : Prop :=
  shrinks w w' /\
  match r with
  | FItem k o => memN k (w_streams w') = true /\
      match o with
      | OItem _ => (sumb (w_conns w') < sumb (w_conns w))%nat
      | OErr _ => True
      | _ => False
      end
  | FPending => True
  end.

Lemma fq_post_ext w w1 r w' : w_conns w = w_conns w1 -> w_streams w = w_streams w1 ->
  fq_post w1 r w' -> fq_post w r w'.
Proof. intros E1 E2. unfold fq_post, shrinks, shape. rewrite E1, E2. trivial. Qed.

Lemma fq_post_trans w w2 r w' : shrinks w w2 -> fq_post w2 r w' -> fq_post w r w'.
Proof.
  intros S1 [S2 P]. split; [eapply shrinks_trans; eauto|].
  destruct r as [k o|]; [|exact I]. destruct P as [Hm P]. split; [exact Hm|].
  destruct o as [i|e|s|]; try exact P. destruct S1 as [_ B1]. lia.
Qed.

Lemma fq_next_measure : forall fuel w r w', allok w -> fq_next fuel w = (r, w') -> fq_post w r w'.
Proof.
  induction fuel as [|f IH]; intros w r w' Hok H.
  - cbn [fq_next] in H. apply pair_equal_spec in H as [<- <-]. split; [apply shrinks_refl|exact I].
  - rewrite fq_next_S in H. destruct (w_heap w) as [|[p k] h'] eqn:Hh.
    + apply pair_equal_spec in H as [<- <-]. split; [apply shrinks_refl|exact I].
    + cbv zeta in H.
      remember (with_fq w h' (w_counter w) (w_streams w) (w_reg w)) as w1 eqn:Hw1.
      assert (w_conns w = w_conns w1) as A1 by (subst w1; reflexivity).
      assert (w_streams w = w_streams w1) as A2 by (subst w1; reflexivity).
      apply (fq_post_ext w w1 r w' A1 A2).
      assert (allok w1) as Hok1 by (unfold allok; rewrite <- A1, <- A2; exact Hok).
      clear Hw1 A1 A2 Hok Hh.
      destruct (memN k (w_streams w1)) eqn:Hm; cbn [negb] in H.
      2:{ exact (IH _ _ _ Hok1 H). }
      destruct (get_conn k (w_conns w1)) as [c|] eqn:Hg.
      2:{ exact (IH _ _ _ Hok1 H). }
      pose proof (get_conn_id _ _ _ Hg) as Hid.
      pose proof (Hok1 k c Hm Hg) as Hc.
      destruct (poll_stream (S (length (c_inq c))) c) as [pl c'] eqn:HP.
      pose proof (poll_bytes _ _ _ _ HP) as [B1 B2].
      pose proof (poll_ann _ _ _ _ HP) as Han.
      assert (length (c_inq c) < S (length (c_inq c)))%nat as Hfu by lia.
      pose proof (poll_spec _ _ _ _ Hc Hfu HP) as (Hid' & _ & HPost).
      rewrite Hid in Hid'.
      assert (get_conn (c_id c') (w_conns w1) = Some c) as Hg' by (rewrite Hid'; exact Hg).
      destruct pl as [o| |].
      * (* an item is handed out *)
        apply pair_equal_spec in H as [<- <-]. split.
        -- apply (shrinks_upd _ _ c c'); wp; auto.
        -- wp. split; [exact Hm|]. unfold poll_post in HPost.
           destruct o as [i|e|s|]; [|exact I|exact HPost|exact HPost].
           destruct (put_conn_spec _ _ _ Hg') as [_ PS].
           specialize (B2 (proj2 Hc) i eq_refl). lia.
      * (* parked *)
        destruct HPost as (Hok' & _ & _).
        apply IH in H.
        -- eapply fq_post_trans; [|exact H]. apply (shrinks_upd _ _ c c'); wp; auto.
        -- intros k0 c0. wp. rewrite get_put_conn.
           destruct (N.eqb_spec (c_id c') k0) as [_|Hne].
           ++ intros _ E. injection E as <-. exact Hok'.
           ++ apply Hok1.
      * (* ended: dropped by the queue *)
        apply IH in H.
        -- eapply fq_post_trans; [|exact H].
           apply (shrinks_upd _ _ c (c_with_halves c' false (c_wr c'))); wp; auto.
           ++ apply delN_length_le.
           ++ intros k0. apply memN_delN_sub.
        -- intros k0 c0. wp. intros Hm0.
           destruct (N.eq_dec k0 k) as [->|Hne]; [rewrite memN_delN_same in Hm0; discriminate|].
           rewrite memN_delN_other in Hm0 by exact Hne.
           rewrite get_put_other by (cbn [c_with_halves c_id]; congruence).
           apply Hok1. exact Hm0.
Qed.

(** * Part 5: disconnecting a peer *)
Lemma drop_halves_shrinks w k r wr : shrinks w (drop_halves w k r wr).
Proof.
  unfold drop_halves. destruct (get_conn k (w_conns w)) as [c|] eqn:Hg; [|apply shrinks_refl].
  pose proof (get_conn_id _ _ _ Hg) as Hid.
  apply (shrinks_upd _ _ c (c_with_halves c (c_rd c && negb r) (c_wr c && negb wr))); wp; auto.
  cbn [c_with_halves c_id]. rewrite Hid. exact Hg.
Qed.

Lemma pd_shrinks w k : has_fq (w_type w) = true -> shrinks w (peer_disconnected w k).
Proof.
  intros Ht. unfold peer_disconnected. rewrite Ht.
  set (wa := with_peers w (delN k (w_peers w))).
  set (b1 := match w_type w with REQ => true | _ => false end).
  eapply shrinks_trans; [apply (shrinks_same w wa); reflexivity|].
  eapply shrinks_trans; [apply (drop_halves_shrinks wa k b1 true)|].
  eapply shrinks_trans; [|apply drop_halves_shrinks].
  apply (shrinks_del _ _ k); reflexivity.
Qed.

(** * Part 6: facts about every reachable state *)
Definition Rinv (cs : list N) (w : world) : Prop :=
  anns_none (w_conns w) /\ (length (w_streams w) <= length (w_conns w))%nat /\
  (forall k, memN k (w_streams w) = true -> In k cs).

Lemma Rinv_shape cs w w' : Rinv cs w -> shape w w' -> Rinv cs w'.
Proof.
  intros (A & L & K) (L1 & S1 & M1 & A1).
  split; [auto|]. split; [lia|]. intros k Hk. apply K, M1, Hk.
Qed.

Lemma shape_feed w k b : shape w (do_feed w k b).
Proof.
  unfold do_feed. destruct (get_conn k (w_conns w)) as [cn|] eqn:Hg; [|apply shape_refl].
  destruct (is_nil b || c_eof cn); [apply shape_refl|].
  pose proof (get_conn_id _ _ _ Hg) as Hid.
  destruct (fq_wake_spec (upd_conn w (c_with_in cn (c_inq cn ++ [b]) (c_eof cn))) k) as (Hc & Hs & _).
  apply (shape_upd _ _ cn (c_with_in cn (c_inq cn ++ [b]) (c_eof cn))).
  - cbn [c_with_in c_id]. rewrite Hid. exact Hg.
  - reflexivity.
  - rewrite Hc. reflexivity.
  - rewrite Hs. wp. lia.
  - rewrite Hs. wp. auto.
Qed.

Lemma shape_eof w k : shape w (do_eof w k).
Proof.
  unfold do_eof. destruct (get_conn k (w_conns w)) as [cn|] eqn:Hg; [|apply shape_refl].
  pose proof (get_conn_id _ _ _ Hg) as Hid.
  destruct (fq_wake_spec (upd_conn w (c_with_in cn (c_inq cn) true)) k) as (Hc & Hs & _).
  apply (shape_upd _ _ cn (c_with_in cn (c_inq cn) true)).
  - cbn [c_with_in c_id]. rewrite Hid. exact Hg.
  - reflexivity.
  - rewrite Hc. reflexivity.
  - rewrite Hs. wp. lia.
  - rewrite Hs. wp. auto.
Qed.

Lemma allok_of t cs es rs w : Ginv t cs es rs w -> Rinv cs w -> allok w.
Proof.
  intros [_ K] (_ & _ & Hin) k c Hm Hg.
  destruct (K k (Hin k Hm)) as [(c0 & Hg0 & Hok & _)|[Hm' _]].
  - rewrite Hg in Hg0. injection Hg0 as <-. exact Hok.
  - rewrite Hm in Hm'. discriminate.
Qed.

Lemma wstep_Rinv cs w e r w' :
  has_fq (w_type w) = true -> allok w -> Rinv cs w -> wstep w e = (r, w') -> Rinv cs w'.
Proof.
  intros Ht Hok RI H. destruct e as [k b|k|]; cbn [wstep] in H.
  - apply pair_equal_spec in H as [_ <-]. exact (Rinv_shape _ _ _ RI (shape_feed w k b)).
  - apply pair_equal_spec in H as [_ <-]. exact (Rinv_shape _ _ _ RI (shape_eof w k)).
  - destruct (fq_next (next_fuel w) w) as [fr wa] eqn:HN.
    pose proof (fq_next_measure _ _ _ _ Hok HN) as [[Hsh _] _].
    pose proof (fq_next_type _ _ _ _ HN) as Ty.
    pose proof (Rinv_shape _ _ _ RI Hsh) as RI1.
    assert (forall k, Rinv cs (peer_disconnected wa k)) as RI2.
    { intros k. apply (Rinv_shape _ _ _ RI1). apply pd_shrinks. rewrite Ty. exact Ht. }
    destruct fr as [k [i|e|s|]|]; cbv beta iota in H; apply pair_equal_spec in H as [_ <-];
      first [exact RI1|apply RI2].
Qed.

Lemma map_put_conn : forall l c,
  map c_id (put_conn c l) = if memN (c_id c) (map c_id l) then map c_id l else map c_id l ++ [c_id c].
Proof.
  induction l as [|x l IH]; intros c; cbn [put_conn map]; [reflexivity|].
  unfold memN in *. cbn [existsb]. rewrite (N.eqb_sym (c_id c) (c_id x)).
  destruct (N.eqb_spec (c_id x) (c_id c)) as [E|E]; cbn [orb map].
  - rewrite E. reflexivity.
  - rewrite IH. destruct (existsb _ _); reflexivity.
Qed.

Lemma attached_shape t : has_fq t = true -> forall cs,
  map c_id (w_conns (attached t cs)) = w_streams (attached t cs) /\
  anns_none (w_conns (attached t cs)) /\
  (forall k, memN k (w_streams (attached t cs)) = true -> In k cs).
Proof.
  intros Ht. induction cs as [|c cs IH] using rev_ind.
  - unfold attached. cbn [fold_left world0 w_conns w_streams map].
    split; [reflexivity|split; [constructor|]]. intros k H. discriminate.
  - destruct IH as (M1 & A1 & K1). destruct (attached_inv t Ht cs) as (T1 & S1 & _).
    unfold attached in *. rewrite fold_left_app. cbn [fold_left].
    set (w := fold_left (fun w c => do_attach w c None) cs (world0 t)) in *.
    assert (has_fq (w_type w) = true) as Ht' by (rewrite T1; exact Ht).
    destruct (do_attach_spec w c Ht' S1) as (_ & _ & C2 & _ & M2 & _).
    rewrite C2, M2. split; [|split].
    + rewrite map_put_conn. cbn [new_conn c_id]. rewrite M1. reflexivity.
    + apply anns_put; [reflexivity|exact A1].
    + intros k Hk. apply in_or_app. destruct (memN c (w_streams w)) eqn:E.
      * left. apply K1. exact Hk.
      * rewrite memN_snoc in Hk. apply orb_true_iff in Hk as [Hk|Hk].
        -- left. apply K1. exact Hk.
        -- right. left. apply N.eqb_eq in Hk. symmetry. exact Hk.
Qed.

Lemma attached_Rinv t cs : has_fq t = true -> Rinv cs (attached t cs).
Proof.
  intros Ht. destruct (attached_shape t Ht cs) as (M & A & K).
  split; [exact A|]. split; [|exact K]. rewrite <- M, map_length. lia.
Qed.

Lemma wrun_Rinv cs : forall es rs w, wrun (attached ROUTER cs) es = (rs, w) -> Rinv cs w.
Proof.
  induction es as [|e es IH] using rev_ind; intros rs w H.
  - cbn [wrun] in H. apply pair_equal_spec in H as [_ <-]. apply attached_Rinv. reflexivity.
  - rewrite wrun_snoc in H. destruct (wrun (attached ROUTER cs) es) as [rs0 wa] eqn:HR.
    destruct (wstep wa e) as [r wb] eqn:HS. apply pair_equal_spec in H as [_ <-].
    pose proof (IH _ _ eq_refl) as RI.
    pose proof (run_inv ROUTER cs eq_refl es rs0 wa HR) as GI.
    apply (wstep_Rinv cs wa e r wb); [rewrite (proj1 GI); reflexivity| |exact RI|exact HS].
    exact (allok_of _ _ _ _ _ GI RI).
Qed.

(** * Part 7: one recv = some skipped items, then a message or nothing *)
(** results of [WNext] events that recv does not return to the caller *)
Definition quiet (r : option (N * out)) : Prop :=
  match r with Some (_, OItem (IMessage _)) => False | _ => True end.

Lemma recv_fq_sim cs : forall f es rs w,
  wrun (attached ROUTER cs) es = (rs, w) -> (mu_w w < f)%nat ->
  exists n pre lastr b w',
    recv_fq f w = (b, w') /\
    wrun (attached ROUTER cs) ((es ++ repeat WNext n) ++ [WNext]) = ((rs ++ pre) ++ [lastr], w') /\
    Forall quiet pre /\
    ((b = BRecvPending /\ lastr = None) \/
     (exists k m, b = BRecv (Some k) m /\ lastr = Some (k, OItem (IMessage m)) /\ In k cs)).
Proof.
  induction f as [|f IH]; intros es rs w HR Hmu; [lia|].
  pose proof (run_inv ROUTER cs eq_refl es rs w HR) as GI.
  pose proof (wrun_Rinv cs es rs w HR) as RI.
  pose proof (allok_of _ _ _ _ _ GI RI) as Hok.
  destruct GI as [Ty _].
  rewrite recv_fq_S.
  assert (wrun (attached ROUTER cs) (es ++ [WNext]) = let '(r, w2) := wstep w WNext in (rs ++ [r], w2)) as HR1
    by (rewrite wrun_snoc, HR; reflexivity).
  cbn [wstep] in HR1.
  destruct (fq_next (next_fuel w) w) as [fr w1] eqn:HN.
  pose proof (fq_next_measure _ _ _ _ Hok HN) as [Hsh Hpost].
  pose proof (fq_next_type _ _ _ _ HN) as Ty1.
  destruct Hsh as [(SL & SS & SM & SA) SB].
  destruct RI as (RA & RL & RK).
  unfold mu_w in *.
  destruct fr as [k [i|e|s|]|]; cbv beta iota zeta in HR1.
  - destruct Hpost as [Hm Hlt].
    assert (In k cs) as Hk by (apply RK, SM, Hm).
    destruct i as [g|ps|m]; cbv beta iota zeta.
    + assert (length (w_streams w1) + sumb (w_conns w1) < f)%nat as Hmu1 by lia.
      destruct (IH _ _ _ HR1 Hmu1) as (n & pre & lastr & b & w' & E1 & E2 & E3 & E4).
      exists (S n), (Some (k, OItem (IGreeting g)) :: pre), lastr, b, w'.
      split; [exact E1|]. split; [|split; [constructor; [exact I|exact E3]|exact E4]].
      cbn [repeat]. rewrite <- !app_assoc in E2. rewrite <- !app_assoc. cbn [app] in *. exact E2.
    + assert (length (w_streams w1) + sumb (w_conns w1) < f)%nat as Hmu1 by lia.
      destruct (IH _ _ _ HR1 Hmu1) as (n & pre & lastr & b & w' & E1 & E2 & E3 & E4).
      exists (S n), (Some (k, OItem (ICommand ps)) :: pre), lastr, b, w'.
      split; [exact E1|]. split; [|split; [constructor; [exact I|exact E3]|exact E4]].
      cbn [repeat]. rewrite <- !app_assoc in E2. rewrite <- !app_assoc. cbn [app] in *. exact E2.
    + rewrite Ty.
      assert (match get_conn k (w_conns w1) with
              | Some c => match c_ann c with
                          | Some b => (BRecv None (b :: m), w1)
                          | None => (BRecv (Some k) m, w1)
                          end
              | None => (BRecv (Some k) m, w1)
              end = (BRecv (Some k) m, w1)) as E.
      { destruct (get_conn k (w_conns w1)) as [c|] eqn:Hg; [|reflexivity].
        rewrite (anns_get _ _ _ (SA RA) Hg). reflexivity. }
      exists 0%nat, [], (Some (k, OItem (IMessage m))), (BRecv (Some k) m), w1.
      cbn [repeat]. rewrite !app_nil_r. split; [exact E|]. split; [exact HR1|]. split; [constructor|].
      right. exists k, m. split; [reflexivity|split; [reflexivity|exact Hk]].
  - destruct Hpost as [Hm _]. rewrite Ty. cbv beta iota zeta.
    assert (has_fq (w_type w1) = true) as Ht1 by (rewrite Ty1, Ty; reflexivity).
    destruct (pd_shrinks w1 k Ht1) as [_ PB].
    destruct (pd_spec w1 k Ht1) as (PS & _).
    pose proof (delN_length_lt k _ Hm) as PL.
    assert (length (w_streams (peer_disconnected w1 k)) + sumb (w_conns (peer_disconnected w1 k)) < f)%nat as Hmu1
      by (rewrite PS; lia).
    destruct (IH _ _ _ HR1 Hmu1) as (n & pre & lastr & b & w' & E1 & E2 & E3 & E4).
    exists (S n), (Some (k, OErr e) :: pre), lastr, b, w'.
    split; [exact E1|]. split; [|split; [constructor; [exact I|exact E3]|exact E4]].
    cbn [repeat]. rewrite <- !app_assoc in E2. rewrite <- !app_assoc. cbn [app] in *. exact E2.
  - destruct Hpost as [_ []].
  - destruct Hpost as [_ []].
  - exists 0%nat, [], None, BRecvPending, w1.
    cbn [repeat]. rewrite !app_nil_r. split; [reflexivity|]. split; [exact HR1|]. split; [constructor|].
    left. split; reflexivity.
Qed.

(** the API-level step: the outer fuel given by [World.step] is always enough *)
Lemma step_recv_sim cs es rs w :
  wrun (attached ROUTER cs) es = (rs, w) ->
  exists n pre lastr b w',
    World.step w ORecv = ([b], w') /\
    wrun (attached ROUTER cs) ((es ++ repeat WNext n) ++ [WNext]) = ((rs ++ pre) ++ [lastr], w') /\
    Forall quiet pre /\
    ((b = BRecvPending /\ lastr = None) \/
     (exists k m, b = BRecv (Some k) m /\ lastr = Some (k, OItem (IMessage m)) /\ In k cs)).
Proof.
  intros HR.
  pose proof (run_inv ROUTER cs eq_refl es rs w HR) as [Ty _].
  pose proof (wrun_Rinv cs es rs w HR) as (_ & RL & _).
  rewrite step_recv_unfold by (rewrite Ty; right; right; reflexivity).
  fold (sumb (w_conns w)).
  assert (mu_w w < S (length (w_conns w) + sumb (w_conns w)))%nat as Hmu by (unfold mu_w; lia).
  destruct (recv_fq_sim cs _ es rs w HR Hmu) as (n & pre & lastr & b & w' & E1 & E2 & E3 & E4).
  exists n, pre, lastr, b, w'. rewrite E1. split; [reflexivity|]. split; [exact E2|]. split; [exact E3|exact E4].
Qed.

(** * Part 8: runs of operations *)
Fixpoint wfinal (w : world) (ops : list op) : world :=
  match ops with [] => w | o :: t => wfinal (snd (World.step w o)) t end.

Lemma run_app : forall a b w, World.run w (a ++ b) = World.run w a ++ World.run (wfinal w a) b.
Proof.
  induction a as [|x a IH]; intros b w; cbn [app World.run wfinal]; [reflexivity|].
  destruct (World.step w x) as [bs w1]. cbn [snd]. rewrite IH, app_assoc. reflexivity.
Qed.

Lemma wfinal_app : forall a b w, wfinal w (a ++ b) = wfinal (wfinal w a) b.
Proof. induction a as [|x a IH]; intros b w; cbn [app wfinal]; [reflexivity|apply IH]. Qed.

Lemma nexts_irrelevant k : forall n es,
  chunks_of k (es ++ repeat WNext n) = chunks_of k es /\ closed_of k (es ++ repeat WNext n) = closed_of k es.
Proof.
  induction n as [|n IH]; intros es; cbn [repeat].
  - rewrite app_nil_r. split; reflexivity.
  - change (es ++ WNext :: repeat WNext n) with (es ++ [WNext] ++ repeat WNext n).
    rewrite app_assoc. destruct (IH (es ++ [WNext])) as [-> ->].
    rewrite chunks_of_snoc, closed_of_snoc. cbn [chunks_of closed_of].
    rewrite app_nil_r, orb_false_r. destruct (closed_of k es); split; reflexivity.
Qed.
