(** Proofs about PUB / XPUB subscription bookkeeping and filtering, and the SUB socket's
    subscription announcements (Model/World.v against Spec/PrefixMultiset.v). *)
From Coq Require Import List NArith Lia Bool Arith.
From ZV Require Import Base.Bytes Base.Res Spec.PrefixMultiset Model.Codec Model.World Proofs.BytesProofs Proofs.SocketProofs.
Import ListNotations.
Open Scope N_scope.

Arguments N.eqb : simpl never.

Definition bytes_dec : forall a b : bytes, {a = b} + {a <> b} := list_eq_dec N.eq_dec.

(* ---------------------------------------------------------------------- *)
(** * Helpers *)
(* ---------------------------------------------------------------------- *)
Lemma bytes_eqb_spec : forall a b, reflect (a = b) (bytes_eqb a b).
Proof.
  intros a b. destruct (bytes_eqb a b) eqn:E; constructor.
  - apply bytes_eqb_eq. exact E.
  - intros H. apply bytes_eqb_eq in H. congruence.
Qed.

Lemma count_occ_snoc : forall l x t,
  count_occ bytes_dec (l ++ [x]) t =
  if bytes_eqb x t then S (count_occ bytes_dec l t) else count_occ bytes_dec l t.
Proof.
  induction l as [|y l IH]; intros x t; cbn [app count_occ].
  - destruct (bytes_dec x t), (bytes_eqb_spec x t); first [reflexivity | contradiction].
  - rewrite IH. destruct (bytes_dec y t); destruct (bytes_eqb x t); reflexivity.
Qed.

Lemma count_occ_remove_first : forall l x t,
  count_occ bytes_dec (remove_first x l) t =
  if bytes_eqb x t then Nat.pred (count_occ bytes_dec l t) else count_occ bytes_dec l t.
Proof.
  induction l as [|y l IH]; intros x t; cbn [remove_first].
  - cbn [count_occ]. destruct (bytes_eqb x t); reflexivity.
  - destruct (bytes_eqb_spec y x) as [Eyx|Nyx].
    + subst y. cbn [count_occ].
      destruct (bytes_dec x t), (bytes_eqb_spec x t); first [reflexivity | contradiction].
    + cbn [count_occ]. rewrite IH.
      destruct (bytes_dec y t) as [Eyt|Nyt]; destruct (bytes_eqb_spec x t) as [Ext|Nxt];
        first [reflexivity | congruence].
Qed.

(** one processed message moves the list's count exactly as the reference counter moves *)
Lemma on_sub_msg_count : forall subs m t,
  count_occ bytes_dec (on_sub_msg subs m) t = count_step t (count_occ bytes_dec subs t) m.
Proof.
  intros subs m t. unfold on_sub_msg, count_step, classify.
  change Gen.pub_op_sub with 1. change Gen.pub_op_unsub with 0.
  destruct m as [|f r]; [reflexivity|].
  destruct f as [|b t']; destruct r as [|g r]; try reflexivity.
  destruct (b =? 1).
  - apply count_occ_snoc.
  - destruct (b =? 0); [apply count_occ_remove_first|reflexivity].
Qed.

Lemma fold_refines : forall h subs t,
  count_occ bytes_dec (fold_left on_sub_msg h subs) t =
  fold_left (count_step t) h (count_occ bytes_dec subs t).
Proof.
  induction h as [|m h IH]; intros subs t; cbn [fold_left]; [reflexivity|].
  rewrite IH, on_sub_msg_count. reflexivity.
Qed.

(* ---------------------------------------------------------------------- *)
(** * Subscription list against the reference multiset *)
(* ---------------------------------------------------------------------- *)

(* the implementation's list of subscriptions refines the reference multiset *)
Theorem list_refines_multiset : forall h t,
  count_occ bytes_dec (fold_left on_sub_msg h []) t = count h t.
Proof. intros h t. unfold count. apply (fold_refines h [] t). Qed.

Theorem is_prefix_spec : forall p l, is_prefix p l = true <-> exists r, l = p ++ r.
Proof.
  induction p as [|x p IH]; intros l; cbn [is_prefix].
  - split; [intros _; exists l; reflexivity|intros _; reflexivity].
  - destruct l as [|y l].
    + split; [discriminate|intros [r H]; discriminate].
    + rewrite andb_true_iff, N.eqb_eq, IH. split.
      * intros [-> [r ->]]. exists r. reflexivity.
      * intros [r H]. inversion H; subst. split; [reflexivity|exists r; reflexivity].
Qed.

Theorem matches_spec : forall subs first,
  matches subs first = true <-> exists t r, In t subs /\ first = t ++ r.
Proof.
  intros subs first. unfold matches. rewrite existsb_exists. split.
  - intros [t [Hin Hp]]. apply is_prefix_spec in Hp. destruct Hp as [r ->].
    exists t, r. split; [exact Hin|reflexivity].
  - intros (t & r & Hin & ->). exists t. split; [exact Hin|].
    apply is_prefix_spec. exists r. reflexivity.
Qed.

(* delivered iff some active subscription is a prefix of the first frame *)
Theorem deliver_iff : forall h first,
  matches (fold_left on_sub_msg h []) first = true <-> should_deliver h first.
Proof.
  intros h first. rewrite matches_spec. unfold should_deliver, active.
  split; intros (t & r & H & ->); exists t, r; (split; [|reflexivity]).
  - rewrite <- list_refines_multiset.
    apply (proj1 (count_occ_In bytes_dec (fold_left on_sub_msg h []) t)). exact H.
  - rewrite <- list_refines_multiset in H.
    apply (proj2 (count_occ_In bytes_dec (fold_left on_sub_msg h []) t)). exact H.
Qed.

Theorem empty_subscription_matches_all : forall subs first, In [] subs -> matches subs first = true.
Proof.
  intros subs first H. apply matches_spec. exists [], first. split; [exact H|reflexivity].
Qed.

Theorem malformed_is_noop : forall subs m, classify m = SNoise -> on_sub_msg subs m = subs.
Proof.
  intros subs m H. unfold on_sub_msg. unfold classify in H.
  change Gen.pub_op_sub with 1. change Gen.pub_op_unsub with 0.
  destruct m as [|f r]; [reflexivity|].
  destruct f as [|b t]; destruct r as [|g r]; try reflexivity.
  destruct (b =? 1); [discriminate|].
  destruct (b =? 0); [discriminate|reflexivity].
Qed.

Theorem unsubscribe_cancels_one : forall subs t,
  count_occ bytes_dec (on_sub_msg subs [0 :: t]) t = Nat.pred (count_occ bytes_dec subs t) /\
  (forall t', t' <> t -> count_occ bytes_dec (on_sub_msg subs [0 :: t]) t' = count_occ bytes_dec subs t').
Proof.
  intros subs t. unfold on_sub_msg.
  change Gen.pub_op_sub with 1. change Gen.pub_op_unsub with 0.
  change (0 =? 1) with false. change (0 =? 0) with true. cbv iota.
  split.
  - rewrite count_occ_remove_first, bytes_eqb_refl. reflexivity.
  - intros t' Hne. rewrite count_occ_remove_first.
    destruct (bytes_eqb_spec t t'); [congruence|reflexivity].
Qed.

(* ---------------------------------------------------------------------- *)
(** * publish *)
(* ---------------------------------------------------------------------- *)
Lemma memN_cons : forall k a l, memN k (a :: l) = (k =? a) || memN k l.
Proof. reflexivity. Qed.

Lemma memN_In : forall k l, memN k l = true <-> In k l.
Proof.
  intros k l. unfold memN. rewrite existsb_exists. split.
  - intros [x [Hin E]]. apply N.eqb_eq in E. subst. exact Hin.
  - intros H. exists k. split; [exact H|apply N.eqb_refl].
Qed.

Lemma memN_not_In : forall k l, ~ In k l -> memN k l = false.
Proof.
  intros k l H. destruct (memN k l) eqn:E; [|reflexivity].
  apply memN_In in E. contradiction.
Qed.

Definition pub_step (m : msg) (first : bytes) : world -> N -> world :=
  fun acc k =>
    match get_conn k (w_conns acc) with
    | Some c => if matches (c_subs c) first then write_msg acc k m else acc
    | None => acc
    end.

Lemma pub_step_other : forall m first acc a k, k <> a ->
  get_conn k (w_conns (pub_step m first acc a)) = get_conn k (w_conns acc).
Proof.
  intros m first acc a k Hk. unfold pub_step.
  destruct (get_conn a (w_conns acc)) as [ca|]; [|reflexivity].
  destruct (matches (c_subs ca) first); [|reflexivity].
  apply write_msg_others_unchanged. exact Hk.
Qed.

Lemma pub_step_self : forall m first acc a c, get_conn a (w_conns acc) = Some c ->
  exists c1, get_conn a (w_conns (pub_step m first acc a)) = Some c1 /\ c_subs c1 = c_subs c /\
    c_wire c1 = c_wire c ++ (if matches (c_subs c) first then encode_frames m else []).
Proof.
  intros m first acc a c Hg. unfold pub_step. rewrite Hg.
  destruct (matches (c_subs c) first).
  - destruct (write_msg_appends acc a m c Hg (get_conn_id _ _ _ Hg)) as (c1 & H1 & H2 & _ & _ & _ & H6).
    exists c1. split; [exact H1|]. split; [exact H6|exact H2].
  - exists c. rewrite app_nil_r. split; [exact Hg|]. split; reflexivity.
Qed.

Lemma pub_fold_inv : forall m first ks, NoDup ks -> forall acc k c,
  get_conn k (w_conns acc) = Some c ->
  exists c', get_conn k (w_conns (fold_left (pub_step m first) ks acc)) = Some c' /\
    c_subs c' = c_subs c /\
    c_wire c' = c_wire c ++ (if memN k ks && matches (c_subs c) first then encode_frames m else []).
Proof.
  intros m first ks Hnd. induction Hnd as [|a ks Hnotin Hnd IH]; intros acc k c Hg; cbn [fold_left].
  - exists c. change (memN k []) with false. cbn [andb]. rewrite app_nil_r.
    split; [exact Hg|]. split; reflexivity.
  - rewrite memN_cons. destruct (N.eq_dec k a) as [->|Hka].
    + rewrite N.eqb_refl. cbn [orb andb].
      destruct (pub_step_self m first acc a c Hg) as (c1 & G1 & S1 & W1).
      destruct (IH _ a c1 G1) as (c' & G' & S' & W').
      exists c'. split; [exact G'|]. split; [congruence|].
      rewrite W', (memN_not_In a ks Hnotin). cbn [andb]. rewrite app_nil_r. exact W1.
    + assert (E : (k =? a) = false) by (apply N.eqb_neq; exact Hka).
      rewrite E. cbn [orb]. apply IH.
      rewrite pub_step_other by exact Hka. exact Hg.
Qed.

Lemma pub_fold_tables : forall m first ks acc,
  w_peers (fold_left (pub_step m first) ks acc) = w_peers acc /\
  w_type (fold_left (pub_step m first) ks acc) = w_type acc.
Proof.
  intros m first. induction ks as [|a ks IH]; intros acc; cbn [fold_left].
  - split; reflexivity.
  - destruct (IH (pub_step m first acc a)) as [H1 H2]. rewrite H1, H2.
    unfold pub_step. destruct (get_conn a (w_conns acc)) as [ca|]; [|split; reflexivity].
    destruct (matches (c_subs ca) first); [|split; reflexivity].
    destruct (write_msg_tables_unchanged acc a m) as (P & _ & _ & _ & T & _).
    split; assumption.
Qed.

(* one publish offers the message to each subscriber at most once: exactly once when one of its
   subscriptions matches (even if several do), not at all otherwise; nobody else's wire changes *)
Theorem publish_exactly_once : forall w first rest, NoDup (w_peers w) ->
  forall k c, get_conn k (w_conns w) = Some c ->
  exists c', get_conn k (w_conns (publish w (first :: rest))) = Some c' /\
    c_subs c' = c_subs c /\
    c_wire c' = c_wire c ++ (if memN k (w_peers w) && matches (c_subs c) first then encode_frames (first :: rest) else []).
Proof.
  intros w first rest Hnd k c Hg. unfold publish.
  exact (pub_fold_inv (first :: rest) first (w_peers w) Hnd w k c Hg).
Qed.

Theorem publish_tables_unchanged : forall w m, w_peers (publish w m) = w_peers w /\ w_type (publish w m) = w_type w.
Proof.
  intros w m. destruct m as [|first rest]; [split; reflexivity|].
  unfold publish. exact (pub_fold_tables (first :: rest) first (w_peers w) w).
Qed.

(* ---------------------------------------------------------------------- *)
(** * SUB socket *)
(* ---------------------------------------------------------------------- *)
Lemma write_fold_inv : forall m ks, NoDup ks -> forall acc k c,
  get_conn k (w_conns acc) = Some c ->
  exists c', get_conn k (w_conns (fold_left (fun acc k => write_msg acc k m) ks acc)) = Some c' /\
    c_wire c' = c_wire c ++ (if memN k ks then encode_frames m else []).
Proof.
  intros m ks Hnd. induction Hnd as [|a ks Hnotin Hnd IH]; intros acc k c Hg; cbn [fold_left].
  - exists c. change (memN k []) with false. cbv iota. rewrite app_nil_r.
    split; [exact Hg|reflexivity].
  - rewrite memN_cons. destruct (N.eq_dec k a) as [->|Hka].
    + rewrite N.eqb_refl. cbn [orb].
      destruct (write_msg_appends acc a m c Hg (get_conn_id _ _ _ Hg)) as (c1 & G1 & W1 & _).
      destruct (IH _ a c1 G1) as (c' & G' & W').
      exists c'. split; [exact G'|].
      rewrite W', (memN_not_In a ks Hnotin), app_nil_r. exact W1.
    + assert (E : (k =? a) = false) by (apply N.eqb_neq; exact Hka).
      rewrite E. cbn [orb]. apply IH.
      rewrite write_msg_others_unchanged by exact Hka. exact Hg.
Qed.

Lemma write_fold_subs : forall m ks acc,
  w_subs (fold_left (fun acc k => write_msg acc k m) ks acc) = w_subs acc.
Proof.
  intros m. induction ks as [|a ks IH]; intros acc; cbn [fold_left]; [reflexivity|].
  rewrite IH.
  destruct (write_msg_tables_unchanged acc a m) as (_ & _ & _ & _ & _ & _ & _ & S).
  exact S.
Qed.

(* SUB socket: subscribe / unsubscribe tell every registered peer, and a peer that joins later is
   told every subscription active at that time *)
Theorem sub_subscribe_tells_every_peer : forall w t k c, w_type w = SUB -> NoDup (w_peers w) ->
  existsb (bytes_eqb t) (w_subs w) = false ->
  In k (w_peers w) -> get_conn k (w_conns w) = Some c ->
  exists c', get_conn k (w_conns (snd (step w (OSub t)))) = Some c' /\
             c_wire c' = c_wire c ++ encode_frames [1 :: t].
Proof.
  intros w t k c _ Hnd Hnew Hin Hg. unfold step. rewrite Hnew. cbv zeta. cbn [snd].
  change Gen.sub_op_sub with 1. unfold sub_msg.
  destruct (write_fold_inv [1 :: t] (w_peers w) Hnd
              (with_subs w (w_subs w ++ [t]))
              k c Hg) as (c' & G & W).
  exists c'. split; [exact G|].
  rewrite W, (proj2 (memN_In k (w_peers w)) Hin). reflexivity.
Qed.

Theorem sub_unsubscribe_tells_every_peer : forall w t k c, w_type w = SUB -> NoDup (w_peers w) ->
  existsb (bytes_eqb t) (w_subs w) = true ->
  In k (w_peers w) -> get_conn k (w_conns w) = Some c ->
  exists c', get_conn k (w_conns (snd (step w (OUnsub t)))) = Some c' /\
             c_wire c' = c_wire c ++ encode_frames [0 :: t].
Proof.
  intros w t k c _ Hnd Hold Hin Hg. unfold step. rewrite Hold. cbn [negb]. cbv zeta. cbn [snd].
  change Gen.sub_op_unsub with 0. unfold sub_msg.
  destruct (write_fold_inv [0 :: t] (w_peers w) Hnd
              (with_subs w (filter (fun x => negb (bytes_eqb x t)) (w_subs w)))
              k c Hg) as (c' & G & W).
  exists c'. split; [exact G|].
  rewrite W, (proj2 (memN_In k (w_peers w)) Hin). reflexivity.
Qed.

(** a repeated subscribe, or an unsubscribe of something not subscribed, changes nothing and tells nobody *)
Theorem sub_repeat_is_silent : forall w t,
  (existsb (bytes_eqb t) (w_subs w) = true -> step w (OSub t) = ([BSubOk true], w)) /\
  (existsb (bytes_eqb t) (w_subs w) = false -> step w (OUnsub t) = ([BSubOk false], w)).
Proof.
  intros w t. split; intros H; unfold step; rewrite H; reflexivity.
Qed.

Theorem sub_set_semantics : forall w t,
  (forall x, In x (w_subs (snd (step w (OSub t)))) <-> x = t \/ In x (w_subs w)) /\
  (forall x, In x (w_subs (snd (step w (OUnsub t)))) <-> x <> t /\ In x (w_subs w)).
Proof.
  intros w t. split; intros x; unfold step.
  - destruct (existsb (bytes_eqb t) (w_subs w)) eqn:E; cbv zeta; cbn [snd].
    + split; [intros H; right; exact H|].
      intros [->|H]; [|exact H].
      apply existsb_exists in E. destruct E as (y & Hy & Ey).
      apply bytes_eqb_eq in Ey. subst y. exact Hy.
    + rewrite write_fold_subs; cbn [w_subs with_subs set_w]. rewrite in_app_iff. cbn [In]. split.
      * intros [H|[H|[]]]; [right; exact H|left; symmetry; exact H].
      * intros [H|H]; [right; left; symmetry; exact H|left; exact H].
  - destruct (existsb (bytes_eqb t) (w_subs w)) eqn:E; cbn [negb]; cbv zeta; cbn [snd].
    + rewrite write_fold_subs; cbn [w_subs with_subs set_w]. rewrite filter_In, negb_true_iff. split.
      * intros [H1 H2]. split; [|exact H1].
        destruct (bytes_eqb_spec x t); [discriminate|assumption].
      * intros [H1 H2]. split; [exact H2|].
        destruct (bytes_eqb_spec x t); [contradiction|reflexivity].
    + split; [|intros [_ H]; exact H]. intros H. split; [|exact H].
      intros ->. assert (existsb (bytes_eqb t) (w_subs w) = true) as E2; [|congruence].
      apply existsb_exists. exists t. split; [exact H|apply bytes_eqb_refl].
Qed.

Lemma attach_fold : forall c ts acc cn, get_conn c (w_conns acc) = Some cn ->
  exists cn', get_conn c (w_conns (fold_left (fun acc t => write_msg acc c (sub_msg Gen.sub_op_sub t)) ts acc)) = Some cn' /\
    c_wire cn' = c_wire cn ++ concat (map (fun t => encode_frames [1 :: t]) ts).
Proof.
  intros c. induction ts as [|a ts IH]; intros acc cn Hg; cbn [fold_left map concat].
  - exists cn. rewrite app_nil_r. split; [exact Hg|reflexivity].
  - change Gen.sub_op_sub with 1 in *. unfold sub_msg in *.
    destruct (write_msg_appends acc c [1 :: a] cn Hg (get_conn_id _ _ _ Hg)) as (c1 & G1 & W1 & _).
    destruct (IH _ c1 G1) as (c' & G' & W').
    exists c'. split; [exact G'|].
    rewrite W', W1, <- app_assoc. reflexivity.
Qed.

Lemma do_attach_sub_conns : forall w c ann, w_type w = SUB ->
  w_conns (do_attach w c ann) =
  w_conns (fold_left (fun acc t => write_msg acc c (sub_msg Gen.sub_op_sub t)) (w_subs w)
             (with_conns w (put_conn (new_conn c (match ann with Some [] => None | x => x end)) (w_conns w)))).
Proof. intros w c ann Ht. unfold do_attach. rewrite Ht. reflexivity. Qed.

(** The premise [get_conn c (w_conns w) = None] is not used: [put_conn] replaces an existing
    connection of the same name by a fresh one. *)
Theorem sub_late_joiner_gets_all : forall w c ann, w_type w = SUB -> get_conn c (w_conns w) = None ->
  exists cn, get_conn c (w_conns (do_attach w c ann)) = Some cn /\
    c_wire cn = concat (map (fun t => encode_frames [1 :: t]) (w_subs w)).
Proof.
  intros w c ann Ht _. rewrite (do_attach_sub_conns w c ann Ht).
  set (nc := new_conn c (match ann with Some [] => None | x => x end)).
  assert (G0 : get_conn c (w_conns (with_conns w (put_conn nc (w_conns w)))) = Some nc).
  { cbn [w_conns with_conns set_w]. apply get_conn_put_same_id. reflexivity. }
  destruct (attach_fold c (w_subs w) _ nc G0) as (cn & G & W).
  exists cn. split; [exact G|]. rewrite W. reflexivity.
Qed.

Print Assumptions list_refines_multiset.
Print Assumptions deliver_iff.
Print Assumptions publish_exactly_once.
Print Assumptions sub_subscribe_tells_every_peer.
Print Assumptions sub_late_joiner_gets_all.
