(** C08 + C10 for REQ in closed form: a REQ socket with n connected servers that all answer sends request
    number i (from 0) - exactly one empty delimiter and the payload - to server (i mod n) in joining order,
    returns exactly that server's reply payload, and only then accepts the next request. *)
From Coq Require Import List Arith NArith Lia Bool.
From ZV Require Import Base.Bytes Base.Res Model.Codec Model.World Proofs.CodecEnc Proofs.SocketProofs
  Proofs.WorldStreamDefs Proofs.WorldStreamLemmas Proofs.WorldWireLemmas Proofs.ReqRepWireLemmas Proofs.ReqRepWire Proofs.PushDistribution.
Import ListNotations.
Open Scope N_scope.

(** request/reply cycles: send p, the server whose turn it is writes the reply (in one chunk), recv *)
Fixpoint cycles (cs : list N) (prs : list (msg * msg)) (i : nat) : list op :=
  match prs with
  | [] => []
  | (p, r) :: t =>
    OSend p :: OFeed (nth (Nat.modulo i (length cs)) cs 0) (encode_frames ([] :: r)) :: ORecv :: cycles cs t (S i)
  end.

(* ---------------------------------------------------------------------- *)
(** * Lemmas (the world-level ones are in Proofs/ReqRotationLemmas.v) *)
(* ---------------------------------------------------------------------- *)
From ZV Require Import Proofs.ReqRotationLemmas.

Lemma rq_run_cycles cs ops : NoDup cs -> cs <> [] -> forall prs done w,
  Forall (fun pr => snd pr <> [] /\ wf_msg ([] :: snd pr)) prs -> rq_inv cs done w ->
  exists w', World.run w (cycles cs prs (length done) ++ ops) =
             flat_map (fun pr => [BSendOk; BRecv None (snd pr)]) prs ++ World.run w' ops /\
             rq_inv cs (done ++ map fst prs) w'.
Proof.
  intros Hnd Hne. induction prs as [|[p r] t IH]; intros done w Hall Hw.
  - exists w. cbn [cycles map flat_map app]. rewrite app_nil_r. split; [reflexivity|exact Hw].
  - inversion Hall as [|? ? [Hr Hwf] Hall']; subst. cbn [snd] in Hr, Hwf.
    destruct (rq_cycle cs done w p r Hnd Hne Hr Hwf Hw) as (w1 & R1 & Hw1).
    assert (S (length done) = length (done ++ [p])) as Hlen by (rewrite app_length; cbn [length]; lia).
    destruct (IH (done ++ [p]) w1 Hall' Hw1) as (w' & R & Hw').
    exists w'. cbn [cycles app flat_map snd map fst]. rewrite R1, Hlen, R.
    rewrite <- app_assoc in Hw'. split; [reflexivity|exact Hw'].
Qed.

(** STATEMENT TO PROVE (do not change it).  [share] is the one of Proofs/PushDistribution.v. *)
Theorem req_rotation : forall cs prs,
  NoDup cs -> cs <> [] ->
  Forall (fun pr => snd pr <> [] /\ wf_msg ([] :: snd pr)) prs ->
  World.run (world0 REQ) (map (fun c => OAttach c None) cs ++ cycles cs prs 0 ++ map OWire cs) =
  map (fun c => BAtt c None) cs ++
  flat_map (fun pr => [BSendOk; BRecv None (snd pr)]) prs ++
  map (fun ic => BWire (snd ic) (concat (map (fun p => encode_frames ([] :: p)) (share (fst ic) (length cs) (map fst prs)))))
      (combine (seq 0 (length cs)) cs).
Proof.
  intros cs prs Hnd Hne Hall.
  destruct (rq_run_attaches (cycles cs prs 0 ++ map OWire cs) cs [] (world0 REQ) rq_att_world0) as (w1 & R1 & H1).
  rewrite R1. f_equal. cbn [app] in H1.
  destruct (rq_run_cycles cs (map OWire cs) Hnd Hne prs [] w1 Hall (rq_inv_start cs w1 Hne H1)) as (w2 & R2 & H2).
  cbn [length] in R2. rewrite R2. f_equal. cbn [app] in H2.
  destruct H2 as (_ & _ & _ & _ & Hc).
  apply (pd_run_wires cs 0%nat w2
           (fun i => concat (map (fun p => encode_frames ([] :: p)) (share i (length cs) (map fst prs)))) Hnd).
  intros i k Hi. destruct (Hc i k Hi) as (cn & Hg & Hw & _).
  exists cn. split; [exact Hg|exact Hw].
Qed.

(** non-vacuity *)
Definition rr_prs : list (msg * msg) := [([[1]], [[11]]); ([[2];[]], [[];[12]]); ([[3]], [[13]]); ([[4]], [[14]]); ([[5]], [[15]])].
Example rr_sample :
  World.run (world0 REQ) (map (fun c => OAttach c None) [5;2] ++ cycles [5;2] rr_prs 0 ++ map OWire [5;2]) =
  [BAtt 5 None; BAtt 2 None;
   BSendOk; BRecv None [[11]]; BSendOk; BRecv None [[];[12]]; BSendOk; BRecv None [[13]]; BSendOk; BRecv None [[14]]; BSendOk; BRecv None [[15]];
   BWire 5 (encode_frames [[];[1]] ++ encode_frames [[];[3]] ++ encode_frames [[];[5]]);
   BWire 2 (encode_frames [[];[2];[]] ++ encode_frames [[];[4]])].
Proof. vm_compute. reflexivity. Qed.

Print Assumptions req_rotation.
