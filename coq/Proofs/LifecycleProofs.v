(** Lifecycle proofs about the socket-layer model (Model/World.v):
    C13 — a SUB socket's subscriptions reach every peer, late joiners included;
    C16 — a failed peer is isolated and forgotten. *)
From Coq Require Import List NArith Lia Bool Arith.
From ZV Require Import Base.Bytes Base.Res Spec.PrefixMultiset Model.Codec Model.World Proofs.BytesProofs Proofs.SocketProofs Proofs.PubSubProofs.
Import ListNotations.
Open Scope N_scope.

Arguments N.eqb : simpl never.

Definition exec (w : world) (ops : list op) : world := fold_left (fun w o => snd (step w o)) ops w.
Definition sub_op (o : op) : Prop := match o with OAttach _ _ | OSub _ | OUnsub _ => True | _ => False end.
Fixpoint attach_names (ops : list op) : list N :=
  match ops with [] => [] | OAttach c _ :: t => c :: attach_names t | _ :: t => attach_names t end.
Definition subscribed (w : world) (t : bytes) : bool := existsb (bytes_eqb t) (w_subs w).

(* ====================================================================== *)
(** * PART 2 (C16): a failed peer is isolated and forgotten *)
(* ====================================================================== *)

Lemma fq_wake_conns : forall w k, w_conns (fq_wake w k) = w_conns w.
Proof. intros w k. unfold fq_wake. destruct (reg_get k (w_reg w)); reflexivity. Qed.

(* events on one connection leave every other connection's record untouched *)
Theorem feed_others_unchanged : forall w k b j, j <> k ->
  get_conn j (w_conns (do_feed w k b)) = get_conn j (w_conns w).
Proof.
  intros w k b j Hj. unfold do_feed.
  destruct (get_conn k (w_conns w)) as [cn|] eqn:E; [|reflexivity].
  destruct (is_nil b || c_eof cn); [reflexivity|].
  rewrite fq_wake_conns. unfold upd_conn. cbn [w_conns with_conns set_w].
  apply get_conn_put_other. cbn [c_id c_with_in]. apply get_conn_id in E. congruence.
Qed.

Theorem eof_others_unchanged : forall w k j, j <> k ->
  get_conn j (w_conns (do_eof w k)) = get_conn j (w_conns w).
Proof.
  intros w k j Hj. unfold do_eof.
  destruct (get_conn k (w_conns w)) as [cn|] eqn:E; [|reflexivity].
  rewrite fq_wake_conns. unfold upd_conn. cbn [w_conns with_conns set_w].
  apply get_conn_put_other. cbn [c_id c_with_in]. apply get_conn_id in E. congruence.
Qed.

Lemma memN_delN : forall j k l, memN j (delN k l) = negb (j =? k) && memN j l.
Proof.
  intros j k l. induction l as [|a l IH].
  - cbn [delN filter]. change (memN j []) with false. rewrite andb_false_r. reflexivity.
  - unfold delN in *. cbn [filter]. rewrite (memN_cons j a l).
    destruct (N.eqb_spec a k) as [Eak|Nak]; cbn [negb].
    + rewrite IH. subst a. destruct (N.eqb_spec j k); cbn [negb andb orb]; reflexivity.
    + rewrite memN_cons, IH.
      destruct (N.eqb_spec j k) as [Ejk|Njk]; destruct (N.eqb_spec j a) as [Eja|Nja];
        cbn [negb andb orb]; try reflexivity.
      congruence.
Qed.

Lemma memN_delN_same : forall k l, memN k (delN k l) = false.
Proof. intros k l. rewrite memN_delN, N.eqb_refl. reflexivity. Qed.

Lemma memN_delN_other : forall j k l, j <> k -> memN j (delN k l) = memN j l.
Proof.
  intros j k l H. rewrite memN_delN. destruct (N.eqb_spec j k); [contradiction|reflexivity].
Qed.

Lemma drop_halves_others : forall w k r wr j, j <> k ->
  get_conn j (w_conns (drop_halves w k r wr)) = get_conn j (w_conns w).
Proof.
  intros w k r wr j Hj. unfold drop_halves.
  destruct (get_conn k (w_conns w)) as [c|] eqn:E; [|reflexivity].
  unfold upd_conn. cbn [w_conns with_conns set_w].
  apply get_conn_put_other. cbn [c_id c_with_halves]. apply get_conn_id in E. congruence.
Qed.

Lemma drop_halves_self : forall w k r wr c, get_conn k (w_conns w) = Some c ->
  get_conn k (w_conns (drop_halves w k r wr)) =
  Some (c_with_halves c (c_rd c && negb r) (c_wr c && negb wr)).
Proof.
  intros w k r wr c E. unfold drop_halves. rewrite E.
  unfold upd_conn. cbn [w_conns with_conns set_w].
  apply get_conn_put_same_id. cbn [c_id c_with_halves]. eapply get_conn_id; eassumption.
Qed.

Lemma drop_halves_tables : forall w k r wr,
  w_peers (drop_halves w k r wr) = w_peers w /\ w_streams (drop_halves w k r wr) = w_streams w /\
  w_type (drop_halves w k r wr) = w_type w.
Proof.
  intros w k r wr. unfold drop_halves. destruct (get_conn k (w_conns w)); repeat split; reflexivity.
Qed.

(* what peer_disconnected does *)
Theorem disconnected_is_forgotten : forall w k,
  memN k (w_peers (peer_disconnected w k)) = false /\
  (has_fq (w_type w) = true -> memN k (w_streams (peer_disconnected w k)) = false) /\
  (forall c, get_conn k (w_conns w) = Some c -> has_fq (w_type w) = true \/ w_type w = REQ ->
     exists c', get_conn k (w_conns (peer_disconnected w k)) = Some c' /\ c_rd c' = false /\ c_wr c' = false) /\
  (forall j, j <> k -> get_conn j (w_conns (peer_disconnected w k)) = get_conn j (w_conns w) /\
                        memN j (w_peers (peer_disconnected w k)) = memN j (w_peers w) /\
                        memN j (w_streams (peer_disconnected w k)) = memN j (w_streams w)).
Proof.
  intros w k. unfold peer_disconnected. cbv zeta.
  set (w1 := with_peers w (delN k (w_peers w))).
  set (rq := match w_type w with REQ => true | _ => false end).
  set (w2 := drop_halves w1 k rq true).
  destruct (drop_halves_tables w1 k rq true) as (P2 & S2 & T2). fold w2 in P2, S2, T2.
  change (w_peers w1) with (delN k (w_peers w)) in P2.
  change (w_streams w1) with (w_streams w) in S2.
  destruct (has_fq (w_type w)) eqn:Hfq.
  - set (w3 := fq_remove w2 k).
    destruct (drop_halves_tables w3 k true false) as (P3 & S3 & T3).
    change (w_peers w3) with (w_peers w2) in P3.
    change (w_streams w3) with (delN k (w_streams w2)) in S3.
    split; [|split; [|split]].
    + rewrite P3, P2. apply memN_delN_same.
    + intros _. rewrite S3, S2. apply memN_delN_same.
    + intros c Hc _.
      assert (H2 : get_conn k (w_conns w2) = Some (c_with_halves c (c_rd c && negb rq) (c_wr c && negb true))).
      { unfold w2. apply drop_halves_self. exact Hc. }
      assert (H3 : get_conn k (w_conns w3) = Some (c_with_halves c (c_rd c && negb rq) (c_wr c && negb true)))
        by exact H2.
      rewrite (drop_halves_self w3 k true false _ H3).
      eexists. split; [reflexivity|].
      cbn [c_rd c_wr c_with_halves negb]. rewrite !andb_false_r. split; reflexivity.
    + intros j Hj. split; [|split].
      * rewrite drop_halves_others by exact Hj.
        change (w_conns w3) with (w_conns w2). unfold w2.
        rewrite drop_halves_others by exact Hj. reflexivity.
      * rewrite P3, P2. apply memN_delN_other. exact Hj.
      * rewrite S3, S2. apply memN_delN_other. exact Hj.
  - split; [|split; [|split]].
    + rewrite P2. apply memN_delN_same.
    + discriminate.
    + intros c Hc [Hf|Hreq]; [discriminate|].
      assert (Hrq : rq = true) by (unfold rq; rewrite Hreq; reflexivity).
      unfold w2. rewrite (drop_halves_self w1 k rq true c Hc).
      eexists. split; [reflexivity|].
      cbn [c_rd c_wr c_with_halves]. rewrite Hrq. cbn [negb]. rewrite !andb_false_r. split; reflexivity.
    + intros j Hj. split; [|split].
      * unfold w2. rewrite drop_halves_others by exact Hj. reflexivity.
      * rewrite P2. apply memN_delN_other. exact Hj.
      * rewrite S2. reflexivity.
Qed.

Lemma memN_delN_true : forall j k l, memN j (delN k l) = true -> memN j l = true.
Proof. intros j k l H. rewrite memN_delN in H. apply andb_true_iff in H. apply H. Qed.

(* the fair queue only ever yields items of streams that are registered *)
Theorem fq_next_only_registered : forall fuel w k o w',
  fq_next fuel w = (FItem k o, w') -> memN k (w_streams w) = true.
Proof.
  induction fuel as [|f IH]; intros w k o w' H; cbn [fq_next] in H; [discriminate|].
  destruct (w_heap w) as [|[p k0] h']; [discriminate|]. cbv zeta in H.
  change (w_streams (with_fq w h' (w_counter w) (w_streams w) (w_reg w))) with (w_streams w) in H.
  destruct (memN k0 (w_streams w)) eqn:Hm; cbn [negb] in H.
  2:{ apply IH in H. exact H. }
  set (w1 := with_fq w h' (w_counter w) (w_streams w) (w_reg w)) in *.
  destruct (get_conn k0 (w_conns w1)) as [c|].
  2:{ apply IH in H. exact H. }
  destruct (poll_stream (S (length (c_inq c))) c) as [[o'| |] c'].
  - inversion H; subst. exact Hm.
  - apply IH in H. exact H.
  - apply IH in H. cbn [w_streams with_fq set_w upd_conn with_conns] in H.
    apply memN_delN_true in H. exact H.
Qed.

(* a stream error reported by recv disconnects exactly that peer *)
Theorem recv_error_disconnects : forall n w k e w1, has_fq (w_type w) = true -> w_type w <> ROUTER ->
  fq_next (S (length (w_heap w)) + length (w_conns w) + 2) w = (FItem k (OErr e), w1) ->
  recv_fq (S n) w = (BRecvErr e, peer_disconnected w1 k).
Proof.
  intros n w k e w1 Hfq Hr H. cbn [recv_fq]. rewrite H. cbv zeta.
  destruct (w_type w); try reflexivity. congruence.
Qed.

Theorem router_error_disconnects_and_continues : forall n w k e w1, w_type w = ROUTER ->
  fq_next (S (length (w_heap w)) + length (w_conns w) + 2) w = (FItem k (OErr e), w1) ->
  recv_fq (S n) w = recv_fq n (peer_disconnected w1 k).
Proof.
  intros n w k e w1 Ht H. cbn [recv_fq]. rewrite H, Ht. reflexivity.
Qed.

(* a peer that is no longer in the peer table is never chosen by a round-robin send *)
Theorem send_rr_never_writes_to_dead : forall fuel w m b w' k, w_type w <> REQ -> memN k (w_peers w) = false ->
  send_rr fuel w m = (b, w') -> get_conn k (w_conns w') = get_conn k (w_conns w).
Proof.
  induction fuel as [|f IH]; intros w m b w' k Ht Hk H; cbn [send_rr] in H.
  - inversion H; reflexivity.
  - destruct (w_rr w) as [|k' rest]; [inversion H; reflexivity|]. cbv zeta in H.
    change (w_peers (with_rr w rest)) with (w_peers w) in H.
    destruct (memN k' (w_peers w)) eqn:Hm.
    + assert (Hkk : k <> k') by (intros ->; congruence).
      assert (Hw : w' = write_msg (with_rr (with_rr w rest) (w_rr (with_rr w rest) ++ [k'])) k' m).
      { destruct (w_type w); try (inversion H; reflexivity). congruence. }
      subst w'. rewrite write_msg_others_unchanged by exact Hkk. reflexivity.
    + apply (IH (with_rr w rest) m b w' k) in H; [exact H|exact Ht|exact Hk].
Qed.

(* ====================================================================== *)
(** * PART 1 (C13): a SUB socket's subscriptions reach every peer *)
(* ====================================================================== *)

Lemma existsb_bytes_In : forall t l, existsb (bytes_eqb t) l = true <-> In t l.
Proof.
  intros t l. rewrite existsb_exists. split.
  - intros (x & Hin & E). apply bytes_eqb_eq in E. subst x. exact Hin.
  - intros H. exists t. split; [exact H|apply bytes_eqb_refl].
Qed.

Lemma existsb_bytes_not_In : forall t l, existsb (bytes_eqb t) l = false <-> ~ In t l.
Proof.
  intros t l. rewrite <- existsb_bytes_In. destruct (existsb (bytes_eqb t) l); split; congruence.
Qed.

Lemma NoDup_snoc {A} (l : list A) (x : A) : NoDup l -> ~ In x l -> NoDup (l ++ [x]).
Proof.
  induction 1 as [|y l Hy Hnd IH]; intros Hx; cbn [app].
  - constructor; [intros []|constructor].
  - constructor.
    + intros Hin. apply in_app_or in Hin. destruct Hin as [Hin|[Hin|[]]]; [contradiction|].
      subst y. apply Hx. left. reflexivity.
    + apply IH. intros Hin. apply Hx. right. exact Hin.
Qed.

Lemma bool_eq_iff : forall a b : bool, (a = true <-> b = true) -> a = b.
Proof. intros [] [] [H1 H2]; auto; try (symmetry; auto). Qed.

(** ** the publisher-side counter *)
Lemma count_snoc : forall msgs m t, count (msgs ++ [m]) t = count_step t (count msgs t) m.
Proof. intros msgs m t. unfold count. rewrite fold_left_app. reflexivity. Qed.

Lemma count_step_sub : forall t c t', count_step t c [1 :: t'] = if bytes_eqb t' t then S c else c.
Proof. reflexivity. Qed.

Lemma count_step_unsub : forall t c t', count_step t c [0 :: t'] = if bytes_eqb t' t then Nat.pred c else c.
Proof. reflexivity. Qed.

Lemma count_fold_subs : forall t subs n, NoDup subs ->
  fold_left (count_step t) (map (fun x => [1 :: x]) subs) n =
  if existsb (bytes_eqb t) subs then S n else n.
Proof.
  intros t subs. induction subs as [|a subs IH]; intros n Hnd; cbn [map fold_left existsb].
  - reflexivity.
  - inversion Hnd as [|? ? Hnotin Hnd']; subst.
    rewrite IH by exact Hnd'. rewrite count_step_sub.
    destruct (bytes_eqb_spec a t) as [Eat|Nat_].
    + subst a. rewrite bytes_eqb_refl. cbn [orb].
      rewrite (proj2 (existsb_bytes_not_In t subs) Hnotin). reflexivity.
    + destruct (bytes_eqb_spec t a) as [Eta|_]; [congruence|]. cbn [orb]. reflexivity.
Qed.

Lemma count_all_subs : forall subs t, NoDup subs ->
  count (map (fun x => [1 :: x]) subs) t = if existsb (bytes_eqb t) subs then 1%nat else 0%nat.
Proof. intros subs t H. unfold count. apply count_fold_subs. exact H. Qed.

Lemma concat_encode_snoc : forall msgs m,
  concat (map encode_frames (msgs ++ [m])) = concat (map encode_frames msgs) ++ encode_frames m.
Proof.
  intros msgs m. rewrite map_app, concat_app. cbn [map concat]. rewrite app_nil_r. reflexivity.
Qed.

(** ** table frame lemmas for the two folds *)
Lemma write_fold_tables : forall m ks acc,
  w_peers (fold_left (fun acc k => write_msg acc k m) ks acc) = w_peers acc /\
  w_type (fold_left (fun acc k => write_msg acc k m) ks acc) = w_type acc.
Proof.
  intros m. induction ks as [|a ks IH]; intros acc; cbn [fold_left]; [split; reflexivity|].
  destruct (IH (write_msg acc a m)) as [H1 H2]. rewrite H1, H2.
  destruct (write_msg_tables_unchanged acc a m) as (P & _ & _ & _ & T & _).
  split; assumption.
Qed.

Lemma attach_fold_tables : forall c ts acc,
  w_peers (fold_left (fun acc t => write_msg acc c (sub_msg Gen.sub_op_sub t)) ts acc) = w_peers acc /\
  w_type (fold_left (fun acc t => write_msg acc c (sub_msg Gen.sub_op_sub t)) ts acc) = w_type acc /\
  w_subs (fold_left (fun acc t => write_msg acc c (sub_msg Gen.sub_op_sub t)) ts acc) = w_subs acc.
Proof.
  intros c. induction ts as [|a ts IH]; intros acc; cbn [fold_left]; [repeat split; reflexivity|].
  destruct (IH (write_msg acc c (sub_msg Gen.sub_op_sub a))) as (H1 & H2 & H3). rewrite H1, H2, H3.
  destruct (write_msg_tables_unchanged acc c (sub_msg Gen.sub_op_sub a)) as (P & _ & _ & _ & T & _ & _ & S).
  repeat split; assumption.
Qed.

Lemma attach_fold_others : forall c ts acc j, j <> c ->
  get_conn j (w_conns (fold_left (fun acc t => write_msg acc c (sub_msg Gen.sub_op_sub t)) ts acc)) =
  get_conn j (w_conns acc).
Proof.
  intros c. induction ts as [|a ts IH]; intros acc j Hj; cbn [fold_left]; [reflexivity|].
  rewrite IH by exact Hj. apply write_msg_others_unchanged. exact Hj.
Qed.

(** ** the invariant *)
Definition peer_told (w : world) (c : N) : Prop :=
  exists cn msgs, get_conn c (w_conns w) = Some cn /\
    c_wire cn = concat (map encode_frames msgs) /\
    forall t, count msgs t = if subscribed w t then 1%nat else 0%nat.

Definition sub_inv (w : world) : Prop :=
  w_type w = SUB /\ NoDup (w_subs w) /\ NoDup (w_peers w) /\
  forall c, memN c (w_peers w) = true -> peer_told w c.

Lemma sub_inv_world0 : sub_inv (world0 SUB).
Proof.
  unfold sub_inv. cbn [world0 w_type w_subs w_peers].
  split; [reflexivity|]. split; [constructor|]. split; [constructor|].
  intros c H. discriminate.
Qed.

(** OSub, already subscribed; OUnsub, not subscribed: nothing changes *)
Lemma step_sub_silent : forall w t, subscribed w t = true -> snd (step w (OSub t)) = w.
Proof. intros w t H. unfold subscribed in H. unfold step. rewrite H. reflexivity. Qed.

Lemma step_unsub_silent : forall w t, subscribed w t = false -> snd (step w (OUnsub t)) = w.
Proof. intros w t H. unfold subscribed in H. unfold step. rewrite H. reflexivity. Qed.

(** OSub of a new topic: every peer's history grows by [[1 :: t]] *)
Lemma step_sub_new : forall w t, sub_inv w -> subscribed w t = false -> sub_inv (snd (step w (OSub t))).
Proof.
  intros w t (Ht & Hns & Hnp & Hall) Hnew. unfold subscribed in Hnew.
  unfold step. rewrite Hnew. cbv zeta. cbn [snd].
  change Gen.sub_op_sub with 1. unfold sub_msg.
  set (w1 := with_subs w (w_subs w ++ [t])).
  change (w_peers w1) with (w_peers w).
  set (w' := fold_left (fun acc k => write_msg acc k [1 :: t]) (w_peers w) w1).
  destruct (write_fold_tables [1 :: t] (w_peers w) w1) as [HP HT]. fold w' in HP, HT.
  assert (HS : w_subs w' = w_subs w ++ [t]) by (unfold w'; rewrite write_fold_subs; reflexivity).
  change (w_peers w1) with (w_peers w) in HP. change (w_type w1) with (w_type w) in HT.
  unfold sub_inv. rewrite HP, HT, HS.
  split; [exact Ht|]. split; [|split; [exact Hnp|]].
  - apply NoDup_snoc; [exact Hns|]. apply existsb_bytes_not_In. exact Hnew.
  - intros c Hc. destruct (Hall c Hc) as (cn & msgs & Hg & Hwire & Hcnt).
    destruct (write_fold_inv [1 :: t] (w_peers w) Hnp w1 c cn Hg) as (cn' & Hg' & Hwire').
    fold w' in Hg'. rewrite Hc in Hwire'.
    exists cn', (msgs ++ [[1 :: t]]). split; [exact Hg'|]. split.
    + rewrite concat_encode_snoc, Hwire', Hwire. reflexivity.
    + intros t0. rewrite count_snoc, count_step_sub, Hcnt.
      unfold subscribed. rewrite HS, existsb_app. cbn [existsb]. rewrite orb_false_r.
      destruct (bytes_eqb_spec t t0) as [E|N].
      * subst t0. rewrite Hnew, bytes_eqb_refl. reflexivity.
      * destruct (bytes_eqb_spec t0 t) as [E|_]; [congruence|]. rewrite orb_false_r. reflexivity.
Qed.

Lemma existsb_filter_ne : forall t t0 l,
  existsb (bytes_eqb t0) (filter (fun x => negb (bytes_eqb x t)) l) =
  negb (bytes_eqb t t0) && existsb (bytes_eqb t0) l.
Proof.
  intros t t0 l. apply bool_eq_iff.
  rewrite andb_true_iff, negb_true_iff, !existsb_bytes_In, filter_In, negb_true_iff.
  destruct (bytes_eqb_spec t0 t) as [E|N]; destruct (bytes_eqb_spec t t0) as [E'|N'];
    try congruence; intuition congruence.
Qed.

(** OUnsub of a subscribed topic: every peer's history grows by [[0 :: t]] *)
Lemma step_unsub_old : forall w t, sub_inv w -> subscribed w t = true -> sub_inv (snd (step w (OUnsub t))).
Proof.
  intros w t (Ht & Hns & Hnp & Hall) Hold. unfold subscribed in Hold.
  unfold step. rewrite Hold. cbn [negb]. cbv zeta. cbn [snd].
  change Gen.sub_op_unsub with 0. unfold sub_msg.
  set (subs' := filter (fun x => negb (bytes_eqb x t)) (w_subs w)).
  set (w1 := with_subs w subs').
  change (w_peers w1) with (w_peers w).
  set (w' := fold_left (fun acc k => write_msg acc k [0 :: t]) (w_peers w) w1).
  destruct (write_fold_tables [0 :: t] (w_peers w) w1) as [HP HT]. fold w' in HP, HT.
  assert (HS : w_subs w' = subs') by (unfold w'; rewrite write_fold_subs; reflexivity).
  change (w_peers w1) with (w_peers w) in HP. change (w_type w1) with (w_type w) in HT.
  unfold sub_inv. rewrite HP, HT, HS.
  split; [exact Ht|]. split; [|split; [exact Hnp|]].
  - apply NoDup_filter. exact Hns.
  - intros c Hc. destruct (Hall c Hc) as (cn & msgs & Hg & Hwire & Hcnt).
    destruct (write_fold_inv [0 :: t] (w_peers w) Hnp w1 c cn Hg) as (cn' & Hg' & Hwire').
    fold w' in Hg'. rewrite Hc in Hwire'.
    exists cn', (msgs ++ [[0 :: t]]). split; [exact Hg'|]. split.
    + rewrite concat_encode_snoc, Hwire', Hwire. reflexivity.
    + intros t0. rewrite count_snoc, count_step_unsub, Hcnt.
      unfold subscribed. rewrite HS. unfold subs'. rewrite existsb_filter_ne.
      destruct (bytes_eqb_spec t t0) as [E|N]; cbn [negb andb]; [|reflexivity].
      destruct (existsb (bytes_eqb t0) (w_subs w)); reflexivity.
Qed.

(** OAttach: the (new or replaced) peer is told every current subscription; nobody else changes.
    No freshness of [c] is needed: [put_conn] replaces a connection of the same name by a new one
    and [delN c peers ++ [c]] keeps the table duplicate-free. *)
Lemma NoDup_delN_snoc : forall c l, NoDup l -> NoDup (delN c l ++ [c]).
Proof.
  intros c l H. apply NoDup_snoc.
  - unfold delN. apply NoDup_filter. exact H.
  - intros Hin. apply memN_In in Hin. rewrite memN_delN_same in Hin. discriminate.
Qed.

Lemma memN_app_snoc : forall j l c, memN j (l ++ [c]) = memN j l || (j =? c).
Proof.
  intros j l c. unfold memN. rewrite existsb_app. cbn [existsb]. rewrite orb_false_r. reflexivity.
Qed.

Lemma do_attach_sub_tables : forall w c ann, w_type w = SUB ->
  w_type (do_attach w c ann) = SUB /\ w_subs (do_attach w c ann) = w_subs w /\
  w_peers (do_attach w c ann) = delN c (w_peers w) ++ [c].
Proof.
  intros w c ann Ht. unfold do_attach. rewrite Ht. cbv zeta.
  set (w0 := with_conns w (put_conn (new_conn c (match ann with Some [] => None | x => x end)) (w_conns w))).
  destruct (attach_fold_tables c (w_subs w0) w0) as (HP & HT & HS).
  unfold fq_insert. cbn [w_type w_subs w_peers with_fq with_rr with_peers set_w].
  rewrite HP, HT, HS. repeat split. exact Ht.
Qed.

(** [sub_late_joiner_gets_all] without its (unused) premise that the name is new *)
Lemma attach_self : forall w c ann, w_type w = SUB ->
  exists cn, get_conn c (w_conns (do_attach w c ann)) = Some cn /\
    c_wire cn = concat (map (fun t => encode_frames [1 :: t]) (w_subs w)).
Proof.
  intros w c ann Ht. rewrite (do_attach_sub_conns w c ann Ht).
  set (nc := new_conn c (match ann with Some [] => None | x => x end)).
  assert (G0 : get_conn c (w_conns (with_conns w (put_conn nc (w_conns w)))) = Some nc).
  { cbn [w_conns with_conns set_w]. apply get_conn_put_same_id. reflexivity. }
  destruct (attach_fold c (w_subs w) _ nc G0) as (cn & G & W).
  exists cn. split; [exact G|]. rewrite W. reflexivity.
Qed.

Lemma step_attach : forall w c ann, sub_inv w -> sub_inv (snd (step w (OAttach c ann))).
Proof.
  intros w c ann (Ht & Hns & Hnp & Hall). cbn [step snd].
  destruct (do_attach_sub_tables w c ann Ht) as (HT & HS & HP).
  unfold sub_inv. rewrite HT, HS, HP.
  split; [reflexivity|]. split; [exact Hns|]. split; [apply NoDup_delN_snoc; exact Hnp|].
  intros j Hj. unfold peer_told, subscribed. rewrite HS.
  destruct (N.eq_dec j c) as [->|Hjc].
  - destruct (attach_self w c ann Ht) as (cn & Hg & Hwire).
    exists cn, (map (fun t => [1 :: t]) (w_subs w)). split; [exact Hg|]. split.
    + rewrite Hwire, map_map. reflexivity.
    + intros t. apply count_all_subs. exact Hns.
  - rewrite memN_app_snoc, memN_delN_other in Hj by exact Hjc.
    destruct (N.eqb_spec j c) as [|_]; [contradiction|]. rewrite orb_false_r in Hj.
    destruct (Hall j Hj) as (cn & msgs & Hg & Hwire & Hcnt).
    exists cn, msgs. split; [|split; [exact Hwire|exact Hcnt]].
    rewrite (do_attach_sub_conns w c ann Ht), attach_fold_others by exact Hjc.
    cbn [w_conns with_conns set_w]. rewrite get_conn_put_other; [exact Hg|].
    cbn [c_id new_conn]. congruence.
Qed.

Lemma step_sub_inv : forall w o, sub_inv w -> sub_op o -> sub_inv (snd (step w o)).
Proof.
  intros w o Hinv Ho. destruct o as [c ann|c b|c| |m|c m|t|t| |c|c]; cbn [sub_op] in Ho; try contradiction.
  - apply step_attach. exact Hinv.
  - destruct (subscribed w t) eqn:E.
    + rewrite step_sub_silent by exact E. exact Hinv.
    + apply step_sub_new; assumption.
  - destruct (subscribed w t) eqn:E.
    + apply step_unsub_old; assumption.
    + rewrite step_unsub_silent by exact E. exact Hinv.
Qed.

(** generalised form: any history of subscribe / unsubscribe / join operations from any world that
    satisfies the invariant ends in a world that satisfies it *)
Theorem sub_inv_exec : forall ops w, sub_inv w -> Forall sub_op ops -> sub_inv (exec w ops).
Proof.
  induction ops as [|o ops IH]; intros w Hinv Hops; cbn [exec fold_left]; [exact Hinv|].
  inversion Hops as [|? ? Ho Hops']; subst.
  apply (IH (snd (step w o))); [|exact Hops'].
  apply step_sub_inv; assumption.
Qed.

(** The premise [NoDup (attach_names ops)] is not needed: re-attaching a name replaces the
    connection by a new one, which is told every current subscription. *)
Theorem sub_agreement_strong : forall ops w,
  w = exec (world0 SUB) ops -> Forall sub_op ops ->
  NoDup (w_subs w) /\ NoDup (w_peers w) /\
  forall c, memN c (w_peers w) = true ->
    exists cn msgs, get_conn c (w_conns w) = Some cn /\
      c_wire cn = concat (map encode_frames msgs) /\
      forall t, count msgs t = if subscribed w t then 1%nat else 0%nat.
Proof.
  intros ops w -> Hops.
  destruct (sub_inv_exec ops (world0 SUB) sub_inv_world0 Hops) as (_ & H1 & H2 & H3).
  split; [exact H1|]. split; [exact H2|]. exact H3.
Qed.

Theorem sub_agreement : forall ops w,
  w = exec (world0 SUB) ops -> Forall sub_op ops -> NoDup (attach_names ops) ->
  NoDup (w_subs w) /\ NoDup (w_peers w) /\
  forall c, memN c (w_peers w) = true ->
    exists cn msgs, get_conn c (w_conns w) = Some cn /\
      c_wire cn = concat (map encode_frames msgs) /\
      forall t, count msgs t = if subscribed w t then 1%nat else 0%nat.
Proof. intros ops w Hw Hops _. apply (sub_agreement_strong ops w Hw Hops). Qed.

Print Assumptions sub_agreement.
Print Assumptions disconnected_is_forgotten.
Print Assumptions recv_error_disconnects.
Print Assumptions send_rr_never_writes_to_dead.
Print Assumptions feed_others_unchanged.
Print Assumptions eof_others_unchanged.
Print Assumptions fq_next_only_registered.
Print Assumptions router_error_disconnects_and_continues.
Print Assumptions sub_inv_exec.
