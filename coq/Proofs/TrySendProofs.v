(** C12: try_send over every transport answer sequence. *)
From ZV Require Import Base.Bytes Base.Res Model.Codec Model.TrySend Proofs.BytesProofs.
From Coq Require Import ZArith ZifyN ZifyNat ZifyBool.
Arguments N.add : simpl never.
Arguments N.ltb : simpl never.
Arguments N.min : simpl never.

Lemma gen_hwm : Gen.hwm = 131072.
Proof. reflexivity. Qed.

Lemma take_n_concat k b : fst (take_n k b) ++ snd (take_n k b) = b.
Proof. unfold take_n, firstnN, skipnN. cbn [fst snd]. apply firstn_skipn. Qed.

Lemma take_n_len k b : lenN (snd (take_n k b)) <= lenN b.
Proof.
  unfold take_n, skipnN, lenN. cbn [snd]. rewrite skipn_length. lia.
Qed.

Lemma take_n_progress k b : k <> 0 -> b <> [] -> (length (snd (take_n k b)) < length b)%nat.
Proof.
  intros Hk Hb. unfold take_n, skipnN, lenN. cbn [snd]. rewrite skipn_length.
  destruct b; [congruence|]. cbn [length]. lia.
Qed.

(** bytes are never lost, duplicated or reordered: written ++ buffered only ever grows at its end *)
Lemma poll_ready_stream fuel s r s' : poll_ready fuel s = (r, s') ->
  k_written s' ++ k_buf s' = k_written s ++ k_buf s.
Proof.
  revert s; induction fuel as [|f IH]; intros s H; cbn [poll_ready] in H.
  - inversion H; reflexivity.
  - destruct (lenN (k_buf s) <? Gen.hwm); [inversion H; reflexivity|].
    destruct (next_ans (k_tr s)) as [a tr]. destruct a as [k| | |e].
    + destruct (k =? 0); [inversion H; reflexivity|].
      destruct (take_n k (k_buf s)) as [w rest] eqn:E.
      apply IH in H. cbn [k_written k_buf] in H. rewrite H, <- app_assoc.
      pose proof (take_n_concat k (k_buf s)) as T. rewrite E in T. cbn [fst snd] in T. rewrite T. reflexivity.
    + inversion H; reflexivity.
    + inversion H; reflexivity.
    + inversion H; reflexivity.
Qed.

Lemma poll_flush_stream fuel s : k_written (poll_flush fuel s) ++ k_buf (poll_flush fuel s) = k_written s ++ k_buf s.
Proof.
  revert s; induction fuel as [|f IH]; intros s; cbn [poll_flush]; [reflexivity|].
  destruct (k_buf s) as [|b0 bt] eqn:Eb; [rewrite ?Eb; reflexivity|].
  destruct (next_ans (k_tr s)) as [a tr]. destruct a as [k| | |e]; cbn [k_written k_buf]; try (rewrite ?Eb; reflexivity).
  destruct (k =? 0); [cbn [k_written k_buf]; rewrite ?Eb; reflexivity|].
  destruct (take_n k (b0 :: bt)) as [w rest] eqn:E.
  rewrite IH. cbn [k_written k_buf]. rewrite <- app_assoc.
  pose proof (take_n_concat k (b0 :: bt)) as T. rewrite E in T. cbn [fst snd] in T. rewrite T. reflexivity.
Qed.

Lemma poll_ready_shrinks fuel s r s' : poll_ready fuel s = (r, s') -> lenN (k_buf s') <= lenN (k_buf s).
Proof.
  revert s; induction fuel as [|f IH]; intros s H; cbn [poll_ready] in H.
  - inversion H; lia.
  - destruct (lenN (k_buf s) <? Gen.hwm); [inversion H; lia|].
    destruct (next_ans (k_tr s)) as [a tr]. destruct a as [k| | |e]; try (inversion H; cbn; lia).
    destruct (k =? 0); [inversion H; cbn; lia|].
    destruct (take_n k (k_buf s)) as [w rest] eqn:E.
    apply IH in H. cbn [k_buf] in H.
    pose proof (take_n_len k (k_buf s)) as T. rewrite E in T. cbn [snd] in T. lia.
Qed.

Lemma poll_ready_none_below fuel s s' : poll_ready fuel s = (None, s') -> lenN (k_buf s') < Gen.hwm.
Proof.
  revert s; induction fuel as [|f IH]; intros s H; cbn [poll_ready] in H; [discriminate|].
  destruct (N.ltb_spec (lenN (k_buf s)) Gen.hwm); [inversion H; subst; assumption|].
  destruct (next_ans (k_tr s)) as [a tr]. destruct a as [k| | |e]; try discriminate.
  destruct (k =? 0); [discriminate|].
  destruct (take_n k (k_buf s)) as [w rest]. eapply IH; eassumption.
Qed.

Lemma poll_flush_shrinks fuel s : lenN (k_buf (poll_flush fuel s)) <= lenN (k_buf s).
Proof.
  revert s; induction fuel as [|f IH]; intros s; cbn [poll_flush]; [lia|].
  destruct (k_buf s) as [|b0 bt] eqn:Eb; [rewrite ?Eb; lia|].
  destruct (next_ans (k_tr s)) as [a tr]. destruct a as [k| | |e]; cbn [k_buf]; try (rewrite ?Eb; lia).
  destruct (k =? 0); [cbn [k_buf]; rewrite ?Eb; lia|].
  destruct (take_n k (b0 :: bt)) as [w rest] eqn:E.
  specialize (IH {| k_buf := rest; k_written := k_written s ++ w; k_tr := tr |}). cbn [k_buf] in IH.
  pose proof (take_n_len k (b0 :: bt)) as T. rewrite E in T. cbn [snd] in T. lia.
Qed.

Lemma poll_ready_some_not_ok fuel s r s' : poll_ready fuel s = (Some r, s') -> r <> TsOk.
Proof.
  revert s; induction fuel as [|f IH]; intros s H; cbn [poll_ready] in H; [inversion H; discriminate|].
  destruct (lenN (k_buf s) <? Gen.hwm); [discriminate|].
  destruct (next_ans (k_tr s)) as [a tr]. destruct a as [k| | |e]; try (inversion H; discriminate).
  destruct (k =? 0); [inversion H; discriminate|]. destruct (take_n k (k_buf s)). eapply IH; eassumption.
Qed.

(** one try_send: the byte stream (written ++ buffered) is extended by exactly the encoded message
    when accepted and is unchanged otherwise: only whole messages are ever dropped *)
Theorem try_send_stream s enc r s' : try_send s enc = (r, s') ->
  k_written s' ++ k_buf s' = (k_written s ++ k_buf s) ++ (match r with TsOk => enc | _ => [] end).
Proof.
  unfold try_send. destruct (poll_ready (S (length (k_buf s))) s) as [[r0|] s1] eqn:E; cbv zeta; intros H; apply pair_equal_spec in H as [Hr Hs]; subst r s'.
  - pose proof (poll_ready_some_not_ok _ _ _ _ E) as Hr.
    apply poll_ready_stream in E. rewrite E.
    destruct r0; try congruence; rewrite app_nil_r; reflexivity.
  - rewrite poll_flush_stream. cbn [k_written k_buf]. apply poll_ready_stream in E. rewrite app_assoc, E. reflexivity.
Qed.

(** memory held for a subscriber stays below high-water mark + one message *)
Theorem try_send_bounded s enc r s' M : try_send s enc = (r, s') ->
  lenN enc <= M -> lenN (k_buf s) < Gen.hwm + M -> lenN (k_buf s') < Gen.hwm + M.
Proof.
  unfold try_send. destruct (poll_ready (S (length (k_buf s))) s) as [[r0|] s1] eqn:E; cbv zeta; intros H Hm Hb; apply pair_equal_spec in H as [Hr Hs]; subst r s'.
  - apply poll_ready_shrinks in E. lia.
  - pose proof (poll_ready_none_below _ _ _ E) as Hlt.
    pose proof (poll_flush_shrinks (S (length (k_buf s1 ++ enc))) {| k_buf := k_buf s1 ++ enc; k_written := k_written s1; k_tr := k_tr s1 |}) as Hs.
    cbn [k_buf] in Hs. cbn [k_buf]. rewrite lenN_app in Hs. lia.
Qed.

(** the whole history: what has reached the peer plus what is buffered is exactly the
    concatenation of the accepted messages, in publishing order *)
Theorem try_sends_stream encs : forall s rs s', try_sends s encs = (rs, s') ->
  k_written s' ++ k_buf s' = (k_written s ++ k_buf s) ++ concat (accepted rs encs).
Proof.
  induction encs as [|e t IH]; intros s rs s' H; cbn [try_sends] in H.
  - inversion H; subst. cbn. rewrite app_nil_r. reflexivity.
  - destruct (try_send s e) as [r s1] eqn:E1. destruct (try_sends s1 t) as [rt s2] eqn:E2.
    inversion H; subst; clear H.
    rewrite (IH _ _ _ E2), (try_send_stream _ _ _ _ E1).
    destruct r; cbn [accepted concat]; rewrite <- ?app_assoc, ?app_nil_r, ?app_nil_l; reflexivity.
Qed.

Theorem try_sends_bounded encs M : Forall (fun e => lenN e <= M) encs -> forall s rs s',
  try_sends s encs = (rs, s') -> lenN (k_buf s) < Gen.hwm + M -> lenN (k_buf s') < Gen.hwm + M.
Proof.
  induction encs as [|e t IH]; intros Hall s rs s' H Hb; cbn [try_sends] in H.
  - inversion H; subst; assumption.
  - inversion Hall as [|? ? He Ht]; subst.
    destruct (try_send s e) as [r s1] eqn:E1. destruct (try_sends s1 t) as [rt s2] eqn:E2.
    inversion H; subst; clear H.
    eapply IH; [exact Ht|exact E2|]. eapply try_send_bounded; eassumption.
Qed.

(** a connection that accepts every write misses nothing and buffers nothing *)
Definition accepting : transport := {| t_plan := []; t_dflt := Wrote (2 ^ 63) |}.

Lemma poll_flush_accepting fuel s : k_tr s = accepting -> lenN (k_buf s) < 2 ^ 63 -> (0 < fuel)%nat ->
  k_buf (poll_flush fuel s) = [] /\ k_tr (poll_flush fuel s) = accepting.
Proof.
  intros Ht Hl Hf. destruct fuel as [|f]; [lia|]. cbn [poll_flush].
  destruct (k_buf s) as [|b0 bt] eqn:Eb; [rewrite ?Eb; auto|].
  rewrite Ht. cbn [next_ans accepting t_plan t_dflt].
  change (2 ^ 63 =? 0) with false. cbn iota.
  unfold take_n. rewrite N.min_r by (apply N.lt_le_incl; exact Hl).
  rewrite <- Eb. unfold firstnN, skipnN, lenN. rewrite Nnat.Nat2N.id, firstn_all, skipn_all.
  destruct f; cbn [poll_flush k_buf k_tr]; auto.
Qed.

Theorem accepting_misses_none s enc : k_tr s = accepting -> k_buf s = [] -> lenN enc < 2 ^ 63 ->
  exists s', try_send s enc = (TsOk, s') /\ k_buf s' = [] /\ k_tr s' = accepting /\ k_written s' = k_written s ++ enc.
Proof.
  intros Ht Hb Hl.
  assert (Hpr : poll_ready (S (length (k_buf s))) s = (None, s)).
  { cbn [poll_ready]. rewrite Hb. reflexivity. }
  unfold try_send. rewrite Hpr. cbv zeta.
  set (s2 := {| k_buf := k_buf s ++ enc; k_written := k_written s; k_tr := k_tr s |}).
  assert (H2 : k_buf s2 = enc) by (subst s2; cbn [k_buf]; rewrite Hb; reflexivity).
  destruct (poll_flush_accepting (S (length (k_buf s2))) s2) as [Hbuf Htr]; [exact Ht|rewrite H2; exact Hl|lia|].
  exists (poll_flush (S (length (k_buf s2))) s2). split; [reflexivity|].
  split; [exact Hbuf|]. split; [exact Htr|].
  pose proof (poll_flush_stream (S (length (k_buf s2))) s2) as Hs. rewrite Hbuf, app_nil_r in Hs.
  rewrite Hs. subst s2. cbn [k_written k_buf]. rewrite Hb. reflexivity.
Qed.
