(** C11 + C13 over the wire for XPUB: the subscription messages a SUB socket writes for ANY history of
    subscribe / unsubscribe calls, arriving at an XPUB socket in ANY chunking, are handed to the application by
    recv, in order, and make the XPUB socket deliver a published message to that subscriber iff a CURRENT
    subscription of the SUB socket is a prefix of the message's first frame. *)
From Coq Require Import List Arith NArith Lia Bool.
From ZV Require Import Base.Bytes Base.Res Model.Codec Model.World Proofs.CodecEnc Proofs.Decoder Proofs.CodecRoundtrip
  Proofs.SocketProofs Proofs.PubSubProofs Proofs.LifecycleProofs Proofs.PubSubWireLemmas Proofs.PubSubWire.
Import ListNotations.
Open Scope N_scope.

(* added: the lemmas *)
From ZV Require Import Proofs.XPubWireLemmas.

(** STATEMENT TO PROVE (do not change it).  [sub_op] and [exec] are those of Proofs/PubSubWire.v. *)
Theorem xpub_over_the_wire : forall k j h chunks c msgs m,
  Forall sub_op h ->
  get_conn k (w_conns (exec (world0 SUB) (OAttach k None :: h))) = Some c ->
  concat chunks = c_wire c ->
  c_wire c = concat (map encode_frames msgs) -> Forall wf_msg msgs ->
  m <> [] ->
  World.run (world0 XPUB) (OAttach j None :: map (OFeed j) chunks ++ repeat ORecv (S (length msgs)) ++ [OSend m; OWire j]) =
  BAtt j None :: map (BRecv None) msgs ++
  [BRecvPending; BSendOk; BWire j (if matches (w_subs (exec (world0 SUB) (OAttach k None :: h))) (hd [] m) then encode_frames m else [])].
Proof.
  intros k j h chunks c msgs m Hh Hg Hc Hw Hwf Hm.
  destruct (sub_side k h c Hh Hg) as (msgs' & Hwire & Hwf' & Hsubs).
  assert (msgs' = msgs) as ->
    by (apply encodings_inj; [exact Hwf'|exact Hwf|rewrite <- Hwire, <- Hw; reflexivity]).
  change (wexec (world0 SUB) (OAttach k None :: h)) with (exec (world0 SUB) (OAttach k None :: h)) in Hsubs.
  rewrite <- Hsubs. apply xpub_side; [exact Hwf|rewrite Hc; exact Hw|exact Hm].
Qed.

(** non-vacuity *)
Definition xp_h := [OSub [65]; OSub [65;66]; OUnsub [65]; OSub []; OUnsub [7]; OSub [65;66]].
Definition xp_wire := match get_conn 3 (w_conns (exec (world0 SUB) (OAttach 3 None :: xp_h))) with Some c => c_wire c | None => [] end.
Example xp_sample :
  World.run (world0 XPUB) (OAttach 8 None :: map (OFeed 8) [firstn 2 xp_wire; []; skipn 2 xp_wire] ++ repeat ORecv 5 ++ [OSend [[65;66;67];[1]]; OWire 8])
  = BAtt 8 None :: map (BRecv None) [[[1;65]]; [[1;65;66]]; [[0;65]]; [[1]]] ++ [BRecvPending; BSendOk; BWire 8 (encode_frames [[65;66;67];[1]])].
Proof. vm_compute. reflexivity. Qed.

Print Assumptions xpub_over_the_wire.
