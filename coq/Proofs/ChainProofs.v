(** C15 (chain) / C08: theorems over Model/Chain.v. *)
From Coq Require Import List Arith NArith Lia Permutation.
From ZV Require Import Base.Bytes Base.Res Model.Codec Model.World Model.Chain.
Import ListNotations.
Local Open Scope nat_scope.

Definition ids_ok (ids : list bytes) : Prop := NoDup ids /\ Forall (fun i => i <> []) ids.
Definition ev_ok (e : cev) : Prop := match e with CReq _ p => p <> [] | _ => True end.

(** NOTE on scopes: [Base.Bytes] exports [Open Scope N_scope], under which the statements'
    [w < length ...] and [0 < m] (with [m : nat]) do not typecheck; [nat_scope] is opened above for
    the definitions and theorems and [N_scope] re-opened for the [sample] literals at the end.
    The statements themselves are untouched.

    NOTE on statements 1-3: they are FALSE as given (see [chain_replies_own_false],
    [chain_nothing_lost_false], [chain_quiescent_complete_false] below: [reply] returning the empty
    message).  The corrected versions carry the extra hypothesis [reply_ok reply] and are named
    [chain_replies_own'], [chain_nothing_lost'], [chain_quiescent_complete'].  Statements 4 and 5
    ([chain_quiescent_served_once], [chain_shape]) are proved exactly as given. *)

(** the requests of a client that have been answered so far *)
Definition answered (cl : client) : list msg := if cl_out cl then removelast (cl_sent cl) else cl_sent cl.

(** every worker index in the DEALER's rotation names a worker *)
Definition rr_ok (s : chain) : Prop := Forall (fun w => w < length (ch_workers s)) (ch_rr s).

(* ====================================================================== *)
(** * Helper lemmas *)
(* ====================================================================== *)

(** ** bytes equality *)
Lemma beqb_refl : forall a, bytes_eqb a a = true.
Proof.
  induction a as [|x a IH]; [reflexivity|].
  cbn [bytes_eqb]. rewrite N.eqb_refl, IH. reflexivity.
Qed.

Lemma beqb_eq : forall a b, bytes_eqb a b = true -> a = b.
Proof.
  induction a as [|x a IH]; intros [|y b] H; cbn [bytes_eqb] in H; try discriminate; [reflexivity|].
  apply andb_prop in H. destruct H as [Hx Hr].
  apply N.eqb_eq in Hx. apply IH in Hr. subst. reflexivity.
Qed.

Lemma beqb_neq : forall a b, a <> b -> bytes_eqb a b = false.
Proof.
  intros a b Hn. destruct (bytes_eqb a b) eqn:E; [|reflexivity].
  apply beqb_eq in E. contradiction.
Qed.

(** ** envelopes: the generated constants are both 2 *)
Lemma req_unwrap_ok : forall r, r <> [] -> req_unwrap ([] :: r) = Ok r.
Proof.
  intros r Hr. unfold req_unwrap. change Gen.req_min_frames with 2%N.
  destruct r as [|x r]; [congruence|].
  unfold lenN. cbn [length].
  destruct (N.ltb _ _) eqn:Hl; [apply N.ltb_lt in Hl; lia|].
  reflexivity.
Qed.

Lemma req_unwrap_one : req_unwrap [[]] = Err EOther.
Proof. reflexivity. Qed.

Lemma rep_split_ok : forall id p, id <> [] -> p <> [] ->
  rep_split (id :: [] :: p) = Ok ([id; []], p).
Proof.
  intros id p Hid Hp. unfold rep_split. change Gen.rep_min_frames with 2%N.
  destruct id as [|b id]; [congruence|].
  destruct p as [|x p]; [congruence|].
  unfold lenN. cbn [length find_empty is_nil].
  destruct (N.ltb _ _) eqn:Hl; [apply N.ltb_lt in Hl; lia|].
  destruct (Nat.leb _ _) eqn:Hl2; [apply Nat.leb_le in Hl2; lia|].
  reflexivity.
Qed.

(** ** [upd] *)
Lemma nth_error_upd {A} (g : A -> A) : forall l i j,
  nth_error (upd i g l) j = if Nat.eqb j i then option_map g (nth_error l j) else nth_error l j.
Proof.
  induction l as [|a l IH]; intros i j.
  - destruct i; cbn [upd]; destruct j; cbn [nth_error option_map]; destruct (Nat.eqb _ _); reflexivity.
  - destruct i as [|i]; destruct j as [|j]; cbn [upd nth_error option_map Nat.eqb]; try reflexivity.
    apply IH.
Qed.

Lemma nth_error_upd_eq {A} (g : A -> A) l i a :
  nth_error l i = Some a -> nth_error (upd i g l) i = Some (g a).
Proof. intros H. rewrite nth_error_upd, Nat.eqb_refl, H. reflexivity. Qed.

Lemma nth_error_upd_neq {A} (g : A -> A) l i j :
  j <> i -> nth_error (upd i g l) j = nth_error l j.
Proof. intros H. rewrite nth_error_upd. apply Nat.eqb_neq in H. rewrite H. reflexivity. Qed.

Lemma length_upd {A} (g : A -> A) : forall l i, length (upd i g l) = length l.
Proof.
  induction l as [|a l IH]; intros [|i]; cbn [upd length]; try reflexivity.
  rewrite IH. reflexivity.
Qed.

Lemma map_upd_same {A B} (f : A -> B) (g : A -> A) :
  (forall a, f (g a) = f a) -> forall l i, map f (upd i g l) = map f l.
Proof.
  intros Hfg. induction l as [|a l IH]; intros [|i]; cbn [upd map]; try reflexivity.
  - rewrite Hfg. reflexivity.
  - rewrite IH. reflexivity.
Qed.

(** the concatenation of one field over a list of records *)
Definition flat {A B} (f : A -> list B) (l : list A) : list B := concat (map f l).

Lemma flat_cons {A B} (f : A -> list B) a l : flat f (a :: l) = f a ++ flat f l.
Proof. reflexivity. Qed.

Lemma flat_upd_same {A B} (f : A -> list B) (g : A -> A) :
  (forall a, f (g a) = f a) -> forall l i, flat f (upd i g l) = flat f l.
Proof. intros Hfg l i. unfold flat. rewrite map_upd_same by exact Hfg. reflexivity. Qed.

(** the field of record [i] gets [x] appended: the concatenation gains [x] *)
Lemma flat_upd_snoc {A B} (f : A -> list B) (g : A -> A) x : forall l i a,
  nth_error l i = Some a -> f (g a) = f a ++ [x] ->
  Permutation (flat f (upd i g l)) (x :: flat f l).
Proof.
  induction l as [|b l IH]; intros i a Hn Hf.
  - destruct i; discriminate.
  - destruct i as [|i]; cbn [nth_error] in Hn; cbn [upd]; rewrite !flat_cons.
    + inversion Hn; subst b. rewrite Hf, <- app_assoc. cbn [app].
      apply Permutation_sym, Permutation_middle.
    + eapply Permutation_trans; [apply Permutation_app_head, (IH i a Hn Hf)|].
      apply Permutation_sym, Permutation_middle.
Qed.

(** the field of record [i] loses its head [x]: the concatenation loses [x] *)
Lemma flat_upd_pop {A B} (f : A -> list B) (g : A -> A) x : forall l i a,
  nth_error l i = Some a -> f a = x :: f (g a) ->
  Permutation (flat f l) (x :: flat f (upd i g l)).
Proof.
  induction l as [|b l IH]; intros i a Hn Hf.
  - destruct i; discriminate.
  - destruct i as [|i]; cbn [nth_error] in Hn; cbn [upd]; rewrite !flat_cons.
    + inversion Hn; subst b. rewrite Hf. reflexivity.
    + eapply Permutation_trans; [apply Permutation_app_head, (IH i a Hn Hf)|].
      apply Permutation_sym, Permutation_middle.
Qed.

Lemma flat_nth_incl {A B} (f : A -> list B) : forall l i a,
  nth_error l i = Some a -> incl (f a) (flat f l).
Proof.
  induction l as [|b l IH]; intros i a Hn; [destruct i; discriminate|].
  rewrite flat_cons. destruct i as [|i]; cbn [nth_error] in Hn.
  - inversion Hn; subst. apply incl_appl, incl_refl.
  - apply incl_appr. eapply IH; eassumption.
Qed.

Lemma Forall_perm {A} (P : A -> Prop) l l' : Permutation l l' -> Forall P l -> Forall P l'.
Proof.
  intros Hp H. apply Forall_forall. intros x Hx.
  rewrite Forall_forall in H. apply H. eapply Permutation_in; [apply Permutation_sym|]; eassumption.
Qed.

Lemma flat_all_nil {A B} (f : A -> list B) : forall l,
  forallb (fun a => is_nil (f a)) l = true -> flat f l = [].
Proof.
  induction l as [|a l IH]; intros H; [reflexivity|].
  cbn [forallb] in H. apply andb_prop in H. destruct H as [Ha Hl].
  rewrite flat_cons, (IH Hl). destruct (f a); [reflexivity|discriminate].
Qed.

(** ** distinct identities *)
Lemma nodup_map_index {A B} (f : A -> B) l i j a b :
  NoDup (map f l) -> nth_error l i = Some a -> nth_error l j = Some b -> f a = f b -> i = j.
Proof.
  intros Hnd Hi Hj Hab.
  rewrite NoDup_nth_error in Hnd. apply Hnd.
  - apply nth_error_Some. rewrite (map_nth_error f _ _ Hi). discriminate.
  - rewrite (map_nth_error f _ _ Hi), (map_nth_error f _ _ Hj), Hab. reflexivity.
Qed.

Lemma in_map_index {A B} (f : A -> B) l y :
  In y (map f l) -> exists i a, nth_error l i = Some a /\ f a = y.
Proof.
  intros H. apply in_map_iff in H. destruct H as (a & Ha & Hin).
  apply In_nth_error in Hin. destruct Hin as [i Hi]. exists i, a. split; assumption.
Qed.

Lemma find_client_some : forall l id,
  In id (map cl_id l) ->
  exists j cl, find_client id l = Some j /\ nth_error l j = Some cl /\ cl_id cl = id.
Proof.
  induction l as [|c l IH]; intros id Hin; [destruct Hin|].
  cbn [find_client]. destruct (bytes_eqb (cl_id c) id) eqn:E.
  - exists 0, c. apply beqb_eq in E. repeat split; assumption.
  - cbn [map] in Hin. destruct Hin as [Hin|Hin].
    + subst id. rewrite beqb_refl in E. discriminate.
    + destruct (IH id Hin) as (j & cl & Hf & Hn & Hid).
      exists (S j), cl. rewrite Hf. repeat split; assumption.
Qed.

(** ** counting the messages addressed to an identity *)
Definition hd_is (id : bytes) (x : msg) : bool :=
  match x with f :: _ => bytes_eqb f id | [] => false end.
Definition cnt (id : bytes) (l : list msg) : nat := length (filter (hd_is id) l).

Lemma cnt_nil id : cnt id [] = 0.
Proof. reflexivity. Qed.

Lemma cnt_cons id x l : cnt id (x :: l) = (if hd_is id x then 1 else 0) + cnt id l.
Proof. unfold cnt. cbn [filter]. destruct (hd_is id x); reflexivity. Qed.

Lemma cnt_app id l l' : cnt id (l ++ l') = cnt id l + cnt id l'.
Proof. unfold cnt. rewrite filter_app, app_length. reflexivity. Qed.

Lemma cnt_perm id l l' : Permutation l l' -> cnt id l = cnt id l'.
Proof.
  induction 1 as [|x l l' Hp IH|x y l|l l' l'' Hp1 IH1 Hp2 IH2].
  - reflexivity.
  - rewrite !cnt_cons, IH. reflexivity.
  - rewrite !cnt_cons. lia.
  - congruence.
Qed.

Lemma cnt_zero id : forall l, cnt id l = 0 -> Forall (fun x => hd_is id x = false) l.
Proof.
  induction l as [|x l IH]; intros H; [constructor|].
  rewrite cnt_cons in H. destruct (hd_is id x) eqn:E; [lia|].
  constructor; [exact E|apply IH; lia].
Qed.

Lemma cnt_pos_in id : forall l x, In x l -> hd_is id x = true -> 1 <= cnt id l.
Proof.
  induction l as [|y l IH]; intros x Hin Hx; [destruct Hin|].
  rewrite cnt_cons. destruct Hin as [->|Hin].
  - rewrite Hx. lia.
  - specialize (IH x Hin Hx). lia.
Qed.

Lemma hd_is_cons id f r : hd_is id (f :: r) = bytes_eqb f id.
Proof. reflexivity. Qed.

Lemma hd_is_self id r : hd_is id (id :: r) = true.
Proof. apply beqb_refl. Qed.

Lemma hd_is_other id id' r : id' <> id -> hd_is id (id' :: r) = false.
Proof. intros H. cbn [hd_is]. apply beqb_neq. exact H. Qed.

Lemma hd_is_true id x : hd_is id x = true -> exists r, x = id :: r.
Proof.
  destruct x as [|f r]; cbn [hd_is]; intros H; [discriminate|].
  apply beqb_eq in H. subst. eexists; reflexivity.
Qed.

(** ** counting occurrences, for the permutation theorem *)
Definition msg_dec : forall a b : msg, {a = b} + {a <> b} := list_eq_dec (list_eq_dec N.eq_dec).
Definition occ (y : msg) (l : list msg) : nat := count_occ msg_dec l y.

Lemma occ_nil y : occ y [] = 0.
Proof. reflexivity. Qed.
Lemma occ_app y l l' : occ y (l ++ l') = occ y l + occ y l'.
Proof. apply count_occ_app. Qed.
Lemma occ_cons y x l : occ y (x :: l) = occ y [x] + occ y l.
Proof. change (x :: l) with ([x] ++ l). apply occ_app. Qed.
Lemma occ_perm y l l' : Permutation l l' -> occ y l = occ y l'.
Proof. intros H. unfold occ. apply Permutation_count_occ. exact H. Qed.

(* ====================================================================== *)
(** * Shape: identities, number of workers, the DEALER's rotation (unconditional) *)
(* ====================================================================== *)
Definition shape (ids : list bytes) (m : nat) (s : chain) : Prop :=
  map cl_id (ch_clients s) = ids /\ length (ch_workers s) = m /\
  Forall (fun w => w < m) (ch_rr s) /\ (0 < m -> ch_rr s <> []).

Lemma flat_nil_all {A B} (f : A -> list B) : forall l, (forall a, In a l -> f a = []) -> flat f l = [].
Proof.
  induction l as [|a l IH]; intros H; [reflexivity|].
  rewrite flat_cons, (H a (or_introl eq_refl)), IH; [reflexivity|].
  intros b Hb. apply H. right. exact Hb.
Qed.

Lemma shape0 ids m : shape ids m (chain0 ids m).
Proof.
  unfold shape, chain0. cbn [ch_clients ch_workers ch_rr].
  split; [|split; [|split]].
  - rewrite map_map. cbn [client0 cl_id]. apply map_id.
  - apply repeat_length.
  - apply Forall_forall. intros w Hw. apply in_seq in Hw. lia.
  - intros Hm. destruct m; [lia|]. cbn [seq]. discriminate.
Qed.

Ltac chain_cbn :=
  cbn [ch_clients ch_workers ch_rr ch_lost with_clients with_workers lose].
Ltac chain_cbn_in H :=
  cbn [ch_clients ch_workers ch_rr ch_lost with_clients with_workers lose] in H.

Lemma shape_step reply ids m s e : shape ids m s -> shape ids m (cstep reply s e).
Proof.
  intros Hs. pose proof Hs as (Hid & Hlen & Hrr & Hne).
  assert (Hfin : forall cls wks lost,
    map cl_id cls = ids -> length wks = m ->
    shape ids m {| ch_clients := cls; ch_workers := wks; ch_rr := ch_rr s; ch_lost := lost |}).
  { intros cls wks lost H1 H2. unfold shape. chain_cbn. repeat split; assumption. }
  assert (Hcl : forall c g, (forall a, cl_id (g a) = cl_id a) -> map cl_id (upd c g (ch_clients s)) = ids).
  { intros c g Hg. rewrite map_upd_same by exact Hg. exact Hid. }
  assert (Hwk : forall w g, length (upd w g (ch_workers s)) = m).
  { intros w g. rewrite length_upd. exact Hlen. }
  unfold cstep. destruct e as [c p|c|w|w|c].
  - destruct (nth_error (ch_clients s) c) as [cl|]; [|exact Hs].
    destruct (cl_out cl); [exact Hs|].
    apply Hfin; [|exact Hlen]. apply Hcl. reflexivity.
  - destruct (nth_error (ch_clients s) c) as [cl|]; [|exact Hs].
    destruct (cl_up cl) as [|mm up']; [exact Hs|].
    cbv zeta. chain_cbn.
    destruct (ch_rr s) as [|w rest] eqn:Hr.
    + unfold lose. chain_cbn. unfold shape. chain_cbn. rewrite Hr.
      repeat split; try assumption. apply Hcl. reflexivity.
    + unfold shape. chain_cbn. split; [apply Hcl; reflexivity|].
      split; [apply Hwk|]. split.
      * inversion Hrr as [|w' rest' Hw Hrest]; subst.
        apply Forall_app. split; [assumption|]. constructor; [assumption|constructor].
      * intros _. destruct rest; discriminate.
  - destruct (nth_error (ch_workers s) w) as [wk|]; [|exact Hs].
    destruct (wk_in wk) as [|mm in']; [exact Hs|].
    destruct (rep_split mm) as [[env data]|er|ps]; unfold lose; chain_cbn;
      (apply Hfin; [exact Hid|apply Hwk]).
  - destruct (nth_error (ch_workers s) w) as [wk|]; [|exact Hs].
    destruct (wk_out wk) as [|mm out']; [exact Hs|].
    cbv zeta. destruct mm as [|id rest]; [unfold lose; chain_cbn; apply Hfin; [exact Hid|apply Hwk]|].
    chain_cbn. destruct (find_client id (ch_clients s)) as [c|]; unfold lose; chain_cbn.
    + apply Hfin; [apply Hcl; reflexivity|apply Hwk].
    + apply Hfin; [exact Hid|apply Hwk].
  - destruct (nth_error (ch_clients s) c) as [cl|]; [|exact Hs].
    destruct (negb (cl_out cl)); [exact Hs|].
    destruct (cl_down cl) as [|mm down']; [exact Hs|].
    destruct (req_unwrap mm) as [r|er|ps]; unfold lose; chain_cbn;
      (apply Hfin; [apply Hcl; reflexivity|exact Hlen]).
Qed.

Lemma crun_inv reply (I : chain -> Prop) :
  (forall s e, ev_ok e -> I s -> I (cstep reply s e)) ->
  forall es s, Forall ev_ok es -> I s -> I (crun reply s es).
Proof.
  intros Hstep. induction es as [|e es IH]; intros s Hes Hs; [exact Hs|].
  inversion Hes as [|e' es' He Hes']; subst.
  unfold crun. cbn [fold_left]. apply IH; [assumption|]. apply Hstep; assumption.
Qed.

Lemma shape_run reply ids m : forall es s, shape ids m s -> shape ids m (crun reply s es).
Proof.
  induction es as [|e es IH]; intros s Hs; [exact Hs|].
  unfold crun. cbn [fold_left]. apply IH. apply shape_step. exact Hs.
Qed.

Lemma shape_nth_worker ids m s w : shape ids m s -> w < m -> exists wk, nth_error (ch_workers s) w = Some wk.
Proof.
  intros (_ & Hlen & _ & _) Hw.
  destruct (nth_error (ch_workers s) w) as [wk|] eqn:E; [exists wk; reflexivity|].
  apply nth_error_None in E. lia.
Qed.

Lemma shape_id_in ids m s c cl : shape ids m s -> nth_error (ch_clients s) c = Some cl -> In (cl_id cl) ids.
Proof.
  intros (Hid & _) Hc. rewrite <- Hid. apply in_map. eapply nth_error_In. exact Hc.
Qed.

(* ====================================================================== *)
(** * Invariant A (no assumption on [reply]): every request is served or pending exactly once *)
(* ====================================================================== *)
Definition pend_w (wk : worker) : list msg := map (@skipn bytes 2) (wk_in wk).
Definition pend_c (cl : client) : list msg := map (@tl bytes) (cl_up cl).
Definition up_ok (x : msg) : Prop := exists p, p <> [] /\ x = [] :: p.
Definition in_ok (x : msg) : Prop := exists id p, id <> [] /\ p <> [] /\ x = id :: [] :: p.

Record invA (ids : list bytes) (m : nat) (s : chain) : Prop := {
  a_shape : shape ids m s;
  a_up : Forall up_ok (flat cl_up (ch_clients s));
  a_in : Forall in_ok (flat wk_in (ch_workers s));
  a_occ : forall y,
    occ y (flat wk_served (ch_workers s)) + occ y (flat pend_w (ch_workers s)) + occ y (flat pend_c (ch_clients s))
    = occ y (flat cl_sent (ch_clients s))
}.

Lemma invA0 ids m : invA ids m (chain0 ids m).
Proof.
  assert (Hc : forall (f : client -> list msg), (forall id, f (client0 id) = []) -> flat f (map client0 ids) = []).
  { intros f Hf. apply flat_nil_all. intros a Ha. apply in_map_iff in Ha. destruct Ha as (id & <- & _). apply Hf. }
  assert (Hw : forall (f : worker -> list msg), f worker0 = [] -> flat f (repeat worker0 m) = []).
  { intros f Hf. apply flat_nil_all. intros a Ha. apply repeat_spec in Ha. subst a. exact Hf. }
  constructor.
  - apply shape0.
  - unfold chain0. chain_cbn. rewrite Hc by reflexivity. constructor.
  - unfold chain0. chain_cbn. rewrite Hw by reflexivity. constructor.
  - intros y. unfold chain0. chain_cbn.
    rewrite !Hc by reflexivity. rewrite !Hw by reflexivity. reflexivity.
Qed.

Lemma invA_step reply ids m s e :
  Forall (fun i => i <> []) ids -> 0 < m -> ev_ok e -> invA ids m s -> invA ids m (cstep reply s e).
Proof.
  intros Hids Hm Hev HA.
  pose proof (shape_step reply ids m s e (a_shape _ _ _ HA)) as Hs'. revert Hs'.
  destruct HA as [Hsh Hup Hin Hocc]. pose proof Hsh as (Hid & Hlen & Hrr & Hne).
  unfold cstep. destruct e as [c p|c|w|w|c].
  - (* CReq *)
    destruct (nth_error (ch_clients s) c) as [cl|] eqn:Hc; [|intros _; constructor; assumption].
    destruct (cl_out cl) eqn:Hout; [intros _; constructor; assumption|].
    intros Hs'. cbn [ev_ok] in Hev.
    set (g := fun cl0 : client => set_client cl0 (cl_sent cl0 ++ [p]) true (cl_got cl0) (cl_up cl0 ++ [req_wrap p]) (cl_down cl0)).
    assert (Pup : Permutation (flat cl_up (upd c g (ch_clients s))) (([] :: p) :: flat cl_up (ch_clients s))).
    { apply (flat_upd_snoc cl_up g _ _ c cl Hc). reflexivity. }
    assert (Ppc : Permutation (flat pend_c (upd c g (ch_clients s))) (p :: flat pend_c (ch_clients s))).
    { apply (flat_upd_snoc pend_c g _ _ c cl Hc). unfold pend_c, g. cbn [cl_up set_client].
      rewrite map_app. reflexivity. }
    assert (Pse : Permutation (flat cl_sent (upd c g (ch_clients s))) (p :: flat cl_sent (ch_clients s))).
    { apply (flat_upd_snoc cl_sent g _ _ c cl Hc). reflexivity. }
    constructor; chain_cbn.
    + exact Hs'.
    + apply (Forall_perm _ _ _ (Permutation_sym Pup)). constructor; [|exact Hup].
      exists p. split; [exact Hev|reflexivity].
    + exact Hin.
    + intros y. rewrite (occ_perm y _ _ Ppc), (occ_perm y _ _ Pse).
      rewrite (occ_cons y p (flat pend_c _)), (occ_cons y p (flat cl_sent _)).
      specialize (Hocc y). lia.
  - (* CFront *)
    destruct (nth_error (ch_clients s) c) as [cl|] eqn:Hc; [|intros _; constructor; assumption].
    destruct (cl_up cl) as [|mm up'] eqn:Hcup; [intros _; constructor; assumption|].
    cbv zeta. chain_cbn.
    destruct (ch_rr s) as [|w rest] eqn:Hr; [exfalso; apply (Hne Hm); reflexivity|].
    intros Hs'.
    assert (Hwm : w < m) by (inversion Hrr; assumption).
    destruct (shape_nth_worker _ _ _ w Hsh Hwm) as [wk Hw].
    set (g := fun cl0 : client => set_client cl0 (cl_sent cl0) (cl_out cl0) (cl_got cl0) up' (cl_down cl0)).
    set (h := fun wk0 : worker => {| wk_in := wk_in wk0 ++ [cl_id cl :: mm]; wk_out := wk_out wk0; wk_served := wk_served wk0 |}).
    assert (Pup : Permutation (flat cl_up (ch_clients s)) (mm :: flat cl_up (upd c g (ch_clients s)))).
    { apply (flat_upd_pop cl_up g _ _ c cl Hc). exact Hcup. }
    pose proof (Forall_perm _ _ _ Pup Hup) as Hup2.
    inversion Hup2 as [|x l Hmm Hup3]; subst x l.
    destruct Hmm as (p & Hp & ->).
    assert (Ppc : Permutation (flat pend_c (ch_clients s)) (p :: flat pend_c (upd c g (ch_clients s)))).
    { apply (flat_upd_pop pend_c g _ _ c cl Hc). unfold pend_c. rewrite Hcup. reflexivity. }
    assert (Ese : flat cl_sent (upd c g (ch_clients s)) = flat cl_sent (ch_clients s)).
    { apply flat_upd_same. reflexivity. }
    assert (Pin : Permutation (flat wk_in (upd w h (ch_workers s))) ((cl_id cl :: [] :: p) :: flat wk_in (ch_workers s))).
    { apply (flat_upd_snoc wk_in h _ _ w wk Hw). reflexivity. }
    assert (Ppw : Permutation (flat pend_w (upd w h (ch_workers s))) (p :: flat pend_w (ch_workers s))).
    { apply (flat_upd_snoc pend_w h _ _ w wk Hw). unfold pend_w, h. cbn [wk_in].
      rewrite map_app. reflexivity. }
    assert (Esv : flat wk_served (upd w h (ch_workers s)) = flat wk_served (ch_workers s)).
    { apply flat_upd_same. reflexivity. }
    constructor; chain_cbn.
    + exact Hs'.
    + exact Hup3.
    + apply (Forall_perm _ _ _ (Permutation_sym Pin)). constructor; [|exact Hin].
      exists (cl_id cl), p. split; [|split; [exact Hp|reflexivity]].
      rewrite Forall_forall in Hids. apply Hids. exact (shape_id_in ids m s c cl Hsh Hc).
    + intros y. rewrite Esv, Ese, (occ_perm y _ _ Ppw).
      specialize (Hocc y). rewrite (occ_perm y _ _ Ppc) in Hocc.
      rewrite (occ_cons y p (flat pend_w _)).
      rewrite (occ_cons y p (flat pend_c _)) in Hocc. lia.
  - (* CServe *)
    destruct (nth_error (ch_workers s) w) as [wk|] eqn:Hw; [|intros _; constructor; assumption].
    destruct (wk_in wk) as [|mm in'] eqn:Hwin; [intros _; constructor; assumption|].
    assert (Hmm : in_ok mm).
    { rewrite Forall_forall in Hin. apply Hin. apply (flat_nth_incl wk_in _ _ _ Hw).
      rewrite Hwin. left. reflexivity. }
    destruct Hmm as (id & p & Hidne & Hp & ->).
    pose proof (rep_split_ok id p Hidne Hp) as Hsp.
    match goal with |- context [rep_split ?x] =>
      replace (rep_split x) with (Ok ([id; []], p)) by (symmetry; exact Hsp) end.
    cbv beta iota.
    intros Hs'.
    set (h := fun wk0 : worker => {| wk_in := in'; wk_out := wk_out wk0 ++ [rep_wrap (Some [id; []]) (reply p)]; wk_served := wk_served wk0 ++ [p] |}).
    change (upd w _ (ch_workers s)) with (upd w h (ch_workers s)).
    assert (Pin : Permutation (flat wk_in (ch_workers s)) ((id :: [] :: p) :: flat wk_in (upd w h (ch_workers s)))).
    { apply (flat_upd_pop wk_in h _ _ w wk Hw). exact Hwin. }
    assert (Ppw : Permutation (flat pend_w (ch_workers s)) (p :: flat pend_w (upd w h (ch_workers s)))).
    { apply (flat_upd_pop pend_w h _ _ w wk Hw). unfold pend_w. rewrite Hwin. reflexivity. }
    assert (Psv : Permutation (flat wk_served (upd w h (ch_workers s))) (p :: flat wk_served (ch_workers s))).
    { apply (flat_upd_snoc wk_served h _ _ w wk Hw). reflexivity. }
    constructor; chain_cbn.
    + exact Hs'.
    + exact Hup.
    + pose proof (Forall_perm _ _ _ Pin Hin) as Hin2. inversion Hin2; assumption.
    + intros y. rewrite (occ_perm y _ _ Psv).
      specialize (Hocc y). rewrite (occ_perm y _ _ Ppw) in Hocc.
      rewrite (occ_cons y p (flat wk_served _)).
      rewrite (occ_cons y p (flat pend_w _)) in Hocc. lia.
  - (* CBack *)
    destruct (nth_error (ch_workers s) w) as [wk|] eqn:Hw; [|intros _; constructor; assumption].
    destruct (wk_out wk) as [|mm out'] eqn:Hwout; [intros _; constructor; assumption|].
    cbv zeta.
    set (h := fun wk0 : worker => {| wk_in := wk_in wk0; wk_out := out'; wk_served := wk_served wk0 |}).
    assert (Ein : flat wk_in (upd w h (ch_workers s)) = flat wk_in (ch_workers s)) by (apply flat_upd_same; reflexivity).
    assert (Epw : flat pend_w (upd w h (ch_workers s)) = flat pend_w (ch_workers s)) by (apply flat_upd_same; reflexivity).
    assert (Esv : flat wk_served (upd w h (ch_workers s)) = flat wk_served (ch_workers s)) by (apply flat_upd_same; reflexivity).
    assert (Hbase : forall lost,
      shape ids m {| ch_clients := ch_clients s; ch_workers := upd w h (ch_workers s); ch_rr := ch_rr s; ch_lost := lost |} ->
      invA ids m {| ch_clients := ch_clients s; ch_workers := upd w h (ch_workers s); ch_rr := ch_rr s; ch_lost := lost |}).
    { intros lost Hs'. constructor; chain_cbn; [exact Hs'|exact Hup|rewrite Ein; exact Hin|].
      intros y. rewrite Esv, Epw. apply Hocc. }
    destruct mm as [|id rest]; [unfold lose; chain_cbn; apply Hbase|].
    chain_cbn. destruct (find_client id (ch_clients s)) as [c|]; [|unfold lose; chain_cbn; apply Hbase].
    intros Hs'. constructor; chain_cbn.
    + exact Hs'.
    + rewrite flat_upd_same by reflexivity. exact Hup.
    + rewrite Ein. exact Hin.
    + intros y. rewrite Esv, Epw. rewrite !flat_upd_same by reflexivity. apply Hocc.
  - (* CRecv *)
    destruct (nth_error (ch_clients s) c) as [cl|] eqn:Hc; [|intros _; constructor; assumption].
    destruct (negb (cl_out cl)); [intros _; constructor; assumption|].
    destruct (cl_down cl) as [|mm down'] eqn:Hd; [intros _; constructor; assumption|].
    destruct (req_unwrap mm) as [r|er|ps]; unfold lose; chain_cbn; intros Hs';
      (constructor; chain_cbn;
       [exact Hs'
       |rewrite flat_upd_same by reflexivity; exact Hup
       |exact Hin
       |intros y; rewrite !flat_upd_same by reflexivity; apply Hocc]).
Qed.

(* ====================================================================== *)
(** * Invariant B (needs a [reply] that never answers a non-empty request with the empty message) *)
(* ====================================================================== *)
Definition reply_ok (reply : msg -> msg) : Prop := forall d, d <> [] -> reply d <> [].

(** the request a client is waiting on *)
Definition cur (cl : client) : msg := last (cl_sent cl) [].
Definition b2n (b : bool) : nat := if b then 1 else 0.
Definition owned (ids : list bytes) (x : msg) : Prop := exists id, In id ids /\ hd_is id x = true.

(** per client, against the multiset [win] / [wout] of messages queued towards / from the workers
    and the lost messages *)
Record cl_inv (reply : msg -> msg) (win wout lost : list msg) (cl : client) : Prop := {
  ci_got : cl_got cl = map reply (answered cl);
  ci_cnt : length (cl_up cl) + length (cl_down cl) + cnt (cl_id cl) win + cnt (cl_id cl) wout + cnt (cl_id cl) lost
           = b2n (cl_out cl);
  ci_cur : cl_out cl = true -> cur cl <> [];
  ci_up : Forall (fun x => x = [] :: cur cl) (cl_up cl);
  ci_down : Forall (fun x => x = [] :: reply (cur cl)) (cl_down cl);
  ci_in : Forall (fun x => hd_is (cl_id cl) x = true -> x = cl_id cl :: [] :: cur cl) win;
  ci_out : Forall (fun x => hd_is (cl_id cl) x = true -> x = cl_id cl :: [] :: reply (cur cl)) wout
}.

Lemma cl_inv_perm reply win wout lost win' wout' lost' cl :
  Permutation win win' -> Permutation wout wout' -> cnt (cl_id cl) lost = cnt (cl_id cl) lost' ->
  cl_inv reply win wout lost cl -> cl_inv reply win' wout' lost' cl.
Proof.
  intros Pi Po El [Hgot Hcnt Hcur Hup Hdown Hin Hout].
  constructor; try assumption.
  - rewrite <- (cnt_perm _ _ _ Pi), <- (cnt_perm _ _ _ Po), <- El. exact Hcnt.
  - exact (Forall_perm _ _ _ Pi Hin).
  - exact (Forall_perm _ _ _ Po Hout).
Qed.

(** a message of somebody else may come and go *)
Lemma cl_inv_in_add reply win wout lost cl x :
  hd_is (cl_id cl) x = false -> cl_inv reply win wout lost cl -> cl_inv reply (x :: win) wout lost cl.
Proof.
  intros Hx [Hgot Hcnt Hcur Hup Hdown Hin Hout].
  constructor; try assumption.
  - rewrite cnt_cons, Hx. exact Hcnt.
  - constructor; [intros Ht; congruence|exact Hin].
Qed.

Lemma cl_inv_in_del reply win wout lost cl x :
  hd_is (cl_id cl) x = false -> cl_inv reply (x :: win) wout lost cl -> cl_inv reply win wout lost cl.
Proof.
  intros Hx [Hgot Hcnt Hcur Hup Hdown Hin Hout].
  constructor; try assumption.
  - rewrite cnt_cons, Hx in Hcnt. exact Hcnt.
  - inversion Hin; assumption.
Qed.

Lemma cl_inv_out_add reply win wout lost cl x :
  hd_is (cl_id cl) x = false -> cl_inv reply win wout lost cl -> cl_inv reply win (x :: wout) lost cl.
Proof.
  intros Hx [Hgot Hcnt Hcur Hup Hdown Hin Hout].
  constructor; try assumption.
  - rewrite cnt_cons, Hx. exact Hcnt.
  - constructor; [intros Ht; congruence|exact Hout].
Qed.

Lemma cl_inv_out_del reply win wout lost cl x :
  hd_is (cl_id cl) x = false -> cl_inv reply win (x :: wout) lost cl -> cl_inv reply win wout lost cl.
Proof.
  intros Hx [Hgot Hcnt Hcur Hup Hdown Hin Hout].
  constructor; try assumption.
  - rewrite cnt_cons, Hx in Hcnt. exact Hcnt.
  - inversion Hout; assumption.
Qed.

(** a worker turns request [x] into reply [y] for the same identity *)
Lemma cl_inv_serve reply win wout lost cl x y :
  hd_is (cl_id cl) x = hd_is (cl_id cl) y ->
  (hd_is (cl_id cl) y = true -> y = cl_id cl :: [] :: reply (cur cl)) ->
  cl_inv reply (x :: win) wout lost cl -> cl_inv reply win (y :: wout) lost cl.
Proof.
  intros Hxy Hy [Hgot Hcnt Hcur Hup Hdown Hin Hout].
  constructor; try assumption.
  - rewrite cnt_cons in Hcnt. rewrite cnt_cons, <- Hxy. lia.
  - inversion Hin; assumption.
  - constructor; [exact Hy|exact Hout].
Qed.

Record invB (reply : msg -> msg) (ids : list bytes) (m : nat) (s : chain) : Prop := {
  b_shape : shape ids m s;
  b_cl : forall j cl, nth_error (ch_clients s) j = Some cl ->
         cl_inv reply (flat wk_in (ch_workers s)) (flat wk_out (ch_workers s)) (ch_lost s) cl;
  b_own_in : Forall (owned ids) (flat wk_in (ch_workers s));
  b_own_out : Forall (owned ids) (flat wk_out (ch_workers s));
  b_lost : 0 < m -> ch_lost s = []
}.

Lemma invB0 reply ids m : invB reply ids m (chain0 ids m).
Proof.
  assert (Hw : forall (f : worker -> list msg), f worker0 = [] -> flat f (repeat worker0 m) = []).
  { intros f Hf. apply flat_nil_all. intros a Ha. apply repeat_spec in Ha. subst a. exact Hf. }
  constructor.
  - apply shape0.
  - unfold chain0. chain_cbn. rewrite !Hw by reflexivity.
    intros j cl Hj. apply nth_error_In in Hj. apply in_map_iff in Hj. destruct Hj as (id & <- & _).
    constructor; cbn [client0 cl_id cl_sent cl_out cl_got cl_up cl_down]; try constructor.
    intros H; discriminate.
  - unfold chain0. chain_cbn. rewrite Hw by reflexivity. constructor.
  - unfold chain0. chain_cbn. rewrite Hw by reflexivity. constructor.
  - intros _. reflexivity.
Qed.

Lemma owned_client ids m s x : shape ids m s -> owned ids x ->
  exists j cl r, nth_error (ch_clients s) j = Some cl /\ x = cl_id cl :: r /\
                 find_client (cl_id cl) (ch_clients s) = Some j.
Proof.
  intros (Hid & _) (id & Hin & Hx).
  rewrite <- Hid in Hin. destruct (find_client_some _ _ Hin) as (j & cl & Hf & Hn & Hcl).
  destruct (hd_is_true _ _ Hx) as [r ->].
  exists j, cl, r. subst id. repeat split; assumption.
Qed.

Ltac client_cbn := cbn [set_client cl_id cl_sent cl_out cl_got cl_up cl_down].

Lemma invB_step reply ids m s e :
  reply_ok reply -> ids_ok ids -> ev_ok e -> invB reply ids m s -> invB reply ids m (cstep reply s e).
Proof.
  intros Hrep [Hnd Hids] Hev HB.
  pose proof (shape_step reply ids m s e (b_shape _ _ _ _ HB)) as Hs'. revert Hs'.
  destruct HB as [Hsh Hcl Hoin Hoout Hlost]. pose proof Hsh as (Hid & Hlen & Hrr & Hne).
  assert (Hdist : forall i j a b, nth_error (ch_clients s) i = Some a -> nth_error (ch_clients s) j = Some b ->
                  cl_id a = cl_id b -> i = j).
  { intros i j a b Hi Hj Hab. apply (nodup_map_index cl_id (ch_clients s) i j a b); try assumption.
    rewrite Hid. exact Hnd. }
  unfold cstep. destruct e as [c p|c|w|w|c].
  - (* CReq *)
    destruct (nth_error (ch_clients s) c) as [cl|] eqn:Hc; [|intros _; constructor; assumption].
    destruct (cl_out cl) eqn:Hout; [intros _; constructor; assumption|].
    intros Hs'. cbn [ev_ok] in Hev.
    constructor; chain_cbn; try assumption.
    intros j cl' Hj. rewrite nth_error_upd in Hj. destruct (Nat.eqb_spec j c) as [->|Hjc].
    + rewrite Hc in Hj. cbn [option_map] in Hj. inversion Hj; subst cl'. clear Hj.
      destruct (Hcl c cl Hc) as [Hgot Hcnt Hcur Hup Hdown Hin Hout'].
      rewrite Hout in Hcnt. cbn [b2n] in Hcnt.
      unfold answered in Hgot. rewrite Hout in Hgot.
      assert (Eup : cl_up cl = []) by (destruct (cl_up cl); [reflexivity|cbn [length] in Hcnt; lia]).
      assert (Edown : cl_down cl = []) by (destruct (cl_down cl); [reflexivity|cbn [length] in Hcnt; lia]).
      constructor; unfold answered, cur; client_cbn.
      * rewrite removelast_last. exact Hgot.
      * rewrite Eup, Edown. cbn [app length b2n]. lia.
      * intros _. rewrite last_last. exact Hev.
      * rewrite Eup, last_last. cbn [app]. constructor; [reflexivity|constructor].
      * rewrite Edown. constructor.
      * eapply Forall_impl; [|apply (cnt_zero (cl_id cl)); lia].
        intros x Hx Ht. cbv beta in Hx. congruence.
      * eapply Forall_impl; [|apply (cnt_zero (cl_id cl)); lia].
        intros x Hx Ht. cbv beta in Hx. congruence.
    + apply (Hcl j cl' Hj).
  - (* CFront *)
    destruct (nth_error (ch_clients s) c) as [cl|] eqn:Hc; [|intros _; constructor; assumption].
    destruct (cl_up cl) as [|mm up'] eqn:Hcup; [intros _; constructor; assumption|].
    cbv zeta. chain_cbn.
    pose proof (Hcl c cl Hc) as [Hgot Hcnt Hcur Hup Hdown Hin Hout].
    rewrite Hcup in Hup, Hcnt. inversion Hup as [|x l Hmm Hup']; subst x l. subst mm.
    assert (Hother : forall j cl', nth_error (ch_clients s) j = Some cl' -> j <> c ->
                     hd_is (cl_id cl') (cl_id cl :: [] :: cur cl) = false).
    { intros j cl' Hj Hjc. apply hd_is_other. intros E. apply Hjc. symmetry. exact (Hdist c j cl cl' Hc Hj E). }
    assert (Hmine : cl_inv reply ((cl_id cl :: [] :: cur cl) :: flat wk_in (ch_workers s)) (flat wk_out (ch_workers s)) (ch_lost s)
                      (set_client cl (cl_sent cl) (cl_out cl) (cl_got cl) up' (cl_down cl))).
    { constructor; unfold answered, cur; client_cbn; try assumption.
      - rewrite cnt_cons, hd_is_self. cbn [length] in Hcnt. lia.
      - constructor; [intros _; reflexivity|exact Hin]. }
    destruct (ch_rr s) as [|w rest] eqn:Hr.
    + (* no worker: the message is lost (only when m = 0) *)
      intros Hs'. unfold lose. chain_cbn.
      constructor; chain_cbn; try assumption.
      * intros j cl' Hj. rewrite nth_error_upd in Hj. destruct (Nat.eqb_spec j c) as [->|Hjc].
        -- rewrite Hc in Hj. cbn [option_map] in Hj. inversion Hj; subst cl'. clear Hj.
           destruct Hmine as [Hgot2 Hcnt2 Hcur2 Hup2 Hdown2 Hin2 Hout2].
           constructor; try assumption.
           rewrite cnt_app, (cnt_cons _ _ []), cnt_nil.
           rewrite cnt_cons in Hcnt2. lia.
        -- apply (cl_inv_perm reply _ _ (ch_lost s) _ _ _ cl' (Permutation_refl _) (Permutation_refl _)); [|exact (Hcl j cl' Hj)].
           rewrite cnt_app, (cnt_cons _ _ []), cnt_nil, (Hother j cl' Hj Hjc). lia.
      * intros Hm. exfalso. apply (Hne Hm). reflexivity.
    + intros Hs'.
      assert (Hwm : w < m) by (inversion Hrr; assumption).
      destruct (shape_nth_worker _ _ _ w Hsh Hwm) as [wk Hw].
      set (h := fun wk0 : worker => {| wk_in := wk_in wk0 ++ [cl_id cl :: [] :: cur cl]; wk_out := wk_out wk0; wk_served := wk_served wk0 |}).
      change (upd w _ (ch_workers s)) with (upd w h (ch_workers s)).
      assert (Pin : Permutation (flat wk_in (upd w h (ch_workers s))) ((cl_id cl :: [] :: cur cl) :: flat wk_in (ch_workers s))).
      { apply (flat_upd_snoc wk_in h _ _ w wk Hw). reflexivity. }
      assert (Eout : flat wk_out (upd w h (ch_workers s)) = flat wk_out (ch_workers s)).
      { apply flat_upd_same. reflexivity. }
      constructor; chain_cbn; try assumption.
      * rewrite Eout. intros j cl' Hj. rewrite nth_error_upd in Hj.
        apply (cl_inv_perm reply _ _ _ _ _ _ _ (Permutation_sym Pin) (Permutation_refl _) eq_refl).
        destruct (Nat.eqb_spec j c) as [->|Hjc].
        -- rewrite Hc in Hj. cbn [option_map] in Hj. inversion Hj; subst cl'. exact Hmine.
        -- apply cl_inv_in_add; [exact (Hother j cl' Hj Hjc)|exact (Hcl j cl' Hj)].
      * apply (Forall_perm _ _ _ (Permutation_sym Pin)). constructor; [|exact Hoin].
        exists (cl_id cl). split; [exact (shape_id_in ids m s c cl Hsh Hc)|apply hd_is_self].
      * rewrite Eout. exact Hoout.
  - (* CServe *)
    destruct (nth_error (ch_workers s) w) as [wk|] eqn:Hw; [|intros _; constructor; assumption].
    destruct (wk_in wk) as [|mm in'] eqn:Hwin; [intros _; constructor; assumption|].
    assert (Hmmin : In mm (flat wk_in (ch_workers s))).
    { apply (flat_nth_incl wk_in _ _ _ Hw). rewrite Hwin. left. reflexivity. }
    assert (Hown : owned ids mm) by (rewrite Forall_forall in Hoin; exact (Hoin mm Hmmin)).
    destruct (owned_client ids m s mm Hsh Hown) as (j & clj & r & Hj & -> & _).
    pose proof (Hcl j clj Hj) as [Hgot Hcnt Hcur Hup Hdown Hin Hout].
    assert (Er : cl_id clj :: r = cl_id clj :: [] :: cur clj).
    { rewrite Forall_forall in Hin. apply (Hin _ Hmmin). apply hd_is_self. }
    inversion Er; subst r. clear Er.
    assert (Hjout : cl_out clj = true).
    { pose proof (cnt_pos_in (cl_id clj) _ _ Hmmin (hd_is_self _ _)) as Hpos.
      destruct (cl_out clj); [reflexivity|cbn [b2n] in Hcnt; lia]. }
    assert (Hidne : cl_id clj <> []).
    { rewrite Forall_forall in Hids. apply Hids. exact (shape_id_in ids m s j clj Hsh Hj). }
    pose proof (rep_split_ok (cl_id clj) (cur clj) Hidne (Hcur Hjout)) as Hsp.
    match goal with |- context [rep_split ?x] =>
      replace (rep_split x) with (Ok ([cl_id clj; []], cur clj)) by (symmetry; exact Hsp) end.
    cbv beta iota.
    intros Hs'.
    set (h := fun wk0 : worker => {| wk_in := in'; wk_out := wk_out wk0 ++ [cl_id clj :: [] :: reply (cur clj)]; wk_served := wk_served wk0 ++ [cur clj] |}).
    change (upd w _ (ch_workers s)) with (upd w h (ch_workers s)).
    assert (Pin : Permutation (flat wk_in (ch_workers s)) ((cl_id clj :: [] :: cur clj) :: flat wk_in (upd w h (ch_workers s)))).
    { apply (flat_upd_pop wk_in h _ _ w wk Hw). exact Hwin. }
    assert (Pout : Permutation (flat wk_out (upd w h (ch_workers s))) ((cl_id clj :: [] :: reply (cur clj)) :: flat wk_out (ch_workers s))).
    { apply (flat_upd_snoc wk_out h _ _ w wk Hw). reflexivity. }
    constructor; chain_cbn; try assumption.
    + intros k clk Hk.
      apply (cl_inv_perm reply _ _ _ _ _ _ _ (Permutation_refl _) (Permutation_sym Pout) eq_refl).
      apply (cl_inv_serve reply _ _ _ clk (cl_id clj :: [] :: cur clj)).
      * reflexivity.
      * intros Ht. rewrite hd_is_cons in Ht. apply beqb_eq in Ht.
        assert (j = k) by exact (Hdist j k clj clk Hj Hk Ht). subst k.
        rewrite Hj in Hk. inversion Hk; subst clk. reflexivity.
      * apply (cl_inv_perm reply _ _ _ _ _ _ _ Pin (Permutation_refl _) eq_refl). exact (Hcl k clk Hk).
    + pose proof (Forall_perm _ _ _ Pin Hoin) as Hoin2. inversion Hoin2; assumption.
    + apply (Forall_perm _ _ _ (Permutation_sym Pout)). constructor; [|exact Hoout].
      exists (cl_id clj). split; [exact (shape_id_in ids m s j clj Hsh Hj)|apply hd_is_self].
  - (* CBack *)
    destruct (nth_error (ch_workers s) w) as [wk|] eqn:Hw; [|intros _; constructor; assumption].
    destruct (wk_out wk) as [|mm out'] eqn:Hwout; [intros _; constructor; assumption|].
    cbv zeta.
    assert (Hmmin : In mm (flat wk_out (ch_workers s))).
    { apply (flat_nth_incl wk_out _ _ _ Hw). rewrite Hwout. left. reflexivity. }
    assert (Hown : owned ids mm) by (rewrite Forall_forall in Hoout; exact (Hoout mm Hmmin)).
    destruct (owned_client ids m s mm Hsh Hown) as (j & clj & r & Hj & -> & Hfind).
    chain_cbn. rewrite Hfind.
    pose proof (Hcl j clj Hj) as [Hgot Hcnt Hcur Hup Hdown Hin Hout].
    assert (Er : cl_id clj :: r = cl_id clj :: [] :: reply (cur clj)).
    { rewrite Forall_forall in Hout. apply (Hout _ Hmmin). apply hd_is_self. }
    inversion Er; subst r. clear Er.
    intros Hs'.
    set (h := fun wk0 : worker => {| wk_in := wk_in wk0; wk_out := out'; wk_served := wk_served wk0 |}).
    change (upd w _ (ch_workers s)) with (upd w h (ch_workers s)).
    assert (Pout : Permutation (flat wk_out (ch_workers s)) ((cl_id clj :: [] :: reply (cur clj)) :: flat wk_out (upd w h (ch_workers s)))).
    { apply (flat_upd_pop wk_out h _ _ w wk Hw). exact Hwout. }
    assert (Ein : flat wk_in (upd w h (ch_workers s)) = flat wk_in (ch_workers s)).
    { apply flat_upd_same. reflexivity. }
    constructor; chain_cbn; try assumption.
    + rewrite Ein. intros k clk Hk. rewrite nth_error_upd in Hk.
      destruct (Nat.eqb_spec k j) as [->|Hkj].
      * rewrite Hj in Hk. cbn [option_map] in Hk. inversion Hk; subst clk. clear Hk.
        pose proof (cl_inv_perm reply _ _ _ _ _ _ _ (Permutation_refl _) Pout eq_refl (Hcl j clj Hj))
          as [Hgot2 Hcnt2 Hcur2 Hup2 Hdown2 Hin2 Hout2].
        constructor; unfold answered, cur; client_cbn; try assumption.
        -- rewrite cnt_cons, hd_is_self in Hcnt2. rewrite app_length. cbn [length]. lia.
        -- apply Forall_app. split; [exact Hdown|]. constructor; [reflexivity|constructor].
        -- inversion Hout2; assumption.
      * apply (cl_inv_out_del reply _ _ _ clk (cl_id clj :: [] :: reply (cur clj))).
        -- apply hd_is_other. intros E. apply Hkj. symmetry. exact (Hdist j k clj clk Hj Hk E).
        -- apply (cl_inv_perm reply _ _ _ _ _ _ _ (Permutation_refl _) Pout eq_refl). exact (Hcl k clk Hk).
    + rewrite Ein. exact Hoin.
    + pose proof (Forall_perm _ _ _ Pout Hoout) as Hoout2. inversion Hoout2; assumption.
  - (* CRecv *)
    destruct (nth_error (ch_clients s) c) as [cl|] eqn:Hc; [|intros _; constructor; assumption].
    destruct (cl_out cl) eqn:Hout; cbn [negb]; [|intros _; constructor; assumption].
    destruct (cl_down cl) as [|mm down'] eqn:Hd; [intros _; constructor; assumption|].
    pose proof (Hcl c cl Hc) as [Hgot Hcnt Hcur Hup Hdown Hin Hwout].
    rewrite Hd in Hdown, Hcnt. inversion Hdown as [|x l Hmm Hdown']; subst x l. subst mm.
    specialize (Hcur Hout).
    pose proof (req_unwrap_ok _ (Hrep _ Hcur)) as Hun.
    match goal with |- context [req_unwrap ?x] =>
      replace (req_unwrap x) with (Ok (reply (cur cl))) by (symmetry; exact Hun) end.
    intros Hs'.
    constructor; chain_cbn; try assumption.
    intros j cl' Hj. rewrite nth_error_upd in Hj. destruct (Nat.eqb_spec j c) as [->|Hjc].
    + rewrite Hc in Hj. cbn [option_map] in Hj. inversion Hj; subst cl'. clear Hj.
      rewrite Hout in Hcnt. cbn [b2n length] in Hcnt.
      unfold answered in Hgot. rewrite Hout in Hgot.
      constructor; unfold answered; client_cbn; try assumption.
      * assert (Hsne : cl_sent cl <> []).
        { intros E. apply Hcur. unfold cur. rewrite E. reflexivity. }
        transitivity (map reply (removelast (cl_sent cl) ++ [last (cl_sent cl) []])).
        -- rewrite map_app, Hgot. reflexivity.
        -- f_equal. symmetry. apply app_removelast_last. exact Hsne.
      * cbn [b2n]. lia.
      * intros H; discriminate.
    + exact (Hcl j cl' Hj).
Qed.

(* ====================================================================== *)
(** * The invariants hold along every run *)
(* ====================================================================== *)
Lemma invA_run reply ids m es :
  ids_ok ids -> Forall ev_ok es -> 0 < m -> invA ids m (crun reply (chain0 ids m) es).
Proof.
  intros [_ Hids] Hes Hm.
  apply (crun_inv reply (invA ids m)); [|exact Hes|apply invA0].
  intros s e He Hs. apply invA_step; assumption.
Qed.

Lemma invB_run reply ids m es :
  reply_ok reply -> ids_ok ids -> Forall ev_ok es -> invB reply ids m (crun reply (chain0 ids m) es).
Proof.
  intros Hrep Hids Hes.
  apply (crun_inv reply (invB reply ids m)); [|exact Hes|apply invB0].
  intros s e He Hs. apply invB_step; assumption.
Qed.

Lemma reply_nonempty_ok reply : (forall d, reply d <> []) -> reply_ok reply.
Proof. intros H d _. apply H. Qed.

Lemma quiescent_clients s : quiescent s = true ->
  forall cl, In cl (ch_clients s) -> cl_up cl = [] /\ cl_down cl = [].
Proof.
  intros Hq cl Hin. unfold quiescent in Hq. apply andb_prop in Hq. destruct Hq as [Hc _].
  rewrite forallb_forall in Hc. specialize (Hc cl Hin). apply andb_prop in Hc.
  destruct Hc as [H1 H2]. destruct (cl_up cl); [|discriminate]. destruct (cl_down cl); [|discriminate].
  split; reflexivity.
Qed.

Lemma quiescent_workers s : quiescent s = true ->
  flat wk_in (ch_workers s) = [] /\ flat wk_out (ch_workers s) = [].
Proof.
  intros Hq. unfold quiescent in Hq. apply andb_prop in Hq. destruct Hq as [_ Hw].
  rewrite forallb_forall in Hw.
  split; apply flat_all_nil; apply forallb_forall; intros wk Hin;
    specialize (Hw wk Hin); apply andb_prop in Hw; destruct Hw as [H1 H2]; assumption.
Qed.

(* ====================================================================== *)
(** * Theorems 1-3 are FALSE as stated: [reply] may return the empty message

    With [reply := fun _ => []] the worker's answer travels back as [id; []], the ROUTER hands the
    client the one-frame message [[]], and [req_unwrap] refuses it (fewer than
    [Gen.req_min_frames = 2] frames): the reply is dropped into [ch_lost], the client is no longer
    waiting, and nothing is in flight. *)
(* ====================================================================== *)
Local Open Scope N_scope.
Definition cex_reply : msg -> msg := fun _ => [].
Definition cex_ids : list bytes := [[1]].
Definition cex_events : list cev := [CReq 0 [[5]]; CFront 0; CServe 0; CBack 0; CRecv 0].
Definition cex := crun cex_reply (chain0 cex_ids 1) cex_events.
Local Open Scope nat_scope.

Example cex_final :
  cex = {| ch_clients := [ {| cl_id := [1%N]; cl_sent := [[[5%N]]]; cl_out := false; cl_got := [];
                              cl_up := []; cl_down := [] |} ];
           ch_workers := [ {| wk_in := []; wk_out := []; wk_served := [[[5%N]]] |} ];
           ch_rr := [0]; ch_lost := [[[]]] |}
  /\ quiescent cex = true.
Proof. vm_compute. split; reflexivity. Qed.

Lemma cex_ids_ok : ids_ok cex_ids.
Proof.
  split.
  - constructor; [intros H; destruct H|constructor].
  - constructor; [discriminate|constructor].
Qed.

Lemma cex_events_ok : Forall ev_ok cex_events.
Proof. repeat constructor. cbn [ev_ok]. discriminate. Qed.

(** statement 1 (chain_replies_own) is false *)
Example chain_replies_own_false :
  ~ (forall reply ids m es,
      ids_ok ids -> Forall ev_ok es ->
      Forall (fun cl => cl_got cl = map reply (answered cl)) (ch_clients (crun reply (chain0 ids m) es))).
Proof.
  intros H. specialize (H cex_reply cex_ids 1 cex_events cex_ids_ok cex_events_ok).
  vm_compute in H. inversion H as [|x l Hx Hl]. discriminate Hx.
Qed.

(** statement 2 (chain_nothing_lost) is false *)
Example chain_nothing_lost_false :
  ~ (forall reply ids m es,
      ids_ok ids -> Forall ev_ok es -> 0 < m ->
      ch_lost (crun reply (chain0 ids m) es) = []).
Proof.
  intros H. specialize (H cex_reply cex_ids 1 cex_events cex_ids_ok cex_events_ok Nat.lt_0_1).
  vm_compute in H. discriminate H.
Qed.

(** statement 3 (chain_quiescent_complete) is false *)
Example chain_quiescent_complete_false :
  ~ (forall reply ids m es,
      ids_ok ids -> Forall ev_ok es -> 0 < m ->
      quiescent (crun reply (chain0 ids m) es) = true ->
      Forall (fun cl => cl_out cl = false /\ cl_got cl = map reply (cl_sent cl)) (ch_clients (crun reply (chain0 ids m) es))).
Proof.
  intros H. specialize (H cex_reply cex_ids 1 cex_events cex_ids_ok cex_events_ok Nat.lt_0_1).
  assert (Hq : quiescent (crun cex_reply (chain0 cex_ids 1) cex_events) = true) by (vm_compute; reflexivity).
  specialize (H Hq). vm_compute in H. inversion H as [|x l Hx Hl]. destruct Hx as [_ Hx]. discriminate Hx.
Qed.

(* ====================================================================== *)
(** * CORRECTED statements 1-3: extra hypothesis [reply_ok reply]
      ([forall d, d <> [] -> reply d <> []]; implied by [forall d, reply d <> []],
      see [reply_nonempty_ok]).  Everything else is as in the original statements. *)
(* ====================================================================== *)

(** 1'. every reply a client has received is the reply to one of ITS OWN requests, in order, each once *)
Theorem chain_replies_own' : forall reply ids m es,
  reply_ok reply ->
  ids_ok ids -> Forall ev_ok es ->
  Forall (fun cl => cl_got cl = map reply (answered cl)) (ch_clients (crun reply (chain0 ids m) es)).
Proof.
  intros reply ids m es Hrep Hids Hes.
  pose proof (invB_run reply ids m es Hrep Hids Hes) as HB.
  apply Forall_forall. intros cl Hin. apply In_nth_error in Hin. destruct Hin as [j Hj].
  exact (ci_got _ _ _ _ _ (b_cl _ _ _ _ HB j cl Hj)).
Qed.

(** 2'. with at least one worker nothing is ever undeliverable or malformed on the way *)
Theorem chain_nothing_lost' : forall reply ids m es,
  reply_ok reply ->
  ids_ok ids -> Forall ev_ok es -> 0 < m ->
  ch_lost (crun reply (chain0 ids m) es) = [].
Proof.
  intros reply ids m es Hrep Hids Hes Hm.
  exact (b_lost _ _ _ _ (invB_run reply ids m es Hrep Hids Hes) Hm).
Qed.

(** 3'. once nothing is in flight, every client has the replies to all its requests and no request is outstanding *)
Theorem chain_quiescent_complete' : forall reply ids m es,
  reply_ok reply ->
  ids_ok ids -> Forall ev_ok es -> 0 < m ->
  quiescent (crun reply (chain0 ids m) es) = true ->
  Forall (fun cl => cl_out cl = false /\ cl_got cl = map reply (cl_sent cl)) (ch_clients (crun reply (chain0 ids m) es)).
Proof.
  intros reply ids m es Hrep Hids Hes Hm Hq.
  pose proof (invB_run reply ids m es Hrep Hids Hes) as HB.
  destruct (quiescent_workers _ Hq) as [Ewin Ewout].
  pose proof (b_lost _ _ _ _ HB Hm) as Elost.
  apply Forall_forall. intros cl Hin.
  destruct (quiescent_clients _ Hq cl Hin) as [Eup Edown].
  apply In_nth_error in Hin. destruct Hin as [j Hj].
  pose proof (b_cl _ _ _ _ HB j cl Hj) as [Hgot Hcnt _ _ _ _ _].
  rewrite Eup, Edown, Ewin, Ewout, Elost in Hcnt. rewrite !cnt_nil in Hcnt. cbn [length] in Hcnt.
  assert (Hout : cl_out cl = false) by (destruct (cl_out cl); [cbn [b2n] in Hcnt; lia|reflexivity]).
  split; [exact Hout|]. unfold answered in Hgot. rewrite Hout in Hgot. exact Hgot.
Qed.

(** the same three under the simpler hypothesis that [reply] never returns the empty message *)
Corollary chain_replies_own_nonempty : forall reply ids m es,
  (forall d, reply d <> []) ->
  ids_ok ids -> Forall ev_ok es ->
  Forall (fun cl => cl_got cl = map reply (answered cl)) (ch_clients (crun reply (chain0 ids m) es)).
Proof. intros reply ids m es H. apply chain_replies_own', reply_nonempty_ok, H. Qed.

Corollary chain_nothing_lost_nonempty : forall reply ids m es,
  (forall d, reply d <> []) ->
  ids_ok ids -> Forall ev_ok es -> 0 < m ->
  ch_lost (crun reply (chain0 ids m) es) = [].
Proof. intros reply ids m es H. apply chain_nothing_lost', reply_nonempty_ok, H. Qed.

Corollary chain_quiescent_complete_nonempty : forall reply ids m es,
  (forall d, reply d <> []) ->
  ids_ok ids -> Forall ev_ok es -> 0 < m ->
  quiescent (crun reply (chain0 ids m) es) = true ->
  Forall (fun cl => cl_out cl = false /\ cl_got cl = map reply (cl_sent cl)) (ch_clients (crun reply (chain0 ids m) es)).
Proof. intros reply ids m es H. apply chain_quiescent_complete', reply_nonempty_ok, H. Qed.

(* ====================================================================== *)
(** * Statements 4 and 5: true as stated *)
(* ====================================================================== *)

(** 4. at that point the workers together were handed each request exactly once *)
Theorem chain_quiescent_served_once : forall reply ids m es,
  ids_ok ids -> Forall ev_ok es -> 0 < m ->
  quiescent (crun reply (chain0 ids m) es) = true ->
  Permutation (concat (map wk_served (ch_workers (crun reply (chain0 ids m) es))))
              (concat (map cl_sent (ch_clients (crun reply (chain0 ids m) es)))).
Proof.
  intros reply ids m es Hids Hes Hm Hq.
  pose proof (invA_run reply ids m es Hids Hes Hm) as HA.
  set (s := crun reply (chain0 ids m) es) in *.
  assert (Epw : flat pend_w (ch_workers s) = []).
  { apply flat_all_nil. apply forallb_forall. intros wk Hin.
    unfold quiescent in Hq. apply andb_prop in Hq. destruct Hq as [_ Hw].
    rewrite forallb_forall in Hw. specialize (Hw wk Hin). apply andb_prop in Hw. destruct Hw as [H1 _].
    unfold pend_w. destruct (wk_in wk); [reflexivity|discriminate]. }
  assert (Epc : flat pend_c (ch_clients s) = []).
  { apply flat_all_nil. apply forallb_forall. intros cl Hin.
    destruct (quiescent_clients _ Hq cl Hin) as [Eup _]. unfold pend_c. rewrite Eup. reflexivity. }
  apply (Permutation_count_occ msg_dec). intros y.
  pose proof (a_occ _ _ _ HA y) as Hocc. rewrite Epw, Epc, !occ_nil in Hocc.
  unfold occ, flat in Hocc. lia.
Qed.

(** 5. the identities and the number of clients / workers never change *)
Theorem chain_shape : forall reply ids m es,
  map cl_id (ch_clients (crun reply (chain0 ids m) es)) = ids /\ length (ch_workers (crun reply (chain0 ids m) es)) = m.
Proof.
  intros reply ids m es.
  destruct (shape_run reply ids m es _ (shape0 ids m)) as (H1 & H2 & _).
  split; assumption.
Qed.

(** the rotation stays well-formed, too *)
Corollary chain_rr_ok : forall reply ids m es, rr_ok (crun reply (chain0 ids m) es).
Proof.
  intros reply ids m es.
  destruct (shape_run reply ids m es _ (shape0 ids m)) as (_ & H2 & H3 & _).
  unfold rr_ok. rewrite H2. exact H3.
Qed.

(* ====================================================================== *)
Local Open Scope N_scope.
(** non-vacuity: a run with three clients, two workers, payloads with empty frames *)
Definition sample := crun (fun d => [[7]] ++ d) (chain0 [[1];[2;2];[3]] 2)
  [CReq 0 [[10]]; CReq 1 [[];[11]]; CReq 0 [[99]]; CFront 1; CFront 0; CReq 2 [[12];[]]; CServe 0; CServe 1; CFront 2; CBack 1; CBack 0; CRecv 0; CRecv 1;
   CServe 0; CBack 0; CRecv 2; CRecv 2; CReq 0 [[13]]; CFront 0; CServe 1; CBack 1; CRecv 0].
Example sample_quiescent : quiescent sample = true /\ map cl_got (ch_clients sample) = [[[[7]; [10]]; [[7]; [13]]]; [[[7]; []; [11]]]; [[[7]; [12]; []]]].
Proof. vm_compute. split; reflexivity. Qed.
Local Open Scope nat_scope.

(** the sample run also satisfies the corrected statements' hypothesis *)
Example sample_reply_ok : reply_ok (fun d => [[7%N]] ++ d).
Proof. intros d _. discriminate. Qed.

Print Assumptions chain_replies_own'.
Print Assumptions chain_nothing_lost'.
Print Assumptions chain_quiescent_complete'.
Print Assumptions chain_quiescent_served_once.
Print Assumptions chain_shape.
Print Assumptions chain_replies_own_false.
Print Assumptions chain_nothing_lost_false.
Print Assumptions chain_quiescent_complete_false.
Print Assumptions sample_quiescent.
