(** Decoding what the encoder wrote (C01 "decoding those bytes with the library yields the identical
    message") and handshake totality (C03), on top of the decoder theorems. *)
From ZV Require Import Base.Bytes Base.Res Spec.Rfc23 Spec.Stream Model.Codec Model.Handshake
  Proofs.BytesProofs Proofs.CodecEnc Proofs.Decoder Proofs.HandshakeProofs.
From Coq Require Import ZArith ZifyN ZifyNat ZifyBool.
Arguments N.add : simpl never.
Arguments N.mul : simpl never.
Arguments N.ltb : simpl never.
Arguments N.leb : simpl never.
Arguments N.pow : simpl never.

Lemma next_frame_encode more f rest : frame_ok f ->
  next_frame (encode_frame more f ++ rest) = Some ({| sf_cmd := false; sf_more := more; sf_body := f |}, rest).
Proof.
  intros [Hb Hl]. rewrite encode_frame_shape.
  destruct (N.leb_spec (lenN f) 255) as [Hs|Hs].
  - cbn [app next_frame].
    assert (Hbits : N.testbit (if more then 1 else 0) 1 = false /\ N.testbit (if more then 1 else 0) 2 = false /\
                    N.testbit (if more then 1 else 0) 0 = more) by (destruct more; repeat split; reflexivity).
    destruct Hbits as (H1 & H2 & H0). rewrite H1, H2, H0.
    rewrite lenN_app. destruct (N.ltb_spec (lenN f + lenN rest) (lenN f)); [lia|].
    rewrite firstnN_app_exact, skipnN_app_exact. reflexivity.
  - cbn [app next_frame].
    assert (Hbits : N.testbit (if more then 3 else 2) 1 = true /\ N.testbit (if more then 3 else 2) 2 = false /\
                    N.testbit (if more then 3 else 2) 0 = more) by (destruct more; repeat split; reflexivity).
    destruct Hbits as (H1 & H2 & H0). rewrite H1, H2, H0.
    rewrite <- app_assoc.
    assert (Hlen : lenN (be 8 (lenN f) ++ f ++ rest) <? 8 = false).
    { rewrite lenN_app, lenN_be. destruct (N.ltb_spec (N.of_nat 8 + lenN (f ++ rest)) 8); [lia|reflexivity]. }
    rewrite Hlen.
    rewrite (firstn_app_exact (be 8 (lenN f)) (f ++ rest) 8) by (rewrite be_length; reflexivity).
    rewrite (skipn_app_exact (be 8 (lenN f)) (f ++ rest) 8) by (rewrite be_length; reflexivity).
    rewrite of_be_be by (change (256 ^ N.of_nat 8) with (2 ^ 64); assumption).
    rewrite lenN_app. destruct (N.ltb_spec (lenN f + lenN rest) (lenN f)); [lia|].
    rewrite firstnN_app_exact, skipnN_app_exact. reflexivity.
Qed.

Definition acc_app (acc : option (list bytes)) (m : list bytes) : list bytes :=
  match acc with Some v => v ++ m | None => m end.

Lemma spec_frames_encode m : m <> [] -> Forall frame_ok m ->
  forall fuel acc, (length m < fuel)%nat ->
  spec_frames fuel acc (encode_frames m) = [OItem (IMessage (acc_app acc m))].
Proof.
  induction m as [|f m IH]; [congruence|]. intros _ Hall fuel acc Hfuel.
  inversion Hall as [|? ? Hf Hm]; subst.
  destruct fuel as [|fuel]; [lia|].
  destruct m as [|g m'].
  - cbn [encode_frames spec_frames]. rewrite <- (app_nil_r (encode_frame false f)).
    rewrite next_frame_encode by assumption. cbn [sf_cmd sf_more sf_body].
    destruct fuel; [cbn [length] in Hfuel; lia|]. cbn [spec_frames next_frame].
    destruct acc; reflexivity.
  - change (encode_frames (f :: g :: m')) with (encode_frame true f ++ encode_frames (g :: m')).
    cbn [spec_frames]. rewrite next_frame_encode by assumption. cbn [sf_cmd sf_more sf_body].
    rewrite IH; [|congruence|assumption|cbn [length] in *; lia].
    destruct acc as [v|]; cbn [acc_app]; [rewrite <- app_assoc|]; reflexivity.
Qed.

(** The library decoder, fed the default greeting followed by an encoded message under ANY
    segmentation, yields exactly that message. *)
Theorem lib_roundtrip m chunks : wf_msg m ->
  concat chunks = encode_greeting default_greeting ++ encode_frames m ->
  lib_items chunks false = [OItem (IGreeting default_greeting); OItem (IMessage m)].
Proof.
  intros [Hne Hall] Hc. rewrite chunks_eq_whole, Hc, whole_eq_spec_all.
  unfold spec_items.
  set (G := encode_greeting default_greeting).
  assert (HG : length G = 64%nat) by reflexivity.
  rewrite lenN_app. destruct (N.ltb_spec (lenN G + lenN (encode_frames m)) 64) as [H|H];
    [unfold lenN in H; rewrite HG in H; lia|].
  assert (H0 : nth 0 (G ++ encode_frames m) 0 = 255) by (rewrite app_nth1 by (rewrite HG; lia); reflexivity).
  rewrite H0. cbn [N.eqb Pos.eqb negb].
  rewrite (firstn_app_exact G (encode_frames m) 64) by (symmetry; exact HG).
  rewrite (skipn_app_exact G (encode_frames m) 64) by (symmetry; exact HG).
  subst G. rewrite greeting_roundtrip.
  rewrite spec_frames_encode; [reflexivity|assumption|assumption|].
  rewrite app_length. pose proof (encode_frames_length m). lia.
Qed.

(** any chunking of any byte stream decodes to the declarative reading of the concatenation *)
Theorem chunks_eq_spec chunks : lib_items chunks false = spec_items (concat chunks).
Proof. rewrite chunks_eq_whole. apply whole_eq_spec_all. Qed.

(** * C03: the inbound handshake never crashes *)
Lemma lib_items_head_no_panic chunks eof o rest p : lib_items chunks eof = o :: rest -> o <> OPanic p.
Proof.
  intros H. pose proof (lib_never_panics chunks eof) as F. rewrite H in F.
  inversion F; subst. auto.
Qed.

Theorem verdict_never_crashes local chunks eof p : handshake_verdict local chunks eof <> Crash p.
Proof.
  unfold handshake_verdict. pose proof (lib_never_panics chunks eof) as F.
  destruct (lib_items chunks eof) as [|o1 rest]; [discriminate|].
  inversion F as [|? ? H1 Hrest]; subst.
  destruct o1 as [[g|ps|m]|e|q|]; cbn [greet_decision]; try discriminate.
  - destruct (negotiate_cases g) as [-> | ->]; [|discriminate].
    destruct rest as [|o2 rest2]; [discriminate|].
    inversion Hrest as [|? ? H2 _]; subst.
    destruct (ready_decision local (Some o2)) as [i|e|q] eqn:E; try discriminate.
    exfalso. eapply ready_decision_total; [|exact E]. intros q' [= ->]. eapply H2. reflexivity.
  - exfalso. eapply H1. reflexivity.
Qed.
