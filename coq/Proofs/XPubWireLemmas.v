(** Lemmas for Proofs/XPubWire.v: an XPUB socket with one connection k.  The fair-queue invariant
    [single] of Proofs/WorldWireLemmas.v (re-proved here without the PULL/DEALER/ROUTER restriction, none
    of whose proofs needed it), plus [xconn]: k is the only peer, its connection exists, carries the
    subscription list [subs] and has nothing on its wire.  A successful recv rewrites only [c_subs]. *)
From Coq Require Import List Arith NArith Lia Bool.
From ZV Require Import Base.Bytes Base.Res Spec.Stream Model.Codec Model.World Proofs.BytesProofs Proofs.CodecEnc Proofs.Decoder
  Proofs.CodecRoundtrip Proofs.SocketProofs Proofs.PubSubProofs Proofs.LifecycleProofs
  Proofs.WorldStreamDefs Proofs.WorldStreamLemmas Proofs.WorldWireLemmas Proofs.PubSubWireLemmas.
Import ListNotations.
Open Scope N_scope.

(* ====================================================================== *)
(** * Part 1: the subscriber's connection *)
(* ====================================================================== *)

Definition xconn (k : N) (subs : list bytes) (w : world) : Prop :=
  w_peers w = [k] /\ exists c, get_conn k (w_conns w) = Some c /\ c_subs c = subs /\ c_wire c = [].

Lemma xconn_ext k subs w w2 :
  w_peers w2 = w_peers w -> w_conns w2 = w_conns w -> xconn k subs w -> xconn k subs w2.
Proof.
  intros P C (Hp & c & G & S & W). split; [congruence|].
  exists c. rewrite C. split; [exact G|split; [exact S|exact W]].
Qed.

Lemma xconn_upd k subs w c0 c2 : xconn k subs w -> get_conn (c_id c2) (w_conns w) = Some c0 ->
  c_subs c2 = c_subs c0 -> c_wire c2 = c_wire c0 -> xconn k subs (upd_conn w c2).
Proof.
  intros (Hp & c & G & S & W) G0 S2 W2. split; [exact Hp|].
  cbn [upd_conn with_conns set_w w_conns]. rewrite get_put_conn.
  destruct (N.eqb_spec (c_id c2) k) as [E|E].
  - rewrite E, G in G0. injection G0 as <-. exists c2.
    split; [reflexivity|]. split; congruence.
  - exists c. split; [exact G|split; [exact S|exact W]].
Qed.

Lemma fq_next_xconn k subs : forall fuel w r w',
  xconn k subs w -> fq_next fuel w = (r, w') -> xconn k subs w'.
Proof.
  induction fuel as [|f IH]; intros w r w' Hx H.
  - cbn [fq_next] in H. apply pair_equal_spec in H as [_ <-]. exact Hx.
  - rewrite fq_next_S in H. destruct (w_heap w) as [|[p k0] h'] eqn:Hheap.
    + apply pair_equal_spec in H as [_ <-]. exact Hx.
    + cbv zeta in H.
      assert (xconn k subs (with_fq w h' (w_counter w) (w_streams w) (w_reg w))) as Hx1
        by (apply (xconn_ext k subs w); [reflexivity|reflexivity|exact Hx]).
      destruct (negb _); [exact (IH _ _ _ Hx1 H)|].
      destruct (get_conn _ _) as [c|] eqn:Hg; [|exact (IH _ _ _ Hx1 H)].
      pose proof (WorldStreamLemmas.get_conn_id _ _ _ Hg) as Hid.
      destruct (poll_stream _ c) as [[o| |] c'] eqn:HP;
        pose proof (poll_keeps _ _ _ _ HP) as (K1 & K2 & K3); apply poll_id in HP.
      * apply pair_equal_spec in H as [_ <-].
        eapply xconn_ext; [| |apply (xconn_upd k subs _ c c' Hx1)].
        -- reflexivity.
        -- reflexivity.
        -- rewrite HP, Hid. exact Hg.
        -- exact K3.
        -- exact K2.
      * apply IH in H; [exact H|].
        eapply xconn_ext; [| |apply (xconn_upd k subs _ c c' Hx1)].
        -- reflexivity.
        -- reflexivity.
        -- rewrite HP, Hid. exact Hg.
        -- exact K3.
        -- exact K2.
      * apply IH in H; [exact H|].
        eapply xconn_ext; [| |apply (xconn_upd k subs _ c (c_with_halves c' false (c_wr c')) Hx1)].
        -- reflexivity.
        -- reflexivity.
        -- cbn [c_with_halves c_id]. rewrite HP, Hid. exact Hg.
        -- cbn [c_with_halves c_subs]. exact K3.
        -- cbn [c_with_halves c_wire]. exact K2.
Qed.

Lemma do_feed_xconn k subs w k' b : xconn k subs w -> xconn k subs (do_feed w k' b).
Proof.
  intros Hx. unfold do_feed. destruct (get_conn k' (w_conns w)) as [cn|] eqn:Hg; [|exact Hx].
  destruct (is_nil b || c_eof cn); [exact Hx|].
  assert (xconn k subs (upd_conn w (c_with_in cn (c_inq cn ++ [b]) (c_eof cn)))) as Hx1.
  { apply (xconn_upd k subs w cn); [exact Hx| |reflexivity|reflexivity].
    cbn [c_with_in c_id]. rewrite (WorldStreamLemmas.get_conn_id _ _ _ Hg). exact Hg. }
  unfold fq_wake. destruct (reg_get _ _) as [p|]; [|exact Hx1].
  eapply xconn_ext; [| |exact Hx1]; reflexivity.
Qed.

Lemma xconn_attach k : xconn k [] (do_attach (world0 XPUB) k None).
Proof.
  split; [reflexivity|]. exists (new_conn k None).
  split; [|split; reflexivity].
  cbn [do_attach world0 w_type w_conns w_peers with_conns with_peers fq_insert with_fq set_w put_conn get_conn new_conn c_id].
  rewrite N.eqb_refl. reflexivity.
Qed.

(* ====================================================================== *)
(** * Part 2: the single-connection invariant, for any socket type *)
(* ====================================================================== *)

Lemma gsingle_attach t k : has_fq t = true -> single t k [] [] (do_attach (world0 t) k None).
Proof.
  intros Hf.
  destruct (attached_Ginv t [k] Hf) as [T K].
  change (attached t [k]) with (do_attach (world0 t) k None) in *.
  destruct (do_attach_spec (world0 t) k Hf eq_refl) as (_ & _ & C & H & _).
  split; [exact T|]. split; [|split].
  - rewrite H. cbn [world0 w_heap w_counter heap_insert].
    intros k' [E|[]]. cbn [snd] in E. congruence.
  - rewrite C. cbn [world0 w_conns put_conn]. constructor; [reflexivity|constructor].
  - apply (K k). left. reflexivity.
Qed.

Lemma gsingle_feed t k ch os w b : single t k ch os w ->
  single t k (ch ++ filter (fun c => negb (is_nil c)) [b]) os (do_feed w k b).
Proof.
  intros (T & Hh & Ha & Hst).
  split; [rewrite (proj2 (do_feed_streams w k b)); exact T|].
  split; [|split].
  - unfold do_feed. destruct (get_conn k (w_conns w)) as [cn|]; [|exact Hh].
    destruct (is_nil b || c_eof cn); [exact Hh|].
    unfold fq_wake. destruct (reg_get _ _) as [p|]; wproj; [|exact Hh].
    apply heap_only_insert. exact Hh.
  - unfold do_feed. destruct (get_conn k (w_conns w)) as [cn|] eqn:Hg; [|exact Ha].
    destruct (is_nil b || c_eof cn); [exact Ha|].
    rewrite (proj1 (fq_wake_spec _ k)). wproj. apply anns_put; [|exact Ha].
    cbn [c_with_in c_ann]. exact (anns_get _ _ _ Ha Hg).
  - pose proof (st_feed k k b ch false os w Hst) as X.
    cbn [chunks_of closed_of orb] in X. rewrite N.eqb_refl in X. cbn [andb] in X.
    cbn [filter]. destruct (negb (is_nil b)); exact X.
Qed.

Lemma gnext_single t k ch os w r w1 : single t k ch os w ->
  fq_next (next_fuel w) w = (r, w1) ->
  (r = FPending /\ os = expected ch false /\ single t k ch os w1) \/
  (exists i, r = FItem k (OItem i) /\ single t k ch (os ++ [OItem i]) w1) \/
  (exists e, r = FItem k (OErr e) /\ os ++ [OErr e] = expected ch false).
Proof.
  intros (T & Hh & Ha & Hst) H.
  destruct (fq_next_single k _ _ _ _ Hh Ha H) as (Hh1 & Ha1 & Hk).
  apply (fq_next_spec k ch false os) in H; [|unfold next_fuel; lia|exact Hst].
  destruct H as [T1 NP]. rewrite T in T1.
  destruct r as [k' o|].
  - pose proof (Hk k' o eq_refl) as ->. unfold next_post in NP. rewrite N.eqb_refl in NP.
    destruct o as [i|e|s|]; [| |contradiction|contradiction].
    + right. left. exists i. split; [reflexivity|].
      split; [exact T1|split; [exact Hh1|split; [exact Ha1|left; exact NP]]].
    + right. right. exists e. split; [reflexivity|]. apply final_ok_open. exact NP.
  - left. destruct NP as [Hheap Hst1]. split; [reflexivity|]. split.
    + exact (st_complete k ch false os w1 Hst1 Hheap).
    + split; [exact T1|split; [exact Hh1|split; [exact Ha1|exact Hst1]]].
Qed.

(** rewriting the subscription list of connection k keeps the invariant *)
Lemma single_subs t k ch os w c s : single t k ch os w -> get_conn k (w_conns w) = Some c ->
  single t k ch os (upd_conn w (c_with_subs c s)).
Proof.
  intros (T & Hh & Ha & Hst) Hg.
  pose proof (WorldStreamLemmas.get_conn_id _ _ _ Hg) as Hid.
  split; [exact T|]. split; [exact Hh|]. split.
  - wproj. apply anns_put; [|exact Ha]. cbn [c_with_subs c_ann]. exact (anns_get _ _ _ Ha Hg).
  - destruct Hst as [(c0 & Hg0 & Hok & He & Hf & Hm & Hq & Hp)|[Hm Hfin]].
    + rewrite Hg in Hg0. injection Hg0 as <-.
      left. exists (c_with_subs c s). wproj.
      split; [apply get_put_same; cbn [c_with_subs c_id]; exact Hid|].
      split; [exact Hok|]. split; [exact He|]. split; [exact Hf|].
      split; [exact Hm|]. split; [exact Hq|exact Hp].
    + right. split; [exact Hm|exact Hfin].
Qed.

(* ====================================================================== *)
(** * Part 3: the XPUB socket with its one subscriber *)
(* ====================================================================== *)

Definition xst (k : N) (ch : list bytes) (os : list out) (subs : list bytes) (w : world) : Prop :=
  single XPUB k ch os w /\ xconn k subs w.

Lemma xst_attach k : xst k [] [] [] (do_attach (world0 XPUB) k None).
Proof. split; [apply gsingle_attach; reflexivity|apply xconn_attach]. Qed.

Lemma xrun_feeds k : forall chunks ch os subs w ops, xst k ch os subs w ->
  exists w', World.run w (map (OFeed k) chunks ++ ops) = World.run w' ops /\
             xst k (ch ++ filter (fun c => negb (is_nil c)) chunks) os subs w'.
Proof.
  induction chunks as [|b chunks IH]; intros ch os subs w ops Hs.
  - exists w. cbn [map app filter]. rewrite app_nil_r. split; [reflexivity|exact Hs].
  - cbn [map app World.run World.step].
    assert (xst k (ch ++ filter (fun c => negb (is_nil c)) [b]) os subs (do_feed w k b)) as Hs1.
    { destruct Hs as [H1 H2]. split; [apply gsingle_feed; exact H1|apply do_feed_xconn; exact H2]. }
    destruct (IH _ _ _ _ ops Hs1) as (w' & R & Hs').
    exists w'. split; [exact R|].
    rewrite <- app_assoc in Hs'.
    assert (forall l : list bytes, filter (fun c => negb (is_nil c)) [b] ++ filter (fun c => negb (is_nil c)) l
            = filter (fun c => negb (is_nil c)) (b :: l)) as E
      by (intros l; cbn [filter]; destruct (negb (is_nil b)); reflexivity).
    rewrite E in Hs'. exact Hs'.
Qed.

Lemma xstep_recv_unfold w : w_type w = XPUB ->
  World.step w ORecv =
  let '(b, w') := recv_fq (S (length (w_conns w) + fold_right (fun c a => (conn_bytes c + a)%nat) 0%nat (w_conns w))) w in ([b], w').
Proof. intros E. unfold World.step. rewrite E. reflexivity. Qed.

(** a recv when the next thing on the wire is message m: the application gets it, and the subscriber's
    list is updated with it *)
Lemma xrecv_msg k ch os subs w m rest : xst k ch os subs w ->
  expected ch false = os ++ OI m :: rest ->
  exists w', World.step w ORecv = ([BRecv None m], w') /\ xst k ch (os ++ [OI m]) (on_sub_msg subs m) w'.
Proof.
  intros [Hs Hx] He. pose proof Hs as (T & _).
  rewrite xstep_recv_unfold by exact T. rewrite recv_fq_S.
  destruct (fq_next (next_fuel w) w) as [r w1] eqn:HN.
  pose proof (fq_next_xconn k subs _ _ _ _ Hx HN) as Hx1.
  destruct (gnext_single XPUB k ch os w r w1 Hs HN) as [(-> & E & _)|[(i & -> & Hs1)|(e & -> & E)]].
  - exfalso. rewrite He in E. exact (app_cons_not_self _ _ _ E).
  - pose proof Hs1 as (_ & _ & Ha1 & Hst1).
    destruct (st_prefix k ch false _ w1 Hst1) as [rest' P].
    rewrite He, <- app_assoc in P. apply app_inv_head in P. cbn [app] in P.
    injection P as <- _. unfold OI in *.
    destruct Hx1 as (P1 & c & G & S & W).
    exists (upd_conn w1 (c_with_subs c (on_sub_msg (c_subs c) m))). split.
    + rewrite T, G, P1. unfold memN. cbn [existsb]. rewrite N.eqb_refl. reflexivity.
    + split.
      * apply single_subs; [exact Hs1|exact G].
      * split; [exact P1|]. exists (c_with_subs c (on_sub_msg (c_subs c) m)).
        cbn [upd_conn with_conns set_w w_conns].
        split; [apply get_put_same; cbn [c_with_subs c_id]; exact (WorldStreamLemmas.get_conn_id _ _ _ G)|].
        cbn [c_with_subs c_subs c_wire]. split; [rewrite S; reflexivity|exact W].
  - exfalso. rewrite He in E. apply app_inv_head in E. discriminate E.
Qed.

(** a recv when everything has been read *)
Lemma xrecv_end k ch os subs w : xst k ch os subs w ->
  expected ch false = os ->
  exists w', World.step w ORecv = ([BRecvPending], w') /\ w_type w' = XPUB /\ xconn k subs w'.
Proof.
  intros [Hs Hx] He. pose proof Hs as (T & _).
  rewrite xstep_recv_unfold by exact T. rewrite recv_fq_S.
  destruct (fq_next (next_fuel w) w) as [r w1] eqn:HN.
  pose proof (fq_next_xconn k subs _ _ _ _ Hx HN) as Hx1.
  destruct (gnext_single XPUB k ch os w r w1 Hs HN) as [(-> & E & Hs1)|[(i & -> & Hs1)|(e & -> & E)]].
  - exists w1. split; [reflexivity|]. split; [exact (proj1 Hs1)|exact Hx1].
  - exfalso. destruct Hs1 as (_ & _ & _ & Hst1).
    destruct (st_prefix k ch false _ w1 Hst1) as [rest' P].
    rewrite He, <- app_assoc in P. exact (app_cons_not_self _ _ _ P).
  - exfalso. rewrite He in E. symmetry in E. exact (app_cons_not_self _ _ _ E).
Qed.

Lemma xrun_recvs k ch : forall ms2 ms1 subs w ops, xst k ch (map OI ms1) subs w ->
  expected ch false = map OI (ms1 ++ ms2) ->
  exists w', World.run w (repeat ORecv (S (length ms2)) ++ ops) =
               map (BRecv None) ms2 ++ BRecvPending :: World.run w' ops /\
             w_type w' = XPUB /\ xconn k (fold_left on_sub_msg ms2 subs) w'.
Proof.
  induction ms2 as [|m ms2 IH]; intros ms1 subs w ops Hs He.
  - rewrite app_nil_r in He. destruct (xrecv_end k ch _ subs w Hs He) as (w' & R & T' & Hx').
    exists w'. cbn [length repeat app World.run map fold_left]. rewrite R.
    split; [reflexivity|]. split; [exact T'|exact Hx'].
  - rewrite map_app in He. cbn [map] in He.
    destruct (xrecv_msg k ch _ subs w m _ Hs He) as (w1 & R & Hs1).
    change (repeat ORecv (S (length (m :: ms2)))) with (ORecv :: repeat ORecv (S (length ms2))).
    cbn [app World.run]. rewrite R.
    destruct (IH (ms1 ++ [m]) (on_sub_msg subs m) w1 ops) as (w' & R' & T' & Hx').
    + rewrite map_app. exact Hs1.
    + rewrite <- app_assoc, map_app. exact He.
    + exists w'. rewrite R'. cbn [map app fold_left].
      split; [reflexivity|]. split; [exact T'|exact Hx'].
Qed.

(** the publish *)
Lemma xpub_publish j subs w m : w_type w = XPUB -> xconn j subs w -> m <> [] ->
  World.run w [OSend m; OWire j] =
  [BSendOk; BWire j (if matches subs (hd [] m) then encode_frames m else [])].
Proof.
  intros T (P & c & G & S & W) Hm. destruct m as [|first rest]; [congruence|]. cbn [hd].
  assert (NoDup (w_peers w)) as Hnd.
  { rewrite P. constructor; [intros []|constructor]. }
  destruct (publish_exactly_once w first rest Hnd j c G) as (c2 & G2 & _ & W2).
  rewrite P in W2. cbn [memN existsb] in W2. rewrite N.eqb_refl, W, S in W2. cbn [orb andb app] in W2.
  cbn [World.run World.step]. rewrite T. cbn [app]. rewrite G2. cbn [app]. rewrite W2. reflexivity.
Qed.

(** the encoding of a list of well-formed messages determines the list *)
Lemma map_OI_inj : forall a b, map OI a = map OI b -> a = b.
Proof.
  induction a as [|x a IH]; intros [|y b] H; cbn [map] in H; try discriminate; [reflexivity|].
  injection H as E1 E2. rewrite E1, (IH _ E2). reflexivity.
Qed.

Lemma encodings_inj a b : Forall wf_msg a -> Forall wf_msg b ->
  concat (map encode_frames a) = concat (map encode_frames b) -> a = b.
Proof.
  intros Ha Hb E. apply map_OI_inj.
  rewrite <- (expected_encodings a [concat (map encode_frames a)] Ha) by (cbn [concat]; apply app_nil_r).
  rewrite <- (expected_encodings b [concat (map encode_frames a)] Hb) by (cbn [concat]; rewrite app_nil_r; exact E).
  reflexivity.
Qed.

(** XPUB side, packaged *)
Lemma xpub_side j chunks (msgs : list msg) m : Forall wf_msg msgs -> concat chunks = concat (map encode_frames msgs) ->
  m <> [] ->
  World.run (world0 XPUB) (OAttach j None :: map (OFeed j) chunks ++ repeat ORecv (S (length msgs)) ++ [OSend m; OWire j]) =
  BAtt j None :: map (BRecv None) msgs ++
  [BRecvPending; BSendOk; BWire j (if matches (fold_left on_sub_msg msgs []) (hd [] m) then encode_frames m else [])].
Proof.
  intros Hwf Hc Hm. cbn [World.run World.step app]. f_equal.
  destruct (xrun_feeds j chunks [] [] [] _ (repeat ORecv (S (length msgs)) ++ [OSend m; OWire j]) (xst_attach j))
    as (w1 & R1 & Hs1).
  rewrite R1. cbn [app] in Hs1.
  set (ch := filter (fun c => negb (is_nil c)) chunks) in *.
  assert (expected ch false = map OI ([] ++ msgs)) as He.
  { cbn [app]. apply expected_encodings; [exact Hwf|]. unfold ch. rewrite concat_filter_nonnil. exact Hc. }
  destruct (xrun_recvs j ch msgs [] [] w1 [OSend m; OWire j] Hs1 He) as (w2 & R2 & T2 & Hx2).
  rewrite R2. f_equal. f_equal.
  apply xpub_publish; [exact T2|exact Hx2|exact Hm].
Qed.
