(** Lemmas for Proofs/WorldWire.v: the declarative reading of a concatenation of encoded messages from
    the post-greeting reader, the single-connection specialisation of the fair-queue invariant, and the
    round-robin sender with one peer. *)
From Coq Require Import List Arith NArith Lia Bool.
From ZV Require Import Base.Bytes Base.Res Spec.Stream Model.Codec Model.World Proofs.BytesProofs Proofs.CodecEnc Proofs.Decoder
  Proofs.CodecRoundtrip Proofs.WorldStreamDefs Proofs.WorldStreamLemmas.
Import ListNotations.
Open Scope N_scope.

Definition OI (m : msg) : out := OItem (IMessage m).

(** * Part A: decoding a concatenation of encodings from the header state *)

Lemma spec_frames_encode_app m : m <> [] -> Forall frame_ok m ->
  forall fuel acc rest, (length m <= fuel)%nat ->
  spec_frames fuel acc (encode_frames m ++ rest) =
  OItem (IMessage (acc_app acc m)) :: spec_frames (fuel - length m) None rest.
Proof.
  induction m as [|f m IH]; [congruence|]. intros _ Hall fuel acc rest Hfuel.
  inversion Hall as [|? ? Hf Hm]; subst.
  destruct fuel as [|fuel]; [cbn [length] in Hfuel; lia|].
  destruct m as [|g m'].
  - cbn [encode_frames spec_frames]. rewrite next_frame_encode by assumption.
    cbn [sf_cmd sf_more sf_body length Nat.sub]. rewrite Nat.sub_0_r.
    destruct acc; reflexivity.
  - change (encode_frames (f :: g :: m')) with (encode_frame true f ++ encode_frames (g :: m')).
    rewrite <- app_assoc.
    cbn [spec_frames]. rewrite next_frame_encode by assumption. cbn [sf_cmd sf_more sf_body].
    rewrite IH; [|congruence|assumption|cbn [length] in *; lia].
    change (length (f :: g :: m')) with (S (length (g :: m'))). cbn [Nat.sub].
    destruct acc as [v|]; cbn [acc_app]; [rewrite <- app_assoc|]; reflexivity.
Qed.

Lemma spec_frames_encodes : forall ms fuel, Forall wf_msg ms ->
  (length (concat (map encode_frames ms)) < fuel)%nat ->
  spec_frames fuel None (concat (map encode_frames ms)) = map OI ms.
Proof.
  induction ms as [|m ms IH]; intros fuel Hall Hfuel.
  - cbn [map concat]. destruct fuel as [|fuel]; [cbn [map concat length] in Hfuel; lia|]. reflexivity.
  - inversion Hall as [|? ? [Hne Hfr] Hms]; subst.
    cbn [map concat] in *. rewrite app_length in Hfuel.
    pose proof (encode_frames_length m) as L.
    rewrite spec_frames_encode_app; [|assumption|assumption|lia].
    cbn [acc_app]. unfold OI at 1. f_equal. apply IH; [assumption|lia].
Qed.

Lemma settled_reader_pg : settled reader_pg.
Proof.
  split; [reflexivity|right]. exists 1%nat. split; [lia|].
  apply quiet_decode; [lia|]. cbn [reader_pg rd_buf rd_dec dec_post_greeting waiting].
  rewrite lenN_nil. lia.
Qed.

Lemma feed_pg_spec bs : fst (feed reader_pg bs) = spec_frames (S (length bs)) None bs.
Proof.
  rewrite feed_unfold. cbn [reader_pg rd_stop rd_dec rd_buf app].
  assert (forall x : list out * dec * bytes * bool,
    fst (let '(os, d, b, s) := x in (os, {| rd_dec := d; rd_buf := b; rd_stop := s |})) = outs x) as E
    by (intros [[[os d] b] s]; reflexivity).
  rewrite E, drain_after. unfold dec1. change dec_post_greeting with (Hd None).
  apply spec_frames_decode; [lia|apply fuel_for_enough|lia].
Qed.

Lemma concat_filter_nonnil (chunks : list bytes) :
  concat (filter (fun c => negb (is_nil c)) chunks) = concat chunks.
Proof.
  induction chunks as [|c cs IH]; [reflexivity|].
  cbn [filter]. destruct c as [|x c]; cbn [is_nil negb concat app]; rewrite IH; reflexivity.
Qed.

Lemma expected_open_concat chunks : expected chunks false = fst (feed reader_pg (concat chunks)).
Proof.
  unfold expected.
  destruct (feed_all_concat chunks reader_pg settled_reader_pg) as (r' & E & _).
  rewrite E. destruct (feed_all reader_pg chunks) as [os r]. reflexivity.
Qed.

Lemma expected_encodings ms chunks : Forall wf_msg ms ->
  concat chunks = concat (map encode_frames ms) -> expected chunks false = map OI ms.
Proof.
  intros Hall Hc. rewrite expected_open_concat, feed_pg_spec, Hc.
  apply spec_frames_encodes; [assumption|lia].
Qed.

(** * Part B: one connection behind the fair queue *)

Definition heap_only (k : N) (h : list (N * N)) : Prop := forall k', in_heap k' h -> k' = k.
Definition anns_none (l : list conn) : Prop := Forall (fun c => c_ann c = None) l.

Lemma heap_only_insert k p h : heap_only k h -> heap_only k (heap_insert (p, k) h).
Proof. intros H k' Hin. apply in_heap_insert in Hin. destruct Hin as [E|Hin]; [congruence|auto]. Qed.

Lemma heap_only_tl k e h : heap_only k (e :: h) -> heap_only k h.
Proof. intros H k' Hin. apply H. unfold in_heap in *. cbn [map In]. right. exact Hin. Qed.

Lemma heap_only_hd k p k' h : heap_only k ((p, k') :: h) -> k' = k.
Proof. intros H. apply H. unfold in_heap. cbn [map snd In]. left. reflexivity. Qed.

Lemma anns_put c l : c_ann c = None -> anns_none l -> anns_none (put_conn c l).
Proof.
  intros Hc. unfold anns_none. induction l as [|x l IH]; intros H; cbn [put_conn].
  - constructor; [exact Hc|constructor].
  - inversion H as [|? ? Hx Hl]; subst. destruct (c_id x =? c_id c).
    + constructor; assumption.
    + constructor; [exact Hx|apply IH; exact Hl].
Qed.

Lemma anns_get k : forall l c, anns_none l -> get_conn k l = Some c -> c_ann c = None.
Proof.
  unfold anns_none. induction l as [|x l IH]; intros c H Hg; cbn [get_conn] in Hg; [discriminate|].
  inversion H as [|? ? Hx Hl]; subst. destruct (c_id x =? k).
  - injection Hg as <-. exact Hx.
  - eapply IH; eauto.
Qed.

Lemma poll_ann : forall fuel c p c', poll_stream fuel c = (p, c') -> c_ann c' = c_ann c.
Proof.
  induction fuel as [|f IH]; intros c p c' H.
  - cbn [poll_stream] in H. apply pair_equal_spec in H as [_ <-]. reflexivity.
  - rewrite poll_S in H. destruct (dec1 (c_dec c) (c_buf c)) as [[r d1] b1].
    destruct r.
    + destruct (c_inq c) as [|ch rest].
      * cbv zeta in H. destruct (c_eof c); [destruct (is_nil b1)|];
          apply pair_equal_spec in H as [_ <-]; reflexivity.
      * apply IH in H. exact H.
    + apply pair_equal_spec in H as [_ <-]; reflexivity.
    + apply pair_equal_spec in H as [_ <-]; reflexivity.
    + apply pair_equal_spec in H as [_ <-]; reflexivity.
    + apply pair_equal_spec in H as [_ <-]; reflexivity.
Qed.

Lemma fq_next_single k : forall fuel w r w',
  heap_only k (w_heap w) -> anns_none (w_conns w) -> fq_next fuel w = (r, w') ->
  heap_only k (w_heap w') /\ anns_none (w_conns w') /\ (forall k' o, r = FItem k' o -> k' = k).
Proof.
  induction fuel as [|f IH]; intros w r w' Hh Ha H.
  - cbn [fq_next] in H. apply pair_equal_spec in H as [<- <-].
    split; [exact Hh|split; [exact Ha|discriminate]].
  - rewrite fq_next_S in H. destruct (w_heap w) as [|[p k0] h'] eqn:Hheap.
    + apply pair_equal_spec in H as [<- <-]. rewrite Hheap.
      split; [intros k' []|split; [exact Ha|discriminate]].
    + pose proof (heap_only_hd _ _ _ _ Hh) as ->. apply heap_only_tl in Hh.
      cbv zeta in H.
      destruct (negb _); [apply IH in H; [exact H|exact Hh|exact Ha]|].
      destruct (get_conn _ _) as [c|] eqn:Hg; [|apply IH in H; [exact H|exact Hh|exact Ha]].
      cbn [w_conns with_fq set_w] in Hg. pose proof (anns_get _ _ _ Ha Hg) as Hc.
      destruct (poll_stream _ c) as [[o| |] c'] eqn:HP; apply poll_ann in HP; rewrite Hc in HP.
      * apply pair_equal_spec in H as [<- <-]. wproj.
        split; [apply heap_only_insert; exact Hh|].
        split; [apply anns_put; assumption|]. intros k' o' E. injection E as <- _. reflexivity.
      * apply IH in H; [exact H|wproj; exact Hh|wproj; apply anns_put; assumption].
      * apply IH in H; [exact H|wproj; exact Hh|wproj; apply anns_put; [exact HP|exact Ha]].
Qed.

(** the state of a socket of type t whose only connection is k *)
Definition single (t : stype) (k : N) (ch : list bytes) (os : list out) (w : world) : Prop :=
  w_type w = t /\ heap_only k (w_heap w) /\ anns_none (w_conns w) /\ st_inv k ch false os w.

Definition fqt (t : stype) : Prop := t = PULL \/ t = DEALER \/ t = ROUTER.

Lemma fqt_has_fq t : fqt t -> has_fq t = true.
Proof. intros [->|[->| ->]]; reflexivity. Qed.

Lemma single_attach t k : fqt t -> single t k [] [] (do_attach (world0 t) k None).
Proof.
  intros Ht. pose proof (fqt_has_fq t Ht) as Hf.
  destruct (attached_Ginv t [k] Hf) as [T K].
  change (attached t [k]) with (do_attach (world0 t) k None) in *.
  destruct (do_attach_spec (world0 t) k Hf eq_refl) as (_ & _ & C & H & _).
  split; [exact T|]. split; [|split].
  - rewrite H. cbn [world0 w_heap w_counter heap_insert].
    intros k' [E|[]]. cbn [snd] in E. congruence.
  - rewrite C. cbn [world0 w_conns put_conn]. constructor; [reflexivity|constructor].
  - apply (K k). left. reflexivity.
Qed.

Lemma single_feed t k ch os w b : fqt t -> single t k ch os w ->
  single t k (ch ++ filter (fun c => negb (is_nil c)) [b]) os (do_feed w k b).
Proof.
  intros Ht (T & Hh & Ha & Hst).
  split; [rewrite (proj2 (do_feed_streams w k b)); exact T|].
  split; [|split].
  - unfold do_feed. destruct (get_conn k (w_conns w)) as [cn|]; [|exact Hh].
    destruct (is_nil b || c_eof cn); [exact Hh|].
    unfold fq_wake. destruct (reg_get _ _) as [p|]; wproj; [|exact Hh].
    apply heap_only_insert. exact Hh.
  - unfold do_feed. destruct (get_conn k (w_conns w)) as [cn|] eqn:Hg; [|exact Ha].
    destruct (is_nil b || c_eof cn); [exact Ha|].
    rewrite (proj1 (fq_wake_spec _ k)). wproj. apply anns_put; [|exact Ha].
    cbn [c_with_in c_ann]. exact (anns_get _ _ _ Ha Hg).
  - pose proof (st_feed k k b ch false os w Hst) as X.
    cbn [chunks_of closed_of orb] in X. rewrite N.eqb_refl in X. cbn [andb] in X.
    cbn [filter]. destruct (negb (is_nil b)); exact X.
Qed.

Lemma final_ok_open ch os : final_ok ch false os -> os = expected ch false.
Proof.
  intros [[_ Ho]|[Hc _]]; [|discriminate]. unfold expected.
  destruct (feed_all reader_pg ch) as [o r]. cbn [fst] in Ho. symmetry. exact Ho.
Qed.

(** one [fq_next] on a single-connection socket: either nothing (and everything has been read), or the
    next item of k's stream *)
Lemma next_single t k ch os w r w1 : fqt t -> single t k ch os w ->
  fq_next (next_fuel w) w = (r, w1) ->
  (r = FPending /\ os = expected ch false /\ single t k ch os w1) \/
  (exists i, r = FItem k (OItem i) /\ single t k ch (os ++ [OItem i]) w1) \/
  (exists e, r = FItem k (OErr e) /\ os ++ [OErr e] = expected ch false).
Proof.
  intros Ht (T & Hh & Ha & Hst) H.
  destruct (fq_next_single k _ _ _ _ Hh Ha H) as (Hh1 & Ha1 & Hk).
  apply (fq_next_spec k ch false os) in H; [|unfold next_fuel; lia|exact Hst].
  destruct H as [T1 NP]. rewrite T in T1.
  destruct r as [k' o|].
  - pose proof (Hk k' o eq_refl) as ->. unfold next_post in NP. rewrite N.eqb_refl in NP.
    destruct o as [i|e|s|]; [| |contradiction|contradiction].
    + right. left. exists i. split; [reflexivity|].
      split; [exact T1|split; [exact Hh1|split; [exact Ha1|left; exact NP]]].
    + right. right. exists e. split; [reflexivity|]. apply final_ok_open. exact NP.
  - left. destruct NP as [Hheap Hst1]. split; [reflexivity|]. split.
    + exact (st_complete k ch false os w1 Hst1 Hheap).
    + split; [exact T1|split; [exact Hh1|split; [exact Ha1|exact Hst1]]].
Qed.

Definition lbl (t : stype) (k : N) : option N := match t with ROUTER => Some k | _ => None end.

Lemma step_recv_unfold w : fqt (w_type w) ->
  World.step w ORecv =
  let '(b, w') := recv_fq (S (length (w_conns w) + fold_right (fun c a => (conn_bytes c + a)%nat) 0%nat (w_conns w))) w in ([b], w').
Proof. intros [E|[E|E]]; unfold World.step; rewrite E; reflexivity. Qed.

Lemma recv_fq_S f w :
  recv_fq (S f) w =
    match fq_next (next_fuel w) w with
    | (FPending, w1) => (BRecvPending, w1)
    | (FItem k (OItem (IMessage m)), w1) =>
      match w_type w with
      | ROUTER =>
        match get_conn k (w_conns w1) with
        | Some c => match c_ann c with
                    | Some b => (BRecv None (b :: m), w1)
                    | None => (BRecv (Some k) m, w1)
                    end
        | None => (BRecv (Some k) m, w1)
        end
      | REP =>
        match rep_split m with
        | Ok (env, data) => (BRecv None data, with_cur w1 (Some k) (Some env))
        | Err e => (BRecvErr e, w1)
        | Panic _ => (BRecvErr EOther, w1)
        end
      | XPUB =>
        match get_conn k (w_conns w1) with
        | Some c => (BRecv None m, if memN k (w_peers w1) then upd_conn w1 (c_with_subs c (on_sub_msg (c_subs c) m)) else w1)
        | None => (BRecv None m, w1)
        end
      | _ => (BRecv None m, w1)
      end
    | (FItem k (OItem _), w1) => recv_fq f w1
    | (FItem k (OErr e), w1) =>
      let w2 := peer_disconnected w1 k in
      match w_type w with
      | ROUTER => recv_fq f w2
      | _ => (BRecvErr e, w2)
      end
    | (FItem k _, w1) => (BRecvErr EOther, w1)
    end.
Proof. reflexivity. Qed.

Lemma app_cons_not_self {A} (l : list A) x r : l <> l ++ x :: r.
Proof.
  intros E. apply (f_equal (@length A)) in E. rewrite app_length in E. cbn [length] in E. lia.
Qed.

(** a recv when the next thing on the wire is message m *)
Lemma recv_single_msg t k ch os w m rest : fqt t -> single t k ch os w ->
  expected ch false = os ++ OI m :: rest ->
  exists w', World.step w ORecv = ([BRecv (lbl t k) m], w') /\ single t k ch (os ++ [OI m]) w'.
Proof.
  intros Ht Hs He. pose proof Hs as (T & _).
  rewrite step_recv_unfold by (rewrite T; exact Ht). rewrite recv_fq_S.
  destruct (fq_next (next_fuel w) w) as [r w1] eqn:HN.
  destruct (next_single t k ch os w r w1 Ht Hs HN) as [(-> & E & _)|[(i & -> & Hs1)|(e & -> & E)]].
  - exfalso. rewrite He in E. exact (app_cons_not_self _ _ _ E).
  - pose proof Hs1 as (_ & _ & Ha1 & Hst1).
    destruct (st_prefix k ch false _ w1 Hst1) as [rest' P].
    rewrite He, <- app_assoc in P. apply app_inv_head in P. cbn [app] in P.
    injection P as <- _. unfold OI in *.
    exists w1. split; [|exact Hs1]. rewrite T.
    destruct Ht as [->|[->| ->]]; cbn [lbl]; try reflexivity.
    destruct (get_conn k (w_conns w1)) as [c|] eqn:Hg; [|reflexivity].
    rewrite (anns_get _ _ _ Ha1 Hg). reflexivity.
  - exfalso. rewrite He in E. apply app_inv_head in E. discriminate E.
Qed.

(** a recv when everything has been read *)
Lemma recv_single_end t k ch os w : fqt t -> single t k ch os w ->
  expected ch false = os ->
  exists w', World.step w ORecv = ([BRecvPending], w').
Proof.
  intros Ht Hs He. pose proof Hs as (T & _).
  rewrite step_recv_unfold by (rewrite T; exact Ht). rewrite recv_fq_S.
  destruct (fq_next (next_fuel w) w) as [r w1] eqn:HN.
  destruct (next_single t k ch os w r w1 Ht Hs HN) as [(-> & E & _)|[(i & -> & Hs1)|(e & -> & E)]].
  - exists w1. reflexivity.
  - exfalso. destruct Hs1 as (_ & _ & _ & Hst1).
    destruct (st_prefix k ch false _ w1 Hst1) as [rest' P].
    rewrite He, <- app_assoc in P. exact (app_cons_not_self _ _ _ P).
  - exfalso. rewrite He in E. symmetry in E. exact (app_cons_not_self _ _ _ E).
Qed.

Lemma run_feeds t k : fqt t -> forall chunks ch os w ops, single t k ch os w ->
  exists w', World.run w (map (OFeed k) chunks ++ ops) = World.run w' ops /\
             single t k (ch ++ filter (fun c => negb (is_nil c)) chunks) os w'.
Proof.
  intros Ht. induction chunks as [|b chunks IH]; intros ch os w ops Hs.
  - exists w. cbn [map app filter]. rewrite app_nil_r. split; [reflexivity|exact Hs].
  - cbn [map app World.run World.step].
    destruct (IH _ _ _ ops (single_feed t k ch os w b Ht Hs)) as (w' & R & Hs').
    exists w'. split; [exact R|].
    rewrite <- app_assoc in Hs'.
    assert (forall l : list bytes, filter (fun c => negb (is_nil c)) [b] ++ filter (fun c => negb (is_nil c)) l
            = filter (fun c => negb (is_nil c)) (b :: l)) as E
      by (intros l; cbn [filter]; destruct (negb (is_nil b)); reflexivity).
    rewrite E in Hs'. exact Hs'.
Qed.

Lemma run_recvs t k ch : fqt t -> forall ms2 ms1 w, single t k ch (map OI ms1) w ->
  expected ch false = map OI (ms1 ++ ms2) ->
  World.run w (repeat ORecv (S (length ms2))) = map (BRecv (lbl t k)) ms2 ++ [BRecvPending].
Proof.
  intros Ht. induction ms2 as [|m ms2 IH]; intros ms1 w Hs He.
  - rewrite app_nil_r in He. destruct (recv_single_end t k ch _ w Ht Hs He) as (w' & R).
    cbn [length repeat World.run map app]. rewrite R. reflexivity.
  - rewrite map_app in He. cbn [map] in He.
    destruct (recv_single_msg t k ch _ w m _ Ht Hs He) as (w' & R & Hs').
    change (repeat ORecv (S (length (m :: ms2)))) with (ORecv :: repeat ORecv (S (length ms2))).
    cbn [World.run]. rewrite R. cbn [map app]. f_equal.
    apply (IH (ms1 ++ [m])).
    + rewrite map_app. exact Hs'.
    + rewrite <- app_assoc, map_app. exact He.
Qed.

Lemma single_receives t k ms chunks : fqt t ->
  expected (filter (fun c => negb (is_nil c)) chunks) false = map OI ms ->
  World.run (world0 t) (OAttach k None :: map (OFeed k) chunks ++ repeat ORecv (S (length ms))) =
  BAtt k None :: map (BRecv (lbl t k)) ms ++ [BRecvPending].
Proof.
  intros Ht He. cbn [World.run World.step app]. f_equal.
  destruct (run_feeds t k Ht chunks [] [] _ (repeat ORecv (S (length ms))) (single_attach t k Ht))
    as (w' & R & Hs).
  rewrite R. cbn [app] in Hs.
  exact (run_recvs t k (filter (fun c => negb (is_nil c)) chunks) Ht ms [] w' Hs He).
Qed.

(** * Part C: the round-robin sender with one peer *)

Definition sender (t : stype) (k : N) (wire : bytes) (w : world) : Prop :=
  w_type w = t /\ w_rr w = [k] /\ memN k (w_peers w) = true /\
  exists c, get_conn k (w_conns w) = Some c /\ c_id c = k /\ c_wire c = wire.

Definition rrt (t : stype) : Prop := t = PUSH \/ t = DEALER.

Ltac wred := cbn [world0 w_type w_conns w_peers w_rr w_heap w_counter w_streams w_reg w_cur w_env w_subs
  with_conns with_peers with_rr with_fq with_cur set_w upd_conn put_conn get_conn new_conn
  c_id c_wire c_rd c_wr c_with_halves c_with_wire delN filter app has_fq].

Lemma sender_attach t k : rrt t -> sender t k [] (do_attach (world0 t) k None).
Proof.
  intros [-> | ->]; unfold do_attach, sender.
  - wred. unfold drop_halves. wred. rewrite N.eqb_refl. wred. rewrite !N.eqb_refl.
    unfold memN. cbn [existsb]. rewrite N.eqb_refl.
    split; [reflexivity|split; [reflexivity|split; [reflexivity|]]].
    eexists. split; [wred; rewrite N.eqb_refl; reflexivity|split; reflexivity].
  - wred. unfold fq_insert. wred. rewrite N.eqb_refl.
    unfold memN at 1. cbn [existsb]. rewrite N.eqb_refl.
    split; [reflexivity|split; [reflexivity|split; [reflexivity|]]].
    eexists. split; [reflexivity|split; reflexivity].
Qed.

Lemma sender_send t k wire w m : rrt t -> sender t k wire w ->
  exists w', World.step w (OSend m) = ([BSendOk], w') /\ sender t k (wire ++ encode_frames m) w'.
Proof.
  intros Ht (T & Hrr & Hp & c & Hg & Hid & Hw).
  assert (World.step w (OSend m) = let '(b, w') := send_rr (S (length (w_rr w))) w m in ([b], w')) as ->
    by (unfold World.step; rewrite T; destruct Ht as [-> | ->]; reflexivity).
  rewrite Hrr. cbn [length send_rr]. rewrite Hrr. cbn [w_peers with_rr set_w]. rewrite Hp.
  assert (match w_type w with
          | REQ => (BSendOk, with_cur (write_msg (with_rr (with_rr w []) (w_rr (with_rr w []) ++ [k])) k (req_wrap m)) (Some k) (w_env (with_rr (with_rr w []) (w_rr (with_rr w []) ++ [k]))))
          | _ => (BSendOk, write_msg (with_rr (with_rr w []) (w_rr (with_rr w []) ++ [k])) k m)
          end = (BSendOk, write_msg (with_rr (with_rr w []) (w_rr (with_rr w []) ++ [k])) k m)) as ->
    by (rewrite T; destruct Ht as [-> | ->]; reflexivity).
  eexists. split; [reflexivity|].
  unfold write_msg. cbn [w_conns w_rr with_rr set_w app]. rewrite Hg.
  unfold sender. cbn [upd_conn with_conns with_rr set_w w_type w_rr w_peers w_conns].
  split; [exact T|split; [reflexivity|split; [exact Hp|]]].
  eexists. split; [apply get_put_same; cbn [c_with_wire c_id]; exact Hid|].
  cbn [c_with_wire c_id c_wire]. rewrite Hw. split; [exact Hid|reflexivity].
Qed.

Lemma sender_run t k : rrt t -> forall ms wire w, sender t k wire w ->
  World.run w (map OSend ms ++ [OWire k]) =
  repeat BSendOk (length ms) ++ [BWire k (wire ++ concat (map encode_frames ms))].
Proof.
  intros Ht. induction ms as [|m ms IH]; intros wire w Hs.
  - destruct Hs as (_ & _ & _ & c & Hg & _ & Hw).
    cbn [map app World.run World.step concat length repeat]. rewrite Hg, Hw, ?app_nil_r. reflexivity.
  - destruct (sender_send t k wire w m Ht Hs) as (w' & R & Hs').
    cbn [map app World.run length repeat concat]. rewrite R. cbn [app]. f_equal.
    rewrite (IH _ _ Hs'), <- app_assoc. reflexivity.
Qed.
