(** Lemmas for Proofs/WorldStream.v: the lazy [poll_stream] against the eager [feed_all], and the
    per-connection invariant of the fair queue. *)
From Coq Require Import List Arith NArith Lia Bool.
From ZV Require Import Base.Bytes Base.Res Model.Codec Model.World Proofs.Decoder Proofs.WorldStreamDefs.
Import ListNotations.
Open Scope N_scope.

(** * Part 1: [feed_all] facts *)
Lemma feed_stopped r c : rd_stop r = true -> feed r c = ([], r).
Proof. intros H. rewrite feed_unfold, H. reflexivity. Qed.

Lemma feed_all_stopped : forall l r, rd_stop r = true -> feed_all r l = ([], r).
Proof.
  induction l as [|c l IH]; intros r H; cbn [feed_all]; [reflexivity|].
  rewrite (feed_stopped r c H), (IH r H). reflexivity.
Qed.

Lemma feed_all_app : forall l1 l2 r,
  feed_all r (l1 ++ l2) =
  let '(o1, r1) := feed_all r l1 in let '(o2, r2) := feed_all r1 l2 in (o1 ++ o2, r2).
Proof.
  induction l1 as [|c l1 IH]; intros l2 r; cbn [app feed_all].
  - destruct (feed_all r l2); reflexivity.
  - destruct (feed r c) as [o1 r1]. rewrite IH. destruct (feed_all r1 l1) as [oa ra].
    destruct (feed_all ra l2) as [ob rb]. rewrite app_assoc. reflexivity.
Qed.

Lemma feed_rdr_nil d b :
  feed {| rd_dec := d; rd_buf := b; rd_stop := false |} [] =
  let '(os, d', b', s) := drain (S (length b)) d b in (os, {| rd_dec := d'; rd_buf := b'; rd_stop := s |}).
Proof. rewrite feed_unfold. cbn [rd_stop rd_dec rd_buf]. rewrite app_nil_r. reflexivity. Qed.

Lemma feed_rdr_chunk d b ch :
  feed {| rd_dec := d; rd_buf := b; rd_stop := false |} ch =
  feed {| rd_dec := d; rd_buf := b ++ ch; rd_stop := false |} [].
Proof. rewrite !feed_unfold. cbn [rd_stop rd_dec rd_buf]. rewrite app_nil_r. reflexivity. Qed.

(** the eager reading of what a connection in state (d, b) with queued chunks [inq] will still yield *)
Definition eag (d : dec) (b : bytes) (inq : list bytes) : list out * reader :=
  feed_all {| rd_dec := d; rd_buf := b; rd_stop := false |} ([] :: inq).

Lemma eag_item d b inq i d1 b1 :
  1 <= waiting d -> dec1 d b = (RItem i, d1, b1) ->
  eag d b inq = (OItem i :: fst (eag d1 b1 inq), snd (eag d1 b1 inq)).
Proof.
  intros W E. unfold eag. cbn [feed_all]. rewrite !feed_rdr_nil, drain_S, E.
  unfold dec1 in E.
  pose proof (decode_item_strict _ _ _ _ _ _ W E) as L.
  pose proof (decode_item_state _ _ _ _ _ _ E) as W2.
  rewrite (drain_n_irrelevant (length b) (S (length b1)) d1 b1) by lia.
  destruct (drain (S (length b1)) d1 b1) as [[[os d2] b2] s].
  destruct (feed_all _ inq) as [o2 r2]. reflexivity.
Qed.

Lemma eag_err d b inq e d1 b1 :
  dec1 d b = (RErr e, d1, b1) ->
  eag d b inq = ([OErr e], {| rd_dec := d1; rd_buf := b1; rd_stop := true |}).
Proof.
  intros E. unfold eag. cbn [feed_all]. rewrite feed_rdr_nil, drain_S, E.
  rewrite feed_all_stopped by reflexivity. reflexivity.
Qed.

Lemma eag_none_cons d b ch rest d1 b1 :
  dec1 d b = (RNone, d1, b1) -> eag d b (ch :: rest) = eag d1 (b1 ++ ch) rest.
Proof.
  intros E. unfold eag. cbn [feed_all]. rewrite feed_rdr_nil, drain_S, E.
  rewrite feed_rdr_chunk.
  destruct (feed _ []) as [oa ra]. destruct (feed_all ra rest) as [ob rb]. reflexivity.
Qed.

Lemma eag_none_nil d b d1 b1 :
  dec1 d b = (RNone, d1, b1) -> eag d b [] = ([], {| rd_dec := d1; rd_buf := b1; rd_stop := false |}).
Proof.
  intros E. unfold eag. cbn [feed_all]. rewrite feed_rdr_nil, drain_S, E. reflexivity.
Qed.

Lemma eag_quiet d b : wfd d -> lenN b < waiting d ->
  eag d b [] = ([], {| rd_dec := d; rd_buf := b; rd_stop := false |}).
Proof.
  intros W Q. apply eag_none_nil. unfold dec1. apply quiet_decode; [unfold fuel_for; lia|exact Q].
Qed.

Lemma eag_snoc d b inq ch :
  eag d b (inq ++ [ch]) =
  let '(o2, r2) := feed (snd (eag d b inq)) ch in (fst (eag d b inq) ++ o2, r2).
Proof.
  unfold eag. rewrite app_comm_cons, feed_all_app. unfold bytes in *.
  destruct (feed_all _ ([] :: inq)) as [o1 r1]. cbn [feed_all fst snd].
  destruct (feed r1 ch) as [o2 r2]. cbn [feed_all fst snd]. rewrite app_nil_r. reflexivity.
Qed.

(** * Part 2: one poll of a connection *)
Definition rdr (c : conn) : reader := {| rd_dec := c_dec c; rd_buf := c_buf c; rd_stop := false |}.
Definition eager (c : conn) : list out * reader := eag (c_dec c) (c_buf c) (c_inq c).
Definition okc (c : conn) : Prop := wfd (c_dec c) /\ 1 <= waiting (c_dec c).
Definition parked (c : conn) : Prop :=
  c_inq c = [] /\ c_eof c = false /\ lenN (c_buf c) < waiting (c_dec c).

Definition poll_post (c : conn) (p : polled) (c' : conn) : Prop :=
  match p with
  | PItem (OItem i) => okc c' /\ eager c = (OItem i :: fst (eager c'), snd (eager c'))
  | PItem (OErr e) =>
      (fst (eager c) = [OErr e] /\ rd_stop (snd (eager c)) = true) \/
      (e = EIoEof /\ c_eof c = true /\ fst (eager c) = [] /\ feed_eof (snd (eager c)) = [OErr EIoEof])
  | PItem _ => False
  | PPending => okc c' /\ parked c' /\ eager c = ([], rdr c')
  | PEnded => c_eof c = true /\ fst (eager c) = [] /\ feed_eof (snd (eager c)) = [OEnd]
  end.

Lemma poll_S f c :
  poll_stream (S f) c =
    match dec1 (c_dec c) (c_buf c) with
    | (RItem i, d, b) => (PItem (OItem i), {| c_id := c_id c; c_ann := c_ann c; c_inq := c_inq c; c_eof := c_eof c; c_dec := d; c_buf := b; c_wire := c_wire c; c_subs := c_subs c; c_rd := c_rd c; c_wr := c_wr c |})
    | (RErr e, d, b) => (PItem (OErr e), {| c_id := c_id c; c_ann := c_ann c; c_inq := c_inq c; c_eof := c_eof c; c_dec := d; c_buf := b; c_wire := c_wire c; c_subs := c_subs c; c_rd := c_rd c; c_wr := c_wr c |})
    | (RPanic s, d, b) => (PItem (OPanic s), c)
    | (RFuel, d, b) => (PItem (OPanic PAssert), c)
    | (RNone, d, b) =>
      match c_inq c with
      | chunk :: rest =>
        poll_stream f {| c_id := c_id c; c_ann := c_ann c; c_inq := rest; c_eof := c_eof c; c_dec := d; c_buf := b ++ chunk; c_wire := c_wire c; c_subs := c_subs c; c_rd := c_rd c; c_wr := c_wr c |}
      | [] =>
        let c' := {| c_id := c_id c; c_ann := c_ann c; c_inq := []; c_eof := c_eof c; c_dec := d; c_buf := b; c_wire := c_wire c; c_subs := c_subs c; c_rd := c_rd c; c_wr := c_wr c |} in
        if c_eof c then (if is_nil b then (PEnded, c') else (PItem (OErr EIoEof), c'))
        else (PPending, c')
      end
    end.
Proof. reflexivity. Qed.

Lemma poll_spec : forall fuel c p c',
  okc c -> (length (c_inq c) < fuel)%nat -> poll_stream fuel c = (p, c') ->
  c_id c' = c_id c /\ c_eof c' = c_eof c /\ poll_post c p c'.
Proof.
  induction fuel as [|f IH]; intros c p c' [W W1] Hf H; [lia|].
  rewrite poll_S in H.
  destruct c as [id ann inq eof d b wire subs rd wr].
  cbn [c_id c_ann c_inq c_eof c_dec c_buf c_wire c_subs c_rd c_wr] in *.
  destruct (dec1 d b) as [[r d1] b1] eqn:E.
  pose proof (decode_wfd _ _ _ _ _ _ W E) as Wd1.
  destruct r as [|i|e|s|].
  - (* RNone *)
    pose proof (decode_none_quiet _ _ _ _ _ E) as Q.
    destruct inq as [|ch rest].
    + cbv zeta in H. destruct eof.
      * destruct b1 as [|x b1]; cbn [is_nil] in H; apply pair_equal_spec in H as [<- <-];
          cbn [c_id c_eof]; (split; [reflexivity|split; [reflexivity|]]);
          unfold poll_post, eager; cbn [c_dec c_buf c_inq c_eof];
          rewrite (eag_none_nil _ _ _ _ E); cbn [fst snd].
        -- split; [reflexivity|split; reflexivity].
        -- right. split; [reflexivity|split; [reflexivity|split; reflexivity]].
      * apply pair_equal_spec in H as [<- <-]. cbn [c_id c_eof].
        split; [reflexivity|split; [reflexivity|]].
        unfold poll_post, eager, okc, parked, rdr. cbn [c_dec c_buf c_inq c_eof].
        rewrite (eag_none_nil _ _ _ _ E).
        split; [split; [exact Wd1|lia]|]. split; [|reflexivity].
        split; [reflexivity|split; [reflexivity|exact Q]].
    + cbn [length] in Hf.
      apply IH in H; [|split; cbn [c_dec]; [exact Wd1|lia]|cbn [c_inq]; lia].
      cbn [c_id c_eof] in H. destruct H as (Hid & He & HP).
      split; [exact Hid|split; [exact He|]].
      unfold poll_post, eager in *. cbn [c_dec c_buf c_inq c_eof] in *.
      rewrite (eag_none_cons _ _ _ _ _ _ E). exact HP.
  - (* RItem *)
    apply pair_equal_spec in H as [<- <-]. cbn [c_id c_eof].
    split; [reflexivity|split; [reflexivity|]].
    unfold poll_post, eager, okc. cbn [c_dec c_buf c_inq].
    split.
    + split; [exact Wd1|]. unfold dec1 in E. rewrite (decode_item_state _ _ _ _ _ _ E). lia.
    + apply eag_item; assumption.
  - (* RErr *)
    apply pair_equal_spec in H as [<- <-]. cbn [c_id c_eof].
    split; [reflexivity|split; [reflexivity|]].
    unfold poll_post, eager. cbn [c_dec c_buf c_inq].
    left. rewrite (eag_err _ _ _ _ _ _ E). split; reflexivity.
  - exfalso. exact (dec1_not_panic _ _ _ _ _ W E).
  - exfalso. exact (dec1_not_fuel _ _ _ _ E).
Qed.

Lemma parked_eager c : okc c -> parked c -> eager c = ([], rdr c).
Proof.
  intros [W _] (Hi & _ & Q). unfold eager, rdr. rewrite Hi. apply eag_quiet; assumption.
Qed.

Lemma poll_id : forall fuel c p c', poll_stream fuel c = (p, c') -> c_id c' = c_id c.
Proof.
  induction fuel as [|f IH]; intros c p c' H.
  - cbn [poll_stream] in H. apply pair_equal_spec in H as [_ <-]. reflexivity.
  - rewrite poll_S in H. destruct (dec1 (c_dec c) (c_buf c)) as [[r d1] b1].
    destruct r.
    + destruct (c_inq c) as [|ch rest].
      * cbv zeta in H. destruct (c_eof c); [destruct (is_nil b1)|];
          apply pair_equal_spec in H as [_ <-]; reflexivity.
      * apply IH in H. exact H.
    + apply pair_equal_spec in H as [_ <-]; reflexivity.
    + apply pair_equal_spec in H as [_ <-]; reflexivity.
    + apply pair_equal_spec in H as [_ <-]; reflexivity.
    + apply pair_equal_spec in H as [_ <-]; reflexivity.
Qed.

(** * Part 3: tables *)
Lemma get_conn_id : forall l k c, get_conn k l = Some c -> c_id c = k.
Proof.
  induction l as [|x l IH]; intros k c H; cbn [get_conn] in H; [discriminate|].
  destruct (N.eqb_spec (c_id x) k) as [E|E]; [|eauto].
  injection H as <-. exact E.
Qed.

Lemma get_put_conn : forall l c k,
  get_conn k (put_conn c l) = if c_id c =? k then Some c else get_conn k l.
Proof.
  induction l as [|x l IH]; intros c k; cbn [put_conn get_conn]; [reflexivity|].
  destruct (N.eqb_spec (c_id x) (c_id c)) as [E|E]; cbn [get_conn].
  - destruct (N.eqb_spec (c_id c) k) as [E2|E2]; [reflexivity|].
    destruct (N.eqb_spec (c_id x) k); [congruence|reflexivity].
  - rewrite IH. destruct (N.eqb_spec (c_id x) k) as [E2|E2]; [|reflexivity].
    destruct (N.eqb_spec (c_id c) k); [congruence|reflexivity].
Qed.

Lemma get_put_other l c k : c_id c <> k -> get_conn k (put_conn c l) = get_conn k l.
Proof. intros H. rewrite get_put_conn. destruct (N.eqb_spec (c_id c) k); [contradiction|reflexivity]. Qed.

Lemma get_put_same l c k : c_id c = k -> get_conn k (put_conn c l) = Some c.
Proof. intros H. rewrite get_put_conn. destruct (N.eqb_spec (c_id c) k); [reflexivity|contradiction]. Qed.

Lemma memN_delN_other k k' l : k <> k' -> memN k (delN k' l) = memN k l.
Proof.
  intros Hne. unfold memN, delN. induction l as [|x l IH]; cbn [filter existsb]; [reflexivity|].
  destruct (N.eqb_spec x k') as [E|E]; cbn [negb existsb].
  - destruct (N.eqb_spec k x); [congruence|]. cbn [orb]. exact IH.
  - rewrite IH. reflexivity.
Qed.

Lemma memN_delN_same k l : memN k (delN k l) = false.
Proof.
  unfold memN, delN. induction l as [|x l IH]; cbn [filter existsb]; [reflexivity|].
  destruct (N.eqb_spec x k) as [E|E]; cbn [negb existsb]; [exact IH|].
  destruct (N.eqb_spec k x); [congruence|]. cbn [orb]. exact IH.
Qed.

Lemma memN_snoc k l x : memN k (l ++ [x]) = memN k l || (k =? x).
Proof. unfold memN. rewrite existsb_app. cbn [existsb]. rewrite orb_false_r. reflexivity. Qed.

Definition in_heap (k : N) (h : list (N * N)) : Prop := In k (map snd h).
Definition in_reg (k : N) (r : list (N * N)) : Prop := In k (map fst r).

Lemma in_heap_insert k p k' h : in_heap k (heap_insert (p, k') h) <-> k' = k \/ in_heap k h.
Proof.
  unfold in_heap. induction h as [|[q x] h IH]; cbn [heap_insert map snd fst In].
  - tauto.
  - destruct (p <? q); cbn [map snd In]; [tauto|]. rewrite IH. tauto.
Qed.

Lemma in_reg_del k k' r : in_reg k (reg_del k' r) <-> in_reg k r /\ k <> k'.
Proof.
  unfold in_reg, reg_del. induction r as [|[a p] r IH]; cbn [filter map fst In].
  - tauto.
  - destruct (N.eqb_spec a k') as [E|E]; cbn [negb map fst In].
    + rewrite IH. split; [tauto|]. intros [[H|H] Hn]; [congruence|tauto].
    + rewrite IH. split; [|tauto]. intros [H|H]; [|tauto]. split; [tauto|congruence].
Qed.

Lemma reg_get_none k r : reg_get k r = None -> ~ in_reg k r.
Proof.
  unfold in_reg. induction r as [|[a p] r IH]; cbn [reg_get map fst In]; [tauto|].
  destruct (N.eqb_spec a k) as [E|E]; [discriminate|]. intros H [F|F]; [contradiction|].
  exact (IH H F).
Qed.

(** * Part 4: the per-connection invariant *)
Definition final_ok (chunks : list bytes) (closed : bool) (outs : list out) : Prop :=
  (rd_stop (snd (feed_all reader_pg chunks)) = true /\ fst (feed_all reader_pg chunks) = outs) \/
  (closed = true /\ expected chunks true = outs).

Definition live_inv (k : N) (chunks : list bytes) (closed : bool) (outs : list out) (w : world) : Prop :=
  exists c, get_conn k (w_conns w) = Some c /\ okc c /\ c_eof c = closed /\
    feed_all reader_pg chunks = (outs ++ fst (eager c), snd (eager c)) /\
    memN k (w_streams w) = true /\
    (in_heap k (w_heap w) \/ in_reg k (w_reg w)) /\
    (in_reg k (w_reg w) -> parked c).

Definition done_inv (k : N) (chunks : list bytes) (closed : bool) (outs : list out) (w : world) : Prop :=
  memN k (w_streams w) = false /\ final_ok chunks closed outs.

Definition st_inv k chunks closed outs w : Prop :=
  live_inv k chunks closed outs w \/ done_inv k chunks closed outs w.

Lemma st_ext k ch cl outs w w2 :
  get_conn k (w_conns w2) = get_conn k (w_conns w) ->
  memN k (w_streams w2) = memN k (w_streams w) ->
  (in_heap k (w_heap w) \/ in_reg k (w_reg w) -> in_heap k (w_heap w2) \/ in_reg k (w_reg w2)) ->
  (in_reg k (w_reg w2) -> in_reg k (w_reg w)) ->
  st_inv k ch cl outs w -> st_inv k ch cl outs w2.
Proof.
  intros Hc Hs Hq Hr [(c & Hg & Hok & He & Hf & Hm & Hq0 & Hp)|[Hm Hfin]].
  - left. exists c. rewrite Hc, Hs. repeat split; try assumption; try (apply Hok).
    + apply Hq, Hq0.
    + apply Hp, Hr, H.
    + apply Hp, Hr, H.
    + apply Hp, Hr, H.
  - right. split; [rewrite Hs; exact Hm|exact Hfin].
Qed.

Lemma final_ok_feed ch cl outs l : final_ok ch cl outs -> final_ok (if cl then ch else ch ++ l) cl outs.
Proof.
  intros [[Hs Ho]|[Hc He]].
  - destruct cl; [left; split; assumption|]. left. rewrite feed_all_app.
    destruct (feed_all reader_pg ch) as [os r]. cbn [fst snd] in *.
    rewrite (feed_all_stopped l r Hs). cbn [fst snd]. rewrite app_nil_r. split; assumption.
  - subst cl. right. split; [reflexivity|exact He].
Qed.

Lemma final_ok_eof ch cl outs x : final_ok ch cl outs -> final_ok ch (cl || x) outs.
Proof.
  intros [H|[Hc He]]; [left; exact H|]. subst cl. right. split; [reflexivity|exact He].
Qed.

Lemma st_prefix k ch cl outs w : st_inv k ch cl outs w -> is_prefix_of outs (expected ch cl).
Proof.
  intros [(c & _ & _ & _ & Hf & _)|[_ [[Hs Ho]|[Hc He]]]]; unfold is_prefix_of.
  - unfold expected. rewrite Hf. destruct cl.
    + eexists. rewrite <- app_assoc. reflexivity.
    + eexists. reflexivity.
  - unfold expected. destruct (feed_all reader_pg ch) as [os r]. cbn [fst snd] in *. subst os.
    exists []. rewrite app_nil_r. destruct cl; [|reflexivity].
    unfold feed_eof. rewrite Hs. apply app_nil_r.
  - subst cl. exists []. rewrite app_nil_r. exact He.
Qed.

Lemma st_complete k ch cl outs w : st_inv k ch cl outs w -> w_heap w = [] -> outs = expected ch cl.
Proof.
  intros [(c & _ & Hok & He & Hf & _ & Hq & Hp)|[_ [[Hs Ho]|[Hc He]]]] Hh.
  - rewrite Hh in Hq. destruct Hq as [[]|Hr]. specialize (Hp Hr).
    rewrite (parked_eager c Hok Hp) in Hf. cbn [fst snd] in Hf.
    destruct Hp as (_ & Hce & _). rewrite Hce in He. subst cl.
    unfold expected. rewrite Hf. symmetry. apply app_nil_r.
  - unfold expected. destruct (feed_all reader_pg ch) as [os r]. cbn [fst snd] in *. subst os.
    destruct cl; [|reflexivity]. unfold feed_eof. rewrite Hs. symmetry. apply app_nil_r.
  - subst cl. symmetry. exact He.
Qed.

(** * Part 5: arrivals and closes *)
Lemma fq_wake_spec w k' :
  w_conns (fq_wake w k') = w_conns w /\ w_streams (fq_wake w k') = w_streams w /\
  w_type (fq_wake w k') = w_type w /\
  (forall k, in_heap k (w_heap w) -> in_heap k (w_heap (fq_wake w k'))) /\
  (forall k, in_reg k (w_reg (fq_wake w k')) <-> in_reg k (w_reg w) /\ k <> k') /\
  (in_reg k' (w_reg w) -> in_heap k' (w_heap (fq_wake w k'))).
Proof.
  unfold fq_wake. destruct (reg_get k' (w_reg w)) as [p|] eqn:E;
    cbn [w_conns w_streams w_type w_heap w_reg with_fq set_w].
  - split; [reflexivity|split; [reflexivity|split; [reflexivity|split; [|split]]]].
    + intros k H. apply in_heap_insert. right. exact H.
    + intros k. apply in_reg_del.
    + intros _. apply in_heap_insert. left. reflexivity.
  - pose proof (reg_get_none _ _ E) as Hn.
    split; [reflexivity|split; [reflexivity|split; [reflexivity|split; [|split]]]].
    + intros k H. exact H.
    + intros k. split; [|tauto]. intros H. split; [exact H|]. intros ->. exact (Hn H).
    + intros H. exfalso. exact (Hn H).
Qed.

Lemma wake_upd_other k k' ch cl outs w c2 :
  c_id c2 = k' -> k' <> k -> st_inv k ch cl outs w -> st_inv k ch cl outs (fq_wake (upd_conn w c2) k').
Proof.
  intros Hid Hne Hst.
  destruct (fq_wake_spec (upd_conn w c2) k') as (Hc & Hs & _ & Hh & Hr & _).
  apply (st_ext k ch cl outs w); [| | | |exact Hst].
  - rewrite Hc. cbn [w_conns upd_conn with_conns set_w]. apply get_put_other. congruence.
  - rewrite Hs. reflexivity.
  - intros [H|H].
    + left. apply Hh. exact H.
    + right. apply Hr. split; [exact H|congruence].
  - intros H. apply Hr in H. exact (proj1 H).
Qed.

Lemma wake_upd_same k ch cl outs w c2 :
  c_id c2 = k -> okc c2 -> c_eof c2 = cl ->
  feed_all reader_pg ch = (outs ++ fst (eager c2), snd (eager c2)) ->
  memN k (w_streams w) = true -> (in_heap k (w_heap w) \/ in_reg k (w_reg w)) ->
  live_inv k ch cl outs (fq_wake (upd_conn w c2) k).
Proof.
  intros Hid Hok He Hf Hm Hq.
  destruct (fq_wake_spec (upd_conn w c2) k) as (Hc & Hs & _ & Hh & Hr & Hw).
  exists c2. rewrite Hc, Hs. cbn [w_conns w_streams upd_conn with_conns set_w].
  split; [apply get_put_same; exact Hid|].
  split; [exact Hok|split; [exact He|split; [exact Hf|split; [exact Hm|split]]]].
  - left. destruct Hq as [H|H]; [apply Hh; exact H|apply Hw; exact H].
  - intros H. apply Hr in H. destruct H as [_ H]. contradiction.
Qed.

Lemma do_feed_streams w k b : w_streams (do_feed w k b) = w_streams w /\ w_type (do_feed w k b) = w_type w.
Proof.
  unfold do_feed. destruct (get_conn k (w_conns w)) as [cn|]; [|split; reflexivity].
  destruct (is_nil b || c_eof cn); [split; reflexivity|].
  destruct (fq_wake_spec (upd_conn w (c_with_in cn (c_inq cn ++ [b]) (c_eof cn))) k) as (_ & Hs & Ht & _).
  rewrite Hs, Ht. split; reflexivity.
Qed.

Lemma do_eof_streams w k : w_streams (do_eof w k) = w_streams w /\ w_type (do_eof w k) = w_type w.
Proof.
  unfold do_eof. destruct (get_conn k (w_conns w)) as [cn|]; [|split; reflexivity].
  destruct (fq_wake_spec (upd_conn w (c_with_in cn (c_inq cn) true)) k) as (_ & Hs & Ht & _).
  rewrite Hs, Ht. split; reflexivity.
Qed.

Lemma st_feed k k' b ch cl outs w :
  st_inv k ch cl outs w ->
  st_inv k (if cl then ch else ch ++ chunks_of k [WFeed k' b]) (cl || closed_of k [WFeed k' b]) outs (do_feed w k' b).
Proof.
  intros Hst. cbn [chunks_of closed_of]. rewrite orb_false_r.
  destruct (N.eqb_spec k' k) as [->|Hne]; cbn [andb].
  - destruct Hst as [(c & Hg & Hok & He & Hf & Hm & Hq & Hp)|[Hm Hfin]].
    + pose proof (get_conn_id _ _ _ Hg) as Hid.
      unfold do_feed. rewrite Hg. destruct (is_nil b) eqn:Hb; cbn [orb negb].
      * rewrite app_nil_r. left. exists c. destruct cl; repeat split; try assumption; try apply Hok; try apply Hp; assumption.
      * destruct (c_eof c) eqn:Hce; subst cl.
        -- left. exists c. repeat split; try assumption; try apply Hok; try apply Hp; assumption.
        -- left. apply wake_upd_same; [exact Hid|exact Hok|reflexivity| |exact Hm|exact Hq].
           unfold eager. cbn [c_with_in c_dec c_buf c_inq]. rewrite eag_snoc.
              fold (eager c). rewrite feed_all_app, Hf. cbn [feed_all].
              destruct (feed (snd (eager c)) b) as [o2 r2]. cbn [fst snd].
              rewrite app_nil_r, app_assoc. reflexivity.
    + right. split; [rewrite (proj1 (do_feed_streams w k b)); exact Hm|].
      apply final_ok_feed. exact Hfin.
  - rewrite app_nil_r. replace (if cl then ch else ch) with ch by (destruct cl; reflexivity).
    unfold do_feed. destruct (get_conn k' (w_conns w)) as [cn|] eqn:Hg; [|exact Hst].
    destruct (is_nil b || c_eof cn); [exact Hst|].
    apply wake_upd_other; [|exact Hne|exact Hst].
    cbn [c_with_in c_id]. exact (get_conn_id _ _ _ Hg).
Qed.

Lemma st_eof k k' ch cl outs w :
  st_inv k ch cl outs w ->
  st_inv k (if cl then ch else ch ++ chunks_of k [WEof k']) (cl || closed_of k [WEof k']) outs (do_eof w k').
Proof.
  intros Hst. cbn [chunks_of closed_of].
  replace (if cl then ch else ch ++ (if k' =? k then [] else [])) with ch
    by (destruct cl, (k' =? k); rewrite ?app_nil_r; reflexivity).
  destruct (N.eqb_spec k' k) as [->|Hne].
  - destruct Hst as [(c & Hg & Hok & He & Hf & Hm & Hq & Hp)|[Hm Hfin]].
    + pose proof (get_conn_id _ _ _ Hg) as Hid.
      unfold do_eof. rewrite Hg. rewrite orb_true_r. left.
      apply wake_upd_same; [exact Hid|exact Hok|reflexivity|exact Hf|exact Hm|exact Hq].
    + right. split; [rewrite (proj1 (do_eof_streams w k)); exact Hm|].
      apply final_ok_eof. exact Hfin.
  - rewrite orb_false_r.
    unfold do_eof. destruct (get_conn k' (w_conns w)) as [cn|] eqn:Hg; [|exact Hst].
    apply wake_upd_other; [|exact Hne|exact Hst].
    cbn [c_with_in c_id]. exact (get_conn_id _ _ _ Hg).
Qed.

(** * Part 6: one recv *)
Lemma fq_next_S f w :
  fq_next (S f) w =
    match w_heap w with
    | [] => (FPending, w)
    | (p, k) :: h' =>
      let w1 := with_fq w h' (w_counter w) (w_streams w) (w_reg w) in
      if negb (memN k (w_streams w1)) then fq_next f w1 else
      match get_conn k (w_conns w1) with
      | None => fq_next f w1
      | Some c =>
        match poll_stream (S (length (c_inq c))) c with
        | (PItem o, c') =>
          let w2 := upd_conn w1 c' in
          (FItem k o, with_fq w2 (heap_insert (w_counter w2, k) (w_heap w2)) (w_counter w2 + 1) (w_streams w2) (reg_del k (w_reg w2)))
        | (PEnded, c') =>
          let w2 := upd_conn w1 (c_with_halves c' false (c_wr c')) in
          fq_next f (with_fq w2 (w_heap w2) (w_counter w2) (delN k (w_streams w2)) (reg_del k (w_reg w2)))
        | (PPending, c') =>
          let w2 := upd_conn w1 c' in
          fq_next f (with_fq w2 (w_heap w2) (w_counter w2) (w_streams w2) ((k, p) :: reg_del k (w_reg w2)))
        end
      end
    end.
Proof. reflexivity. Qed.

Lemma fq_next_type : forall fuel w r w', fq_next fuel w = (r, w') -> w_type w' = w_type w.
Proof.
  induction fuel as [|f IH]; intros w r w' H.
  - cbn [fq_next] in H. apply pair_equal_spec in H as [_ <-]. reflexivity.
  - rewrite fq_next_S in H. destruct (w_heap w) as [|[p k] h'].
    + apply pair_equal_spec in H as [_ <-]. reflexivity.
    + cbv zeta in H.
      destruct (negb _); [apply IH in H; exact H|].
      destruct (get_conn _ _) as [c|]; [|apply IH in H; exact H].
      destruct (poll_stream _ c) as [[o| |] c'].
      * apply pair_equal_spec in H as [_ <-]. reflexivity.
      * apply IH in H. exact H.
      * apply IH in H. exact H.
Qed.

Definition next_post (k : N) (ch : list bytes) (cl : bool) (outs : list out) (r : fq_res) (w' : world) : Prop :=
  match r with
  | FPending => w_heap w' = [] /\ st_inv k ch cl outs w'
  | FItem k' o =>
      if k' =? k then
        match o with
        | OItem i => live_inv k ch cl (outs ++ [o]) w'
        | OErr e => final_ok ch cl (outs ++ [o])
        | _ => False
        end
      else st_inv k ch cl outs w'
  end.

Ltac wproj := cbn [w_conns w_heap w_streams w_reg w_type w_counter with_fq set_w upd_conn with_conns].

Lemma fq_next_spec k ch cl outs : forall fuel w r w',
  (length (w_heap w) < fuel)%nat -> fq_next fuel w = (r, w') ->
  st_inv k ch cl outs w ->
  w_type w' = w_type w /\ next_post k ch cl outs r w'.
Proof.
  induction fuel as [|f IH]; intros w r w' Hfu H Hst; [lia|].
  rewrite fq_next_S in H.
  destruct (w_heap w) as [|[p k'] h'] eqn:Hh.
  - apply pair_equal_spec in H as [<- <-]. split; [reflexivity|]. split; assumption.
  - cbn [length] in Hfu. cbv zeta in H.
    remember (with_fq w h' (w_counter w) (w_streams w) (w_reg w)) as w1 eqn:Hw1.
    assert (w_conns w1 = w_conns w) as A1 by (subst w1; reflexivity).
    assert (w_streams w1 = w_streams w) as A2 by (subst w1; reflexivity).
    assert (w_reg w1 = w_reg w) as A3 by (subst w1; reflexivity).
    assert (w_heap w1 = h') as A4 by (subst w1; reflexivity).
    assert (w_type w1 = w_type w) as A5 by (subst w1; reflexivity).
    clear Hw1.
    destruct (N.eqb_spec k' k) as [->|Hne].
    + (* the popped event belongs to k *)
      destruct Hst as [(c & Hg & Hok & He & Hf & Hm & Hq & Hp)|[Hm Hfin]].
      * rewrite A2, Hm, A1, Hg in H. cbn [negb] in H.
        pose proof (get_conn_id _ _ _ Hg) as Hid.
        destruct (poll_stream (S (length (c_inq c))) c) as [pl c'] eqn:HP.
        apply poll_spec in HP; [|exact Hok|lia]. destruct HP as (Hid' & He' & HP).
        rewrite Hid in Hid'.
        destruct pl as [o| |].
        -- (* item *)
           apply pair_equal_spec in H as [<- <-]. wproj. split; [exact A5|].
           unfold next_post. rewrite N.eqb_refl. unfold poll_post in HP.
           destruct o as [i|e|s|]; [| |contradiction|contradiction].
           ++ destruct HP as [Hok' Hea]. exists c'. wproj.
              split; [apply get_put_same; exact Hid'|].
              split; [exact Hok'|]. split; [congruence|].
              split; [rewrite Hf, Hea; cbn [fst snd]; rewrite <- app_assoc; reflexivity|].
              split; [rewrite A2; exact Hm|]. split.
              ** left. apply in_heap_insert. left. reflexivity.
              ** intros Hr. apply in_reg_del in Hr. destruct Hr as [_ Hr]. contradiction.
           ++ destruct HP as [[Hfe Hse]|(-> & Hce & Hfe & Hee)].
              ** left. rewrite Hf, Hfe. cbn [fst snd]. split; [exact Hse|reflexivity].
              ** right. split; [congruence|]. unfold expected. rewrite Hf, Hfe, Hee.
                 rewrite app_nil_r. reflexivity.
        -- (* pending: parked *)
           destruct HP as (Hok' & Hpk & Hea).
           apply IH in H; [|wproj; rewrite A4; lia|].
           ++ revert H. wproj. rewrite A5. intros H. exact H.
           ++ left. exists c'. wproj.
              split; [apply get_put_same; exact Hid'|].
              split; [exact Hok'|]. split; [congruence|].
              split; [rewrite (parked_eager c' Hok' Hpk); rewrite Hea in Hf; exact Hf|].
              split; [rewrite A2; exact Hm|]. split.
              ** right. left. reflexivity.
              ** intros _. exact Hpk.
        -- (* ended *)
           destruct HP as (Hce & Hfe & Hee).
           apply IH in H; [|wproj; rewrite A4; lia|].
           ++ revert H. wproj. rewrite A5. intros H. exact H.
           ++ right. split; [wproj; apply memN_delN_same|].
              right. split; [congruence|]. unfold expected. rewrite Hf, Hfe, Hee.
              rewrite !app_nil_r. reflexivity.
      * rewrite A2, Hm in H. cbn [negb] in H.
        apply IH in H; [|rewrite A4; lia|].
        -- rewrite A5 in H. exact H.
        -- right. split; [rewrite A2; exact Hm|exact Hfin].
    + (* the popped event belongs to another connection *)
      assert (st_inv k ch cl outs w1) as S1.
      { apply (st_ext k ch cl outs w); [rewrite A1; reflexivity|rewrite A2; reflexivity| | |exact Hst].
        - rewrite A3, A4, Hh. unfold in_heap. cbn [map snd In]. intros [[F|F]|F]; [congruence|left; exact F|right; exact F].
        - rewrite A3. tauto. }
      destruct (negb (memN k' (w_streams w1))).
      { apply IH in H; [|rewrite A4; lia|exact S1]. rewrite A5 in H. exact H. }
      destruct (get_conn k' (w_conns w1)) as [c|] eqn:Hg.
      2:{ apply IH in H; [|rewrite A4; lia|exact S1]. rewrite A5 in H. exact H. }
      pose proof (get_conn_id _ _ _ Hg) as Hid.
      destruct (poll_stream (S (length (c_inq c))) c) as [pl c'] eqn:HP.
      apply poll_id in HP. rewrite Hid in HP.
      destruct pl as [o| |].
      * apply pair_equal_spec in H as [<- <-]. wproj. split; [exact A5|].
        unfold next_post. destruct (N.eqb_spec k' k) as [F|_]; [contradiction|].
        apply (st_ext k ch cl outs w1); [| | | |exact S1]; wproj.
        -- apply get_put_other. congruence.
        -- reflexivity.
        -- intros [F|F]; [left; apply in_heap_insert; right; exact F|].
           right. apply in_reg_del. split; [exact F|congruence].
        -- intros F. apply in_reg_del in F. exact (proj1 F).
      * apply IH in H; [|wproj; rewrite A4; lia|].
        -- revert H. wproj. rewrite A5. intros H. exact H.
        -- apply (st_ext k ch cl outs w1); [| | | |exact S1]; wproj.
           ++ apply get_put_other. congruence.
           ++ reflexivity.
           ++ intros [F|F]; [left; exact F|].
              right. unfold in_reg. cbn [map fst In]. right. apply in_reg_del. split; [exact F|congruence].
           ++ unfold in_reg. cbn [map fst In]. intros [F|F]; [congruence|].
              apply in_reg_del in F. exact (proj1 F).
      * apply IH in H; [|wproj; rewrite A4; lia|].
        -- revert H. wproj. rewrite A5. intros H. exact H.
        -- apply (st_ext k ch cl outs w1); [| | | |exact S1]; wproj.
           ++ apply get_put_other. cbn [c_with_halves c_id]. congruence.
           ++ apply memN_delN_other. congruence.
           ++ intros [F|F]; [left; exact F|].
              right. apply in_reg_del. split; [exact F|congruence].
           ++ intros F. apply in_reg_del in F. exact (proj1 F).
Qed.

Lemma drop_halves_spec w k' r wr :
  w_streams (drop_halves w k' r wr) = w_streams w /\ w_heap (drop_halves w k' r wr) = w_heap w /\
  w_reg (drop_halves w k' r wr) = w_reg w /\ w_type (drop_halves w k' r wr) = w_type w /\
  forall k, k <> k' -> get_conn k (w_conns (drop_halves w k' r wr)) = get_conn k (w_conns w).
Proof.
  unfold drop_halves. destruct (get_conn k' (w_conns w)) as [c|] eqn:Hg; wproj.
  - split; [reflexivity|split; [reflexivity|split; [reflexivity|split; [reflexivity|]]]].
    intros k Hne. apply get_put_other. cbn [c_with_halves c_id].
    rewrite (get_conn_id _ _ _ Hg). congruence.
  - split; [reflexivity|split; [reflexivity|split; [reflexivity|split; [reflexivity|]]]].
    intros k _. reflexivity.
Qed.

Lemma pd_spec w k' : has_fq (w_type w) = true ->
  w_streams (peer_disconnected w k') = delN k' (w_streams w) /\
  w_heap (peer_disconnected w k') = w_heap w /\
  w_reg (peer_disconnected w k') = w_reg w /\
  w_type (peer_disconnected w k') = w_type w /\
  forall k, k <> k' -> get_conn k (w_conns (peer_disconnected w k')) = get_conn k (w_conns w).
Proof.
  intros Ht. unfold peer_disconnected. rewrite Ht.
  set (wa := with_peers w (delN k' (w_peers w))).
  set (b1 := match w_type w with REQ => true | _ => false end).
  destruct (drop_halves_spec wa k' b1 true) as (S1 & H1 & R1 & T1 & C1).
  destruct (drop_halves_spec (fq_remove (drop_halves wa k' b1 true) k') k' true false) as (S2 & H2 & R2 & T2 & C2).
  split; [|split; [|split; [|split]]].
  - rewrite S2. unfold fq_remove. wproj. rewrite S1. reflexivity.
  - rewrite H2. unfold fq_remove. wproj. rewrite H1. reflexivity.
  - rewrite R2. unfold fq_remove. wproj. rewrite R1. reflexivity.
  - rewrite T2. unfold fq_remove. wproj. rewrite T1. reflexivity.
  - intros k Hne. rewrite (C2 k Hne). unfold fq_remove. wproj. rewrite (C1 k Hne). reflexivity.
Qed.

Lemma st_step k e ch cl outs w r w' :
  has_fq (w_type w) = true -> st_inv k ch cl outs w -> wstep w e = (r, w') ->
  w_type w' = w_type w /\
  st_inv k (if cl then ch else ch ++ chunks_of k [e]) (cl || closed_of k [e]) (outs ++ outs_of k [r]) w' /\
  (e = WNext -> r = None -> w_heap w' = []).
Proof.
  intros Ht Hst H. destruct e as [k' b|k'|]; cbn [wstep] in H.
  - apply pair_equal_spec in H as [<- <-]. cbn [outs_of]. rewrite app_nil_r.
    split; [exact (proj2 (do_feed_streams w k' b))|]. split; [apply st_feed; exact Hst|discriminate].
  - apply pair_equal_spec in H as [<- <-]. cbn [outs_of]. rewrite app_nil_r.
    split; [exact (proj2 (do_eof_streams w k'))|]. split; [apply st_eof; exact Hst|discriminate].
  - destruct (fq_next (next_fuel w) w) as [fr w0] eqn:HN.
    apply (fq_next_spec k ch cl outs) in HN; [|unfold next_fuel; lia|exact Hst].
    destruct HN as [Hty HN]. cbn [chunks_of closed_of]. rewrite app_nil_r, orb_false_r.
    replace (if cl then ch else ch) with ch by (destruct cl; reflexivity).
    unfold next_post in HN.
    destruct fr as [k' [i|e|s|]|]; cbv beta iota in H; apply pair_equal_spec in H as [<- <-]; cbn [outs_of].
    + split; [exact Hty|]. split; [|discriminate].
      destruct (k' =? k); [left; exact HN|rewrite app_nil_r; exact HN].
    + rewrite <- Hty in Ht. destruct (pd_spec w0 k' Ht) as (S1 & H1 & R1 & T1 & C1).
      split; [rewrite T1; exact Hty|]. split; [|discriminate].
      destruct (N.eqb_spec k' k) as [->|Hne].
      * right. split; [rewrite S1; apply memN_delN_same|exact HN].
      * rewrite app_nil_r. apply (st_ext k ch cl outs w0); [| | | |exact HN].
        -- apply C1. congruence.
        -- rewrite S1. apply memN_delN_other. congruence.
        -- rewrite H1, R1. tauto.
        -- rewrite R1. tauto.
    + rewrite <- Hty in Ht. destruct (pd_spec w0 k' Ht) as (S1 & H1 & R1 & T1 & C1).
      split; [rewrite T1; exact Hty|]. split; [|discriminate].
      destruct (N.eqb_spec k' k) as [->|Hne]; [contradiction|].
      rewrite app_nil_r. apply (st_ext k ch cl outs w0); [| | | |exact HN].
      * apply C1. congruence.
      * rewrite S1. apply memN_delN_other. congruence.
      * rewrite H1, R1. tauto.
      * rewrite R1. tauto.
    + rewrite <- Hty in Ht. destruct (pd_spec w0 k' Ht) as (S1 & H1 & R1 & T1 & C1).
      split; [rewrite T1; exact Hty|]. split; [|discriminate].
      destruct (N.eqb_spec k' k) as [->|Hne]; [contradiction|].
      rewrite app_nil_r. apply (st_ext k ch cl outs w0); [| | | |exact HN].
      * apply C1. congruence.
      * rewrite S1. apply memN_delN_other. congruence.
      * rewrite H1, R1. tauto.
      * rewrite R1. tauto.
    + rewrite app_nil_r. split; [exact Hty|]. split; [exact (proj2 HN)|].
      intros _ _. exact (proj1 HN).
Qed.

Lemma wstep_type w e r w' : has_fq (w_type w) = true -> wstep w e = (r, w') -> w_type w' = w_type w.
Proof.
  intros Ht H. destruct e as [k' b|k'|]; cbn [wstep] in H.
  - apply pair_equal_spec in H as [_ <-]. exact (proj2 (do_feed_streams w k' b)).
  - apply pair_equal_spec in H as [_ <-]. exact (proj2 (do_eof_streams w k')).
  - destruct (fq_next (next_fuel w) w) as [fr w0] eqn:HN. apply fq_next_type in HN.
    rewrite <- HN in Ht.
    destruct fr as [k' [i|e|s|]|]; cbv beta iota in H; apply pair_equal_spec in H as [_ <-];
      try exact HN; rewrite (proj1 (proj2 (proj2 (proj2 (pd_spec w0 k' Ht))))); exact HN.
Qed.

(** * Part 7: runs *)
Lemma wrun_snoc : forall es w e,
  wrun w (es ++ [e]) = let '(rs, w1) := wrun w es in let '(r, w2) := wstep w1 e in (rs ++ [r], w2).
Proof.
  induction es as [|x es IH]; intros w e; cbn [app wrun].
  - destruct (wstep w e) as [r w2]. reflexivity.
  - destruct (wstep w x) as [r1 w1]. rewrite IH. destruct (wrun w1 es) as [rs w2].
    destruct (wstep w2 e) as [r w3]. reflexivity.
Qed.

Lemma outs_of_app k : forall a b, outs_of k (a ++ b) = outs_of k a ++ outs_of k b.
Proof.
  induction a as [|[[k' o]|] a IH]; intros b; cbn [app outs_of]; [reflexivity| |apply IH].
  destruct (k' =? k); rewrite IH; reflexivity.
Qed.

Lemma closed_of_snoc k e : forall es, closed_of k (es ++ [e]) = closed_of k es || closed_of k [e].
Proof.
  induction es as [|x es IH]; [reflexivity|].
  destruct x as [k' b|k'|]; cbn [app closed_of] in *; try exact IH.
  destruct (k' =? k); [reflexivity|exact IH].
Qed.

Lemma chunks_of_snoc k e : forall es,
  chunks_of k (es ++ [e]) = if closed_of k es then chunks_of k es else chunks_of k es ++ chunks_of k [e].
Proof.
  induction es as [|x es IH]; [reflexivity|].
  destruct x as [k' b|k'|]; cbn [app chunks_of closed_of] in *.
  - destruct ((k' =? k) && negb (is_nil b)); [|exact IH].
    rewrite IH. destruct (closed_of k es); reflexivity.
  - destruct (k' =? k); [reflexivity|exact IH].
  - exact IH.
Qed.

Lemma do_attach_spec w c : has_fq (w_type w) = true -> w_subs w = [] ->
  w_type (do_attach w c None) = w_type w /\ w_subs (do_attach w c None) = [] /\
  w_conns (do_attach w c None) = put_conn (new_conn c None) (w_conns w) /\
  w_heap (do_attach w c None) = heap_insert (w_counter w, c) (w_heap w) /\
  w_streams (do_attach w c None) = (if memN c (w_streams w) then w_streams w else w_streams w ++ [c]) /\
  w_reg (do_attach w c None) = w_reg w.
Proof.
  intros Ht Hs. unfold do_attach.
  destruct (w_type w) eqn:E; try discriminate Ht;
    cbn [w_subs with_conns set_w]; rewrite ?Hs;
    cbn [fold_left has_fq fq_insert with_fq with_rr with_peers with_conns set_w
         w_type w_subs w_conns w_heap w_streams w_reg w_counter];
    rewrite ?E, ?Hs; repeat split; reflexivity.
Qed.

Lemma attached_inv t : has_fq t = true -> forall cs,
  w_type (attached t cs) = t /\ w_subs (attached t cs) = [] /\ w_reg (attached t cs) = [] /\
  forall k, In k cs ->
    get_conn k (w_conns (attached t cs)) = Some (new_conn k None) /\
    memN k (w_streams (attached t cs)) = true /\ in_heap k (w_heap (attached t cs)).
Proof.
  intros Ht. induction cs as [|c cs IH] using rev_ind.
  - cbn. split; [reflexivity|split; [reflexivity|split; [reflexivity|]]]. intros k [].
  - destruct IH as (T1 & S1 & R1 & K1). unfold attached in *. rewrite fold_left_app. cbn [fold_left].
    set (w := fold_left (fun w c => do_attach w c None) cs (world0 t)) in *.
    assert (has_fq (w_type w) = true) as Ht' by (rewrite T1; exact Ht).
    destruct (do_attach_spec w c Ht' S1) as (T2 & S2 & C2 & H2 & M2 & R2).
    rewrite T2, S2, C2, H2, M2, R2.
    split; [exact T1|split; [reflexivity|split; [exact R1|]]].
    intros k Hk. apply in_app_or in Hk. rewrite get_put_conn. cbn [new_conn c_id].
    destruct (N.eqb_spec c k) as [->|Hne].
    + split; [reflexivity|]. split.
      * destruct (memN k (w_streams w)) eqn:Hm; [exact Hm|].
        rewrite memN_snoc, N.eqb_refl. apply orb_true_r.
      * apply in_heap_insert. left. reflexivity.
    + destruct Hk as [Hk|[Hk|[]]]; [|contradiction].
      destruct (K1 k Hk) as (G & M & Hp). split; [exact G|]. split.
      * destruct (memN c (w_streams w)); [exact M|]. rewrite memN_snoc, M. reflexivity.
      * apply in_heap_insert. right. exact Hp.
Qed.

Definition Ginv (t : stype) (cs : list N) (es : list wev) (rs : list (option (N * out))) (w : world) : Prop :=
  w_type w = t /\ forall k, In k cs -> st_inv k (chunks_of k es) (closed_of k es) (outs_of k rs) w.

Lemma attached_Ginv t cs : has_fq t = true -> Ginv t cs [] [] (attached t cs).
Proof.
  intros Ht. destruct (attached_inv t Ht cs) as (T1 & _ & R1 & K1).
  split; [exact T1|]. intros k Hk. destruct (K1 k Hk) as (G & M & Hp).
  left. exists (new_conn k None). cbn [chunks_of closed_of outs_of feed_all].
  assert (wfd dec_post_greeting) as W by reflexivity.
  assert (eager (new_conn k None) = ([], reader_pg)) as Ea.
  { unfold eager. cbn [new_conn c_dec c_buf c_inq]. apply eag_quiet; [exact W|].
    unfold lenN. cbn [length dec_post_greeting waiting]. lia. }
  split; [exact G|]. split; [split; [exact W|cbn [new_conn c_dec dec_post_greeting waiting]; lia]|].
  split; [reflexivity|]. split; [rewrite Ea; reflexivity|]. split; [exact M|].
  split; [left; exact Hp|]. rewrite R1. intros [].
Qed.

Lemma run_inv t cs : has_fq t = true -> forall es rs w,
  wrun (attached t cs) es = (rs, w) -> Ginv t cs es rs w.
Proof.
  intros Ht. induction es as [|e es IH] using rev_ind; intros rs w H.
  - cbn [wrun] in H. apply pair_equal_spec in H as [<- <-]. apply attached_Ginv. exact Ht.
  - rewrite wrun_snoc in H. destruct (wrun (attached t cs) es) as [rs0 w0].
    destruct (IH rs0 w0 eq_refl) as [T0 K0].
    destruct (wstep w0 e) as [r w1] eqn:HS. apply pair_equal_spec in H as [<- <-].
    assert (has_fq (w_type w0) = true) as Ht0 by (rewrite T0; exact Ht).
    split.
    + rewrite (wstep_type w0 e r w1 Ht0 HS). exact T0.
    + intros k Hk. rewrite chunks_of_snoc, closed_of_snoc, outs_of_app.
      exact (proj1 (proj2 (st_step k e _ _ _ w0 r w1 Ht0 (K0 k Hk) HS))).
Qed.
