(** End to end over the wire (C01 + C02 + C05 + C10 composed): what a PUSH socket writes for a sequence of
    messages, cut into chunks in ANY way, is handed out by a PULL (or DEALER) socket as exactly those
    messages, whole and in order. *)
From Coq Require Import List Arith NArith Lia Bool.
From ZV Require Import Base.Bytes Base.Res Model.Codec Model.World Proofs.CodecEnc Proofs.Decoder Proofs.CodecRoundtrip
  Proofs.WorldStreamDefs Proofs.WorldStreamLemmas Proofs.WorldStream.
From ZV Require Import Proofs.WorldWireLemmas.
Import ListNotations.
Open Scope N_scope.

(** STATEMENTS TO PROVE (do not change them) *)

(** W1 sender: a PUSH (or DEALER) socket with one connected peer writes exactly the encodings, in order *)
Theorem push_writes_encodings : forall t k ms,
  t = PUSH \/ t = DEALER ->
  World.run (world0 t) (OAttach k None :: map OSend ms ++ [OWire k]) =
  BAtt k None :: repeat BSendOk (length ms) ++ [BWire k (concat (map encode_frames ms))].
Proof.
  intros t k ms Ht. cbn [World.run World.step app]. f_equal.
  exact (sender_run t k Ht ms [] _ (sender_attach t k Ht)).
Qed.

(** W2 the declarative reading of a byte stream that is a concatenation of encoded messages, in any chunking *)
Theorem expected_of_encodings : forall ms chunks,
  Forall wf_msg ms -> concat chunks = concat (map encode_frames ms) ->
  expected (filter (fun c => negb (is_nil c)) chunks) false = map (fun m => OItem (IMessage m)) ms.
Proof.
  intros ms chunks Hall Hc. apply (expected_encodings ms); [exact Hall|].
  rewrite concat_filter_nonnil. exact Hc.
Qed.

(** W3 receiver: those bytes, arriving in any chunks, come out of recv as exactly the messages, in order;
    one more recv finds nothing *)
Theorem pull_reads_messages : forall t k ms chunks,
  t = PULL \/ t = DEALER ->
  Forall wf_msg ms -> concat chunks = concat (map encode_frames ms) ->
  World.run (world0 t) (OAttach k None :: map (OFeed k) chunks ++ repeat ORecv (S (length ms))) =
  BAtt k None :: map (BRecv None) ms ++ [BRecvPending].
Proof.
  intros t k ms chunks Ht Hall Hc.
  assert (fqt t) as Hf by (destruct Ht as [-> | ->]; [left|right; left]; reflexivity).
  pose proof (single_receives t k ms chunks Hf (expected_of_encodings ms chunks Hall Hc)) as R.
  destruct Ht as [-> | ->]; exact R.
Qed.

(** W4 a ROUTER labels every one of them with the sender *)
Theorem router_reads_labelled_messages : forall k ms chunks,
  Forall wf_msg ms -> concat chunks = concat (map encode_frames ms) ->
  World.run (world0 ROUTER) (OAttach k None :: map (OFeed k) chunks ++ repeat ORecv (S (length ms))) =
  BAtt k None :: map (BRecv (Some k)) ms ++ [BRecvPending].
Proof.
  intros k ms chunks Hall Hc.
  assert (fqt ROUTER) as Hf by (right; right; reflexivity).
  exact (single_receives ROUTER k ms chunks Hf (expected_of_encodings ms chunks Hall Hc)).
Qed.

(** non-vacuity *)
Definition ww_ms : list msg := [[[1;2;3];[4]]; [[]]; [[9];[];[8]]].
Definition ww_wire := concat (map encode_frames ww_ms).
Example ww_sample :
  World.run (world0 PULL) (OAttach 5 None :: map (OFeed 5) [firstn 3 ww_wire; []; firstn 4 (skipn 3 ww_wire); skipn 7 ww_wire] ++ repeat ORecv 4)
  = BAtt 5 None :: map (BRecv None) ww_ms ++ [BRecvPending].
Proof. vm_compute. reflexivity. Qed.

Print Assumptions push_writes_encodings.
Print Assumptions expected_of_encodings.
Print Assumptions pull_reads_messages.
Print Assumptions router_reads_labelled_messages.
