(** C05 / C06 at the level of the whole socket model (Model/World.v): per connection, the fair queue hands
    out exactly the items the connection's byte stream contains - in order, each once, none lost. *)
From Coq Require Import List Arith NArith Lia Bool.
From ZV Require Import Base.Bytes Base.Res Model.Codec Model.World Proofs.Decoder Proofs.WorldStreamDefs.
From ZV Require Import Proofs.WorldStreamLemmas.
Import ListNotations.
Open Scope N_scope.

(** STATEMENTS TO PROVE (do not change them) *)

(** T1 (in order, exactly once, nothing invented): whatever the interleaving of arrivals, closes and recv
    calls, the items handed out for connection k are a prefix of the declarative reading of what k's peer wrote *)
Theorem world_stream_prefix : forall t cs es k,
  has_fq t = true -> NoDup cs -> In k cs ->
  is_prefix_of (outs_of k (fst (wrun (attached t cs) es))) (expected (chunks_of k es) (closed_of k es)).
Proof.
  intros t cs es k Ht _ Hk.
  destruct (wrun (attached t cs) es) as [rs w] eqn:HR. cbn [fst].
  destruct (run_inv t cs Ht es rs w HR) as [_ K].
  exact (st_prefix k _ _ _ w (K k Hk)).
Qed.

(** T2 (nothing lost, no lost wake-up): when a recv finds nothing to hand out (the call parks), every
    connection has been read to the end of what its peer wrote so far *)
Theorem world_stream_complete : forall t cs es rs w,
  has_fq t = true -> NoDup cs ->
  wrun (attached t cs) (es ++ [WNext]) = (rs, w) -> last rs None = None ->
  forall k, In k cs -> outs_of k rs = expected (chunks_of k es) (closed_of k es).
Proof.
  intros t cs es rs w Ht _ HR Hlast k Hk.
  rewrite wrun_snoc in HR.
  destruct (wrun (attached t cs) es) as [rs0 w0] eqn:HR0.
  destruct (run_inv t cs Ht es rs0 w0 HR0) as [T0 K0].
  destruct (wstep w0 WNext) as [r w1] eqn:HS.
  apply pair_equal_spec in HR as [<- <-].
  rewrite last_last in Hlast. subst r.
  assert (has_fq (w_type w0) = true) as Ht0 by (rewrite T0; exact Ht).
  destruct (st_step k WNext _ _ _ w0 None w1 Ht0 (K0 k Hk) HS) as (_ & Hst & Hheap).
  specialize (Hheap eq_refl eq_refl).
  rewrite outs_of_app. cbn [outs_of]. rewrite app_nil_r.
  cbn [chunks_of closed_of outs_of] in Hst. rewrite !app_nil_r, orb_false_r in Hst.
  assert ((if closed_of k es then chunks_of k es else chunks_of k es) = chunks_of k es) as E
    by (destruct (closed_of k es); reflexivity).
  rewrite E in Hst.
  exact (st_complete k _ _ _ w1 Hst Hheap).
Qed.

(** non-vacuity *)
Definition ws_m1 := encode_frames [[1;2;3];[4]].
Definition ws_m2 := encode_frames [[9]].
Definition ws_es := [WNext; WFeed 0 (firstn 3 ws_m1); WNext; WFeed 1 ws_m2; WFeed 0 (skipn 3 ws_m1 ++ ws_m2); WNext; WNext; WNext; WNext; WFeed 1 [5]; WEof 1; WNext; WNext; WEof 0; WNext].
Example ws_sample :
  outs_of 0 (fst (wrun (attached PULL [0;1]) (ws_es ++ [WNext]))) = [OItem (IMessage [[1; 2; 3]; [4]]); OItem (IMessage [[9]])] /\
  outs_of 1 (fst (wrun (attached PULL [0;1]) (ws_es ++ [WNext]))) = [OItem (IMessage [[9]])] /\
  last (fst (wrun (attached PULL [0;1]) (ws_es ++ [WNext]))) None = None.
Proof. vm_compute. repeat split; reflexivity. Qed.

Print Assumptions world_stream_prefix.
Print Assumptions world_stream_complete.
