(** Theorems about round-robin sending under per-connection write scripts (Model/RrSend.v). *)
From Coq Require Import List NArith Lia Bool.
Import ListNotations.
From ZV Require Import Base.Bytes Base.Res Model.Codec Model.TrySend Model.RrSend Proofs.TrySendProofs.
From ZV Require Model.World.
Local Open Scope N_scope.

Arguments N.add : simpl never.
Arguments N.sub : simpl never.
Arguments N.eqb : simpl never.
Arguments N.ltb : simpl never.
Arguments N.leb : simpl never.
Arguments N.min : simpl never.
Arguments N.pow : simpl never.

Definition targets (k : N) (r : rr_res) : bool :=
  match r with ROk j | RErr j _ | RStall j => j =? k | RNoPeer => false end.

(** the messages the loop gave to connection k, in order (the i-th result belongs to the i-th RSend) *)
Fixpoint assigned (k : N) (ops : list rop) (rs : list rr_res) : list World.msg :=
  match ops with
  | [] => []
  | RSend m :: ops' =>
    match rs with
    | r :: rs' => (if targets k r then [m] else []) ++ assigned k ops' rs'
    | [] => []
    end
  | _ :: ops' => assigned k ops' rs
  end.

Definition attached (ops : list rop) : list N :=
  flat_map (fun o => match o with RAttach k => [k] | _ => [] end) ops.

Definition all_accepting (st : rstate) : Prop :=
  forall p, In p (r_peers st) -> k_tr (p_sink p) = accepting_tr /\ k_buf (p_sink p) = [].

(** * Auxiliary facts: the framed writer *)

Lemma flush_all_spec : forall fuel s r s', flush_all fuel s = (r, s') ->
  k_written s' ++ k_buf s' = k_written s ++ k_buf s /\
  (exists w, k_written s' = k_written s ++ w) /\
  (r = FlOk -> k_buf s' = []).
Proof.
  induction fuel as [|f IH]; intros s r s' H; cbn [flush_all] in H.
  - inversion H; subst. split; [reflexivity|]. split; [exists []; rewrite app_nil_r; reflexivity|discriminate].
  - destruct (k_buf s) as [|b0 bt] eqn:Eb.
    { inversion H; subst. rewrite ?Eb. split; [reflexivity|].
      split; [exists []; rewrite app_nil_r; reflexivity|reflexivity]. }
    assert (Hfin : forall r0 tr0,
      (r0, {| k_buf := b0 :: bt; k_written := k_written s; k_tr := tr0 |}) = (r, s') -> r0 <> FlOk ->
      k_written s' ++ k_buf s' = k_written s ++ b0 :: bt /\
      (exists w, k_written s' = k_written s ++ w) /\ (r = FlOk -> k_buf s' = [])).
    { intros r0 tr0 H0 Hn. inversion H0; subst. cbn [k_written k_buf]. split; [reflexivity|].
      split; [exists []; rewrite app_nil_r; reflexivity|]. intros; congruence. }
    destruct (next_ans (k_tr s)) as [a tr]. destruct a as [k| | |e].
    + destruct (k =? 0); [eapply Hfin; [exact H|discriminate]|].
      destruct (take_n k (b0 :: bt)) as [w rest] eqn:E.
      apply IH in H. cbn [k_written k_buf] in H. destruct H as (H1 & (w' & H2) & H3).
      pose proof (take_n_concat k (b0 :: bt)) as T. rewrite E in T. cbn [fst snd] in T.
      split; [rewrite H1, <- app_assoc, T; reflexivity|].
      split; [exists (w ++ w'); rewrite H2, app_assoc; reflexivity|exact H3].
    + eapply Hfin; [exact H|discriminate].
    + match type of H with (if ?q then _ else _) = _ => destruct q end.
      * apply IH in H. cbn [k_written k_buf] in H. exact H.
      * inversion H; subst. rewrite ?Eb. split; [reflexivity|].
        split; [exists []; rewrite app_nil_r; reflexivity|discriminate].
    + eapply Hfin; [exact H|discriminate].
Qed.

Lemma sink_send_spec s enc r s' : sink_send s enc = (r, s') ->
  k_written s' ++ k_buf s' = k_written s ++ k_buf s ++ enc /\
  (exists w, k_written s' = k_written s ++ w) /\
  (r = FlOk -> k_buf s' = []).
Proof.
  unfold sink_send. cbv zeta. intros H. apply flush_all_spec in H. cbn [k_written k_buf] in H. exact H.
Qed.

Lemma flush_all_accepting f s : k_tr s = accepting_tr -> k_buf s <> [] -> lenN (k_buf s) < 2 ^ 63 ->
  flush_all (S (S f)) s = (FlOk, {| k_buf := []; k_written := k_written s ++ k_buf s; k_tr := accepting_tr |}).
Proof.
  intros Ht Hne Hl. remember (S f) as g eqn:Eg. cbn [flush_all].
  destruct (k_buf s) as [|b0 bt] eqn:Eb; [congruence|].
  rewrite Ht. unfold next_ans. cbn [accepting_tr t_plan t_dflt].
  change (2 ^ 63 =? 0) with false. cbn iota.
  unfold take_n. rewrite N.min_r by (apply N.lt_le_incl; exact Hl).
  unfold firstnN, skipnN, lenN. rewrite Nnat.Nat2N.id, firstn_all, skipn_all.
  subst g. cbn [flush_all k_buf]. reflexivity.
Qed.

Lemma sink_send_accepting s enc : k_tr s = accepting_tr -> k_buf s = [] -> lenN enc < 2 ^ 63 ->
  exists s', sink_send s enc = (FlOk, s') /\ k_buf s' = [] /\ k_tr s' = accepting_tr /\
    k_written s' = k_written s ++ enc.
Proof.
  intros Ht Hb Hl. unfold sink_send. cbv zeta. rewrite Hb. cbn [app k_buf k_tr k_written].
  destruct enc as [|b0 bt].
  - cbn [length Nat.add flush_all k_buf]. eexists. split; [reflexivity|]. cbn [k_buf k_tr k_written].
    rewrite app_nil_r. auto.
  - cbn [length Nat.add]. rewrite flush_all_accepting; cbn [k_buf k_tr k_written]; [|exact Ht|discriminate|exact Hl].
    eexists. split; [reflexivity|]. cbn [k_buf k_tr k_written]. auto.
Qed.

(** * Auxiliary facts: the peer table *)

Definition ids (l : list rpeer) : list N := map p_id l.

Lemma pget_id k l p : pget k l = Some p -> p_id p = k.
Proof.
  induction l as [|a t IH]; cbn [pget]; [discriminate|].
  destruct (p_id a =? k) eqn:E; [|exact IH]. intros H; inversion H; subst. apply N.eqb_eq; exact E.
Qed.

Lemma pget_In k l p : pget k l = Some p -> In p l.
Proof.
  induction l as [|a t IH]; cbn [pget]; [discriminate|].
  destruct (p_id a =? k); [intros H; inversion H; left; reflexivity|intros H; right; auto].
Qed.

Lemma pget_none_iff k l : pget k l = None <-> ~ In k (ids l).
Proof.
  induction l as [|a t IH]; cbn [pget ids map In]; [tauto|].
  destruct (p_id a =? k) eqn:E.
  - apply N.eqb_eq in E. split; [discriminate|]. intros H; exfalso; apply H; left; exact E.
  - apply N.eqb_neq in E. fold (ids t). tauto.
Qed.

Lemma pget_some_ids k l p : pget k l = Some p -> In k (ids l).
Proof.
  intros H. destruct (in_dec N.eq_dec k (ids l)) as [Hi|Hn]; [exact Hi|].
  apply pget_none_iff in Hn. congruence.
Qed.

Lemma pget_app k l l' : pget k (l ++ l') = match pget k l with Some p => Some p | None => pget k l' end.
Proof.
  induction l as [|a t IH]; cbn [app pget]; [reflexivity|]. destruct (p_id a =? k); [reflexivity|exact IH].
Qed.

Lemma pget_pset_same k s l p : pget k l = Some p -> pget k (pset k s l) = Some {| p_id := k; p_sink := s |}.
Proof.
  induction l as [|a t IH]; cbn [pget pset]; [discriminate|].
  destruct (p_id a =? k) eqn:E; cbn [pget p_id].
  - intros _. rewrite N.eqb_refl. reflexivity.
  - rewrite E. exact IH.
Qed.

Lemma pget_pset_other k j s l : j <> k -> pget j (pset k s l) = pget j l.
Proof.
  intros Hn. induction l as [|a t IH]; [reflexivity|]. cbn [pset pget].
  destruct (p_id a =? k) eqn:E.
  - apply N.eqb_eq in E. cbn [pget p_id]. rewrite E.
    replace (k =? j) with false by (symmetry; apply N.eqb_neq; congruence). reflexivity.
  - cbn [pget]. rewrite IH. reflexivity.
Qed.

Lemma pget_pdel_other k j l : j <> k -> pget j (pdel k l) = pget j l.
Proof.
  intros Hn. induction l as [|a t IH]; [reflexivity|]. cbn [pdel pget].
  destruct (p_id a =? k) eqn:E.
  - apply N.eqb_eq in E. rewrite E.
    replace (k =? j) with false by (symmetry; apply N.eqb_neq; congruence). reflexivity.
  - cbn [pget]. rewrite IH. reflexivity.
Qed.

Lemma pget_pdel_same k l : NoDup (ids l) -> pget k (pdel k l) = None.
Proof.
  induction l as [|a t IH]; cbn [pdel ids map]; [reflexivity|]. fold (ids t). intros Hd.
  apply NoDup_cons_iff in Hd as [Hni Hd].
  destruct (p_id a =? k) eqn:E.
  - apply N.eqb_eq in E. apply pget_none_iff. rewrite <- E. exact Hni.
  - cbn [pget]. rewrite E. auto.
Qed.

Lemma pdel_none k l : pget k l = None -> pdel k l = l.
Proof.
  induction l as [|a t IH]; cbn [pget pdel]; [reflexivity|].
  destruct (p_id a =? k); [discriminate|]. intros H. rewrite IH by exact H. reflexivity.
Qed.

Lemma ids_pset k s l : ids (pset k s l) = ids l.
Proof.
  induction l as [|a t IH]; [reflexivity|]. cbn [pset].
  destruct (p_id a =? k) eqn:E; cbn [ids map p_id].
  - apply N.eqb_eq in E. rewrite E. reflexivity.
  - fold (ids (pset k s t)). fold (ids t). rewrite IH. reflexivity.
Qed.

Lemma In_pset k s l p : In p (pset k s l) -> p = {| p_id := k; p_sink := s |} \/ In p l.
Proof.
  induction l as [|a t IH]; cbn [pset In]; [tauto|].
  destruct (p_id a =? k); cbn [In]; intros [H|H]; auto. apply IH in H. tauto.
Qed.

Lemma In_ids_pdel k l j : NoDup (ids l) -> In j (ids (pdel k l)) -> In j (ids l) /\ j <> k.
Proof.
  induction l as [|a t IH]; cbn [pdel ids map]; [intros _ []|]. fold (ids t). intros Hd.
  apply NoDup_cons_iff in Hd as [Hni Hd].
  destruct (p_id a =? k) eqn:E.
  - apply N.eqb_eq in E. intros Hj. split; [right; exact Hj|]. intros ->. apply Hni. rewrite E. exact Hj.
  - apply N.eqb_neq in E. cbn [ids map In]. fold (ids (pdel k t)). intros [Hj|Hj].
    + split; [left; exact Hj|congruence].
    + destruct (IH Hd Hj). split; [right|]; assumption.
Qed.

Lemma NoDup_pdel k l : NoDup (ids l) -> NoDup (ids (pdel k l)).
Proof.
  induction l as [|a t IH]; cbn [pdel ids map]; [auto|]. fold (ids t). intros Hd.
  pose proof Hd as Hd0. apply NoDup_cons_iff in Hd as [Hni Hd].
  destruct (p_id a =? k) eqn:E; [exact Hd|].
  cbn [ids map]. fold (ids (pdel k t)). apply NoDup_cons_iff. split; [|auto].
  intros Hj. apply (In_ids_pdel k t _ Hd) in Hj. tauto.
Qed.

Lemma NoDup_snoc (l : list N) x : NoDup l -> ~ In x l -> NoDup (l ++ [x]).
Proof.
  induction l as [|a t IH]; cbn [app]; intros Hd Hn.
  - constructor; [intros []|constructor].
  - apply NoDup_cons_iff in Hd as [Ha Hd]. apply NoDup_cons_iff. split.
    + rewrite in_app_iff. cbn [In]. intros [H|[H|[]]]; [tauto|]. apply Hn. left. congruence.
    + apply IH; [exact Hd|]. intros H; apply Hn; right; exact H.
Qed.

Lemma ids_retr k f l : ids (retr k f l) = ids l.
Proof. unfold retr. destruct (pget k l); [apply ids_pset|reflexivity]. Qed.

(** * Auxiliary facts: what one run of the loop does *)

Definition send_post (st : rstate) (enc : bytes) (r : rr_res) (st' : rstate) : Prop :=
  exists pre post, r_rr st = pre ++ post /\ (forall j, In j pre -> pget j (r_peers st) = None) /\
  match r with
  | RNoPeer => post = [] /\ st' = {| r_peers := r_peers st; r_rr := []; r_gone := r_gone st |}
  | ROk k => exists rest p s, post = k :: rest /\ pget k (r_peers st) = Some p /\
       sink_send (p_sink p) enc = (FlOk, s) /\
       st' = {| r_peers := pset k s (r_peers st); r_rr := rest ++ [k]; r_gone := r_gone st |}
  | RStall k => exists rest p s, post = k :: rest /\ pget k (r_peers st) = Some p /\
       sink_send (p_sink p) enc = (FlStall, s) /\
       st' = {| r_peers := pset k s (r_peers st); r_rr := rest ++ [k]; r_gone := r_gone st |}
  | RErr k e => exists rest p s, post = k :: rest /\ pget k (r_peers st) = Some p /\
       sink_send (p_sink p) enc = (e, s) /\ e <> FlOk /\ e <> FlStall /\
       st' = {| r_peers := pdel k (r_peers st); r_rr := rest;
                r_gone := {| p_id := k; p_sink := s |} :: r_gone st |}
  end.

Lemma rr_send_post : forall fuel st enc r st', (length (r_rr st) < fuel)%nat ->
  rr_send fuel st enc = (r, st') -> send_post st enc r st'.
Proof.
  induction fuel as [|f IH]; intros [peers rr gone] enc r st' Hf H; cbn [r_rr] in Hf; [lia|].
  cbn [rr_send r_rr r_peers r_gone] in H.
  destruct rr as [|k rest].
  - inversion H; subst. exists [], []. cbn [r_rr r_peers r_gone].
    split; [reflexivity|]. split; [intros j []|]. split; reflexivity.
  - destruct (pget k peers) as [p|] eqn:Ep.
    + destruct (sink_send (p_sink p) enc) as [e s] eqn:Es.
      exists [], (k :: rest). split; [reflexivity|]. split; [intros j []|].
      destruct e; inversion H; subst; exists rest, p, s; cbn [r_peers r_rr r_gone];
        (split; [reflexivity|]); (split; [exact Ep|]); (split; [exact Es|]);
        try reflexivity; (split; [discriminate|]); (split; [discriminate|]); reflexivity.
    + apply IH in H; [|cbn [r_rr length] in *; lia]. destruct H as (pre & post & H1 & H2 & H3).
      cbn [r_rr r_peers r_gone] in *. exists (k :: pre), post.
      split; [rewrite H1; reflexivity|]. split; [intros j [<-|Hj]; auto|]. exact H3.
Qed.

Lemma send_post_of_send st m r st' : send st m = (r, st') -> send_post st (encode_frames m) r st'.
Proof. unfold send. apply rr_send_post. lia. Qed.

(** 0. the writer neither loses nor invents bytes *)
Theorem flush_all_stream : forall fuel s r s', flush_all fuel s = (r, s') ->
  k_written s' ++ k_buf s' = k_written s ++ k_buf s.
Proof. intros fuel s r s' H. apply flush_all_spec in H. tauto. Qed.

Theorem flush_all_ok_empty : forall fuel s s', flush_all fuel s = (FlOk, s') -> k_buf s' = [].
Proof. intros fuel s s' H. apply flush_all_spec in H. destruct H as (_ & _ & H). auto. Qed.

(** 1. a send touches at most one connection *)
Theorem send_touches_one : forall st m r st', send st m = (r, st') -> forall j, targets j r = false ->
  wire_of j st' = wire_of j st /\ pget j (r_peers st') = pget j (r_peers st).
Proof.
  intros st m r st' H j Hj. apply send_post_of_send in H. destruct H as (pre & post & Hrr & Hpre & H).
  destruct r as [k|k e| |k]; cbn [targets] in Hj.
  - destruct H as (rest & p & s & -> & Hp & Hs & ->). apply N.eqb_neq in Hj.
    unfold wire_of. cbn [r_peers r_gone]. rewrite pget_pset_other by congruence. split; reflexivity.
  - destruct H as (rest & p & s & -> & Hp & Hs & _ & _ & ->).
    unfold wire_of. cbn [r_peers r_gone pget p_id]. rewrite Hj. apply N.eqb_neq in Hj.
    rewrite pget_pdel_other by congruence. split; reflexivity.
  - destruct H as (-> & ->). unfold wire_of. cbn [r_peers r_gone]. split; reflexivity.
  - destruct H as (rest & p & s & -> & Hp & Hs & ->). apply N.eqb_neq in Hj.
    unfold wire_of. cbn [r_peers r_gone]. rewrite pget_pset_other by congruence. split; reflexivity.
Qed.

(** 2. a successful send wrote the whole message to a peer the socket holds, and nothing stays buffered *)
Theorem send_ok_whole : forall st m k st', send st m = (ROk k, st') ->
  exists p, pget k (r_peers st) = Some p /\
    (k_buf (p_sink p) = [] ->
       wire_of k st' = wire_of k st ++ encode_frames m /\
       exists p', pget k (r_peers st') = Some p' /\ k_buf (p_sink p') = []).
Proof.
  intros st m k st' H. apply send_post_of_send in H. destruct H as (pre & post & Hrr & Hpre & H).
  destruct H as (rest & p & s & -> & Hp & Hs & ->). exists p. split; [exact Hp|]. intros Hb.
  apply sink_send_spec in Hs. destruct Hs as (H1 & _ & H3). specialize (H3 eq_refl).
  rewrite H3, Hb, app_nil_r in H1. cbn [app] in H1.
  unfold wire_of. cbn [r_peers r_gone]. rewrite (pget_pset_same _ _ _ _ Hp), Hp. cbn [p_sink].
  split; [exact H1|]. eexists. split; [reflexivity|exact H3].
Qed.

(** 3. a failed send forgets the peer: it leaves the table and the rotation; at most a prefix of the message went out *)
Theorem send_err_forgets : forall st m k e st', send st m = (RErr k e, st') ->
  NoDup (map p_id (r_peers st)) -> NoDup (r_rr st) ->
  pget k (r_peers st') = None /\ ~ In k (r_rr st') /\
  (forall p, pget k (r_peers st) = Some p -> k_buf (p_sink p) = [] ->
     exists w rest, encode_frames m = w ++ rest /\ wire_of k st' = wire_of k st ++ w).
Proof.
  intros st m k e st' H Hd Hr. apply send_post_of_send in H. destruct H as (pre & post & Hrr & Hpre & H).
  destruct H as (rest & p & s & -> & Hp & Hs & _ & _ & ->). cbn [r_peers r_rr r_gone].
  assert (Hdel : pget k (pdel k (r_peers st)) = None) by (apply pget_pdel_same; exact Hd).
  split; [exact Hdel|]. split.
  - rewrite Hrr in Hr. apply NoDup_remove_2 in Hr. intros Hi. apply Hr. apply in_app_iff. right. exact Hi.
  - intros p0 Hp0 Hb. rewrite Hp in Hp0. inversion Hp0; subst p0.
    apply sink_send_spec in Hs. destruct Hs as (H1 & (w & H2) & _).
    rewrite Hb in H1. cbn [app] in H1. rewrite H2, <- app_assoc in H1. apply app_inv_head in H1.
    exists w, (k_buf s). split; [symmetry; exact H1|].
    unfold wire_of. cbn [r_peers r_gone]. rewrite Hdel, Hp. cbn [pget p_id p_sink]. rewrite N.eqb_refl.
    cbn [p_sink]. exact H2.
Qed.

(** 4. no live peer in the rotation: the message comes back, nothing is written, stale entries are dropped *)
Theorem send_nopeer : forall st m st', send st m = (RNoPeer, st') ->
  r_peers st' = r_peers st /\ r_gone st' = r_gone st /\ r_rr st' = [] /\
  (forall k, In k (r_rr st) -> pget k (r_peers st) = None).
Proof.
  intros st m st' H. apply send_post_of_send in H. destruct H as (pre & post & Hrr & Hpre & H).
  destruct H as (-> & ->). cbn [r_peers r_rr r_gone]. rewrite app_nil_r in Hrr. rewrite Hrr.
  repeat (split; [reflexivity|]). exact Hpre.
Qed.

(** 5. the rotation only loses entries, and a message is never given to a peer the socket has let go of *)
Theorem send_rotation_shrinks : forall st m r st', send st m = (r, st') ->
  (forall j, In j (r_rr st') -> In j (r_rr st)) /\
  (forall k, targets k r = true -> pget k (r_peers st) <> None).
Proof.
  intros st m r st' H. apply send_post_of_send in H. destruct H as (pre & post & Hrr & Hpre & H).
  rewrite Hrr. destruct r as [k|k e| |k]; cbn [targets].
  - destruct H as (rest & p & s & -> & Hp & Hs & ->). cbn [r_rr]. split.
    + intros j Hj. apply in_app_iff in Hj. apply in_app_iff. right. cbn [In] in *. tauto.
    + intros k0 E. apply N.eqb_eq in E. subst k0. congruence.
  - destruct H as (rest & p & s & -> & Hp & Hs & _ & _ & ->). cbn [r_rr]. split.
    + intros j Hj. apply in_app_iff. right. right. exact Hj.
    + intros k0 E. apply N.eqb_eq in E. subst k0. congruence.
  - destruct H as (-> & ->). cbn [r_rr]. split; [intros j []|discriminate].
  - destruct H as (rest & p & s & -> & Hp & Hs & ->). cbn [r_rr]. split.
    + intros j Hj. apply in_app_iff in Hj. apply in_app_iff. right. cbn [In] in *. tauto.
    + intros k0 E. apply N.eqb_eq in E. subst k0. congruence.
Qed.

(** 5b. a stalled send keeps the peer and its turn: the id goes back to the tail of the rotation *)
Theorem send_stall_keeps_turn : forall st m k st', send st m = (RStall k, st') ->
  pget k (r_peers st') <> None /\
  exists skipped rest, r_rr st = skipped ++ k :: rest /\ r_rr st' = rest ++ [k] /\
    (forall j, In j skipped -> pget j (r_peers st) = None).
Proof.
  intros st m k st' H. apply send_post_of_send in H. destruct H as (pre & post & Hrr & Hpre & H).
  destruct H as (rest & p & s & -> & Hp & Hs & ->). cbn [r_peers r_rr]. split.
  - rewrite (pget_pset_same _ _ _ _ Hp). discriminate.
  - exists pre, rest. split; [exact Hrr|]. split; [reflexivity|exact Hpre].
Qed.

(** 6. rotation over connections that accept every write *)
Theorem rr_rotation_step : forall st m k rest, all_accepting st -> r_rr st = k :: rest ->
  pget k (r_peers st) <> None -> lenN (encode_frames m) < 2 ^ 63 ->
  exists st', send st m = (ROk k, st') /\ r_rr st' = rest ++ [k] /\ all_accepting st' /\
    map p_id (r_peers st') = map p_id (r_peers st).
Proof.
  intros [peers rr gone] m k rest Ha Hrr Hk Hl. cbn [r_rr r_peers] in Hrr, Hk. subst rr.
  destruct (pget k peers) as [p|] eqn:Ep; [clear Hk|congruence].
  destruct (Ha p (pget_In _ _ _ Ep)) as [Ht Hb].
  destruct (sink_send_accepting _ _ Ht Hb Hl) as (s' & Hs & Hb' & Ht' & _).
  unfold send. cbn [r_rr length rr_send r_peers r_gone]. rewrite Ep, Hs.
  eexists. split; [reflexivity|]. cbn [r_rr r_peers]. split; [reflexivity|]. split.
  - intros q Hq. apply In_pset in Hq as [->|Hq]; [cbn [p_sink]; auto|apply Ha; exact Hq].
  - apply ids_pset.
Qed.

Lemma rr_round_gen : forall ms st a b, all_accepting st -> r_rr st = a ++ b ->
  (forall k, In k (r_rr st) -> pget k (r_peers st) <> None) ->
  length ms = length a -> Forall (fun m => lenN (encode_frames m) < 2 ^ 63) ms ->
  fst (rrun st (map RSend ms)) = map ROk a /\ r_rr (snd (rrun st (map RSend ms))) = b ++ a.
Proof.
  induction ms as [|m ms IH]; intros st a b Ha Hrr Hlive Hlen Hsm.
  - destruct a; [|discriminate]. cbn [map rrun fst snd]. rewrite app_nil_r. auto.
  - destruct a as [|k a]; [discriminate|]. cbn [app] in Hrr. inversion Hsm as [|? ? Hm Hms]; subst.
    destruct (rr_rotation_step st m k (a ++ b) Ha Hrr) as (st1 & Hs & Hrr1 & Ha1 & Hids);
      [apply Hlive; rewrite Hrr; left; reflexivity|exact Hm|].
    rewrite <- app_assoc in Hrr1.
    destruct (IH st1 a (b ++ [k]) Ha1 Hrr1) as [IH1 IH2].
    + intros j Hj Hn. apply pget_none_iff in Hn. unfold ids in Hn. rewrite Hids in Hn.
      apply (Hlive j); [|apply pget_none_iff; exact Hn].
      rewrite Hrr. rewrite Hrr1 in Hj. rewrite !in_app_iff in Hj. cbn [In] in *. rewrite in_app_iff. tauto.
    + cbn [length] in Hlen. congruence.
    + exact Hms.
    + cbn [map rrun rstep]. rewrite Hs. destruct (rrun st1 (map RSend ms)) as [rs st2].
      cbn [fst snd app] in *. rewrite IH1, IH2, <- app_assoc. split; reflexivity.
Qed.

Theorem rr_full_round : forall ms st, all_accepting st -> NoDup (r_rr st) ->
  (forall k, In k (r_rr st) -> pget k (r_peers st) <> None) ->
  length ms = length (r_rr st) -> Forall (fun m => lenN (encode_frames m) < 2 ^ 63) ms ->
  fst (rrun st (map RSend ms)) = map ROk (r_rr st) /\ r_rr (snd (rrun st (map RSend ms))) = r_rr st.
Proof.
  intros ms st Ha _ Hlive Hlen Hsm.
  destruct (rr_round_gen ms st (r_rr st) [] Ha (eq_sym (app_nil_r _)) Hlive Hlen Hsm) as [H1 H2].
  split; [exact H1|exact H2].
Qed.

(** * Auxiliary facts: the history of one connection *)

Definition inv (st : rstate) : Prop :=
  NoDup (ids (r_peers st)) /\ forall k, In k (ids (r_peers st)) -> ~ In k (ids (r_gone st)).
Definition fresh (ops : list rop) (st : rstate) : Prop :=
  NoDup (attached ops) /\
  forall j, In j (attached ops) -> ~ In j (ids (r_peers st)) /\ ~ In j (ids (r_gone st)).

Lemma ids_snoc l x : ids (l ++ [x]) = ids l ++ [p_id x].
Proof. unfold ids. rewrite map_app. reflexivity. Qed.

Lemma inv_fresh_same ops st st1 : ids (r_peers st1) = ids (r_peers st) -> ids (r_gone st1) = ids (r_gone st) ->
  inv st -> fresh ops st -> inv st1 /\ fresh ops st1.
Proof. unfold inv, fresh. intros -> ->. tauto. Qed.

Lemma inv_fresh_move ops peers rr rr' gone k x : In k (ids peers) -> p_id x = k ->
  inv {| r_peers := peers; r_rr := rr; r_gone := gone |} ->
  fresh ops {| r_peers := peers; r_rr := rr; r_gone := gone |} ->
  inv {| r_peers := pdel k peers; r_rr := rr'; r_gone := x :: gone |} /\
  fresh ops {| r_peers := pdel k peers; r_rr := rr'; r_gone := x :: gone |}.
Proof.
  unfold inv, fresh. cbn [r_peers r_gone ids map]. fold (ids gone). intros Hk Hx [Hd Hdis] [Hnd Hfr].
  rewrite Hx. split; split.
  - apply NoDup_pdel; exact Hd.
  - intros j Hj. destruct (In_ids_pdel _ _ _ Hd Hj) as [Hj1 Hj2]. cbn [In]. intros [E|Hg]; [congruence|].
    exact (Hdis j Hj1 Hg).
  - exact Hnd.
  - intros j Hj. destruct (Hfr j Hj) as [F1 F2]. split.
    + intros Hi. apply (In_ids_pdel _ _ _ Hd) in Hi. tauto.
    + cbn [In]. intros [E|Hg]; [subst j; tauto|tauto].
Qed.

Lemma rstep_inv st o ops ro st1 : rstep st o = (ro, st1) -> inv st -> fresh (o :: ops) st ->
  inv st1 /\ fresh ops st1.
Proof.
  destruct st as [peers rr gone]. destruct o as [k|k|k a|k l|m]; cbn [rstep r_peers r_rr r_gone]; intros H Hi Hf.
  - inversion H; subst; clear H. destruct Hi as [Hd Hdis]. destruct Hf as [Hnd Hfr].
    cbn [attached flat_map app] in Hnd, Hfr. fold (attached ops) in Hnd, Hfr.
    cbn [r_peers r_gone] in *. apply NoDup_cons_iff in Hnd as [Hk Hnd].
    destruct (Hfr k (or_introl eq_refl)) as [Fk1 Fk2].
    pose proof (proj2 (pget_none_iff k peers) Fk1) as Gk.
    unfold inv, fresh. cbn [r_peers r_gone]. rewrite Gk, (pdel_none _ _ Gk), !ids_snoc. cbn [p_id].
    split; split.
    + apply NoDup_snoc; assumption.
    + intros j Hj. apply in_app_iff in Hj as [Hj|[<-|[]]]; [apply Hdis; exact Hj|exact Fk2].
    + exact Hnd.
    + intros j Hj. destruct (Hfr j (or_intror Hj)) as [F1 F2]. split; [|exact F2].
      rewrite in_app_iff. cbn [In]. intros [Hi|[<-|[]]]; tauto.
  - destruct (pget k peers) as [p|] eqn:Ep; inversion H; subst; clear H.
    + apply inv_fresh_move with (rr := rr); [eapply pget_some_ids; exact Ep|eapply pget_id; exact Ep|exact Hi|exact Hf].
    + split; [exact Hi|exact Hf].
  - inversion H; subst; clear H. apply (inv_fresh_same _ {| r_peers := peers; r_rr := rr; r_gone := gone |});
      cbn [r_peers r_gone]; [apply ids_retr|reflexivity|exact Hi|exact Hf].
  - inversion H; subst; clear H. apply (inv_fresh_same _ {| r_peers := peers; r_rr := rr; r_gone := gone |});
      cbn [r_peers r_gone]; [apply ids_retr|reflexivity|exact Hi|exact Hf].
  - destruct (send {| r_peers := peers; r_rr := rr; r_gone := gone |} m) as [r st'] eqn:Es.
    inversion H; subst; clear H. apply send_post_of_send in Es.
    destruct Es as (pre & post & Hrr & Hpre & Es). cbn [r_peers r_rr r_gone] in *.
    change (fresh (RSend m :: ops)) with (fresh ops) in Hf.
    destruct r as [k|k e| |k].
    + destruct Es as (rest & p & s & -> & Hp & Hs & ->).
      apply (inv_fresh_same _ {| r_peers := peers; r_rr := rr; r_gone := gone |});
        cbn [r_peers r_gone]; [apply ids_pset|reflexivity|exact Hi|exact Hf].
    + destruct Es as (rest & p & s & -> & Hp & Hs & _ & _ & ->).
      apply inv_fresh_move with (rr := rr); [eapply pget_some_ids; exact Hp|reflexivity|exact Hi|exact Hf].
    + destruct Es as (-> & ->).
      apply (inv_fresh_same _ {| r_peers := peers; r_rr := rr; r_gone := gone |});
        cbn [r_peers r_gone]; [reflexivity|reflexivity|exact Hi|exact Hf].
    + destruct Es as (rest & p & s & -> & Hp & Hs & ->).
      apply (inv_fresh_same _ {| r_peers := peers; r_rr := rr; r_gone := gone |});
        cbn [r_peers r_gone]; [apply ids_pset|reflexivity|exact Hi|exact Hf].
Qed.

(** what is observable of connection k: (written, buffered) while held, written once let go *)
Definition pv (o : option rpeer) : option (bytes * bytes) :=
  match o with Some p => Some (k_written (p_sink p), k_buf (p_sink p)) | None => None end.
Definition same_k (k : N) (st st1 : rstate) : Prop :=
  pv (pget k (r_peers st1)) = pv (pget k (r_peers st)) /\ pv (pget k (r_gone st1)) = pv (pget k (r_gone st)).
Definition pending (k : N) (st : rstate) : bytes :=
  match pget k (r_peers st) with Some p => k_buf (p_sink p) | None => [] end.

Definition HP (k : N) (st : rstate) (asg : list World.msg) (C : Prop) (st' : rstate) : Prop :=
  (pget k (r_peers st) = None -> pget k (r_gone st) <> None -> asg = [] /\ wire_of k st' = wire_of k st) /\
  exists tail, wire_of k st' ++ tail = wire_of k st ++ pending k st ++ concat (map encode_frames asg) /\
    (C -> pending k st = [] -> tail = []).

Lemma same_k_facts k st st1 : same_k k st st1 ->
  wire_of k st1 = wire_of k st /\ pending k st1 = pending k st /\
  (pget k (r_peers st) = None -> pget k (r_peers st1) = None) /\
  (pget k (r_gone st1) = None -> pget k (r_gone st) = None).
Proof.
  unfold same_k, wire_of, pending. intros [H1 H2].
  destruct (pget k (r_peers st1)), (pget k (r_peers st)); cbn [pv] in H1; try discriminate;
  destruct (pget k (r_gone st1)), (pget k (r_gone st)); cbn [pv] in H2; try discriminate;
  try (inversion H1); try (inversion H2); repeat split; intros; congruence.
Qed.

Lemma HP_same k st st1 asg (C C1 : Prop) st' : same_k k st st1 -> (C -> C1) ->
  HP k st1 asg C1 st' -> HP k st asg C st'.
Proof.
  intros Hs Hc [Hg (tail & Ht & Hc1)]. destruct (same_k_facts _ _ _ Hs) as (Hw & Hp & Hn1 & Hn2). split.
  - intros A B. rewrite <- Hw. apply Hg; [apply Hn1; exact A|]. intros E. apply B. apply Hn2. exact E.
  - exists tail. rewrite <- Hw, <- Hp. split; [exact Ht|]. intros X Y. apply Hc1; [apply Hc; exact X|exact Y].
Qed.

Lemma pv_retr k j f l : pv (pget k (retr j f l)) = pv (pget k l).
Proof.
  unfold retr. destruct (pget j l) as [p|] eqn:E; [|reflexivity].
  destruct (N.eq_dec k j) as [->|Hn].
  - rewrite (pget_pset_same _ _ _ _ E), E. reflexivity.
  - rewrite pget_pset_other by exact Hn. reflexivity.
Qed.

Lemma send_same_k st m r st1 k : send st m = (r, st1) -> targets k r = false -> same_k k st st1.
Proof.
  intros H Hj. apply send_post_of_send in H. destruct H as (pre & post & Hrr & Hpre & H).
  unfold same_k. destruct r as [j|j e| |j]; cbn [targets] in Hj.
  - destruct H as (rest & p & s & -> & Hp & Hs & ->). apply N.eqb_neq in Hj.
    cbn [r_peers r_gone]. rewrite pget_pset_other by congruence. split; reflexivity.
  - destruct H as (rest & p & s & -> & Hp & Hs & _ & _ & ->).
    cbn [r_peers r_gone pget p_id]. rewrite Hj. apply N.eqb_neq in Hj.
    rewrite pget_pdel_other by congruence. split; reflexivity.
  - destruct H as (-> & ->). cbn [r_peers r_gone]. split; reflexivity.
  - destruct H as (rest & p & s & -> & Hp & Hs & ->). apply N.eqb_neq in Hj.
    cbn [r_peers r_gone]. rewrite pget_pset_other by congruence. split; reflexivity.
Qed.

Lemma hist_gen : forall ops st rs st', inv st -> fresh ops st -> rrun st ops = (rs, st') -> forall k,
  HP k st (assigned k ops rs) (forall r, In r rs -> targets k r = true -> r = ROk k) st'.
Proof.
  induction ops as [|o ops IH]; intros st rs st' Hinv Hfr Hrun k.
  - cbn [rrun] in Hrun. inversion Hrun; subst. cbn [assigned]. split; [intros; split; reflexivity|].
    exists (pending k st'). cbn [map concat]. rewrite app_nil_r. split; [reflexivity|auto].
  - cbn [rrun] in Hrun. destruct (rstep st o) as [ro st1] eqn:Est.
    destruct (rrun st1 ops) as [rs1 st2] eqn:Erun. inversion Hrun; subst rs st2; clear Hrun.
    destruct (rstep_inv _ _ _ _ _ Est Hinv Hfr) as [Hinv1 Hfr1].
    specialize (IH _ _ _ Hinv1 Hfr1 Erun k).
    destruct st as [peers rr gone].
    destruct o as [j|j|j a|j l|m]; cbn [rstep r_peers r_rr r_gone] in Est.
    + (* RAttach *)
      inversion Est; subst ro st1; clear Est. cbn [app assigned].
      destruct (N.eq_dec j k) as [->|Hne].
      * destruct Hfr as [_ Hfr]. destruct (Hfr k (or_introl eq_refl)) as [F1 F2]. cbn [r_peers r_gone] in F1, F2.
        apply pget_none_iff in F1, F2. rewrite (pdel_none _ _ F1), F1 in IH.
        destruct IH as [_ (tail & IHt & IHc)]. split; [cbn [r_gone]; intros _ B; congruence|].
        exists tail. unfold wire_of, pending in *. cbn [r_peers r_gone] in *.
        rewrite pget_app, F1 in IHt, IHc. cbn [pget p_id] in IHt, IHc. rewrite N.eqb_refl in IHt, IHc.
        rewrite F1, F2. split; [exact IHt|exact IHc].
      * eapply HP_same; [|intros X; exact X|exact IH]. unfold same_k. cbn [r_peers r_gone].
        rewrite pget_app, pget_pdel_other by congruence. split.
        -- destruct (pget k peers); [reflexivity|].
           cbn [pget p_id]. replace (j =? k) with false by (symmetry; apply N.eqb_neq; exact Hne). reflexivity.
        -- destruct (pget j peers) as [q|] eqn:Eq; [|reflexivity]. cbn [pget]. rewrite (pget_id _ _ _ Eq).
           replace (j =? k) with false by (symmetry; apply N.eqb_neq; exact Hne). reflexivity.
    + (* RLost *)
      destruct (pget j peers) as [p|] eqn:Ep; inversion Est; subst ro st1; clear Est; cbn [app assigned].
      2:{ eapply HP_same; [|intros X; exact X|exact IH]. split; reflexivity. }
      pose proof (pget_id _ _ _ Ep) as Hid.
      destruct (N.eq_dec j k) as [->|Hne].
      * destruct IH as [IHg _]. cbn [r_peers r_gone pget] in IHg. rewrite Hid, N.eqb_refl in IHg.
        destruct IHg as [Ha Hw]; [apply pget_pdel_same; exact (proj1 Hinv)|discriminate|].
        split; [cbn [r_peers]; intros A; congruence|].
        rewrite Ha, Hw. unfold wire_of, pending. cbn [r_peers r_gone pget].
        rewrite (pget_pdel_same k peers (proj1 Hinv)), Ep, Hid, N.eqb_refl.
        exists (k_buf (p_sink p)). cbn [map concat]. rewrite app_nil_r. split; [reflexivity|auto].
      * eapply HP_same; [|intros X; exact X|exact IH]. unfold same_k. cbn [r_peers r_gone pget].
        rewrite Hid. replace (j =? k) with false by (symmetry; apply N.eqb_neq; exact Hne).
        rewrite pget_pdel_other by congruence. split; reflexivity.
    + (* RMode *)
      inversion Est; subst ro st1; clear Est. cbn [app assigned].
      eapply HP_same; [|intros X; exact X|exact IH]. unfold same_k. cbn [r_peers r_gone].
      split; [apply pv_retr|reflexivity].
    + (* RPlan *)
      inversion Est; subst ro st1; clear Est. cbn [app assigned].
      eapply HP_same; [|intros X; exact X|exact IH]. unfold same_k. cbn [r_peers r_gone].
      split; [apply pv_retr|reflexivity].
    + (* RSend *)
      destruct (send {| r_peers := peers; r_rr := rr; r_gone := gone |} m) as [r st1'] eqn:Es.
      inversion Est; subst ro st1'; clear Est. cbn [app assigned].
      destruct (targets k r) eqn:Et.
      2:{ cbn [app]. eapply HP_same; [eapply send_same_k; eassumption| |exact IH].
          intros X r0 Hr0. apply X. right. exact Hr0. }
      apply send_post_of_send in Es. destruct Es as (pre & post & Hrr & Hpre & Es).
      cbn [r_peers r_rr r_gone] in *.
      destruct r as [j|j e| |j]; cbn [targets] in Et; try discriminate; apply N.eqb_eq in Et; subst j.
      * (* ROk k *)
        destruct Es as (rest & p & s & -> & Hp & Hs & ->). apply sink_send_spec in Hs.
        destruct Hs as (S1 & _ & S3). specialize (S3 eq_refl).
        destruct IH as [_ (tail & IHt & IHc)]. split; [cbn [r_peers]; intros A; congruence|].
        unfold wire_of, pending in *. cbn [r_peers r_gone] in *.
        rewrite (pget_pset_same _ _ _ _ Hp) in IHt, IHc. cbn [p_sink] in IHt, IHc. rewrite Hp.
        exists tail. split.
        -- rewrite IHt. cbn [app map concat]. rewrite !app_assoc. rewrite <- (app_assoc (k_written (p_sink p))).
           rewrite <- S1. reflexivity.
        -- intros X _. apply IHc; [|exact S3]. intros r0 Hr0. apply X. right. exact Hr0.
      * (* RErr k *)
        destruct Es as (rest & p & s & -> & Hp & Hs & _ & _ & ->). apply sink_send_spec in Hs.
        destruct Hs as (S1 & _ & _).
        destruct IH as [IHg _]. cbn [r_peers r_gone pget p_id] in IHg. rewrite N.eqb_refl in IHg.
        destruct IHg as [Ha Hw]; [apply pget_pdel_same; exact (proj1 Hinv)|discriminate|].
        split; [cbn [r_peers]; intros A; congruence|].
        rewrite Ha, Hw. unfold wire_of, pending. cbn [r_peers r_gone pget p_id p_sink].
        rewrite (pget_pdel_same k peers (proj1 Hinv)), Hp, N.eqb_refl. cbn [p_sink].
        exists (k_buf s). cbn [app map concat]. rewrite app_nil_r. split; [exact S1|].
        intros X _. specialize (X (RErr k e) (or_introl eq_refl)). cbn [targets] in X.
        rewrite N.eqb_refl in X. specialize (X eq_refl). discriminate.
      * (* RStall k *)
        destruct Es as (rest & p & s & -> & Hp & Hs & ->). apply sink_send_spec in Hs.
        destruct Hs as (S1 & _ & _).
        destruct IH as [_ (tail & IHt & _)]. split; [cbn [r_peers]; intros A; congruence|].
        unfold wire_of, pending in *. cbn [r_peers r_gone] in *.
        rewrite (pget_pset_same _ _ _ _ Hp) in IHt. cbn [p_sink] in IHt. rewrite Hp.
        exists tail. split.
        -- rewrite IHt. cbn [app map concat]. rewrite !app_assoc. rewrite <- (app_assoc (k_written (p_sink p))).
           rewrite <- S1. reflexivity.
        -- intros X _. specialize (X (RStall k) (or_introl eq_refl)). cbn [targets] in X.
           rewrite N.eqb_refl in X. specialize (X eq_refl). discriminate.
Qed.

Lemma hist_from_start ops rs st : NoDup (attached ops) -> rrun rstate0 ops = (rs, st) -> forall k,
  exists tail, wire_of k st ++ tail = concat (map encode_frames (assigned k ops rs)) /\
    ((forall r, In r rs -> targets k r = true -> r = ROk k) -> tail = []).
Proof.
  intros Hnd Hrun k.
  assert (Hi : inv rstate0) by (split; [constructor|intros j []]).
  assert (Hf : fresh ops rstate0) by (split; [exact Hnd|intros j _; split; intros []]).
  destruct (hist_gen ops rstate0 rs st Hi Hf Hrun k) as [_ (tail & Ht & Hc)].
  exists tail. split; [exact Ht|]. intros X. apply Hc; [exact X|reflexivity].
Qed.

(** 7. history: whatever the connections do, what is on connection k's wire is a prefix of the concatenation of
    exactly the messages the loop gave to k, in order; *)
Theorem rr_history_prefix : forall ops rs st, NoDup (attached ops) -> rrun rstate0 ops = (rs, st) ->
  forall k, exists tail, wire_of k st ++ tail = concat (map encode_frames (assigned k ops rs)).
Proof.
  intros ops rs st Hnd Hrun k. destruct (hist_from_start ops rs st Hnd Hrun k) as (tail & Ht & _).
  exists tail. exact Ht.
Qed.

(** ... and it is all of them when no send to k failed or stalled *)
Theorem rr_history_complete : forall ops rs st, NoDup (attached ops) -> rrun rstate0 ops = (rs, st) ->
  forall k, (forall r, In r rs -> targets k r = true -> r = ROk k) ->
  wire_of k st = concat (map encode_frames (assigned k ops rs)).
Proof.
  intros ops rs st Hnd Hrun k Hc. destruct (hist_from_start ops rs st Hnd Hrun k) as (tail & Ht & Htl).
  rewrite (Htl Hc), app_nil_r in Ht. exact Ht.
Qed.

Lemma same_k_gone k st st1 : same_k k st st1 -> pget k (r_peers st) = None ->
  pget k (r_peers st1) = None /\ wire_of k st1 = wire_of k st.
Proof. intros Hs Hk. destruct (same_k_facts _ _ _ Hs) as (Hw & _ & Hn & _). split; [apply Hn; exact Hk|exact Hw]. Qed.

Lemma rstep_gone st o ro st1 k : rstep st o = (ro, st1) -> pget k (r_peers st) = None ->
  (forall j, o = RAttach j -> j <> k) ->
  (forall r, ro = Some r -> targets k r = false) /\ pget k (r_peers st1) = None /\ wire_of k st1 = wire_of k st.
Proof.
  intros H Hk Hat. destruct o as [j|j|j a|j l|m]; cbn [rstep] in H.
  - inversion H; subst ro st1; clear H. split; [discriminate|]. apply same_k_gone; [|exact Hk].
    assert (Hne : j <> k) by (apply Hat; reflexivity).
    unfold same_k. cbn [r_peers r_gone]. rewrite pget_app, pget_pdel_other, Hk by congruence. cbn [pget p_id].
    replace (j =? k) with false by (symmetry; apply N.eqb_neq; exact Hne). split; [reflexivity|].
    destruct (pget j (r_peers st)) as [q|] eqn:Eq; [|reflexivity]. cbn [pget]. rewrite (pget_id _ _ _ Eq).
    replace (j =? k) with false by (symmetry; apply N.eqb_neq; exact Hne). reflexivity.
  - inversion H; subst ro st1; clear H. split; [discriminate|]. apply same_k_gone; [|exact Hk].
    destruct (pget j (r_peers st)) as [p|] eqn:Ej; [|split; reflexivity].
    assert (Hne : j <> k) by (intros ->; congruence).
    unfold same_k. cbn [r_peers r_gone pget]. rewrite (pget_id _ _ _ Ej).
    replace (j =? k) with false by (symmetry; apply N.eqb_neq; exact Hne).
    rewrite pget_pdel_other by congruence. split; reflexivity.
  - inversion H; subst ro st1; clear H. split; [discriminate|]. apply same_k_gone; [|exact Hk].
    unfold same_k. cbn [r_peers r_gone]. split; [apply pv_retr|reflexivity].
  - inversion H; subst ro st1; clear H. split; [discriminate|]. apply same_k_gone; [|exact Hk].
    unfold same_k. cbn [r_peers r_gone]. split; [apply pv_retr|reflexivity].
  - destruct (send st m) as [r st1'] eqn:Es. inversion H; subst ro st1'; clear H.
    assert (Et : targets k r = false).
    { destruct (targets k r) eqn:Et; [|reflexivity]. exfalso.
      exact (proj2 (send_rotation_shrinks _ _ _ _ Es) k Et Hk). }
    destruct (send_touches_one _ _ _ _ Es k Et) as [Hw Hp].
    split; [intros r0 E; inversion E; subst; exact Et|]. split; [rewrite Hp; exact Hk|exact Hw].
Qed.

(** once the socket has let go of connection k - for whatever reason - nothing is ever routed to it again,
    it stays released and its wire does not change *)
Theorem gone_never_targeted : forall ops st rs st' k,
  pget k (r_peers st) = None -> ~ In k (attached ops) -> rrun st ops = (rs, st') ->
  (forall r, In r rs -> targets k r = false) /\ pget k (r_peers st') = None /\ wire_of k st' = wire_of k st.
Proof.
  induction ops as [|o ops IH]; intros st rs st' k Hk Hat Hrun; cbn [rrun] in Hrun.
  - inversion Hrun; subst. split; [intros r []|]. split; [exact Hk|reflexivity].
  - destruct (rstep st o) as [ro st1] eqn:Est. destruct (rrun st1 ops) as [rs1 st2] eqn:Erun.
    inversion Hrun; subst rs st2; clear Hrun.
    cbn [attached flat_map] in Hat. fold (attached ops) in Hat. rewrite in_app_iff in Hat.
    destruct (rstep_gone _ _ _ _ k Est Hk) as (Hr & Hk1 & Hw1).
    { intros j -> ->. apply Hat. left. left. reflexivity. }
    destruct (IH st1 rs1 st' k Hk1 (fun X => Hat (or_intror X)) Erun) as (Hrs & Hk2 & Hw2).
    split; [|split; [exact Hk2|rewrite Hw2; exact Hw1]].
    intros r Hin. apply in_app_iff in Hin as [Hin|Hin]; [|apply Hrs; exact Hin].
    destruct ro as [r0|]; [|destruct Hin]. destruct Hin as [<-|[]]. apply Hr. reflexivity.
Qed.

(** in particular after a failed write: whatever happens afterwards *)
Theorem failed_never_targeted : forall st m k e st1 ops rs st2,
  NoDup (map p_id (r_peers st)) -> NoDup (r_rr st) ->
  send st m = (RErr k e, st1) -> ~ In k (attached ops) -> rrun st1 ops = (rs, st2) ->
  (forall r, In r rs -> targets k r = false) /\ pget k (r_peers st2) = None /\ wire_of k st2 = wire_of k st1.
Proof.
  intros st m k e st1 ops rs st2 Hd Hr Hs Hat Hrun.
  destruct (send_err_forgets _ _ _ _ _ Hs Hd Hr) as (Hk & _ & _).
  exact (gone_never_targeted ops st1 rs st2 k Hk Hat Hrun).
Qed.

(** * Every reachable state (any history of attaches - including a peer that re-joins under its identity while an entry of
      that identity is still queued -, losses, script changes and sends) *)

(** the rotation never holds an identity twice, the table never holds one twice, and every peer of the table is queued *)
Definition rinv (st : rstate) : Prop :=
  NoDup (r_rr st) /\ NoDup (ids (r_peers st)) /\ (forall k, In k (ids (r_peers st)) -> In k (r_rr st)).

Lemma existsb_eqb_In k l : existsb (N.eqb k) l = true <-> In k l.
Proof.
  rewrite existsb_exists. split.
  - intros (x & Hx & E). apply N.eqb_eq in E. subst x. exact Hx.
  - intros H. exists k. split; [exact H|apply N.eqb_refl].
Qed.

Lemma NoDup_app_tail (l l' : list N) : NoDup (l ++ l') -> NoDup l'.
Proof.
  induction l as [|a t IH]; cbn [app]; [auto|]. intros H. apply NoDup_cons_iff in H. tauto.
Qed.

Lemma send_rinv st m r st' : send st m = (r, st') -> rinv st -> rinv st'.
Proof.
  intros H (Hr & Hd & Hq). apply send_post_of_send in H. destruct H as (pre & post & Hrr & Hpre & H).
  assert (Hq' : forall j, In j (ids (r_peers st)) -> In j post).
  { intros j Hj. pose proof (Hq j Hj) as Hj'. rewrite Hrr in Hj'. apply in_app_iff in Hj' as [Hj'|Hj']; [|exact Hj'].
    exfalso. apply Hpre in Hj'. apply pget_none_iff in Hj'. tauto. }
  rewrite Hrr in Hr. apply NoDup_app_tail in Hr.
  destruct r as [k|k e| |k].
  - destruct H as (rest & p & s & -> & Hp & Hs & ->). unfold rinv. cbn [r_rr r_peers]. rewrite ids_pset.
    apply NoDup_cons_iff in Hr as [Hk Hr].
    split; [apply NoDup_snoc; assumption|]. split; [exact Hd|].
    intros j Hj. apply Hq' in Hj. apply in_app_iff. cbn [In] in *. tauto.
  - destruct H as (rest & p & s & -> & Hp & Hs & _ & _ & ->). unfold rinv. cbn [r_rr r_peers].
    apply NoDup_cons_iff in Hr as [Hk Hr].
    split; [exact Hr|]. split; [apply NoDup_pdel; exact Hd|].
    intros j Hj. apply (In_ids_pdel _ _ _ Hd) in Hj as [Hj Hne]. apply Hq' in Hj.
    destruct Hj as [E|Hj]; [congruence|exact Hj].
  - destruct H as (-> & ->). unfold rinv. cbn [r_rr r_peers].
    split; [constructor|]. split; [exact Hd|]. intros j Hj. exact (Hq' j Hj).
  - destruct H as (rest & p & s & -> & Hp & Hs & ->). unfold rinv. cbn [r_rr r_peers]. rewrite ids_pset.
    apply NoDup_cons_iff in Hr as [Hk Hr].
    split; [apply NoDup_snoc; assumption|]. split; [exact Hd|].
    intros j Hj. apply Hq' in Hj. apply in_app_iff. cbn [In] in *. tauto.
Qed.

Lemma rstep_rinv st o : rinv st -> rinv (snd (rstep st o)).
Proof.
  intros (Hr & Hd & Hq). destruct o as [k|k|k a|k l|m]; cbn [rstep snd].
  - unfold rinv. cbn [r_rr r_peers]. rewrite ids_snoc. cbn [p_id].
    assert (Hsub : forall j, In j (r_rr st) ->
              In j (if existsb (N.eqb k) (r_rr st) then r_rr st else r_rr st ++ [k])).
    { intros j Hj. destruct (existsb (N.eqb k) (r_rr st)); [exact Hj|apply in_app_iff; left; exact Hj]. }
    split; [|split].
    + destruct (existsb (N.eqb k) (r_rr st)) eqn:E; [exact Hr|]. apply NoDup_snoc; [exact Hr|].
      intros Hi. apply existsb_eqb_In in Hi. congruence.
    + apply NoDup_snoc; [apply NoDup_pdel; exact Hd|]. intros Hi. apply (In_ids_pdel _ _ _ Hd) in Hi. tauto.
    + intros j Hj. apply in_app_iff in Hj as [Hj|[<-|[]]].
      * apply Hsub, Hq. apply (In_ids_pdel _ _ _ Hd) in Hj. tauto.
      * destruct (existsb (N.eqb k) (r_rr st)) eqn:E; [apply existsb_eqb_In; exact E|].
        apply in_app_iff; right; left; reflexivity.
  - destruct (pget k (r_peers st)) as [p|]; [|exact (conj Hr (conj Hd Hq))]. unfold rinv. cbn [r_rr r_peers].
    split; [exact Hr|]. split; [apply NoDup_pdel; exact Hd|].
    intros j Hj. apply Hq. apply (In_ids_pdel _ _ _ Hd) in Hj. tauto.
  - unfold rinv. cbn [r_rr r_peers]. rewrite ids_retr. auto.
  - unfold rinv. cbn [r_rr r_peers]. rewrite ids_retr. auto.
  - destruct (send st m) as [r st'] eqn:Es. cbn [snd]. exact (send_rinv _ _ _ _ Es (conj Hr (conj Hd Hq))).
Qed.

Lemma rrun_rinv : forall ops st rs st', rinv st -> rrun st ops = (rs, st') -> rinv st'.
Proof.
  induction ops as [|o ops IH]; intros st rs st' Hi Hrun; cbn [rrun] in Hrun.
  - inversion Hrun; subst. exact Hi.
  - pose proof (rstep_rinv st o Hi) as Hi1. destruct (rstep st o) as [ro st1]. cbn [snd] in Hi1.
    destruct (rrun st1 ops) as [rs1 st2] eqn:Erun. inversion Hrun; subst. exact (IH _ _ _ Hi1 Erun).
Qed.

Theorem rr_reachable_inv : forall ops rs st, rrun rstate0 ops = (rs, st) ->
  NoDup (r_rr st) /\ NoDup (map p_id (r_peers st)) /\ (forall p, In p (r_peers st) -> In (p_id p) (r_rr st)).
Proof.
  intros ops rs st Hrun.
  assert (H0 : rinv rstate0) by (split; [constructor|split; [constructor|intros k []]]).
  destruct (rrun_rinv ops rstate0 rs st H0 Hrun) as (Hr & Hd & Hq).
  split; [exact Hr|]. split; [exact Hd|]. intros p Hp. apply Hq. unfold ids. apply in_map. exact Hp.
Qed.

(** a peer that re-joins while an entry of its identity is still queued takes that entry over *)
Theorem rejoin_takes_over_entry : forall st k, In k (r_rr st) ->
  r_rr (snd (rstep st (RAttach k))) = r_rr st /\ pget k (r_peers (snd (rstep st (RAttach k)))) <> None.
Proof.
  intros st k Hk. cbn [rstep snd r_rr r_peers]. apply existsb_eqb_In in Hk. rewrite Hk. split; [reflexivity|].
  rewrite pget_app. destruct (pget k (pdel k (r_peers st))); [discriminate|].
  cbn [pget p_id]. rewrite N.eqb_refl. discriminate.
Qed.

Definition is_live (st : rstate) (k : N) : bool := match pget k (r_peers st) with Some _ => true | None => false end.

Lemma is_live_ids st st1 : ids (r_peers st1) = ids (r_peers st) -> forall k, is_live st1 k = is_live st k.
Proof.
  intros Hids k. unfold is_live.
  destruct (pget k (r_peers st1)) eqn:E1, (pget k (r_peers st)) eqn:E; try reflexivity; exfalso.
  - apply pget_some_ids in E1. apply pget_none_iff in E. rewrite Hids in E1. tauto.
  - apply pget_some_ids in E. apply pget_none_iff in E1. rewrite Hids in E1. tauto.
Qed.

(** the loop skips (and drops) queued ids that name no peer of the table *)
Lemma rr_send_skip : forall pre fuel peers k rest gone enc p s,
  (forall j, In j pre -> pget j peers = None) -> pget k peers = Some p -> sink_send (p_sink p) enc = (FlOk, s) ->
  (length pre < fuel)%nat ->
  rr_send fuel {| r_peers := peers; r_rr := pre ++ k :: rest; r_gone := gone |} enc =
    (ROk k, {| r_peers := pset k s peers; r_rr := rest ++ [k]; r_gone := gone |}).
Proof.
  induction pre as [|j pre IH]; intros fuel peers k rest gone enc p s Hpre Hp Hs Hf;
    (destruct fuel as [|f]; [cbn [length] in Hf; lia|]); cbn [app rr_send r_rr r_peers r_gone].
  - rewrite Hp, Hs. reflexivity.
  - rewrite (Hpre j (or_introl eq_refl)). apply IH with (p := p); [|exact Hp|exact Hs|cbn [length] in Hf; lia].
    intros i Hi. apply Hpre. right. exact Hi.
Qed.

Lemma rr_rotation_step_stale : forall st m pre k rest, all_accepting st -> r_rr st = pre ++ k :: rest ->
  (forall j, In j pre -> pget j (r_peers st) = None) ->
  pget k (r_peers st) <> None -> lenN (encode_frames m) < 2 ^ 63 ->
  exists st', send st m = (ROk k, st') /\ r_rr st' = rest ++ [k] /\ all_accepting st' /\
    ids (r_peers st') = ids (r_peers st).
Proof.
  intros [peers rr gone] m pre k rest Ha Hrr Hpre Hk Hl. cbn [r_rr r_peers] in Hrr, Hk, Hpre. subst rr.
  destruct (pget k peers) as [p|] eqn:Ep; [clear Hk|congruence].
  destruct (Ha p (pget_In _ _ _ Ep)) as [Ht Hb].
  destruct (sink_send_accepting _ _ Ht Hb Hl) as (s' & Hs & Hb' & Ht' & _).
  unfold send. cbn [r_rr].
  rewrite (rr_send_skip pre _ peers k rest gone _ p s' Hpre Ep Hs) by (rewrite app_length; lia).
  eexists. split; [reflexivity|]. cbn [r_rr r_peers]. split; [reflexivity|]. split.
  - intros q Hq. apply In_pset in Hq as [->|Hq]; [cbn [p_sink]; auto|apply Ha; exact Hq].
  - apply ids_pset.
Qed.

Lemma filter_cons_split (f : N -> bool) : forall a x l, filter f a = x :: l ->
  exists pre a', a = pre ++ x :: a' /\ (forall j, In j pre -> f j = false) /\ f x = true /\ filter f a' = l.
Proof.
  induction a as [|y a IH]; cbn [filter]; intros x l H; [discriminate|].
  destruct (f y) eqn:E.
  - inversion H; subst. exists [], a. split; [reflexivity|]. split; [intros j []|]. split; [exact E|reflexivity].
  - destruct (IH _ _ H) as (pre & a' & -> & H1 & H2 & H3). exists (y :: pre), a'.
    split; [reflexivity|]. split; [|split; assumption]. intros j [<-|Hj]; auto.
Qed.

(** a round over a rotation that may hold stale ids: the live ids are served in queue order *)
Lemma rr_round_stale : forall ms st a b, all_accepting st -> r_rr st = a ++ b ->
  length ms = length (filter (is_live st) a) -> Forall (fun m => lenN (encode_frames m) < 2 ^ 63) ms ->
  fst (rrun st (map RSend ms)) = map ROk (filter (is_live st) a).
Proof.
  induction ms as [|m ms IH]; intros st a b Ha Hrr Hlen Hsm; revert Hlen;
    destruct (filter (is_live st) a) as [|k l] eqn:Ef; intros Hlen; try discriminate; [reflexivity|].
  destruct (filter_cons_split _ _ _ _ Ef) as (pre & a' & -> & Hpre & Hk & Hl).
  inversion Hsm as [|? ? Hm Hms]; subst.
  rewrite <- app_assoc in Hrr. cbn [app] in Hrr.
  destruct (rr_rotation_step_stale st m pre k (a' ++ b) Ha Hrr) as (st1 & Hs & Hrr1 & Ha1 & Hids).
  - intros j Hj. apply Hpre in Hj. unfold is_live in Hj. destruct (pget j (r_peers st)); [discriminate|reflexivity].
  - unfold is_live in Hk. destruct (pget k (r_peers st)); [discriminate|discriminate].
  - exact Hm.
  - rewrite <- app_assoc in Hrr1.
    pose proof (is_live_ids st st1 Hids) as Hlive.
    specialize (IH st1 a' (b ++ [k]) Ha1 Hrr1).
    rewrite (filter_ext _ _ Hlive a') in IH.
    cbn [map rrun rstep]. rewrite Hs. destruct (rrun st1 (map RSend ms)) as [rs st2].
    cbn [fst snd app map] in *. rewrite IH; [reflexivity| |exact Hms]. cbn [length] in Hlen. congruence.
Qed.

(** strict rotation in every reachable state: with n peers whose connections accept, n consecutive sends reach the n peers,
    each exactly once, in queue order *)
Theorem rr_strict_rotation : forall ops rs st ms, rrun rstate0 ops = (rs, st) ->
  all_accepting st -> length ms = length (r_peers st) ->
  Forall (fun m => lenN (encode_frames m) < 2 ^ 63) ms ->
  let live := filter (is_live st) (r_rr st) in
  fst (rrun st (map RSend ms)) = map ROk live /\ NoDup live /\
  (forall p, In p (r_peers st) -> In (p_id p) live) /\ length live = length (r_peers st).
Proof.
  intros ops rs st ms Hrun Ha Hlen Hsm live.
  destruct (rr_reachable_inv _ _ _ Hrun) as (Hr & Hd & Hq).
  assert (Hnd : NoDup live) by (apply NoDup_filter; exact Hr).
  assert (Hin : forall p, In p (r_peers st) -> In (p_id p) live).
  { intros p Hp. apply filter_In. split; [apply Hq; exact Hp|]. unfold is_live.
    destruct (pget (p_id p) (r_peers st)) eqn:E; [reflexivity|]. apply pget_none_iff in E.
    exfalso. apply E. unfold ids. apply in_map. exact Hp. }
  assert (Hll : length live = length (r_peers st)).
  { rewrite <- (map_length p_id (r_peers st)).
    assert (L1 : (length live <= length (map p_id (r_peers st)))%nat).
    { apply NoDup_incl_length; [exact Hnd|]. intros k Hk. apply filter_In in Hk as [_ Hk]. unfold is_live in Hk.
      destruct (pget k (r_peers st)) eqn:E; [|discriminate]. exact (pget_some_ids _ _ _ E). }
    assert (L2 : (length (map p_id (r_peers st)) <= length live)%nat).
    { apply NoDup_incl_length; [exact Hd|]. intros k Hk. apply in_map_iff in Hk as (p & <- & Hp). apply Hin; exact Hp. }
    lia. }
  split; [|split; [exact Hnd|split; [exact Hin|exact Hll]]].
  apply (rr_round_stale ms st (r_rr st) []); [exact Ha|symmetry; apply app_nil_r| |exact Hsm].
  fold live. congruence.
Qed.

(** non-vacuity: three peers, the second one's connection breaks after 3 octets *)
Example rr_example :
  let ops := [RAttach 1; RAttach 2; RAttach 3; RPlan 2 [Wrote 3; WErr 1];
              RSend [[65]]; RSend [[66; 66; 66; 66]]; RSend [[67]]; RSend [[68]]; RSend [[69]]] in
  let '(rs, st) := rrun rstate0 ops in
  rs = [ROk 1; RErr 2 (FlErr 1); ROk 3; ROk 1; ROk 3] /\
  wire_of 1 st = [0; 1; 65; 0; 1; 68] /\ wire_of 2 st = [0; 4; 66] /\ wire_of 3 st = [0; 1; 67; 0; 1; 69] /\
  r_rr st = [1; 3].
Proof. vm_compute. repeat split; reflexivity. Qed.

Print Assumptions flush_all_stream.
Print Assumptions flush_all_ok_empty.
Print Assumptions send_touches_one.
Print Assumptions send_ok_whole.
Print Assumptions send_err_forgets.
Print Assumptions send_nopeer.
Print Assumptions send_rotation_shrinks.
Print Assumptions send_stall_keeps_turn.
Print Assumptions rr_rotation_step.
Print Assumptions rr_full_round.
Print Assumptions rr_history_prefix.
Print Assumptions rr_history_complete.
Print Assumptions gone_never_targeted.
Print Assumptions failed_never_targeted.
Print Assumptions rr_reachable_inv.
Print Assumptions rejoin_takes_over_entry.
Print Assumptions rr_strict_rotation.
Print Assumptions rr_example.
